package main

// HTTP/2 cells: frame-level scripted peer (prior-knowledge cleartext, golang.org/x/net/http2 Framer as the
// reference codec) + the real client forced to HTTP/2.  The peer controls what HEADERS / CONTINUATION /
// DATA (with padding) / trailer frames are written and how their bytes are cut into TCP writes.

import (
	"bytes"
	"context"
	"encoding/binary"
	"fmt"
	"io"
	"net"
	"strings"
	"sync"
	"sync/atomic"
	"time"

	req "github.com/imroc/req/v3"
	"github.com/imroc/req/v3/verifharness/hk"
	"golang.org/x/net/http2"
	"golang.org/x/net/http2/hpack"
)

type h2data struct {
	Off, Len int
	Pad      int
	End      bool
}

type h2opts struct {
	Declare     bool     `json:"declare_length"`   // content-length field sent
	DeclareTr   bool     `json:"declare_trailers"` // trailer field announcing the trailer names
	HdrEnd      bool     `json:"end_stream_on_headers"`
	Data        []h2data `json:"-"`
	NData       int      `json:"data_frames"`
	Padded      int      `json:"padded_frames"`
	EmptyData   int      `json:"empty_data_frames"`
	UseTrailers bool     `json:"trailers_frame"`
	ContFrag    int      `json:"continuation_fragment"` // >0: header blocks are cut into fragments of this size
	Head        bool     `json:"head"`
	TableSize   int      `json:"header_table_size,omitempty"` // SETTINGS_HEADER_TABLE_SIZE announced by the client (customTable)
	customTable bool
	After       string   `json:"after_end,omitempty"` // what the peer does after the response is complete: rst-no-error | rst-cancel | goaway-close | close
	Upload      int      `json:"upload_bytes,omitempty"` // request body (never acknowledged: stays blocked on flow control)
	winAtArrival int64        // the peer's view of the connection-level window when this request arrived
	waitMs      int           // how long the peer waits for flow-control window before giving up (default 20 s)
	barrier     chan struct{} // closed when the client has acknowledged the PING sent after the last scripted frame
	heads       [][]field // wire field lists of every HEADERS frame before the data (interim..., final), with :status first
	trailerWire []field
}

type h2srv struct {
	ln      net.Listener
	scripts sync.Map // id -> *exch
	pings   sync.Map // ping payload -> chan struct{}
	pingSeq atomic.Uint64
}

func newH2Srv() (*h2srv, error) {
	ln, err := net.Listen("tcp", "127.0.0.1:0")
	if err != nil {
		return nil, err
	}
	s := &h2srv{ln: ln}
	go func() {
		for {
			c, err := ln.Accept()
			if err != nil {
				return
			}
			go s.serve(c)
		}
	}()
	return s, nil
}

// segWriter cuts everything written through it into TCP writes at the scripted sizes
type segWriter struct {
	c    net.Conn
	segs func() int // next write size; nil = one write
}

func (w *segWriter) Write(b []byte) (int, error) {
	if w.segs == nil {
		return w.c.Write(b)
	}
	n := 0
	for len(b) > 0 {
		k := w.segs()
		if k <= 0 || k > len(b) {
			k = len(b)
		}
		m, err := w.c.Write(b[:k])
		n += m
		if err != nil {
			return n, err
		}
		b = b[k:]
	}
	return n, nil
}

func (s *h2srv) serve(c net.Conn) {
	defer c.Close()
	if tc, ok := c.(*net.TCPConn); ok {
		tc.SetNoDelay(true)
	}
	c.SetDeadline(time.Now().Add(90 * time.Second))
	preface := make([]byte, len(http2.ClientPreface))
	if _, err := io.ReadFull(c, preface); err != nil || string(preface) != http2.ClientPreface {
		return
	}
	var wbuf bytes.Buffer
	fr := http2.NewFramer(&wbuf, c)
	var hbuf bytes.Buffer
	enc := hpack.NewEncoder(&hbuf)
	dec := hpack.NewDecoder(4096, nil)
	sw := &segWriter{c: c}
	flush := func() error {
		_, err := sw.Write(wbuf.Bytes())
		wbuf.Reset()
		return err
	}
	// a large window so that bodies of several MiB are never blocked by this peer's accounting of the
	// client's receive window (the client advertises its own; we never exceed it, see writeData)
	fr.WriteSettings()
	if flush() != nil {
		return
	}
	var wmu sync.Mutex
	writeHeaders := func(sid uint32, fields []field, end bool, frag int) {
		hbuf.Reset()
		for _, f := range fields {
			enc.WriteField(hpack.HeaderField{Name: f.Name, Value: f.Value})
		}
		block := append([]byte{}, hbuf.Bytes()...)
		if frag <= 0 || frag >= len(block) {
			if len(block) <= 16000 {
				fr.WriteHeaders(http2.HeadersFrameParam{StreamID: sid, BlockFragment: block, EndHeaders: true, EndStream: end})
				return
			}
			frag = 16000
		}
		first := true
		for len(block) > 0 {
			n := frag
			if n > len(block) {
				n = len(block)
			}
			last := n == len(block)
			if first {
				fr.WriteHeaders(http2.HeadersFrameParam{StreamID: sid, BlockFragment: block[:n], EndHeaders: last, EndStream: end})
				first = false
			} else {
				fr.WriteContinuation(sid, last, block[:n])
			}
			block = block[n:]
		}
	}
	cx := &h2cx{mu: &wmu, fr: fr, flush: flush, writeHeaders: writeHeaders}
	// flow control: the client's stream / connection receive windows as this peer sees them
	connWin, initWin := int64(65535), int64(65535)
	streamWin := map[uint32]int64{}
	winCh := make(chan struct{}, 1)
	var fmu sync.Mutex
	cx.win = func() int64 { fmu.Lock(); defer fmu.Unlock(); return connWin }
	var hdrBlock []byte
	for {
		f, err := fr.ReadFrame()
		if err != nil {
			return
		}
		switch f := f.(type) {
		case *http2.SettingsFrame:
			if !f.IsAck() {
				if v, ok := f.Value(http2.SettingHeaderTableSize); ok {
					// honour the client's offer: use a dynamic table of that size (the encoder emits a
					// dynamic table size update in the next header block)
					wmu.Lock()
					enc.SetMaxDynamicTableSizeLimit(v)
					enc.SetMaxDynamicTableSize(v)
					wmu.Unlock()
				}
				if v, ok := f.Value(http2.SettingInitialWindowSize); ok {
					fmu.Lock()
					d := int64(v) - initWin
					initWin = int64(v)
					for k := range streamWin {
						streamWin[k] += d
					}
					fmu.Unlock()
				}
				wmu.Lock()
				fr.WriteSettingsAck()
				flush()
				wmu.Unlock()
			}
		case *http2.WindowUpdateFrame:
			fmu.Lock()
			if f.StreamID == 0 {
				connWin += int64(f.Increment)
			} else {
				streamWin[f.StreamID] += int64(f.Increment)
			}
			fmu.Unlock()
			select {
			case winCh <- struct{}{}:
			default:
			}
		case *http2.PingFrame:
			if !f.IsAck() {
				wmu.Lock()
				fr.WritePing(true, f.Data)
				flush()
				wmu.Unlock()
			} else if v, ok := s.pings.LoadAndDelete(f.Data); ok {
				close(v.(chan struct{})) // the client's read loop is past everything sent before that PING
			}
		case *http2.HeadersFrame:
			hdrBlock = append(hdrBlock[:0], f.HeaderBlockFragment()...)
			if !f.HeadersEnded() {
				continue
			}
			fields, err := dec.DecodeFull(hdrBlock)
			if err != nil {
				return
			}
			path := ""
			for _, hf := range fields {
				if hf.Name == ":path" {
					path = hf.Value
				}
			}
			parts := strings.Split(strings.TrimPrefix(path, "/"), "/")
			if len(parts) != 3 {
				return
			}
			v, ok := s.scripts.Load(parts[1])
			if !ok {
				return
			}
			x := v.(*exch)
			sid := f.StreamID
			if x.H2 != nil {
				x.H2.winAtArrival = cx.win()
			}
			if x.grp != nil { // several exchanges in flight: the group plays the frames once all have arrived
				x.grp.arrive(x, cx, sid)
				continue
			}
			fmu.Lock()
			streamWin[sid] = initWin
			fmu.Unlock()
			// the response is written from its own goroutine so that WINDOW_UPDATEs keep being read
			go func() {
				o := x.H2
				rng := hk.NewRand(uint64(len(x.A.Body))*7919 + uint64(sid))
				wmu.Lock()
				switch x.SegK {
				case "byte":
					sw.segs = func() int { return 1 }
				case "small":
					sw.segs = func() int { return rng.Range(1, 7) }
				case "random":
					sw.segs = func() int { return rng.Range(1, 3000) }
				default:
					sw.segs = nil
				}
				batch := x.SegK == "batch" // every frame of the response in ONE write, before the caller reads anything
				for i, h := range o.heads {
					last := i == len(o.heads)-1
					writeHeaders(sid, h, last && o.HdrEnd, o.ContFrag)
					if !batch {
						flush()
					}
				}
				if batch {
					for _, d := range o.Data {
						if d.Pad > 0 {
							fr.WriteDataPadded(sid, d.End, x.A.Body[d.Off:d.Off+d.Len], make([]byte, d.Pad))
						} else {
							fr.WriteData(sid, d.End, x.A.Body[d.Off:d.Off+d.Len])
						}
					}
					if o.UseTrailers {
						writeHeaders(sid, o.trailerWire, true, o.ContFrag)
					}
					s.afterEnd(o, fr, flush, sid, c)
					flush()
					wmu.Unlock()
					return
				}
				wmu.Unlock()
				for _, d := range o.Data {
					need := int64(d.Len + d.Pad)
					if d.Pad > 0 {
						need++
					}
					for { // wait for window
						fmu.Lock()
						ok := connWin >= need && streamWin[sid] >= need
						if ok {
							connWin -= need
							streamWin[sid] -= need
						}
						fmu.Unlock()
						if ok {
							break
						}
						wait := 20 * time.Second
						if o.waitMs > 0 {
							wait = time.Duration(o.waitMs) * time.Millisecond
						}
						select {
						case <-winCh:
						case <-time.After(wait):
							return
						}
					}
					wmu.Lock()
					if d.Pad > 0 {
						fr.WriteDataPadded(sid, d.End, x.A.Body[d.Off:d.Off+d.Len], make([]byte, d.Pad))
					} else {
						fr.WriteData(sid, d.End, x.A.Body[d.Off:d.Off+d.Len])
					}
					flush()
					wmu.Unlock()
				}
				if o.UseTrailers {
					wmu.Lock()
					writeHeaders(sid, o.trailerWire, true, o.ContFrag)
					flush()
					wmu.Unlock()
				}
				wmu.Lock()
				sw.segs = nil
				s.afterEnd(o, fr, flush, sid, c)
				wmu.Unlock()
			}()
		}
	}
}

// afterEnd: the response is complete (END_STREAM sent); what the peer does next must not change what the
// caller gets.  A PING follows; its ack tells the harness that the client's read loop has processed it all.
func (s *h2srv) afterEnd(o *h2opts, fr *http2.Framer, flush func() error, sid uint32, c net.Conn) {
	switch o.After {
	case "rst-no-error":
		fr.WriteRSTStream(sid, http2.ErrCodeNo)
	case "rst-cancel":
		fr.WriteRSTStream(sid, http2.ErrCodeCancel)
	case "goaway-close", "close":
		if o.After == "goaway-close" {
			fr.WriteGoAway(sid, http2.ErrCodeNo, []byte("c02"))
		}
		flush()
		if o.barrier != nil {
			close(o.barrier)
			o.barrier = nil
		}
		if tc, ok := c.(*net.TCPConn); ok {
			tc.CloseWrite()
		}
		return
	}
	if o.barrier != nil {
		var d [8]byte
		binary.BigEndian.PutUint64(d[:], s.pingSeq.Add(1))
		s.pings.Store(d, o.barrier)
		fr.WritePing(false, d)
	}
	flush()
}

func newH2Client(addr string, decode bool) *req.Client {
	c := req.C().SetTimeout(60 * time.Second).EnableH2C().EnableForceHTTP2()
	dial := func(ctx context.Context, network, _ string) (net.Conn, error) {
		var d net.Dialer
		return d.DialContext(ctx, network, addr)
	}
	c.SetDial(dial)    // h2c connections are dialled with the plain dialler (since fix ecf6c40)
	c.SetDialTLS(dial) // ... and were dialled through this hook before it
	if !decode {
		c.DisableAutoDecode()
	}
	return c
}

func lowerFields(fs []field) []field {
	out := make([]field, len(fs))
	for i, f := range fs {
		out[i] = field{strings.ToLower(f.Name), f.Value}
	}
	return out
}

// planH2 decides the frames for the abstract response
func planH2(rng *hk.Rand, a *aresp, o *h2opts, method string) {
	o.Head = method == "HEAD"
	hasBody := bodyAllowed(a.Code) && !o.Head
	for _, im := range a.Interim {
		h := append([]field{{":status", fmt.Sprint(im.Code)}}, lowerFields(im.Fields)...)
		o.heads = append(o.heads, h)
	}
	final := []field{{":status", fmt.Sprint(a.Code)}}
	extra := []field{}
	if o.Declare {
		extra = append(extra, field{"content-length", fmt.Sprint(len(a.Body))})
	}
	if names := a.announced(o.DeclareTr); hasBody && len(names) > 0 {
		extra = append(extra, field{"trailer", strings.Join(names, ", ")})
	}
	all := lowerFields(a.Fields)
	for _, f := range extra {
		i := rng.Intn(len(all) + 1)
		all = append(all[:i], append([]field{f}, all[i:]...)...)
	}
	final = append(final, all...)
	o.heads = append(o.heads, final)
	if !hasBody {
		o.HdrEnd = true
		return
	}
	o.UseTrailers = len(a.Trailers) > 0
	o.trailerWire = lowerFields(a.Trailers)
	if len(a.Body) == 0 && !o.UseTrailers && rng.Bool() {
		o.HdrEnd = true
		return
	}
	// DATA partition: any sizes up to the default max frame size, some padded, some empty frames
	off := 0
	body := a.Body
	maxPieces := 0
	if len(body) > 4096 {
		maxPieces = 1 + len(body)/2000
	}
	var sizes []int
	for rem, n := len(body), 0; rem > 0; n++ {
		k := 1
		switch rng.Intn(5) {
		case 0:
			k = rng.Range(1, 4)
		case 1:
			k = rng.Range(1, 512)
		case 2:
			k = 16384
		default:
			k = rng.Range(1, 16384)
		}
		if maxPieces > 0 && n >= maxPieces {
			k = 16384
		}
		if k > rem {
			k = rem
		}
		sizes = append(sizes, k)
		rem -= k
	}
	for i, k := range sizes {
		if rng.Chance(8) {
			o.Data = append(o.Data, h2data{Off: off, Len: 0})
			o.EmptyData++
		}
		d := h2data{Off: off, Len: k}
		if rng.Chance(20) {
			d.Pad = rng.Range(1, 255)
			if k+d.Pad+1 > 16384 {
				d.Pad = 0
			} else {
				o.Padded++
			}
		}
		if i == len(sizes)-1 && !o.UseTrailers && rng.Chance(70) {
			d.End = true
		}
		o.Data = append(o.Data, d)
		off += k
	}
	if !o.UseTrailers && (len(o.Data) == 0 || !o.Data[len(o.Data)-1].End) {
		o.Data = append(o.Data, h2data{Off: off, Len: 0, End: true}) // empty DATA frame carrying END_STREAM
	}
	o.NData = len(o.Data)
}

func (x *exch) runH2(srv *h2srv, c *req.Client, outDir string) {
	if x.H2.Upload > 0 || x.H2.After != "" {
		// own connection: the never-acknowledged upload uses up the connection's send window, and the
		// close variants end the connection
		c = newH2Client(srv.ln.Addr().String(), false)
		defer c.GetTransport().CloseIdleConnections()
		x.H2.barrier = make(chan struct{})
		x.barrier = x.H2.barrier
	}
	id := nextID()
	srv.scripts.Store(id, x)
	defer srv.scripts.Delete(id)
	x.s = perform(c, x, "http://c02.test/x/"+id+"/1", outDir)
}
