package main

// Output-file scenarios (round 2): one client saves the bodies of a sequence of exchanges with
// SetOutputDirectory + SetOutputFile.  Files may exist before (longer than the new body), the same path is
// reused with shrinking / growing / empty bodies, names are relative (also in sub-directories) or absolute.
// After every step the whole sandbox is read back: "saved to a file" must equal the body, and no other file
// may change.

import (
	"bytes"
	"fmt"
	"os"
	"path/filepath"
	"sort"
	"strings"

	"github.com/imroc/req/v3/verifharness/hk"
	"github.com/imroc/req/v3/verifharness/wire"
)

type fileStep struct {
	File string `json:"file"` // as given to SetOutputFile
	Code int    `json:"code"`
	Len  int    `json:"body_len"`
	body []byte
}

type fileScenario struct {
	ID    int               `json:"id"`
	Dir   string            `json:"output_directory"`
	Pre   map[string]int    `json:"pre_existing_lens"`
	Steps []fileStep        `json:"steps"`
	pre   map[string][]byte // full path -> content
	obs   []map[string][]byte
	err   string
}

func genFileScenario(rng *hk.Rand, id int, root string) *fileScenario {
	sc := &fileScenario{ID: id, Dir: filepath.Join(root, fmt.Sprintf("fs%d", id)), Pre: map[string]int{}, pre: map[string][]byte{}}
	names := []string{"a.bin", "b.bin", "sub/c.bin", "sub/deeper/d.bin", filepath.Join(sc.Dir, "abs.bin"), filepath.Join(sc.Dir, "other", "abs2.bin")}
	lens := []int{0, 1, 5, 100, 300, 900}
	for _, n := range names {
		if rng.Chance(50) {
			full := n
			if !filepath.IsAbs(n) {
				full = filepath.Join(sc.Dir, n)
			}
			sc.pre[full] = bytes.Repeat([]byte("OLD-CONTENT-"), 1+rng.Intn(60)) // up to 720 bytes: longer than most bodies
			sc.Pre[full] = len(sc.pre[full])
		}
	}
	for i, n := 0, rng.Range(3, 7); i < n; i++ {
		name := hk.Pick(rng, names)
		if i > 0 && rng.Chance(50) {
			name = sc.Steps[i-1].File // the same path again, with another body
		}
		l := hk.Pick(rng, lens)
		st := fileStep{File: name, Code: hk.Pick(rng, []int{200, 200, 206, 404}), Len: l, body: wire.GenBody(rng, l)}
		sc.Steps = append(sc.Steps, st)
	}
	return sc
}

func snapshot(dir string) map[string][]byte {
	m := map[string][]byte{}
	filepath.Walk(dir, func(p string, info os.FileInfo, err error) error {
		if err == nil && !info.IsDir() {
			b, _ := os.ReadFile(p)
			m[p] = b
		}
		return nil
	})
	return m
}

func (sc *fileScenario) run(srv *wire.Server) {
	os.MkdirAll(sc.Dir, 0o755)
	for p, c := range sc.pre {
		os.MkdirAll(filepath.Dir(p), 0o755)
		os.WriteFile(p, c, 0o644)
	}
	c := newH1Client(srv.Addr(), false).SetOutputDirectory(sc.Dir)
	for _, st := range sc.Steps {
		id := nextID()
		w := fmt.Sprintf("HTTP/1.1 %d Status\r\nContent-Type: application/octet-stream\r\nContent-Length: %d\r\n\r\n", st.Code, len(st.body))
		srv.Register(id, &wire.Script{Wire: append([]byte(w), st.body...), CutAt: -1})
		_, err := c.R().SetOutputFile(st.File).Get("http://c02.test/x/" + id + "/1")
		srv.Unregister(id)
		if err != nil && sc.err == "" {
			sc.err = err.Error()
		}
		sc.obs = append(sc.obs, snapshot(sc.Dir))
	}
	os.RemoveAll(sc.Dir)
}

func (sc *fileScenario) full(name string) string {
	if filepath.IsAbs(name) {
		return name
	}
	return filepath.Join(sc.Dir, name)
}

func (sc *fileScenario) oracle(r *hk.Run) {
	fail := func(what, msg string, got, want interface{}) {
		r.Fail(hk.Failure{Sig: "file:" + what, What: msg, Input: sc, Got: got, Want: want})
	}
	if sc.err != "" {
		fail("error", "a download to a file failed: "+sc.err, sc.err, nil)
		return
	}
	prev := sc.pre
	for i, st := range sc.Steps {
		cur := sc.obs[i]
		p := sc.full(st.File)
		if got, ok := cur[p]; !ok || !bytes.Equal(got, st.body) {
			fail("content", fmt.Sprintf("step %d: the output file does not hold exactly the body (file %s had %d bytes before)", i, st.File, len(prev[p])), digest(got), digest(st.body))
			return
		}
		for q, c := range prev {
			if q != p && !bytes.Equal(cur[q], c) {
				fail("other-file-changed", fmt.Sprintf("step %d: another file changed: %s", i, q), digest(cur[q]), digest(c))
				return
			}
		}
		for q := range cur {
			if _, ok := prev[q]; !ok && q != p {
				fail("unexpected-file", fmt.Sprintf("step %d: unexpected new file %s", i, q), nil, nil)
				return
			}
		}
		prev = cur
	}
}

func coqStore(m map[string][]byte) string {
	var ks []string
	for k := range m {
		ks = append(ks, k)
	}
	sort.Strings(ks)
	var xs []string
	for _, k := range ks {
		xs = append(xs, hk.CoqPair(coqLit([]byte(k)), coqLit(m[k])))
	}
	return hk.CoqList(xs)
}

func (sc *fileScenario) coq() string {
	var steps, obs []string
	for _, st := range sc.Steps {
		steps = append(steps, fmt.Sprintf("(%s, %s, %s)", coqLit([]byte(st.File)), hk.CoqZ(int64(st.Code)), coqLit(st.body)))
	}
	for _, o := range sc.obs {
		obs = append(obs, coqStore(o))
	}
	return fmt.Sprintf("(FileCase %s %s %s %s)", coqLit([]byte(sc.Dir)), coqStore(sc.pre), hk.CoqList(steps), hk.CoqList(obs))
}

func (sc *fileScenario) key() string {
	var sb strings.Builder
	fmt.Fprintf(&sb, "file|%v|", sc.Pre)
	for _, st := range sc.Steps {
		fmt.Fprintf(&sb, "%s:%d:%x|", st.File, st.Code, st.body)
	}
	return sb.String()
}
