package main

// Response API cells (round 2): caching and restored Body under arbitrary sequences of Bytes / ToBytes /
// UnmarshalJson / Read loops, the response-body transformer, SetOutput with a writer that fails after a
// number of bytes, the download callback, SetSuccessResult + SetOutput, manual reads then ToBytes.

import (
	"bytes"
	"encoding/json"
	"errors"
	"fmt"
	"io"
	"strings"
	"sync"
	"time"

	req "github.com/imroc/req/v3"
	"github.com/imroc/req/v3/verifharness/hk"
	"github.com/imroc/req/v3/verifharness/wire"
)

type apiOp struct {
	Kind string `json:"kind"` // bytes | tobytes | read | unmarshal
	Pat  []int  `json:"pat,omitempty"`
	N    int    `json:"n,omitempty"` // number of Read calls of a read op
}

type apiOut struct {
	Kind string `json:"kind"`
	Nil  bool   `json:"nil,omitempty"`
	Data []byte `json:"-"`
	Len  int    `json:"len"`
	OK   bool   `json:"ok"`
	End  string `json:"end,omitempty"`
	None bool   `json:"none,omitempty"` // unmarshal: the unmarshaller was not called
}

type apiCfg struct {
	Disable  bool    `json:"disable_auto_read"`
	Save     bool    `json:"set_output"`
	Cap      int     `json:"writer_capacity"` // -1: unlimited
	Callback bool    `json:"download_callback"`
	Result   bool    `json:"set_success_result"`
	Tf       string  `json:"transformer"` // "" | prefix | fail
	TfArg    string  `json:"transformer_arg,omitempty"`
	Ops      []apiOp `json:"ops"`
}

type apiSeen struct {
	Err       string   `json:"err,omitempty"`
	Out       []byte   `json:"-"`
	OutLen    int      `json:"out_len"`
	Callbacks []int64  `json:"callbacks"`
	Unm       []byte   `json:"-"`
	UnmNone   bool     `json:"unmarshal_none"`
	Outs      []apiOut `json:"outs"`
}

type capWriter struct {
	buf bytes.Buffer
	cap int
}

func (w *capWriter) Write(p []byte) (int, error) {
	if w.cap < 0 || w.buf.Len()+len(p) <= w.cap {
		return w.buf.Write(p)
	}
	k := w.cap - w.buf.Len()
	w.buf.Write(p[:k])
	return k, errors.New("harness: output writer is full")
}

// fullReader performs "Read into a buffer of n bytes" the way the model's rd_read does: n bytes unless the
// stream ends first; the terminal error is delivered by the read after the last data
type fullReader struct {
	rc   io.Reader
	pend error
}

func (f *fullReader) read(n int) ([]byte, error) {
	if f.pend != nil {
		return nil, f.pend
	}
	buf := make([]byte, n)
	got := 0
	for got < n {
		k, err := f.rc.Read(buf[got:])
		got += k
		if err != nil {
			if got > 0 {
				f.pend = err
				return buf[:got], nil
			}
			f.pend = err
			return nil, err
		}
	}
	return buf[:got], nil
}

func (x *exch) performAPI(c *req.Client, url string) {
	cfg := x.API
	s := &x.as
	var mu sync.Mutex
	var hookIn [][]byte
	c.SetJsonUnmarshal(func(data []byte, v interface{}) error {
		mu.Lock()
		hookIn = append(hookIn, append([]byte{}, data...))
		mu.Unlock()
		return nil
	})
	switch cfg.Tf {
	case "prefix":
		c.SetResponseBodyTransformer(func(raw []byte, _ *req.Request, _ *req.Response) ([]byte, error) {
			return append([]byte(cfg.TfArg), raw...), nil
		})
	case "fail":
		c.SetResponseBodyTransformer(func(raw []byte, _ *req.Request, _ *req.Response) ([]byte, error) {
			return nil, errors.New("harness: transformer fails")
		})
	}
	defer func() { // the hooks are per cell
		c.SetResponseBodyTransformer(nil)
		c.SetJsonUnmarshal(json.Unmarshal)
	}()
	done := make(chan struct{})
	go func() {
		defer close(done)
		defer func() {
			if p := recover(); p != nil {
				x.s.Panic = fmt.Sprint(p)
			}
		}()
		r := c.R()
		w := &capWriter{cap: cfg.Cap}
		if cfg.Disable {
			r.DisableAutoReadResponse()
		}
		if cfg.Save {
			r.SetOutput(w)
		}
		if cfg.Callback {
			r.SetDownloadCallbackWithInterval(func(info req.DownloadInfo) {
				mu.Lock()
				s.Callbacks = append(s.Callbacks, info.DownloadedSize)
				mu.Unlock()
			}, time.Hour)
		}
		var result struct{}
		if cfg.Result {
			r.SetSuccessResult(&result)
		}
		resp, err := r.Send("GET", url)
		if err != nil {
			s.Err = err.Error()
		}
		s.Out = append([]byte{}, w.buf.Bytes()...)
		s.OutLen = len(s.Out)
		mu.Lock()
		s.UnmNone = len(hookIn) == 0
		if len(hookIn) > 0 {
			s.Unm = hookIn[0]
		}
		hookIn = nil
		mu.Unlock()
		if resp == nil || resp.Response == nil {
			x.s.NoResp = true
			return
		}
		x.s.Code = resp.StatusCode
		fr := &fullReader{rc: resp.Body}
		for _, op := range cfg.Ops {
			o := apiOut{Kind: op.Kind, OK: true}
			switch op.Kind {
			case "bytes":
				b := resp.Bytes()
				o.Nil, o.Data = b == nil, append([]byte{}, b...)
				if string(b) != resp.String() {
					o.OK = false // String() must be the same view
				}
			case "tobytes":
				b, e := resp.ToBytes()
				o.Data, o.OK = append([]byte{}, b...), e == nil
				if s2, e2 := resp.ToString(); s2 != string(b) || (e2 == nil) != (e == nil) {
					o.End = "tostring-differs"
				}
			case "read":
				for i := 0; i < op.N; i++ {
					n := op.Pat[i%len(op.Pat)]
					d, e := fr.read(n)
					o.Data = append(o.Data, d...)
					if e != nil {
						o.End = endClass(e)
						break
					}
				}
			case "unmarshal":
				var v struct{}
				e := resp.UnmarshalJson(&v)
				mu.Lock()
				o.None = len(hookIn) == 0
				if len(hookIn) > 0 {
					o.Data = hookIn[0]
				}
				hookIn = nil
				mu.Unlock()
				o.OK = e == nil
			}
			o.Len = len(o.Data)
			s.Outs = append(s.Outs, o)
		}
	}()
	select {
	case <-done:
	case <-time.After(60 * time.Second):
		x.s.Hung = true
	}
}

func (x *exch) coqAPICase() string {
	cfg, s := x.API, &x.as
	capS := "None"
	if cfg.Cap >= 0 {
		capS = fmt.Sprintf("(Some %d%%N)", cfg.Cap)
	}
	tf := "TfNone"
	switch cfg.Tf {
	case "prefix":
		tf = "(TfPrefix " + coqLit([]byte(cfg.TfArg)) + ")"
	case "fail":
		tf = "TfFail"
	}
	var ops, outs, cbs []string
	for _, o := range cfg.Ops {
		switch o.Kind {
		case "bytes":
			ops = append(ops, "SBytes")
		case "tobytes":
			ops = append(ops, "SToBytes")
		case "unmarshal":
			ops = append(ops, "SUnmarshal")
		case "read":
			ops = append(ops, fmt.Sprintf("SRead %s %d%%N", coqPat(o.Pat), o.N))
		}
	}
	for _, o := range s.Outs {
		switch o.Kind {
		case "bytes":
			if o.Nil {
				outs = append(outs, "OutBytes None")
			} else {
				outs = append(outs, "OutBytes (Some "+coqLit(o.Data)+")")
			}
		case "tobytes":
			outs = append(outs, fmt.Sprintf("OutToBytes %s %s", coqLit(o.Data), hk.CoqBool(o.OK)))
		case "read":
			outs = append(outs, fmt.Sprintf("OutRead %s %s", coqLit(o.Data), coqEnd(o.End)))
		case "unmarshal":
			if o.None {
				outs = append(outs, "OutUnmarshal None")
			} else {
				outs = append(outs, "OutUnmarshal (Some "+coqLit(o.Data)+")")
			}
		}
	}
	if cfg.Callback && cfg.Cap < 0 {
		for _, v := range s.Callbacks {
			cbs = append(cbs, fmt.Sprintf("%d%%N", v))
		}
	}
	unm := "None"
	if !s.UnmNone {
		unm = "(Some " + coqLit(s.Unm) + ")"
	}
	cb := cfg.Callback && cfg.Cap < 0 // with a failing writer the number of callbacks depends on read chunking
	return fmt.Sprintf("(ApiCase %s %s %s %s %s %s %s %s %s %s %s %s %s %s %s)", hk.CoqZ(int64(x.A.Code)), x.A.coqBody(), hk.CoqBool(x.hasBody()),
		hk.CoqBool(cfg.Disable), hk.CoqBool(cfg.Save), capS, hk.CoqBool(cb), hk.CoqBool(cfg.Result), tf, hk.CoqList(ops),
		hk.CoqBool(s.Err != ""), coqLit(s.Out), hk.CoqList(cbs), unm, hk.CoqList(outs))
}

func genAPICfg(rng *hk.Rand, bodyLen int) *apiCfg {
	c := &apiCfg{Cap: -1}
	pats := [][]int{{1}, {7}, {64}, {512}, {4096}, {3, 1, 100}}
	randOps := func(n int) {
		for i := 0; i < n; i++ {
			switch rng.Intn(5) {
			case 0:
				c.Ops = append(c.Ops, apiOp{Kind: "bytes"})
			case 1:
				c.Ops = append(c.Ops, apiOp{Kind: "tobytes"})
			case 2:
				c.Ops = append(c.Ops, apiOp{Kind: "unmarshal"})
			default:
				p := hk.Pick(rng, pats)
				n := rng.Range(1, 6)
				if rng.Chance(30) {
					n = bodyLen + 2 // to the end
				}
				c.Ops = append(c.Ops, apiOp{Kind: "read", Pat: p, N: n})
			}
		}
	}
	switch rng.Intn(6) {
	case 0: // auto-read, arbitrary operations afterwards
		randOps(rng.Range(2, 8))
	case 1: // transformer
		c.Tf, c.TfArg = "prefix", hk.Pick(rng, []string{"T:", "", "\x00\xff", strings.Repeat("p", 300)})
		if rng.Chance(20) {
			c.Tf, c.TfArg = "fail", ""
		}
		randOps(rng.Range(1, 6))
	case 2: // manual reads, then ToBytes (and more)
		c.Disable = true
		c.Ops = append(c.Ops, apiOp{Kind: "read", Pat: hk.Pick(rng, pats), N: rng.Range(0, 5)})
		c.Ops = append(c.Ops, apiOp{Kind: "tobytes"})
		randOps(rng.Range(0, 4))
		// ToBytes closed the transport's body: what a Read on it returns afterwards is outside the property
		// (and differs between http.NoBody, bodyEOFSignal, h2 and h3 bodies) - no Read ops after it
		ops := c.Ops[:2]
		for _, o := range c.Ops[2:] {
			if o.Kind != "read" {
				ops = append(ops, o)
			}
		}
		c.Ops = ops
	case 3: // output writer with a capacity
		c.Save = true
		c.Cap = hk.Pick(rng, []int{-1, 0, 1, bodyLen - 1, bodyLen, bodyLen + 1, bodyLen / 2, 100})
		if c.Cap < -1 {
			c.Cap = 0
		}
		c.Ops = append(c.Ops, apiOp{Kind: "bytes"})
	case 4: // download callback
		c.Save, c.Callback = true, true
		c.Ops = append(c.Ops, apiOp{Kind: "bytes"})
	default: // SetSuccessResult (+ SetOutput)
		c.Result = true
		c.Save = rng.Bool()
		randOps(rng.Range(1, 4))
		if c.Save { // Body was copied to the writer and closed: only the cache views afterwards
			c.Ops = []apiOp{{Kind: "bytes"}}
		}
	}
	return c
}

func (x *exch) apiExpected() []byte {
	b := x.expectedBody()
	if x.API.Tf == "prefix" {
		return append([]byte(x.API.TfArg), b...)
	}
	return b
}

// apiOracle: from the property text - every way of obtaining the body gives the body the origin sent
func (x *exch) apiOracle(r *hk.Run) {
	cfg, s := x.API, &x.as
	fail := func(what, msg string, got, want interface{}) {
		r.Fail(hk.Failure{Sig: "api:" + x.Proto + ":" + what, What: msg, Input: x.desc(), Got: got, Want: want})
	}
	if x.s.Hung || x.s.Panic != "" || x.s.NoResp {
		fail("no-result", "hang / panic / no response: "+x.s.Panic+s.Err, nil, nil)
		return
	}
	body := x.expectedBody()
	want := x.apiExpected()
	expectErr := cfg.Tf == "fail" && !cfg.Disable && !cfg.Save || cfg.Save && cfg.Cap >= 0 && cfg.Cap < len(body)
	if cfg.Tf == "fail" && cfg.Result {
		expectErr = true
	}
	if (s.Err != "") != expectErr {
		fail("error", fmt.Sprintf("call error %q, expected an error: %v", s.Err, expectErr), s.Err, expectErr)
		return
	}
	if cfg.Save {
		if !bytes.HasPrefix(body, s.Out) {
			fail("output-not-prefix", "the output writer received bytes that are not a prefix of the body", digest(s.Out), digest(body))
		}
		if s.Err == "" && !bytes.Equal(s.Out, body) {
			fail("output-truncated", "no error reported but the output writer did not receive the whole body", digest(s.Out), digest(body))
		}
	}
	if cfg.Callback && cfg.Cap < 0 && len(body) > 0 {
		if len(s.Callbacks) == 0 || s.Callbacks[len(s.Callbacks)-1] != int64(len(body)) {
			fail("callback-total", "the last download callback does not report the full size", s.Callbacks, len(body))
		}
	}
	if cfg.Result && s.Err == "" && bodyAllowed(x.A.Code) && x.A.Code >= 200 && x.A.Code < 300 {
		if s.UnmNone || !bytes.Equal(s.Unm, want) {
			fail("result-input", "the unmarshaller did not get the body", digest(s.Unm), digest(want))
		}
	}
	if s.Err != "" {
		return
	}
	cached := !cfg.Disable && !cfg.Save || cfg.Result && x.A.Code >= 200 && x.A.Code < 300 && x.A.Code != 204
	var reads []byte
	manualDone := false
	for i, o := range s.Outs {
		switch o.Kind {
		case "bytes":
			if cached && (o.Nil || !bytes.Equal(o.Data, want)) {
				fail("bytes", fmt.Sprintf("op %d: Bytes() is not the body", i), digest(o.Data), digest(want))
			}
			if !o.OK {
				fail("string", fmt.Sprintf("op %d: String() differs from Bytes()", i), nil, nil)
			}
		case "tobytes", "unmarshal":
			if o.End != "" {
				fail("tostring", fmt.Sprintf("op %d: ToString() differs from ToBytes()", i), nil, nil)
			}
			if cached {
				if !o.OK || !bytes.Equal(o.Data, want) || o.None {
					fail(o.Kind, fmt.Sprintf("op %d: %s did not give the body", i, o.Kind), digest(o.Data), digest(want))
				}
			} else if cfg.Disable && !manualDone && cfg.Tf == "" {
				// manual reads so far + this ToBytes = the body, exactly once
				manualDone = true
				if all := append(append([]byte{}, reads...), o.Data...); !o.OK || !bytes.Equal(all, body) {
					fail("manual-then-"+o.Kind, fmt.Sprintf("op %d: manual reads + %s do not add up to the body", i, o.Kind), digest(all), digest(body))
				}
				cached = true
				want = o.Data
			}
		case "read":
			reads = append(reads, o.Data...)
			ref := want
			if !cached {
				ref = body
			}
			if !bytes.HasPrefix(ref, reads) && !manualDone {
				fail("read-prefix", fmt.Sprintf("op %d: what the Read loops returned is not a prefix of the body", i), digest(reads), digest(ref))
			}
		}
	}
}

var _ = wire.FrCL

func (c *apiCfg) kind() string {
	switch {
	case c.Tf != "":
		return "transformer-" + c.Tf
	case c.Result && c.Save:
		return "result+output"
	case c.Result:
		return "result"
	case c.Callback:
		return "output+callback"
	case c.Save:
		return "output-capped-writer"
	case c.Disable:
		return "manual-then-tobytes"
	}
	return "auto-then-ops"
}
