package main

// HTTP/3 cells: quic-go's http3.Server (the reference implementation) on loopback UDP, with a handler that
// plays the scripted response: interim 1xx responses, header fields, the body written in the scripted
// partition (one DATA frame per flushed piece), trailers.

import (
	"crypto/tls"
	"fmt"
	"net"
	"net/http"
	"strings"
	"sync"
	"time"

	req "github.com/imroc/req/v3"
	"github.com/imroc/req/v3/internal/testcert"
	"github.com/imroc/req/v3/verifharness/hk"
	qh3 "github.com/quic-go/quic-go/http3"
)

type h3opts struct {
	Declare   bool  `json:"declare_length"`
	DeclareTr bool  `json:"declare_trailers"`
	Parts     []int `json:"-"`
	NParts    int   `json:"data_frames"`
	Head      bool  `json:"head"`
	Raw        bool `json:"raw_peer,omitempty"`     // served by the frame-level origin (h3raw.go)
	Short      int  `json:"short"`                  // >= 0: the last DATA frame announces its length but only Short bytes are sent before the FIN
	FinLaterMs int  `json:"fin_later_ms,omitempty"` // the FIN leaves this long after the partial data (0: together with it)
}

type h3srv struct {
	srv     *qh3.Server
	addr    string
	scripts sync.Map
}

func newH3Srv() (*h3srv, error) {
	cert, err := tls.X509KeyPair(testcert.LocalhostCert, testcert.LocalhostKey)
	if err != nil {
		return nil, err
	}
	pc, err := net.ListenPacket("udp", "127.0.0.1:0")
	if err != nil {
		return nil, err
	}
	s := &h3srv{addr: pc.LocalAddr().String()}
	s.srv = &qh3.Server{
		TLSConfig: qh3.ConfigureTLSConfig(&tls.Config{Certificates: []tls.Certificate{cert}}),
		Handler:   http.HandlerFunc(s.handle),
	}
	go s.srv.Serve(pc)
	return s, nil
}

func setFields(h http.Header, fs []field) {
	// one map entry per canonical name so that the values of a name keep their order on the wire
	for _, f := range fs {
		k := http.CanonicalHeaderKey(f.Name)
		h[k] = append(h[k], f.Value)
	}
}

func (s *h3srv) handle(w http.ResponseWriter, r *http.Request) {
	parts := strings.Split(strings.TrimPrefix(r.URL.Path, "/"), "/")
	if len(parts) != 3 {
		w.WriteHeader(400)
		return
	}
	v, ok := s.scripts.Load(parts[1])
	if !ok {
		w.WriteHeader(410)
		return
	}
	x := v.(*exch)
	a, o := x.A, x.H3
	h := w.Header()
	h["Date"] = nil // no automatic Date field
	for _, im := range a.Interim {
		setFields(h, im.Fields)
		w.WriteHeader(im.Code)
		for _, f := range im.Fields {
			delete(h, http.CanonicalHeaderKey(f.Name))
		}
		h["Date"] = nil
	}
	setFields(h, a.Fields)
	hasBody := bodyAllowed(a.Code) && r.Method != "HEAD"
	if o.Declare {
		h.Set("Content-Length", fmt.Sprint(len(a.Body)))
	}
	annSet := map[string]bool{}
	if names := x.h3Announced(); hasBody && len(names) > 0 {
		for _, n := range names {
			annSet[n] = true
		}
		h.Set("Trailer", strings.Join(names, ", "))
	}
	w.WriteHeader(a.Code)
	fl := w.(http.Flusher)
	fl.Flush() // header section goes out now; no automatic Content-Length
	if !hasBody {
		return
	}
	off := 0
	for _, n := range o.Parts {
		w.Write(a.Body[off : off+n])
		fl.Flush()
		off += n
	}
	for _, t := range a.Trailers {
		k := http.CanonicalHeaderKey(t.Name)
		if annSet[k] {
			h[k] = append(h[k], t.Value)
		} else {
			h[http.TrailerPrefix+k] = append(h[http.TrailerPrefix+k], t.Value)
		}
	}
}

var rawH3 *h3raw

// h3Announced: canonical, de-duplicated names for the Trailer header of the net/http-style origin
func (x *exch) h3Announced() []string {
	var names []string
	seen := map[string]bool{}
	for _, n := range x.A.announced(x.H3.DeclareTr) {
		k := http.CanonicalHeaderKey(n)
		if !seen[k] {
			seen[k] = true
			names = append(names, k)
		}
	}
	return names
}

func newH3Client(decode bool) *req.Client {
	c := req.C().SetTimeout(60 * time.Second).EnableInsecureSkipVerify().EnableForceHTTP3()
	if !decode {
		c.DisableAutoDecode()
	}
	return c
}

func planH3(rng *hk.Rand, a *aresp, o *h3opts, method string) {
	o.Head = method == "HEAD"
	if !bodyAllowed(a.Code) || o.Head {
		return
	}
	maxPieces := 0
	if len(a.Body) > 4096 {
		maxPieces = 1 + len(a.Body)/3000
	}
	for rem, n := len(a.Body), 0; rem > 0; n++ {
		k := 1
		switch rng.Intn(5) {
		case 0:
			k = rng.Range(1, 4)
		case 1:
			k = rng.Range(1, 512)
		case 2:
			k = rng.Range(1, 70000)
		default:
			k = rng.Range(1, 16384)
		}
		if maxPieces > 0 && n >= maxPieces {
			k = rem
		}
		if k > rem {
			k = rem
		}
		o.Parts = append(o.Parts, k)
		rem -= k
	}
	o.NParts = len(o.Parts)
}

func (x *exch) runH3(srv *h3srv, c *req.Client, outDir string) {
	if x.H3.Raw {
		id := nextID()
		rawH3.scripts.Store(id, x)
		defer rawH3.scripts.Delete(id)
		x.s = perform(c, x, "https://"+rawH3.addr+"/x/"+id+"/1", outDir)
		return
	}
	id := nextID()
	srv.scripts.Store(id, x)
	defer srv.scripts.Delete(id)
	x.s = perform(c, x, "https://"+srv.addr+"/x/"+id+"/1", outDir)
}
