package main

// Round 5: the connection-level receive window as state carried across the exchanges of one HTTP/2
// connection.  A client with a small connection window (SetHTTP2ConnectionFlow) downloads a sequence of bodies
// that the peer delivers COMPLETELY (END_STREAM processed by the client: PING/ack barrier) and that the caller
// then reads only partly (or not at all) and closes; then an ordinary exchange must still get its complete
// response, and at the final quiescent point the peer must have (almost) the whole window again.

import (
	"bytes"
	"fmt"
	"io"
	"time"

	"github.com/imroc/req/v3/verifharness/hk"
)

type winStep struct {
	Len  int `json:"body_len"`
	Read int `json:"read_before_close"` // bytes the caller reads before closing (-1: the final, ordinary exchange)
	Pad  int `json:"pad"`
}

type winScenario struct {
	ID       int       `json:"id"`
	Flow     uint32    `json:"connection_flow"`
	Steps    []winStep `json:"steps"`
	W        int64     `json:"initial_window_seen_by_peer"`
	Final    int64     `json:"window_seen_by_peer_at_the_end"`
	Err      string    `json:"error,omitempty"`
	BodyOK   bool      `json:"final_body_ok"`
	finished bool
}

func genWinScenario(rng *hk.Rand, id int) *winScenario {
	sc := &winScenario{ID: id, Flow: hk.Pick(rng, []uint32{1, 1, 4097, 30000})}
	w := 65535 + int(sc.Flow)
	// unread amounts that together exceed the window (each single body fits)
	left := w + rng.Range(0, 30000)
	for left > 0 {
		n := rng.Range(5000, 30000)
		if n > w-1000 {
			n = w - 1000
		}
		st := winStep{Len: n, Read: hk.Pick(rng, []int{0, 0, 1, 100, n / 2}), Pad: hk.Pick(rng, []int{0, 0, 17})}
		sc.Steps = append(sc.Steps, st)
		left -= n - st.Read
	}
	sc.Steps = append(sc.Steps, winStep{Len: hk.Pick(rng, []int{20000, 1, 40000}), Read: -1})
	return sc
}

func (sc *winScenario) run(srv *h2srv) {
	c := newH2Client(srv.ln.Addr().String(), false).SetHTTP2ConnectionFlow(sc.Flow).SetTimeout(8 * time.Second)
	defer c.GetTransport().CloseIdleConnections()
	mk := func(n, pad int) *exch {
		a := &aresp{Code: 200, Reason: "OK", Fields: []field{{"Content-Type", "application/octet-stream"}}}
		a.Body = bytes.Repeat([]byte("w"), n)
		o := &h2opts{waitMs: 4000}
		o.heads = [][]field{{{":status", "200"}, {"content-type", "application/octet-stream"}}}
		for off := 0; off < n; off += 16000 {
			l := n - off
			if l > 16000 {
				l = 16000
			}
			o.Data = append(o.Data, h2data{Off: off, Len: l, Pad: pad, End: off+l == n})
		}
		if n == 0 {
			o.Data = []h2data{{End: true}}
		}
		return &exch{Proto: "h2", A: a, H2: o, Method: "GET", Mode: "stream", SegK: "one"}
	}
	for i, st := range sc.Steps {
		x := mk(st.Len, st.Pad)
		x.H2.barrier = make(chan struct{})
		bar := x.H2.barrier
		id := nextID()
		srv.scripts.Store(id, x)
		r := c.R()
		if st.Read >= 0 {
			r.DisableAutoReadResponse()
		}
		resp, err := r.Get("http://c02.test/x/" + id + "/1")
		srv.scripts.Delete(id)
		if i == 0 {
			sc.W = x.H2.winAtArrival
		}
		if err != nil {
			sc.Err = fmt.Sprintf("step %d: %v", i, err)
			return
		}
		if st.Read < 0 {
			sc.BodyOK = bytes.Equal(resp.Bytes(), x.A.Body)
			break
		}
		select { // the client has processed END_STREAM of this response
		case <-bar:
		case <-time.After(5 * time.Second):
			sc.Err = fmt.Sprintf("step %d: the response was not delivered completely", i)
			resp.Body.Close()
			return
		}
		if st.Read > 0 {
			if _, err := io.ReadFull(resp.Body, make([]byte, st.Read)); err != nil {
				sc.Err = fmt.Sprintf("step %d: read: %v", i, err)
			}
		}
		resp.Body.Close()
	}
	// quiescent point: one more (empty) exchange; every WINDOW_UPDATE the client wrote before it has been seen
	x := mk(0, 0)
	id := nextID()
	srv.scripts.Store(id, x)
	_, err := c.R().Get("http://c02.test/x/" + id + "/1")
	srv.scripts.Delete(id)
	if err != nil {
		sc.Err = "final probe: " + err.Error()
		return
	}
	sc.Final = x.H2.winAtArrival
	sc.finished = true
}

func (sc *winScenario) oracle(r *hk.Run) {
	fail := func(what, msg string, got, want interface{}) {
		r.Fail(hk.Failure{Sig: "h2-window:" + what, What: msg, Input: sc, Got: got, Want: want})
	}
	if sc.Err != "" {
		fail("exchange-failed", "after completely delivered bodies were closed unread, an exchange on the same connection failed: "+sc.Err, sc.Err, nil)
		return
	}
	if !sc.BodyOK {
		fail("final-body", "the ordinary exchange at the end did not get its complete body", nil, nil)
	}
	if sc.finished && (sc.W-sc.Final < 0 || sc.W-sc.Final >= 4096) {
		fail("credit-lost", fmt.Sprintf("at the quiescent point the peer may send only %d of the initial %d window bytes", sc.Final, sc.W), sc.Final, sc.W)
	}
}

func (sc *winScenario) coq() string {
	var ops []string
	for _, st := range sc.Steps {
		for off := 0; off < st.Len; off += 16000 {
			l := st.Len - off
			if l > 16000 {
				l = 16000
			}
			pad := 0
			if st.Pad > 0 {
				pad = st.Pad + 1
			}
			ops = append(ops, fmt.Sprintf("CData %d %d", l, pad))
		}
		if st.Read < 0 {
			ops = append(ops, fmt.Sprintf("CRead %d", st.Len))
		} else {
			ops = append(ops, fmt.Sprintf("CRead %d", st.Read), fmt.Sprintf("CClose %d", st.Len-st.Read))
		}
	}
	return fmt.Sprintf("(WinCase %d%%Z %s %d%%Z)", sc.W, "["+joinZ(ops)+"]", sc.Final)
}

func joinZ(xs []string) string {
	out := ""
	for i, x := range xs {
		if i > 0 {
			out += "; "
		}
		out += "(" + x + ")%Z"
	}
	return out
}
