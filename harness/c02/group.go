package main

// Round 4: several exchanges IN FLIGHT on one HTTP/2 connection.  The peer waits until every request of the
// group has arrived, then writes the responses' frames in a scripted interleaving, with connection-level frames
// in between (a graceful GOAWAY whose last-stream-id covers every member, PINGs whose acks make the peer wait
// until the client has processed what was sent so far).  Every caller must get its complete response,
// whatever happens to the other streams of the connection.

import (
	"fmt"
	"strings"
	"sync"
	"time"

	"github.com/imroc/req/v3/verifharness/hk"
	"golang.org/x/net/http2"
)

type gstep struct {
	Kind string `json:"k"` // head | data | trailers | goaway | ping
	M    int    `json:"m"`
	Head int    `json:"h,omitempty"`
	D    h2data `json:"-"`
}

type h2cx struct { // one connection of the peer
	mu           *sync.Mutex
	fr           *http2.Framer
	flush        func() error
	writeHeaders func(sid uint32, fields []field, end bool, frag int)
	win          func() int64 // the peer's view of the client's connection-level receive window
}

type h2group struct {
	ID           int     `json:"group"`
	Members      []*exch `json:"-"`
	Sched        []gstep `json:"schedule"`
	NoKeepAlives bool    `json:"disable_keep_alives"`
	srv          *h2srv
	mu           sync.Mutex
	cxs          []*h2cx
	sids         []uint32
	arrived      int
	started      bool
	done         chan struct{}
}

func genGroup(g *gen, id int) *h2group {
	rng := g.rng
	grp := &h2group{ID: id, NoKeepAlives: rng.Chance(25), done: make(chan struct{})}
	k := rng.Range(2, 4)
	var seqs [][]gstep
	for i := 0; i < k; i++ {
		a := g.muxAresp(hk.Pick(rng, []int{0, 1, 17, 600, 4096, 9000}), rng.Intn(4))
		for a.Code >= 300 && a.Code < 400 {
			a = g.muxAresp(hk.Pick(rng, []int{0, 1, 17, 600, 4096, 9000}), rng.Intn(4))
		}
		x := g.h2(a, "GET", hk.Pick(rng, modes), "one", rng.Bool())
		g.xs = g.xs[:len(g.xs)-1] // group members are run by the group, not by the workers
		x.grp = grp
		grp.Members = append(grp.Members, x)
		var sq []gstep
		for h := range x.H2.heads {
			sq = append(sq, gstep{Kind: "head", M: i, Head: h})
		}
		for _, d := range x.H2.Data {
			sq = append(sq, gstep{Kind: "data", M: i, D: d})
		}
		if x.H2.UseTrailers {
			sq = append(sq, gstep{Kind: "trailers", M: i})
		}
		seqs = append(seqs, sq)
	}
	// random interleaving that keeps every member's own order; a PING barrier after most stream ends
	goawayAt := -1
	total := 0
	for _, sq := range seqs {
		total += len(sq)
	}
	if rng.Chance(75) {
		goawayAt = rng.Intn(total + 1)
	}
	n := 0
	for {
		var live []int
		for i, sq := range seqs {
			if len(sq) > 0 {
				live = append(live, i)
			}
		}
		if n == goawayAt {
			grp.Sched = append(grp.Sched, gstep{Kind: "goaway"})
		}
		if len(live) == 0 {
			break
		}
		i := hk.Pick(rng, live)
		st := seqs[i][0]
		seqs[i] = seqs[i][1:]
		grp.Sched = append(grp.Sched, st)
		n++
		x := grp.Members[i]
		ends := st.Kind == "trailers" || st.Kind == "data" && st.D.End || st.Kind == "head" && st.Head == len(x.H2.heads)-1 && x.H2.HdrEnd
		if ends && rng.Chance(75) {
			grp.Sched = append(grp.Sched, gstep{Kind: "ping"})
		}
	}
	return grp
}

func (grp *h2group) arrive(x *exch, cx *h2cx, sid uint32) {
	grp.mu.Lock()
	defer grp.mu.Unlock()
	if grp.cxs == nil {
		grp.cxs = make([]*h2cx, len(grp.Members))
		grp.sids = make([]uint32, len(grp.Members))
	}
	for i, m := range grp.Members {
		if m == x {
			grp.cxs[i], grp.sids[i] = cx, sid
		}
	}
	grp.arrived++
	if grp.arrived == 1 {
		go func() { // do not wait for ever for a request that never arrives
			time.Sleep(5 * time.Second)
			grp.start()
		}()
	}
	if grp.arrived == len(grp.Members) {
		go grp.start()
	}
}

func (grp *h2group) start() {
	grp.mu.Lock()
	if grp.started {
		grp.mu.Unlock()
		return
	}
	grp.started = true
	cxs, sids := append([]*h2cx{}, grp.cxs...), append([]uint32{}, grp.sids...)
	grp.mu.Unlock()
	defer close(grp.done)
	distinct := func() map[*h2cx]uint32 { // connection -> highest member stream id on it
		m := map[*h2cx]uint32{}
		for i, cx := range cxs {
			if cx != nil && sids[i] > m[cx] {
				m[cx] = sids[i]
			}
		}
		return m
	}
	for _, st := range grp.Sched {
		switch st.Kind {
		case "goaway":
			for cx, last := range distinct() {
				cx.mu.Lock()
				cx.fr.WriteGoAway(last, http2.ErrCodeNo, []byte("graceful"))
				cx.flush()
				cx.mu.Unlock()
			}
		case "ping":
			for cx := range distinct() {
				ch := make(chan struct{})
				var d [8]byte
				copy(d[:], fmt.Sprintf("g%07d", grp.srv.pingSeq.Add(1)%10000000))
				grp.srv.pings.Store(d, ch)
				cx.mu.Lock()
				cx.fr.WritePing(false, d)
				cx.flush()
				cx.mu.Unlock()
				select {
				case <-ch:
				case <-time.After(2 * time.Second):
				}
			}
		default:
			cx, sid := cxs[st.M], sids[st.M]
			if cx == nil {
				continue
			}
			x := grp.Members[st.M]
			cx.mu.Lock()
			switch st.Kind {
			case "head":
				cx.writeHeaders(sid, x.H2.heads[st.Head], st.Head == len(x.H2.heads)-1 && x.H2.HdrEnd, 0)
			case "data":
				d := st.D
				if d.Pad > 0 {
					cx.fr.WriteDataPadded(sid, d.End, x.A.Body[d.Off:d.Off+d.Len], make([]byte, d.Pad))
				} else {
					cx.fr.WriteData(sid, d.End, x.A.Body[d.Off:d.Off+d.Len])
				}
			case "trailers":
				cx.writeHeaders(sid, x.H2.trailerWire, true, 0)
			}
			cx.flush()
			cx.mu.Unlock()
		}
	}
}

func (grp *h2group) run(srv *h2srv, outDir string) {
	grp.srv = srv
	c := newH2Client(srv.ln.Addr().String(), false)
	if grp.NoKeepAlives {
		c.DisableKeepAlives()
	}
	defer c.GetTransport().CloseIdleConnections()
	var wg sync.WaitGroup
	for _, x := range grp.Members {
		wg.Add(1)
		go func(x *exch) {
			defer wg.Done()
			id := nextID()
			srv.scripts.Store(id, x)
			defer srv.scripts.Delete(id)
			x.s = perform(c, x, "http://c02.test/x/"+id+"/1", outDir)
		}(x)
	}
	wg.Wait()
}

func (grp *h2group) coq() string {
	var steps, members []string
	for _, st := range grp.Sched {
		switch st.Kind {
		case "head":
			steps = append(steps, fmt.Sprintf("GHead %d%%N", st.M))
		case "data":
			steps = append(steps, fmt.Sprintf("GData %d%%N %d%%N %d%%N %d%%N %s", st.M, st.D.Off, st.D.Len, st.D.Pad, hk.CoqBool(st.D.End)))
		case "trailers":
			steps = append(steps, fmt.Sprintf("GTrailers %d%%N", st.M))
		case "goaway":
			steps = append(steps, "GGoAway")
		case "ping":
			steps = append(steps, "GPing")
		}
	}
	for _, x := range grp.Members {
		heads, tr := x.coqH2Heads()
		members = append(members, fmt.Sprintf("GMember %s %s %s %s %s %s %s %s", hk.CoqBool(x.Method == "HEAD"), x.A.coqBody(), heads, tr,
			hk.CoqBool(x.hasBody()), coqMode[x.Mode], coqPat(x.Pat), x.coqObsCore()))
	}
	return "(H2GroupCase " + hk.CoqList(steps) + " " + hk.CoqList(members) + ")"
}

func (grp *h2group) key() string {
	var sb strings.Builder
	fmt.Fprintf(&sb, "group|%v|%v|", grp.Sched, grp.NoKeepAlives)
	for _, x := range grp.Members {
		sb.WriteString(x.key())
	}
	return sb.String()
}
