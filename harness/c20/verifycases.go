package main

// Ties for the two text-level pieces of the C20 model:
//  - QuoteCase: digest.go's escapeQuoted / unquoteParam against the model's functions, with the
//    round trip (a quoted-string written by a server is recovered exactly) as the oracle;
//  - VerifyCase: the model's RFC 7616 verifier (rfc7616_accepts, the subject of theorem
//    C20_verifier_accepts) against the harness's independent Go verifier on the headers the real
//    code produced AND on damaged / re-arranged variants of them, so that the Coq verifier is
//    known to refuse what the Go verifier refuses.

import (
	"fmt"
	"strings"

	req "github.com/imroc/req/v3"
	"github.com/imroc/req/v3/verifharness/hk"
)

func c20Quote(r *hk.Run, rng *hk.Rand) {
	n := r.Scale(400, 8000)
	alphabet := []byte{'"', '\\', 'a', 'b', ' ', ',', '=', '"', '\\', 'z', 0xc3, 0xa9, '\t'}
	for i := 0; i < n; i++ {
		ln := hk.Pick(rng, []int{0, 1, 2, 3, 5, 8, 13, 40})
		b := make([]byte, ln)
		for j := range b {
			b[j] = alphabet[rng.Intn(len(alphabet))]
		}
		s := string(b)
		esc := req.VerifEscapeQuoted(s)
		// value handed to unquoteParam: a well-formed quoted-string, or a damaged one, or a token
		v := `"` + esc + `"`
		kind := "quoted"
		switch rng.Intn(6) {
		case 0:
			v = s
			kind = "raw"
		case 1:
			v = `"` + s + `"`
			kind = "unescaped"
		case 2:
			if len(v) > 1 {
				v = v[:len(v)-1]
			}
			kind = "unterminated"
		case 3:
			v = v + hk.Pick(rng, []string{`"`, `x`, `\`, `""`})
			kind = "trailing"
		}
		un := req.VerifUnquoteParam(v)
		r.Count("quote.kind=" + kind)
		if kind == "quoted" && un != s {
			r.Fail(hk.Failure{Sig: "quote:roundtrip", What: "unquoteParam does not recover a string written as a quoted-string", Input: map[string]interface{}{"s": b, "quoted": v}, Got: un})
		}
		// independent rendering of the escaping rule (RFC 7230 3.2.6: quoted-pair for DQUOTE and backslash)
		var sb strings.Builder
		for j := 0; j < len(s); j++ {
			if s[j] == '"' || s[j] == '\\' {
				sb.WriteByte('\\')
			}
			sb.WriteByte(s[j])
		}
		if esc != sb.String() {
			r.Fail(hk.Failure{Sig: "quote:escape", What: "escapeQuoted is not the quoted-pair escaping of double quote and backslash", Input: map[string]interface{}{"s": b}, Got: esc, Want: sb.String()})
		}
		r.Add(hk.Case{Coq: fmt.Sprintf("QuoteCase %s %s %s %s", pks(s), pks(esc), pks(v), pks(un)),
			Desc: map[string]interface{}{"kind": "quote", "s": b, "escaped": esc, "value": v, "unquoted": un}},
			"quote|"+s+"|"+v, strings.ContainsAny(s, `"\`))
	}
}

// splitAuthParams cuts the parameter list of a credentials value at the commas outside quoted
// strings (harness-side, for building variants; not part of any oracle).
func splitAuthParams(s string) []string {
	var out []string
	inq, esc, start := false, false, 0
	for i := 0; i < len(s); i++ {
		switch {
		case esc:
			esc = false
		case inq && s[i] == '\\':
			esc = true
		case s[i] == '"':
			inq = !inq
		case s[i] == ',' && !inq:
			out = append(out, strings.TrimSpace(s[start:i]))
			start = i + 1
		}
	}
	return append(out, strings.TrimSpace(s[start:]))
}

type hdrVariant struct {
	text       string
	kind       string
	strictOnly bool // the Go verifier may accept what the exact-match model verifier refuses
}

// headerVariants: the header itself, harmless re-arrangements (both verifiers must accept what
// they accepted before) and damaged ones (both must refuse).
func headerVariants(rng *hk.Rand, auth string) []hdrVariant {
	vs := []hdrVariant{{auth, "as-sent", false}}
	if !strings.HasPrefix(auth, "Digest ") {
		return vs
	}
	ps := splitAuthParams(auth[7:])
	join := func(ps []string, sep string) string { return "Digest " + strings.Join(ps, sep) }
	find := func(name string) int {
		for i, p := range ps {
			if strings.HasPrefix(p, name+"=") {
				return i
			}
		}
		return -1
	}
	cp := func() []string { return append([]string(nil), ps...) }
	for n := 0; n < 3; n++ {
		switch rng.Intn(13) {
		case 0: // shuffle
			q := cp()
			for i := len(q) - 1; i > 0; i-- {
				j := rng.Intn(i + 1)
				q[i], q[j] = q[j], q[i]
			}
			vs = append(vs, hdrVariant{join(q, ", "), "shuffled", false})
		case 1: // other list separators, empty elements
			vs = append(vs, hdrVariant{join(ps, hk.Pick(rng, []string{",", " , ", ",\t", ", , ", " ,, "})), "separators", false})
		case 2: // parameter names in upper case
			q := cp()
			for i := range q {
				k := strings.IndexByte(q[i], '=')
				q[i] = strings.ToUpper(q[i][:k]) + q[i][k:]
			}
			vs = append(vs, hdrVariant{join(q, ", "), "upper-names", false})
		case 3: // one hex digit of the response changed
			if i := find("response"); i >= 0 && len(ps[i]) > 12 {
				q := cp()
				b := []byte(q[i])
				at := 10 + rng.Intn(len(b)-11)
				if b[at] == '0' {
					b[at] = '1'
				} else {
					b[at] = '0'
				}
				q[i] = string(b)
				vs = append(vs, hdrVariant{join(q, ", "), "response-flipped", false})
			}
		case 4: // a required parameter dropped
			name := hk.Pick(rng, []string{"username", "realm", "nonce", "uri", "response"})
			if i := find(name); i >= 0 {
				q := append(cp()[:i], ps[i+1:]...)
				vs = append(vs, hdrVariant{join(q, ", "), "dropped-" + name, false})
			}
		case 5: // another request-target / realm / nonce
			name := hk.Pick(rng, []string{"uri", "realm", "nonce", "username"})
			if i := find(name); i >= 0 && strings.HasSuffix(ps[i], `"`) {
				q := cp()
				q[i] = q[i][:len(q[i])-1] + `x"`
				vs = append(vs, hdrVariant{join(q, ", "), "altered-" + name, false})
			}
		case 6: // nonce count
			if i := find("nc"); i >= 0 {
				q := cp()
				q[i] = "nc=00000002"
				vs = append(vs, hdrVariant{join(q, ", "), "nc-2", false})
			}
		case 7: // algorithm written as a quoted-string (RFC 7616 3.4: token)
			if i := find("algorithm"); i >= 0 {
				q := cp()
				q[i] = `algorithm="` + q[i][len("algorithm="):] + `"`
				vs = append(vs, hdrVariant{join(q, ", "), "alg-quoted", false})
			}
		case 8: // duplicate parameter
			if i := find("nonce"); i >= 0 {
				vs = append(vs, hdrVariant{join(append(cp(), ps[i]), ", "), "duplicate", false})
			}
		case 9: // unknown extra parameter: ignored by the Go verifier, refused by the exact one
			vs = append(vs, hdrVariant{join(append(cp(), `x-ext="1"`), ", "), "extra-param", true})
		case 10: // qop parameters removed although qop was offered
			if find("qop") >= 0 {
				var q []string
				for _, p := range ps {
					if !strings.HasPrefix(p, "qop=") && !strings.HasPrefix(p, "nc=") && !strings.HasPrefix(p, "cnonce=") {
						q = append(q, p)
					}
				}
				vs = append(vs, hdrVariant{join(q, ", "), "qop-removed", false})
			}
		case 11: // syntax damage
			vs = append(vs, hdrVariant{hk.Pick(rng, []string{auth + `"`, auth + ", =", strings.Replace(auth, "Digest ", "Digest", 1), auth[:len(auth)-1], strings.Replace(auth, "=", " ", 1)}), "syntax", false})
		case 12: // another scheme
			vs = append(vs, hdrVariant{"Basic " + auth[7:], "scheme", false})
		}
	}
	return vs
}

// emitVerifyCases: for a header the real code produced for a well-formed challenge.
func emitVerifyCases(r *hk.Run, rng *hk.Rand, cc chalCase, auth, method, uri, user, pass, cnonce string, hl []hashEntry) {
	for _, v := range headerVariants(rng, auth) {
		verdict, hl2 := verifyDigestHint(v.text, method, uri, user, pass, nil, cc.Spec, cnonce)
		goOK := verdict == ""
		r.Count("verify.variant=" + v.kind)
		r.Count(fmt.Sprintf("verify.go-accepts=%v", goOK))
		// sanity of the harness itself: harmless variants of an accepted header stay accepted
		all := append(append([]hashEntry(nil), hl...), hl2...)
		r.Add(hk.Case{Coq: fmt.Sprintf("VerifyCase %s %s %s %s %s %s %s %s %s %s", coqTable(all), pks(cc.Text), pks(uri), pks(method),
			pks(user), pks(pass), pks(cnonce), pks(v.text), hk.CoqBool(goOK), hk.CoqBool(v.strictOnly)),
			Desc: map[string]interface{}{"kind": "verify", "variant": v.kind, "challenge": cc.Text, "header": v.text, "go_verdict": verdict,
				"method": method, "uri": uri, "user": user, "pass": pass, "cnonce": cnonce}},
			"verify|"+cc.Text+"|"+v.text+"|"+method+"|"+uri+"|"+user+"|"+pass, v.kind != "as-sent")
	}
}
