package main

import (
	"bytes"
	"fmt"
	"io"
	"mime"
	"mime/multipart"
	"sort"
	"strings"
)

// parseMultipart returns a canonical text of the parts of a multipart/form-data request.
func parseMultipart(w wireReq) (string, error) {
	mt, params, err := mime.ParseMediaType(w.CT)
	if err != nil {
		return "", err
	}
	if mt != "multipart/form-data" {
		return "", fmt.Errorf("content type %q", mt)
	}
	mr := multipart.NewReader(bytes.NewReader(w.Body), params["boundary"])
	var parts []string
	for {
		p, err := mr.NextRawPart()
		if err == io.EOF {
			break
		}
		if err != nil {
			return "", err
		}
		b, err := io.ReadAll(p)
		if err != nil {
			return "", err
		}
		parts = append(parts, fmt.Sprintf("%q|%q|%q|%x", p.FormName(), p.FileName(), p.Header.Get("Content-Type"), b))
	}
	if len(parts) == 0 {
		return "", fmt.Errorf("no parts")
	}
	sort.Strings(parts)
	return strings.Join(parts, "\n"), nil
}
