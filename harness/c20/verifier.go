package main

// Independent RFC 7616 verification (the oracle of C20).  Written from the RFC text
// (sections 3.3, 3.4, 3.4.1-3.4.4) and RFC 7235's auth-param grammar; shares nothing with
// /repo/digest.go.  Hashes: Go standard library (md5, sha256, sha512.New512_256).

import (
	"crypto/md5"
	"crypto/sha256"
	"crypto/sha512"
	"crypto/subtle"
	"encoding/hex"
	"fmt"
	"hash"
	"strings"
)

// chalSpec is what the origin put into its challenge (the verifier's own record of it).
type chalSpec struct {
	Realm      string   `json:"realm"`
	Nonce      string   `json:"nonce"`
	Opaque     string   `json:"opaque"`
	HasOpaque  bool     `json:"has_opaque"`
	Alg        string   `json:"alg"` // "" = parameter absent
	Qop        []string `json:"qop"` // nil = parameter absent
	Userhash   bool     `json:"userhash"`
	UserhashP  bool     `json:"userhash_param"` // parameter present (true or false)
	Domain     string   `json:"domain,omitempty"`
	Stale      string   `json:"stale,omitempty"`
	Charset    string   `json:"charset,omitempty"`
	ExtraParam string   `json:"extra,omitempty"` // raw text of an extra (unknown / malformed) parameter
}

// registry: RFC 7616 section 6.1 (+ "-sess" variants of 3.4.2); "" = MD5 (section 3.3).
func registry(alg string) (name string, ctor func() hash.Hash, sess bool, ok bool) {
	switch alg {
	case "", "MD5":
		return "HMd5", md5.New, false, true
	case "MD5-sess":
		return "HMd5", md5.New, true, true
	case "SHA-256":
		return "HSha256", sha256.New, false, true
	case "SHA-256-sess":
		return "HSha256", sha256.New, true, true
	case "SHA-512-256":
		return "HSha512_256", sha512.New512_256, false, true
	case "SHA-512-256-sess":
		return "HSha512_256", sha512.New512_256, true, true
	}
	return "", nil, false, false
}

type hashEntry struct {
	Fn  string
	In  string
	Out string
}

// hasher hashes with one function and records every (input, output) pair.
type hasher struct {
	fn   string
	ctor func() hash.Hash
	log  []hashEntry
}

func (h *hasher) H(s string) string {
	x := h.ctor()
	x.Write([]byte(s))
	out := hex.EncodeToString(x.Sum(nil))
	h.log = append(h.log, hashEntry{h.fn, s, out})
	return out
}

type authParam struct {
	Val    string
	Quoted bool
}

func isTchar(c byte) bool {
	if c >= '0' && c <= '9' || c >= 'a' && c <= 'z' || c >= 'A' && c <= 'Z' {
		return true
	}
	return strings.IndexByte("!#$%&'*+-.^_`|~", c) >= 0
}

// parseCredentials: credentials = auth-scheme 1*SP #auth-param ; auth-param = token BWS "="
// BWS ( token / quoted-string ) (RFC 7235 2.1).  Strict: empty tokens, unterminated quoted
// strings, duplicate parameters are errors.
func parseCredentials(s string) (scheme string, ps map[string]authParam, err error) {
	i := 0
	for i < len(s) && isTchar(s[i]) {
		i++
	}
	scheme = s[:i]
	if scheme == "" || i >= len(s) || s[i] != ' ' {
		return scheme, nil, fmt.Errorf("no auth-scheme SP")
	}
	for i < len(s) && s[i] == ' ' {
		i++
	}
	ps = map[string]authParam{}
	skipOWS := func() {
		for i < len(s) && (s[i] == ' ' || s[i] == '\t') {
			i++
		}
	}
	for {
		skipOWS()
		if i >= len(s) {
			break
		}
		if s[i] == ',' { // empty list element
			i++
			continue
		}
		st := i
		for i < len(s) && isTchar(s[i]) {
			i++
		}
		name := strings.ToLower(s[st:i])
		if name == "" {
			return scheme, nil, fmt.Errorf("parameter name expected at %d", st)
		}
		skipOWS()
		if i >= len(s) || s[i] != '=' {
			return scheme, nil, fmt.Errorf("'=' expected after %q", name)
		}
		i++
		skipOWS()
		var p authParam
		if i < len(s) && s[i] == '"' {
			i++
			var sb strings.Builder
			closed := false
			for i < len(s) {
				c := s[i]
				if c == '\\' {
					if i+1 >= len(s) {
						return scheme, nil, fmt.Errorf("dangling backslash in %q", name)
					}
					sb.WriteByte(s[i+1])
					i += 2
					continue
				}
				if c == '"' {
					closed = true
					i++
					break
				}
				sb.WriteByte(c)
				i++
			}
			if !closed {
				return scheme, nil, fmt.Errorf("unterminated quoted-string in %q", name)
			}
			p = authParam{sb.String(), true}
		} else {
			st = i
			for i < len(s) && isTchar(s[i]) {
				i++
			}
			if st == i {
				return scheme, nil, fmt.Errorf("empty value for parameter %q (token = 1*tchar)", name)
			}
			p = authParam{s[st:i], false}
		}
		if _, dup := ps[name]; dup {
			return scheme, nil, fmt.Errorf("duplicate parameter %q", name)
		}
		ps[name] = p
		skipOWS()
		if i < len(s) {
			if s[i] != ',' {
				return scheme, nil, fmt.Errorf("',' expected after parameter %q at %d", name, i)
			}
			i++
		}
	}
	return scheme, ps, nil
}

// verifyDigest decides whether authz is an acceptable answer to spec for (method, requestURI)
// by the user/password on file.  body is the request body (auth-int).  Returns "" when
// accepted, otherwise the reason; the hashes computed are returned for the Coq hash table.
func verifyDigest(authz, method, requestURI, user, pass string, body []byte, spec chalSpec) (reason string, hl []hashEntry) {
	scheme, ps, err := parseCredentials(authz)
	if err != nil {
		return "syntax: " + err.Error(), nil
	}
	if !strings.EqualFold(scheme, "Digest") {
		return "scheme is not Digest", nil
	}
	need := func(k string, quoted bool) (string, string) {
		p, ok := ps[k]
		if !ok {
			return "", "missing " + k
		}
		if p.Quoted != quoted {
			return "", fmt.Sprintf("%s: quoted=%v, RFC 7616 3.4 requires quoted=%v", k, p.Quoted, quoted)
		}
		return p.Val, ""
	}
	var username, realm, nonce, uri, response string
	for _, f := range []struct {
		k string
		d *string
	}{{"username", &username}, {"realm", &realm}, {"nonce", &nonce}, {"uri", &uri}, {"response", &response}} {
		v, why := need(f.k, true)
		if why != "" {
			return why, nil
		}
		*f.d = v
	}
	if realm != spec.Realm {
		return "realm differs from the challenge", nil
	}
	if nonce != spec.Nonce {
		return "nonce differs from the challenge", nil
	}
	if uri != requestURI {
		return fmt.Sprintf("uri %q is not the request-target %q", uri, requestURI), nil
	}
	if p, ok := ps["opaque"]; ok {
		if !p.Quoted {
			return "opaque not quoted", nil
		}
		if !spec.HasOpaque || p.Val != spec.Opaque {
			return "opaque differs from the challenge", nil
		}
	} else if spec.HasOpaque && spec.Opaque != "" {
		return "opaque not returned", nil
	}
	alg := "MD5"
	if p, ok := ps["algorithm"]; ok {
		if p.Quoted {
			return "algorithm must not be quoted", nil
		}
		alg = p.Val
	}
	want := spec.Alg
	if want == "" {
		want = "MD5"
	}
	if alg != want {
		return fmt.Sprintf("algorithm %q, challenge said %q", alg, want), nil
	}
	fn, ctor, sess, ok := registry(alg)
	if !ok {
		return "verifier does not know algorithm " + alg, nil
	}
	h := &hasher{fn: fn, ctor: ctor}
	// userhash
	uh := false
	if p, ok := ps["userhash"]; ok {
		if p.Quoted {
			return "userhash must not be quoted", nil
		}
		switch strings.ToLower(p.Val) {
		case "true":
			uh = true
		case "false":
		default:
			return "userhash value", nil
		}
	}
	if uh != spec.Userhash {
		return fmt.Sprintf("userhash=%v but challenge said %v", uh, spec.Userhash), nil
	}
	if uh {
		if username != h.H(user+":"+realm) {
			return "username is not H(user:realm)", h.log
		}
	} else if username != user {
		return "unknown user " + username, h.log
	}
	// qop / nc / cnonce
	var qop, nc, cnonce string
	if p, ok := ps["qop"]; ok {
		if p.Quoted {
			return "qop must not be quoted", h.log
		}
		qop = p.Val
		if spec.Qop == nil {
			return "qop sent but not offered", h.log
		}
		offered := false
		for _, q := range spec.Qop {
			if q == qop {
				offered = true
			}
		}
		if !offered {
			return fmt.Sprintf("qop %q was not offered", qop), h.log
		}
		if qop != "auth" && qop != "auth-int" {
			return "unknown qop " + qop, h.log
		}
		var why string
		if nc, why = need("nc", false); why != "" {
			return why, h.log
		}
		if len(nc) != 8 || strings.Trim(nc, "0123456789abcdefABCDEF") != "" {
			return "nc is not 8LHEX", h.log
		}
		if strings.ToLower(nc) != "00000001" {
			return "nc is not 1 on first use of the nonce", h.log
		}
		if cnonce, why = need("cnonce", true); why != "" {
			return why, h.log
		}
		if cnonce == "" {
			return "empty cnonce", h.log
		}
	} else {
		if spec.Qop != nil {
			return "qop offered but not used (RFC 7616 3.4: MUST)", h.log
		}
		if _, ok := ps["nc"]; ok {
			return "nc without qop", h.log
		}
		if _, ok := ps["cnonce"]; ok {
			return "cnonce without qop", h.log
		}
		if sess {
			return "session algorithm without cnonce: cannot be verified", h.log
		}
	}
	// 3.4.2 A1, 3.4.3 A2, 3.4.1 response
	var ha1 string
	if sess {
		ha1 = h.H(h.H(user+":"+realm+":"+pass) + ":" + nonce + ":" + cnonce)
	} else {
		ha1 = h.H(user + ":" + realm + ":" + pass)
	}
	var ha2 string
	if qop == "auth-int" {
		x := ctor()
		x.Write(body)
		ha2 = h.H(method + ":" + uri + ":" + hex.EncodeToString(x.Sum(nil)))
	} else {
		ha2 = h.H(method + ":" + uri)
	}
	var exp string
	if qop == "" {
		exp = h.H(ha1 + ":" + nonce + ":" + ha2)
	} else {
		exp = h.H(ha1 + ":" + nonce + ":" + nc + ":" + cnonce + ":" + qop + ":" + ha2)
	}
	if subtle.ConstantTimeCompare([]byte(strings.ToLower(response)), []byte(exp)) != 1 {
		return fmt.Sprintf("response mismatch (%d hex digits received, %d expected)", len(response), len(exp)), h.log
	}
	return "", h.log
}

// expectedHashes: every hash an RFC 7616 client computes for this challenge with qop=auth
// (or none) and the given cnonce; used to fill the Coq hash table also when the verifier
// stopped early.  Independent of /repo.
func expectedHashes(alg string, qopPresent bool, userhash bool, user, realm, pass, nonce, cnonce, method, uri string) []hashEntry {
	fn, ctor, sess, ok := registry(alg)
	if !ok {
		return nil
	}
	h := &hasher{fn: fn, ctor: ctor}
	if userhash {
		h.H(user + ":" + realm)
	}
	ha1 := h.H(user + ":" + realm + ":" + pass)
	if sess {
		ha1 = h.H(ha1 + ":" + nonce + ":" + cnonce)
	}
	ha2 := h.H(method + ":" + uri)
	if qopPresent {
		h.H(ha1 + ":" + nonce + ":00000001:" + cnonce + ":auth:" + ha2)
	} else {
		h.H(ha1 + ":" + nonce + ":" + ha2)
	}
	return h.log
}
