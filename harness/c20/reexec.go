package main

// Re-execution: ONE Request object is sent several times on one client while Basic / Bearer
// credentials are set in between - on the client (SetCommonBasicAuth, SetCommonBearerAuthToken)
// and on the request (SetBasicAuth, SetBearerAuthToken).  Oracle: every execution transmits the
// credentials given - the latest set on the request if any ever was, otherwise the client's
// CURRENT ones.  Values recur on purpose (the request is given exactly what the client had,
// then the client's are rotated).

import (
	"encoding/base64"
	"fmt"
	"net"
	"net/http"
	"strings"
	"sync"

	req "github.com/imroc/req/v3"
	"github.com/imroc/req/v3/verifharness/hk"
)

func c20Reexec(r *hk.Run, rng *hk.Rand) {
	var mu sync.Mutex
	got := map[string][]string{}
	hits := map[string][][]string{} // every transmission of a case, in order
	srv := &http.Server{Handler: http.HandlerFunc(func(w http.ResponseWriter, q *http.Request) {
		id := q.Header.Get("X-Case")
		mu.Lock()
		got[id] = append([]string(nil), q.Header.Values("Authorization")...)
		hits[id] = append(hits[id], got[id])
		n := len(hits[id])
		mu.Unlock()
		if strings.HasSuffix(id, "r") && n == 1 {
			w.WriteHeader(503) // a retryable result: the request is configured to try once more
			return
		}
		w.WriteHeader(204)
	})}
	ln, err := net.Listen("tcp", "127.0.0.1:0")
	if err != nil {
		r.Notes = append(r.Notes, "listen failed: "+err.Error())
		return
	}
	go srv.Serve(ln)
	defer srv.Close()
	base := "http://" + ln.Addr().String()

	type cred struct {
		basic      bool
		user, pass string // or token in user
	}
	header := func(c cred) string {
		if c.basic {
			return "Basic " + stdB64(c.user+":"+c.pass)
		}
		return "Bearer " + c.user
	}
	n := r.Scale(150, 3000)
	for s := 0; s < n; s++ {
		// a small pool of credentials per sequence, so that equal values meet
		var poolC []cred
		for k := 0; k < 3; k++ {
			if rng.Chance(60) {
				u, _ := genCred(rng, false)
				p, _ := genCred(rng, true)
				if len(u) > 300 {
					u = u[:300]
				}
				if len(p) > 300 {
					p = p[:300]
				}
				poolC = append(poolC, cred{true, u, p})
			} else {
				t, _ := genToken(rng)
				if len(t) > 300 {
					t = t[:300]
				}
				poolC = append(poolC, cred{false, t, ""})
			}
		}
		c := req.C()
		q := c.R().SetRetryCount(1).SetRetryFixedInterval(0).AddRetryCondition(func(resp *req.Response, err error) bool {
			return err == nil && resp != nil && resp.StatusCode == 503
		})
		var ops []string
		var readable []string
		var clientCred, reqCred *cred
		var obs []string
		sends := 0
		key := ""
		nOps := rng.Range(4, 10)
		ok := true
		for k := 0; k < nOps || sends < 2; k++ {
			op := rng.Intn(5)
			if k == nOps-1 || k >= nOps {
				op = 4
			}
			switch op {
			case 0, 1: // client-level
				cr := poolC[rng.Intn(len(poolC))]
				if cr.basic {
					c.SetCommonBasicAuth(cr.user, cr.pass)
					ops = append(ops, fmt.Sprintf("CBasic %s %s", pks(cr.user), pks(cr.pass)))
				} else {
					c.SetCommonBearerAuthToken(cr.user)
					ops = append(ops, "CBearer "+pks(cr.user))
				}
				clientCred = &cr
				key += "|C" + header(cr)
				readable = append(readable, "client: "+header(cr))
			case 2: // request-level; preferably exactly what the client has right now
				cr := poolC[rng.Intn(len(poolC))]
				if clientCred != nil && rng.Chance(60) {
					cr = *clientCred
				}
				if cr.basic {
					q.SetBasicAuth(cr.user, cr.pass)
					ops = append(ops, fmt.Sprintf("RBasic %s %s", pks(cr.user), pks(cr.pass)))
				} else {
					q.SetBearerAuthToken(cr.user)
					ops = append(ops, "RBearer "+pks(cr.user))
				}
				reqCred = &cr
				key += "|R" + header(cr)
				readable = append(readable, "request: "+header(cr))
			default:
				retried := rng.Chance(35) // the first attempt of this execution gets a 503 and is retried
				id := fmt.Sprintf("re%d-%d", s, sends)
				if retried {
					id += "r"
				}
				_, err := q.SetHeader("X-Case", id).Get(base + "/re")
				mu.Lock()
				vs, seen := got[id]
				all := hits[id]
				mu.Unlock()
				if retried {
					ops = append(ops, "SendR")
					readable = append(readable, "send (first attempt 503, retried)")
					key += "|SR"
				} else {
					ops = append(ops, "Send")
					readable = append(readable, "send")
					key += "|S"
				}
				sends++
				if wantHits := map[bool]int{false: 1, true: 2}[retried]; len(all) != wantHits {
					r.Fail(hk.Failure{Sig: fmt.Sprintf("reexec:attempts=%d:retried=%v", len(all), retried), What: "an execution must reach the origin once, or twice when its first attempt got the retryable 503",
						Input: map[string]interface{}{"sequence": s, "ops": strings.Join(readable, "; ")}, Got: len(all)})
					ok = false
					break
				}
				if retried && strings.Join(all[0], "\x00") != strings.Join(all[1], "\x00") {
					r.Fail(hk.Failure{Sig: "reexec:retry-differs", What: "the retry attempt carries another Authorization header than the first attempt", Input: map[string]interface{}{"sequence": s, "ops": strings.Join(readable, "; ")}, Got: all})
				}
				if retried { // the first attempt's observation is part of the case
					if len(all[0]) == 1 {
						obs = append(obs, "Some "+pks(all[0][0]))
					} else {
						obs = append(obs, "None")
					}
				}
				in := map[string]interface{}{"sequence": s, "ops": strings.Join(readable, "; "), "execution": sends}
				if err != nil || !seen || len(vs) > 1 {
					r.Fail(hk.Failure{Sig: "reexec:not-transmitted", What: "execution did not reach the origin with at most one Authorization header", Input: in, Got: fmt.Sprint(err, vs)})
					ok = false
					break
				}
				want := ""
				switch {
				case reqCred != nil:
					want = header(*reqCred)
				case clientCred != nil:
					want = header(*clientCred)
				}
				g := ""
				if len(vs) == 1 {
					g = vs[0]
				}
				if g != want {
					lvl := "client"
					if reqCred != nil {
						lvl = "request"
					}
					r.Fail(hk.Failure{Sig: fmt.Sprintf("reexec:wrong-credentials:%s-level:execution>1=%v", lvl, sends > 1), What: "a re-executed request does not transmit the credentials given (request level wins, otherwise the client's current ones)",
						Input: in, Got: g, Want: want})
				}
				if len(vs) == 1 {
					obs = append(obs, "Some "+pks(vs[0]))
				} else {
					obs = append(obs, "None")
				}
				r.Count(fmt.Sprintf("reexec.send.execution=%d", min(sends, 4)))
			}
			if !ok {
				break
			}
		}
		c.GetTransport().CloseIdleConnections()
		if !ok {
			continue
		}
		r.Count("reexec.sequences")
		r.Add(hk.Case{Coq: fmt.Sprintf("ReexecCase %s %s", hk.CoqList(ops), hk.CoqList(obs)),
			Desc: map[string]interface{}{"kind": "reexec", "ops": ops}}, "reexec"+key, sends > 1)
	}
}

func stdB64(s string) string { return base64.StdEncoding.EncodeToString([]byte(s)) }

// c20Clones: a client and its clones (Client.Clone), Basic / Bearer credentials set on any of
// them at any time, fresh requests sent from any of them.  Oracle: every request carries the
// credentials of ITS client - the last ones set on that client, or what its parent had when it
// was cloned; nothing set on another client afterwards.
func c20Clones(r *hk.Run, rng *hk.Rand) {
	var mu sync.Mutex
	got := map[string][]string{}
	srv := &http.Server{Handler: http.HandlerFunc(func(w http.ResponseWriter, q *http.Request) {
		mu.Lock()
		got[q.Header.Get("X-Case")] = append([]string(nil), q.Header.Values("Authorization")...)
		mu.Unlock()
		w.WriteHeader(204)
	})}
	ln, err := net.Listen("tcp", "127.0.0.1:0")
	if err != nil {
		r.Notes = append(r.Notes, "listen failed: "+err.Error())
		return
	}
	go srv.Serve(ln)
	defer srv.Close()
	base := "http://" + ln.Addr().String()

	n := r.Scale(120, 2500)
	for s := 0; s < n; s++ {
		clients := []*req.Client{req.C()}
		want := []string{""} // expected Authorization per client ("" = none)
		var ops, readable, obs []string
		key := ""
		sends := 0
		ok := true
		nOps := rng.Range(5, 12)
		for k := 0; (k < nOps || sends < 2) && ok; k++ {
			i := rng.Intn(len(clients))
			op := rng.Intn(6)
			if k >= nOps-1 {
				op = 5
			}
			switch {
			case op <= 1: // set credentials on client i
				if rng.Chance(60) {
					u, _ := genCred(rng, false)
					p, _ := genCred(rng, true)
					if len(u) > 200 {
						u = u[:200]
					}
					if len(p) > 200 {
						p = p[:200]
					}
					clients[i].SetCommonBasicAuth(u, p)
					want[i] = "Basic " + stdB64(u+":"+p)
					ops = append(ops, fmt.Sprintf("KBasic %d %s %s", i, pks(u), pks(p)))
				} else {
					t, _ := genToken(rng)
					if len(t) > 200 {
						t = t[:200]
					}
					clients[i].SetCommonBearerAuthToken(t)
					want[i] = "Bearer " + t
					ops = append(ops, fmt.Sprintf("KBearer %d %s", i, pks(t)))
				}
				readable = append(readable, fmt.Sprintf("client%d: %s", i, want[i]))
				key += fmt.Sprintf("|%d=%s", i, want[i])
			case op == 2 && len(clients) < 5: // clone client i
				clients = append(clients, clients[i].Clone())
				want = append(want, want[i])
				ops = append(ops, fmt.Sprintf("KClone %d", i))
				readable = append(readable, fmt.Sprintf("client%d := client%d.Clone()", len(clients)-1, i))
				key += fmt.Sprintf("|c%d", i)
			default: // send from client i
				id := fmt.Sprintf("cl%d-%d", s, sends)
				_, err := clients[i].R().SetHeader("X-Case", id).Get(base + "/clone")
				mu.Lock()
				vs, seen := got[id]
				mu.Unlock()
				ops = append(ops, fmt.Sprintf("KSend %d", i))
				readable = append(readable, fmt.Sprintf("send from client%d", i))
				key += fmt.Sprintf("|s%d", i)
				sends++
				in := map[string]interface{}{"sequence": s, "ops": strings.Join(readable, "; ")}
				if err != nil || !seen || len(vs) > 1 {
					r.Fail(hk.Failure{Sig: "clone:not-transmitted", What: "request did not reach the origin with at most one Authorization header", Input: in, Got: fmt.Sprint(err, vs)})
					ok = false
					break
				}
				g := ""
				if len(vs) == 1 {
					g = vs[0]
				}
				if g != want[i] {
					r.Fail(hk.Failure{Sig: "clone:wrong-credentials", What: "a request does not carry the credentials of its own client (credentials set on another client / clone leaked)",
						Input: in, Got: g, Want: want[i]})
				}
				if len(vs) == 1 {
					obs = append(obs, "Some "+pks(vs[0]))
				} else {
					obs = append(obs, "None")
				}
			}
		}
		for _, c := range clients {
			c.GetTransport().CloseIdleConnections()
		}
		if !ok {
			continue
		}
		r.Count("clone.sequences")
		r.Count(fmt.Sprintf("clone.clients=%d", len(clients)))
		r.Add(hk.Case{Coq: fmt.Sprintf("CloneCase %s %s", hk.CoqList(ops), hk.CoqList(obs)),
			Desc: map[string]interface{}{"kind": "clone", "ops": readable}}, "clone"+key, len(clients) > 1)
	}
}
