package main

// Proxy Basic credentials (transport.go connectMethod.proxyAuth / key, http.go basicAuth): an
// in-process HTTP proxy records every Proxy-Authorization it receives - on plain-http requests
// (answered by the proxy itself) and on CONNECT (tunnelled to a local TLS origin).  One client
// with keep-alive runs a SEQUENCE of requests while its proxy URL changes between them: password
// rotation for the same user, the same credentials again, another user, user without password,
// no userinfo, userinfo written by hand with raw sub-delims and percent-escapes.  Oracle: what
// the proxy receives during request i decodes (net/http's Basic parser) to exactly request i's
// credentials; a plain-http request carries exactly one such header (none without userinfo).

import (
	"crypto/tls"
	"fmt"
	"io"
	"net"
	"net/http"
	"net/http/httptest"
	"net/url"
	"strings"
	"sync"
	"time"

	req "github.com/imroc/req/v3"
	"github.com/imroc/req/v3/verifharness/hk"
)

type proxySeen struct {
	Step    int
	Connect bool
	Has     bool
	Values  []string
	Tunnel  string // X-Tunnel header (from the static ProxyConnectHeader) as received
}

// pctDecode: independent percent-decoding of a userinfo component (RFC 3986 2.1)
func pctDecode(s string) (string, bool) {
	var sb strings.Builder
	for i := 0; i < len(s); i++ {
		if s[i] != '%' {
			sb.WriteByte(s[i])
			continue
		}
		if i+2 >= len(s) {
			return "", false
		}
		var v byte
		for _, c := range []byte{s[i+1], s[i+2]} {
			switch {
			case c >= '0' && c <= '9':
				v = v<<4 | (c - '0')
			case c >= 'a' && c <= 'f':
				v = v<<4 | (c - 'a' + 10)
			case c >= 'A' && c <= 'F':
				v = v<<4 | (c - 'A' + 10)
			default:
				return "", false
			}
		}
		sb.WriteByte(v)
		i += 2
	}
	return sb.String(), true
}

func coqUI(u string, hasPass bool, p string) string {
	if hasPass {
		return fmt.Sprintf("(%s, Some %s)", pks(u), pks(p))
	}
	return fmt.Sprintf("(%s, None)", pks(u))
}

var rawUserinfos = []string{"a!$&'()*+,;=b:c!$&'()*+,;=d", "us%3Aer:p%40ss", "user:pa:ss:word", "%41%6c%61ddin:open%20sesame", "u%2fv:p%3fq", ":", "u:", ":p", "only-user", "%e5%af%86:%E7%A0%81", "a+b:c+d", "~._-:~._-"}

func c20Proxy(r *hk.Run, rng *hk.Rand) {
	var mu sync.Mutex
	step := 0
	var seen []proxySeen
	tlsOrigin := httptest.NewTLSServer(http.HandlerFunc(func(w http.ResponseWriter, q *http.Request) {
		io.WriteString(w, "tls-ok")
	}))
	defer tlsOrigin.Close()
	tlsAddr := strings.TrimPrefix(tlsOrigin.URL, "https://")
	proxy := &http.Server{Handler: http.HandlerFunc(func(w http.ResponseWriter, q *http.Request) {
		vs := q.Header.Values("Proxy-Authorization")
		mu.Lock()
		seen = append(seen, proxySeen{Step: step, Connect: q.Method == "CONNECT", Has: len(vs) > 0, Values: append([]string(nil), vs...), Tunnel: q.Header.Get("X-Tunnel")})
		mu.Unlock()
		if q.Method != "CONNECT" {
			w.Header().Set("Content-Type", "text/plain")
			io.WriteString(w, "proxy-ok") // answered here; the connection stays alive
			return
		}
		up, err := net.DialTimeout("tcp", q.Host, 10*time.Second)
		if err != nil {
			w.WriteHeader(502)
			return
		}
		hj, ok := w.(http.Hijacker)
		if !ok {
			up.Close()
			w.WriteHeader(500)
			return
		}
		c, _, err := hj.Hijack()
		if err != nil {
			up.Close()
			return
		}
		io.WriteString(c, "HTTP/1.1 200 Connection established\r\n\r\n")
		go func() { io.Copy(up, c); up.Close() }()
		go func() { io.Copy(c, up); c.Close() }()
	})}
	ln, err := net.Listen("tcp", "127.0.0.1:0")
	if err != nil {
		r.Notes = append(r.Notes, "proxy listen failed: "+err.Error())
		return
	}
	go proxy.Serve(ln)
	defer proxy.Close()
	paddr := ln.Addr().String()

	// ----- net/url on userinfo texts (ties Model/ProxyAuth.v ui_string / ui_parse) -----
	nUI := r.Scale(300, 6000)
	for i := 0; i < nUI; i++ {
		u, ku := genCred(rng, true)
		p, kp := genCred(rng, true)
		hasPass := !rng.Chance(15)
		var ui *url.Userinfo
		if hasPass {
			ui = url.UserPassword(u, p)
		} else {
			ui = url.User(u)
			p = ""
		}
		text := ui.String()
		raw := hk.Pick(rng, rawUserinfos)
		if rng.Chance(50) {
			raw = text
		}
		obsParse := "None"
		if pu, err := url.Parse("http://" + raw + "@proxy.test:3128"); err == nil && pu.User != nil {
			pw, set := pu.User.Password()
			obsParse = "(Some " + coqUI(pu.User.Username(), set, pw) + ")"
			// independent reading of the raw text: cut at the first colon, percent-decode both sides
			ru, rp, cut := strings.Cut(raw, ":")
			du, ok1 := pctDecode(ru)
			dp, ok2 := pctDecode(rp)
			if !ok1 || !ok2 || du != pu.User.Username() || dp != pw || cut != set {
				r.Fail(hk.Failure{Sig: "userinfo:parse", What: "net/url does not read the userinfo as RFC 3986 percent-decoding of user and password", Input: raw, Got: []string{pu.User.Username(), pw}})
			}
		}
		if back, err := url.Parse("http://" + text + "@proxy.test:3128"); err != nil || back.User == nil || back.User.Username() != u {
			r.Fail(hk.Failure{Sig: "userinfo:roundtrip:" + ku, What: "a user name does not survive URL rendering and parsing", Input: []byte(u), Got: text})
		} else if pw, set := back.User.Password(); set != hasPass || pw != p {
			r.Fail(hk.Failure{Sig: "userinfo:roundtrip:" + kp, What: "a password does not survive URL rendering and parsing", Input: []byte(p), Got: text})
		}
		r.Count("userinfo.cases")
		r.Add(hk.Case{Coq: fmt.Sprintf("UserinfoCase %s %s %s %s", coqUI(u, hasPass, p), pks(text), pks(raw), obsParse),
			Desc: map[string]interface{}{"kind": "userinfo", "user": []byte(u), "pass": []byte(p), "has_pass": hasPass, "text": text, "raw": raw}},
			"userinfo|"+text+"|"+raw, ku != "word" || kp != "word")
	}

	// ----- sequences through the recording proxy -----
	nSeq := r.Scale(60, 1200)
	for s := 0; s < nSeq; s++ {
		c := req.C().EnableInsecureSkipVerify()
		c.GetTransport().TLSClientConfig = &tls.Config{InsecureSkipVerify: true}
		// Transport.ProxyConnectHeader: absent / static extra header / static header that itself
		// carries a Proxy-Authorization (used when the proxy URL has no userinfo)
		var static http.Header
		staticPA := ""
		switch rng.Intn(4) {
		case 0:
			static = http.Header{"X-Tunnel": {fmt.Sprintf("seq%d", s)}}
		case 1:
			staticPA = "Basic " + stdB64("static-user:static-pw")
			static = http.Header{"X-Tunnel": {fmt.Sprintf("seq%d", s)}, "Proxy-Authorization": {staticPA}}
		}
		if static != nil {
			c.GetTransport().SetProxyConnectHeader(static)
		}
		type stepRec struct {
			user, pass     string
			hasUI, hasPass bool
			https          bool
			text           string // proxy URL handed to SetProxyURL
			byNetURL       bool
			kind           string
			obs            []proxySeen
			status         int
			body           string
			err            error
		}
		var steps []*stepRec
		user, _ := genCred(rng, true)
		pass, _ := genCred(rng, true)
		nSteps := rng.Range(3, 6)
		for k := 0; k < nSteps; k++ {
			st := &stepRec{hasUI: true, hasPass: true, byNetURL: true}
			switch kk := rng.Intn(10); {
			case k == 0:
				st.kind = "first"
			case static != nil && kk < 3:
				st.hasUI = false
				st.kind = "no-userinfo"
			case kk < 4:
				pass, _ = genCred(rng, true) // the password is rotated, same user, same proxy
				if rng.Chance(30) {
					pass += "'"
				}
				st.kind = "rotate-password"
			case kk < 6:
				st.kind = "same"
			case kk == 6:
				user, _ = genCred(rng, true)
				st.kind = "other-user"
			case kk == 7:
				st.hasPass = false
				st.kind = "user-only"
			case kk == 8:
				st.hasUI = false
				st.kind = "no-userinfo"
			default:
				raw := hk.Pick(rng, rawUserinfos)
				ru, rp, cut := strings.Cut(raw, ":")
				user, _ = pctDecode(ru)
				pass, _ = pctDecode(rp)
				st.hasPass = cut
				st.byNetURL = false
				st.text = "http://" + raw + "@" + paddr
				st.kind = "handwritten"
			}
			st.user, st.pass = user, pass
			if !st.hasPass {
				st.pass = ""
			}
			if st.byNetURL {
				pu := url.URL{Scheme: "http", Host: paddr}
				if st.hasUI && st.hasPass {
					pu.User = url.UserPassword(st.user, st.pass)
				} else if st.hasUI {
					pu.User = url.User(st.user)
				}
				st.text = pu.String()
			}
			st.https = rng.Chance(30) || (static != nil && rng.Chance(60))
			mu.Lock()
			step++
			my := step
			mu.Unlock()
			c.SetProxyURL(st.text)
			target := fmt.Sprintf("http://origin.test/res?s=%d&k=%d", s, k)
			if st.https {
				target = fmt.Sprintf("https://%s/res?s=%d&k=%d", tlsAddr, s, k)
			}
			resp, err := c.R().Get(target)
			st.err = err
			if resp != nil && resp.Response != nil {
				st.status = resp.StatusCode
				st.body, _ = resp.ToString()
			}
			time.Sleep(2 * time.Millisecond) // let the connection settle in the idle pool (not relied upon)
			mu.Lock()
			for _, e := range seen {
				if e.Step == my {
					st.obs = append(st.obs, e)
				}
			}
			mu.Unlock()
			steps = append(steps, st)
		}
		c.GetTransport().CloseIdleConnections()

		// ----- oracle -----
		var rs, texts, obsC []string
		key := ""
		nontrivial := false
		for k, st := range steps {
			in := map[string]interface{}{"sequence": s, "step": k, "kind": st.kind, "proxy_url": st.text, "https_target": st.https,
				"user": []byte(st.user), "pass": []byte(st.pass)}
			tgt := "http"
			if st.https {
				tgt = "https"
			}
			r.Count("proxy.step=" + st.kind)
			r.Count("proxy.target=" + tgt)
			wantBody := "proxy-ok"
			if st.https {
				wantBody = "tls-ok"
			}
			if st.err != nil || st.status != 200 || st.body != wantBody {
				r.Fail(hk.Failure{Sig: "proxy:request-failed:" + tgt + ":" + st.kind, What: "request through the proxy did not complete", Input: in, Got: fmt.Sprint(st.status, " ", st.err)})
				continue
			}
			if !st.https && len(st.obs) != 1 {
				r.Fail(hk.Failure{Sig: "proxy:request-count:" + st.kind, What: "a plain-http request must reach the proxy exactly once", Input: in, Got: len(st.obs)})
			}
			if st.https && len(st.obs) > 1 {
				r.Fail(hk.Failure{Sig: "proxy:connect-count:" + st.kind, What: "more than one CONNECT for one request", Input: in, Got: len(st.obs)})
			}
			var vals []string
			for _, o := range st.obs {
				if o.Connect && static != nil && o.Tunnel != static.Get("X-Tunnel") {
					r.Fail(hk.Failure{Sig: "proxy:connect-header-lost", What: "the static ProxyConnectHeader did not reach the proxy on CONNECT", Input: in, Got: o.Tunnel})
				}
				switch {
				case !st.hasUI && o.Connect && staticPA != "":
					// no credentials in the URL: the caller's static Proxy-Authorization applies
					if !o.Has || len(o.Values) != 1 || o.Values[0] != staticPA {
						r.Fail(hk.Failure{Sig: "proxy:static-credentials:" + st.kind, What: "CONNECT through a proxy URL without userinfo must carry the Proxy-Authorization of the static ProxyConnectHeader", Input: in, Got: o.Values})
					}
				case !st.hasUI && o.Has:
					r.Fail(hk.Failure{Sig: "proxy:stale-credentials:" + tgt + ":" + st.kind, What: "the proxy URL has no userinfo but a Proxy-Authorization was sent", Input: in, Got: o.Values})
				case st.hasUI && (!o.Has || len(o.Values) != 1):
					r.Fail(hk.Failure{Sig: "proxy:not-transmitted:" + tgt + ":" + st.kind, What: "proxy credentials did not reach the proxy as a single Proxy-Authorization header", Input: in, Got: o.Values})
				case st.hasUI:
					hq := &http.Request{Header: http.Header{"Authorization": {o.Values[0]}}}
					gu, gp, ok := hq.BasicAuth()
					cred := st.user + ":" + st.pass
					i := strings.IndexByte(cred, ':')
					if !ok || gu != cred[:i] || gp != cred[i+1:] {
						r.Fail(hk.Failure{Sig: "proxy:not-recovered:" + tgt + ":" + st.kind, What: "the proxy does not recover the user and password of the CURRENT proxy URL from Proxy-Authorization",
							Input: in, Got: []string{gu, gp}, Want: []string{cred[:i], cred[i+1:]}})
					}
				}
				if o.Has && len(o.Values) == 1 {
					vals = append(vals, "Some "+pks(o.Values[0]))
				} else if o.Has {
					vals = append(vals, "Some "+pks(strings.Join(o.Values, "\x00")))
				} else {
					vals = append(vals, "None")
				}
			}
			ui := "None"
			if st.hasUI {
				ui = "(Some " + coqUI(st.user, st.hasPass, st.pass) + ")"
			}
			tAddr := "[]"
			if st.https {
				tAddr = pks(tlsAddr)
			}
			rs = append(rs, fmt.Sprintf("(mkPU %s %s, %s, %s)", ui, pks(paddr), hk.CoqBool(st.https), tAddr))
			if st.byNetURL {
				texts = append(texts, pks(st.text))
			} else {
				texts = append(texts, "[]")
			}
			obsC = append(obsC, hk.CoqList(vals))
			key += "|" + st.text + "|" + tgt
			if st.kind == "rotate-password" || st.kind == "handwritten" {
				nontrivial = true
			}
		}
		if static != nil && static.Get("Proxy-Authorization") != staticPA {
			r.Fail(hk.Failure{Sig: "proxy:connect-header-mutated", What: "the caller's ProxyConnectHeader map was modified by the transport",
				Input: map[string]interface{}{"sequence": s, "urls": key}, Got: static.Get("Proxy-Authorization"), Want: staticPA})
		}
		if len(rs) != len(steps) {
			continue // a failed step: reported above
		}
		r.Count(fmt.Sprintf("proxy.connect-header=%v/static-auth=%v", static != nil, staticPA != ""))
		r.Count("proxy.sequences")
		r.Add(hk.Case{Coq: fmt.Sprintf("ProxySeqCase %s %s %s %s", hk.CoqOpt(staticPA != "", pks(staticPA)), hk.CoqList(rs), hk.CoqList(texts), hk.CoqList(obsC)),
			Desc: map[string]interface{}{"kind": "proxy-seq", "steps": len(steps), "urls": key}}, "proxyseq"+key, nontrivial)
	}
}
