package main

import (
	"fmt"
	"strings"

	"github.com/imroc/req/v3/verifharness/hk"
)

// ---------- credential strings ----------

var c20Words = []string{"roc", "Mufasa", "admin", "user@example.com", "Circle of Life", "p@ss w0rd", "x", "123456",
	"Jäsøn Doe", "密码", "naïve", "très sûr", "a b\tc", "%41%3a", "a=b&c", "$ecret!", "~", "----"}

// genCred: strings for Basic (any bytes: base64 carries them).  kind tags the shape.
func genCred(r *hk.Rand, allowColon bool) (string, string) {
	switch k := r.Intn(12); {
	case k == 0:
		return "", "empty"
	case k == 1 && allowColon:
		return hk.Pick(r, []string{":", "a:b", ":a", "a:", "a::b", "user:name", "::"}), "colon"
	case k == 2:
		return string(r.Bytes(r.Range(1, 24))), "binary"
	case k == 3:
		n := hk.Pick(r, []int{511, 512, 513, 1, 2, 3, 4, 5, 6, 7, 47, 48, 49, 255, 256, 257, 127, 128, 129})
		if r.Chance(15) {
			n = hk.Pick(r, []int{4095, 4096, 4097, 1023, 1024, 1025, 16383, 16384, 16385})
		}
		b := make([]byte, n)
		for i := range b {
			b[i] = byte(33 + r.Intn(94))
			if b[i] == ':' && !allowColon {
				b[i] = '_'
			}
		}
		return string(b), fmt.Sprintf("len%d", n)
	case k == 4:
		return hk.Pick(r, []string{"Jäsøn Doe", "密码", "\U0001F511key", "\xff\xfe", "caf\xe9"}), "nonascii"
	case k == 5:
		return hk.Pick(r, []string{" lead", "trail ", "\ttab\t", "a\r\nb", "nul\x00byte", "q\"uote", "back\\slash"}), "ctl-ws"
	default:
		s := hk.Pick(r, c20Words)
		if r.Chance(30) {
			s += hk.Pick(r, c20Words)
		}
		if !allowColon {
			s = strings.ReplaceAll(s, ":", "_")
		}
		return s, "word"
	}
}

// genToken: bearer tokens that an HTTP field value can carry verbatim (no CTL, no leading or
// trailing white space, not empty) - RFC 9110 field-value; RFC 6750 b68token is a subset.
func genToken(r *hk.Rand) (string, string) {
	switch k := r.Intn(8); {
	case k == 0:
		n := hk.Pick(r, []int{1, 2, 3, 511, 512, 1023, 1024})
		if r.Chance(25) {
			n = hk.Pick(r, []int{4095, 4096, 4097})
		}
		const al = "ABCDEFGHIJKLMNOPQRSTUVWXYZabcdefghijklmnopqrstuvwxyz0123456789-._~+/"
		b := make([]byte, n)
		for i := range b {
			b[i] = al[r.Intn(len(al))]
		}
		return string(b) + hk.Pick(r, []string{"", "=", "=="}), fmt.Sprintf("len%d", n)
	case k == 1:
		return hk.Pick(r, []string{"töken", "密码", "\xff\xfe\x80", "a b"}), "nonascii"
	case k == 2:
		return hk.Pick(r, []string{"a b", "a  b c", "Bearer x", "a\tb", "x,y;z=\"q\"", "a:b", "{\"j\":1}"}), "inner-ws-punct"
	default:
		n := r.Range(1, 60)
		const al = "ABCDEFGHIJKLMNOPQRSTUVWXYZabcdefghijklmnopqrstuvwxyz0123456789-._~+/"
		b := make([]byte, n)
		for i := range b {
			b[i] = al[r.Intn(len(al))]
		}
		return string(b), "b68"
	}
}

// ---------- digest challenges ----------

type chalCase struct {
	Spec    chalSpec `json:"spec"`
	Text    string   `json:"challenge"`
	Class   string   `json:"class"`   // supported | unsupported | grey
	Feature string   `json:"feature"` // the distinguishing feature (part of the failure sig)
	// how Text was put together (nil Pieces when an extra / malformed parameter was spliced in)
	Pre, Mid, Post string
	Pieces         []chalPiece
}

// chalPiece: one list element = Lead Key "=" value Trail; Quoted: value written as quoted-string
type chalPiece struct {
	Lead, Key, Val, Trail string
	Quoted                bool
}

var c20Algs = []string{"", "MD5", "MD5-sess", "SHA-256", "SHA-256-sess", "SHA-512-256", "SHA-512-256-sess"}
var c20BadAlgs = []string{"SHA-512", "SHA-1", "SHA-384", "MD4", "SHA-512-256-SESS", "SHA256", "AKAv1-MD5", "unknown"}
var c20Realms = []string{"testrealm@host.com", "http-auth@example.org", "api", "My Realm", "r", "Réseau privé", "a=b", "x;y", "realm with  spaces"}
var c20Nonces = []string{"dcd98b7102dd2f0e8b11d0f600bfb0c093", "7ypf/xlj9XXwfDPEoM4URrv/xwf94BcCAzFZH4GiTo0v", "n", "MTY5ODc2NTQzMjE6YWJj==", "nonce=with=eq", "5ccc069c403ebaf9f0171e9517f40e41"}
var c20Opaques = []string{"5ccc069c403ebaf9f0171e9517f40e41", "FQhe/qaU925kfnzjCev0ciny7QMkPqMAFRtzCUYo5tdS", "o", "opaque data", "=="}

func quoteQS(s string) string {
	return `"` + strings.NewReplacer(`\`, `\\`, `"`, `\"`).Replace(s) + `"`
}

func hasAuth(q []string) bool {
	for _, x := range q {
		if x == "auth" {
			return true
		}
	}
	return false
}

// forceRealm: set by the session generator so that one middleware sees the same realm again
// under another algorithm.
var (
	forceRealm   string
	forceRealmOn bool
)

// genChallenge draws a challenge specification and one textual rendering of it.
// wire=true keeps the text transmittable as an HTTP field value.
func genChallenge(r *hk.Rand, wire bool) chalCase {
	var c chalCase
	s := &c.Spec
	c.Class = "supported"
	feat := []string{}
	s.Realm = hk.Pick(r, c20Realms)
	s.Nonce = hk.Pick(r, c20Nonces)
	if r.Chance(30) {
		s.Nonce = fmt.Sprintf("%x", r.Bytes(r.Range(4, 24)))
	}
	if r.Chance(55) {
		s.HasOpaque = true
		s.Opaque = hk.Pick(r, c20Opaques)
	}
	s.Alg = hk.Pick(r, c20Algs)
	switch k := r.Intn(10); {
	case k < 2:
		s.Qop = nil
	case k < 6:
		s.Qop = []string{"auth"}
	case k < 8:
		s.Qop = []string{"auth", "auth-int"}
		feat = append(feat, "qop-list")
	case k < 9:
		s.Qop = []string{"auth-int", "auth"}
		feat = append(feat, "qop-list")
	default:
		s.Qop = []string{"auth-int"}
	}
	if r.Chance(35) {
		s.UserhashP = true
		s.Userhash = r.Chance(60)
	}
	if r.Chance(20) {
		s.Domain = hk.Pick(r, []string{"/", "/protected /other", "http://example.org/a"})
	}
	if r.Chance(20) {
		s.Stale = hk.Pick(r, []string{"false", "FALSE", "true"})
	}
	if r.Chance(25) {
		s.Charset = hk.Pick(r, []string{"UTF-8", "utf-8", "Utf-8"})
	}
	// value features
	if r.Chance(8) {
		s.Realm = hk.Pick(r, []string{"Acme, Inc.", "a,b", ",", "users, admins and guests"})
		feat = append(feat, "comma-in-value")
	} else if r.Chance(5) {
		s.Nonce = hk.Pick(r, []string{"abc,def", "n1,n2,n3"})
		feat = append(feat, "comma-in-value")
	}
	if r.Chance(4) {
		s.Realm = hk.Pick(r, []string{`say "hi"`, `back\slash`, `"`})
		feat = append(feat, "qpair-in-value")
	}
	if r.Chance(3) {
		s.Realm = ""
		feat = append(feat, "empty-realm")
	}
	// unsupported / grey variants
	switch k := r.Intn(100); {
	case k < 8:
		s.Alg = hk.Pick(r, c20BadAlgs)
		c.Class = "unsupported"
		feat = append(feat, "unknown-alg")
	case k < 12:
		s.Charset = hk.Pick(r, []string{"ISO-8859-1", "latin1", "UTF-16", ""})
		if s.Charset == "" {
			s.Charset = "x"
		}
		c.Class = "unsupported"
		feat = append(feat, "charset")
	case k < 16:
		s.ExtraParam = hk.Pick(r, []string{"garbage", "noequals here", "\"quoted\""})
		c.Class = "unsupported"
		feat = append(feat, "malformed-param")
	case k < 19:
		s.ExtraParam = hk.Pick(r, []string{"foo=bar", "x-ext=\"1\"", "Realm=\"dup\"", "REALM=\"dup\"", "error=\"invalid_token\""})
		c.Class = "grey" // RFC 7616: unknown parameters are to be ignored; the code reports an error
		feat = append(feat, "unknown-param")
	case k < 21:
		s.Alg = hk.Pick(r, []string{"md5", "sha-256", "Sha-256", "md5-sess"})
		c.Class = "grey" // ABNF literals are case-insensitive; the code's table is not
		feat = append(feat, "alg-case")
	}
	if s.Qop != nil && !hasAuth(s.Qop) && c.Class != "grey" {
		c.Class = "unsupported"
		feat = append(feat, "qop-without-auth")
	}
	_, _, sess, known := registry(s.Alg)
	if known && sess && s.Qop == nil {
		feat = append(feat, "sess-noqop")
	}
	if s.Alg == "" {
		feat = append(feat, "noalg")
	}

	if forceRealmOn {
		s.Realm = forceRealm
	}

	// ----- rendering -----
	type kv struct {
		k, v   string
		quoted bool
	}
	var ps []kv
	ps = append(ps, kv{"realm", s.Realm, true}, kv{"nonce", s.Nonce, true})
	if s.HasOpaque {
		ps = append(ps, kv{"opaque", s.Opaque, true})
	}
	if s.Alg != "" {
		if r.Chance(35) {
			ps = append(ps, kv{"algorithm", s.Alg, true})
			feat = append(feat, "alg-quoted")
		} else {
			ps = append(ps, kv{"algorithm", s.Alg, false})
		}
	}
	if s.Qop != nil {
		switch {
		case len(s.Qop) == 1 && r.Chance(30):
			ps = append(ps, kv{"qop", s.Qop[0], false})
			feat = append(feat, "qop-unquoted")
		case len(s.Qop) > 1 && r.Chance(50):
			ps = append(ps, kv{"qop", strings.Join(s.Qop, ", "), true})
			feat = append(feat, "qop-list-space")
		default:
			ps = append(ps, kv{"qop", strings.Join(s.Qop, ","), true})
		}
	}
	if s.UserhashP {
		v := "false"
		if s.Userhash {
			v = "true"
		}
		ps = append(ps, kv{"userhash", v, r.Chance(20)})
	}
	if s.Domain != "" {
		ps = append(ps, kv{"domain", s.Domain, true})
	}
	if s.Stale != "" {
		ps = append(ps, kv{"stale", s.Stale, false})
	}
	if s.Charset != "" {
		ps = append(ps, kv{"charset", s.Charset, r.Chance(30)})
	}
	// ordering
	for i := len(ps) - 1; i > 0; i-- {
		j := r.Intn(i + 1)
		ps[i], ps[j] = ps[j], ps[i]
	}
	var parts []string
	var pieces []chalPiece
	for _, p := range ps {
		v := p.v
		if p.quoted {
			v = quoteQS(p.v)
		}
		parts = append(parts, p.k+"="+v)
		pieces = append(pieces, chalPiece{Key: p.k, Val: p.v, Quoted: p.quoted})
	}
	if s.ExtraParam != "" {
		at := r.Intn(len(parts) + 1)
		parts = append(parts[:at], append([]string{s.ExtraParam}, parts[at:]...)...)
		pieces = nil
	}
	var sb strings.Builder
	c.Mid = hk.Pick(r, []string{"", "", "", " ", "\t"})
	sb.WriteString("Digest " + c.Mid)
	for i, p := range parts {
		if i > 0 {
			trail, lead := hk.Pick(r, []string{"", "", " "}), hk.Pick(r, []string{" ", " ", "", "  ", "\t", " \t "})
			sb.WriteString(trail + "," + lead)
			if pieces != nil {
				pieces[i-1].Trail, pieces[i].Lead = trail, lead
			}
		}
		sb.WriteString(p)
	}
	c.Text = sb.String()
	if !wire && r.Chance(15) {
		c.Pre, c.Post = hk.Pick(r, []string{" ", "\t", "\r\n ", ""}), hk.Pick(r, []string{" ", "\n", "\t ", ""})
		c.Text = c.Pre + c.Text + c.Post
	}
	c.Pieces = pieces
	if len(feat) == 0 {
		feat = []string{"plain"}
	}
	c.Feature = strings.Join(feat, "+")
	return c
}

func containsStr(l []string, s string) bool {
	for _, x := range l {
		if x == s {
			return true
		}
	}
	return false
}

// non-challenge header text: other schemes, prose, random bytes, truncated challenges
func genJunk(r *hk.Rand) string {
	switch r.Intn(8) {
	case 0:
		return hk.Pick(r, []string{"Basic realm=\"x\"", "Bearer", "Negotiate", "NTLM TlRMTVNTUAABAAAA", "Bearer realm=\"api\", error=\"invalid_token\"",
			"digest realm=\"x\", nonce=\"y\"", "DIGEST realm=\"x\", nonce=\"y\"", "Digest", "Digest ", "Digest  ", "Digestrealm=\"x\""})
	case 1:
		b := r.Bytes(r.Range(0, 40))
		for i := range b {
			b[i] = 32 + b[i]%95
		}
		return string(b)
	case 2:
		b := r.Bytes(r.Range(0, 30))
		for i := range b {
			b[i] = 32 + b[i]%95
		}
		return "Digest " + string(b)
	default:
		c := genChallenge(r, false)
		t := []byte(c.Text)
		for n := r.Range(1, 3); n > 0 && len(t) > 0; n-- {
			i := r.Intn(len(t))
			switch r.Intn(5) {
			case 4:
				// white space strings.TrimSpace knows beyond ASCII (and fragments of their encodings),
				// preferably next to a comma, "=" or quote
				ws := hk.Pick(r, []string{"\u00a0", "\u0085", "\u2003", "\u3000", "\u1680", "\u202f", "\u2028", "\u205f", "\u200a", "\u200b", "\xc2", "\x85", "\xe2\x80", "\xa0", "\v", "\f"})
				for k := 0; k < 8 && i < len(t)-1 && !strings.ContainsRune(",=\" ", rune(t[i])); k++ {
					i++
				}
				if r.Chance(50) && i < len(t) {
					i++
				}
				t = append(t[:i], append([]byte(ws), t[i:]...)...)
			case 0:
				t = append(t[:i], t[i+1:]...)
			case 1:
				t[i] = hk.Pick(r, []byte{'"', ',', '=', ' ', '\\', 'x', '\t'})
			case 2:
				t = append(t[:i], append([]byte{hk.Pick(r, []byte{'"', ',', '=', ' ', '\\'})}, t[i:]...)...)
			case 3:
				t = t[:i]
			}
		}
		return string(t)
	}
}

var c20Methods = []string{"GET", "POST", "PUT", "PATCH", "DELETE", "HEAD", "OPTIONS"}
var c20URIs = []string{"/", "/dir/index.html", "/protected?x=1", "/a/b?q=a,b&r=%20z", "/p?x=y=z", "/search?q=caf%C3%A9&lang=fr",
	"/a%2Fb/c", "/path;param?k=v", "/?", "/x?a=1&a=2&b", "/very/" + strings.Repeat("long/", 60) + "path?tail=1"}
