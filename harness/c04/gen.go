package main

// Generators for C04: response grammar, chunked bodies, byte-level mutation, boundary corpora.

import (
	"bytes"
	"fmt"
	"strings"

	"github.com/imroc/req/v3/verifharness/hk"
)

type gen struct {
	rng *hk.Rand
	tag []string
}

func (g *gen) note(s string) { g.tag = append(g.tag, s) }

func (g *gen) eol() string {
	switch k := g.rng.Intn(1000); {
	case k < 940:
		return "\r\n"
	case k < 985:
		g.note("barelf")
		return "\n"
	case k < 997:
		g.note("crcrlf")
		return "\r\r\n"
	}
	g.note("barecr")
	return "\r"
}

var (
	versions  = []string{"HTTP/1.0", "HTTP/2.0", "HTTP/0.9", "HTTP/0.0", "HTTP/1.10", "http/1.1", "HTTP/1", "HTTP/1.1x", "HTTP/3.7", "HTTP/+.1", "HTTP/1,1", "", "HTTP/9.9", "ICY"}
	codes     = []string{"204", "304", "100", "101", "103", "199", "404", "500", "000", "999", "+20", "-00", "-10", "-01", "20", "2000", "2x0", "", "0x1", "1e2", "２00", "20\x00", "301", "206"}
	goodCodes = []string{"204", "304", "100", "101", "103", "199", "404", "500", "301", "206", "201", "000", "999"}
	reasons   = []string{"OK", "", "Not Found", "with  double  spaces", "caf\xe9", "No Content", " lead", "trail ", "Ok\tTab", "x:y"}
	plainKeys = []string{"X-A", "x-b", "SERVER", "date", "Etag", "x_under", "X-Long-Header-Name-Here", "a", "Set-Cookie", "set-cookie", "Content-Type", "x-1-2", "X--Y", "-x", "x-", "WWW-Authenticate", "Location", "Pragma", "Cache-Control"}
	plainVals = []string{"v", "", "a b", "a,b", "text/html; charset=utf-8", "caf\xc3\xa9", "\xff\xfe", "no-cache", "x=y; Path=/", "  lead", "trail  ", "tab\tin", "\"q\"", "1", "max-age=0"}
	clVals    = []string{"5", "0", "3", "10", " 5 ", "+5", "-1", "5, 5", "05", "5.0", "", " ", "9223372036854775807", "9223372036854775808", "18446744073709551616", "1e3", "0x5", "5\t", "\t5", "5 5", "٥", "00000000000000000000005", "1_0"}
	teVals    = []string{"chunked", "Chunked", "CHUNKED", "chunked, chunked", "gzip, chunked", "identity", "", " chunked", "chunked ", "chunked,", "\x0bchunked", "chunKED", "gzip", "chunke\xc4\x8f", "chunked;q=1"}
	connVals  = []string{"close", "keep-alive", "Close", "CLOSE", "close, foo", "foo,close", "keep-alive, close", "upgrade", "clos\xe9", "Keep-Alive", " close ", "close\t", ",close,", "closed", "", "keep-alive,,"}
	trVals    = []string{"X-T", "x-t, y-t", "Content-Length", "Trailer", "transfer-encoding", "", ",", "X T", "x-t,,y-t", " x-t ", "X-T, content-length", "Expires", "x-t\t,\ty-t", "caf\xe9"}
)

// headerLine renders one header field with optional oddities.
func (g *gen) headerLine(k, v string) string {
	r := g.rng
	sep := ": "
	switch x := r.Intn(100); {
	case x < 70:
	case x < 80:
		sep = ":"
	case x < 86:
		sep = ":  \t"
	case x < 90:
		sep = " : "
		g.note("space-before-colon")
	case x < 92:
		sep = "\t: "
		g.note("tab-before-colon")
	default:
		sep = ": "
	}
	if r.Chance(8) {
		k = flipCase(r, k)
	}
	line := k + sep + v
	if r.Chance(10) {
		// obs-fold continuation(s)
		g.note("fold")
		n := r.Range(1, 2)
		for i := 0; i < n; i++ {
			line += g.eol() + hk.Pick(r, []string{" ", "\t", "  \t ", " "}) + hk.Pick(r, []string{"cont", "", "more words", "\t", "x:y", "caf\xe9"})
		}
	}
	if r.Chance(6) {
		line += hk.Pick(r, []string{" ", "\t", "  "})
	}
	return line + g.eol()
}

func flipCase(r *hk.Rand, s string) string {
	b := []byte(s)
	for i := range b {
		if r.Chance(50) {
			if 'a' <= b[i] && b[i] <= 'z' {
				b[i] -= 32
			} else if 'A' <= b[i] && b[i] <= 'Z' {
				b[i] += 32
			}
		}
	}
	return string(b)
}

func (g *gen) oddHeaderLine() string {
	r := g.rng
	switch r.Intn(14) {
	case 0:
		g.note("nocolon")
		return "NoColonHere" + g.eol()
	case 1:
		g.note("emptykey")
		return ": value" + g.eol()
	case 2:
		g.note("badkeybyte")
		return hk.Pick(r, []string{"Fo(o", "Fo\x00o", "Fo\x7fo", "Caf\xe9", "a/b", "a\"b", "[x]", "a@b", "a=b", "a\tb"}) + ": x" + g.eol()
	case 3:
		g.note("ctl-in-value")
		return "X-Ctl: a" + hk.Pick(r, []string{"\x00", "\x01", "\x0b", "\x0c", "\x1f", "\x7f", "\r", "\x08"}) + "b" + g.eol()
	case 4:
		g.note("key-with-spaces")
		return hk.Pick(r, []string{"Foo Bar", "content length", "a  b", "transfer-encoding ", "Content-Length "}) + ": " + hk.Pick(r, []string{"5", "chunked", "x"}) + g.eol()
	case 5:
		g.note("only-colon")
		return ":" + g.eol()
	case 6:
		g.note("blank-fold")
		return "X-Fold: a" + g.eol() + "   " + g.eol()
	case 7:
		g.note("colon-in-continuation-only")
		return "NoColon" + g.eol() + " x: y" + g.eol()
	case 8:
		g.note("value-colons")
		return "X-C: a:b:c" + g.eol()
	case 9:
		g.note("highbytes")
		return "X-H: \x80\x81\xfe\xff" + g.eol()
	case 10:
		g.note("lf-in-key")
		return "X\n-K: v" + g.eol()
	case 11:
		g.note("longish")
		return "X-Long: " + strings.Repeat("a", r.Range(60, 140)) + g.eol()
	case 12:
		g.note("many-spaces")
		return "X-S:" + strings.Repeat(" ", r.Range(1, 20)) + "v" + strings.Repeat("\t", r.Range(0, 4)) + g.eol()
	}
	g.note("common-lower")
	return hk.Pick(r, []string{"content-type", "CONTENT-TYPE", "cOnTeNt-TyPe", "etag", "ETAG", "www-authenticate"}) + ": z" + g.eol()
}

// response builds one response (plus optional pipelined follow-up bytes).
func (g *gen) response() ([]byte, string) {
	r := g.rng
	var sb strings.Builder
	// status line
	ver := "HTTP/1.1"
	if r.Chance(18) {
		ver = hk.Pick(r, versions)
		g.note("ver")
	}
	code := "200"
	if r.Chance(30) {
		code = hk.Pick(r, goodCodes)
	} else if r.Chance(12) {
		code = hk.Pick(r, codes)
	}
	switch k := r.Intn(100); {
	case k < 84:
		sb.WriteString(ver + " " + code + " " + hk.Pick(r, reasons))
	case k < 88:
		sb.WriteString(ver + " " + code) // no reason, no space
		g.note("noreason")
	case k < 90:
		sb.WriteString(ver + "  " + code + "  " + hk.Pick(r, reasons))
		g.note("dblspace")
	case k < 93:
		sb.WriteString(ver + code)
		g.note("nospace")
	case k < 96:
		sb.WriteString(ver + "\t" + code + " OK")
		g.note("tabsep")
	default:
		sb.WriteString(" " + ver + " " + code + " OK")
		g.note("leadsp")
	}
	sb.WriteString(g.eol())

	// framing intention
	mode := hk.Pick(r, []string{"cl", "cl", "cl", "chunked", "chunked", "chunked", "close", "none", "both", "dupcl", "dupte"})
	var body []byte
	var hdrs []string
	add := func(k, v string) { hdrs = append(hdrs, g.headerLine(k, v)) }
	switch mode {
	case "cl":
		n := hk.Pick(r, []int{0, 1, 3, 5, 10, 17, 64, 100})
		body = r.Bytes(n)
		v := fmt.Sprint(n)
		if r.Chance(20) {
			v = hk.Pick(r, clVals)
			g.note("clodd")
		}
		add("Content-Length", v)
		switch k := r.Intn(100); {
		case k < 10 && n > 0:
			body = body[:r.Intn(n)]
			g.note("short")
		case k < 20:
			body = append(body, r.Bytes(r.Range(1, 5))...)
		}
	case "chunked":
		v := "chunked"
		if r.Chance(18) {
			v = hk.Pick(r, teVals)
			g.note("teodd")
		}
		add("Transfer-Encoding", v)
		if r.Chance(35) {
			add("Trailer", hk.Pick(r, trVals))
			g.note("trailerdecl")
		}
		cb, shape := g.chunkedBody()
		body = cb
		g.note(shape)
	case "close":
		body = r.Bytes(r.Range(0, 40))
	case "none":
	case "both":
		add("Content-Length", hk.Pick(r, clVals))
		add("Transfer-Encoding", hk.Pick(r, teVals))
		cb, _ := g.chunkedBody()
		body = cb
	case "dupcl":
		a := hk.Pick(r, clVals)
		b := a
		switch r.Intn(4) {
		case 0:
			b = hk.Pick(r, clVals)
		case 1:
			b = " " + a + " "
		case 2:
			b = a + "\t"
		}
		add("Content-Length", a)
		add("Content-Length", b)
		if r.Chance(30) {
			add("content-length", hk.Pick(r, []string{a, b, "7"}))
		}
		body = r.Bytes(r.Range(0, 12))
	case "dupte":
		add("Transfer-Encoding", hk.Pick(r, teVals))
		add("Transfer-Encoding", hk.Pick(r, teVals))
		cb, _ := g.chunkedBody()
		body = cb
	}
	if r.Chance(45) {
		add("Connection", hk.Pick(r, connVals))
		if r.Chance(15) {
			add("Connection", hk.Pick(r, connVals))
		}
	}
	if r.Chance(12) {
		add("Pragma", hk.Pick(r, []string{"no-cache", "No-Cache", "no-cache, x", ""}))
		if r.Chance(30) {
			add("Cache-Control", "max-age=0")
		}
	}
	if r.Chance(12) && mode != "chunked" {
		add("Trailer", hk.Pick(r, trVals))
	}
	var used []string
	for i, n := 0, r.Intn(4); i < n; i++ {
		k := hk.Pick(r, plainKeys)
		used = append(used, k)
		add(k, hk.Pick(r, plainVals))
	}
	if len(used) > 0 && r.Chance(30) {
		// the same field name again (any letter case), interleaved with the others by the shuffle
		// below: values must be appended to THAT field's list and to no other
		g.note("repeat")
		for i, n := 0, r.Range(1, 2); i < n; i++ {
			add(flipCase(r, hk.Pick(r, used)), hk.Pick(r, []string{"again", "b=2", "third", ""}))
		}
	}
	if r.Chance(14) {
		hdrs = append(hdrs, g.oddHeaderLine())
	}
	// shuffle
	for i := len(hdrs) - 1; i > 0; i-- {
		j := r.Intn(i + 1)
		hdrs[i], hdrs[j] = hdrs[j], hdrs[i]
	}
	if r.Chance(3) {
		g.note("leading-space-first-header")
		hdrs = append([]string{" " + hk.Pick(r, []string{"X: y", strings.Repeat("z", 90)}) + g.eol()}, hdrs...)
	}
	for _, h := range hdrs {
		sb.WriteString(h)
	}
	switch k := r.Intn(100); {
	case k < 94:
		sb.WriteString(g.eol())
	case k < 97:
		g.note("no-header-end")
	default:
		sb.WriteString("\r")
		g.note("header-end-cr-only")
	}
	out := append([]byte(sb.String()), body...)
	if r.Chance(35) {
		g.note("pipelined")
		out = append(out, "HTTP/1.1 200 OK\r\nContent-Length: 2\r\n\r\nhi"...)
	}
	return out, mode + "+" + strings.Join(g.tag, "+")
}

var hexSizesOdd = []string{"", "g", "0x5", "-1", "+5", " 5", "5 ", "5\t", "10000000000000000", "ffffffffffffffff", "FFFFFFFFFFFFFFFF", "8000000000000000", "c000000000000000", "7fffffffffffffff", "00000000000000005", "0000000000000005", "5g", "５", "1 0", ";", "\r"}

// chunkedBody renders a chunked body from the grammar, with oddities.
func (g *gen) chunkedBody() ([]byte, string) {
	r := g.rng
	var b bytes.Buffer
	tags := []string{"chunks"}
	note := func(s string) { tags = append(tags, s) }
	n := r.Range(0, 4)
	for i := 0; i < n; i++ {
		sz := hk.Pick(r, []int{1, 2, 3, 5, 9, 10, 15, 16, 17, 26, 31})
		size := fmt.Sprintf("%x", sz)
		switch k := r.Intn(100); {
		case k < 60:
		case k < 70:
			size = strings.ToUpper(size)
		case k < 78:
			size = strings.Repeat("0", r.Range(1, 15)) + size
			note("lead0")
		case k < 86:
			size = hk.Pick(r, hexSizesOdd)
			note("oddsize")
		}
		b.WriteString(size)
		g.chunkLineTail(&b, note)
		data := r.Bytes(sz)
		if r.Chance(15) { // make the data look like framing
			copy(data, "\r\n0\r\n\r\n")
		}
		b.Write(data)
		switch k := r.Intn(100); {
		case k < 88:
			b.WriteString("\r\n")
		case k < 91:
			b.WriteString("\n")
			note("data-lf")
		case k < 94:
			b.WriteString("\r")
			note("data-cr")
		case k < 96:
			b.WriteString("XY")
			note("data-noterm")
		case k < 98:
			note("data-missing-term")
		default:
			b.WriteString("\r\n\r\n") // blank chunk-size line follows
			note("blank-size-line")
		}
	}
	// last chunk
	switch k := r.Intn(100); {
	case k < 80:
		b.WriteString("0")
	case k < 88:
		b.WriteString(strings.Repeat("0", r.Range(2, 17)))
		note("last-zeros")
	case k < 92:
		note("no-last-chunk")
		return b.Bytes(), strings.Join(tags, ",")
	case k < 96:
		b.WriteString("") // empty size line as terminator
		note("empty-last-size")
	default:
		b.WriteString(";ext")
		note("ext-only-last")
	}
	g.chunkLineTail(&b, note)
	// trailer section
	switch k := r.Intn(100); {
	case k < 55:
		b.WriteString("\r\n")
	case k < 75:
		note("trailer")
		for i, m := 0, r.Range(1, 3); i < m; i++ {
			b.WriteString(g.headerLine(hk.Pick(r, []string{"X-T", "x-t", "Y-T", "Expires", "Content-Length", "X-Long-Trailer"}), hk.Pick(r, plainVals)))
		}
		b.WriteString(g.eol())
	case k < 80:
		note("trailer-long")
		b.WriteString("X-T: " + strings.Repeat("t", hk.Pick(r, []int{5, 6, 7, 8, 9, 10, 50, 51, 52, 53, 54, 55, 56, 57, 58, 100})) + "\r\n\r\n")
	case k < 85:
		note("trailer-lf")
		b.WriteString("\n")
	case k < 88:
		note("trailer-odd")
		b.WriteString(g.oddHeaderLine() + "\r\n")
	case k < 92:
		note("trailer-unterminated")
		b.WriteString("X-T: v\r\n")
	case k < 95:
		note("trailer-cr")
		b.WriteString("\r")
	default:
		note("trailer-missing")
	}
	return b.Bytes(), strings.Join(tags, ",")
}

func (g *gen) chunkLineTail(b *bytes.Buffer, note func(string)) {
	r := g.rng
	switch k := r.Intn(100); {
	case k < 62:
	case k < 72:
		b.WriteString(hk.Pick(r, []string{";a=b", ";a", "; a = b", ";a=\"q;r\"", ";;", ";\x00", ";a=b;c=d"}))
		note("ext")
	case k < 78:
		b.WriteString(hk.Pick(r, []string{" ", "\t", "  ", " \t "}))
		note("trailws")
	case k < 82:
		b.WriteString(hk.Pick(r, []string{" ;a", "\t;a=b "}))
		note("ws+ext")
	case k < 88:
		// line length around the small buffers' edges
		b.WriteString(";" + strings.Repeat("e", hk.Pick(r, []int{8, 9, 10, 11, 12, 13, 14, 15, 16, 50, 56, 57, 58, 59, 60, 61, 62, 63, 64, 70})))
		note("ext-edge")
	}
	switch k := r.Intn(100); {
	case k < 90:
		b.WriteString("\r\n")
	case k < 96:
		b.WriteString("\n")
		note("line-lf")
	case k < 98:
		b.WriteString("\r\r\n")
		note("line-crcrlf")
	default:
		b.WriteString("\r")
		note("line-cr")
	}
}

var interesting = []byte{'\r', '\n', ' ', '\t', ':', ';', ',', '0', '1', 'f', 0, 0x7f, 0x80, 0xff, '-', '+', 'H', '/', '.'}

func mutate(r *hk.Rand, s []byte) []byte {
	out := append([]byte{}, s...)
	for i, n := 0, r.Range(1, 3); i < n; i++ {
		if len(out) == 0 {
			return out
		}
		p := r.Intn(len(out))
		switch r.Intn(7) {
		case 0:
			out[p] = hk.Pick(r, interesting)
		case 1:
			out[p] ^= 1 << uint(r.Intn(8))
		case 2:
			out = append(out[:p], out[p+1:]...)
		case 3:
			out = append(out[:p], append([]byte{hk.Pick(r, interesting)}, out[p:]...)...)
		case 4:
			out = out[:p]
		case 5:
			q := p + r.Intn(len(out)-p)
			out = append(out[:q], append(append([]byte{}, out[p:q]...), out[q:]...)...)
		case 6:
			if p+1 < len(out) {
				out[p], out[p+1] = out[p+1], out[p]
			}
		}
	}
	return out
}

func hexCorpus(r *hk.Rand, n int) [][]byte {
	var out [][]byte
	for _, s := range []string{"", "0", "1", "a", "A", "f", "F", "g", "G", "/", ":", "@", "`", "10", "ff", "FF", "fF", "0000", "deadBEEF", "ffffffffffffffff", "10000000000000000",
		"0000000000000000", "00000000000000000", "7fffffffffffffff", "8000000000000000", "123456789abcdef0", "123456789abcdef01", " 1", "1 ", "+1", "-1", "0x1", "1_0", "\x00", "\xff", "１"} {
		out = append(out, []byte(s))
	}
	hexd := "0123456789abcdefABCDEF"
	for len(out) < n {
		l := hk.Pick(r, []int{1, 2, 3, 4, 8, 15, 16, 17, 18, 20})
		b := make([]byte, l)
		for i := range b {
			b[i] = hexd[r.Intn(len(hexd))]
		}
		if r.Chance(20) {
			b[r.Intn(l)] = byte(r.U64())
		}
		out = append(out, b)
	}
	return out
}

type fixedStream struct {
	data  []byte
	shape string
}

// overheadStreams: chunked bodies whose non-data overhead sits exactly at / just beyond the
// reference's 16 KiB allowance, for each buffer size.
func overheadStreams(r *hk.Rand, quick bool) []fixedStream {
	var out []fixedStream
	mk := func(lineLen, count int, extra int, tail string) []byte {
		// each chunk: "1" + ";" + ext + "\r\n" has length lineLen (incl CRLF), data "X"
		var b bytes.Buffer
		line := "1;" + strings.Repeat("e", lineLen-4) + "\r\n"
		for i := 0; i < count; i++ {
			b.WriteString(line + "X\r\n")
		}
		if extra > 0 {
			b.WriteString("1;" + strings.Repeat("e", extra-4) + "\r\nY\r\n")
		}
		b.WriteString(tail)
		return b.Bytes()
	}
	// per chunk the excess grows by lineLen + 2 - 18 = lineLen - 16
	out = append(out,
		fixedStream{mk(1040, 16, 0, "0\r\n\r\n"), "overhead-exactly-16384"},
		fixedStream{mk(1040, 16, 17, "0\r\n\r\n"), "overhead-16385"},
		fixedStream{mk(4095, 4, 84, "0\r\n\r\n"), "overhead-edge"},
		fixedStream{mk(64, 342, 0, "0\r\n\r\n"), "overhead-64x342"},
		fixedStream{mk(64, 341, 32, "0\r\n\r\n"), "overhead-64x341+32"},
		fixedStream{mk(4096, 1, 0, "0\r\n\r\n"), "line-4096"},
		fixedStream{mk(4095, 1, 0, "0\r\n\r\n"), "line-4095"},
		fixedStream{mk(17, 2, 0, "0\r\n\r\n"), "line-17"},
		fixedStream{mk(16, 2, 0, "0\r\n\r\n"), "line-16"},
		fixedStream{mk(65, 2, 0, "0\r\n\r\n"), "line-65"},
		fixedStream{[]byte("c000000000000000;" + strings.Repeat("e", 40) + "\r\nabc"), "wrap64-size"},
		fixedStream{[]byte("8000000000000000\r\nabc"), "wrap64-min"},
		fixedStream{[]byte("7ffffffffffffff9;" + strings.Repeat("e", 40) + "\r\nabc"), "wrap64-add16"},
	)
	if !quick {
		out = append(out,
			fixedStream{mk(1040, 16, 17, "1\r\nZ\r\n0\r\n\r\n"), "overhead-16385-more"},
			fixedStream{mk(4095, 5, 0, "0\r\n\r\n"), "overhead-4095x5"},
			// a large data chunk must not buy credit for later overhead (the balance is clamped at 0)
			fixedStream{append([]byte("2328\r\n"+strings.Repeat("D", 9000)+"\r\n"), mk(1040, 17, 0, "0\r\n\r\n")...), "overhead-after-large-chunk"})
		for i := 0; i < 12; i++ {
			ll := r.Range(17, 4095)
			cnt := 16384/(ll-16) + r.Range(-1, 1)
			if cnt < 1 {
				cnt = 1
			}
			out = append(out, fixedStream{mk(ll, cnt, r.Range(17, 60), "0\r\n\r\n"), fmt.Sprintf("overhead-rand-%d", ll)})
		}
	}
	return out
}

// fixedStreams: the regression corpus (each line is a case the design phase or a run found).
func fixedStreams() []struct{ data, shape string } {
	return []struct{ data, shape string }{
		{"HTTP/1.1 200 OK\r\nTransfer-Encoding: chunked\r\n\r\n5\r\nhello\r\n\r\n\r\nHTTP/1.1 200 OK\r\nContent-Length: 0\r\n\r\n", "fixed-blank-chunk-size-line"},
		{"HTTP/1.1 200 OK\r\nTransfer-Encoding: chunked\r\n\r\n5\r\nhello\r\n;ext\r\n\r\n", "fixed-ext-only-size-line"},
		{"HTTP/1.1 200 OK\r\nTransfer-Encoding: chunked\r\n\r\n5\r\nhello\r\n0\r\n\r\nHTTP/1.1 404 Not Found\r\nContent-Length: 1\r\n\r\nx", "fixed-pipelined-chunked"},
		{"HTTP/1.1 200 OK\r\nContent-Length: 5\r\n\r\nhelloHTTP/1.1 404 Not Found\r\nContent-Length: 1\r\n\r\nx", "fixed-pipelined-cl"},
		{"HTTP/1.1 200 OK\r\nContent-Length: 5\r\nContent-Length: 5 \r\n\r\nhelloX", "fixed-dup-cl-same"},
		{"HTTP/1.1 200 OK\r\nContent-Length: 5\r\nContent-Length: 6\r\n\r\nhelloX", "fixed-dup-cl-differ"},
		{"HTTP/1.1 200 OK\r\nContent-Length: 5\r\nTransfer-Encoding: chunked\r\n\r\n3\r\nabc\r\n0\r\n\r\nrest", "fixed-cl-and-te"},
		{"HTTP/1.0 200 OK\r\nTransfer-Encoding: chunked\r\n\r\n3\r\nabc\r\n0\r\n\r\n", "fixed-te-on-1.0"},
		{"HTTP/1.1 204 No Content\r\nContent-Length: 5\r\n\r\nhello", "fixed-204-with-cl"},
		{"HTTP/1.1 304 Not Modified\r\nTransfer-Encoding: chunked\r\n\r\n0\r\n\r\n", "fixed-304-chunked"},
		{"HTTP/1.1 100 Continue\r\n\r\nHTTP/1.1 200 OK\r\nContent-Length: 0\r\n\r\n", "fixed-100-continue"},
		{"HTTP/1.1 200 OK\r\nTransfer-Encoding: chunked\r\nTrailer: X-T, Y-T\r\n\r\n1\r\na\r\n0\r\nX-T: 1\r\nZ-T: 2\r\n\r\nnext", "fixed-trailers"},
		{"HTTP/1.1 200 OK\r\nTransfer-Encoding: chunked\r\nTrailer: Content-Length\r\n\r\n0\r\n\r\n", "fixed-bad-trailer-key"},
		{"HTTP/1.1 200 OK\r\nConnection: close\r\n\r\nuntil close", "fixed-until-close"},
		{"HTTP/1.1 200 OK\r\n\r\nno framing at all", "fixed-no-framing-1.1"},
		{"HTTP/1.0 200 OK\r\nConnection: keep-alive\r\n\r\nbody?", "fixed-1.0-keepalive-no-length"},
		{"HTTP/1.1 200 OK\r\nFoo: a\r\n b\r\n\tc\r\nBar: d\r\n\r\n", "fixed-folding"},
		{"HTTP/1.1 200 OK\nFoo: a\nContent-Length: 1\n\nxy", "fixed-bare-lf"},
		{"HTTP/1.1 200 OK\r\n Foo: a\r\n\r\n", "fixed-leading-space-first-header"},
		{"HTTP/1.1 200 OK\r\nPragma: no-cache\r\n\r\n", "fixed-pragma"},
		{"HTTP/1.1 +20 OK\r\n\r\n", "fixed-signed-code"},
		{"HTTP/1.1 -00 OK\r\nContent-Length: 0\r\n\r\n", "fixed-minus-zero-code"},
		{"HTTP/0.0 200 OK\r\nTransfer-Encoding: chunked\r\n\r\n0\r\n\r\n", "fixed-http-0.0"},
		{"HTTP/1.1 200 OK\r\nTransfer-Encoding: chunked\r\n\r\n1 \t\r\na\r\n0;x=y\r\n\r\n", "fixed-chunk-trailing-ws-ext"},
		{"HTTP/1.1 200 OK\r\nTransfer-Encoding: chunked\r\n\r\n00000000000000001\r\na\r\n0\r\n\r\n", "fixed-17-digit-size"},
		{"HTTP/1.1 200 OK\r\nTransfer-Encoding: chunked\r\n\r\n0\r\nX-T: " + strings.Repeat("t", 52) + "\r\n\r\nnext", "fixed-trailer-at-64-edge"},
		{"HTTP/1.1 200 OK\r\nTransfer-Encoding: chunked\r\n\r\n0\r\nX-T: " + strings.Repeat("t", 53) + "\r\n\r\nnext", "fixed-trailer-past-64-edge"},
		{"HTTP/1.1 200 OK\r\nX-Pad: " + strings.Repeat("p", 6) + "\r\nY: 1\r\n\r\n", "fixed-cr-straddles-16"},
		{"HTTP/1.1 200 OK\r\nSet-Cookie: a=1\r\nX-Request-Id: r1\r\nSet-Cookie: b=2\r\nContent-Length: 0\r\n\r\n", "fixed-repeated-name-interleaved"},
		{"HTTP/1.1 200 OK\r\nA: 1\r\nB: 2\r\na: 3\r\nC: 4\r\nb: 5\r\nA: 6\r\nD: 7\r\nContent-Length: 0\r\n\r\n", "fixed-repeated-names-three-way"},
		{"HTTP/1.1 200 OK\r\nTransfer-Encoding: chunked\r\nTrailer: X-T\r\n\r\n0\r\nX-T: 1\r\nY-T: 2\r\nx-t: 3\r\n\r\n", "fixed-repeated-trailer-name"},
		{"", "fixed-empty"},
		{"\r\n", "fixed-blank-status"},
		{"HTTP/1.1 200 OK", "fixed-status-no-eol"},
		{"HTTP/1.1 200 OK\r\nContent-Length: 3\r\n\r", "fixed-cr-at-eof"},
	}
}

// bigStreams: long lines relative to the read buffer (the dump-on readLine path), and CR
// straddling the buffer edge for every offset.
func bigStreams(r *hk.Rand, quick bool) []fixedStream {
	var out []fixedStream
	out = append(out,
		fixedStream{[]byte("HTTP/1.1 200 OK\r\nX-Big: " + strings.Repeat("v", 5000) + "\r\nContent-Length: 2\r\n\r\nhiNEXT"), "big-header-5000"},
		fixedStream{[]byte("HTTP/1.1 200 " + strings.Repeat("R", 4200) + "\r\nContent-Length: 2\r\n\r\nhiNEXT"), "big-status-4200"},
		fixedStream{[]byte("HTTP/1.1 200 OK\r\nTransfer-Encoding: chunked\r\n\r\n2\r\nhi\r\n0\r\nX-T: " + strings.Repeat("t", 4200) + "\r\n\r\n"), "big-trailer-4200"},
	)
	for pad := 0; pad < 20; pad++ {
		out = append(out, fixedStream{[]byte("HTTP/1.1 200 OK\r\nA: " + strings.Repeat("p", pad) + "\r\nB: " + strings.Repeat("q", 30+pad) + "\r\n\tfolded\r\nContent-Length: 1\r\n\r\nzZ"), fmt.Sprintf("cr-straddle-%d", pad)})
	}
	if !quick {
		for i := 0; i < 30; i++ {
			n := r.Range(4080, 4110)
			out = append(out, fixedStream{[]byte("HTTP/1.1 200 OK\r\nX-Big: " + strings.Repeat("v", n) + "\r\nContent-Length: 2\r\n\r\nhiNEXT"), fmt.Sprintf("big-header-%d", n)})
		}
	}
	return out
}

// connMatrix: protocol version x Connection value(s) - the keep-alive decision table
// (shouldClose) exhaustively over the generator's token spellings, with a declared length so
// that only the Connection rule decides Close.
func connMatrix() []fixedStream {
	var out []fixedStream
	for _, ver := range []string{"HTTP/1.0", "HTTP/1.1", "HTTP/2.0", "HTTP/0.9", "HTTP/1.9"} {
		for _, cv := range connVals {
			out = append(out, fixedStream{[]byte(ver + " 200 OK\r\nConnection: " + cv + "\r\nContent-Length: 2\r\n\r\nhiNEXT"), "conn-matrix:" + ver + ":" + cv})
		}
		out = append(out,
			fixedStream{[]byte(ver + " 200 OK\r\nConnection: keep-alive\r\nConnection: close\r\nContent-Length: 2\r\n\r\nhi"), "conn-matrix:" + ver + ":two-lines-ka-close"},
			fixedStream{[]byte(ver + " 200 OK\r\nConnection: close\r\nConnection: keep-alive\r\nContent-Length: 2\r\n\r\nhi"), "conn-matrix:" + ver + ":two-lines-close-ka"},
			fixedStream{[]byte(ver + " 200 OK\r\nContent-Length: 2\r\n\r\nhi"), "conn-matrix:" + ver + ":none"},
		)
	}
	return out
}
