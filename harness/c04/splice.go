package main

// C04, socket tier, part 2: SEVERAL EXCHANGES ON ONE CONNECTION with the interleaving under
// the harness's control.  "Bytes belonging to one response are never attributed to another":
// the peer answers the first request with a complete message M1 followed - in the SAME write,
// hence the same segment - by bytes nobody asked for (a whole spliced response, a stray byte,
// a blank line, a partial head ...).  The moment the client's read loop offers the connection
// to the idle pool (httptrace PutIdleConn runs on the read-loop goroutine exactly then, in
// both branches: bodiless response and body read to EOF) ANOTHER request is started and the
// hook does not return until the peer has received that request on some connection.  So if a
// connection with unread bytes is ever offered for reuse, the other request provably gets it
// before the read loop looks at the connection again - no sleeping, no racing.
//
// Oracle (from the property's "in particular" clause, reference-free): whatever the first
// response was, the second request must receive exactly the answer the peer wrote for IT
// (FRESH), never anything made of the stray bytes.  Observed for the Coq tie: the first
// response as before + whether the connection was offered to the idle pool (TcpCase ... (Some
// putIdle)) + both exchanges against the connection model (ConnCase, Model/H1Conn.v
// conn_exchanges).  net/http's own client has no such guard (it relies on its read loop
// noticing the bytes first); it is run on the directed cells and only COUNTED.

import (
	"context"
	"fmt"
	"io"
	"net"
	"net/http"
	"net/http/httptrace"
	"strings"
	"sync"
	"sync/atomic"
	"time"

	"github.com/imroc/req/v3/verifharness/hk"
)

var freshResponse = []byte("HTTP/1.1 200 OK\r\nContent-Length: 5\r\nX-Fresh: 1\r\n\r\nfresh")

type splicePeer struct {
	ln         net.Listener
	addr       string
	nreq       int32
	secondSeen chan struct{}
	once       sync.Once
	secondConn int32 // index (1-based, accept order) of the connection the second request arrived on
	mu         sync.Mutex
	conns      []net.Conn
	wg         sync.WaitGroup
}

func startSplicePeer(stream []byte) (*splicePeer, error) {
	ln, err := net.Listen("tcp", "127.0.0.1:0")
	if err != nil {
		return nil, err
	}
	p := &splicePeer{ln: ln, addr: ln.Addr().String(), secondSeen: make(chan struct{})}
	p.wg.Add(1)
	go func() {
		defer p.wg.Done()
		for idx := int32(1); ; idx++ {
			c, err := ln.Accept()
			if err != nil {
				return
			}
			p.mu.Lock()
			p.conns = append(p.conns, c)
			p.mu.Unlock()
			p.wg.Add(1)
			go func(c net.Conn, idx int32) {
				defer p.wg.Done()
				for readHead(c) {
					if atomic.AddInt32(&p.nreq, 1) == 1 {
						c.Write(stream) // M1 and the stray bytes in ONE write
						continue
					}
					p.once.Do(func() { atomic.StoreInt32(&p.secondConn, idx); close(p.secondSeen) })
					c.Write(freshResponse)
				}
			}(c, idx)
		}
	}()
	return p, nil
}

func (p *splicePeer) stop() {
	p.ln.Close()
	p.mu.Lock()
	for _, c := range p.conns {
		c.Close()
	}
	p.mu.Unlock()
	p.wg.Wait()
}

type secondResult struct {
	Err    string `json:"err,omitempty"`
	Code   int    `json:"code,omitempty"`
	Body   string `json:"body,omitempty"`
	Fresh  string `json:"x_fresh,omitempty"`
	OnConn int    `json:"on_conn,omitempty"` // 1 = the first connection, 2 = a new one
	O      obs    `json:"-"`
}

type spliceObs struct {
	First       obs
	PutIdle     bool // the first exchange's connection was offered to the idle pool
	FromHook    bool // the second request was started from inside PutIdleConn (forced interleaving)
	HookTimeout bool
	Second      secondResult
	Hung        bool
}

func spliceObserve(cl rtMaker, stream []byte, method string) (out spliceObs) {
	p, err := startSplicePeer(stream)
	if err != nil {
		return spliceObs{First: obs{Panic: "listen: " + err.Error()}}
	}
	rt, closeIdle := cl.mk()
	ctx, cancel := context.WithCancel(context.Background())
	done := make(chan spliceObs, 1)
	go func() {
		var r spliceObs
		defer func() {
			if x := recover(); x != nil {
				r = spliceObs{First: obs{Panic: fmt.Sprint(x)}}
			}
			done <- r
		}()
		res2 := make(chan secondResult, 1)
		second := func() {
			var s secondResult
			defer func() {
				if x := recover(); x != nil {
					s = secondResult{Err: "panic: " + fmt.Sprint(x)}
				}
				res2 <- s
			}()
			rq2, _ := http.NewRequestWithContext(ctx, "GET", "http://"+p.addr+"/second", nil)
			resp2, err := rt.RoundTrip(rq2)
			if err != nil {
				s.Err = err.Error()
				return
			}
			o := obs{Proto: resp2.Proto, Code: resp2.StatusCode, Status: resp2.Status, CL: resp2.ContentLength, Close: resp2.Close, Framing: "FrNone"}
			o.Chunked = len(resp2.TransferEncoding) == 1 && resp2.TransferEncoding[0] == "chunked"
			b, berr := io.ReadAll(resp2.Body)
			resp2.Body.Close()
			o.Body, o.BEnd = b, classifyBodyErr(berr)
			o.Hdr, o.Trailer = sortedHeader(resp2.Header), sortedHeader(resp2.Trailer)
			s.O = o
			s.Code, s.Body, s.Fresh = resp2.StatusCode, string(b), resp2.Header.Get("X-Fresh")
			if berr != nil {
				s.Err = "body: " + berr.Error()
			}
		}
		var launched, putIdle, hookTimeout int32
		trace := &httptrace.ClientTrace{PutIdleConn: func(err error) {
			if err != nil {
				return
			}
			atomic.StoreInt32(&putIdle, 1)
			if atomic.CompareAndSwapInt32(&launched, 0, 1) {
				atomic.StoreInt32(&launched, 2)
				go second()
				select {
				case <-p.secondSeen:
				case <-time.After(10 * time.Second):
					atomic.StoreInt32(&hookTimeout, 1)
				}
			}
		}}
		rq, _ := http.NewRequestWithContext(httptrace.WithClientTrace(ctx, trace), method, "http://"+p.addr+"/first", nil)
		resp, err := rt.RoundTrip(rq)
		if err != nil {
			r.First = obs{Rej: "HOther", ErrText: err.Error()}
		} else {
			o := obs{Proto: resp.Proto, Code: resp.StatusCode, Status: resp.Status, CL: resp.ContentLength, Close: resp.Close, Framing: "FrNone"}
			o.Chunked = len(resp.TransferEncoding) == 1 && resp.TransferEncoding[0] == "chunked"
			body, berr := io.ReadAll(resp.Body)
			resp.Body.Close()
			o.Body, o.BEnd = body, classifyBodyErr(berr)
			if berr != nil {
				o.BErrText = berr.Error()
			}
			o.Hdr, o.Trailer = sortedHeader(resp.Header), sortedHeader(resp.Trailer)
			r.First = o
		}
		if atomic.CompareAndSwapInt32(&launched, 0, 1) {
			go second()
		}
		r.Second = <-res2
		r.PutIdle = atomic.LoadInt32(&putIdle) == 1
		r.FromHook = atomic.LoadInt32(&launched) == 2
		r.HookTimeout = atomic.LoadInt32(&hookTimeout) == 1
	}()
	select {
	case out = <-done:
	case <-time.After(tcpWatchdog + 15*time.Second):
		out = spliceObs{Hung: true}
	}
	cancel()
	if c := atomic.LoadInt32(&p.secondConn); c == 1 {
		out.Second.OnConn = 1
	} else if c > 1 {
		out.Second.OnConn = 2
	}
	p.stop()
	closeIdle()
	return out
}

func spliceInput(stream []byte, method, shape string) streamInput {
	in := mkInput(stream, method, 4096, shape)
	in.Kind = "splice"
	return in
}

func (s secondResult) isFresh() bool {
	return s.Err == "" && s.Code == 200 && s.Body == "fresh" && s.Fresh == "1"
}

// checkSplice: stream = one complete self-delimited final message (+ optional stray bytes).
func checkSplice(r *hk.Run, stream []byte, method, shape string, withReference bool) {
	accepted, selfDel, complete, protoSwitch, leftover := refFinal(stream, method)
	if !accepted || !selfDel || !complete || protoSwitch {
		r.Count("splice.skipped-not-a-complete-message")
		return
	}
	for ci, cl := range []rtMaker{tcpClients[1], tcpClients[2]} {
		name := "dump-off"
		if ci == 1 {
			name = "dump-on"
			if leftover == 0 {
				continue
			}
		}
		o := spliceObserve(cl, stream, method)
		r.Count("splice.cells")
		switch {
		case o.Hung:
			r.Fail(hk.Failure{Sig: "h1splice:hang:" + name + ":" + shape, What: "two exchanges with the second started when the connection is offered for reuse: the client hangs",
				Input: spliceInput(stream, method, shape), Got: o, Want: "both requests answered"})
			continue
		case o.First.Panic != "":
			r.Fail(hk.Failure{Sig: "h1splice:panic:" + name + ":" + shape, What: "panic", Input: spliceInput(stream, method, shape), Got: o})
			continue
		}
		if o.HookTimeout {
			r.Notes = append(r.Notes, "splice: the request started from PutIdleConn never reached the peer ("+shape+")")
		}
		if !o.Second.isFresh() {
			kind := "second-request-got-stray-bytes"
			if o.Second.Err != "" {
				kind = "second-request-failed"
			}
			r.Fail(hk.Failure{Sig: "h1splice:" + kind + ":" + name + ":" + shape,
				What:  fmt.Sprintf("bytes sent behind the first response were attributed to another request: the second request must get the peer's answer to it (200 \"fresh\"), got code=%d body=%q err=%q (leftover behind the first message: %d bytes, connection offered for reuse: %v)", o.Second.Code, clip(o.Second.Body), o.Second.Err, leftover, o.PutIdle),
				Input: spliceInput(stream, method, shape), Got: o, Want: "second response = HTTP/1.1 200, X-Fresh: 1, body \"fresh\""})
		}
		if leftover > 0 {
			r.Count(fmt.Sprintf("splice.leftover.put-idle=%v", o.PutIdle))
		} else {
			r.Count(fmt.Sprintf("splice.exact.put-idle=%v.second-on-conn=%d", o.PutIdle, o.Second.OnConn))
		}
		if ci != 0 {
			continue
		}
		// Coq: the first response + idle-pool decision, and both exchanges against the connection model
		c := fmt.Sprintf("TcpCase %s %s %s (Some %s)", hk.CoqStr(method), coqBytes(stream), o.First.coq(), hk.CoqBool(o.PutIdle))
		r.Add(hk.Case{Coq: c, Desc: map[string]interface{}{"kind": "splice1:" + shape, "input": spliceInput(stream, method, shape), "observed": o}},
			fmt.Sprintf("s|%s|%x", method, stream), true)
		if o.Second.Err == "" {
			c2 := fmt.Sprintf("ConnCase %s %s %s %s %s %s", hk.CoqStr(method), coqBytes(stream), coqBytes(freshResponse), o.First.coq(), hk.CoqBool(o.Second.OnConn == 1), o.Second.O.coq())
			r.Add(hk.Case{Coq: c2, Desc: map[string]interface{}{"kind": "splice2:" + shape, "input": spliceInput(stream, method, shape), "observed": o}},
				fmt.Sprintf("s2|%s|%x", method, stream), true)
		}
	}
	if withReference {
		o := spliceObserve(tcpClients[0], stream, method)
		if !o.Hung && leftover > 0 && !o.Second.isFresh() {
			r.Count("splice.note.reference-client-attributes-stray-bytes-under-this-interleaving")
		} else if leftover > 0 {
			r.Count("splice.note.reference-client-ok")
		}
	}
}

// spliceMatrix: first message kinds x stray kinds.
func spliceMatrix() []struct{ data, method, shape string } {
	stolen := "HTTP/1.1 200 OK\r\nContent-Length: 6\r\n\r\nSTOLEN"
	firsts := []struct{ data, method, name string }{
		{"HTTP/1.1 204 No Content\r\n\r\n", "GET", "204"},
		{"HTTP/1.1 304 Not Modified\r\nETag: \"x\"\r\n\r\n", "GET", "304"},
		{"HTTP/1.1 200 OK\r\nContent-Length: 0\r\n\r\n", "GET", "cl0"},
		{"HTTP/1.1 200 OK\r\nContent-Length: 5\r\n\r\n", "HEAD", "head-cl5"},
		{"HTTP/1.1 200 OK\r\nTransfer-Encoding: chunked\r\n\r\n", "HEAD", "head-chunked"},
		{"HTTP/1.1 200 OK\r\nContent-Length: 0\r\n\r\n", "CONNECT", "connect-cl0"},
		{"HTTP/1.1 200 OK\r\nContent-Length: 2\r\n\r\nhi", "GET", "cl2"},
		{"HTTP/1.1 200 OK\r\nTransfer-Encoding: chunked\r\n\r\n2\r\nhi\r\n0\r\n\r\n", "GET", "chunked"},
		{"HTTP/1.1 200 OK\r\nTransfer-Encoding: chunked\r\nTrailer: X-T\r\n\r\n2\r\nhi\r\n0\r\nX-T: 1\r\n\r\n", "GET", "chunked-trailer"},
		{"HTTP/1.1 100 Continue\r\n\r\nHTTP/1.1 204 No Content\r\n\r\n", "GET", "100+204"},
		{"HTTP/1.1 103 Early Hints\r\nLink: </a>\r\n\r\nHTTP/1.1 200 OK\r\nContent-Length: 2\r\n\r\nhi", "GET", "103+cl2"},
		{"HTTP/1.0 200 OK\r\nConnection: keep-alive\r\nContent-Length: 0\r\n\r\n", "GET", "1.0-keepalive-cl0"},
		{"HTTP/1.1 204 No Content\r\nConnection: close\r\n\r\n", "GET", "204-close"},
		// terminal responses with a status <= 199: never followed by reuse (readLoop: StatusCode <= 199)
		{"HTTP/1.1 101 Switching Protocols\r\n\r\n", "GET", "101-no-upgrade"},
		{"HTTP/1.1 101 Switching Protocols\r\nUpgrade: x\r\n\r\n", "GET", "101-upgrade-no-token"},
		{"HTTP/1.1 099 Odd\r\nContent-Length: 0\r\n\r\n", "GET", "099-cl0"},
		{"HTTP/1.1 000 Zero\r\nContent-Length: 2\r\n\r\nhi", "GET", "000-cl2"},
		{"HTTP/1.1 100 Continue\r\n\r\nHTTP/1.1 101 Switching Protocols\r\n\r\n", "HEAD", "100+101-no-upgrade-head"},
	}
	strays := []struct{ data, name string }{
		{"", "none"},
		{stolen, "whole-response"},
		{"X", "one-byte"},
		{"\r\n", "blank-line"},
		{"HTTP/1.1 200 OK\r\nContent-Length: 100\r\n\r\npartial", "partial-response"},
		{"0\r\n\r\n", "last-chunk"},
		{"HTTP/1.1 100 Continue\r\n\r\n", "informational"},
		{strings.Repeat("Z", 5000), "more-than-a-buffer"},
	}
	var out []struct{ data, method, shape string }
	for _, f := range firsts {
		for _, s := range strays {
			out = append(out, struct{ data, method, shape string }{f.data + s.data, f.method, "splice:" + f.name + "+" + s.name})
		}
	}
	return out
}

func runSplice(r *hk.Run, rng *hk.Rand) {
	for _, c := range spliceMatrix() {
		checkSplice(r, []byte(c.data), c.method, c.shape, strings.HasSuffix(c.shape, "+whole-response"))
	}
	// grammar streams: complete messages, with the generator's own pipelined bytes or a stray tail
	n, tried := r.Scale(60, 1500), 0
	for done := 0; done < n && tried < 40*n; tried++ {
		g := &gen{rng: rng}
		s, shape := g.response()
		method := "GET"
		if rng.Chance(30) {
			method = "HEAD"
		}
		accepted, selfDel, complete, protoSwitch, leftover := refFinal(s, method)
		if !accepted || !selfDel || !complete || protoSwitch {
			continue
		}
		if leftover == 0 && rng.Chance(70) {
			s = append(s, hk.Pick(rng, []string{"X", "\r\n", "HTTP/1.1 200 OK\r\nContent-Length: 6\r\n\r\nSTOLEN", "\x00", "0\r\n\r\n"})...)
			shape += "+stray"
		}
		done++
		checkSplice(r, s, method, "splice:"+shape, false)
	}
}

// ---------- bytes arriving on an IDLE connection, then another request ----------
//
// Request 1 is answered by a complete message; when the client is done with it (body read to
// EOF: the connection is in the idle pool by then) the harness tells the peer, which only THEN
// writes the stray bytes on that connection and waits until the client has closed it (an idle
// connection that receives bytes is dropped: "unsolicited response") - event driven; the 15 s
// limit is reached only when the client never closes.  Then request 2 is sent.  Oracle,
// reference-free: request 2 gets the peer's answer to it; and fork = reference on whether the
// idle connection was dropped.  Coq: IdleCase against Model/H1Conn.v client_run.

type idleObs struct {
	First     obs
	Second    secondResult
	Dropped   bool // the client closed the first connection after the stray bytes
	Hung      bool
	PeerNotes string
}

var idleFailures int

func idleStrayObserve(cl rtMaker, first, stray []byte, method string) (out idleObs) {
	ln, err := net.Listen("tcp", "127.0.0.1:0")
	if err != nil {
		return idleObs{First: obs{Panic: "listen: " + err.Error()}}
	}
	sendStray, ready := make(chan struct{}), make(chan struct{})
	var dropped, secondConn int32
	var mu sync.Mutex
	var conns []net.Conn
	var wg sync.WaitGroup
	wg.Add(1)
	go func() {
		defer wg.Done()
		for idx := int32(1); ; idx++ {
			c, err := ln.Accept()
			if err != nil {
				return
			}
			mu.Lock()
			conns = append(conns, c)
			mu.Unlock()
			wg.Add(1)
			go func(c net.Conn, idx int32) {
				defer wg.Done()
				if idx == 1 {
					if !readHead(c) {
						close(ready)
						return
					}
					c.Write(first)
					<-sendStray
					c.Write(stray)
					c.SetReadDeadline(time.Now().Add(15 * time.Second))
					var b [1]byte
					if _, err := c.Read(b[:]); err != nil {
						if ne, ok := err.(net.Error); !ok || !ne.Timeout() {
							atomic.StoreInt32(&dropped, 1)
						}
					}
					c.SetReadDeadline(time.Time{})
					close(ready)
					if atomic.LoadInt32(&dropped) == 1 {
						return
					}
					// not dropped: one byte of a possible next request was consumed above; the
					// rest of its head follows
				}
				for readHead(c) {
					atomic.CompareAndSwapInt32(&secondConn, 0, idx)
					c.Write(freshResponse)
				}
			}(c, idx)
		}
	}()
	rt, closeIdle := cl.mk()
	ctx, cancel := context.WithCancel(context.Background())
	done := make(chan idleObs, 1)
	addr := ln.Addr().String()
	go func() {
		var r idleObs
		defer func() {
			if x := recover(); x != nil {
				r = idleObs{First: obs{Panic: fmt.Sprint(x)}}
			}
			done <- r
		}()
		rq, _ := http.NewRequestWithContext(ctx, method, "http://"+addr+"/first", nil)
		resp, err := rt.RoundTrip(rq)
		if err != nil {
			r.First = obs{Rej: "HOther", ErrText: err.Error()}
		} else {
			o := obs{Proto: resp.Proto, Code: resp.StatusCode, Status: resp.Status, CL: resp.ContentLength, Close: resp.Close, Framing: "FrNone"}
			o.Chunked = len(resp.TransferEncoding) == 1 && resp.TransferEncoding[0] == "chunked"
			body, berr := io.ReadAll(resp.Body)
			resp.Body.Close()
			o.Body, o.BEnd = body, classifyBodyErr(berr)
			o.Hdr, o.Trailer = sortedHeader(resp.Header), sortedHeader(resp.Trailer)
			r.First = o
		}
		close(sendStray)
		<-ready
		rq2, _ := http.NewRequestWithContext(ctx, "GET", "http://"+addr+"/second", nil)
		resp2, err := rt.RoundTrip(rq2)
		if err != nil {
			r.Second.Err = err.Error()
			return
		}
		o := obs{Proto: resp2.Proto, Code: resp2.StatusCode, Status: resp2.Status, CL: resp2.ContentLength, Close: resp2.Close, Framing: "FrNone"}
		o.Chunked = len(resp2.TransferEncoding) == 1 && resp2.TransferEncoding[0] == "chunked"
		b, berr := io.ReadAll(resp2.Body)
		resp2.Body.Close()
		o.Body, o.BEnd = b, classifyBodyErr(berr)
		o.Hdr, o.Trailer = sortedHeader(resp2.Header), sortedHeader(resp2.Trailer)
		r.Second.O = o
		r.Second.Code, r.Second.Body, r.Second.Fresh = resp2.StatusCode, string(b), resp2.Header.Get("X-Fresh")
		if berr != nil {
			r.Second.Err = "body: " + berr.Error()
		}
	}()
	select {
	case out = <-done:
	case <-time.After(tcpWatchdog + 25*time.Second):
		out = idleObs{Hung: true}
	}
	cancel()
	out.Dropped = atomic.LoadInt32(&dropped) == 1
	if c := atomic.LoadInt32(&secondConn); c == 1 {
		out.Second.OnConn = 1
	} else if c > 1 {
		out.Second.OnConn = 2
	}
	ln.Close()
	mu.Lock()
	for _, c := range conns {
		c.Close()
	}
	mu.Unlock()
	closeIdle()
	wg.Wait()
	return out
}

func checkIdleStray(r *hk.Run, first, stray []byte, method, shape string) {
	if idleFailures >= 3 {
		r.Count("idle.skipped-after-3-failures")
		return
	}
	accepted, selfDel, complete, protoSwitch, leftover := refFinal(first, method)
	if !accepted || !selfDel || !complete || protoSwitch || leftover != 0 {
		r.Count("idle.skipped-not-one-complete-message")
		return
	}
	in := spliceInput(append(append([]byte{}, first...), stray...), method, shape)
	in.Kind = "idle-stray"
	in.Shape = fmt.Sprintf("%s|first=%d", shape, len(first))
	ref := idleStrayObserve(tcpClients[0], first, stray, method)
	fork := idleStrayObserve(tcpClients[1], first, stray, method)
	r.Count("idle.cells")
	if fork.Hung {
		idleFailures++
		r.Fail(hk.Failure{Sig: "h1idle:hang:" + shape, What: "bytes on an idle connection, then another request: the client hangs", Input: in, Got: fork, Want: ref})
		return
	}
	if !fork.Second.isFresh() {
		idleFailures++
		r.Fail(hk.Failure{Sig: "h1idle:second-request-got-stray-bytes:" + shape,
			What:  fmt.Sprintf("bytes the server sent on the idle connection were attributed to the next request: got code=%d body=%q err=%q (idle connection dropped: %v)", fork.Second.Code, clip(fork.Second.Body), fork.Second.Err, fork.Dropped),
			Input: in, Got: fork, Want: "second response = HTTP/1.1 200, X-Fresh: 1, body \"fresh\""})
	} else if !ref.Hung && (fork.Dropped != ref.Dropped || fork.First.propKey() != ref.First.propKey()) {
		idleFailures++
		r.Fail(hk.Failure{Sig: fmt.Sprintf("h1idle:idle-connection-dropped(%v/%v):", fork.Dropped, ref.Dropped) + shape,
			What: "bytes on an idle connection: the fork's client differs from net/http's client", Input: in, Got: fork, Want: ref})
	}
	r.Count(fmt.Sprintf("idle.dropped=%v.second-on-conn=%d", fork.Dropped, fork.Second.OnConn))
	if fork.First.Rej == "" && fork.First.Panic == "" && fork.Second.Err == "" {
		c := fmt.Sprintf("IdleCase %s %s %s %s %s %s", hk.CoqStr(method), coqBytes(first), coqBytes(stray), coqBytes(freshResponse), fork.First.coq(), fork.Second.O.coq())
		r.Add(hk.Case{Coq: c, Desc: map[string]interface{}{"kind": "idle:" + shape, "input": in, "observed": fork}},
			fmt.Sprintf("i|%s|%x|%x", method, first, stray), true)
	}
}

func runIdleStray(r *hk.Run) {
	firsts := []struct{ data, method, name string }{
		{"HTTP/1.1 204 No Content\r\n\r\n", "GET", "204"},
		{"HTTP/1.1 304 Not Modified\r\nETag: \"x\"\r\n\r\n", "GET", "304"},
		{"HTTP/1.1 200 OK\r\nContent-Length: 0\r\n\r\n", "GET", "cl0"},
		{"HTTP/1.1 200 OK\r\nContent-Length: 5\r\n\r\n", "HEAD", "head-cl5"},
		{"HTTP/1.1 200 OK\r\nContent-Length: 0\r\n\r\n", "CONNECT", "connect-cl0"},
		{"HTTP/1.1 200 OK\r\nContent-Length: 2\r\n\r\nhi", "GET", "cl2"},
		{"HTTP/1.1 200 OK\r\nTransfer-Encoding: chunked\r\n\r\n2\r\nhi\r\n0\r\n\r\n", "GET", "chunked"},
		{"HTTP/1.1 200 OK\r\nTransfer-Encoding: chunked\r\nTrailer: X-T\r\n\r\n2\r\nhi\r\n0\r\nX-T: 1\r\n\r\n", "GET", "chunked-trailer"},
		{"HTTP/1.1 100 Continue\r\n\r\nHTTP/1.1 204 No Content\r\n\r\n", "GET", "100+204"},
		{"HTTP/1.0 200 OK\r\nConnection: keep-alive\r\nContent-Length: 0\r\n\r\n", "GET", "1.0-keepalive-cl0"},
		{"HTTP/1.1 204 No Content\r\nConnection: close\r\n\r\n", "GET", "204-close"},
		{"HTTP/1.1 101 Switching Protocols\r\n\r\n", "GET", "101-no-upgrade"},
	}
	strays := []struct{ data, name string }{
		{"HTTP/1.1 200 OK\r\nContent-Length: 6\r\n\r\nSTOLEN", "whole-response"},
		{"X", "one-byte"},
		{"\r\n", "blank-line"},
		{"HTTP/1.1 100 Continue\r\n\r\n", "informational"},
	}
	for _, f := range firsts {
		for _, s := range strays {
			checkIdleStray(r, []byte(f.data), []byte(s.data), f.method, "idle:"+f.name+"+"+s.name)
		}
	}
}
