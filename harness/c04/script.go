package main

// C04, scripted-connection tier (no sockets): the clients run over a net.Conn implemented by
// the harness (Transport.DialContext), so the SHAPE of the connection's Read results is a
// generator dimension - in particular the final bytes of a message arriving TOGETHER with
// io.EOF in one Read, which a TCP socket never does - and a connection can answer a whole
// SEQUENCE of requests, each with its own interim (1xx) heads in front.
//
//   eof cells:  one request; the answer is delivered in reads of at most `chunk` bytes and the
//               connection reports io.EOF with the last bytes / never.  Observed: the response
//               and whether the connection was offered to the idle pool (httptrace PutIdleConn).
//   seq cells:  N requests one after the other; the first connection answers request i with
//               segs[i] (k_i interim heads + a kept-alive final message) and never reports EOF.
//               Observed: every response, and the number of connections dialled.
// Oracle: fork client = reference client.  Coq: EofCase / SeqCase (Model/C04Run.v).

import (
	"bytes"
	"context"
	"errors"
	"fmt"
	"io"
	"net"
	"net/http"
	"net/http/httptrace"
	"strings"
	"sync"
	"sync/atomic"
	"time"

	req "github.com/imroc/req/v3"
	"github.com/imroc/req/v3/verifharness/hk"
)

type scriptConn struct {
	mu          sync.Mutex
	cond        *sync.Cond
	wbuf        []byte
	reqs        int      // request heads written so far
	answers     [][]byte // answer to the i-th request on this connection
	delivered   int
	pending     []byte
	cur         int
	eofAfter    int  // io.EOF once answer eofAfter has been delivered (-1: never)
	eofTogether bool // ... in the same Read as its last bytes
	chunk       int  // at most this many bytes per Read (0: no limit)
	eofSeen     bool
	closed      bool
}

func newScriptConn(answers [][]byte, eofAfter int, together bool, chunk int) *scriptConn {
	c := &scriptConn{answers: answers, eofAfter: eofAfter, eofTogether: together, chunk: chunk, cur: -1}
	c.cond = sync.NewCond(&c.mu)
	return c
}

func (c *scriptConn) Read(p []byte) (int, error) {
	c.mu.Lock()
	defer c.mu.Unlock()
	for {
		if c.closed {
			return 0, net.ErrClosed
		}
		if len(c.pending) > 0 {
			break
		}
		if c.eofSeen || (c.cur >= 0 && c.cur == c.eofAfter) {
			c.eofSeen = true
			return 0, io.EOF
		}
		if c.delivered < c.reqs && c.delivered < len(c.answers) {
			c.pending = c.answers[c.delivered]
			c.cur = c.delivered
			c.delivered++
			if len(c.pending) == 0 {
				continue
			}
			break
		}
		c.cond.Wait()
	}
	n := len(c.pending)
	if c.chunk > 0 && n > c.chunk {
		n = c.chunk
	}
	if n > len(p) {
		n = len(p)
	}
	copy(p, c.pending[:n])
	c.pending = c.pending[n:]
	if len(c.pending) == 0 && c.cur == c.eofAfter && c.eofTogether {
		c.eofSeen = true
		return n, io.EOF
	}
	return n, nil
}

func (c *scriptConn) Write(b []byte) (int, error) {
	c.mu.Lock()
	defer c.mu.Unlock()
	if c.closed {
		return 0, net.ErrClosed
	}
	c.wbuf = append(c.wbuf, b...)
	c.reqs = bytes.Count(c.wbuf, []byte("\r\n\r\n"))
	c.cond.Broadcast()
	return len(b), nil
}

func (c *scriptConn) Close() error {
	c.mu.Lock()
	c.closed = true
	c.cond.Broadcast()
	c.mu.Unlock()
	return nil
}

type scriptAddr struct{}

func (scriptAddr) Network() string { return "script" }
func (scriptAddr) String() string  { return "script" }

func (c *scriptConn) LocalAddr() net.Addr                { return scriptAddr{} }
func (c *scriptConn) RemoteAddr() net.Addr               { return scriptAddr{} }
func (c *scriptConn) SetDeadline(t time.Time) error      { return nil }
func (c *scriptConn) SetReadDeadline(t time.Time) error  { return nil }
func (c *scriptConn) SetWriteDeadline(t time.Time) error { return nil }

// scriptDialer hands out the scripted first connection, then connections that answer every
// request with FRESH.
type scriptDialer struct {
	first *scriptConn
	dials int32
	mu    sync.Mutex
	all   []*scriptConn
}

func (d *scriptDialer) dial(ctx context.Context, network, addr string) (net.Conn, error) {
	n := atomic.AddInt32(&d.dials, 1)
	c := d.first
	if n > 1 {
		fresh := make([][]byte, 16)
		for i := range fresh {
			fresh[i] = freshResponse
		}
		c = newScriptConn(fresh, -1, false, 0)
	}
	d.mu.Lock()
	d.all = append(d.all, c)
	d.mu.Unlock()
	return c, nil
}

func (d *scriptDialer) closeAll() {
	d.mu.Lock()
	for _, c := range d.all {
		c.Close()
	}
	d.mu.Unlock()
}

func scriptClients(d *scriptDialer) []rtMaker {
	return []rtMaker{
		{"reference", func() (http.RoundTripper, func()) {
			t := &http.Transport{DisableCompression: true, Proxy: nil, DialContext: d.dial}
			return t, t.CloseIdleConnections
		}, func(rc io.ReadCloser) bool { return rc == http.NoBody }},
		{"fork", func() (http.RoundTripper, func()) {
			t := req.T().DisableAutoDecode()
			t.DisableCompression = true
			t.Proxy = nil
			t.DialContext = d.dial
			return t, t.CloseIdleConnections
		}, req.VerifC04IsNoBody},
	}
}

type scriptObs struct {
	Resps   []obs
	PutIdle []bool
	Dials   int
	Hung    bool
}

func (s scriptObs) key() string {
	if s.Hung {
		return "hung"
	}
	var ks []string
	for i, o := range s.Resps {
		ks = append(ks, fmt.Sprintf("%s|idle=%v", o.propKey(), s.PutIdle[i]))
	}
	return strings.Join(ks, "\n") + fmt.Sprintf("\ndials=%d", s.Dials)
}

// scriptRun: the requests one after the other through one client.
func scriptRun(which int, first *scriptConn, methods []string) (out scriptObs) {
	d := &scriptDialer{first: first}
	rt, closeIdle := scriptClients(d)[which].mk()
	ctx, cancel := context.WithCancel(context.Background())
	done := make(chan scriptObs, 1)
	go func() {
		var r scriptObs
		defer func() {
			if x := recover(); x != nil {
				r.Resps = append(r.Resps, obs{Panic: fmt.Sprint(x)})
				r.PutIdle = append(r.PutIdle, false)
			}
			done <- r
		}()
		for i, m := range methods {
			var idle int32
			tr := &httptrace.ClientTrace{PutIdleConn: func(err error) {
				if err == nil {
					atomic.StoreInt32(&idle, 1)
				}
			}}
			rq, _ := http.NewRequestWithContext(httptrace.WithClientTrace(ctx, tr), m, fmt.Sprintf("http://script.test/r%d", i), nil)
			resp, err := rt.RoundTrip(rq)
			var o obs
			if err != nil {
				o = obs{Rej: "HOther", ErrText: err.Error()}
			} else {
				o = obs{Proto: resp.Proto, Code: resp.StatusCode, Status: resp.Status, CL: resp.ContentLength, Close: resp.Close, Framing: "FrNone"}
				o.Chunked = len(resp.TransferEncoding) == 1 && resp.TransferEncoding[0] == "chunked"
				body, berr := io.ReadAll(resp.Body)
				o.Again = readAgain(resp.Body)
				resp.Body.Close()
				o.Body, o.BEnd = body, classifyBodyErr(berr)
				if berr != nil {
					o.BErrText = berr.Error()
				}
				o.Hdr, o.Trailer = sortedHeader(resp.Header), sortedHeader(resp.Trailer)
			}
			r.Resps = append(r.Resps, o)
			r.PutIdle = append(r.PutIdle, atomic.LoadInt32(&idle) == 1)
		}
	}()
	select {
	case out = <-done:
	case <-time.After(tcpWatchdog):
		out = scriptObs{Hung: true}
	}
	out.Dials = int(atomic.LoadInt32(&d.dials))
	cancel()
	d.closeAll()
	closeIdle()
	return out
}

type scriptInput struct {
	Kind    string   `json:"kind"`
	Methods []string `json:"methods"`
	Segs    []string `json:"segments_hex"`
	Text    string   `json:"text"`
	EOF     string   `json:"eof"`
	Chunk   int      `json:"chunk"`
	Shape   string   `json:"shape"`
}

var scriptFailures int

// checkScript: eofMode "never" | "together" ; chunk = max bytes per Read.
func checkScript(r *hk.Run, methods []string, segs [][]byte, eofMode string, chunk int, shape string) {
	if scriptFailures >= 6 {
		r.Count("script.skipped-after-6-failures")
		return
	}
	mk := func() *scriptConn {
		eofAfter := -1
		if eofMode == "together" {
			eofAfter = len(segs) - 1
		}
		return newScriptConn(segs, eofAfter, eofMode == "together", chunk)
	}
	in := scriptInput{Kind: "script", Methods: methods, EOF: eofMode, Chunk: chunk, Shape: shape}
	for _, s := range segs {
		in.Segs = append(in.Segs, fmt.Sprintf("%x", s))
		in.Text += clip(fmt.Sprintf("%q ", s))
	}
	ref := scriptRun(0, mk(), methods)
	fork := scriptRun(1, mk(), methods)
	r.Count("script.cells:" + eofMode)
	if ref.Hung {
		r.Count("script.skipped-reference-hangs")
		return
	}
	if fork.key() != ref.key() {
		scriptFailures++
		field := "hang"
		if !fork.Hung {
			field = fmt.Sprintf("dials(%d/%d)", fork.Dials, ref.Dials)
			for i := range ref.Resps {
				if i >= len(fork.Resps) {
					break
				}
				if fork.Resps[i].propKey() != ref.Resps[i].propKey() {
					field = fmt.Sprintf("exchange-%d:%s", i+1, diffFields(ref.Resps[i], fork.Resps[i]))
					break
				}
				if fork.PutIdle[i] != ref.PutIdle[i] {
					field = fmt.Sprintf("exchange-%d:offered-for-reuse(%v/%v)", i+1, fork.PutIdle[i], ref.PutIdle[i])
					break
				}
			}
		}
		r.Fail(hk.Failure{Sig: "h1script:" + field + ":" + shape,
			What:  "scripted connection (eof " + eofMode + fmt.Sprintf(", %d bytes per Read): the fork's client differs from net/http's client", chunk),
			Input: in, Got: fork, Want: ref})
	}
	if fork.Hung || len(fork.Resps) != len(methods) {
		return
	}
	for _, o := range fork.Resps {
		if o.Panic != "" {
			return
		}
	}
	if len(segs) == 1 {
		c := fmt.Sprintf("EofCase %s %s %s %s %s", hk.CoqStr(methods[0]), coqBytes(segs[0]), hk.CoqBool(eofMode == "together"), fork.Resps[0].coq(), hk.CoqBool(fork.PutIdle[0]))
		r.Add(hk.Case{Coq: c, Desc: map[string]interface{}{"kind": "script-eof:" + shape, "input": in, "observed": fork}},
			fmt.Sprintf("se|%s|%s|%d|%x", methods[0], eofMode, chunk, segs[0]), fork.Resps[0].Rej == "")
		return
	}
	if fork.Dials != 1 {
		return // some request was answered by a later connection (FRESH), not by its scripted segment
	}
	var rqs, os []string
	for i := range segs {
		rqs = append(rqs, hk.CoqPair(hk.CoqStr(methods[i]), coqBytes(segs[i])))
		os = append(os, fork.Resps[i].coq())
	}
	c := fmt.Sprintf("SeqCase %s %s", hk.CoqList(rqs), hk.CoqList(os))
	r.Add(hk.Case{Coq: c, Desc: map[string]interface{}{"kind": "script-seq:" + shape, "input": in, "observed": fork}},
		fmt.Sprintf("ss|%s|%x", strings.Join(methods, ","), bytes.Join(segs, []byte("|"))), true)
}

func runScript(r *hk.Run, rng *hk.Rand) {
	// (a) Read-result shapes of the connection around the end of one message
	firsts := []struct{ data, method, name string }{
		{"HTTP/1.1 200 OK\r\nContent-Length: 2\r\n\r\nhi", "GET", "cl2"},
		{"HTTP/1.1 200 OK\r\nTransfer-Encoding: chunked\r\n\r\n2\r\nhi\r\n0\r\n\r\n", "GET", "chunked"},
		{"HTTP/1.1 200 OK\r\nTransfer-Encoding: chunked\r\nTrailer: X-T\r\n\r\n2\r\nhi\r\n0\r\nX-T: 1\r\n\r\n", "GET", "chunked-trailer"},
		{"HTTP/1.1 204 No Content\r\n\r\n", "GET", "204"},
		{"HTTP/1.1 200 OK\r\nContent-Length: 0\r\n\r\n", "GET", "cl0"},
		{"HTTP/1.1 200 OK\r\nContent-Length: 5\r\n\r\n", "HEAD", "head-cl5"},
		{"HTTP/1.1 103 Early Hints\r\n\r\nHTTP/1.1 200 OK\r\nContent-Length: 2\r\n\r\nhi", "GET", "103+cl2"},
		{"HTTP/1.0 200 OK\r\nConnection: keep-alive\r\nContent-Length: 2\r\n\r\nhi", "GET", "1.0-keepalive"},
		{"HTTP/1.1 200 OK\r\nConnection: close\r\nContent-Length: 2\r\n\r\nhi", "GET", "close"},
		{"HTTP/1.1 200 OK\r\n\r\nuntil close", "GET", "until-close"},
		{"HTTP/1.1 200 OK\r\nContent-Length: 5\r\n\r\nhi", "GET", "short"},
	}
	for _, f := range firsts {
		for _, eof := range []string{"never", "together"} {
			for _, chunk := range []int{0, 1, 7} {
				if eof == "never" && (f.name == "until-close" || f.name == "short") {
					continue // would wait for the end of the connection for ever
				}
				checkScript(r, []string{f.method}, [][]byte{[]byte(f.data)}, eof, chunk, fmt.Sprintf("script:%s:eof-%s:chunk-%d", f.name, eof, chunk))
			}
		}
	}
	// (b) a sequence of exchanges on one connection, interim heads in front of each answer
	hint := []string{"HTTP/1.1 103 Early Hints\r\nLink: </a>\r\n\r\n", "HTTP/1.1 102 Processing\r\n\r\n", "HTTP/1.1 100 Continue\r\n\r\n"}
	finals := []string{"HTTP/1.1 200 OK\r\nContent-Length: 2\r\n\r\nhi", "HTTP/1.1 204 No Content\r\n\r\n", "HTTP/1.1 200 OK\r\nTransfer-Encoding: chunked\r\n\r\n2\r\nhi\r\n0\r\n\r\n"}
	seq := func(ks []int, shape string) {
		var segs [][]byte
		var ms []string
		for i, k := range ks {
			var sb strings.Builder
			for j := 0; j < k; j++ {
				sb.WriteString(hint[(i+j)%len(hint)])
			}
			sb.WriteString(finals[i%len(finals)])
			segs = append(segs, []byte(sb.String()))
			ms = append(ms, "GET")
		}
		checkScript(r, ms, segs, "never", 0, shape)
	}
	seq([]int{2, 2, 2, 2}, "script-seq:2-2-2-2")
	seq([]int{5, 5, 5}, "script-seq:5-5-5")
	seq([]int{3, 3}, "script-seq:3-3")
	seq([]int{1, 1, 1, 1, 1, 1, 1}, "script-seq:1x7")
	seq([]int{0, 5, 1}, "script-seq:0-5-1")
	seq([]int{5, 6, 0}, "script-seq:5-6-0")
	seq([]int{0, 0, 0, 0, 0, 0}, "script-seq:0x6")
	for i, n := 0, r.Scale(12, 300); i < n; i++ {
		ks := make([]int, rng.Range(2, 6))
		for j := range ks {
			ks[j] = rng.Intn(6)
		}
		seq(ks, fmt.Sprintf("script-seq:%v", ks))
	}
}

var _ = errors.New
