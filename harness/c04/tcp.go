package main

// C04, socket tier: the same byte streams served by a RAW TCP PEER to REAL CLIENTS -
// the fork's Transport.RoundTrip next to net/http's Transport.RoundTrip (the reference) -
// for the same request method.  Compared: rejected/accepted, status line, header map,
// Content-Length / chunked / Close, body bytes, clean end or error, trailers, and WHERE THE
// CLIENT'S NEXT REQUEST GOES (same connection = the client considered the message finished
// and the connection reusable).  The fork's observation is handed to the Coq model
// (Model/H1Conn.v client_read) as a TcpCase.
//
// No wall-clock assertion: the peer decides whether to keep the connection open from the
// reference parser's reading of the stream (exactly one complete self-delimited final
// message => keep open and wait for the next request on either connection; otherwise close
// after writing).  The only timer is a generous watchdog that turns a hang into a failure.

import (
	"bufio"
	"bytes"
	"context"
	"fmt"
	"io"
	"log"
	"net"
	"net/http"
	"strings"
	"sync"
	"time"

	req "github.com/imroc/req/v3"
	"github.com/imroc/req/v3/verifharness/hk"
)

const tcpWatchdog = 20 * time.Second

var secondResponse = []byte("HTTP/1.1 200 OK\r\nContent-Length: 2\r\nConnection: close\r\n\r\nok")

// readHead consumes one request head (no request in this tier has a body).
func readHead(c net.Conn) bool {
	br := bufio.NewReader(c)
	for {
		line, err := br.ReadString('\n')
		if err != nil {
			return false
		}
		if line == "\r\n" || line == "\n" {
			return true
		}
	}
}

type peer struct {
	ln       net.Listener
	addr     string
	secondOn int // 0: no second request seen, 1: on the first connection, 2: on a new connection
	done     chan struct{}
	finished chan struct{}
	mu       sync.Mutex
	conns    []net.Conn
}

func (p *peer) track(c net.Conn) {
	p.mu.Lock()
	p.conns = append(p.conns, c)
	p.mu.Unlock()
}

// startPeer serves [stream] in answer to the first request.  hold: keep that connection
// open afterwards and answer one more request wherever it arrives.
func startPeer(stream []byte, hold bool) (*peer, error) {
	ln, err := net.Listen("tcp", "127.0.0.1:0")
	if err != nil {
		return nil, err
	}
	p := &peer{ln: ln, addr: ln.Addr().String(), done: make(chan struct{}), finished: make(chan struct{})}
	go func() {
		defer close(p.finished)
		c1, err := ln.Accept()
		if err != nil {
			return
		}
		p.track(c1)
		if !readHead(c1) {
			c1.Close()
			return
		}
		c1.Write(stream)
		if !hold {
			c1.Close()
			<-p.done
			return
		}
		type ev struct {
			which int
			c     net.Conn
		}
		ch := make(chan ev, 2)
		go func() {
			if readHead(c1) {
				ch <- ev{1, c1}
			} else {
				ch <- ev{-1, nil}
			}
		}()
		go func() {
			c2, err := ln.Accept()
			if err != nil {
				ch <- ev{-2, nil}
				return
			}
			p.track(c2)
			if readHead(c2) {
				ch <- ev{2, c2}
			} else {
				ch <- ev{-2, nil}
			}
		}()
		for {
			select {
			case e := <-ch:
				if e.which > 0 {
					p.secondOn = e.which
					e.c.Write(secondResponse)
					e.c.Close()
					<-p.done
					return
				}
			case <-p.done:
				return
			}
		}
	}()
	return p, nil
}

func (p *peer) stop() {
	close(p.done)
	p.ln.Close()
	p.mu.Lock()
	for _, c := range p.conns {
		c.Close()
	}
	p.mu.Unlock()
	<-p.finished
}

// ---------- clients ----------

type rtMaker struct {
	name string
	mk   func() (http.RoundTripper, func())
	noBd func(io.ReadCloser) bool
}

var tcpClients = []rtMaker{
	{"reference", func() (http.RoundTripper, func()) {
		t := &http.Transport{DisableCompression: true, Proxy: nil}
		return t, t.CloseIdleConnections
	}, func(rc io.ReadCloser) bool { return rc == http.NoBody }},
	{"fork", func() (http.RoundTripper, func()) {
		t := req.T().DisableAutoDecode()
		t.DisableCompression = true
		t.Proxy = nil
		return t, t.CloseIdleConnections
	}, req.VerifC04IsNoBody},
	// the same client with request and response dump switched on (the dumping readLine variant,
	// dump wrappers around the body): must not change anything the caller sees
	{"fork+dump", func() (http.RoundTripper, func()) {
		t := req.T().DisableAutoDecode()
		t.DisableCompression = true
		t.Proxy = nil
		t.EnableDump(&req.DumpOptions{Output: io.Discard, RequestHeader: true, RequestBody: true, ResponseHeader: true, ResponseBody: true})
		return t, func() { t.CloseIdleConnections(); t.DisableDump() }
	}, req.VerifC04IsNoBody},
}

type tcpObs struct {
	O      obs
	Second string // "", "same-conn", "new-conn", "none"
	Hung   bool
}

func (t tcpObs) key() string {
	if t.Hung {
		return "hung"
	}
	return t.O.propKey() + "|" + t.Second
}

// tcpObserve runs one client against a fresh peer.
func tcpObserve(cl rtMaker, stream []byte, method string, hold, second bool) (out tcpObs) {
	p, err := startPeer(stream, hold)
	if err != nil {
		return tcpObs{O: obs{Panic: "listen: " + err.Error()}}
	}
	rt, closeIdle := cl.mk()
	resCh := make(chan tcpObs, 1)
	ctx, cancel := context.WithCancel(context.Background())
	go func() {
		var r tcpObs
		defer func() {
			if x := recover(); x != nil {
				r = tcpObs{O: obs{Panic: fmt.Sprint(x)}}
			}
			resCh <- r
		}()
		rq, _ := http.NewRequestWithContext(ctx, method, "http://"+p.addr+"/", nil)
		resp, err := rt.RoundTrip(rq)
		if err != nil {
			r.O = obs{Rej: "HOther", ErrText: err.Error()}
			return
		}
		o := obs{Proto: resp.Proto, Code: resp.StatusCode, Status: resp.Status, CL: resp.ContentLength, Close: resp.Close}
		o.Chunked = len(resp.TransferEncoding) == 1 && resp.TransferEncoding[0] == "chunked"
		o.Framing = "FrNone" // not observable through RoundTrip; ignored by the TcpCase checker
		body, berr := io.ReadAll(resp.Body)
		o.Again = readAgain(resp.Body)
		resp.Body.Close()
		o.Body, o.BEnd = body, classifyBodyErr(berr)
		if berr != nil {
			o.BErrText = berr.Error()
		}
		o.Hdr, o.Trailer = sortedHeader(resp.Header), sortedHeader(resp.Trailer)
		r.O = o
		if !second {
			return
		}
		rq2, _ := http.NewRequestWithContext(ctx, "GET", "http://"+p.addr+"/second", nil)
		resp2, err := rt.RoundTrip(rq2)
		if err != nil {
			r.Second = "error:" + err.Error()
			return
		}
		io.ReadAll(resp2.Body)
		resp2.Body.Close()
		r.Second = "answered"
	}()
	select {
	case out = <-resCh:
	case <-time.After(tcpWatchdog):
		out = tcpObs{Hung: true}
	}
	cancel()
	p.stop()
	closeIdle()
	if second && out.Second == "answered" {
		switch p.secondOn {
		case 1:
			out.Second = "same-conn"
		case 2:
			out.Second = "new-conn"
		default:
			out.Second = "none"
		}
	}
	return out
}

// refFinal: the reference parser's reading of the whole stream as a client would consume it
// (informational responses skipped): is the final message accepted, self-delimited, complete,
// and is anything left behind it?
// protoSwitch: the final response is a 101 that net/http turns into a writable body (Upgrade
// header + Connection: upgrade token); a 101 without them is an ordinary bodiless final response.
func refFinal(stream []byte, method string) (accepted, selfDelimited, complete, protoSwitch bool, leftover int) {
	src := &segReader{data: stream}
	br := bufio.NewReaderSize(src, 4096)
	for i := 0; i < 8; i++ {
		resp, err := http.ReadResponse(br, &http.Request{Method: method, Header: http.Header{}})
		if err != nil {
			return false, false, false, false, 0
		}
		if resp.StatusCode >= 100 && resp.StatusCode <= 199 && resp.StatusCode != 101 {
			continue
		}
		_, berr := io.ReadAll(resp.Body)
		selfDelimited = resp.Body == http.NoBody || resp.ContentLength >= 0 || len(resp.TransferEncoding) > 0
		sw := resp.StatusCode == 101 && resp.Header.Get("Upgrade") != "" && headerHasToken(resp.Header["Connection"], "upgrade")
		return true, selfDelimited, berr == nil, sw, len(stream) - src.pos + br.Buffered()
	}
	return false, false, false, false, 0
}

func tcpInput(stream []byte, method, shape string) streamInput {
	in := mkInput(stream, method, 4096, shape)
	in.Kind = "tcp"
	return in
}

// checkTCP: one stream x method over sockets, both clients, oracle + Coq case.
func checkTCP(r *hk.Run, stream []byte, method, shape string, dumpToo bool) {
	accepted, selfDel, complete, protoSwitch, leftover := refFinal(stream, method)
	if accepted && protoSwitch {
		// 101 Switching Protocols: the body handed to the caller is the connection itself (what is
		// buffered behind the head, then the socket).  Outside the Coq model; oracle only: the peer
		// closes after writing, both clients must hand out the same head and the same bytes.
		a := tcpObserve(tcpClients[0], stream, method, false, false)
		b := tcpObserve(tcpClients[1], stream, method, false, false)
		r.Count("tcp.101-cells")
		if a.Hung {
			r.Count("tcp.skipped-reference-hangs")
			return
		}
		if a.key() != b.key() {
			field := diffFields(a.O, b.O)
			if b.Hung {
				field = "hang"
			}
			r.Fail(hk.Failure{Sig: "h1tcp:" + field + ":101:" + shape,
				What:  "101 Switching Protocols over a raw TCP peer: the fork's client differs from net/http's client",
				Input: tcpInput(stream, method, shape), Got: b, Want: a})
		}
		return
	}
	// exactly one complete self-delimited final message: keep the connection open and see
	// where the next request goes
	exact := accepted && selfDel && complete && leftover == 0
	hold := exact
	ref := tcpObserve(tcpClients[0], stream, method, hold, exact)
	fork := tcpObserve(tcpClients[1], stream, method, hold, exact)
	r.Count("tcp.method=" + method)
	if exact {
		r.Count("tcp.second-request=" + fork.Second)
	}
	if ref.Hung {
		// the reference client itself does not finish on this stream: nothing to compare
		r.Count("tcp.skipped-reference-hangs")
		return
	}
	if strings.HasPrefix(ref.Second, "error:") || ref.Second == "none" {
		r.Count("tcp.skipped-reference-second-request-failed")
		return
	}
	report := func(name string, got tcpObs) {
		if got.key() == ref.key() {
			return
		}
		field := diffFields(ref.O, got.O)
		if got.Hung {
			field = "hang"
		} else if got.O.propKey() == ref.O.propKey() {
			field = "next-request(" + got.Second + "/" + ref.Second + ")"
		}
		r.Fail(hk.Failure{Sig: "h1tcp:" + field + ":" + name + ":" + shape,
			What:  "over a raw TCP peer the fork's client (" + name + ") differs from net/http's client",
			Input: tcpInput(stream, method, shape), Got: got, Want: ref})
	}
	report("dump-off", fork)
	if dumpToo {
		r.Count("tcp.dump-on")
		report("dump-on", tcpObserve(tcpClients[2], stream, method, hold, exact))
	}
	if fork.Hung || fork.O.Panic != "" {
		return
	}
	reused := "None"
	switch fork.Second {
	case "same-conn":
		reused = "(Some true)"
	case "new-conn":
		reused = "(Some false)"
	}
	if fork.O.Rej != "" {
		r.Count("tcp.outcome=rejected")
	} else {
		r.Count("tcp.outcome=accepted:" + fork.O.BEnd)
	}
	if fork.O.Rej == "" && againKnown(fork.O) {
		ca := fmt.Sprintf("AgainCase %s %s %s %s", hk.CoqStr(method), coqBytes(stream), fork.O.BEnd, hk.CoqList(fork.O.Again))
		r.Add(hk.Case{Coq: ca, Desc: map[string]interface{}{"kind": "again:" + shape, "input": tcpInput(stream, method, shape), "observed": fork}},
			fmt.Sprintf("a|%s|%x", method, stream), fork.O.BEnd != "BOk")
	}
	c := fmt.Sprintf("TcpCase %s %s %s %s", hk.CoqStr(method), coqBytes(stream), fork.O.coq(), reused)
	r.Add(hk.Case{Coq: c, Desc: map[string]interface{}{"kind": "tcp:" + shape, "input": tcpInput(stream, method, shape), "observed": fork}},
		fmt.Sprintf("t|%s|%x", method, stream), fork.O.Rej == "")
}

// tcpFixed: directed streams for the socket tier (keep-alive decision, 1xx skipping, framing).
func tcpFixed() []struct{ data, shape string } {
	ok := "HTTP/1.1 200 OK\r\nContent-Length: 2\r\n\r\nhi"
	return []struct{ data, shape string }{
		{ok, "tcp-cl"},
		{"HTTP/1.1 200 OK\r\nContent-Length: 2\r\nConnection: close\r\n\r\nhi", "tcp-cl-close"},
		{"HTTP/1.1 200 OK\r\nContent-Length: 2\r\nConnection: Keep-Alive, CLOSE\r\n\r\nhi", "tcp-cl-close-token-list"},
		{"HTTP/1.0 200 OK\r\nContent-Length: 2\r\n\r\nhi", "tcp-1.0"},
		{"HTTP/1.0 200 OK\r\nContent-Length: 2\r\nConnection: keep-alive\r\n\r\nhi", "tcp-1.0-keepalive"},
		{"HTTP/1.0 200 OK\r\nContent-Length: 2\r\nConnection: keep-alive, close\r\n\r\nhi", "tcp-1.0-keepalive-close"},
		{"HTTP/2.0 200 OK\r\nContent-Length: 2\r\n\r\nhi", "tcp-2.0"},
		{"HTTP/0.9 200 OK\r\nContent-Length: 2\r\n\r\nhi", "tcp-0.9"},
		{"HTTP/1.1 200 OK\r\nTransfer-Encoding: chunked\r\n\r\n2\r\nhi\r\n0\r\n\r\n", "tcp-chunked"},
		{"HTTP/1.1 200 OK\r\nTransfer-Encoding: chunked\r\nTrailer: X-T\r\n\r\n2\r\nhi\r\n0\r\nX-T: 1\r\n\r\n", "tcp-chunked-trailer"},
		{"HTTP/1.1 200 OK\r\nTransfer-Encoding: chunked\r\nContent-Length: 9\r\n\r\n2\r\nhi\r\n0\r\n\r\n", "tcp-chunked-and-cl"},
		{"HTTP/1.1 200 OK\r\nContent-Length: 2\r\nContent-Length: 2 \r\n\r\nhi", "tcp-dup-cl"},
		{"HTTP/1.1 200 OK\r\nContent-Length: 2\r\nContent-Length: 3\r\n\r\nhi!", "tcp-dup-cl-differ"},
		{"HTTP/1.1 204 No Content\r\n\r\n", "tcp-204"},
		{"HTTP/1.1 204 No Content\r\nContent-Length: 2\r\n\r\n", "tcp-204-cl"},
		{"HTTP/1.1 304 Not Modified\r\nTransfer-Encoding: chunked\r\n\r\n", "tcp-304-chunked"},
		{"HTTP/1.1 200 OK\r\nContent-Length: 0\r\n\r\n", "tcp-cl0"},
		{"HTTP/1.1 200 OK\r\n\r\nuntil close", "tcp-until-close"},
		{"HTTP/1.1 200 OK\r\nContent-Length: 5\r\n\r\nhi", "tcp-short"},
		{"HTTP/1.1 200 OK\r\nTransfer-Encoding: chunked\r\n\r\n2\r\nhi\r\n", "tcp-chunked-truncated"},
		{"HTTP/1.1 200 OK\r\nTransfer-Encoding: chunked\r\n\r\n2\r\nhi\r\n\r\n\r\n", "tcp-blank-chunk-size"},
		{"HTTP/1.1 100 Continue\r\n\r\n" + ok, "tcp-100-then-200"},
		{"HTTP/1.1 103 Early Hints\r\nLink: </a>\r\n\r\nHTTP/1.1 102 Processing\r\n\r\n" + ok, "tcp-103-102-then-200"},
		{strings.Repeat("HTTP/1.1 100 Continue\r\n\r\n", 5) + ok, "tcp-5x100-then-200"},
		{strings.Repeat("HTTP/1.1 100 Continue\r\n\r\n", 6) + ok, "tcp-6x100-then-200"},
		{"HTTP/1.1 100 Continue\r\nContent-Length: 3\r\n\r\n" + ok, "tcp-100-with-cl"},
		{"HTTP/1.1 199 Odd\r\n\r\nHTTP/1.1 404 Not Found\r\nContent-Length: 0\r\n\r\n", "tcp-199-then-404"},
		{"HTTP/1.1 200 OK\r\nFoo: a\r\n b\r\nContent-Length: 2\r\n\r\nhi", "tcp-fold"},
		{"HTTP/1.1 200 OK\nContent-Length: 2\n\nhi", "tcp-bare-lf"},
		{"HTTP/1.1 200 OK\r\nX-Big: " + strings.Repeat("v", 5000) + "\r\nContent-Length: 2\r\n\r\nhi", "tcp-big-header"},
		{"HTTP/1.1 200 OK\r\nTransfer-Encoding: chunked\r\n\r\n0\r\nX-T: " + strings.Repeat("t", 4200) + "\r\n\r\n", "tcp-big-trailer"},
		{ok + "HTTP/1.1 200 OK\r\nContent-Length: 2\r\n\r\nno", "tcp-pipelined-unsolicited"},
		{"HTTP/1.1 101 Switching Protocols\r\nUpgrade: x\r\nConnection: Upgrade\r\n\r\nraw bytes of the other protocol", "tcp-101-with-bytes"},
		{"HTTP/1.1 101 Switching Protocols\r\nUpgrade: x\r\nConnection: Upgrade\r\n\r\n", "tcp-101-bare"},
		{"HTTP/1.1 100 Continue\r\n\r\nHTTP/1.1 101 Switching Protocols\r\nContent-Length: 3\r\n\r\nabcdef", "tcp-100-then-101-with-cl"},
		{"HTTP/1.1 101 Switching Protocols\r\nTransfer-Encoding: chunked\r\n\r\n2\r\nhi\r\n0\r\n\r\n", "tcp-101-chunked"},
		{"HTTP/1.1 101 Switching Protocols\r\n\r\n", "tcp-101-no-upgrade"},
		{"HTTP/1.1 101 Switching Protocols\r\nUpgrade: x\r\n\r\n", "tcp-101-upgrade-without-connection-token"},
		{"HTTP/1.1 101 Switching Protocols\r\nConnection: upgrade\r\n\r\n", "tcp-101-connection-token-without-upgrade"},
		{"HTTP/1.1 101 Switching Protocols\r\nConnection: keep-alive\r\nContent-Length: 0\r\n\r\n", "tcp-101-keepalive-cl0"},
		{"HTTP/1.1 099 Odd\r\nContent-Length: 0\r\n\r\n", "tcp-099-cl0"},
		{"HTTP/1.1 000 Zero\r\nContent-Length: 2\r\n\r\nhi", "tcp-000-cl2"},
		{"HTTP/1.1 099 Odd\r\nTransfer-Encoding: chunked\r\n\r\n2\r\nhi\r\n0\r\n\r\n", "tcp-099-chunked"},
		{"HTTP/1.1 100 Continue\r\n\r\nHTTP/1.1 101 Switching Protocols\r\n\r\n", "tcp-100-then-101-no-upgrade"},
		{"HTTP/1.1 200 OK\r\nContent-Length: 0\r\n\r\n", "tcp-200-cl0"},
		{"HTTP/1.1 199 Odd\r\n\r\nHTTP/1.1 200 OK\r\nContent-Length: 0\r\n\r\n", "tcp-199-then-200-cl0"},
		{"", "tcp-empty"},
		{"HTTP/1.1 200 OK\r\nCo", "tcp-truncated-header"},
		{"HTTP/1.1 2x0 OK\r\n\r\n", "tcp-bad-code"},
	}
}

func runTCP(r *hk.Run, rng *hk.Rand) {
	log.SetOutput(io.Discard) // net/http logs "Unsolicited response received on idle HTTP channel" for bytes behind a message
	for _, s := range tcpFixed() {
		for _, m := range []string{"GET", "HEAD", "CONNECT"} {
			checkTCP(r, []byte(s.data), m, s.shape, m == "GET")
		}
	}
	n := r.Scale(220, 4000)
	for i := 0; i < n; i++ {
		g := &gen{rng: rng}
		s, shape := g.response()
		if rng.Chance(10) {
			s = mutate(rng, s)
			shape += "+mut"
		}
		if rng.Chance(15) {
			// informational responses in front
			k := rng.Range(1, 6)
			pre := strings.Repeat(hk.Pick(rng, []string{"HTTP/1.1 100 Continue\r\n\r\n", "HTTP/1.1 103 Early Hints\r\nLink: </x>\r\n\r\n", "HTTP/1.0 102 P\r\n\r\n"}), k)
			s = append([]byte(pre), s...)
			shape = fmt.Sprintf("1xx*%d+", k) + shape
		}
		method := "GET"
		switch k := rng.Intn(100); {
		case k < 25:
			method = "HEAD"
		case k < 35:
			method = "CONNECT"
		}
		checkTCP(r, s, method, "tcp:"+shape, rng.Chance(40))
	}
	runTCPLimits(r)
	runSplice(r, rng)
	runExpect(r, rng)
	runIdleStray(r)
	runScript(r, rng)
}

var _ = bytes.Equal

// ---------- MaxResponseHeaderBytes (persistConn.readLimit) ----------

// limitClients: both transports with the same small response-header limit.
func limitClients(limit int64) (rtMaker, rtMaker) {
	ref := rtMaker{"reference", func() (http.RoundTripper, func()) {
		t := &http.Transport{DisableCompression: true, Proxy: nil, MaxResponseHeaderBytes: limit}
		return t, t.CloseIdleConnections
	}, func(rc io.ReadCloser) bool { return rc == http.NoBody }}
	fork := rtMaker{"fork", func() (http.RoundTripper, func()) {
		t := req.T().DisableAutoDecode()
		t.DisableCompression = true
		t.Proxy = nil
		t.MaxResponseHeaderBytes = limit
		return t, t.CloseIdleConnections
	}, req.VerifC04IsNoBody}
	return ref, fork
}

// runTCPLimits: header blocks around the configured limit (status line + header fields + blank
// line = total bytes), also behind informational responses (the limit is reset per response).
// Oracle only (the limit is outside the Coq model): fork client = reference client.
func runTCPLimits(r *hk.Run) {
	const limit = 2048
	ref, fork := limitClients(limit)
	mk := func(total int, pre string) []byte {
		head := "HTTP/1.1 200 OK\r\nContent-Length: 2\r\nX-Pad: "
		tail := "\r\n\r\n"
		pad := total - len(head) - len(tail)
		if pad < 0 {
			pad = 0
		}
		return []byte(pre + head + strings.Repeat("p", pad) + tail + "hi")
	}
	for _, total := range []int{512, 2040, 2046, 2047, 2048, 2049, 2050, 2100, 4095, 4096, 4097, 6000} {
		for _, pre := range []string{"", "HTTP/1.1 100 Continue\r\n\r\n", "HTTP/1.1 103 Early Hints\r\nLink: " + strings.Repeat("l", 1500) + "\r\n\r\n"} {
			stream := mk(total, pre)
			shape := fmt.Sprintf("tcp-limit-%d-head-%d-pre-%d", limit, total, len(pre))
			a := tcpObserve(ref, stream, "GET", false, false)
			b := tcpObserve(fork, stream, "GET", false, false)
			r.Count("tcp.limit-cases")
			if a.Hung {
				r.Count("tcp.skipped-reference-hangs")
				continue
			}
			if a.key() != b.key() {
				field := diffFields(a.O, b.O)
				if b.Hung {
					field = "hang"
				}
				r.Fail(hk.Failure{Sig: "h1tcp:" + field + ":header-limit:" + shape,
					What:  fmt.Sprintf("MaxResponseHeaderBytes=%d: the fork's client differs from net/http's client", limit),
					Input: tcpInput(stream, "GET", shape), Got: b, Want: a})
			}
			if a.O.Rej != "" {
				r.Count("tcp.limit-rejected")
			} else {
				r.Count("tcp.limit-accepted")
			}
		}
	}
}

// headerHasToken: httpguts.HeaderValuesContainsToken, transcribed (comma-separated, OWS-trimmed,
// ASCII case-insensitive).
func headerHasToken(vals []string, tok string) bool {
	for _, v := range vals {
		for _, f := range strings.Split(v, ",") {
			if strings.EqualFold(strings.Trim(f, " \t"), tok) {
				return true
			}
		}
	}
	return false
}

// againKnown: every class in the observation is one the Coq enum has.
func againKnown(o obs) bool {
	if o.BEnd == "BOther" || len(o.Again) == 0 {
		return false
	}
	for _, a := range o.Again {
		if !strings.HasPrefix(a, "B") || a == "BOther" {
			return false
		}
	}
	return true
}
