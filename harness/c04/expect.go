package main

// C04, socket tier, part 3: the same byte streams in answer to a request that was sent with a
// body and "Expect: 100-continue".  The interpretation of the server's bytes must not depend
// on that (reference: net/http's Transport with the same request), however many "100 Continue"
// heads arrive and WHEN they arrive relative to the client's own decision to send the body:
//
//   at-once: the peer writes the whole stream right behind the request head (the client is
//            still waiting for a 100; ExpectContinueTimeout is set to an hour on both clients
//            so that no timer takes part);
//   late:    ExpectContinueTimeout is 1 ms on both clients and the peer writes NOTHING until it
//            has received the complete request body - i.e. the timeout has provably fired and
//            the body writer is no longer listening when the first 100 head arrives.  The order
//            of events is forced by a data dependency, not by sleeping.
//
// Observed: the response as the caller sees it (as in tcp.go), whether the exchange finishes at
// all (watchdog => failure), and - when the connection is kept - whether the peer received the
// request body.  Oracle: fork client = reference client.  Coq: ExpectCase against
// Model/H1Conn.v read_final_expect (response + "was the writer told to send the body").

import (
	"bufio"
	"context"
	"fmt"
	"io"
	"net"
	"net/http"
	"strings"
	"time"

	req "github.com/imroc/req/v3"
	"github.com/imroc/req/v3/verifharness/hk"
)

const expectBody = "hello-body"

type expectObs struct {
	O       obs
	BodyGot int // request-body bytes the peer received; -1 = not measured (connection not kept)
	Hung    bool
}

func (e expectObs) key(measure bool) string {
	if e.Hung {
		return "hung"
	}
	k := e.O.propKey()
	if measure {
		k += fmt.Sprintf("|body=%d", e.BodyGot)
	}
	return k
}

func expectClients(timeout time.Duration) []rtMaker {
	return []rtMaker{
		{"reference", func() (http.RoundTripper, func()) {
			t := &http.Transport{DisableCompression: true, Proxy: nil, ExpectContinueTimeout: timeout}
			return t, t.CloseIdleConnections
		}, func(rc io.ReadCloser) bool { return rc == http.NoBody }},
		{"fork", func() (http.RoundTripper, func()) {
			t := req.T().DisableAutoDecode()
			t.DisableCompression = true
			t.Proxy = nil
			t.ExpectContinueTimeout = timeout
			return t, t.CloseIdleConnections
		}, req.VerifC04IsNoBody},
	}
}

// expectObserve: one client, one fresh peer.  keep: the stream is exactly one complete
// self-delimited final message (the peer then leaves the connection open and waits for the body).
func expectObserve(cl rtMaker, stream []byte, late, keep bool) (out expectObs) {
	ln, err := net.Listen("tcp", "127.0.0.1:0")
	if err != nil {
		return expectObs{O: obs{Panic: "listen: " + err.Error()}}
	}
	bodyGot := make(chan int, 1)
	var conn net.Conn
	connCh := make(chan net.Conn, 1)
	go func() {
		c, err := ln.Accept()
		if err != nil {
			bodyGot <- -1
			return
		}
		connCh <- c
		br := bufio.NewReader(c)
		for {
			line, err := br.ReadString('\n')
			if err != nil {
				bodyGot <- -1
				return
			}
			if line == "\r\n" {
				break
			}
		}
		buf := make([]byte, len(expectBody))
		if late {
			n, _ := io.ReadFull(br, buf) // the client's timeout fires, the body arrives
			c.Write(stream)
			if !keep {
				c.(*net.TCPConn).CloseWrite()
			}
			bodyGot <- n
			return
		}
		c.Write(stream)
		if !keep {
			c.(*net.TCPConn).CloseWrite()
		}
		n, _ := io.ReadFull(br, buf) // the body, or EOF when the client closes without sending it
		bodyGot <- n
	}()
	rt, closeIdle := cl.mk()
	ctx, cancel := context.WithCancel(context.Background())
	done := make(chan obs, 1)
	go func() {
		var o obs
		defer func() {
			if x := recover(); x != nil {
				o = obs{Panic: fmt.Sprint(x)}
			}
			done <- o
		}()
		rq, _ := http.NewRequestWithContext(ctx, "POST", "http://"+ln.Addr().String()+"/upload", strings.NewReader(expectBody))
		rq.Header.Set("Expect", "100-continue")
		resp, err := rt.RoundTrip(rq)
		if err != nil {
			o = obs{Rej: "HOther", ErrText: err.Error()}
			return
		}
		o = obs{Proto: resp.Proto, Code: resp.StatusCode, Status: resp.Status, CL: resp.ContentLength, Close: resp.Close, Framing: "FrNone"}
		o.Chunked = len(resp.TransferEncoding) == 1 && resp.TransferEncoding[0] == "chunked"
		body, berr := io.ReadAll(resp.Body)
		resp.Body.Close()
		o.Body, o.BEnd = body, classifyBodyErr(berr)
		if berr != nil {
			o.BErrText = berr.Error()
		}
		o.Hdr, o.Trailer = sortedHeader(resp.Header), sortedHeader(resp.Trailer)
	}()
	select {
	case out.O = <-done:
	case <-time.After(tcpWatchdog):
		out.Hung = true
	}
	out.BodyGot = -1
	// the body is observed only when the connection is really kept (no close, final status > 199:
	// readLoop drops the connection after a terminal status <= 199, and the body write then races
	// with that close)
	if !out.Hung && keep && out.O.Rej == "" && !out.O.Close && out.O.Code > 199 {
		select {
		case out.BodyGot = <-bodyGot:
		case <-time.After(tcpWatchdog):
			out.Hung = true
		}
	}
	cancel()
	ln.Close()
	select {
	case conn = <-connCh:
		conn.Close()
	default:
	}
	closeIdle()
	return out
}

func expectInput(stream []byte, late bool, shape string) streamInput {
	in := mkInput(stream, "POST", 4096, shape)
	in.Kind = "expect"
	if late {
		in.Kind = "expect-late"
	}
	return in
}

// after a few hangs the remaining cells are skipped: every hang costs a full watchdog period and
// three concrete failing inputs are enough
var expectHangs int

func checkExpect(r *hk.Run, stream []byte, late bool, shape string) {
	if expectHangs >= 3 {
		r.Count("expect.skipped-after-3-hangs")
		return
	}
	accepted, selfDel, complete, protoSwitch, leftover := refFinal(stream, "POST")
	if accepted && protoSwitch {
		r.Count("expect.skipped-101-switch")
		return
	}
	keep := accepted && selfDel && complete && leftover == 0
	timeout := time.Hour
	if late {
		timeout = time.Millisecond
	}
	cls := expectClients(timeout)
	ref := expectObserve(cls[0], stream, late, keep)
	fork := expectObserve(cls[1], stream, late, keep)
	mode := "at-once"
	if late {
		mode = "late"
	}
	r.Count("expect.cells:" + mode)
	if ref.Hung {
		r.Count("expect.skipped-reference-hangs")
		return
	}
	measure := ref.BodyGot >= 0 && (fork.Hung || fork.BodyGot >= 0)
	if fork.key(measure) != ref.key(measure) {
		field := diffFields(ref.O, fork.O)
		switch {
		case fork.Hung:
			field = "hang"
			expectHangs++
		case fork.O.propKey() == ref.O.propKey():
			field = fmt.Sprintf("request-body(%d/%d)", fork.BodyGot, ref.BodyGot)
		}
		r.Fail(hk.Failure{Sig: "h1expect:" + field + ":" + mode + ":" + shape,
			What:  "request sent with Expect: 100-continue (" + mode + "): the fork's client differs from net/http's client on the same bytes",
			Input: expectInput(stream, late, shape), Got: fork, Want: ref})
	}
	if fork.Hung || fork.O.Panic != "" {
		return
	}
	sent := "None"
	if fork.BodyGot >= 0 {
		sent = "(Some " + hk.CoqBool(fork.BodyGot == len(expectBody)) + ")"
		r.Count(fmt.Sprintf("expect.body-received=%v", fork.BodyGot == len(expectBody)))
	}
	c := fmt.Sprintf("ExpectCase %s %s %s %s", hk.CoqBool(late), coqBytes(stream), fork.O.coq(), sent)
	r.Add(hk.Case{Coq: c, Desc: map[string]interface{}{"kind": "expect:" + mode + ":" + shape, "input": expectInput(stream, late, shape), "observed": fork}},
		fmt.Sprintf("e|%v|%x", late, stream), fork.O.Rej == "")
}

func expectMatrix() []struct{ data, shape string } {
	c100 := "HTTP/1.1 100 Continue\r\n\r\n"
	c103 := "HTTP/1.1 103 Early Hints\r\nLink: </a>\r\n\r\n"
	prefixes := []struct{ data, name string }{
		{"", "none"}, {c100, "100"}, {c100 + c100, "100x2"}, {c100 + c100 + c100, "100x3"},
		{c103, "103"}, {c103 + c100, "103+100"}, {c100 + c103 + c100, "100+103+100"},
		{"HTTP/1.0 100 Continue\r\nX: y\r\n\r\n" + c100, "100(1.0)+100"},
		{strings.Repeat(c100, 5), "100x5"}, {strings.Repeat(c100, 6), "100x6"},
	}
	finals := []struct{ data, name string }{
		{"HTTP/1.1 200 OK\r\nContent-Length: 2\r\n\r\nhi", "200-cl2"},
		{"HTTP/1.1 200 OK\r\nContent-Length: 0\r\n\r\n", "200-cl0"},
		{"HTTP/1.1 204 No Content\r\n\r\n", "204"},
		{"HTTP/1.1 200 OK\r\nTransfer-Encoding: chunked\r\n\r\n2\r\nhi\r\n0\r\n\r\n", "200-chunked"},
		{"HTTP/1.1 200 OK\r\nConnection: close\r\nContent-Length: 2\r\n\r\nhi", "200-close"},
		{"HTTP/1.1 417 Expectation Failed\r\nConnection: close\r\nContent-Length: 0\r\n\r\n", "417-close"},
		{"HTTP/1.1 200 OK\r\n\r\nuntil close", "200-until-close"},
		{"HTTP/1.1 2x0 OK\r\n\r\n", "bad-status"},
	}
	var out []struct{ data, shape string }
	for _, p := range prefixes {
		for _, f := range finals {
			out = append(out, struct{ data, shape string }{p.data + f.data, "expect:" + p.name + "+" + f.name})
		}
	}
	return out
}

func runExpect(r *hk.Run, rng *hk.Rand) {
	for _, c := range expectMatrix() {
		checkExpect(r, []byte(c.data), false, c.shape)
		checkExpect(r, []byte(c.data), true, c.shape)
	}
	n := r.Scale(40, 1200)
	for i := 0; i < n; i++ {
		g := &gen{rng: rng}
		s, shape := g.response()
		k := rng.Intn(4)
		pre := strings.Repeat("HTTP/1.1 100 Continue\r\n\r\n", k)
		checkExpect(r, append([]byte(pre), s...), rng.Chance(50), fmt.Sprintf("expect:100x%d+", k)+shape)
	}
}
