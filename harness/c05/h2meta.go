package main

// HTTP/2 merged header lists: Framer.ReadFrame with ReadMetaHeaders set (readMetaFrame: HEADERS +
// CONTINUATION merged through HPACK, field validation, pseudo-header rules, MaxHeaderListSize) -
// fork vs golang.org/x/net/http2 v0.33.0 vs model (Model/H2Meta.v).  And the quicvarint byteReader
// on readers that deliver the last byte together with io.EOF.

import (
	"bytes"
	"errors"
	"fmt"
	"io"
	"strings"
	"testing/iotest"

	fh2 "github.com/imroc/req/v3/internal/http2"
	fvi "github.com/imroc/req/v3/internal/quic-go/quicvarint"
	"github.com/imroc/req/v3/verifharness/hk"
	rvi "github.com/quic-go/quic-go/quicvarint"
	xh2 "golang.org/x/net/http2"
	"golang.org/x/net/http2/hpack"
)

type metaObs struct {
	Err       string // "", conn:<code>, stream:<sid>:<code>, eof, ...
	Kind      string // "meta" or the plain frame kind
	SID       uint32
	Flags     uint8
	Fields    [][2]string
	Truncated bool
	Detail    string // Framer.ErrorDetail() right after this ReadFrame ("" = nil)
}

func (o metaObs) key() string { return fmt.Sprintf("%+v", o) }

func projMetaFork(f fh2.Frame, err error) metaObs {
	if err != nil {
		return metaObs{Err: projectForkErr(err)}
	}
	if mh, ok := f.(*fh2.MetaHeadersFrame); ok {
		o := metaObs{Kind: "meta", SID: mh.StreamID, Flags: uint8(mh.Flags), Truncated: mh.Truncated}
		for _, hf := range mh.Fields {
			o.Fields = append(o.Fields, [2]string{hf.Name, hf.Value})
		}
		return o
	}
	p := projectFork(f, nil)
	return metaObs{Kind: p.Kind, SID: p.SID, Flags: p.Flags}
}

func projMetaRef(f xh2.Frame, err error) metaObs {
	if err != nil {
		return metaObs{Err: projectRefErr(err)}
	}
	if mh, ok := f.(*xh2.MetaHeadersFrame); ok {
		o := metaObs{Kind: "meta", SID: mh.StreamID, Flags: uint8(mh.Flags), Truncated: mh.Truncated}
		for _, hf := range mh.Fields {
			o.Fields = append(o.Fields, [2]string{hf.Name, hf.Value})
		}
		return o
	}
	p := projectRef(f, nil)
	return metaObs{Kind: p.Kind, SID: p.SID, Flags: p.Flags}
}

func readMetaFork(input []byte, maxList uint32, n int) (out []metaObs) {
	defer func() {
		if p := recover(); p != nil {
			out = append(out, metaObs{Err: fmt.Sprint("other:panic:", p)})
		}
	}()
	fr := fh2.NewFramer(io.Discard, bytes.NewReader(input))
	fr.ReadMetaHeaders = hpack.NewDecoder(4096, nil)
	fr.MaxHeaderListSize = maxList
	for i := 0; i < n; i++ {
		o := projMetaFork(fr.ReadFrame())
		if d := fr.ErrorDetail(); d != nil {
			o.Detail = d.Error()
		}
		out = append(out, o)
		if o.Err != "" && !strings.HasPrefix(o.Err, "stream:") { // a stream error leaves the connection in use
			break
		}
	}
	return
}

func readMetaRef(input []byte, maxList uint32, n int) (out []metaObs) {
	defer func() {
		if p := recover(); p != nil {
			out = append(out, metaObs{Err: fmt.Sprint("other:panic:", p)})
		}
	}()
	fr := xh2.NewFramer(io.Discard, bytes.NewReader(input))
	fr.ReadMetaHeaders = hpack.NewDecoder(4096, nil)
	fr.MaxHeaderListSize = maxList
	for i := 0; i < n; i++ {
		o := projMetaRef(fr.ReadFrame())
		if d := fr.ErrorDetail(); d != nil {
			o.Detail = d.Error()
		}
		out = append(out, o)
		if o.Err != "" && !strings.HasPrefix(o.Err, "stream:") {
			break
		}
	}
	return
}

var h2Names = []string{"content-type", "server", "x-a", "x-b", "set-cookie", "date", "content-length", "a", "x-1_2.3", "vary"}
var h2BadNames = []string{"", "Content-Type", "x-A", "X", "x a", "x:", "a\x00", "\xc3\xa9", "x\xff", "x(", "x,y", "x@"}
var h2PseudoNames = []string{":status", ":status", ":status", ":path", ":method", ":scheme", ":authority", ":protocol", ":unknown", ":", ":Status"}
var h2Vals = []string{"", "a", "200", "text/html", "x y", "a\tb", "caf\xc3\xa9", "0", strings.Repeat("v", 40), strings.Repeat("w", 200)}
var h2BadVals = []string{"a\x00b", "a\rb", "a\nb", "\x7f", "\x1f"}

func genH2Fields(rng *hk.Rand) [][2]string {
	var fs [][2]string
	if rng.Chance(85) {
		fs = append(fs, [2]string{":status", hk.Pick(rng, []string{"200", "404", "100", "abc", ""})})
	}
	for i, n := 0, hk.Pick(rng, []int{0, 1, 2, 3, 5, 8}); i < n; i++ {
		fs = append(fs, [2]string{hk.Pick(rng, h2Names), hk.Pick(rng, h2Vals)})
	}
	for m, k := 0, hk.Pick(rng, []int{0, 0, 0, 1, 1, 2}); m < k; m++ {
		pos := rng.Intn(len(fs) + 1)
		var f [2]string
		switch rng.Intn(5) {
		case 0:
			f = [2]string{hk.Pick(rng, h2BadNames), hk.Pick(rng, h2Vals)}
		case 1:
			f = [2]string{hk.Pick(rng, h2Names), hk.Pick(rng, h2BadVals)}
		case 2, 3:
			f = [2]string{hk.Pick(rng, h2PseudoNames), hk.Pick(rng, h2Vals)}
		case 4:
			f = [2]string{string(rng.Bytes(rng.Range(1, 3))), string(rng.Bytes(rng.Intn(3)))}
		}
		fs = append(fs[:pos:pos], append([][2]string{f}, fs[pos:]...)...)
	}
	return fs
}

func hfSize(f [2]string) int { return len(f[0]) + len(f[1]) + 32 }

// encodeSplit HPACK-encodes the fields (reference encoder, no Huffman/indexing surprises matter:
// both framers see the same bytes) and cuts the block into 1..4 fragments at field boundaries or
// at arbitrary bytes.
func encodeSplit(rng *hk.Rand, fs [][2]string) (frags [][]byte, perFrag [][][2]string, atBoundary bool) {
	var buf bytes.Buffer
	return encodeSplitWith(rng, fs, hpack.NewEncoder(&buf), &buf)
}

// encodeSplitWith: enc writes into buf and may be shared by several blocks of one connection
// (dynamic table carried from block to block, as a real peer does).
func encodeSplitWith(rng *hk.Rand, fs [][2]string, enc *hpack.Encoder, buf *bytes.Buffer) (frags [][]byte, perFrag [][][2]string, atBoundary bool) {
	frags, perFrag, atBoundary, _ = encodeSplitOpts(rng, fs, enc, buf, false)
	return
}

// encodeSplitOpts: tear = cut the block inside its last field representation (when that is at least
// two bytes long); torn reports whether that was done.  A dynamic table size update the encoder owes
// (SetMaxDynamicTableSize before the call) comes out in front of the first field.
func encodeSplitOpts(rng *hk.Rand, fs [][2]string, enc *hpack.Encoder, buf *bytes.Buffer, tear bool) (frags [][]byte, perFrag [][][2]string, atBoundary bool, torn bool) {
	buf.Reset()
	var ends []int
	for _, f := range fs {
		enc.WriteField(hpack.HeaderField{Name: f[0], Value: f[1], Sensitive: rng.Chance(10)})
		ends = append(ends, buf.Len())
	}
	block := append([]byte(nil), buf.Bytes()...)
	if tear && len(ends) > 0 {
		start := 0
		if len(ends) > 1 {
			start = ends[len(ends)-2]
		}
		if l := ends[len(ends)-1] - start; l >= 2 && len(ends) > 1 { // (the first field may carry the size update)
			block = block[:start+rng.Range(1, l-1)]
			fs = fs[:len(fs)-1]
			ends = ends[:len(ends)-1]
			torn = true
		}
	}
	k := hk.Pick(rng, []int{1, 1, 2, 2, 3, 4})
	atBoundary = rng.Chance(70)
	cuts := []int{}
	for i := 1; i < k; i++ {
		if atBoundary && len(ends) > 0 {
			cuts = append(cuts, ends[rng.Intn(len(ends))])
		} else if len(block) > 0 {
			cuts = append(cuts, rng.Intn(len(block)+1))
		}
	}
	cuts = append(cuts, len(block))
	sortInts(cuts)
	prev := 0
	fi := 0
	for _, c := range cuts {
		frags = append(frags, block[prev:c])
		var here [][2]string
		for fi < len(fs) && ends[fi] <= c {
			here = append(here, fs[fi])
			fi++
		}
		perFrag = append(perFrag, here)
		prev = c
	}
	return
}

func sortInts(a []int) {
	for i := 1; i < len(a); i++ {
		for j := i; j > 0 && a[j] < a[j-1]; j-- {
			a[j], a[j-1] = a[j-1], a[j]
		}
	}
}

func coqStrPairs(fs [][2]string) string {
	var xs []string
	for _, f := range fs {
		xs = append(xs, hk.CoqPair(hk.CoqStr(f[0]), hk.CoqStr(f[1])))
	}
	return hk.CoqList(xs)
}

func (o metaObs) coq() string {
	if o.Err != "" {
		switch {
		case strings.HasPrefix(o.Err, "conn:"):
			return "(MErr (EConn " + o.Err[5:] + "))"
		case strings.HasPrefix(o.Err, "stream:"):
			p := strings.Split(o.Err, ":")
			return "(MErr (EStream " + p[1] + " " + p[2] + "))"
		}
		return "(MErr EBAD)"
	}
	return fmt.Sprintf("(MOk %s %s)", coqStrPairs(o.Fields), hk.CoqBool(o.Truncated))
}

func runH2Meta(r *hk.Run, rng *hk.Rand) {
	n := r.Scale(6000, 300000)
	modelEvery := n / r.Scale(1500, 15000)
	for i := 0; i < n; i++ {
		fs := genH2Fields(rng)
		total := 0
		for _, f := range fs {
			total += hfSize(f)
		}
		// limits: far above, exactly at / around the list size, around a prefix, tiny, 0 (= default 16 MiB)
		var maxList uint32
		switch rng.Intn(8) {
		case 0:
			maxList = 0
		case 1, 2:
			maxList = uint32(total + rng.Range(-2, 2))
			if total+0 < 3 {
				maxList = uint32(total + 1)
			}
		case 3:
			p := 0
			for _, f := range fs[:rng.Intn(len(fs)+1)] {
				p += hfSize(f)
			}
			maxList = uint32(p + rng.Range(0, 1))
		case 4:
			maxList = uint32(rng.Range(1, 80))
		case 5:
			maxList = uint32(total/2 + 1)
		default:
			maxList = 1 << 16
		}
		frags, perFrag, atB := encodeSplit(rng, fs)
		sid := hk.Pick(rng, []uint32{1, 3, 5})
		var wire []byte
		for j, fr := range frags {
			var flags uint8
			if j == len(frags)-1 {
				flags |= 0x4
			}
			if j == 0 {
				if rng.Chance(30) {
					flags |= 0x1
				}
				wire = append(wire, rawFrame(uint32(len(fr)), 1, flags, sid, fr)...)
			} else {
				wire = append(wire, rawFrame(uint32(len(fr)), 9, flags, sid, fr)...)
			}
		}
		// a PING follows: the framer must be in step afterwards
		wire = append(wire, rawFrame(8, 6, 0, 0, []byte("12345678"))...)
		if rng.Chance(4) { // torn HPACK / truncated wire
			wire = wire[:rng.Intn(len(wire))]
		}
		fo, ro := readMetaFork(wire, maxList, 2), readMetaRef(wire, maxList, 2)
		desc := map[string]interface{}{"kind": "h2-meta", "max_header_list_size": maxList, "fields": fmt.Sprintf("%q", fs), "fragments": len(frags), "wire": fmt.Sprintf("%x", capBytes(wire, 400))}
		r.Count(fmt.Sprintf("h2.meta.frags%d", len(frags)))
		same := len(fo) == len(ro)
		for j := 0; same && j < len(fo); j++ {
			same = fo[j].key() == ro[j].key()
		}
		if !same {
			r.Fail(hk.Failure{Sig: "h2:meta-read", What: "fork ReadFrame with ReadMetaHeaders differs from golang.org/x/net/http2 (merged header list, Truncated, or error class)", Input: desc, Got: fmt.Sprintf("%+v", fo), Want: fmt.Sprintf("%+v", ro)})
		}
		first := fo[0]
		switch {
		case first.Err != "":
			r.Count("h2.meta.err." + strings.SplitN(first.Err, ":", 2)[0] + ":" + first.Err[strings.LastIndex(first.Err, ":")+1:])
		case first.Truncated:
			r.Count("h2.meta.truncated")
		default:
			r.Count("h2.meta.ok")
		}
		c := hk.Case{Desc: desc}
		whole := len(wire) >= 9 && first.Kind == "meta" || strings.HasPrefix(first.Err, "conn:") || strings.HasPrefix(first.Err, "stream:")
		// hpack.Decoder.SetMaxStringLength(limit): a longer name or value is the decoder's own
		// COMPRESSION_ERROR, outside the model (three-way comparison still applies)
		longStr := false
		effMax := uint64(maxList)
		if effMax == 0 {
			effMax = 16 << 20
		}
		for _, f := range fs {
			if uint64(len(f[0])) > effMax || uint64(len(f[1])) > effMax {
				longStr = true
			}
		}
		if longStr {
			r.Count("h2.meta.string-longer-than-limit")
		}
		if i%modelEvery == 0 && atB && whole && !longStr && !tornWire(wire, frags) {
			// model input: per fragment its byte length and the fields that complete inside it
			var xs []string
			for j := range frags {
				xs = append(xs, hk.CoqPair(fmt.Sprint(len(frags[j])), coqStrPairs(perFrag[j])))
			}
			eff := maxList
			if eff == 0 {
				eff = 16 << 20
			}
			c.Coq = fmt.Sprintf("H2Meta %d %d %s %s", eff, sid, hk.CoqList(xs), first.coq())
		}
		r.Add(c, fmt.Sprint("h2m|", maxList, "|", wire), len(fs) > 1)
	}
}

// runH2MetaSeq: SEQUENCES of 2..5 header blocks (one stream each, one HPACK encoder for all of them)
// through ONE Framer + hpack decoder on each side, with PING / WINDOW_UPDATE frames in between: what
// a rejected (stream error) or truncated block leaves behind in the framer and its decoder must not
// leak into the blocks that follow.  Every position of the bad block in the sequence is generated.
func runH2MetaSeq(r *hk.Run, rng *hk.Rand) {
	n := r.Scale(2500, 100000)
	modelEvery := n / r.Scale(900, 9000)
	for i := 0; i < n; i++ {
		k := rng.Range(2, 5)
		var ebuf bytes.Buffer
		enc := hpack.NewEncoder(&ebuf)
		var wire []byte
		var blocks [][][2]string
		var blockTorn []bool
		var coqBlocks, evs []string
		var evIsBlock []bool
		_ = coqBlocks
		modelOK := true
		maxList := hk.Pick(rng, []uint32{0, 1 << 16, 1 << 16, 400, 200, 120, 90})
		effMax := uint64(maxList)
		if effMax == 0 {
			effMax = 16 << 20
		}
		frames := 0
		for b := 0; b < k; b++ {
			fs := genH2Fields(rng)
			if rng.Chance(45) { // a clean response: the victim of whatever came before
				fs = [][2]string{{":status", "200"}, {"server", hk.Pick(rng, h2Vals[:6])}, {hk.Pick(rng, h2Names), "v" + fmt.Sprint(b)}}
			}
			// the peer takes a new SETTINGS_HEADER_TABLE_SIZE into use: the block opens with a size update
			su := false
			if b > 0 && rng.Chance(30) {
				enc.SetMaxDynamicTableSize(hk.Pick(rng, []uint32{0, 64, 1024, 4096, 2048}))
				su = true
			}
			frags, perFrag, atB, torn := encodeSplitOpts(rng, fs, enc, &ebuf, rng.Chance(8))
			if torn {
				fs = fs[:len(fs)-1]
				r.Count("h2.metaseq.torn-block")
			}
			if su {
				r.Count("h2.metaseq.size-update")
			}
			blocks = append(blocks, fs)
			blockTorn = append(blockTorn, torn)
			sid := uint32(2*b + 1)
			for j, fr := range frags {
				var flags uint8
				if j == len(frags)-1 {
					flags |= 0x4
				}
				ty := uint8(9)
				if j == 0 {
					ty = 1
				}
				wire = append(wire, rawFrame(uint32(len(fr)), ty, flags, sid, fr)...)
				frames++
			}
			if rng.Chance(40) {
				wire = append(wire, rawFrame(8, 6, 0, 0, []byte("abcdefgh"))...)
				frames++
			}
			if !atB {
				modelOK = false
			}
			evIsBlock = append(evIsBlock, true)
			evs = append(evs, fmt.Sprintf("EvBlock %d %s %s %s", sid, hk.CoqBool(su), hk.CoqBool(torn), hk.CoqList(blockFrags(frags, perFrag))))
			// a frame the frame parser itself refuses with a stream error - before checkFrameOrder is
			// reached - right behind the block: whatever ErrorDetail said about the block is not about it
			if rng.Chance(35) {
				rsid := sid
				if rng.Bool() {
					rsid = sid + 2
				}
				if rng.Bool() {
					wire = append(wire, rawFrame(4, 8, 0, rsid, []byte{0, 0, 0, 0})...) // WINDOW_UPDATE, increment 0
				} else {
					wire = append(wire, rawFrame(1, 1, 0x8|0x4, rsid, []byte{5})...) // HEADERS, padding beyond the payload
				}
				frames++
				evIsBlock = append(evIsBlock, false)
				evs = append(evs, fmt.Sprintf("EvRejected %d", rsid))
				r.Count("h2.metaseq.rejected-frame")
			}
			for _, f := range fs {
				if uint64(len(f[0])) > effMax || uint64(len(f[1])) > effMax {
					modelOK = false
				}
			}
			var xs []string
			for j := range frags {
				xs = append(xs, hk.CoqPair(fmt.Sprint(len(frags[j])), coqStrPairs(perFrag[j])))
			}
			coqBlocks = append(coqBlocks, fmt.Sprintf("(%d, (%s, %s), %s)", sid, hk.CoqBool(su), hk.CoqBool(torn), hk.CoqList(xs)))
		}
		fo, ro := readMetaFork(wire, maxList, frames+1), readMetaRef(wire, maxList, frames+1)
		desc := map[string]interface{}{"kind": "h2-meta-seq", "max_header_list_size": maxList, "blocks": fmt.Sprintf("%q", blocks), "wire": fmt.Sprintf("%x", capBytes(wire, 600))}
		r.Count(fmt.Sprintf("h2.metaseq.blocks%d", k))
		same := len(fo) == len(ro)
		for j := 0; same && j < len(fo); j++ {
			same = fo[j].key() == ro[j].key()
		}
		if !same {
			r.Fail(hk.Failure{Sig: "h2:meta-seq", What: "a sequence of header blocks read through one Framer differs from golang.org/x/net/http2 (merged header lists, Truncated or error class of some block)", Input: desc, Got: fmt.Sprintf("%+v", fo), Want: fmt.Sprintf("%+v", ro)})
		}
		// the oracle proper, independent of the reference: a block that follows a rejected or truncated
		// one is read as if it came first (fresh Framer fed the same bytes cannot be used - HPACK state -
		// so: a block accepted untruncated must carry exactly its own fields)
		bi, sawBad := 0, false
		var metas []metaObs
		for _, o := range fo {
			if o.Kind != "meta" && !strings.HasPrefix(o.Err, "stream:") && !strings.HasPrefix(o.Err, "conn:") {
				continue
			}
			metas = append(metas, o)
			if ei := len(metas) - 1; ei < len(evIsBlock) && !evIsBlock[ei] {
				// a frame refused by the frame parser: ErrorDetail is about THIS ReadFrame ("reset after
				// the next call to ReadFrame"), and the parser gives no detail for it
				if o.Detail != "" {
					r.Fail(hk.Failure{Sig: "h2:meta-seq:stale-error-detail", What: "ErrorDetail() after a frame the frame parser refused still carries the detail of an earlier frame's error", Input: desc, Got: fmt.Sprintf("event %d: %s detail %q", ei, o.Err, o.Detail)})
				}
				continue
			}
			if bi < len(blocks) && o.Err == "" && !o.Truncated && blockTorn[bi] {
				r.Fail(hk.Failure{Sig: "h2:meta-seq:torn-block-delivered", What: "a header block that ends inside a field representation was delivered", Input: desc, Got: fmt.Sprintf("block %d: %q", bi, o.Fields)})
			}
			if bi < len(blocks) && o.Err == "" && !o.Truncated && !blockTorn[bi] {
				if fmt.Sprint(o.Fields) != fmt.Sprint(blocks[bi]) {
					sig := "h2:meta-seq:block-lost-fields"
					if sawBad {
						sig = "h2:meta-seq:block-after-rejected-lost-fields"
					}
					r.Fail(hk.Failure{Sig: sig, What: "a header block delivered untruncated does not carry the fields that were sent in it", Input: desc, Got: fmt.Sprintf("block %d: %q", bi, o.Fields), Want: fmt.Sprintf("%q", blocks[bi])})
				}
				if sawBad {
					r.Count("h2.metaseq.good-after-bad")
				}
			}
			if o.Err != "" || o.Truncated {
				sawBad = true
			}
			bi++
		}
		c := hk.Case{Desc: desc}
		complete := len(fo) > 0 && (fo[len(fo)-1].Err == "eof" || strings.HasPrefix(fo[len(fo)-1].Err, "conn:"))
		if i%modelEvery == 0 && modelOK && complete {
			var obs []string
			for _, o := range metas {
				obs = append(obs, hk.CoqPair(o.coq(), hk.CoqBool(o.Detail != "")))
			}
			c.Coq = fmt.Sprintf("H2MetaSeq3 %d %s %s", effMax, hk.CoqList(parenAll(evs)), hk.CoqList(obs))
		}
		r.Add(c, fmt.Sprint("h2ms|", maxList, "|", wire), true)
	}
}

func parenAll(xs []string) []string {
	out := make([]string, len(xs))
	for i, x := range xs {
		out[i] = "(" + x + ")"
	}
	return out
}

func blockFrags(frags [][]byte, perFrag [][][2]string) []string {
	var xs []string
	for j := range frags {
		xs = append(xs, hk.CoqPair(fmt.Sprint(len(frags[j])), coqStrPairs(perFrag[j])))
	}
	return xs
}

// tornWire: the wire was cut short (the model sees whole header blocks only)
func tornWire(wire []byte, frags [][]byte) bool {
	want := 17
	for _, f := range frags {
		want += 9 + len(f)
	}
	return len(wire) != want
}

// ---------- quicvarint.NewReader on plain io.Readers ----------

type oneByteReader struct{ r io.Reader }

func (o oneByteReader) Read(p []byte) (int, error) {
	if len(p) == 0 {
		return 0, nil
	}
	return o.r.Read(p[:1])
}

func runVarintReaders(r *hk.Run, rng *hk.Rand) {
	wrappers := map[string]func(b []byte) io.Reader{
		"dataerr":  func(b []byte) io.Reader { return iotest.DataErrReader(bytes.NewReader(b)) }, // last byte comes with io.EOF
		"onebyte":  func(b []byte) io.Reader { return oneByteReader{bytes.NewReader(b)} },
		"half":     func(b []byte) io.Reader { return iotest.HalfReader(bytes.NewReader(b)) },
		"dataerr1": func(b []byte) io.Reader { return iotest.DataErrReader(oneByteReader{bytes.NewReader(b)}) },
	}
	n := r.Scale(1500, 60000)
	for i := 0; i < n; i++ {
		v := genVarintValue(rng) & (1<<62 - 1)
		enc := viAny(rng, v)
		tail := rng.Bytes(rng.Intn(3))
		in := append(append([]byte{}, enc...), tail...)
		if rng.Chance(15) {
			in = in[:rng.Intn(len(in)+1)]
		}
		for _, name := range sortedKeys(wrappers) {
			fr, rr := fvi.NewReader(wrappers[name](in)), rvi.NewReader(wrappers[name](in))
			fv, ferr := fvi.Read(fr)
			rv, rerr := rvi.Read(rr)
			frest, _ := io.ReadAll(fr)
			rrest, _ := io.ReadAll(rr)
			desc := map[string]interface{}{"kind": "varint-reader", "reader": name, "bytes": fmt.Sprintf("%x", in)}
			r.Count("varint.reader." + name)
			if fv != rv || errName(ferr) != errName(rerr) || !bytes.Equal(frest, rrest) {
				r.Fail(hk.Failure{Sig: "varint:newreader:" + name, What: "quicvarint.Read through NewReader(io.Reader) differs from quic-go (value, error or bytes left)", Input: desc,
					Got: fmt.Sprint(fv, errName(ferr), frest), Want: fmt.Sprint(rv, errName(rerr), rrest)})
			}
			// and against the bytes.Reader path, which the model covers
			bv, berr := fvi.Read(bytes.NewReader(in))
			if (ferr == nil) != (berr == nil) || (ferr == nil && fv != bv) {
				r.Fail(hk.Failure{Sig: "varint:newreader-vs-bytesreader:" + name, What: "quicvarint.Read depends on how the reader delivers its bytes", Input: desc, Got: fmt.Sprint(fv, errName(ferr)), Want: fmt.Sprint(bv, errName(berr))})
			}
			r.Add(hk.Case{Desc: desc}, "vr|"+name+"|"+string(in), true)
		}
		// ParseNext over the same kinds of readers: a frame header whose last byte carries the FIN
		if i%3 == 0 {
			hdr := append(viAny(rng, uint64(rng.Intn(2))), viAny(rng, v)...)
			for _, name := range []string{"dataerr", "dataerr1"} {
				ff, _, ferr := fh3VerifParseNext(wrappers[name](hdr))
				rf, _, rerr := refh3ParseNext(wrappers[name](hdr))
				if ff != rf || h3ErrName(ferr) != h3ErrName(rerr) || ferr != nil {
					r.Fail(hk.Failure{Sig: "h3:parsenext-fin-with-last-byte:" + name, What: "ParseNext on a stream whose last header byte arrives with io.EOF", Input: map[string]interface{}{"bytes": fmt.Sprintf("%x", hdr)},
						Got: fmt.Sprint(ff, h3ErrName(ferr)), Want: fmt.Sprint(rf, h3ErrName(rerr))})
				}
				r.Count("h3.next.fin-with-last-byte")
			}
		}
	}
	_ = errors.New
}
