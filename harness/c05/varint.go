package main

import (
	"bytes"
	"errors"
	"fmt"
	"io"

	fvi "github.com/imroc/req/v3/internal/quic-go/quicvarint"
	"github.com/imroc/req/v3/verifharness/hk"
	rvi "github.com/quic-go/quic-go/quicvarint"
)

// caught runs f, reporting whether it panicked.
func caught(f func()) (panicked bool) {
	defer func() {
		if recover() != nil {
			panicked = true
		}
	}()
	f()
	return false
}

type viParse struct {
	V   uint64
	N   int
	Err string // "", "EOF", "UnexpectedEOF", other
}

func errName(err error) string {
	switch {
	case err == nil:
		return ""
	case errors.Is(err, io.ErrUnexpectedEOF):
		return "UnexpectedEOF"
	case errors.Is(err, io.EOF):
		return "EOF"
	}
	return "other:" + err.Error()
}

func (p viParse) coq() string {
	switch p.Err {
	case "":
		return fmt.Sprintf("(ViOk %s %s)", hk.CoqN(p.V), hk.CoqN(uint64(p.N)))
	case "EOF":
		return "ViEOF"
	case "UnexpectedEOF":
		return "ViUnexpectedEOF"
	}
	return "ViBAD" // does not exist in the model: makes the shard fail to compile, on purpose
}

func optBytes(ok bool, b []byte) string { return hk.CoqOpt(ok, hk.CoqBytes(b)) }

var viBoundaries = []uint64{0, 1, 62, 63, 64, 65, 255, 256, 16382, 16383, 16384, 16385, 65535, 65536,
	1<<30 - 2, 1<<30 - 1, 1 << 30, 1<<30 + 1, 1<<32 - 1, 1 << 32, 1<<62 - 2, 1<<62 - 1,
	1 << 62, 1<<62 + 1, 1<<63 - 1, 1 << 63, 1<<64 - 1}

func genVarintValue(rng *hk.Rand) uint64 {
	switch rng.Intn(10) {
	case 0:
		return hk.Pick(rng, viBoundaries)
	case 1:
		return rng.U64() & 63
	case 2, 3:
		return rng.U64() & 16383
	case 4, 5:
		return rng.U64() & (1<<30 - 1)
	case 6, 7, 8:
		return rng.U64() & (1<<62 - 1)
	default:
		if rng.Chance(30) {
			return rng.U64() // mostly >= 2^62: panic branch
		}
		// around a boundary
		b := hk.Pick(rng, viBoundaries)
		d := uint64(rng.Intn(5))
		if rng.Bool() {
			return b + d
		}
		return b - d
	}
}

// varintEnc: Len / Append of one value, fork vs reference vs (later) model; decode of what the
// fork wrote with the reference decoder and vice versa.
func varintEnc(r *hk.Run, v uint64, model bool) {
	var fl, rl int
	var fe, re []byte
	prefix := []byte{0xAA, 0x55} // Append must only append
	fpl := caught(func() { fl = fvi.Len(v) })
	rpl := caught(func() { rl = rvi.Len(v) })
	fpe := caught(func() { fe = fvi.Append(append([]byte{}, prefix...), v) })
	rpe := caught(func() { re = rvi.Append(append([]byte{}, prefix...), v) })
	in := map[string]interface{}{"kind": "varint-enc", "v": fmt.Sprint(v)}
	class := "ok"
	if v > 1<<62-1 {
		class = "oob"
	}
	r.Count("varint.enc." + class)
	if fpl != rpl || fl != rl {
		r.Fail(hk.Failure{Sig: "varint:len:" + class, What: "quicvarint.Len differs from quic-go", Input: in, Got: fmt.Sprint(fl, fpl), Want: fmt.Sprint(rl, rpl)})
	}
	if fpe != rpe || !bytes.Equal(fe, re) {
		r.Fail(hk.Failure{Sig: "varint:append:" + class, What: "quicvarint.Append differs from quic-go (bytes or panic)", Input: in, Got: fmt.Sprintf("%x %v", fe, fpe), Want: fmt.Sprintf("%x %v", re, rpe)})
	}
	if !fpe {
		if !bytes.HasPrefix(fe, prefix) || len(fe)-len(prefix) != fl {
			r.Fail(hk.Failure{Sig: "varint:append-shape:" + class, What: "Append did not append exactly Len(v) bytes", Input: in, Got: fmt.Sprintf("%x", fe)})
		}
		fe = fe[len(prefix):]
		// what the fork encodes decodes in the reference decoder to exactly v (both APIs)
		rest := []byte{0x01, 0xff}
		buf := append(append([]byte{}, fe...), rest...)
		pv, pn, perr := rvi.Parse(buf)
		rd := bytes.NewReader(buf)
		rv, rerr := rvi.Read(rd)
		if perr != nil || pv != v || pn != len(fe) || rerr != nil || rv != v || rd.Len() != len(rest) {
			r.Fail(hk.Failure{Sig: "varint:fork-enc-ref-dec:" + class, What: "reference decoder does not return the encoded value for the fork's encoding", Input: in, Got: fmt.Sprint(pv, pn, perr, rv, rerr)})
		}
		// and the other direction: the reference's encoding in the fork's decoder
		if !rpe {
			buf2 := append(append([]byte{}, re[len(prefix):]...), rest...)
			pv, pn, perr := fvi.Parse(buf2)
			rd := bytes.NewReader(buf2)
			rv, rerr := fvi.Read(rd)
			if perr != nil || pv != v || pn != len(buf2)-len(rest) || rerr != nil || rv != v || rd.Len() != len(rest) {
				r.Fail(hk.Failure{Sig: "varint:ref-enc-fork-dec:" + class, What: "fork decoder does not return the value the reference encoded", Input: in, Got: fmt.Sprint(pv, pn, perr, rv, rerr)})
			}
		}
	}
	c := hk.Case{Desc: in}
	if model {
		c.Coq = fmt.Sprintf("VarintEnc %s %s %s", hk.CoqN(v), hk.CoqOpt(!fpl, hk.CoqN(uint64(fl))), optBytes(!fpe, fe))
	}
	r.Add(c, fmt.Sprint("ve|", v), v > 63)
}

func varintEncLen(r *hk.Run, v uint64, length int, model bool) {
	var fe, re []byte
	fp := caught(func() { fe = fvi.AppendWithLen(nil, v, length) })
	rp := caught(func() { re = rvi.AppendWithLen(nil, v, length) })
	in := map[string]interface{}{"kind": "varint-enclen", "v": fmt.Sprint(v), "length": length}
	sig := fmt.Sprintf("len%d", length)
	r.Count("varint.enclen." + sig)
	if fp != rp || !bytes.Equal(fe, re) {
		r.Fail(hk.Failure{Sig: "varint:appendwithlen:" + sig, What: "quicvarint.AppendWithLen differs from quic-go", Input: in, Got: fmt.Sprintf("%x %v", fe, fp), Want: fmt.Sprintf("%x %v", re, rp)})
	}
	if !fp {
		pv, pn, perr := rvi.Parse(fe)
		if perr != nil || pv != v || pn != length || len(fe) != length {
			r.Fail(hk.Failure{Sig: "varint:fork-enclen-ref-dec:" + sig, What: "reference decoder does not return the value for the fork's fixed-length encoding", Input: in, Got: fmt.Sprint(pv, pn, perr)})
		}
	}
	c := hk.Case{Desc: in}
	if model {
		c.Coq = fmt.Sprintf("VarintEncLen %s %s %s", hk.CoqN(v), hk.CoqN(uint64(int64(length))&0xffff), optBytes(!fp, fe))
	}
	r.Add(c, fmt.Sprint("vl|", v, "|", length), true)
}

func viDecode(parse func([]byte) (uint64, int, error), read func(io.ByteReader) (uint64, error), b []byte) (viParse, bool, uint64, int) {
	v, n, err := parse(b)
	p := viParse{v, n, errName(err)}
	rd := bytes.NewReader(b)
	rv, rerr := read(rd)
	return p, rerr == nil, rv, rd.Len()
}

func varintDec(r *hk.Run, b []byte, tag string, model bool) {
	fp, fok, frv, frest := viDecode(fvi.Parse, fvi.Read, b)
	rp, rok, rrv, rrest := viDecode(rvi.Parse, rvi.Read, b)
	in := map[string]interface{}{"kind": "varint-dec", "bytes": fmt.Sprintf("%x", b)}
	r.Count("varint.dec." + tag)
	if fp != rp {
		r.Fail(hk.Failure{Sig: "varint:parse:" + tag, What: "quicvarint.Parse differs from quic-go", Input: in, Got: fp, Want: rp})
	}
	if fok != rok || frv != rrv || frest != rrest {
		r.Fail(hk.Failure{Sig: "varint:read:" + tag, What: "quicvarint.Read differs from quic-go", Input: in, Got: fmt.Sprint(fok, frv, frest), Want: fmt.Sprint(rok, rrv, rrest)})
	}
	// Parse and Read agree with each other on the value and the consumption
	if (fp.Err == "") != fok || (fok && (fp.V != frv || len(b)-frest != fp.N)) {
		r.Fail(hk.Failure{Sig: "varint:parse-vs-read:" + tag, What: "Parse and Read disagree", Input: in, Got: fmt.Sprint(fp, fok, frv, frest)})
	}
	c := hk.Case{Desc: in}
	if model {
		rd := "None"
		if fok {
			rd = "(Some " + hk.CoqPair(hk.CoqN(frv), hk.CoqBytes(b[len(b)-frest:])) + ")"
		}
		c.Coq = fmt.Sprintf("VarintDec %s %s %s", hk.CoqBytes(b), fp.coq(), rd)
	}
	r.Add(c, "vd|"+string(b), tag != "min1")
}

func runVarints(r *hk.Run, rng *hk.Rand) {
	// boundaries, each with every target length and every truncation of every form
	for _, v := range viBoundaries {
		varintEnc(r, v, true)
		for _, l := range []int{1, 2, 4, 8, 0, 3, 16, -1} {
			varintEncLen(r, v, l, true)
		}
		if v <= 1<<62-1 {
			for _, l := range []int{1, 2, 4, 8} {
				if fvi.Len(v) > l {
					continue
				}
				full := fvi.AppendWithLen(nil, v, l)
				tag := "nonminimal"
				if l == fvi.Len(v) {
					tag = fmt.Sprintf("min%d", l)
				}
				varintDec(r, append(append([]byte{}, full...), rng.Bytes(rng.Intn(3))...), tag, true)
				for k := 0; k < l; k++ {
					varintDec(r, full[:k], "truncated", true)
				}
			}
		}
	}
	// all 256 first bytes alone and followed by 0xff filler of every length 0..8
	for fb := 0; fb < 256; fb++ {
		for _, n := range []int{0, 1, 3, 7} {
			b := append([]byte{byte(fb)}, bytes.Repeat([]byte{0xff}, n)...)
			varintDec(r, b, "firstbyte", true)
		}
	}
	// random values (model on a sample; fork-vs-reference on all)
	n := r.Scale(20000, 1000000)
	modelEvery := n / r.Scale(600, 6000)
	for i := 0; i < n; i++ {
		m := i%modelEvery == 0
		v := genVarintValue(rng)
		varintEnc(r, v, m)
		varintEncLen(r, v, hk.Pick(rng, []int{1, 2, 4, 8, 8, 4, 2, 5}), m)
		// random bytes: any first byte, random tail, random truncation
		l := 1 << rng.Intn(4)
		b := rng.Bytes(l + rng.Intn(3))
		b[0] = b[0]&0x3f | byte(rng.Intn(4))<<6
		if rng.Chance(25) {
			b = b[:rng.Intn(len(b)+1)]
		}
		varintDec(r, b, "random", m)
	}
}
