package main

// C05 - HTTP/2 and HTTP/3 codecs agree with their upstream reference codecs.
// Everything runs in-process (no network).  Three-way comparison wherever a reference exists:
// fork (github.com/imroc/req/v3/internal/...) vs upstream (golang.org/x/net/http2,
// github.com/quic-go/quic-go, github.com/quic-go/qpack from the module cache) is the Go oracle;
// the fork's observations are re-evaluated by the Coq model (Model/C05Run.v).

import (
	"github.com/imroc/req/v3/verifharness/hk"
)

func main() {
	hk.Main("C05", runC05, map[string]hk.Gosyncer{
		"quicvarint": syncVarintConsts,
		"h2consts":   syncH2Consts,
		"h3consts":   syncH3Consts,
	})
}

func runC05(r *hk.Run) {
	r.Header = "From ReqV Require Import Model.C05Run."
	r.CaseType = "c05_case"
	r.CheckFn = "c05_check"
	r.Rule = "QUIC varints: every length boundary, random values of every size class, every non-minimal form, every truncation. Non-trivial: value > 63 or non-minimal/truncated encoding. Distinct by canonical input."
	rng := hk.NewRand(r.Seed)
	runVarints(r, rng.Fork())
	runH2Read(r, rng.Fork())
	runH2Write(r, rng.Fork())
	runH2Meta(r, rng.Fork())
	runH2MetaSeq(r, rng.Fork())
	runVarintReaders(r, rng.Fork())
	runH3Frames(r, rng.Fork())
	runH3Fields(r, rng.Fork())
	runEncoders(r, rng.Fork())
	runRequestWriter(r, rng.Fork())
	runH2EncoderSeq(r, rng.Fork())
	runH2Conn(r, rng.Fork())
	runH3Responses(r, rng.Fork())
	runHeaderMap(r, rng.Fork())
}
