package main

// "Whatever the client encodes decodes in the reference decoder to exactly what was encoded":
// request field sections written by the fork's HTTP/2 (HPACK, ClientConn.encodeHeaders) and HTTP/3
// (QPACK, requestWriter.writeHeaders) request writers, decoded by golang.org/x/net/http2/hpack,
// x/net's Framer (ReadMetaHeaders), github.com/quic-go/qpack and quic-go's requestFromHeaders, and
// compared with the field list an oracle derives from the request (RFC 9113 §8.3 / RFC 9114 §4.3.1).
// Go-only (no model: the HPACK/QPACK bit formats are not modelled).

import (
	"bytes"
	"fmt"
	"io"
	"net/http"
	"sort"
	"strconv"
	"strings"
	"sync"
	"time"

	fh2 "github.com/imroc/req/v3/internal/http2"
	fh3 "github.com/imroc/req/v3/internal/http3"
	"github.com/imroc/req/v3/verifharness/c05/refh3"
	"github.com/imroc/req/v3/verifharness/hk"
	"github.com/quic-go/qpack"
	xh2 "golang.org/x/net/http2"
	"golang.org/x/net/http2/hpack"
)

var encNames = []string{"Accept", "X-Custom", "X-A", "Content-Type", "Authorization", "Accept-Language", "X-B-C", "Cache-Control", "Te", "If-None-Match", "X-1_2.3", "Referer"}
var encDropped = []string{"Connection", "Keep-Alive", "Proxy-Connection", "Transfer-Encoding", "Upgrade", "Host", "Content-Length"}
var encValues = []string{"", "a", "text/html; q=0.8", "x y", "a\tb", "caf\xc3\xa9", "Bearer abc.def", "trailers", "0", strings.Repeat("z", 300), "UPPER", "a,b", "\"q\""}

func multiset(fs [][2]string) []string {
	out := make([]string, len(fs))
	for i, f := range fs {
		out[i] = f[0] + "\x00" + f[1]
	}
	sort.Strings(out)
	return out
}

func sendsContentLength(method string, cl int64) bool { // RFC 9110 §8.6 as net/http applies it
	switch {
	case cl > 0:
		return true
	case cl < 0:
		return false
	}
	return method == "POST" || method == "PUT" || method == "PATCH"
}

func runEncoders(r *hk.Run, rng *hk.Rand) {
	n := r.Scale(2500, 100000)
	for i := 0; i < n; i++ {
		method := hk.Pick(rng, []string{"GET", "GET", "POST", "HEAD", "PUT", "DELETE", "PATCH", "OPTIONS"})
		host := hk.Pick(rng, []string{"example.com", "example.com:8443", "a.b.example", "127.0.0.1:443", "[::1]:8443"})
		path := hk.Pick(rng, []string{"/", "/a/b", "/a%20b", "/x?y=z&w=1", "/?q=%C3%A9", "/a;b=c", "/*", "//double"})
		var body io.Reader
		bodyLen := int64(0)
		if (method == "POST" || method == "PUT" || method == "PATCH") && rng.Chance(70) {
			bodyLen = int64(rng.Range(1, 40))
			body = bytes.NewReader(make([]byte, bodyLen))
		}
		req, err := http.NewRequest(method, "https://"+host+path, body)
		if err != nil {
			continue
		}
		req.Header.Set("User-Agent", hk.Pick(rng, []string{"ua/1.0", "Mozilla/5.0 (X11)"}))
		var want [][2]string
		for j, k := 0, rng.Intn(6); j < k; j++ {
			name := hk.Pick(rng, encNames)
			v := hk.Pick(rng, encValues)
			if name == "Te" {
				v = "trailers"
			}
			req.Header.Add(name, v)
		}
		if rng.Chance(35) {
			req.Header.Add(hk.Pick(rng, encDropped), hk.Pick(rng, []string{"close", "keep-alive", "h2c", "5", "other.example"}))
		}
		authority := host
		if rng.Chance(20) {
			req.Host = "override.example:444"
			authority = req.Host
		}
		for k, vv := range req.Header {
			drop := false
			for _, d := range encDropped {
				if strings.EqualFold(k, d) {
					drop = true
				}
			}
			if drop {
				continue
			}
			for _, v := range vv {
				want = append(want, [2]string{strings.ToLower(k), v})
			}
		}
		gzip := rng.Bool()
		if gzip {
			want = append(want, [2]string{"accept-encoding", "gzip"})
		}
		pseudo := [][2]string{{":authority", authority}, {":method", method}, {":path", req.URL.RequestURI()}, {":scheme", "https"}}
		desc := map[string]interface{}{"kind": "encode-request", "method": method, "url": req.URL.String(), "host": req.Host, "header": fmt.Sprint(req.Header), "gzip": gzip, "body_len": bodyLen}

		// ---- HTTP/2: HPACK ----
		cl2 := bodyLen
		if body == nil {
			cl2 = 0
		}
		want2 := append(append([][2]string{}, pseudo...), want...)
		if sendsContentLength(method, cl2) {
			want2 = append(want2, [2]string{"content-length", strconv.FormatInt(cl2, 10)})
		}
		block, err := fh2.VerifEncodeHeaders(req, gzip, "", cl2, 1<<20)
		r.Count("enc.h2")
		if err != nil {
			r.Fail(hk.Failure{Sig: "enc:h2:error", What: "encodeHeaders refused a valid request", Input: desc, Got: err.Error()})
		} else {
			fields, derr := hpack.NewDecoder(4096, nil).DecodeFull(block)
			var got [][2]string
			for _, f := range fields {
				got = append(got, [2]string{f.Name, f.Value})
			}
			if derr != nil || fmt.Sprint(multiset(got)) != fmt.Sprint(multiset(want2)) {
				r.Fail(hk.Failure{Sig: "enc:h2:hpack-decode", What: "x/net hpack does not decode the fork's request header block to the fields of the request", Input: desc, Got: fmt.Sprintf("%q %v", got, derr), Want: fmt.Sprintf("%q", want2)})
			}
			// pseudo-header fields first, all names lower-case: x/net's framer (server view) takes it
			var wire bytes.Buffer
			xh2.NewFramer(&wire, nil).WriteHeaders(xh2.HeadersFrameParam{StreamID: 1, BlockFragment: block, EndHeaders: true, EndStream: body == nil})
			fr := xh2.NewFramer(io.Discard, &wire)
			fr.ReadMetaHeaders = hpack.NewDecoder(4096, nil)
			f, rerr := fr.ReadFrame()
			mh, ok := f.(*xh2.MetaHeadersFrame)
			if rerr != nil || !ok || mh.Truncated || len(mh.Fields) != len(fields) || mh.PseudoValue("method") != method || mh.PseudoValue("path") != req.URL.RequestURI() || mh.PseudoValue("authority") != authority {
				r.Fail(hk.Failure{Sig: "enc:h2:meta-frame", What: "x/net's framer does not accept the fork's request header block as a well-formed request", Input: desc, Got: fmt.Sprint(f, rerr)})
			}
		}

		// ---- HTTP/3: frame header + QPACK ----
		want3 := append(append([][2]string{}, pseudo...), want...)
		if sendsContentLength(method, cl2) {
			want3 = append(want3, [2]string{"content-length", strconv.FormatInt(cl2, 10)})
		}
		out, err := fh3.VerifWriteRequestHeaders(req, gzip)
		r.Count("enc.h3")
		if err != nil {
			r.Fail(hk.Failure{Sig: "enc:h3:error", What: "writeHeaders refused a valid request", Input: desc, Got: err.Error()})
		} else {
			ro := refNext(out)
			if ro.Err != "" || ro.Kind != "headers" || int(ro.Length) != ro.Left {
				r.Fail(hk.Failure{Sig: "enc:h3:frame-header", What: "quic-go does not read the HEADERS frame header the fork wrote (type / length = size of the field section)", Input: desc, Got: ro.key()})
			} else {
				fields, derr := qpack.NewDecoder(nil).DecodeFull(out[len(out)-ro.Left:])
				var got [][2]string
				for _, f := range fields {
					got = append(got, [2]string{f.Name, f.Value})
				}
				if derr != nil || fmt.Sprint(multiset(got)) != fmt.Sprint(multiset(want3)) {
					r.Fail(hk.Failure{Sig: "enc:h3:qpack-decode", What: "quic-go/qpack does not decode the fork's request field section to the fields of the request", Input: desc, Got: fmt.Sprintf("%q %v", got, derr), Want: fmt.Sprintf("%q", want3)})
				}
				if v, why := rfcVerdict("request", fields); v == mustReject {
					r.Fail(hk.Failure{Sig: "enc:h3:malformed-request:" + why, What: "the fork wrote a request field section RFC 9114 §4.2-4.3 calls malformed", Input: desc, Got: fmt.Sprintf("%q", got)})
				}
				rq, qerr := refh3.RequestFromHeaders(fields)
				if qerr != nil || rq.Method != method || rq.Host != authority || rq.RequestURI != req.URL.RequestURI() {
					r.Fail(hk.Failure{Sig: "enc:h3:request-from-headers", What: "quic-go's server-side reading of the fork's request differs from the request", Input: desc, Got: fmt.Sprint(rq, qerr)})
				}
			}
		}
		r.Add(hk.Case{Desc: desc}, fmt.Sprint("enc|", desc), true)
	}
}

// headermap.go: lowerHeader / canonicalHeader (the cached tables must agree with the general rule:
// a wrong table entry would rename a header on the wire / in the response map), and
// validWireHeaderFieldName, against net/http's CanonicalHeaderKey, strings.ToLower and the token
// grammar.  gosync-free: the 57-entry table is walked through its own keys.
func runHeaderMap(r *hk.Run, rng *hk.Rand) {
	names := []string{"accept", "accept-charset", "accept-encoding", "accept-language", "accept-ranges", "access-control-allow-credentials",
		"access-control-allow-headers", "access-control-allow-methods", "access-control-allow-origin", "access-control-expose-headers",
		"access-control-max-age", "access-control-request-headers", "access-control-request-method", "age", "allow", "authorization",
		"cache-control", "content-disposition", "content-encoding", "content-language", "content-length", "content-location", "content-range",
		"content-type", "cookie", "date", "etag", "expect", "expires", "from", "host", "if-match", "if-modified-since", "if-none-match",
		"if-range", "if-unmodified-since", "last-modified", "link", "location", "max-forwards", "origin", "proxy-authenticate",
		"proxy-authorization", "range", "referer", "refresh", "retry-after", "server", "set-cookie", "strict-transport-security", "trailer",
		"transfer-encoding", "user-agent", "vary", "via", "www-authenticate", "x-forwarded-for", "x-forwarded-proto",
		"x-custom", "X-Custom", "x-UPPER", "a", "", "x y", "x\x00", "caf\xc3\xa9", "\xff", "x_y", "x.y", "9", "-", "x--y", "X-a-B", "éa", "x\x7f", "x\t"}
	for i := 0; i < r.Scale(400, 20000); i++ {
		names = append(names, string(rng.Bytes(rng.Range(1, 6))))
		b := []byte(hk.Pick(rng, names[:58]))
		if len(b) > 0 {
			j := rng.Intn(len(b))
			b[j] ^= 0x20
			names = append(names, string(b))
		}
	}
	isPrint := func(s string) bool {
		for i := 0; i < len(s); i++ {
			if s[i] < ' ' || s[i] > '~' {
				return false
			}
		}
		return true
	}
	for _, n := range names {
		for _, v := range []string{n, http.CanonicalHeaderKey(n)} {
			desc := map[string]interface{}{"kind": "headermap", "name": fmt.Sprintf("%q", v)}
			r.Count("h2.headermap")
			lo, ok := fh2.VerifLowerHeader(v)
			wantLo, wantOK := "", isPrint(v)
			if wantOK {
				wantLo = strings.ToLower(v)
			}
			if lo != wantLo || ok != wantOK {
				r.Fail(hk.Failure{Sig: "h2:headermap:lower", What: "lowerHeader is not ASCII lower-casing of a printable name", Input: desc, Got: fmt.Sprint(lo, ok), Want: fmt.Sprint(wantLo, wantOK)})
			}
			if c := fh2.VerifCanonicalHeader(v); c != http.CanonicalHeaderKey(v) {
				r.Fail(hk.Failure{Sig: "h2:headermap:canonical", What: "canonicalHeader differs from http.CanonicalHeaderKey", Input: desc, Got: c, Want: http.CanonicalHeaderKey(v)})
			}
			wantWire := v != ""
			for i := 0; i < len(v); i++ {
				if !rfcTokenChar(v[i]) || (v[i] >= 'A' && v[i] <= 'Z') {
					wantWire = false
				}
			}
			if w := fh2.VerifValidWireHeaderFieldName(v); w != wantWire {
				r.Fail(hk.Failure{Sig: "h2:headermap:wire-name", What: "validWireHeaderFieldName is not 'non-empty lower-case token'", Input: desc, Got: w, Want: wantWire})
			}
			r.Add(hk.Case{Desc: desc}, "hm|"+v, true)
		}
	}
}

// ---------- one request writer per connection: sequences and interleavings ----------

// gateWriter parks inside its k-th Write (a stream waiting for flow-control credit) until released.
type gateWriter struct {
	mu      sync.Mutex
	b       []byte
	k, n    int
	entered chan struct{}
	release chan struct{}
}

func (g *gateWriter) Write(p []byte) (int, error) {
	g.mu.Lock()
	g.n++
	park := g.n == g.k
	g.mu.Unlock()
	if park {
		close(g.entered)
		<-g.release
	}
	g.mu.Lock()
	g.b = append(g.b, p...)
	g.mu.Unlock()
	return len(p), nil
}

type collector struct{ b []byte }

func (c *collector) Write(p []byte) (int, error) { c.b = append(c.b, p...); return len(p), nil }

// sizes around the growth steps of a bytes.Buffer / typical "keep or drop" thresholds
var h3BigSizes = []int{2047, 4095, 4096, 4097, 8192, 16383, 16384, 16385, 20000, 40000, 65535, 65536, 70000}

func bigValue(rng *hk.Rand, n int) string {
	b := make([]byte, n)
	for i := range b {
		b[i] = "abcdefghijklmnopqrstuvwxyzABCDEFGHIJKLMNOPQRSTUVWXYZ0123456789-_=~"[rng.Intn(66)]
	}
	return string(b)
}

func capStr(s string, n int) string {
	if len(s) > n {
		return s[:n] + "..."
	}
	return s
}

func writerRequest(rng *hk.Rand, tag string) *http.Request {
	method := hk.Pick(rng, []string{"GET", "POST", "HEAD", "PUT"})
	req, _ := http.NewRequest(method, "https://"+tag+".example"+hk.Pick(rng, []string{"/", "/a/b?c=d", "/" + tag}), nil)
	req.Header.Set("User-Agent", "ua-"+tag)
	for j, k := 0, rng.Intn(5); j < k; j++ {
		req.Header.Add(hk.Pick(rng, encNames[:8]), hk.Pick(rng, encValues[:9])+tag)
	}
	return req
}

// decodeHeadersFrame: reference varint reader + reference QPACK decoder; returns the field section
// and the rendered fields.
func decodeHeadersFrame(wire []byte) (section []byte, fields string, err error) {
	ro := refNext(wire)
	if ro.Err != "" || ro.Kind != "headers" {
		return nil, "", fmt.Errorf("not a HEADERS frame: %s", ro.key())
	}
	if int(ro.Length) != ro.Left {
		return nil, "", fmt.Errorf("HEADERS frame announces %d bytes, %d follow", ro.Length, ro.Left)
	}
	section = wire[len(wire)-ro.Left:]
	hfs, derr := qpack.NewDecoder(nil).DecodeFull(section)
	if derr != nil {
		return section, "", fmt.Errorf("qpack: %v", derr)
	}
	var sb strings.Builder
	for _, hf := range hfs {
		fmt.Fprintf(&sb, "%s=%s;", hf.Name, hf.Value)
	}
	return section, sb.String(), nil
}

func runRequestWriter(r *hk.Run, rng *hk.Rand) {
	fresh := func(req *http.Request) ([]byte, []byte, string) {
		out, err := fh3.VerifWriteRequestHeaders(req, false)
		if err != nil {
			return nil, nil, ""
		}
		sec, fields, derr := decodeHeadersFrame(out)
		if derr != nil {
			return nil, nil, ""
		}
		return out, sec, fields
	}
	// (the regular fields come out in Go's map order: compared as multisets; the section handed to
	// the model is the one actually on the wire when it decodes, so the model checks the framing)
	sortFields := func(f string) string {
		xs := strings.Split(f, ";")
		sort.Strings(xs)
		return strings.Join(xs, ";")
	}
	check := func(sig string, desc map[string]interface{}, who string, got []byte, req *http.Request) []byte {
		want, sec, wantFields := fresh(req)
		if want == nil {
			return nil
		}
		gotSec, gotFields, derr := decodeHeadersFrame(got)
		if derr != nil || sortFields(gotFields) != sortFields(wantFields) || len(got) != len(want) {
			r.Fail(hk.Failure{Sig: sig, What: "a request's HEADERS frame written through the connection's shared request writer does not decode (reference varint reader + quic-go/qpack) to that request's fields", Input: desc,
				Got: fmt.Sprintf("request %s: %x  fields %q err %v", who, capBytes(got, 200), gotFields, derr), Want: fmt.Sprintf("%x  fields %q", capBytes(want, 200), wantFields)})
			return sec
		}
		return gotSec
	}
	// (1) sequences of 2..6 requests, one after the other, on one writer: nothing of a request
	//     stays behind in the shared buffer / encoder
	for i := 0; i < r.Scale(300, 20000); i++ {
		w := fh3.VerifNewRequestWriter()
		k := rng.Range(2, 6)
		for j := 0; j < k; j++ {
			req := writerRequest(rng, fmt.Sprintf("s%d-%d", i, j))
			var c collector
			if rng.Chance(12) { // refused before anything reaches the shared buffer: the next request is unaffected
				if rng.Bool() {
					req.Header.Add("X-Bad", "a\nb")
				} else {
					req.Header["X Bad"] = []string{"v"}
				}
				if err := w.WriteHeaders(&c, req, false); err == nil || len(c.b) != 0 {
					r.Fail(hk.Failure{Sig: "enc:h3:writer-seq:invalid-accepted", What: "a request with an invalid header field was written to the stream", Input: map[string]interface{}{"header": fmt.Sprint(req.Header)}, Got: fmt.Sprintf("%x %v", capBytes(c.b, 64), err)})
				}
				r.Count("enc.h3.writer.seq.refused-invalid")
				continue
			}
			if rng.Chance(15) { // an unusually large field section (buffer growth boundaries) - and what follows it
				n := hk.Pick(rng, h3BigSizes)
				req.Header.Set(hk.Pick(rng, []string{"Cookie", "X-Big"}), bigValue(rng, n))
				r.Count("enc.h3.writer.seq.big")
			}
			err := w.WriteHeaders(&c, req, false)
			desc := map[string]interface{}{"kind": "h3-writer-seq", "position": j, "url": req.URL.String(), "header": capStr(fmt.Sprint(req.Header), 300), "frame_len": len(c.b)}
			r.Count("enc.h3.writer.seq")
			if err != nil {
				r.Fail(hk.Failure{Sig: "enc:h3:writer-seq:error", What: "writeHeaders refused a valid request", Input: desc, Got: err.Error()})
				continue
			}
			sec := check("enc:h3:writer-seq", desc, fmt.Sprint(j), c.b, req)
			cs := hk.Case{Desc: desc}
			if sec != nil && (i < 40 || j == k-1) && len(c.b) < 3000 {
				cs.Coq = fmt.Sprintf("H3WriteFrame %s %s", hk.CoqBytes(sec), hk.CoqBytes(c.b))
			}
			r.Add(cs, fmt.Sprint("h3ws|", i, j, req.URL, req.Header), true)
		}
	}
	// (2) interleavings: request A is parked inside its k-th Write to the stream (k = 1: the frame
	//     header, k = 2: the field section) while requests B (and C) are started on the same writer.
	//     They have to wait for A or at least leave every frame intact; B gets 40 ms to try (if it is
	//     rightly blocked, the wait simply expires - no assertion depends on the duration).
	for i := 0; i < r.Scale(24, 400); i++ {
		k := 1 + i%2
		third := i%4 >= 2
		w := fh3.VerifNewRequestWriter()
		reqA, reqB, reqC := writerRequest(rng, fmt.Sprintf("a%d", i)), writerRequest(rng, fmt.Sprintf("b%d", i)), writerRequest(rng, fmt.Sprintf("c%d", i))
		gate := &gateWriter{k: k, entered: make(chan struct{}), release: make(chan struct{})}
		var outB, outC collector
		errA, errB, errC := make(chan error, 1), make(chan error, 1), make(chan error, 1)
		desc := map[string]interface{}{"kind": "h3-writer-interleaved", "parked_in_write": k, "three": third, "a": reqA.URL.String(), "b": reqB.URL.String()}
		r.Count(fmt.Sprintf("enc.h3.writer.interleaved.park%d", k))
		go func() { errA <- w.WriteHeaders(gate, reqA, false) }()
		select {
		case <-gate.entered:
		case <-time.After(20 * time.Second):
			r.Count("enc.h3.writer.interleaved.a-never-parked")
			close(gate.release)
			<-errA
			continue
		}
		go func() { errB <- w.WriteHeaders(&outB, reqB, false) }()
		if third {
			go func() { errC <- w.WriteHeaders(&outC, reqC, false) }()
		} else {
			errC <- nil
		}
		var eB error
		bDone := false
		select {
		case eB = <-errB:
			bDone = true
			r.Count("enc.h3.writer.interleaved.b-overtook-a")
		case <-time.After(40 * time.Millisecond):
		}
		close(gate.release)
		eA := <-errA
		if !bDone {
			eB = <-errB
		}
		eC := <-errC
		if eA != nil || eB != nil || eC != nil {
			r.Fail(hk.Failure{Sig: "enc:h3:writer-interleaved:error", What: "writeHeaders failed", Input: desc, Got: fmt.Sprint(eA, eB, eC)})
			continue
		}
		gate.mu.Lock()
		wireA := append([]byte(nil), gate.b...)
		gate.mu.Unlock()
		sig := fmt.Sprintf("enc:h3:writer-interleaved:park%d", k)
		secA := check(sig, desc, "A", wireA, reqA)
		secB := check(sig, desc, "B", outB.b, reqB)
		if third {
			check(sig, desc, "C", outC.b, reqC)
		}
		cs := hk.Case{Desc: desc}
		if secA != nil && secB != nil {
			cs.Coq = fmt.Sprintf("H3Writer %d %s %s %s %s", k, hk.CoqBytes(secA), hk.CoqBytes(secB), hk.CoqBytes(wireA), hk.CoqBytes(outB.b))
		}
		r.Add(cs, fmt.Sprint("h3wi|", i, k, third), true)
	}
}

// ---------- HTTP/2: one connection's header encoder over a sequence of requests ----------
// ClientConn.henc (HPACK dynamic table) and ClientConn.hbuf live as long as the connection: 2..7
// exchanges (request headers, request trailers) in a row through ONE encoder, every block that is
// SENT decoded by ONE reference hpack.Decoder (its dynamic table follows the encoder's) and compared
// with that exchange's fields.  Exchanges the client must REFUSE are part of the sequence at every
// position: header lists / trailer lists larger than the peer's SETTINGS_MAX_HEADER_LIST_SIZE (limit
// at size-1 / size / size+1 of some exchange), invalid field names / values.  A refused block is
// never sent, so it must leave no trace in the encoder: what follows has to decode as before.
func runH2EncoderSeq(r *hk.Run, rng *hk.Rand) {
	listSize := func(fs [][2]string) uint64 {
		n := uint64(0)
		for _, f := range fs {
			n += uint64(len(f[0]) + len(f[1]) + 32)
		}
		return n
	}
	type exch struct {
		trailers bool
		req      *http.Request
		tr       http.Header
		want     [][2]string
		invalid  bool
	}
	mkExch := func(i, j int) exch {
		tag := fmt.Sprintf("q%d-%d", i, j%3) // repeated values: served from the dynamic table
		x := exch{}
		fat := rng.Chance(30)
		if j > 0 && rng.Chance(35) {
			x.trailers = true
			x.tr = http.Header{"X-Trailer-" + tag: {"t" + tag}, "Grpc-Status": {"0"}}
			if fat {
				for f, n := 0, rng.Range(1, 4); f < n; f++ {
					x.tr.Add(fmt.Sprintf("X-Fat-%d", f), strings.Repeat("z", rng.Range(40, 160))+tag)
				}
			}
			for k, vv := range x.tr {
				for _, v := range vv {
					x.want = append(x.want, [2]string{strings.ToLower(k), v})
				}
			}
			return x
		}
		x.req = writerRequest(rng, tag)
		if fat {
			for f, n := 0, rng.Range(1, 4); f < n; f++ {
				x.req.Header.Add(fmt.Sprintf("X-Fat-%d", f), strings.Repeat("y", rng.Range(40, 160))+tag)
			}
		}
		if rng.Chance(6) { // larger than the HPACK dynamic table / the buffers: evicts everything
			x.req.Header.Set("X-Huge", bigValue(rng, hk.Pick(rng, []int{4000, 4097, 16385, 20000})))
		}
		if rng.Chance(8) { // refused before anything is encoded: invalid name / value
			x.invalid = true
			if rng.Bool() {
				x.req.Header["X Bad"] = []string{"v"}
			} else {
				x.req.Header.Add("X-Bad", "a\nb"+tag)
			}
		}
		if rng.Chance(20) { // RFC 9113 §8.2.3: the Cookie field may be split into one field per cookie-pair
			x.req.Header.Add("Cookie", hk.Pick(rng, []string{"a=1; b=2; c=" + tag, "sid=" + tag + ";theme=dark", "only=" + tag, "a=1;  b=2"}))
			if rng.Chance(30) {
				x.req.Header.Add("Cookie", "second=line; z="+tag)
			}
		}
		x.want = [][2]string{{":authority", x.req.URL.Host}, {":method", x.req.Method}, {":path", x.req.URL.RequestURI()}, {":scheme", "https"}}
		for k, vv := range x.req.Header {
			for _, v := range vv {
				if k == "Cookie" {
					for _, crumb := range strings.Split(v, ";") {
						x.want = append(x.want, [2]string{"cookie", strings.TrimLeft(crumb, " ")})
					}
					continue
				}
				x.want = append(x.want, [2]string{strings.ToLower(k), v})
			}
		}
		if sendsContentLength(x.req.Method, 0) {
			x.want = append(x.want, [2]string{"content-length", "0"})
		}
		return x
	}
	n := r.Scale(700, 30000)
	for i := 0; i < n; i++ {
		k := rng.Range(2, 7)
		xs := make([]exch, k)
		for j := range xs {
			xs[j] = mkExch(i, j)
		}
		// the peer's limit: generous, or around the size of one exchange of the sequence
		limit := uint64(1 << 20)
		if rng.Chance(75) {
			limit = uint64(int(listSize(xs[rng.Intn(k)].want)) + rng.Range(-1, 1))
		}
		enc := fh2.VerifNewHeaderEncoder(limit)
		dec := hpack.NewDecoder(4096, nil)
		var coq []string
		sawRefused := false
		for j, x := range xs {
			desc := map[string]interface{}{"kind": "h2-encoder-seq", "position": j, "peer_max_header_list_size": limit, "trailers": x.trailers, "fields": capStr(fmt.Sprintf("%q", x.want), 600), "list_size": listSize(x.want)}
			r.Count("enc.h2.seq")
			var block []byte
			var err error
			if x.trailers {
				block, err = enc.EncodeTrailers(x.tr)
			} else {
				block, err = enc.EncodeHeaders(x.req, false, "", 0)
			}
			mustRefuse := listSize(x.want) > limit
			if x.invalid {
				if err == nil {
					r.Fail(hk.Failure{Sig: "enc:h2:seq:invalid-accepted", What: "a request with an invalid header field name or value was encoded", Input: desc})
				}
				r.Count("enc.h2.seq.refused-invalid")
				sawRefused = true
				continue
			}
			if listSize(x.want) < 3000 {
				coq = append(coq, hk.CoqPair(coqStrPairs(x.want), hk.CoqBool(err != nil)))
			}
			switch {
			case mustRefuse && err == nil:
				r.Fail(hk.Failure{Sig: "enc:h2:seq:over-limit-sent", What: "a header / trailer list larger than the peer's SETTINGS_MAX_HEADER_LIST_SIZE was encoded for sending", Input: desc})
			case !mustRefuse && err != nil:
				r.Fail(hk.Failure{Sig: "enc:h2:seq:error", What: "a valid header / trailer list within the peer's limit was refused", Input: desc, Got: err.Error()})
			}
			if err != nil {
				if mustRefuse && err.Error() != "http2: request header list larger than peer's advertised limit" {
					r.Fail(hk.Failure{Sig: "enc:h2:seq:wrong-refusal", What: "an over-limit list was refused with another error", Input: desc, Got: err.Error()})
				}
				r.Count("enc.h2.seq.refused-over-limit")
				sawRefused = true
				continue // never sent: the peer's decoder does not see it
			}
			fields, derr := dec.DecodeFull(block)
			var got [][2]string
			for _, f := range fields {
				got = append(got, [2]string{f.Name, f.Value})
			}
			if derr != nil || fmt.Sprint(multiset(got)) != fmt.Sprint(multiset(x.want)) {
				sig := "enc:h2:seq:hpack-decode"
				if sawRefused {
					sig = "enc:h2:seq:hpack-decode-after-refused"
				}
				r.Fail(hk.Failure{Sig: sig, What: "the reference hpack decoder, fed every header block the connection SENT in order, does not get this exchange's fields from its block (encoder and peer dynamic tables out of step)", Input: desc, Got: capStr(fmt.Sprintf("%q %v", got, derr), 800), Want: capStr(fmt.Sprintf("%q", x.want), 800)})
				break
			}
			if sawRefused {
				r.Count("enc.h2.seq.sent-after-refused")
			}
		}
		c := hk.Case{Desc: map[string]interface{}{"kind": "h2-encoder-seq", "peer_max_header_list_size": limit, "exchanges": k}}
		if i%3 == 0 && limit < 1<<20 {
			c.Coq = fmt.Sprintf("H2EncSeq %d %s", limit, hk.CoqList(coq))
		}
		r.Add(c, fmt.Sprint("h2es|", i, limit, k), true)
	}
}
