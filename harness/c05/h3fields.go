package main

// Received HTTP/3 field sections: fork parseHeaders / parseTrailers / updateResponseFromHeaders vs
// quic-go v0.48.2 vs model, and an oracle transcribed from RFC 9114 §4.1.2, §4.2, §4.3 that decides
// independently which sections must be refused.

import (
	"fmt"
	"net/http"
	"reflect"
	"sort"
	"strings"

	fh3 "github.com/imroc/req/v3/internal/http3"
	"github.com/imroc/req/v3/verifharness/c05/refh3"
	"github.com/imroc/req/v3/verifharness/hk"
	"github.com/quic-go/qpack"
)

type fld = qpack.HeaderField

func coqFields(fs []fld) string {
	var xs []string
	for _, f := range fs {
		xs = append(xs, hk.CoqPair(hk.CoqStr(f.Name), hk.CoqStr(f.Value)))
	}
	return hk.CoqList(xs)
}

func coqHmap(h http.Header) string {
	keys := make([]string, 0, len(h))
	for k := range h {
		keys = append(keys, k)
	}
	sort.Strings(keys)
	var xs []string
	for _, k := range keys {
		xs = append(xs, hk.CoqPair(hk.CoqStr(k), hk.CoqStrList(h[k])))
	}
	return hk.CoqList(xs)
}

// class of a parseHeaders / parseTrailers / updateResponseFromHeaders error (the messages are the
// fork's; the reference must produce the identical message)
func hdErrClass(err error) string {
	s := err.Error()
	switch {
	case strings.HasPrefix(s, "header field is not lower-case: "):
		return "HNotLower"
	case strings.HasPrefix(s, "invalid header field value for "):
		return "HBadValue"
	case strings.HasPrefix(s, "received pseudo header ") && strings.HasSuffix(s, " after a regular header field"):
		return "HPseudoAfterRegular"
	case strings.HasPrefix(s, "unknown pseudo header: "):
		return "HUnknownPseudo"
	case strings.HasPrefix(s, "invalid request pseudo header: "), strings.HasPrefix(s, "invalid response pseudo header: "):
		return "HWrongPseudo"
	case strings.HasPrefix(s, "invalid header field name: "):
		return "HBadName"
	case strings.HasPrefix(s, "invalid TE header field value: "):
		return "HBadTE"
	case strings.HasPrefix(s, "contradicting content lengths ("):
		return "HContradictingCL"
	case strings.HasPrefix(s, "invalid content length: "):
		return "HInvalidCL"
	case s == "missing status field":
		return "HMissingStatus"
	case strings.HasPrefix(s, "invalid status code: "):
		return "HInvalidStatus"
	case strings.HasPrefix(s, "http3: received pseudo header in trailer: "):
		return "HPseudoInTrailer"
	}
	return "H_UNKNOWN_ERROR"
}

func coqHeader(h fh3.VerifHeader) string {
	cl := "None"
	if h.ContentLength >= 0 {
		cl = fmt.Sprintf("(Some %d)", h.ContentLength)
	}
	return fmt.Sprintf("(mkhd %s %s %s %s %s %s %s %s)", hk.CoqStr(h.Path), hk.CoqStr(h.Method), hk.CoqStr(h.Authority),
		hk.CoqStr(h.Scheme), hk.CoqStr(h.Status), hk.CoqStr(h.Protocol), cl, coqHmap(h.Headers))
}

// ---------- the RFC 9114 oracle ----------
// verdicts
const (
	mustAccept = iota
	mustReject
	either // the RFC sections in scope do not decide (recorded interpretation)
)

var rfcConnectionSpecific = map[string]bool{ // RFC 9114 §4.2 with RFC 9110 §7.6.1
	"connection": true, "keep-alive": true, "proxy-connection": true, "transfer-encoding": true, "upgrade": true}

func rfcTokenChar(c byte) bool { // RFC 9110 §5.6.2 tchar
	switch {
	case c >= '0' && c <= '9', c >= 'a' && c <= 'z', c >= 'A' && c <= 'Z':
		return true
	}
	return strings.IndexByte("!#$%&'*+-.^_`|~", c) >= 0
}

// rfcVerdict decides a received field section. kind: "request", "response", "trailer".
func rfcVerdict(kind string, fs []fld) (int, string) {
	verdict := mustAccept
	// §4.2 / §4.1.2: upper-case field names, invalid characters in names or values
	for _, f := range fs {
		name := f.Name
		if strings.HasPrefix(name, ":") {
			name = name[1:]
		}
		if f.Name == "" || (name == "" && !strings.HasPrefix(f.Name, ":")) {
			return mustReject, "empty field name"
		}
		for i := 0; i < len(name); i++ {
			if name[i] >= 'A' && name[i] <= 'Z' {
				return mustReject, "upper-case field name"
			}
			if !rfcTokenChar(name[i]) {
				return mustReject, "invalid character in field name"
			}
		}
		for i := 0; i < len(f.Value); i++ {
			c := f.Value[i]
			if c == 0x7f || (c < 0x20 && c != '\t') {
				return mustReject, "invalid character in field value"
			}
		}
	}
	// §4.3: pseudo-header fields
	seenRegular := false
	for _, f := range fs {
		if !strings.HasPrefix(f.Name, ":") {
			seenRegular = true
			continue
		}
		if kind == "trailer" {
			return mustReject, "pseudo-header field in trailer section"
		}
		if seenRegular {
			return mustReject, "pseudo-header field after regular field"
		}
		switch f.Name {
		case ":method", ":scheme", ":authority", ":path", ":protocol": // RFC 9114 §4.3.1, RFC 9220
			if kind != "request" {
				return mustReject, "request pseudo-header field in response"
			}
		case ":status": // §4.3.2
			if kind != "response" {
				return mustReject, "response pseudo-header field in request"
			}
		default:
			return mustReject, "undefined pseudo-header field"
		}
	}
	// §4.2: connection-specific fields; TE only "trailers"
	for _, f := range fs {
		if rfcConnectionSpecific[f.Name] {
			return mustReject, "connection-specific field"
		}
		if f.Name == "te" && f.Value != "trailers" {
			return mustReject, "te other than trailers"
		}
	}
	// Content-Length is outside §4.2-4.3; RFC 9110 §8.6: differing or non-numeric values are
	// invalid, identical repeats may be accepted. An empty value and a value beyond int64 are left
	// to the implementation.
	if kind != "trailer" {
		var cls []string
		for _, f := range fs {
			if f.Name == "content-length" {
				cls = append(cls, f.Value)
			}
		}
		for _, v := range cls {
			if v != cls[0] {
				return mustReject, "contradicting content-length"
			}
		}
		if len(cls) > 0 {
			v := cls[0]
			digits := v != ""
			for i := 0; i < len(v); i++ {
				if v[i] < '0' || v[i] > '9' {
					digits = false
				}
			}
			switch {
			case v == "":
				verdict = either
			case !digits:
				return mustReject, "non-numeric content-length"
			case len(strings.TrimLeft(v, "0")) > 18:
				verdict = either
			}
		}
	}
	return verdict, ""
}

// rfcResponseVerdict adds §4.3.2 (":status MUST be included") for a response header section.
func rfcResponseVerdict(fs []fld) (int, string) {
	v, why := rfcVerdict("response", fs)
	if v == mustReject {
		return v, why
	}
	status, have := "", false
	for _, f := range fs {
		if f.Name == ":status" {
			status, have = f.Value, true
		}
	}
	if !have {
		return mustReject, "no :status"
	}
	if len(status) != 3 || strings.Trim(status, "0123456789") != "" {
		// not 3DIGIT: "invalid pseudo-header field" in the strict reading; the code takes what
		// strconv.Atoi takes (as x/net/http2 does).  Non-numeric must be refused.
		if strings.Trim(strings.TrimLeft(status, "+-"), "0123456789") != "" || strings.TrimLeft(status, "+-") == "" {
			return mustReject, "non-numeric :status"
		}
		return either, ""
	}
	return v, ""
}

// ---------- cases ----------

func h3FieldsCase(r *hk.Run, fs []fld, isReq bool, tag string, model bool) {
	fo, ferr := fh3.VerifParseHeaders(fs, isReq)
	ro, rerr := refh3.ParseHeaders(fs, isReq)
	kind := "response"
	if isReq {
		kind = "request"
	}
	desc := map[string]interface{}{"kind": "h3-fields", "section": kind, "tag": tag, "fields": fmt.Sprintf("%q", fs)}
	r.Count("h3.fields." + kind + "." + tag)
	same := (ferr == nil) == (rerr == nil)
	if same && ferr != nil {
		same = ferr.Error() == rerr.Error()
	} else if same {
		same = reflect.DeepEqual(fo, fh3.VerifHeader(ro))
	}
	if !same {
		r.Fail(hk.Failure{Sig: "h3:parseheaders-vs-quicgo:" + kind, What: "fork parseHeaders differs from quic-go v0.48.2", Input: desc, Got: fmt.Sprint(fo, ferr), Want: fmt.Sprint(ro, rerr)})
	}
	v, why := rfcVerdict(kind, fs)
	switch {
	case v == mustReject && ferr == nil:
		r.Fail(hk.Failure{Sig: "h3:rfc9114-accepted-malformed:" + kind + ":" + why, What: "a " + kind + " field section RFC 9114 §4.2-4.3 calls malformed (" + why + ") was accepted", Input: desc})
	case v == mustAccept && ferr != nil:
		r.Fail(hk.Failure{Sig: "h3:rfc9114-refused-wellformed:" + kind, What: "a well-formed " + kind + " field section was refused", Input: desc, Got: ferr.Error()})
	case v == either:
		r.Count("h3.fields.interp.content-length-edge")
	}
	if ferr != nil {
		r.Count("h3.fields.reject." + hdErrClass(ferr))
	} else {
		r.Count("h3.fields.accept")
	}
	c := hk.Case{Desc: desc}
	if model {
		obs := ""
		if ferr != nil {
			obs = "(HErr " + hdErrClass(ferr) + ")"
		} else {
			obs = "(HOk " + coqHeader(fo) + ")"
		}
		c.Coq = fmt.Sprintf("H3Fields %s %s %s", hk.CoqBool(isReq), coqFields(fs), obs)
	}
	r.Add(c, fmt.Sprint("h3f|", isReq, fs), len(fs) > 1)
}

func h3ResponseCase(r *hk.Run, fs []fld, tag string, model bool) {
	frsp, ferr := fh3.VerifUpdateResponseFromHeaders(fs)
	rrsp, rerr := refh3.UpdateResponseFromHeaders(fs)
	desc := map[string]interface{}{"kind": "h3-response", "tag": tag, "fields": fmt.Sprintf("%q", fs)}
	r.Count("h3.response." + tag)
	same := (ferr == nil) == (rerr == nil)
	if same && ferr != nil {
		same = ferr.Error() == rerr.Error()
	} else if same {
		same = reflect.DeepEqual(frsp, rrsp)
	}
	if !same {
		r.Fail(hk.Failure{Sig: "h3:updateresponse-vs-quicgo", What: "fork updateResponseFromHeaders differs from quic-go v0.48.2", Input: desc, Got: fmt.Sprint(frsp, ferr), Want: fmt.Sprint(rrsp, rerr)})
	}
	v, why := rfcResponseVerdict(fs)
	switch {
	case v == mustReject && ferr == nil:
		r.Fail(hk.Failure{Sig: "h3:rfc9114-accepted-malformed:response:" + why, What: "a response RFC 9114 §4.2-4.3 calls malformed (" + why + ") was accepted", Input: desc})
	case v == mustAccept && ferr != nil:
		r.Fail(hk.Failure{Sig: "h3:rfc9114-refused-wellformed:response", What: "a well-formed response was refused", Input: desc, Got: ferr.Error()})
	case v == either:
		r.Count("h3.response.interp.status-or-cl-edge")
	}
	if ferr != nil {
		r.Count("h3.response.reject." + hdErrClass(ferr))
	} else {
		r.Count("h3.response.accept")
	}
	c := hk.Case{Desc: desc}
	if model {
		obs := ""
		if ferr != nil {
			obs = "(HErr " + hdErrClass(ferr) + ")"
		} else {
			h, _ := fh3.VerifParseHeaders(fs, false)
			obs = fmt.Sprintf("(HOk (%s, %s))", coqHeader(h), hk.CoqZ(int64(frsp.StatusCode)))
			if frsp.ContentLength != h.ContentLength || frsp.Proto != "HTTP/3.0" || frsp.ProtoMajor != 3 {
				r.Fail(hk.Failure{Sig: "h3:updateresponse-fields", What: "updateResponseFromHeaders did not carry ContentLength / protocol over", Input: desc})
			}
		}
		c.Coq = fmt.Sprintf("H3Response %s %s", coqFields(fs), obs)
	}
	r.Add(c, fmt.Sprint("h3r|", fs), len(fs) > 1)
}

func h3TrailersCase(r *hk.Run, fs []fld, tag string, model bool) {
	fo, ferr := fh3.VerifParseTrailers(fs)
	ro, rerr := refh3.ParseTrailers(fs)
	desc := map[string]interface{}{"kind": "h3-trailers", "tag": tag, "fields": fmt.Sprintf("%q", fs)}
	r.Count("h3.trailers." + tag)
	v, why := rfcVerdict("trailer", fs)
	switch {
	case v == mustReject && ferr == nil:
		r.Fail(hk.Failure{Sig: "h3:rfc9114-accepted-malformed:trailer:" + why, What: "a trailer section RFC 9114 §4.2-4.3 calls malformed (" + why + ") was accepted", Input: desc})
	case v == mustAccept && ferr != nil:
		r.Fail(hk.Failure{Sig: "h3:rfc9114-refused-wellformed:trailer", What: "a well-formed trailer section was refused", Input: desc, Got: ferr.Error()})
	}
	// versus quic-go: identical where both accept; the fork may refuse more (see design.d/C05.md)
	if ferr == nil && (rerr != nil || !reflect.DeepEqual(fo, ro)) {
		r.Fail(hk.Failure{Sig: "h3:parsetrailers-vs-quicgo", What: "fork parseTrailers accepts differently from quic-go v0.48.2", Input: desc, Got: fmt.Sprint(fo), Want: fmt.Sprint(ro, rerr)})
	}
	if ferr != nil && rerr == nil {
		r.Count("h3.trailers.stricter-than-quicgo")
	}
	if ferr != nil {
		r.Count("h3.trailers.reject")
	} else {
		r.Count("h3.trailers.accept")
	}
	c := hk.Case{Desc: desc}
	if model {
		obs := ""
		if ferr != nil {
			cls := hdErrClass(ferr)
			obs = "(HErr " + cls + ")"
		} else {
			obs = "(HOk " + coqHmap(fo) + ")"
		}
		c.Coq = fmt.Sprintf("H3Trailers %s %s", coqFields(fs), obs)
	}
	r.Add(c, fmt.Sprint("h3t|", fs), len(fs) > 0)
}

// ---------- generators ----------

var h3RegularNames = []string{"content-type", "server", "date", "x-a", "x-a", "x-b-c", "set-cookie", "vary", "etag", "trailer",
	"cache-control", "te", "content-length", "a", "x-1_2.3", "accept-ranges", "x--y", "-x", "x-", "9", "alt-svc"}
var h3Values = []string{"", "a", "text/html; charset=utf-8", "gzip", "trailers", "x y", "a\tb", "caf\xc3\xa9", "\xff\xfe", "0", "1", "42",
	"A, B", " lead", "trail ", "Trailer1, Trailer2"}
var h3BadNames = []string{"", "Content-Type", "X-a", "x-A", "xA", "SERVER", "x a", "x(", "x:", "a\x00", "a\x7f", "\xc3\xa9", "\xc3\x89", "x\xff", "K\xe2\x84\xaa",
	"\xe2\x84\xaa", "x\r\n", "x\"", "x,y", "x@", "x[", "x{", "x=", "x/"}
var h3BadValues = []string{"a\x00b", "a\rb", "a\nb", "\r\n", "a\x7f", "\x1f", "\x01", "ok\x0b"}
var h3CLValues = []string{"0", "1", "42", "007", "9223372036854775807", "9223372036854775808", "18446744073709551616", "99999999999999999999999",
	"", "-1", "+5", "1_0", "0x10", "1 ", " 1", "1,1", "abc", "1.0", "٣"}
var h3Statuses = []string{"200", "200", "204", "404", "101", "100", "304", "500", "999", "000", "20", "2000", "+200", "-200", "-1", "0200", "abc", "", "2 00",
	"200 OK", "9223372036854775807", "9223372036854775808", "-9223372036854775808", "-9223372036854775809", "+", "-", "1_0", "٢٠٠"}
var h3Pseudos = []string{":status", ":path", ":method", ":authority", ":scheme", ":protocol", ":unknown", ":", ":Status", ":STATUS", ":status ", "::status"}

func genRegular(rng *hk.Rand) fld {
	return fld{Name: hk.Pick(rng, h3RegularNames), Value: hk.Pick(rng, h3Values)}
}

// genSection builds a mostly well-formed section of the given kind and applies 0..2 mutations.
func genSection(rng *hk.Rand, kind string) ([]fld, string) {
	var fs []fld
	switch kind {
	case "response":
		fs = append(fs, fld{Name: ":status", Value: hk.Pick(rng, h3Statuses[:9])})
	case "request":
		fs = append(fs, fld{Name: ":method", Value: hk.Pick(rng, []string{"GET", "POST", "CONNECT", "HEAD"})},
			fld{Name: ":scheme", Value: "https"}, fld{Name: ":authority", Value: "example.com"}, fld{Name: ":path", Value: "/a?b=c"})
		if rng.Chance(10) {
			fs = append(fs, fld{Name: ":protocol", Value: "websocket"})
		}
		rng2 := rng.Intn(len(fs))
		fs[0], fs[rng2] = fs[rng2], fs[0]
	}
	for i, n := 0, hk.Pick(rng, []int{0, 1, 2, 3, 5, 8, 13}); i < n; i++ {
		f := genRegular(rng)
		switch f.Name {
		case "te":
			if rng.Chance(60) {
				f.Value = "trailers"
			}
		case "content-length":
			f.Value = hk.Pick(rng, h3CLValues[:7])
			if kind == "trailer" {
				f.Name = "x-cl"
			}
		}
		fs = append(fs, f)
	}
	tag := "clean"
	for m, k := 0, hk.Pick(rng, []int{0, 0, 1, 1, 1, 2}); m < k; m++ {
		tag = "mutated"
		pos := rng.Intn(len(fs) + 1)
		ins := func(f fld) { fs = append(fs[:pos:pos], append([]fld{f}, fs[pos:]...)...) }
		switch rng.Intn(12) {
		case 0:
			ins(fld{Name: hk.Pick(rng, h3BadNames), Value: hk.Pick(rng, h3Values)})
		case 1:
			ins(fld{Name: hk.Pick(rng, h3RegularNames), Value: hk.Pick(rng, h3BadValues)})
		case 2:
			ins(fld{Name: hk.Pick(rng, h3Pseudos), Value: hk.Pick(rng, h3Statuses)})
		case 3:
			ins(fld{Name: hk.Pick(rng, []string{"connection", "keep-alive", "proxy-connection", "transfer-encoding", "upgrade", "Connection", "connections", "upgrade-insecure-requests"}), Value: hk.Pick(rng, []string{"close", "keep-alive", "chunked", "h2c", "1"})})
		case 4:
			ins(fld{Name: "te", Value: hk.Pick(rng, []string{"trailers", "gzip", "Trailers", "trailers, deflate", "", "trailers "})})
		case 5, 6:
			ins(fld{Name: "content-length", Value: hk.Pick(rng, h3CLValues)})
			if rng.Bool() {
				pos = rng.Intn(len(fs) + 1)
				ins(fld{Name: "content-length", Value: hk.Pick(rng, h3CLValues)})
			}
		case 7:
			if len(fs) > 1 { // move a field: pseudo after regular or the other way round
				i, j := rng.Intn(len(fs)), rng.Intn(len(fs))
				fs[i], fs[j] = fs[j], fs[i]
			}
		case 8:
			if len(fs) > 0 { // drop one (maybe the :status)
				i := rng.Intn(len(fs))
				fs = append(fs[:i:i], fs[i+1:]...)
			}
		case 9:
			ins(fld{Name: ":status", Value: hk.Pick(rng, h3Statuses)})
		case 10:
			if len(fs) > 0 { // upper-case one letter of an existing name
				i := rng.Intn(len(fs))
				b := []byte(fs[i].Name)
				if len(b) > 0 {
					j := rng.Intn(len(b))
					if b[j] >= 'a' && b[j] <= 'z' {
						b[j] -= 32
					}
					fs[i].Name = string(b)
				}
			}
		case 11:
			ins(fld{Name: string(rng.Bytes(rng.Range(1, 4))), Value: string(rng.Bytes(rng.Intn(4)))})
		}
	}
	return fs, tag
}

func runH3Fields(r *hk.Run, rng *hk.Rand) {
	// (1) single-field grid: every name class x a value, as the only field and after a :status / before one
	for _, n := range append(append(append([]string{}, h3RegularNames...), h3BadNames...), h3Pseudos...) {
		for _, v := range []string{"1", "trailers", "a\nb"} {
			f := fld{Name: n, Value: v}
			h3FieldsCase(r, []fld{f}, false, "grid", true)
			h3FieldsCase(r, []fld{f}, true, "grid", true)
			h3ResponseCase(r, []fld{{Name: ":status", Value: "200"}, f}, "grid", true)
			h3ResponseCase(r, []fld{f, {Name: ":status", Value: "200"}}, "grid", true)
			h3TrailersCase(r, []fld{f}, "grid", true)
		}
	}
	// all 256 bytes as a one-byte field name, and inside a value
	for b := 0; b < 256; b++ {
		h3FieldsCase(r, []fld{{Name: ":status", Value: "200"}, {Name: string([]byte{byte(b)}), Value: "v"}}, false, "bytes", true)
		h3FieldsCase(r, []fld{{Name: ":status", Value: "200"}, {Name: "x-v", Value: string([]byte{'a', byte(b), 'b'})}}, false, "bytes", true)
		h3TrailersCase(r, []fld{{Name: "x" + string([]byte{byte(b)}), Value: "v"}}, "bytes", true)
	}
	// every status form, every content-length form and pair of forms
	for _, s := range h3Statuses {
		h3ResponseCase(r, []fld{{Name: ":status", Value: s}}, "status", true)
		h3ResponseCase(r, []fld{{Name: ":status", Value: "200"}, {Name: ":status", Value: s}, {Name: "server", Value: "x"}}, "status", true)
	}
	for _, a := range h3CLValues {
		h3ResponseCase(r, []fld{{Name: ":status", Value: "200"}, {Name: "content-length", Value: a}}, "content-length", true)
		for _, b := range h3CLValues {
			h3FieldsCase(r, []fld{{Name: ":status", Value: "200"}, {Name: "content-length", Value: a}, {Name: "x-a", Value: "1"}, {Name: "content-length", Value: b}}, false, "content-length", true)
		}
	}
	// (2) random sections
	n := r.Scale(9000, 400000)
	modelEvery := n / r.Scale(1800, 30000)
	for i := 0; i < n; i++ {
		m := i%modelEvery == 0
		switch i % 4 {
		case 0:
			fs, tag := genSection(rng, "response")
			h3ResponseCase(r, fs, tag, m)
		case 1:
			fs, tag := genSection(rng, "response")
			h3FieldsCase(r, fs, false, tag, m)
		case 2:
			fs, tag := genSection(rng, "request")
			h3FieldsCase(r, fs, true, tag, m)
		case 3:
			fs, tag := genSection(rng, "trailer")
			h3TrailersCase(r, fs, tag, m)
		}
	}
}
