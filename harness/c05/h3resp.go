package main

// The response side of ONE HTTP/3 connection: requestStream.ReadResponse for several requests that
// share the connection's one qpack.Decoder.  Responses arrive in sequence: well-formed ones, ones
// whose field section is valid QPACK but malformed per RFC 9114 §4.2-4.3 (that request's stream is
// reset, the connection lives on), and ones whose field section cannot be QPACK-decoded (RFC 9204
// §2.2: a connection error - the shared decoding context is gone).  Whatever came before, a
// well-formed response read on a connection that is still open must be accepted.

import (
	"bytes"
	"fmt"
	"strings"

	fh3 "github.com/imroc/req/v3/internal/http3"
	"github.com/imroc/req/v3/verifharness/c05/refh3"
	"github.com/imroc/req/v3/verifharness/hk"
	"github.com/quic-go/qpack"
)

func qpackSection(fs []fld) []byte {
	var buf bytes.Buffer
	enc := qpack.NewEncoder(&buf)
	for _, f := range fs {
		enc.WriteField(f)
	}
	enc.Close()
	return buf.Bytes()
}

func runH3Responses(r *hk.Run, rng *hk.Rand) {
	n := r.Scale(700, 30000)
	for i := 0; i < n; i++ {
		conn := fh3.VerifNewResponseConn()
		k := rng.Range(2, 5)
		var kinds, coqObs []string
		sawBroken := false
		for j := 0; j < k; j++ {
			// ---- one response ----
			good := []fld{{Name: ":status", Value: hk.Pick(rng, []string{"200", "204", "404", "500"})}, {Name: "server", Value: fmt.Sprintf("s%d-%d", i, j)}}
			for x, m := 0, rng.Intn(3); x < m; x++ {
				good = append(good, fld{Name: hk.Pick(rng, h3RegularNames[:6]), Value: hk.Pick(rng, h3Values[1:6])})
			}
			kind := "good"
			section := qpackSection(good)
			fields := good
			switch c := rng.Intn(100); {
			case c < 22: // valid QPACK, malformed field section
				kind = "malformed"
				fields = append(append([]fld{}, good...), hk.Pick(rng, []fld{{Name: "X-Upper", Value: "v"}, {Name: ":status", Value: "200"}, {Name: "connection", Value: "close"}, {Name: "x-a", Value: "a\nb"}, {Name: ":path", Value: "/"}}))
				if rng.Chance(20) {
					fields = fields[1:] // no :status
				}
				section = qpackSection(fields)
			case c < 50: // not decodable by QPACK
				kind = "undecodable"
				switch rng.Intn(5) {
				case 0: // Required Insert Count != 0: the section needs a dynamic table nobody has
					section = append([]byte{byte(rng.Range(1, 60)), 0x00}, section[2:]...)
				case 1: // an indexed field line into the dynamic table
					section = append(append([]byte{0x00, 0x00}, byte(0x80|rng.Intn(0x3f))), section[2:]...)
				case 2: // cut inside a field line
					if len(section) > 4 {
						section = section[:len(section)-rng.Range(1, 3)]
					}
				case 3: // a literal with a dynamic name reference
					section = append(section[:2:2], append([]byte{0x40 | byte(rng.Intn(15)), 0x01, 'v'}, section[2:]...)...)
				case 4: // garbage behind the prefix
					section = append([]byte{0x00, 0x00}, rng.Bytes(rng.Range(1, 12))...)
				}
			}
			// what the reference decoder (a fresh one: no shared state to spoil) makes of the section
			refFields, refErr := qpack.NewDecoder(nil).DecodeFull(section)
			decodable := refErr == nil
			wire := append(refh3.AppendHeadersFrame(nil, uint64(len(section))), section...)
			wire = append(wire, 0x00, 0x00) // an empty DATA frame: the body
			desc := map[string]interface{}{"kind": "h3-response-seq", "position": j, "response": kind, "before": strings.Join(kinds, ","), "section": fmt.Sprintf("%x", capBytes(section, 120))}
			r.Count("h3.respseq." + kind)
			rsp, cancelled, err := conn.ReadResponse(int64(4*j), wire)
			closed := conn.Closed()
			kinds = append(kinds, kind)
			switch {
			case !decodable:
				if err == nil {
					r.Fail(hk.Failure{Sig: "h3:respseq:undecodable-accepted", What: "a response whose field section the reference QPACK decoder cannot decode was accepted", Input: desc})
				}
				if closed < 0 {
					r.Fail(hk.Failure{Sig: "h3:respseq:undecodable-connection-kept", What: "a field section that cannot be QPACK-decoded is a connection error (RFC 9204 §2.2: the one decoding context of the connection is lost); the connection was left open", Input: desc, Got: fmt.Sprint(err)})
				}
			default:
				v, _ := rfcResponseVerdict(refFields)
				want, werr := refh3.UpdateResponseFromHeaders(refFields)
				switch {
				case v == mustAccept && (err != nil || werr != nil || rsp.StatusCode != want.StatusCode || fmt.Sprint(rsp.Header) != fmt.Sprint(want.Header)):
					sig := "h3:respseq:good-refused"
					if sawBroken {
						sig = "h3:respseq:good-refused-after-broken"
					}
					r.Fail(hk.Failure{Sig: sig, What: "a well-formed response read on a connection that is still open was not delivered as sent (the connection's shared QPACK decoder carries something over from an earlier response)", Input: desc, Got: fmt.Sprint(rsp, err), Want: fmt.Sprint(want, werr)})
				case v == mustReject && err == nil:
					r.Fail(hk.Failure{Sig: "h3:respseq:malformed-accepted", What: "a malformed response was accepted", Input: desc})
				case v == mustReject && (closed >= 0 || cancelled != 0x10e):
					r.Fail(hk.Failure{Sig: "h3:respseq:malformed-wrong-reaction", What: "a malformed response (valid QPACK) must reset its own stream with H3_MESSAGE_ERROR and leave the connection alone", Input: desc, Got: fmt.Sprint("closed ", closed, " stream reset ", cancelled)})
				}
			}
			if err != nil {
				sawBroken = true
			}
			coqObs = append(coqObs, fmt.Sprintf("(%s, (%s, %s))", map[string]string{"good": "RGood", "malformed": "RMalformed", "undecodable": "RUndecodable"}[respClass(decodable, refFields)], hk.CoqBool(err == nil), hk.CoqBool(closed >= 0)))
			if closed >= 0 {
				break // the connection is gone: nothing more is read on it
			}
		}
		c := hk.Case{Desc: map[string]interface{}{"kind": "h3-response-seq", "responses": strings.Join(kinds, ",")}}
		if i%2 == 0 {
			c.Coq = "H3RespSeq " + hk.CoqList(coqObs)
		}
		r.Add(c, fmt.Sprint("h3rs|", i, kinds), true)
	}
}

// respClass: the class the model works with, decided by the reference decoder and the RFC oracle.
func respClass(decodable bool, fs []fld) string {
	if !decodable {
		return "undecodable"
	}
	if v, _ := rfcResponseVerdict(fs); v == mustReject {
		return "malformed"
	}
	return "good"
}
