package main

// HTTP/3 frame layer: fork (internal/http3) vs quic-go v0.48.2 (refh3: verbatim copy of the
// upstream files, proved pristine on every run) vs model (Model/H3Frame.v).

import (
	"bytes"
	"fmt"
	"io"
	"sort"
	"strings"

	fh3 "github.com/imroc/req/v3/internal/http3"
	"github.com/imroc/req/v3/verifharness/c05/refh3"
	"github.com/imroc/req/v3/verifharness/hk"
	rvi "github.com/quic-go/quic-go/quicvarint"
)

type h3obs struct {
	Kind     string
	Length   uint64
	Datagram bool
	ExtConn  bool
	Other    [][2]uint64 // sorted by id
	Err      string
	Closed   int64
	Left     int // bytes left in the reader
}

func sortedPairs(m map[uint64]uint64) [][2]uint64 {
	var ps [][2]uint64
	for k, v := range m {
		ps = append(ps, [2]uint64{k, v})
	}
	sort.Slice(ps, func(i, j int) bool { return ps[i][0] < ps[j][0] })
	return ps
}

func coqPairs(ps [][2]uint64) string {
	var xs []string
	for _, p := range ps {
		xs = append(xs, fmt.Sprintf("(%d, %d)", p[0], p[1]))
	}
	return hk.CoqList(xs)
}

func h3ErrName(err error) string {
	switch {
	case err == nil:
		return ""
	case err == io.EOF:
		return "EOF"
	case err == io.ErrUnexpectedEOF:
		return "UnexpectedEOF"
	}
	return err.Error()
}

func forkNext(in []byte) (o h3obs) { return forkNextMode(in, false) }

// forkNextMode: body = the frameParser's bodyStream flag (true while stream.Read parses a message body)
func forkNextMode(in []byte, body bool) (o h3obs) {
	defer func() {
		if p := recover(); p != nil {
			o = h3obs{Err: fmt.Sprint("panic:", p)}
		}
	}()
	rd := bytes.NewReader(in)
	parse := fh3.VerifParseNext
	if body {
		parse = fh3.VerifParseNextBody
	}
	f, closed, err := parse(rd)
	return h3obs{Kind: f.Kind, Length: f.Length, Datagram: f.Datagram, ExtConn: f.ExtendedConnect, Other: sortedPairs(f.Other),
		Err: h3ErrName(err), Closed: closed, Left: rd.Len()}
}

func refNext(in []byte) (o h3obs) {
	defer func() {
		if p := recover(); p != nil {
			o = h3obs{Err: fmt.Sprint("panic:", p)}
		}
	}()
	rd := bytes.NewReader(in)
	f, closed, err := refh3.ParseNext(rd)
	return h3obs{Kind: f.Kind, Length: f.Length, Datagram: f.Datagram, ExtConn: f.ExtendedConnect, Other: sortedPairs(f.Other),
		Err: h3ErrName(err), Closed: closed, Left: rd.Len()}
}

func (o h3obs) key() string { return fmt.Sprintf("%+v", o) }

// coq renders the observation as (h3res h3frame) (option bytes-left).
func (o h3obs) coq(in []byte) string {
	if o.Err != "" {
		var n, m uint64
		switch {
		case o.Err == "EOF":
			return "(H3Err H3EOF) None"
		case o.Err == "UnexpectedEOF":
			return "(H3Err H3UnexpectedEOF) None"
		case scan(o.Err, "http3: reserved frame type: %d", &n):
			if o.Closed != 0x105 {
				return "(H3Err H3_RESERVED_WITHOUT_CLOSE) None"
			}
			return fmt.Sprintf("(H3Err (H3Reserved %d)) None", n)
		case scan(o.Err, "unexpected size for SETTINGS frame: %d", &n):
			return fmt.Sprintf("(H3Err (H3SettingsTooLarge %d)) None", n)
		case scan(o.Err, "duplicate setting: %d", &n):
			return fmt.Sprintf("(H3Err (H3DupSetting %d)) None", n)
		case scan(o.Err, "invalid value for SETTINGS_ENABLE_CONNECT_PROTOCOL: %d", &m):
			return fmt.Sprintf("(H3Err (H3BadSettingValue 8 %d)) None", m)
		case scan(o.Err, "invalid value for SETTINGS_H3_DATAGRAM: %d", &m):
			return fmt.Sprintf("(H3Err (H3BadSettingValue 51 %d)) None", m)
		}
		return "(H3Err H3_UNKNOWN_ERROR) None"
	}
	left := "(Some " + hk.CoqBytes(in[len(in)-o.Left:]) + ")"
	switch o.Kind {
	case "data":
		return fmt.Sprintf("(H3Ok (H3Data %d)) %s", o.Length, left)
	case "headers":
		return fmt.Sprintf("(H3Ok (H3Headers %d)) %s", o.Length, left)
	case "settings":
		return fmt.Sprintf("(H3Ok (H3Settings (mk_settings %s %s %s))) %s", hk.CoqBool(o.Datagram), hk.CoqBool(o.ExtConn), coqPairs(o.Other), left)
	}
	return "(H3Err H3_UNKNOWN_FRAME) None"
}

func scan(s, format string, a ...interface{}) bool {
	n, err := fmt.Sscanf(s, format, a...)
	if err != nil || n != len(a) {
		return false
	}
	// Sscanf tolerates trailing text; require an exact rendering
	vals := make([]interface{}, len(a))
	for i, p := range a {
		vals[i] = *(p.(*uint64))
	}
	return fmt.Sprintf(format, vals...) == s
}

// h3NextCase: one ParseNext call on both implementations (+ the model), on a control stream.
func h3NextCase(r *hk.Run, in []byte, tag string, model bool) (fo h3obs) {
	return h3NextCaseMode(r, in, false, tag, model)
}

// h3NextCaseMode: body = parse as stream.Read does for a message body.  quic-go v0.48.2 has no such
// mode (every reader failure is io.EOF); the fork's body mode may only differ from it by calling a
// stream that ended INSIDE a frame io.ErrUnexpectedEOF - decided here by an independent walk of the
// frames.  A stream that ends between two frames must be io.EOF in both.
func h3NextCaseMode(r *hk.Run, in []byte, body bool, tag string, model bool) (fo h3obs) {
	fo, ro := forkNextMode(in, body), refNext(in)
	mode := "ctrl"
	if body {
		mode = "body"
	}
	desc := map[string]interface{}{"kind": "h3-parsenext", "mode": mode, "tag": tag, "input": fmt.Sprintf("%x", capBytes(in, 256)), "len": len(in)}
	r.Count("h3.next." + mode + "." + tag)
	switch {
	case fo.Err == "":
		r.Count("h3.next.frame." + fo.Kind)
	case fo.Err == "EOF":
		r.Count("h3.next.err.eof")
	case fo.Err == "UnexpectedEOF":
		r.Count("h3.next.err.unexpected-eof")
	default:
		r.Count("h3.next.err." + strings.SplitN(strings.SplitN(fo.Err, ":", 2)[0], " ", 3)[0])
	}
	cmp := fo
	if body {
		end := streamEnd(in)
		switch {
		case fo.Err == "UnexpectedEOF" && end == endInsideFrame:
			cmp.Err = "EOF" // the one sanctioned difference
			r.Count("h3.next.body.truncated-inside-frame")
		case fo.Err == "UnexpectedEOF":
			r.Fail(hk.Failure{Sig: "h3:parsenext-body:clean-end-reported-truncated:" + tag, What: "a body stream that ends between two frames (right behind complete skipped frames) is reported as io.ErrUnexpectedEOF; quic-go and RFC 9114 (unknown frames MUST be ignored) make it a clean io.EOF", Input: desc, Got: fo.key(), Want: ro.key()})
		case fo.Err == "EOF" && end == endAtBoundary:
			r.Count("h3.next.body.clean-end")
		}
	}
	if reachesGoAway(in) {
		// the fork has no GOAWAY frame (it skips type 0x7 like any other frame it does not act on);
		// not part of the property (frame headers, SETTINGS, integers) - recorded, not compared
		r.Count("h3.next.goaway-not-compared")
	} else if cmp.key() != ro.key() {
		r.Fail(hk.Failure{Sig: "h3:parsenext:" + mode + ":" + tag, What: "fork frameParser.ParseNext differs from quic-go v0.48.2 (frame, error, connection close code or bytes consumed)", Input: desc, Got: fo.key(), Want: ro.key()})
	}
	if strings.HasPrefix(fo.Err, "panic:") {
		r.Fail(hk.Failure{Sig: "h3:parsenext-panic:" + tag, What: "ParseNext panicked", Input: desc, Got: fo.Err})
	}
	c := hk.Case{Desc: desc}
	if model {
		c.Coq = fmt.Sprintf("H3Next %s %s %s", hk.CoqBool(body), hk.CoqBytes(in), fo.coq(in))
	}
	r.Add(c, "h3n|"+mode+"|"+string(in), len(in) > 2)
	return fo
}

const (
	endNotReached = iota // ParseNext returns or refuses a frame before the end of the stream
	endAtBoundary        // the stream ends between two frames (possibly after skipped ones)
	endInsideFrame       // the stream ends inside a frame type, a frame length or a skipped payload
)

// streamEnd walks the frames the way any parser must (reference varint reader).
func streamEnd(in []byte) int {
	rd := bytes.NewReader(in)
	for {
		if rd.Len() == 0 {
			return endAtBoundary
		}
		t, err := rvi.Read(rd)
		if err != nil {
			return endInsideFrame
		}
		l, err := rvi.Read(rd)
		if err != nil {
			return endInsideFrame
		}
		switch t {
		case 0x0, 0x1, 0x2, 0x6, 0x8, 0x9:
			return endNotReached
		case 0x4: // SETTINGS: the stream (or an integer of the payload) may end inside it
			if l > 8192 {
				return endNotReached
			}
			if uint64(rd.Len()) < l {
				return endInsideFrame
			}
			p := make([]byte, l)
			rd.Read(p)
			pr := bytes.NewReader(p)
			for pr.Len() > 0 { // (identifier, value) pairs; an identifier without its value is torn too
				if _, err := rvi.Read(pr); err != nil {
					return endInsideFrame
				}
				if _, err := rvi.Read(pr); err != nil {
					return endInsideFrame
				}
			}
			return endNotReached
		}
		if uint64(rd.Len()) < l {
			return endInsideFrame
		}
		rd.Seek(int64(l), io.SeekCurrent)
	}
}

// reachesGoAway walks the frame headers the way any parser must (reference varint reader) and
// reports whether a GOAWAY frame is met before a frame ParseNext returns or refuses.
func reachesGoAway(in []byte) bool {
	rd := bytes.NewReader(in)
	for {
		t, err := rvi.Read(rd)
		if err != nil {
			return false
		}
		l, err := rvi.Read(rd)
		if err != nil {
			return false
		}
		switch t {
		case 0x7:
			return true
		case 0x0, 0x1, 0x4, 0x2, 0x6, 0x8, 0x9:
			return false
		}
		if uint64(rd.Len()) < l {
			return false
		}
		rd.Seek(int64(l), io.SeekCurrent)
	}
}

func capBytes(b []byte, n int) []byte {
	if len(b) > n {
		return b[:n]
	}
	return b
}

// varint in a random (possibly non-minimal) width
func viAny(rng *hk.Rand, v uint64) []byte {
	if v > 1<<62-1 {
		v &= 1<<62 - 1
	}
	l := rvi.Len(v)
	if rng.Chance(25) {
		for _, c := range []int{8, 4, 2} {
			if c > l && rng.Bool() {
				l = c
				break
			}
		}
	}
	return rvi.AppendWithLen(nil, v, l)
}

var h3Types = []uint64{0, 1, 4, 4, 4, 2, 3, 5, 6, 7, 8, 9, 0xd, 0xe, 0x21, 0x40, 0x1f*7 + 0x21, 63, 64, 16383, 16384, 1<<30 - 1, 1 << 30, 1<<62 - 1}
var h3SettingIDs = []uint64{0, 1, 6, 7, 8, 8, 0x33, 0x33, 0x21, 0x1f*3 + 0x21, 63, 64, 16383, 16384, 1<<30 + 5, 1<<62 - 1}
var h3SettingVals = []uint64{0, 1, 1, 1, 2, 63, 64, 100, 4096, 16383, 16384, 1 << 30, 1<<62 - 1}

func genSettingsPayload(rng *hk.Rand, pairs int, dupChance int) []byte {
	var b []byte
	seen := map[uint64]bool{}
	for i := 0; i < pairs; i++ {
		id := hk.Pick(rng, h3SettingIDs)
		if rng.Chance(30) {
			id = rng.U64() & (1<<62 - 1) >> uint(rng.Intn(62))
		}
		if seen[id] && !rng.Chance(dupChance) {
			id = 1000 + uint64(i)*3
		}
		seen[id] = true
		v := hk.Pick(rng, h3SettingVals)
		if rng.Chance(15) {
			v = rng.U64() & (1<<62 - 1) >> uint(rng.Intn(62))
		}
		if (id == 8 || id == 0x33) && rng.Chance(70) {
			v = uint64(rng.Intn(2))
		}
		b = append(b, viAny(rng, id)...)
		b = append(b, viAny(rng, v)...)
	}
	return b
}

func genH3Frame(rng *hk.Rand) []byte {
	t := hk.Pick(rng, h3Types)
	if rng.Chance(10) {
		t = rng.U64() & (1<<62 - 1) >> uint(rng.Intn(62))
	}
	var payload []byte
	switch {
	case t == 4:
		payload = genSettingsPayload(rng, hk.Pick(rng, []int{0, 1, 1, 2, 3, 5, 9}), 25)
		if rng.Chance(10) {
			payload = append(payload, rng.Bytes(rng.Range(1, 3))...) // trailing junk: maybe a torn varint
		}
	case t == 0 || t == 1:
		payload = nil // the payload is not ParseNext's business; what follows is read as the next frame
	default:
		payload = rng.Bytes(hk.Pick(rng, []int{0, 0, 1, 2, 7, 30, 70}))
	}
	l := uint64(len(payload))
	if t == 0 || t == 1 {
		l = hk.Pick(rng, viBoundaries[:22])
	}
	if rng.Chance(8) { // the length field lies
		l = uint64(int(l) + rng.Range(-2, 3))
		if l > 1<<62-1 {
			l = 0
		}
	}
	f := append(viAny(rng, t), viAny(rng, l)...)
	return append(f, payload...)
}

func runH3Frames(r *hk.Run, rng *hk.Rand) {
	if err := refh3.Pristine(); err != nil {
		r.Fail(hk.Failure{Sig: "h3:reference-not-pristine", What: "the reference copy of quic-go's http3 sources could not be verified against the module cache", Got: err.Error()})
	}
	// (1) DATA / HEADERS frame headers: Append on both sides, each side's bytes in the other's parser
	lens := append([]uint64{}, viBoundaries...)
	n := r.Scale(1500, 60000)
	for i := 0; i < n; i++ {
		lens = append(lens, genVarintValue(rng))
	}
	for i, l := range lens {
		for t := uint64(0); t < 2; t++ {
			var fb, rb []byte
			fa, ra := fh3.VerifAppendDataFrame, refh3.AppendDataFrame
			if t == 1 {
				fa, ra = fh3.VerifAppendHeadersFrame, refh3.AppendHeadersFrame
			}
			prefix := []byte{0xAA}
			fp := caught(func() { fb = fa(append([]byte{}, prefix...), l) })
			rp := caught(func() { rb = ra(append([]byte{}, prefix...), l) })
			desc := map[string]interface{}{"kind": "h3-frame-header", "type": t, "length": fmt.Sprint(l)}
			r.Count(fmt.Sprintf("h3.hdr.t%d", t))
			if fp != rp || !bytes.Equal(fb, rb) {
				r.Fail(hk.Failure{Sig: fmt.Sprintf("h3:frame-header-append:t%d", t), What: "frame header Append differs from quic-go", Input: desc, Got: fmt.Sprintf("%x %v", fb, fp), Want: fmt.Sprintf("%x %v", rb, rp)})
			}
			if !fp {
				fb = fb[1:]
				tail := []byte{0x00, 0x00}
				ro := refNext(append(append([]byte{}, fb...), tail...))
				want := "data"
				if t == 1 {
					want = "headers"
				}
				if ro.Err != "" || ro.Kind != want || ro.Length != l || ro.Left != len(tail) {
					r.Fail(hk.Failure{Sig: fmt.Sprintf("h3:fork-hdr-ref-parse:t%d", t), What: "quic-go does not read back the frame header the fork wrote", Input: desc, Got: ro.key()})
				}
				if !rp {
					fo := forkNext(append(append([]byte{}, rb[1:]...), tail...))
					if fo.Err != "" || fo.Kind != want || fo.Length != l || fo.Left != len(tail) {
						r.Fail(hk.Failure{Sig: fmt.Sprintf("h3:ref-hdr-fork-parse:t%d", t), What: "the fork does not read back the frame header quic-go wrote", Input: desc, Got: fo.key()})
					}
				}
			}
			c := hk.Case{Desc: desc}
			if i < len(viBoundaries) || i%10 == 0 {
				c.Coq = fmt.Sprintf("H3FrameHdr %d %s %s", t, hk.CoqN(l), optBytes(!fp, fb))
			}
			r.Add(c, fmt.Sprint("h3h|", t, "|", l), true)
		}
	}
	// (2) every frame type 0..0x40 and the boundary types x {no payload, payload, short payload}
	for t := uint64(0); t <= 0x42; t++ {
		for _, pl := range []int{0, 3} {
			p := rng.Bytes(pl)
			if t == 4 && pl > 0 {
				p = []byte{0x06, 0x05, 0x07}
			}
			in := append(append(rvi.Append(nil, t), rvi.Append(nil, uint64(len(p)))...), p...)
			in = append(in, 0x00, 0x05, 0xff) // a DATA frame header follows
			h3NextCase(r, in, "types", true)
			h3NextCaseMode(r, in, true, "types", pl == 0)
			if pl > 0 {
				h3NextCase(r, in[:len(in)-4], "types-short", true)
				h3NextCaseMode(r, in[:len(in)-4], true, "types-short", true)
				h3NextCaseMode(r, in[:len(in)-3], true, "types-then-end", true) // ends right behind the frame
			}
		}
	}
	// (3) random streams of frames; ParseNext is called again on what is left, up to 4 times
	n = r.Scale(6000, 300000)
	modelEvery := n / r.Scale(1200, 20000)
	for i := 0; i < n; i++ {
		var in []byte
		k := rng.Range(1, 4)
		for j := 0; j < k; j++ {
			in = append(in, genH3Frame(rng)...)
		}
		if rng.Chance(15) {
			in = in[:rng.Intn(len(in)+1)]
		}
		body := i%2 == 1
		for call := 0; call < 4; call++ {
			o := h3NextCaseMode(r, in, body, "stream", i%modelEvery == 0)
			if o.Err != "" || o.Left == 0 {
				break
			}
			in = in[len(in)-o.Left:]
		}
	}
	// (4) every truncation of a few well-formed control streams
	for i := 0; i < r.Scale(12, 200); i++ {
		in := append(viAny(rng, 0x21), viAny(rng, 3)...)
		in = append(in, 1, 2, 3)
		p := genSettingsPayload(rng, 3, 0)
		in = append(in, append(viAny(rng, 4), viAny(rng, uint64(len(p)))...)...)
		in = append(in, p...)
		for k := 0; k <= len(in); k++ {
			h3NextCase(r, in[:k], "truncated", true)
			h3NextCaseMode(r, in[:k], true, "truncated", k%2 == 0)
		}
	}
	// (4b) sequences of 1..4 complete frames the parser skips (GREASE, extensions, CANCEL_PUSH,
	//      PUSH_PROMISE, GOAWAY, MAX_PUSH_ID), then: the end of the stream / a cut inside the next
	//      frame type / inside its length / inside its payload / a DATA header - both modes
	skipTypes := []uint64{0x3, 0x5, 0x7, 0xd, 0x21, 0x1f*5 + 0x21, 0x40, 0xe, 16384, 1<<30 + 1, 1<<62 - 1}
	for i := 0; i < r.Scale(300, 20000); i++ {
		var in []byte
		k := rng.Range(1, 4)
		if i < 11 {
			k = 1
		}
		for j := 0; j < k; j++ {
			t := hk.Pick(rng, skipTypes)
			if i < 11 {
				t = skipTypes[i]
			}
			p := rng.Bytes(hk.Pick(rng, []int{0, 0, 1, 2, 9, 70}))
			in = append(in, viAny(rng, t)...)
			in = append(in, viAny(rng, uint64(len(p)))...)
			in = append(in, p...)
		}
		tails := [][]byte{nil, {0xc0}, {0x80, 0x00}, append(viAny(rng, hk.Pick(rng, skipTypes)), 0x40), append(append(viAny(rng, 0x21), viAny(rng, 5)...), 1, 2), {0x00, 0x07}, {0x01}}
		for ti, tail := range tails {
			full := append(append([]byte{}, in...), tail...)
			m := i < 40 || ti == 0
			h3NextCaseMode(r, full, true, fmt.Sprintf("after-skipped-%d", ti), m)
			h3NextCaseMode(r, full, false, fmt.Sprintf("after-skipped-%d", ti), m && i < 40)
		}
	}
	// (5) the SETTINGS size cap: payloads of 8190..8194 bytes (distinct 8+8-byte pairs + filler), and
	//     length fields around the cap with nothing behind them
	for _, l := range []int{8176, 8190, 8191, 8192, 8193, 8194, 8208} {
		var p []byte
		id := uint64(1) << 40
		for len(p)+16 <= l {
			p = append(p, rvi.AppendWithLen(nil, id, 8)...)
			p = append(p, rvi.AppendWithLen(nil, id, 8)...)
			id++
		}
		for len(p)+2 <= l {
			p = append(p, rvi.AppendWithLen(nil, id&63, 1)...)
			p = append(p, rvi.AppendWithLen(nil, 5, 1)...)
			id++
		}
		if len(p) < l { // one pair of 1+2 bytes instead of 1+1
			p = p[:len(p)-2]
			p = append(p, rvi.AppendWithLen(nil, 62, 1)...)
			p = append(p, rvi.AppendWithLen(nil, 5, 2)...)
		}
		in := append(append(rvi.Append(nil, 4), rvi.Append(nil, uint64(len(p)))...), p...)
		h3NextCase(r, append(in, 0x00, 0x01), "settings-cap", true)
	}
	for _, l := range []uint64{8191, 8192, 8193, 16384, 1<<62 - 1} {
		h3NextCase(r, append(rvi.Append(nil, 4), rvi.Append(nil, l)...), "settings-cap", true)
	}
	// (6) settingsFrame.Append: both directions, duplicates through AdditionalSettings, panics
	n = r.Scale(2500, 100000)
	for i := 0; i < n; i++ {
		d, e := rng.Bool(), rng.Bool()
		other := map[uint64]uint64{}
		clean := true
		for j, k := 0, hk.Pick(rng, []int{0, 0, 1, 2, 3, 6, 12}); j < k; j++ {
			id := hk.Pick(rng, h3SettingIDs)
			if rng.Chance(50) {
				id = rng.U64() & (1<<62 - 1) >> uint(rng.Intn(62))
			}
			if (id == 8 || id == 0x33) && !rng.Chance(20) {
				id = 77
			}
			v := hk.Pick(rng, h3SettingVals)
			if rng.Chance(30) {
				v = rng.U64() & (1<<62 - 1) >> uint(rng.Intn(62))
			}
			if rng.Chance(2) {
				v = 1<<62 + uint64(rng.Intn(3)) // quicvarint panics
			}
			if id == 8 || id == 0x33 {
				clean = false
			}
			other[id] = v
		}
		if i == 0 { // 600 pairs: beyond the parser's own size cap
			for j := uint64(0); j < 600; j++ {
				other[1<<40+j] = 1<<40 + j
			}
		}
		h3SettingsAppendCase(r, d, e, other, clean, i%4 == 0 || len(other) > 100)
	}
}

func h3SettingsAppendCase(r *hk.Run, d, e bool, other map[uint64]uint64, clean, model bool) {
	var fb, rb []byte
	fp := caught(func() { fb = fh3.VerifAppendSettingsFrame(nil, d, e, other) })
	rp := caught(func() { rb = refh3.AppendSettingsFrame(nil, d, e, other) })
	sorted := sortedPairs(other)
	desc := map[string]interface{}{"kind": "h3-settings-append", "datagram": d, "extended_connect": e, "other": fmt.Sprint(sorted)}
	r.Count("h3.settings.append")
	if fp {
		r.Count("h3.settings.append.panic")
	}
	if fp != rp || len(fb) != len(rb) {
		r.Fail(hk.Failure{Sig: "h3:settings-append", What: "settingsFrame.Append differs from quic-go (panic or length)", Input: desc, Got: fmt.Sprintf("%x %v", capBytes(fb, 64), fp), Want: fmt.Sprintf("%x %v", capBytes(rb, 64), rp)})
	}
	var order [][2]uint64
	if !fp {
		// each side's bytes through the other side's parser (and its own)
		ff, fr := forkNext(fb), refNext(fb)
		rf, rr := forkNext(rb), refNext(rb)
		ff.Closed, fr.Closed, rf.Closed, rr.Closed = 0, 0, 0, 0
		// (with 8 / 0x33 smuggled in through the map the outcome depends on the iteration order,
		// so the two writers' outputs are only compared with each other when the map is clean)
		if ff.key() != fr.key() || rf.key() != rr.key() || (clean && ff.key() != rf.key()) {
			r.Fail(hk.Failure{Sig: "h3:settings-cross-parse", What: "fork and quic-go do not read each other's SETTINGS frame alike", Input: desc, Got: ff.key() + " / " + rf.key(), Want: fr.key() + " / " + rr.key()})
		}
		// payload size as written
		tl := rvi.Len(4)
		plen, _, _ := rvi.Parse(fb[tl:])
		if clean && plen <= 8192 {
			// duplicate-free and under the cap: the reference reads back exactly what went in
			if fr.Err != "" || fr.Kind != "settings" || fr.Datagram != d || fr.ExtConn != e || fmt.Sprint(fr.Other) != fmt.Sprint(sorted) || fr.Left != 0 {
				r.Fail(hk.Failure{Sig: "h3:settings-roundtrip", What: "quic-go does not read back the settings the fork wrote", Input: desc, Got: fr.key()})
			}
			r.Count("h3.settings.append.roundtrip")
		} else {
			r.Count("h3.settings.append.dirty-or-big")
		}
		// the iteration order this call used, read back with the reference varint reader
		rd := bytes.NewReader(fb)
		rvi.Read(rd)
		rvi.Read(rd)
		skip := 0
		if d {
			skip++
		}
		if e {
			skip++
		}
		for rd.Len() > 0 {
			id, err1 := rvi.Read(rd)
			v, err2 := rvi.Read(rd)
			if err1 != nil || err2 != nil {
				r.Fail(hk.Failure{Sig: "h3:settings-append-torn", What: "settingsFrame.Append wrote a payload that is not a sequence of varint pairs", Input: desc, Got: fmt.Sprintf("%x", capBytes(fb, 64))})
				break
			}
			if skip > 0 {
				skip--
				continue
			}
			order = append(order, [2]uint64{id, v})
		}
	}
	c := hk.Case{Desc: desc}
	if model {
		c.Coq = fmt.Sprintf("H3SettingsAppend %s %s %s %s %s", hk.CoqBool(d), hk.CoqBool(e), coqPairs(sorted), coqPairs(order), optBytes(!fp, fb))
		if fp {
			// order unknown when Append panicked: any order panics alike, give the sorted one
			c.Coq = fmt.Sprintf("H3SettingsAppend %s %s %s %s None", hk.CoqBool(d), hk.CoqBool(e), coqPairs(sorted), coqPairs(sorted))
		}
	}
	r.Add(c, fmt.Sprint("h3s|", d, e, sorted), len(other) > 0)
}

func fh3VerifParseNext(r io.Reader) (string, int64, error) {
	f, c, err := fh3.VerifParseNext(r)
	return fmt.Sprint(f.Kind, " ", f.Length), c, err
}

func refh3ParseNext(r io.Reader) (string, int64, error) {
	f, c, err := refh3.ParseNext(r)
	return fmt.Sprint(f.Kind, " ", f.Length), c, err
}
