// Package refh3 is the REFERENCE side of the C05 HTTP/3 comparison: frames.go and headers.go are
// verbatim copies of github.com/quic-go/quic-go v0.48.2 http3/frames.go and http3/headers.go (only
// the package clause is changed), because the functions under comparison (frameParser.ParseNext,
// parseSettingsFrame, settingsFrame.Append, parseHeaders, parseTrailers, updateResponseFromHeaders)
// are unexported upstream.  Pristine() proves on every run that the copies still equal the files in
// the module cache the harness was built against.  This file supplies the three identifiers the two
// files use from the rest of the upstream package and the exported wrappers (same shape as the
// fork's export_verif_c05.go).
package refh3

import (
	"bytes"
	"context"
	_ "embed"
	"fmt"
	"io"
	"net/http"
	"os"
	"os/exec"
	"path/filepath"
	"strings"
	"sync"

	"github.com/quic-go/qpack"
	"github.com/quic-go/quic-go"
	up "github.com/quic-go/quic-go/http3"
)

// from upstream error_codes.go (value taken from the exported constant of the real package)
const ErrCodeFrameUnexpected = up.ErrCodeFrameUnexpected

// from upstream capsule.go, verbatim
type countingByteReader struct {
	io.ByteReader
	Read int
}

func (r *countingByteReader) ReadByte() (byte, error) {
	b, err := r.ByteReader.ReadByte()
	if err == nil {
		r.Read++
	}
	return b, err
}

//go:embed frames.go
var framesSrc []byte

//go:embed headers.go
var headersSrc []byte

// Pristine compares the embedded copies with the module cache.
func Pristine() error {
	out, err := exec.Command("go", "env", "GOMODCACHE").Output()
	dir := strings.TrimSpace(string(out))
	if err != nil || dir == "" {
		if dir = os.Getenv("GOMODCACHE"); dir == "" {
			home, _ := os.UserHomeDir()
			dir = filepath.Join(home, "go", "pkg", "mod")
		}
	}
	base := filepath.Join(dir, "github.com", "quic-go", "quic-go@v0.48.2", "http3")
	for name, src := range map[string][]byte{"frames.go": framesSrc, "headers.go": headersSrc} {
		orig, err := os.ReadFile(filepath.Join(base, name))
		if err != nil {
			return fmt.Errorf("cannot read upstream %s: %w", name, err)
		}
		want := bytes.Replace(orig, []byte("\npackage http3\n"), []byte("\npackage refh3\n"), 1)
		if bytes.HasPrefix(orig, []byte("package http3\n")) {
			want = append([]byte("package refh3\n"), orig[len("package http3\n"):]...)
		}
		if !bytes.Equal(want, src) {
			return fmt.Errorf("harness/c05/refh3/%s differs from quic-go v0.48.2 http3/%s", name, name)
		}
	}
	return nil
}

// ---- wrappers ----

type Frame struct {
	Kind            string
	Length          uint64
	Datagram        bool
	ExtendedConnect bool
	Other           map[uint64]uint64
	GoAwayID        int64
}

type stubConn struct {
	quic.Connection
	mu     sync.Mutex
	closed int64
}

func (c *stubConn) CloseWithError(code quic.ApplicationErrorCode, _ string) error {
	c.mu.Lock()
	defer c.mu.Unlock()
	if c.closed < 0 {
		c.closed = int64(code)
	}
	return nil
}
func (c *stubConn) Context() context.Context { return context.Background() }

func project(f frame) Frame {
	switch f := f.(type) {
	case *dataFrame:
		return Frame{Kind: "data", Length: f.Length}
	case *headersFrame:
		return Frame{Kind: "headers", Length: f.Length}
	case *settingsFrame:
		return Frame{Kind: "settings", Datagram: f.Datagram, ExtendedConnect: f.ExtendedConnect, Other: f.Other}
	case *goAwayFrame:
		return Frame{Kind: "goaway", GoAwayID: int64(f.StreamID)}
	case nil:
		return Frame{Kind: "nil"}
	}
	return Frame{Kind: "other"}
}

func ParseNext(r io.Reader) (Frame, int64, error) {
	conn := &stubConn{closed: -1}
	fp := &frameParser{r: r, conn: conn}
	f, err := fp.ParseNext()
	if err != nil {
		return Frame{}, conn.closed, err
	}
	return project(f), conn.closed, nil
}

func ParseSettingsFrame(r io.Reader, l uint64) (Frame, error) {
	f, err := parseSettingsFrame(r, l)
	if err != nil {
		return Frame{}, err
	}
	return project(f), nil
}

func AppendDataFrame(b []byte, l uint64) []byte    { return (&dataFrame{Length: l}).Append(b) }
func AppendHeadersFrame(b []byte, l uint64) []byte { return (&headersFrame{Length: l}).Append(b) }
func AppendSettingsFrame(b []byte, datagram, extendedConnect bool, other map[uint64]uint64) []byte {
	return (&settingsFrame{Datagram: datagram, ExtendedConnect: extendedConnect, Other: other}).Append(b)
}

type Header struct {
	Path, Method, Authority, Scheme, Status, Protocol string
	ContentLength                                     int64
	Headers                                           http.Header
}

func ParseHeaders(fields []qpack.HeaderField, isRequest bool) (Header, error) {
	h, err := parseHeaders(fields, isRequest)
	if err != nil {
		return Header{}, err
	}
	return Header{Path: h.Path, Method: h.Method, Authority: h.Authority, Scheme: h.Scheme, Status: h.Status,
		Protocol: h.Protocol, ContentLength: h.ContentLength, Headers: h.Headers}, nil
}

func ParseTrailers(fields []qpack.HeaderField) (http.Header, error) { return parseTrailers(fields) }

func UpdateResponseFromHeaders(fields []qpack.HeaderField) (*http.Response, error) {
	rsp := &http.Response{}
	if err := updateResponseFromHeaders(rsp, fields); err != nil {
		return nil, err
	}
	return rsp, nil
}

// RequestFromHeaders is quic-go's server-side reading of a request field section: what the
// reference makes of the field section the fork's client wrote.
func RequestFromHeaders(fields []qpack.HeaderField) (*http.Request, error) {
	return requestFromHeaders(fields)
}
