package main

// HTTP/2 framer: fork (internal/http2) vs golang.org/x/net/http2 vs model.

import (
	"bytes"
	"encoding/binary"
	"errors"
	"fmt"
	"io"
	"strings"

	pubh2 "github.com/imroc/req/v3/http2"
	fh2 "github.com/imroc/req/v3/internal/http2"
	"github.com/imroc/req/v3/verifharness/hk"
	xh2 "golang.org/x/net/http2"
)

// obsFrame is the projected observable of one ReadFrame call.
type obsFrame struct {
	Err     string `json:"err,omitempty"` // "", conn:<code>, stream:<sid>:<code>, eof, ueof, toolarge, other:...
	Kind    string `json:"kind,omitempty"`
	Len     uint32 `json:"len"`
	Type    uint8  `json:"type"`
	Flags   uint8  `json:"flags"`
	SID     uint32 `json:"sid"`
	A, B    uint32 // kind-specific numbers
	Excl    bool
	Weight  uint8
	Payload string // kind-specific bytes (hex in JSON via %x when printed)
	Sets    [][2]uint32
}

func (o obsFrame) key() string { return fmt.Sprintf("%+v", o) }

func (o obsFrame) coq() string {
	if o.Err != "" {
		switch {
		case o.Err == "eof":
			return "(Err EEOF)"
		case o.Err == "ueof":
			return "(Err EUnexpectedEOF)"
		case o.Err == "toolarge":
			return "(Err EFrameTooLarge)"
		case strings.HasPrefix(o.Err, "conn:"):
			return "(Err (EConn " + o.Err[5:] + "))"
		case strings.HasPrefix(o.Err, "stream:"):
			p := strings.Split(o.Err, ":")
			return "(Err (EStream " + p[1] + " " + p[2] + "))"
		}
		return "(Err EBAD)"
	}
	h := fmt.Sprintf("(mkh %d %d %d %d)", o.Len, o.Type, o.Flags, o.SID)
	pl := hk.CoqBytes([]byte(o.Payload))
	prio := fmt.Sprintf("(mkprio %d %s %d)", o.A, hk.CoqBool(o.Excl), o.Weight)
	switch o.Kind {
	case "data":
		return fmt.Sprintf("(Ok (FData %s %s))", h, pl)
	case "headers":
		return fmt.Sprintf("(Ok (FHeaders %s %s %s))", h, prio, pl)
	case "priority":
		return fmt.Sprintf("(Ok (FPriority %s %s))", h, prio)
	case "rst":
		return fmt.Sprintf("(Ok (FRst %s %d))", h, o.A)
	case "settings":
		var xs []string
		for _, s := range o.Sets {
			xs = append(xs, fmt.Sprintf("(%d, %d)", s[0], s[1]))
		}
		return fmt.Sprintf("(Ok (FSettings %s %s))", h, hk.CoqList(xs))
	case "pushpromise":
		return fmt.Sprintf("(Ok (FPushPromise %s %d %s))", h, o.A, pl)
	case "ping":
		return fmt.Sprintf("(Ok (FPing %s %s))", h, pl)
	case "goaway":
		return fmt.Sprintf("(Ok (FGoAway %s %d %d %s))", h, o.A, o.B, pl)
	case "windowupdate":
		return fmt.Sprintf("(Ok (FWindowUpdate %s %d))", h, o.A)
	case "continuation":
		return fmt.Sprintf("(Ok (FContinuation %s %s))", h, pl)
	case "unknown":
		return fmt.Sprintf("(Ok (FUnknown %s %s))", h, pl)
	}
	return "(Err EBAD)"
}

func projectForkErr(err error) string {
	var ce fh2.ConnectionError
	var se fh2.StreamError
	switch {
	case errors.As(err, &ce):
		return fmt.Sprintf("conn:%d", uint32(ce))
	case errors.As(err, &se):
		return fmt.Sprintf("stream:%d:%d", se.StreamID, uint32(se.Code))
	case err == io.EOF:
		return "eof"
	case err == io.ErrUnexpectedEOF:
		return "ueof"
	case err.Error() == "http2: frame too large":
		return "toolarge"
	}
	return "other:" + err.Error()
}

func projectRefErr(err error) string {
	var ce xh2.ConnectionError
	var se xh2.StreamError
	switch {
	case errors.As(err, &ce):
		return fmt.Sprintf("conn:%d", uint32(ce))
	case errors.As(err, &se):
		return fmt.Sprintf("stream:%d:%d", se.StreamID, uint32(se.Code))
	case err == io.EOF:
		return "eof"
	case err == io.ErrUnexpectedEOF:
		return "ueof"
	case err == xh2.ErrFrameTooLarge:
		return "toolarge"
	}
	return "other:" + err.Error()
}

func projectFork(f fh2.Frame, err error) obsFrame {
	if err != nil {
		return obsFrame{Err: projectForkErr(err)}
	}
	h := f.Header()
	o := obsFrame{Len: h.Length, Type: uint8(h.Type), Flags: uint8(h.Flags), SID: h.StreamID}
	switch f := f.(type) {
	case *fh2.DataFrame:
		o.Kind, o.Payload = "data", string(f.Data())
	case *fh2.HeadersFrame:
		o.Kind, o.Payload = "headers", string(f.HeaderBlockFragment())
		o.A, o.Excl, o.Weight = f.Priority.StreamDep, f.Priority.Exclusive, f.Priority.Weight
	case *fh2.PriorityFrame:
		o.Kind = "priority"
		o.A, o.Excl, o.Weight = f.StreamDep, f.Exclusive, f.Weight
	case *fh2.RSTStreamFrame:
		o.Kind, o.A = "rst", uint32(f.ErrCode)
	case *fh2.SettingsFrame:
		o.Kind = "settings"
		for i := 0; i < f.NumSettings(); i++ {
			s := f.Setting(i)
			o.Sets = append(o.Sets, [2]uint32{uint32(s.ID), s.Val})
		}
	case *fh2.PushPromiseFrame:
		o.Kind, o.A, o.Payload = "pushpromise", f.PromiseID, string(f.HeaderBlockFragment())
	case *fh2.PingFrame:
		o.Kind, o.Payload = "ping", string(f.Data[:])
	case *fh2.GoAwayFrame:
		o.Kind, o.A, o.B, o.Payload = "goaway", f.LastStreamID, uint32(f.ErrCode), string(f.DebugData())
	case *fh2.WindowUpdateFrame:
		o.Kind, o.A = "windowupdate", f.Increment
	case *fh2.ContinuationFrame:
		o.Kind, o.Payload = "continuation", string(f.HeaderBlockFragment())
	case *fh2.UnknownFrame:
		o.Kind, o.Payload = "unknown", string(f.Payload())
	default:
		o.Err = fmt.Sprintf("other:unexpected frame type %T", f)
	}
	return o
}

func projectRef(f xh2.Frame, err error) obsFrame {
	if err != nil {
		return obsFrame{Err: projectRefErr(err)}
	}
	h := f.Header()
	o := obsFrame{Len: h.Length, Type: uint8(h.Type), Flags: uint8(h.Flags), SID: h.StreamID}
	switch f := f.(type) {
	case *xh2.DataFrame:
		o.Kind, o.Payload = "data", string(f.Data())
	case *xh2.HeadersFrame:
		o.Kind, o.Payload = "headers", string(f.HeaderBlockFragment())
		o.A, o.Excl, o.Weight = f.Priority.StreamDep, f.Priority.Exclusive, f.Priority.Weight
	case *xh2.PriorityFrame:
		o.Kind = "priority"
		o.A, o.Excl, o.Weight = f.StreamDep, f.Exclusive, f.Weight
	case *xh2.RSTStreamFrame:
		o.Kind, o.A = "rst", uint32(f.ErrCode)
	case *xh2.SettingsFrame:
		o.Kind = "settings"
		for i := 0; i < f.NumSettings(); i++ {
			s := f.Setting(i)
			o.Sets = append(o.Sets, [2]uint32{uint32(s.ID), s.Val})
		}
	case *xh2.PushPromiseFrame:
		o.Kind, o.A, o.Payload = "pushpromise", f.PromiseID, string(f.HeaderBlockFragment())
	case *xh2.PingFrame:
		o.Kind, o.Payload = "ping", string(f.Data[:])
	case *xh2.GoAwayFrame:
		o.Kind, o.A, o.B, o.Payload = "goaway", f.LastStreamID, uint32(f.ErrCode), string(f.DebugData())
	case *xh2.WindowUpdateFrame:
		o.Kind, o.A = "windowupdate", f.Increment
	case *xh2.ContinuationFrame:
		o.Kind, o.Payload = "continuation", string(f.HeaderBlockFragment())
	case *xh2.UnknownFrame:
		o.Kind, o.Payload = "unknown", string(f.Payload())
	default:
		o.Err = fmt.Sprintf("other:unexpected frame type %T", f)
	}
	return o
}

func isEOFClass(e string) bool { return e == "eof" || e == "ueof" }

// readAll drives ReadFrame over input until an EOF-class error or maxFrames reads.
func readAllFork(input []byte, maxRead uint32, maxFrames int) (out []obsFrame) {
	defer func() {
		if p := recover(); p != nil {
			out = append(out, obsFrame{Err: fmt.Sprint("other:panic:", p)})
		}
	}()
	fr := fh2.NewFramer(io.Discard, bytes.NewReader(input))
	fr.SetMaxReadFrameSize(maxRead)
	for i := 0; i < maxFrames; i++ {
		o := projectFork(fr.ReadFrame())
		out = append(out, o)
		if isEOFClass(o.Err) {
			break
		}
	}
	return out
}

func readAllRef(input []byte, maxRead uint32, maxFrames int) (out []obsFrame) {
	defer func() {
		if p := recover(); p != nil {
			out = append(out, obsFrame{Err: fmt.Sprint("other:panic:", p)})
		}
	}()
	fr := xh2.NewFramer(io.Discard, bytes.NewReader(input))
	fr.SetMaxReadFrameSize(maxRead)
	for i := 0; i < maxFrames; i++ {
		o := projectRef(fr.ReadFrame())
		out = append(out, o)
		if isEOFClass(o.Err) {
			break
		}
	}
	return out
}

// ---------- generators ----------

var h2SIDs = []uint32{0, 1, 2, 3, 5, 7, 0x7fffffff, 0x80000000, 0x80000001, 0xffffffff}

func rawFrame(length uint32, ty, flags uint8, sid uint32, payload []byte) []byte {
	b := []byte{byte(length >> 16), byte(length >> 8), byte(length), ty, flags, 0, 0, 0, 0}
	binary.BigEndian.PutUint32(b[5:], sid)
	return append(b, payload...)
}

func u32b(v uint32) []byte { b := make([]byte, 4); binary.BigEndian.PutUint32(b, v); return b }

var h2U32 = []uint32{0, 1, 2, 0x7ffffffe, 0x7fffffff, 0x80000000, 0x80000001, 0xffffffff, 65535, 65536, 16384}

// genPayload builds a mostly-plausible payload for the frame type, with boundary shapes.
func genPayload(rng *hk.Rand, ty uint8, flags uint8) []byte {
	small := func() []byte { return rng.Bytes(hk.Pick(rng, []int{0, 0, 1, 2, 3, 5, 8, 17, 40})) }
	pickU32 := func() uint32 {
		if rng.Chance(60) {
			return hk.Pick(rng, h2U32)
		}
		return uint32(rng.U64())
	}
	var p []byte
	padded := flags&0x8 != 0 && (ty == 0 || ty == 1 || ty == 5)
	body := func() []byte {
		switch ty {
		case 0, 9:
			return small()
		case 1:
			var b []byte
			if flags&0x20 != 0 {
				b = append(u32b(pickU32()), byte(rng.U64()))
				if rng.Chance(12) {
					b = b[:rng.Intn(len(b))]
				}
			}
			return append(b, small()...)
		case 2:
			b := append(u32b(pickU32()), byte(rng.U64()))
			if rng.Chance(20) {
				b = append(b, small()...)
				b = b[:rng.Intn(len(b)+1)]
			}
			return b
		case 3, 8:
			b := u32b(pickU32())
			if rng.Chance(20) {
				b = append(b, small()...)
				b = b[:rng.Intn(len(b)+1)]
			}
			return b
		case 4:
			n := hk.Pick(rng, []int{0, 1, 1, 2, 3, 6, 11})
			if flags&1 != 0 && rng.Chance(70) {
				n = 0
			}
			var b []byte
			for i := 0; i < n; i++ {
				id := uint16(rng.Range(0, 8))
				if rng.Chance(10) {
					id = uint16(rng.U64())
				}
				b = append(b, byte(id>>8), byte(id))
				b = append(b, u32b(pickU32())...)
			}
			if rng.Chance(15) {
				b = append(b, rng.Bytes(rng.Range(1, 5))...)
			}
			return b
		case 5:
			b := u32b(pickU32())
			if rng.Chance(12) {
				b = b[:rng.Intn(4)]
			}
			return append(b, small()...)
		case 6:
			if rng.Chance(80) {
				return rng.Bytes(8)
			}
			return rng.Bytes(hk.Pick(rng, []int{0, 7, 9, 16}))
		case 7:
			b := append(u32b(pickU32()), u32b(pickU32())...)
			b = append(b, small()...)
			if rng.Chance(15) {
				b = b[:rng.Intn(9)]
			}
			return b
		}
		return small()
	}()
	if padded {
		pad := 0
		switch rng.Intn(6) {
		case 0:
			pad = 0
		case 1:
			pad = len(body) // boundary: pad == remaining length (after we append pad zeros it is fine)
		case 2:
			pad = 255
		default:
			pad = rng.Intn(12)
		}
		switch rng.Intn(5) {
		case 0: // pad length byte only, maybe no room for the declared padding (too big)
			p = append([]byte{byte(pad)}, body...)
		case 1: // empty payload although PADDED
			if rng.Bool() {
				return nil
			}
			p = append([]byte{byte(pad)}, body...)
			p = append(p, make([]byte, pad)...)
		default:
			p = append([]byte{byte(pad)}, body...)
			p = append(p, make([]byte, pad)...)
			if pad > 0 && rng.Chance(20) {
				p = p[:len(p)-1-rng.Intn(pad)] // one or more short
			}
		}
		return p
	}
	return body
}

func genFrame(rng *hk.Rand, ty uint8, sidPool []uint32) []byte {
	var flags uint8
	switch rng.Intn(4) {
	case 0:
		flags = 0
	case 1:
		flags = hk.Pick(rng, []uint8{0x1, 0x4, 0x8, 0x20, 0x5, 0xc, 0x24, 0x28, 0x2d, 0xff})
	default:
		flags = uint8(rng.U64()) & hk.Pick(rng, []uint8{0x2d, 0x2d, 0x05, 0xff})
	}
	sid := hk.Pick(rng, sidPool)
	p := genPayload(rng, ty, flags)
	return rawFrame(uint32(len(p)), ty, flags, sid, p)
}

func h2ReadCase(r *hk.Run, input []byte, maxRead uint32, maxFrames int, tag string, model bool) {
	fo := readAllFork(input, maxRead, maxFrames)
	ro := readAllRef(input, maxRead, maxFrames)
	desc := map[string]interface{}{"kind": "h2-read", "tag": tag, "max_read": maxRead, "input": fmt.Sprintf("%x", input)}
	r.Count("h2.read." + tag)
	same := len(fo) == len(ro)
	for i := 0; same && i < len(fo); i++ {
		same = fo[i].key() == ro[i].key()
	}
	nontrivial := false
	for _, o := range fo {
		if o.Err == "" {
			r.Count("h2.frame." + o.Kind)
		} else {
			e := o.Err
			if i := strings.LastIndex(e, ":"); strings.HasPrefix(e, "stream:") && i > 0 {
				e = "stream:*:" + e[i+1:]
			}
			r.Count("h2.err." + e)
			nontrivial = true
		}
		if o.Len > 0 {
			nontrivial = true
		}
		if strings.HasPrefix(o.Err, "other:") {
			same = false
		}
	}
	if !same {
		r.Fail(hk.Failure{Sig: "h2:read:" + tag, What: "fork ReadFrame sequence differs from golang.org/x/net/http2 (frame fields or error class)", Input: desc, Got: fmt.Sprintf("%+v", fo), Want: fmt.Sprintf("%+v", ro)})
	}
	c := hk.Case{Desc: desc}
	if model {
		var xs []string
		for _, o := range fo {
			xs = append(xs, o.coq())
		}
		c.Coq = fmt.Sprintf("H2Read %d %s %s", maxRead, hk.CoqBytes(input), hk.CoqList(xs))
	}
	r.Add(c, fmt.Sprintf("h2r|%d|%s", maxRead, input), nontrivial)
}

func runH2Read(r *hk.Run, rng *hk.Rand) {
	const defMax = 1<<24 - 1
	// (1) every type 0..12 x boundary flag sets x boundary stream ids x empty payload and a small one
	for ty := 0; ty <= 12; ty++ {
		for _, flags := range []uint8{0, 1, 4, 8, 0x20, 0x2d, 0xff} {
			for _, sid := range []uint32{0, 1, 0x7fffffff, 0x80000000, 0x80000003} {
				p := genPayload(rng, uint8(ty), flags)
				h2ReadCase(r, rawFrame(uint32(len(p)), uint8(ty), flags, sid, p), defMax, 2, "grid", sid != 0x80000003)
			}
		}
	}
	// (2) random single frames, mostly valid payload shapes
	n := r.Scale(12000, 600000)
	modelEvery := n / r.Scale(1500, 15000)
	for i := 0; i < n; i++ {
		ty := uint8(rng.Intn(11))
		if rng.Chance(5) {
			ty = uint8(rng.U64())
		}
		h2ReadCase(r, genFrame(rng, ty, h2SIDs), defMax, 2, "single", i%modelEvery == 0)
	}
	// (3) truncated streams and length-field lies
	n = r.Scale(1500, 60000)
	modelEvery = n / r.Scale(300, 3000)
	for i := 0; i < n; i++ {
		f := genFrame(rng, uint8(rng.Intn(10)), h2SIDs)
		switch rng.Intn(4) {
		case 0:
			f = f[:rng.Intn(len(f)+1)]
		case 1: // declared length larger than what follows
			l := uint32(len(f)-9) + uint32(rng.Range(1, 5))
			f[0], f[1], f[2] = byte(l>>16), byte(l>>8), byte(l)
		case 2: // declared length smaller: the tail is read as the next frame header
			if len(f) > 9 {
				l := uint32(rng.Intn(len(f) - 9))
				f[0], f[1], f[2] = byte(l>>16), byte(l>>8), byte(l)
			}
		case 3:
			f = append(f, genFrame(rng, uint8(rng.Intn(10)), h2SIDs)...)
			f = f[:len(f)-rng.Intn(10)]
		}
		h2ReadCase(r, f, defMax, 4, "truncated", i%modelEvery == 0)
	}
	// (4) maxReadSize: frames at limit-1, limit, limit+1 for several limits
	for _, lim := range []uint32{0, 1, 8, 16384, 16385, 65535} {
		for _, d := range []int{-1, 0, 1} {
			l := int(lim) + d
			if l < 0 {
				continue
			}
			p := make([]byte, l)
			in := append(rawFrame(uint32(l), 0, 0, 1, p), rawFrame(8, 6, 0, 0, make([]byte, 8))...)
			h2ReadCase(r, in, lim, 3, "maxread", l < 2000)
		}
	}
	h2ReadCase(r, rawFrame(1<<24-1, 0, 0, 1, nil), 1<<24-1, 2, "maxread", true)
	h2ReadCase(r, rawFrame(1<<24-1, 0, 0, 1, nil), 1<<31, 2, "maxread", true) // SetMaxReadFrameSize clamps
	// (5) HEADERS / CONTINUATION sequences incl. illegal interleavings
	n = r.Scale(4000, 200000)
	modelEvery = n / r.Scale(800, 8000)
	for i := 0; i < n; i++ {
		var in []byte
		k := rng.Range(1, 6)
		pool := []uint32{1, 1, 1, 3, 3, 5, 0}
		for j := 0; j < k; j++ {
			var ty uint8
			switch x := rng.Intn(10); {
			case x < 3:
				ty = 1
			case x < 8:
				ty = 9
			default:
				ty = hk.Pick(rng, []uint8{0, 4, 6, 8, 3, 2, 5, 7, 10})
			}
			flags := hk.Pick(rng, []uint8{0, 0, 4, 4, 5, 1})
			sid := hk.Pick(rng, pool)
			if ty == 4 || ty == 6 || ty == 7 {
				if rng.Chance(80) {
					sid = 0
				}
			}
			p := genPayload(rng, ty, flags)
			if (ty == 4 || ty == 6) && rng.Chance(85) {
				flags = 0
				if ty == 6 {
					p = rng.Bytes(8)
				} else {
					p = nil
				}
			}
			in = append(in, rawFrame(uint32(len(p)), ty, flags, sid, p)...)
		}
		h2ReadCase(r, in, defMax, k+1, "sequence", i%modelEvery == 0)
	}
}

// ---------- writers ----------

type wobs struct {
	Bytes []byte
	Err   string
}

func (w wobs) coq() string {
	switch w.Err {
	case "":
		return "(WOk " + hk.CoqBytes(w.Bytes) + ")"
	case "invalid stream ID":
		return "(WErr WStreamID)"
	case "invalid dependent stream ID":
		return "(WErr WDepStreamID)"
	case "pad length too large":
		return "(WErr WPadLength)"
	case "padding bytes must all be zeros unless AllowIllegalWrites is enabled":
		return "(WErr WPadBytes)"
	case "illegal window increment value":
		return "(WErr WWindowIncr)"
	case "http2: frame too large":
		return "(WErr WFrameTooLarge)"
	}
	return "(WErr WBAD)"
}

func doWrite(f func(w io.Writer) error) (o wobs) {
	defer func() {
		if p := recover(); p != nil {
			o = wobs{Err: fmt.Sprint("panic:", p)}
		}
	}()
	var buf bytes.Buffer
	if err := f(&buf); err != nil {
		return wobs{Bytes: buf.Bytes(), Err: err.Error()}
	}
	return wobs{Bytes: buf.Bytes()}
}

// the closures of the last h2WriteCase call (re-run on the persistent Framers by runH2Write)
var h2SeqFork, h2SeqRef func(w io.Writer) error

func h2WriteCase(r *hk.Run, name, coqCall string, desc map[string]interface{}, fork, ref func(w io.Writer) error, model bool) {
	h2SeqFork, h2SeqRef = fork, ref
	fo, ro := doWrite(fork), doWrite(ref)
	desc["kind"] = "h2-write"
	desc["call"] = name
	r.Count("h2.write." + name)
	if fo.Err != "" {
		r.Count("h2.write.rejected")
	}
	if fo.Err != ro.Err || !bytes.Equal(fo.Bytes, ro.Bytes) {
		r.Fail(hk.Failure{Sig: "h2:write:" + name, What: "fork Write* output differs from golang.org/x/net/http2 for the same arguments", Input: desc,
			Got: fmt.Sprintf("%x %q", trunc(fo.Bytes), fo.Err), Want: fmt.Sprintf("%x %q", trunc(ro.Bytes), ro.Err)})
	}
	if fo.Err != "" && len(fo.Bytes) != 0 {
		r.Fail(hk.Failure{Sig: "h2:write-partial:" + name, What: "a rejected Write* put bytes on the wire", Input: desc, Got: fmt.Sprintf("%x", trunc(fo.Bytes))})
	}
	c := hk.Case{Desc: desc}
	if model && len(fo.Bytes) < 70000 {
		c.Coq = fmt.Sprintf("H2Write (%s) %s", coqCall, fo.coq())
	}
	r.Add(c, "h2w|"+coqCall, true)
}

func trunc(b []byte) []byte {
	if len(b) > 64 {
		return b[:64]
	}
	return b
}

func coqPrio(dep uint32, excl bool, w uint8) string {
	return fmt.Sprintf("(mkprio %d %s %d)", dep, hk.CoqBool(excl), w)
}

func runH2Write(r *hk.Run, rng *hk.Rand) {
	n := r.Scale(6000, 300000)
	modelEvery := n / r.Scale(1500, 12000)
	sids := []uint32{0, 1, 2, 3, 0x7ffffffe, 0x7fffffff, 0x80000000, 0x80000001, 0xffffffff}
	pickSID := func() uint32 {
		if rng.Chance(70) {
			return hk.Pick(rng, sids)
		}
		return uint32(rng.U64())
	}
	pickU32 := func() uint32 {
		if rng.Chance(60) {
			return hk.Pick(rng, h2U32)
		}
		return uint32(rng.U64())
	}
	blob := func() []byte {
		return rng.Bytes(hk.Pick(rng, []int{0, 0, 1, 2, 9, 33, 100, 255, 256, 257}))
	}
	// ONE Framer per side kept over runs of 6 calls: what a call leaves in the Framer's write buffer
	// must not leak into the next frame (the same call also goes through a fresh Framer)
	var seqBufF, seqBufX bytes.Buffer
	seqF, seqX := fh2.NewFramer(&seqBufF, nil), xh2.NewFramer(&seqBufX, nil)
	var seqCalls []string
	for i := 0; i < n; i++ {
		m := i%modelEvery == 0
		aiw := rng.Chance(15)
		if i%6 == 0 {
			seqBufF.Reset()
			seqBufX.Reset()
			seqF, seqX = fh2.NewFramer(&seqBufF, nil), xh2.NewFramer(&seqBufX, nil)
			seqCalls = nil
		}
		mk := func(w io.Writer) (*fh2.Framer, *xh2.Framer) {
			if w == io.Writer(&seqBufF) || w == io.Writer(&seqBufX) {
				seqF.AllowIllegalWrites, seqX.AllowIllegalWrites = aiw, aiw
				return seqF, seqX
			}
			f, x := fh2.NewFramer(w, nil), xh2.NewFramer(w, nil)
			f.AllowIllegalWrites, x.AllowIllegalWrites = aiw, aiw
			return f, x
		}
		h2SeqFork, h2SeqRef = nil, nil
		A := hk.CoqBool(aiw)
		switch rng.Intn(12) {
		case 0:
			sid, es, data := pickSID(), rng.Bool(), blob()
			var pad []byte
			padCoq := "None"
			switch rng.Intn(6) {
			case 0:
			case 1:
				pad = []byte{}
			case 2:
				pad = make([]byte, hk.Pick(rng, []int{1, 2, 254, 255, 256, 300}))
			case 3:
				pad = make([]byte, rng.Range(1, 9))
				pad[rng.Intn(len(pad))] = byte(rng.Range(1, 255))
			default:
				pad = make([]byte, rng.Range(1, 30))
			}
			if pad != nil {
				padCoq = "(Some " + hk.CoqBytes(pad) + ")"
			}
			h2WriteCase(r, "WriteDataPadded", fmt.Sprintf("WData %s %d %s %s %s", A, sid, hk.CoqBool(es), hk.CoqBytes(data), padCoq),
				map[string]interface{}{"aiw": aiw, "sid": sid, "end_stream": es, "data": fmt.Sprintf("%x", data), "pad_nil": pad == nil, "pad": fmt.Sprintf("%x", pad)},
				func(w io.Writer) error {
					f, _ := mk(w)
					if pad == nil && sid%2 == 1 {
						return f.WriteData(sid, es, data)
					}
					return f.WriteDataPadded(sid, es, data, pad)
				},
				func(w io.Writer) error { _, x := mk(w); return x.WriteDataPadded(sid, es, data, pad) }, m)
		case 1, 2:
			sid, frag, es, eh := pickSID(), blob(), rng.Bool(), rng.Bool()
			padlen := uint8(hk.Pick(rng, []int{0, 0, 0, 1, 7, 255}))
			var dep uint32
			var excl bool
			var wt uint8
			if rng.Chance(60) {
				dep, excl, wt = pickSID(), rng.Bool(), uint8(hk.Pick(rng, []int{0, 1, 15, 255}))
			}
			h2WriteCase(r, "WriteHeaders", fmt.Sprintf("WHeaders %s %d %s %s %s %d %s", A, sid, hk.CoqBytes(frag), hk.CoqBool(es), hk.CoqBool(eh), padlen, coqPrio(dep, excl, wt)),
				map[string]interface{}{"aiw": aiw, "sid": sid, "frag": fmt.Sprintf("%x", frag), "end_stream": es, "end_headers": eh, "padlen": padlen, "dep": dep, "excl": excl, "weight": wt},
				func(w io.Writer) error {
					f, _ := mk(w)
					return f.WriteHeaders(fh2.HeadersFrameParam{StreamID: sid, BlockFragment: frag, EndStream: es, EndHeaders: eh, PadLength: padlen,
						Priority: pubh2.PriorityParam{StreamDep: dep, Exclusive: excl, Weight: wt}})
				},
				func(w io.Writer) error {
					_, x := mk(w)
					return x.WriteHeaders(xh2.HeadersFrameParam{StreamID: sid, BlockFragment: frag, EndStream: es, EndHeaders: eh, PadLength: padlen,
						Priority: xh2.PriorityParam{StreamDep: dep, Exclusive: excl, Weight: wt}})
				}, m)
		case 3:
			sid, dep, excl, wt := pickSID(), pickSID(), rng.Bool(), uint8(rng.U64())
			if rng.Chance(50) { // boundary weights (0 with the exclusive bit, 255)
				wt = uint8(hk.Pick(rng, []int{0, 0, 1, 255}))
			}
			h2WriteCase(r, "WritePriority", fmt.Sprintf("WPriority %s %d %s", A, sid, coqPrio(dep, excl, wt)),
				map[string]interface{}{"aiw": aiw, "sid": sid, "dep": dep, "excl": excl, "weight": wt},
				func(w io.Writer) error {
					f, _ := mk(w)
					return f.WritePriority(sid, pubh2.PriorityParam{StreamDep: dep, Exclusive: excl, Weight: wt})
				},
				func(w io.Writer) error {
					_, x := mk(w)
					return x.WritePriority(sid, xh2.PriorityParam{StreamDep: dep, Exclusive: excl, Weight: wt})
				}, m)
		case 4:
			sid, code := pickSID(), pickU32()
			h2WriteCase(r, "WriteRSTStream", fmt.Sprintf("WRst %s %d %d", A, sid, code),
				map[string]interface{}{"aiw": aiw, "sid": sid, "code": code},
				func(w io.Writer) error { f, _ := mk(w); return f.WriteRSTStream(sid, fh2.ErrCode(code)) },
				func(w io.Writer) error { _, x := mk(w); return x.WriteRSTStream(sid, xh2.ErrCode(code)) }, m)
		case 5:
			k := hk.Pick(rng, []int{0, 1, 2, 3, 6, 7})
			var fs []pubh2.Setting
			var xs []xh2.Setting
			var cs []string
			for j := 0; j < k; j++ {
				id := uint16(rng.Range(0, 8))
				if rng.Chance(10) {
					id = uint16(rng.U64())
				}
				v := pickU32()
				fs = append(fs, pubh2.Setting{ID: pubh2.SettingID(id), Val: v})
				xs = append(xs, xh2.Setting{ID: xh2.SettingID(id), Val: v})
				cs = append(cs, fmt.Sprintf("(%d, %d)", id, v))
			}
			if rng.Chance(8) {
				h2WriteCase(r, "WriteSettingsAck", "WSettingsAck", map[string]interface{}{},
					func(w io.Writer) error { f, _ := mk(w); return f.WriteSettingsAck() },
					func(w io.Writer) error { _, x := mk(w); return x.WriteSettingsAck() }, m)
				continue
			}
			h2WriteCase(r, "WriteSettings", "WSettings "+hk.CoqList(cs), map[string]interface{}{"settings": cs},
				func(w io.Writer) error { f, _ := mk(w); return f.WriteSettings(fs...) },
				func(w io.Writer) error { _, x := mk(w); return x.WriteSettings(xs...) }, m)
		case 6:
			ack := rng.Bool()
			var d [8]byte
			copy(d[:], rng.Bytes(8))
			h2WriteCase(r, "WritePing", fmt.Sprintf("WPing %s %s", hk.CoqBool(ack), hk.CoqBytes(d[:])),
				map[string]interface{}{"ack": ack, "data": fmt.Sprintf("%x", d)},
				func(w io.Writer) error { f, _ := mk(w); return f.WritePing(ack, d) },
				func(w io.Writer) error { _, x := mk(w); return x.WritePing(ack, d) }, m)
		case 7:
			last, code, dbg := pickSID(), pickU32(), blob()
			h2WriteCase(r, "WriteGoAway", fmt.Sprintf("WGoAway %d %d %s", last, code, hk.CoqBytes(dbg)),
				map[string]interface{}{"last": last, "code": code, "debug": fmt.Sprintf("%x", dbg)},
				func(w io.Writer) error { f, _ := mk(w); return f.WriteGoAway(last, fh2.ErrCode(code), dbg) },
				func(w io.Writer) error { _, x := mk(w); return x.WriteGoAway(last, xh2.ErrCode(code), dbg) }, m)
		case 8:
			sid, incr := pickSID(), pickU32()
			h2WriteCase(r, "WriteWindowUpdate", fmt.Sprintf("WWindowUpdate %s %d %d", A, sid, incr),
				map[string]interface{}{"aiw": aiw, "sid": sid, "incr": incr},
				func(w io.Writer) error { f, _ := mk(w); return f.WriteWindowUpdate(sid, incr) },
				func(w io.Writer) error { _, x := mk(w); return x.WriteWindowUpdate(sid, incr) }, m)
		case 9:
			sid, eh, frag := pickSID(), rng.Bool(), blob()
			h2WriteCase(r, "WriteContinuation", fmt.Sprintf("WContinuation %s %d %s %s", A, sid, hk.CoqBool(eh), hk.CoqBytes(frag)),
				map[string]interface{}{"aiw": aiw, "sid": sid, "end_headers": eh, "frag": fmt.Sprintf("%x", frag)},
				func(w io.Writer) error { f, _ := mk(w); return f.WriteContinuation(sid, eh, frag) },
				func(w io.Writer) error { _, x := mk(w); return x.WriteContinuation(sid, eh, frag) }, m)
		case 10:
			sid, promise, frag, eh := pickSID(), pickSID(), blob(), rng.Bool()
			padlen := uint8(hk.Pick(rng, []int{0, 0, 1, 9, 255}))
			h2WriteCase(r, "WritePushPromise", fmt.Sprintf("WPushPromise %s %d %d %s %s %d", A, sid, promise, hk.CoqBytes(frag), hk.CoqBool(eh), padlen),
				map[string]interface{}{"aiw": aiw, "sid": sid, "promise": promise, "frag": fmt.Sprintf("%x", frag), "end_headers": eh, "padlen": padlen},
				func(w io.Writer) error {
					f, _ := mk(w)
					return f.WritePushPromise(fh2.PushPromiseParam{StreamID: sid, PromiseID: promise, BlockFragment: frag, EndHeaders: eh, PadLength: padlen})
				},
				func(w io.Writer) error {
					_, x := mk(w)
					return x.WritePushPromise(xh2.PushPromiseParam{StreamID: sid, PromiseID: promise, BlockFragment: frag, EndHeaders: eh, PadLength: padlen})
				}, m)
		case 11:
			ty, flags, sid, p := uint8(rng.U64()), uint8(rng.U64()), pickSID(), blob()
			h2WriteCase(r, "WriteRawFrame", fmt.Sprintf("WRaw %d %d %d %s", ty, flags, sid, hk.CoqBytes(p)),
				map[string]interface{}{"type": ty, "flags": flags, "sid": sid, "payload": fmt.Sprintf("%x", p)},
				func(w io.Writer) error { f, _ := mk(w); return f.WriteRawFrame(fh2.FrameType(ty), fh2.Flags(flags), sid, p) },
				func(w io.Writer) error { _, x := mk(w); return x.WriteRawFrame(xh2.FrameType(ty), xh2.Flags(flags), sid, p) }, m)
		}
		if h2SeqFork != nil {
			var e1, e2 error
			p1 := caught(func() { e1 = h2SeqFork(&seqBufF) })
			p2 := caught(func() { e2 = h2SeqRef(&seqBufX) })
			seqCalls = append(seqCalls, fmt.Sprint(i))
			r.Count("h2.write.seq")
			if p1 != p2 || fmt.Sprint(e1) != fmt.Sprint(e2) || !bytes.Equal(seqBufF.Bytes(), seqBufX.Bytes()) {
				r.Fail(hk.Failure{Sig: "h2:write-seq", What: "successive Write* calls on ONE Framer put different bytes on the wire than golang.org/x/net/http2 (something of an earlier call leaked into a later frame)", Input: map[string]interface{}{"kind": "h2-write-seq", "calls": seqCalls, "position_in_run": i % 6},
					Got: fmt.Sprintf("%x %v", trunc(seqBufF.Bytes()), e1), Want: fmt.Sprintf("%x %v", trunc(seqBufX.Bytes()), e2)})
				seqBufF.Reset()
				seqBufX.Reset()
			}
		}
	}
	// every combination of boundary priority parameters, through WritePriority and WriteHeaders
	for _, dep := range []uint32{0, 1, 3, 0x7fffffff, 0x80000000} {
		for _, excl := range []bool{false, true} {
			for _, wt := range []uint8{0, 1, 15, 254, 255} {
				for _, aiw := range []bool{false, true} {
					dep, excl, wt, aiw := dep, excl, wt, aiw
					A := hk.CoqBool(aiw)
					h2WriteCase(r, "WritePriority", fmt.Sprintf("WPriority %s %d %s", A, 5, coqPrio(dep, excl, wt)),
						map[string]interface{}{"aiw": aiw, "sid": 5, "dep": dep, "excl": excl, "weight": wt, "grid": true},
						func(w io.Writer) error {
							f := fh2.NewFramer(w, nil)
							f.AllowIllegalWrites = aiw
							return f.WritePriority(5, pubh2.PriorityParam{StreamDep: dep, Exclusive: excl, Weight: wt})
						},
						func(w io.Writer) error {
							x := xh2.NewFramer(w, nil)
							x.AllowIllegalWrites = aiw
							return x.WritePriority(5, xh2.PriorityParam{StreamDep: dep, Exclusive: excl, Weight: wt})
						}, true)
					h2WriteCase(r, "WriteHeaders", fmt.Sprintf("WHeaders %s %d %s %s %s %d %s", A, 5, hk.CoqBytes([]byte{0x82}), "false", "true", 0, coqPrio(dep, excl, wt)),
						map[string]interface{}{"aiw": aiw, "sid": 5, "dep": dep, "excl": excl, "weight": wt, "grid": true},
						func(w io.Writer) error {
							f := fh2.NewFramer(w, nil)
							f.AllowIllegalWrites = aiw
							return f.WriteHeaders(fh2.HeadersFrameParam{StreamID: 5, BlockFragment: []byte{0x82}, EndHeaders: true,
								Priority: pubh2.PriorityParam{StreamDep: dep, Exclusive: excl, Weight: wt}})
						},
						func(w io.Writer) error {
							x := xh2.NewFramer(w, nil)
							x.AllowIllegalWrites = aiw
							return x.WriteHeaders(xh2.HeadersFrameParam{StreamID: 5, BlockFragment: []byte{0x82}, EndHeaders: true,
								Priority: xh2.PriorityParam{StreamDep: dep, Exclusive: excl, Weight: wt}})
						}, true)
				}
			}
		}
	}
	// frame-too-large boundary (Go-only: a 16 MiB literal is not sent to Coq)
	for _, l := range []int{1<<24 - 1, 1 << 24} {
		big := make([]byte, l)
		h2WriteCase(r, "WriteData-16MiB", fmt.Sprintf("WDataBig %d", l), map[string]interface{}{"len": l},
			func(w io.Writer) error { return fh2.NewFramer(w, nil).WriteData(1, false, big) },
			func(w io.Writer) error { return xh2.NewFramer(w, nil).WriteData(1, false, big) }, false)
		h2WriteCase(r, "WriteRawFrame-16MiB", fmt.Sprintf("WRawBig %d", l), map[string]interface{}{"len": l},
			func(w io.Writer) error { return fh2.NewFramer(w, nil).WriteRawFrame(0xfa, 0, 0, big) },
			func(w io.Writer) error { return xh2.NewFramer(w, nil).WriteRawFrame(0xfa, 0, 0, big) }, false)
	}
}
