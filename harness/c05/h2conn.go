package main

// One live HTTP/2 connection, several streams at once: the fork's ClientConn (internal/http2) on
// one end of a loopback TCP connection, on the other end a peer built from the REFERENCE framer and
// ONE reference HPACK decoder (golang.org/x/net/http2, hpack) that decodes every header block in
// the order it arrives - as RFC 7541 wants.  The connection's write lock is held for a moment (as a
// flush, a SETTINGS ack or a PING reply would) to force several streams to come to write at the same
// time: request headers against request trailers, trailers against trailers, three requests at once.
// Whatever order the blocks take on the wire, each must decode to the fields of its own exchange.

import (
	"fmt"
	"io"
	"net"
	"net/http"
	"sort"
	"strings"
	"sync"
	"time"

	fh2 "github.com/imroc/req/v3/internal/http2"
	"github.com/imroc/req/v3/internal/transport"
	"github.com/imroc/req/v3/verifharness/hk"
	xh2 "golang.org/x/net/http2"
	"golang.org/x/net/http2/hpack"
)

type peerBlock struct {
	stream    uint32
	endStream bool
	fields    []hpack.HeaderField
	err       error
}

type h2Peer struct {
	mu      sync.Mutex
	blocks  []peerBlock
	data    map[uint32]int
	ackSeen bool
	readErr error
	done    chan struct{}
}

func (p *h2Peer) serve(c net.Conn) {
	defer close(p.done)
	preface := make([]byte, len(xh2.ClientPreface))
	if _, err := io.ReadFull(c, preface); err != nil {
		p.readErr = err
		return
	}
	fr := xh2.NewFramer(c, c)
	if err := fr.WriteSettings(); err != nil {
		p.readErr = err
		return
	}
	dec := hpack.NewDecoder(4096, nil)
	var cur *peerBlock
	var frag []byte
	finish := func() {
		cur.fields, cur.err = dec.DecodeFull(frag)
		p.mu.Lock()
		p.blocks = append(p.blocks, *cur)
		p.mu.Unlock()
		if cur.endStream { // answer, so that the client's RoundTrip returns
			var hb strings.Builder
			henc := hpack.NewEncoder(&hb)
			henc.WriteField(hpack.HeaderField{Name: ":status", Value: "204"})
			fr.WriteHeaders(xh2.HeadersFrameParam{StreamID: cur.stream, BlockFragment: []byte(hb.String()), EndHeaders: true, EndStream: true})
		}
		cur, frag = nil, nil
	}
	for {
		f, err := fr.ReadFrame()
		if err != nil {
			p.readErr = err
			return
		}
		switch f := f.(type) {
		case *xh2.SettingsFrame:
			if f.IsAck() {
				p.mu.Lock()
				p.ackSeen = true
				p.mu.Unlock()
			} else {
				fr.WriteSettingsAck()
			}
		case *xh2.HeadersFrame:
			cur = &peerBlock{stream: f.StreamID, endStream: f.StreamEnded()}
			frag = append([]byte(nil), f.HeaderBlockFragment()...)
			if f.HeadersEnded() {
				finish()
			}
		case *xh2.ContinuationFrame:
			frag = append(frag, f.HeaderBlockFragment()...)
			if f.HeadersEnded() {
				finish()
			}
		case *xh2.DataFrame:
			p.mu.Lock()
			p.data[f.StreamID] += len(f.Data())
			p.mu.Unlock()
			if f.StreamEnded() {
				var hb strings.Builder
				henc := hpack.NewEncoder(&hb)
				henc.WriteField(hpack.HeaderField{Name: ":status", Value: "204"})
				fr.WriteHeaders(xh2.HeadersFrameParam{StreamID: f.StreamID, BlockFragment: []byte(hb.String()), EndHeaders: true, EndStream: true})
			}
		}
	}
}

// waitFor polls cond (under the peer's lock) for up to 10 s; generous, no assertion on the duration.
func (p *h2Peer) waitFor(cond func() bool) bool {
	deadline := time.Now().Add(10 * time.Second)
	for {
		p.mu.Lock()
		ok := cond()
		p.mu.Unlock()
		if ok {
			return true
		}
		if time.Now().After(deadline) {
			return false
		}
		time.Sleep(2 * time.Millisecond)
	}
}

type connReq struct {
	tag      string
	streamed bool // body from a pipe, ended on command; carries a trailer
	req      *http.Request
	pw       *io.PipeWriter
	wantHdr  map[string]string
	wantTrl  map[string]string
	done     chan error
}

func renderFields(fs []hpack.HeaderField) string {
	var xs []string
	for _, f := range fs {
		xs = append(xs, f.Name+"="+f.Value)
	}
	sort.Strings(xs)
	return strings.Join(xs, ";")
}

func hasAll(fs []hpack.HeaderField, want map[string]string) bool {
	for k, v := range want {
		ok := false
		for _, f := range fs {
			if f.Name == k && f.Value == v {
				ok = true
			}
		}
		if !ok {
			return false
		}
	}
	return true
}

func runH2Conn(r *hk.Run, rng *hk.Rand) {
	scenarios := []string{"trailers-vs-headers", "trailers-vs-trailers", "trailers-vs-two-headers", "headers-vs-headers", "no-contention"}
	n := r.Scale(10, 200)
	for i := 0; i < n; i++ {
		sc := scenarios[i%len(scenarios)]
		desc := map[string]interface{}{"kind": "h2-conn-interleaved", "scenario": sc, "round": i}
		r.Count("h2.conn." + sc)
		fail := func(sig, what, got string) {
			r.Fail(hk.Failure{Sig: "h2:conn:" + sig + ":" + sc, What: what, Input: desc, Got: got})
		}
		ln, err := net.Listen("tcp", "127.0.0.1:0")
		if err != nil {
			r.Count("h2.conn.skipped-no-listener")
			continue
		}
		peer := &h2Peer{data: map[uint32]int{}, done: make(chan struct{})}
		go func() {
			c, err := ln.Accept()
			if err != nil {
				close(peer.done)
				return
			}
			peer.serve(c)
		}()
		conn, err := net.Dial("tcp", ln.Addr().String())
		if err != nil {
			ln.Close()
			r.Count("h2.conn.skipped-no-dial")
			continue
		}
		tr := &fh2.Transport{Options: &transport.Options{}, AllowHTTP: true}
		cc, err := tr.NewClientConn(conn)
		if err != nil {
			fail("setup", "NewClientConn failed", err.Error())
			conn.Close()
			ln.Close()
			continue
		}
		peer.waitFor(func() bool { return peer.ackSeen })
		base := "http://" + ln.Addr().String()
		mk := func(tag string, streamed bool) *connReq {
			q := &connReq{tag: tag, streamed: streamed, done: make(chan error, 1)}
			common := "shared-" + fmt.Sprint(i) // the same field in every request: served from the dynamic table
			if streamed {
				pr, pw := io.Pipe()
				q.pw = pw
				q.req, _ = http.NewRequest("POST", base+"/"+tag, pr)
				q.req.Trailer = http.Header{"X-Trailer-" + tag: {"trailer-value-" + tag}, "X-Common-Trailer": {common}}
				q.wantTrl = map[string]string{"x-trailer-" + strings.ToLower(tag): "trailer-value-" + tag, "x-common-trailer": common}
			} else {
				q.req, _ = http.NewRequest("GET", base+"/"+tag, nil)
			}
			q.req.Header.Set("X-Req", "request-"+tag)
			q.req.Header.Set("X-Common", common)
			q.req.Header.Set("User-Agent", "ua")
			for j, k := 0, rng.Intn(3); j < k; j++ {
				q.req.Header.Add(hk.Pick(rng, encNames[:6]), hk.Pick(rng, encValues[:6])+tag)
			}
			q.wantHdr = map[string]string{":path": "/" + tag, "x-req": "request-" + tag, "x-common": common}
			return q
		}
		start := func(q *connReq) {
			go func() {
				rsp, err := cc.RoundTrip(q.req)
				if rsp != nil && rsp.Body != nil {
					rsp.Body.Close()
				}
				q.done <- err
			}()
		}
		var reqs []*connReq
		var streamed []*connReq
		switch sc {
		case "trailers-vs-headers":
			streamed = []*connReq{mk("A", true)}
			reqs = []*connReq{mk("B", false)}
		case "trailers-vs-trailers":
			streamed = []*connReq{mk("A", true), mk("C", true)}
		case "trailers-vs-two-headers":
			streamed = []*connReq{mk("A", true)}
			reqs = []*connReq{mk("B", false), mk("D", false)}
		case "headers-vs-headers":
			reqs = []*connReq{mk("B", false), mk("D", false), mk("E", false)}
		case "no-contention":
			streamed = []*connReq{mk("A", true)}
			reqs = []*connReq{mk("B", false)}
		}
		// the streamed requests first: HEADERS and a first DATA frame are out, the body reader waits
		for k, q := range streamed {
			start(q)
			q.pw.Write([]byte("hello"))
			want := k + 1
			peer.waitFor(func() bool { return len(peer.blocks) >= want })
		}
		peer.waitFor(func() bool {
			for k := range streamed {
				if peer.data[uint32(2*k+1)] < 5 {
					return false
				}
			}
			return true
		})
		time.Sleep(20 * time.Millisecond) // back in body.Read
		var release func()
		if sc != "no-contention" {
			release = fh2.VerifHoldWriteLock(cc)
		}
		// new requests queue up on the write lock, one after the other
		for _, q := range reqs {
			start(q)
			for d := time.Now().Add(5 * time.Second); !fh2.VerifNewRequestPending(cc) && time.Now().Before(d) && sc != "no-contention"; {
				time.Sleep(time.Millisecond)
			}
			time.Sleep(30 * time.Millisecond)
			if sc != "no-contention" {
				break // the new-request lock admits one at a time; the others follow after the release
			}
		}
		// ... then the bodies end: the streamed requests come to send their trailers
		for _, q := range streamed {
			q.pw.Close()
			// one after the other: the streams then differ in logical order only (a real data race on
			// the encoder would take the whole harness process down instead of yielding a failing input)
			time.Sleep(30 * time.Millisecond)
		}
		time.Sleep(30 * time.Millisecond)
		if release != nil {
			release()
		}
		if sc != "no-contention" {
			for _, q := range reqs[min(1, len(reqs)):] {
				start(q)
			}
		}
		all := append(append([]*connReq{}, streamed...), reqs...)
		for _, q := range all {
			select {
			case err := <-q.done:
				if err != nil {
					fail("roundtrip", "a request failed on a connection shared with concurrent requests", q.tag+": "+err.Error())
				}
			case <-time.After(20 * time.Second):
				fail("roundtrip-timeout", "a request did not finish", q.tag)
			}
		}
		wantBlocks := 2*len(streamed) + len(reqs)
		peer.waitFor(func() bool { return len(peer.blocks) >= wantBlocks })
		conn.Close()
		ln.Close()
		<-peer.done
		// the oracle: every block, decoded in wire order by ONE reference decoder, is a block of its
		// own exchange (request headers: :path / x-req / x-common of that request; trailers: its trailer)
		peer.mu.Lock()
		blocks := append([]peerBlock(nil), peer.blocks...)
		peer.mu.Unlock()
		seen := map[uint32]int{}
		byPath := map[string]*connReq{}
		for _, q := range all {
			byPath["/"+q.tag] = q
		}
		owner := map[uint32]*connReq{}
		var order []string
		for _, b := range blocks {
			seen[b.stream]++
			order = append(order, fmt.Sprintf("%d/%d", b.stream, seen[b.stream]))
			if b.err != nil {
				fail("hpack-decode", "the reference hpack decoder, reading the connection's header blocks in wire order, cannot decode one (encoder and peer dynamic tables out of step)", fmt.Sprintf("stream %d block %d: %v", b.stream, seen[b.stream], b.err))
				break
			}
			if seen[b.stream] == 1 {
				var path string
				for _, f := range b.fields {
					if f.Name == ":path" {
						path = f.Value
					}
				}
				q := byPath[path]
				if q == nil || !hasAll(b.fields, q.wantHdr) {
					fail("wrong-fields", "a request header block decodes at the reference decoder to fields that are not that request's", fmt.Sprintf("stream %d: %s", b.stream, renderFields(b.fields)))
					continue
				}
				owner[b.stream] = q
			} else {
				q := owner[b.stream]
				if q == nil || q.wantTrl == nil || !hasAll(b.fields, q.wantTrl) || len(b.fields) != len(q.wantTrl) {
					fail("wrong-trailer-fields", "a trailer block decodes at the reference decoder to fields that are not that request's trailers", fmt.Sprintf("stream %d: %s", b.stream, renderFields(b.fields)))
				}
			}
		}
		if len(blocks) != wantBlocks {
			fail("missing-blocks", "not every header / trailer block reached the peer", fmt.Sprintf("%d of %d (%v), peer read error %v", len(blocks), wantBlocks, order, peer.readErr))
		}
		r.Add(hk.Case{Desc: desc}, fmt.Sprint("h2conn|", i, sc), true)
	}
}
