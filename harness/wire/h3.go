package wire

import (
	"bytes"
	"context"
	"crypto/tls"
	"errors"
	"fmt"
	"io"
	"net"
	"strings"
	"sync"
	"sync/atomic"
	"time"

	"github.com/imroc/req/v3/internal/http3"
	"github.com/imroc/req/v3/internal/testcert"
	"github.com/quic-go/qpack"
	"github.com/quic-go/quic-go"
	"github.com/quic-go/quic-go/quicvarint"
)

// ---------- frame-level scripted HTTP/3 peer on a raw QUIC listener ----------
//
// The peer speaks just enough HTTP/3 to be a server: a control stream carrying an empty
// SETTINGS frame, request HEADERS decoded with qpack to find the script, and then the
// response stream is written byte for byte as the script says - DATA frame headers may
// announce more bytes than follow, raw bytes (partial frame headers, unknown frames) can
// be placed anywhere - and ended by FIN, RESET_STREAM or CONNECTION_CLOSE.

// H3Action is one write on the response stream after the response HEADERS frame.
type H3Action struct {
	Kind     string // data | raw
	Declared uint64 // data: length announced in the DATA frame header
	Payload  []byte // data: bytes that follow the header (len <= Declared); raw: the bytes
}

type H3Script struct {
	Status  int       // < 0: the stream ends (per End) before any response HEADERS
	Interim [][]Field // interim (1xx) header blocks written before the final one, each with its :status
	Fields  []Field   // response fields (content-length included when declared)
	HdrCut  int       // > 0: only the first HdrCut bytes of the HEADERS frame are written, then End
	Actions []H3Action
	End     string // fin | reset | connclose
	Code    uint64 // error code of reset / connclose
	Follow  []byte
	// Gate, when non-nil, is waited for (bounded) before a reset / connclose terminal so the
	// reader can first take what was sent (RESET_STREAM discards undelivered stream data).
	Gate chan struct{}

	mu     sync.Mutex
	Conns1 []int64
	Conns2 []int64
}

func (sc *H3Script) Seen() (c1, c2 []int64) {
	sc.mu.Lock()
	defer sc.mu.Unlock()
	return append([]int64(nil), sc.Conns1...), append([]int64(nil), sc.Conns2...)
}

type H3Server struct {
	pc      net.PacketConn
	tr      *quic.Transport
	ln      *quic.Listener
	scripts sync.Map
	nconn   atomic.Int64
}

func NewH3Server() (*H3Server, error) {
	cert, err := tls.X509KeyPair(testcert.LocalhostCert, testcert.LocalhostKey)
	if err != nil {
		return nil, err
	}
	pc, err := net.ListenPacket("udp", "127.0.0.1:0")
	if err != nil {
		return nil, err
	}
	tr := &quic.Transport{Conn: pc}
	ln, err := tr.Listen(&tls.Config{Certificates: []tls.Certificate{cert}, NextProtos: []string{"h3"}},
		&quic.Config{MaxIdleTimeout: 45 * time.Second, MaxIncomingStreams: 1000, MaxIncomingUniStreams: 100})
	if err != nil {
		pc.Close()
		return nil, err
	}
	s := &H3Server{pc: pc, tr: tr, ln: ln}
	go func() {
		for {
			c, err := ln.Accept(context.Background())
			if err != nil {
				return
			}
			go s.serve(c, s.nconn.Add(1))
		}
	}()
	return s, nil
}

func (s *H3Server) Addr() string                     { return s.pc.LocalAddr().String() }
func (s *H3Server) Register(id string, sc *H3Script) { s.scripts.Store(id, sc) }
func (s *H3Server) Unregister(id string)             { s.scripts.Delete(id) }
func (s *H3Server) Close() {
	s.ln.Close()
	s.tr.Close()
	s.pc.Close()
}

func (s *H3Server) serve(conn quic.Connection, connID int64) {
	ctx := conn.Context()
	ctl, err := conn.OpenUniStream()
	if err != nil {
		return
	}
	ctl.Write([]byte{0x00, 0x04, 0x00}) // control stream, empty SETTINGS
	go func() {
		for {
			us, err := conn.AcceptUniStream(ctx)
			if err != nil {
				return
			}
			go io.Copy(io.Discard, us)
		}
	}()
	for {
		str, err := conn.AcceptStream(ctx)
		if err != nil {
			return
		}
		go s.serveStream(conn, connID, str)
	}
}

// H3HeadersFrame renders a HEADERS frame for the given fields (qpack, static table only).
func H3HeadersFrame(fields []Field) []byte {
	var blk bytes.Buffer
	enc := qpack.NewEncoder(&blk)
	for _, f := range fields {
		enc.WriteField(qpack.HeaderField{Name: f.Name, Value: f.Value})
	}
	b := quicvarint.Append(nil, 0x1)
	b = quicvarint.Append(b, uint64(blk.Len()))
	return append(b, blk.Bytes()...)
}

// H3DataHeader renders a DATA frame header announcing n bytes.
func H3DataHeader(n uint64) []byte {
	return quicvarint.Append(quicvarint.Append(nil, 0x0), n)
}

func (s *H3Server) serveStream(conn quic.Connection, connID int64, str quic.Stream) {
	qr := quicvarint.NewReader(str)
	var path string
	for {
		t, err := quicvarint.Read(qr)
		if err != nil {
			return
		}
		l, err := quicvarint.Read(qr)
		if err != nil || l > 1<<20 {
			return
		}
		blk := make([]byte, l)
		if _, err := io.ReadFull(str, blk); err != nil {
			return
		}
		if t != 0x1 {
			continue
		}
		hfs, err := qpack.NewDecoder(nil).DecodeFull(blk)
		if err != nil {
			return
		}
		for _, hf := range hfs {
			if hf.Name == ":path" {
				path = hf.Value
			}
		}
		break
	}
	go io.Copy(io.Discard, str) // the rest of the request (FIN)
	parts := strings.Split(strings.TrimPrefix(path, "/"), "/")
	if len(parts) != 3 {
		str.CancelWrite(0x10c)
		return
	}
	v, ok := s.scripts.Load(parts[1])
	if !ok {
		str.CancelWrite(0x10c)
		return
	}
	sc := v.(*H3Script)
	if parts[2] == "2" {
		sc.mu.Lock()
		sc.Conns2 = append(sc.Conns2, connID)
		sc.mu.Unlock()
		str.Write(H3HeadersFrame([]Field{{":status", "200"}, {"content-type", "application/octet-stream"}, {"content-length", fmt.Sprint(len(sc.Follow))}}))
		str.Write(H3DataHeader(uint64(len(sc.Follow))))
		str.Write(sc.Follow)
		str.Close()
		return
	}
	sc.mu.Lock()
	sc.Conns1 = append(sc.Conns1, connID)
	sc.mu.Unlock()
	if sc.Status >= 0 {
		for _, blk := range sc.Interim {
			str.Write(H3HeadersFrame(blk))
		}
		hf := H3HeadersFrame(append([]Field{{":status", fmt.Sprint(sc.Status)}}, sc.Fields...))
		if sc.HdrCut > 0 && sc.HdrCut < len(hf) {
			str.Write(hf[:sc.HdrCut])
		} else {
			str.Write(hf)
			for _, a := range sc.Actions {
				switch a.Kind {
				case "data":
					str.Write(H3DataHeader(a.Declared))
					if len(a.Payload) > 0 {
						str.Write(a.Payload)
					}
				case "raw":
					str.Write(a.Payload)
				}
			}
		}
	}
	if sc.End != "fin" && sc.Gate != nil {
		select {
		case <-sc.Gate:
		case <-time.After(4 * time.Second):
		}
	}
	switch sc.End {
	case "fin":
		str.Close()
	case "reset":
		str.CancelWrite(quic.StreamErrorCode(sc.Code))
	case "connclose":
		conn.CloseWithError(quic.ApplicationErrorCode(sc.Code), "scripted")
	}
}

// H3ResetCodes / H3CloseCodes: the codes the scripted peer uses for RESET_STREAM and
// CONNECTION_CLOSE; disjoint, so the client's *http3.Error tells which of the two happened.
var H3ResetCodes = []uint64{0x102, 0x10c, 0x10e}
var H3CloseCodes = []uint64{0x100, 0x101, 0x103}

// ClassifyH3 maps a body-read error of the HTTP/3 stack to the model's h3err constructors.
func ClassifyH3(err error) string {
	if err == nil || err == io.EOF {
		return "H3Clean"
	}
	if errors.Is(err, io.ErrUnexpectedEOF) || strings.Contains(err.Error(), "unexpected EOF") {
		return "H3UnexpectedEOF"
	}
	if strings.Contains(err.Error(), "peer sent too much data") {
		return "H3TooMuch"
	}
	var he *http3.Error
	if errors.As(err, &he) {
		c := uint64(he.ErrorCode)
		for _, x := range H3ResetCodes {
			if c == x {
				return "H3ResetErr"
			}
		}
		for _, x := range H3CloseCodes {
			if c == x {
				return "H3ConnErr"
			}
		}
	}
	return ""
}
