// Package wire holds the scripted peers and response generators shared by the C03
// (truncation / over-long / splice) and C02 (response fidelity) harnesses.
package wire

import (
	"bufio"
	"bytes"
	"compress/gzip"
	"errors"
	"fmt"
	"io"
	"net"
	"strings"
	"sync"
	"sync/atomic"
	"time"

	"github.com/imroc/req/v3/verifharness/hk"
)

// ---------- HTTP/1.1 response streams ----------

type Framing int

const (
	FrCL Framing = iota
	FrChunked
	FrClose
	FrNone // no body by rule (HEAD, 1xx, 204, 304)
)

func (f Framing) String() string { return [...]string{"cl", "chunked", "close", "none"}[f] }

type Field struct{ Name, Value string }

type Chunk struct {
	Size string // hex digits as written
	Ext  string // "" or ";..."
	Data []byte
}

// Stream is one generated HTTP/1.1 response as a correct origin would write it.
type Stream struct {
	Status    int
	Reason    string
	Headers   []Field // all header fields as written, in order (incl. framing headers)
	Framing   Framing
	Gzip      bool
	Coding    string  // content-coding other than gzip ("" = none)
	Interim   int     // interim responses in front (their bytes are part of Hdr)
	ConnClose bool    // "Connection: close" written
	Body      []byte  // the entity the origin means (before content-coding)
	Payload   []byte  // what is framed: gzip(Body) or Body
	Chunks    []Chunk // chunked only
	LastSize  string  // "0", "000"
	LastExt   string
	Trailers  []Field
	Hdr       []byte // status line + header fields + blank line
	Wire      []byte // Hdr + framed payload
}

func (s *Stream) TrailerBlock() []byte {
	var b bytes.Buffer
	for _, t := range s.Trailers {
		b.WriteString(t.Name + ": " + t.Value + "\r\n")
	}
	return b.Bytes()
}

// BoundaryLens are the body lengths every generator draws from.
var SmallLens = []int{0, 1, 2, 3, 5, 17, 64, 100, 255, 256, 300, 511, 512, 513, 700, 1000}
var BigLens = []int{4095, 4096, 4097, 8192, 16383, 16384, 16385, 32768, 65535, 65536, 65537, 70000, 131073}

var extPool = []string{"", "", "", ";a=b", ";x", ";name=\"q v\"", ";a=1;b=2"}
var hdrNames = []string{"X-A", "X-Request-Id", "Server", "Cache-Control", "X-Multi", "Etag", "Vary", "X-Long"}

func GzipBytes(p []byte) []byte {
	var b bytes.Buffer
	zw, _ := gzip.NewWriterLevel(&b, gzip.BestSpeed)
	zw.Write(p)
	zw.Close()
	return b.Bytes()
}

// GenBody: mixture of compressible text and random bytes (incl. CR/LF/"0\r\n\r\n" look-alikes).
func GenBody(rng *hk.Rand, n int) []byte {
	b := make([]byte, n)
	switch rng.Intn(3) {
	case 0:
		copy(b, rng.Bytes(n))
	case 1:
		pat := []byte("0\r\n\r\nHTTP/1.1 200 OK\r\nContent-Length: 3\r\n\r\nabc5\r\nhello\r\n")
		for i := range b {
			b[i] = pat[i%len(pat)]
		}
	default:
		for i := range b {
			b[i] = "abcdefghijklmnopqrstuvwxyz \r\n"[rng.Intn(29)]
		}
	}
	return b
}

type GenOpts struct {
	// Coding: content-coding of the payload other than via Gzip ("deflate", "br", "zstd", or
	// "gzip" = same as Gzip); Interim: number of interim (1xx) responses written before the
	// final one (part of Stream.Hdr); InterimCL: the interim responses carry a Content-Length
	Coding    string
	Interim   int
	InterimCL bool
	Framing   Framing
	Gzip      bool
	BodyLen   int
	ConnClose bool
	Status    int
	NHeaders  int
	NTrailers int
	OneByte   bool // chunk partition: 1-byte chunks
}

// Partition splits p into non-empty pieces: 1-byte pieces, or random sizes.
func Partition(rng *hk.Rand, p []byte, oneByte bool, maxPieces int) [][]byte {
	var out [][]byte
	for len(p) > 0 {
		n := 1
		if !oneByte {
			switch rng.Intn(4) {
			case 0:
				n = rng.Range(1, 4)
			case 1:
				n = rng.Range(1, 64)
			case 2:
				n = rng.Range(1, len(p))
			default:
				n = rng.Range(1, 1+len(p)/2)
			}
		}
		if n > len(p) || (maxPieces > 0 && len(out) == maxPieces-1) {
			n = len(p)
		}
		out = append(out, p[:n])
		p = p[n:]
	}
	return out
}

func hexSize(rng *hk.Rand, n int) string {
	s := fmt.Sprintf("%x", n)
	switch rng.Intn(6) {
	case 0:
		s = strings.ToUpper(s)
	case 1:
		s = "0" + s
	case 2:
		s = "000" + s
	}
	return s
}

func GenStream(rng *hk.Rand, o GenOpts) *Stream {
	s := &Stream{Status: o.Status, Framing: o.Framing, Gzip: o.Gzip, ConnClose: o.ConnClose}
	if s.Status == 0 {
		s.Status = 200
	}
	s.Reason = "OK"
	s.Body = GenBody(rng, o.BodyLen)
	s.Payload = s.Body
	if o.Coding == "gzip" {
		o.Gzip, s.Gzip = true, true
	}
	if o.Gzip {
		s.Payload = GzipBytes(s.Body)
	} else if o.Coding != "" {
		s.Payload = Encode(o.Coding, s.Body)
		s.Coding = o.Coding
	}
	s.Headers = append(s.Headers, Field{"Content-Type", "application/octet-stream"})
	for i := 0; i < o.NHeaders; i++ {
		n := hk.Pick(rng, hdrNames)
		v := fmt.Sprintf("v%d-%x", i, rng.Intn(1<<16))
		if n == "X-Long" {
			v = strings.Repeat("l", rng.Range(20, 90))
		}
		s.Headers = append(s.Headers, Field{n, v})
	}
	if o.Gzip {
		s.Headers = append(s.Headers, Field{"Content-Encoding", "gzip"})
	} else if o.Coding != "" {
		s.Headers = append(s.Headers, Field{"Content-Encoding", o.Coding})
	}
	switch o.Framing {
	case FrCL:
		s.Headers = append(s.Headers, Field{"Content-Length", fmt.Sprint(len(s.Payload))})
	case FrChunked:
		s.Headers = append(s.Headers, Field{"Transfer-Encoding", "chunked"})
		var names []string
		for i := 0; i < o.NTrailers; i++ {
			t := Field{fmt.Sprintf("X-Trailer-%d", i), fmt.Sprintf("t%x", rng.Intn(1<<20))}
			if rng.Chance(30) {
				t.Value = ""
			}
			s.Trailers = append(s.Trailers, t)
			names = append(names, t.Name)
		}
		if len(names) > 0 && rng.Chance(70) {
			s.Headers = append(s.Headers, Field{"Trailer", strings.Join(names, ", ")})
		}
	}
	if o.ConnClose {
		s.Headers = append(s.Headers, Field{"Connection", "close"})
	}
	// shuffle header order a little (framing headers not always last)
	if len(s.Headers) > 2 && rng.Bool() {
		i, j := rng.Intn(len(s.Headers)), rng.Intn(len(s.Headers))
		s.Headers[i], s.Headers[j] = s.Headers[j], s.Headers[i]
	}
	var h bytes.Buffer
	for i := 0; i < o.Interim; i++ {
		if i%2 == 0 {
			h.WriteString("HTTP/1.1 103 Early Hints\r\nLink: </style.css>; rel=preload\r\n")
		} else {
			h.WriteString("HTTP/1.1 102 Processing\r\n")
		}
		if o.InterimCL {
			fmt.Fprintf(&h, "Content-Length: %d\r\n", 3+i)
		}
		h.WriteString("\r\n")
	}
	s.Interim = o.Interim
	fmt.Fprintf(&h, "HTTP/1.1 %d %s\r\n", s.Status, s.Reason)
	for _, f := range s.Headers {
		h.WriteString(f.Name + ": " + f.Value + "\r\n")
	}
	h.WriteString("\r\n")
	s.Hdr = h.Bytes()
	var w bytes.Buffer
	w.Write(s.Hdr)
	switch o.Framing {
	case FrCL, FrClose:
		w.Write(s.Payload)
	case FrChunked:
		maxPieces := 0
		if len(s.Payload) > 2048 {
			maxPieces = 64
		}
		for _, p := range Partition(rng, s.Payload, o.OneByte, maxPieces) {
			c := Chunk{Size: hexSize(rng, len(p)), Ext: hk.Pick(rng, extPool), Data: p}
			s.Chunks = append(s.Chunks, c)
			w.WriteString(c.Size + c.Ext + "\r\n")
			w.Write(c.Data)
			w.WriteString("\r\n")
		}
		s.LastSize = hk.Pick(rng, []string{"0", "0", "0", "000"})
		s.LastExt = hk.Pick(rng, extPool)
		w.WriteString(s.LastSize + s.LastExt + "\r\n")
		w.Write(s.TrailerBlock())
		w.WriteString("\r\n")
	}
	s.Wire = w.Bytes()
	return s
}

// ---------- scripted raw TCP peer ----------

// Script is what the peer plays for request phase 1 of one exchange id; phase 2 (the
// follow-up request) is always answered completely with Follow as its body.
type Script struct {
	Wire   []byte // bytes to send for phase 1
	CutAt  int    // send Wire[:CutAt] then close; <0: send all and keep the connection open
	Segs   []int  // write boundaries (offsets into Wire), optional
	Follow []byte

	mu      sync.Mutex
	Conns1  []int64 // connection ids on which phase-1 requests arrived
	Conns2  []int64
	Closed1 chan struct{} // closed when the phase-1 connection has ended on the peer side
}

type Server struct {
	ln      net.Listener
	scripts sync.Map // id -> *Script
	nconn   atomic.Int64
	wg      sync.WaitGroup
}

func NewServer() (*Server, error) {
	ln, err := net.Listen("tcp", "127.0.0.1:0")
	if err != nil {
		return nil, err
	}
	s := &Server{ln: ln}
	go s.acceptLoop()
	return s, nil
}

func (s *Server) Addr() string    { return s.ln.Addr().String() }
func (s *Server) Close()          { s.ln.Close() }
func (s *Server) Accepted() int64 { return s.nconn.Load() }

func (s *Server) Register(id string, sc *Script) {
	sc.Closed1 = make(chan struct{})
	s.scripts.Store(id, sc)
}
func (s *Server) Unregister(id string) { s.scripts.Delete(id) }

func (s *Server) acceptLoop() {
	for {
		c, err := s.ln.Accept()
		if err != nil {
			return
		}
		id := s.nconn.Add(1)
		go s.serve(c, id)
	}
}

// readHead reads one request head (no request bodies are used) and returns the target.
func readHead(br *bufio.Reader) (string, error) {
	first, err := br.ReadString('\n')
	if err != nil {
		return "", err
	}
	for {
		l, err := br.ReadString('\n')
		if err != nil {
			return "", err
		}
		if l == "\r\n" || l == "\n" {
			break
		}
	}
	parts := strings.Split(first, " ")
	if len(parts) < 2 {
		return "", errors.New("bad request line")
	}
	return parts[1], nil
}

func FollowResponse(body []byte) []byte {
	return append([]byte(fmt.Sprintf("HTTP/1.1 200 OK\r\nContent-Type: application/octet-stream\r\nContent-Length: %d\r\nConnection: close\r\n\r\n", len(body))), body...)
}

func (s *Server) serve(c net.Conn, connID int64) {
	var held *Script
	defer func() {
		c.Close()
		if held != nil {
			close(held.Closed1)
		}
	}()
	if tc, ok := c.(*net.TCPConn); ok {
		tc.SetNoDelay(true)
	}
	br := bufio.NewReader(c)
	for {
		c.SetReadDeadline(time.Now().Add(30 * time.Second))
		target, err := readHead(br)
		if err != nil {
			return
		}
		// target: /x/<id>/<phase>
		parts := strings.Split(strings.TrimPrefix(target, "/"), "/")
		if len(parts) != 3 {
			return
		}
		v, ok := s.scripts.Load(parts[1])
		if !ok {
			return
		}
		sc := v.(*Script)
		if parts[2] == "2" {
			sc.mu.Lock()
			sc.Conns2 = append(sc.Conns2, connID)
			sc.mu.Unlock()
			c.Write(FollowResponse(sc.Follow))
			return
		}
		sc.mu.Lock()
		sc.Conns1 = append(sc.Conns1, connID)
		first := len(sc.Conns1) == 1
		sc.mu.Unlock()
		if first {
			held = sc
		}
		end := len(sc.Wire)
		if sc.CutAt >= 0 && sc.CutAt < end {
			end = sc.CutAt
		}
		prev := 0
		for _, b := range sc.Segs {
			if b > prev && b < end {
				c.Write(sc.Wire[prev:b])
				prev = b
			}
		}
		if end > prev {
			c.Write(sc.Wire[prev:end])
		}
		if sc.CutAt >= 0 {
			return
		}
	}
}

func (sc *Script) Seen() (c1, c2 []int64) {
	sc.mu.Lock()
	defer sc.mu.Unlock()
	return append([]int64(nil), sc.Conns1...), append([]int64(nil), sc.Conns2...)
}

// ---------- classification of Go errors into the model's enum ----------

// ClassifyH1 maps a body-read error of the HTTP/1.1 stack to the constructor names of
// Model/BodyFraming.v rerr.  Unknown errors come back as "" (caller reports them).
func ClassifyH1(err error) string {
	if err == nil || err == io.EOF {
		return "Clean"
	}
	m := err.Error()
	switch {
	case strings.Contains(m, "unexpected EOF reading trailer"):
		return "TrailerEOF"
	case strings.Contains(m, "suspiciously long trailer"):
		return "TrailerTooLong"
	case strings.Contains(m, "malformed MIME header"):
		return "TrailerBad"
	case strings.Contains(m, "malformed chunked encoding"):
		return "MalformedChunk"
	case strings.Contains(m, "invalid byte in chunk length"):
		return "BadChunkByte"
	case strings.Contains(m, "http chunk length too large"):
		return "ChunkTooLarge"
	case strings.Contains(m, "header line too long"):
		return "LineTooLong"
	case errors.Is(err, io.ErrUnexpectedEOF) || strings.Contains(m, "unexpected EOF"):
		return "UnexpectedEOF"
	}
	return ""
}
