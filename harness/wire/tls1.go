package wire

import (
	"bufio"
	"crypto/tls"
	"net"
	"strings"
	"sync"
	"sync/atomic"
	"time"

	"github.com/imroc/req/v3/internal/testcert"
)

// ---------- HTTP/1.1 over TLS with the TCP stream cut at a chosen point of the record layer ----------
//
// The response is handed to crypto/tls in the pieces the script gives, one Write and
// therefore (pieces are far below 16 KiB) one TLS record each.  cutConn sits between
// crypto/tls and the TCP connection: once armed it lets CutRec records pass whole, writes
// CutFrac of the next one's bytes (0 = nothing of it: the TCP stream ends on a record
// boundary; otherwise at least one and at most all-but-one of its bytes: it ends inside
// the record) and closes the TCP connection - no close_notify.

type TLSScript struct {
	Records [][]byte // plaintext of the response, one TLS record each
	CutRec  int      // records delivered whole; >= len(Records): all of them, then CloseNotify decides
	CutFrac int      // per mille of the next record's bytes that still go out (0: cut on the boundary)
	// after all records (CutRec >= len(Records)): true = orderly close (close_notify), false = TCP FIN only
	CloseNotify bool
	Follow      []byte

	mu     sync.Mutex
	Conns1 []int64
	Conns2 []int64
	// recorded: sizes of the TLS records (bytes on the TCP stream) written for the response,
	// and how many bytes of the cut record went out
	RecSizes []int
	CutBytes int
}

func (sc *TLSScript) Seen() (c1, c2 []int64) {
	sc.mu.Lock()
	defer sc.mu.Unlock()
	return append([]int64(nil), sc.Conns1...), append([]int64(nil), sc.Conns2...)
}

type cutConn struct {
	net.Conn
	mu    sync.Mutex
	sc    *TLSScript // armed when non-nil
	nrec  int
	ended bool
}

func (c *cutConn) Write(p []byte) (int, error) {
	c.mu.Lock()
	sc, ended := c.sc, c.ended
	c.mu.Unlock()
	if ended {
		return len(p), nil // crypto/tls keeps writing (alerts) into a stream that is gone
	}
	if sc == nil {
		return c.Conn.Write(p)
	}
	sc.mu.Lock()
	sc.RecSizes = append(sc.RecSizes, len(p))
	sc.mu.Unlock()
	if c.nrec < sc.CutRec {
		c.nrec++
		return c.Conn.Write(p)
	}
	n := 0
	if sc.CutFrac > 0 {
		n = len(p) * sc.CutFrac / 1000
		if n < 1 {
			n = 1
		}
		if n > len(p)-1 {
			n = len(p) - 1
		}
		c.Conn.Write(p[:n])
	}
	sc.mu.Lock()
	sc.CutBytes = n
	sc.mu.Unlock()
	c.mu.Lock()
	c.ended = true
	c.mu.Unlock()
	c.Conn.Close()
	return len(p), nil
}

type TLSServer struct {
	ln      net.Listener
	cfg     *tls.Config
	scripts sync.Map
	nconn   atomic.Int64
}

func NewTLSServer() (*TLSServer, error) {
	cert, err := tls.X509KeyPair(testcert.LocalhostCert, testcert.LocalhostKey)
	if err != nil {
		return nil, err
	}
	ln, err := net.Listen("tcp", "127.0.0.1:0")
	if err != nil {
		return nil, err
	}
	s := &TLSServer{ln: ln, cfg: &tls.Config{Certificates: []tls.Certificate{cert}, NextProtos: []string{"http/1.1"}}}
	go func() {
		for {
			c, err := ln.Accept()
			if err != nil {
				return
			}
			go s.serve(c, s.nconn.Add(1))
		}
	}()
	return s, nil
}

func (s *TLSServer) Addr() string                      { return s.ln.Addr().String() }
func (s *TLSServer) Close()                            { s.ln.Close() }
func (s *TLSServer) Register(id string, sc *TLSScript) { s.scripts.Store(id, sc) }
func (s *TLSServer) Unregister(id string)              { s.scripts.Delete(id) }

func (s *TLSServer) serve(raw net.Conn, connID int64) {
	if tc, ok := raw.(*net.TCPConn); ok {
		tc.SetNoDelay(true)
	}
	cc := &cutConn{Conn: raw}
	defer raw.Close()
	raw.SetDeadline(time.Now().Add(40 * time.Second))
	tc := tls.Server(cc, s.cfg)
	if err := tc.Handshake(); err != nil { // (TLS 1.3 session tickets go out here, before arming)
		return
	}
	br := bufio.NewReader(tc)
	target, err := readHead(br)
	if err != nil {
		return
	}
	parts := strings.Split(strings.TrimPrefix(target, "/"), "/")
	if len(parts) != 3 {
		return
	}
	v, ok := s.scripts.Load(parts[1])
	if !ok {
		return
	}
	sc := v.(*TLSScript)
	if parts[2] == "2" {
		sc.mu.Lock()
		sc.Conns2 = append(sc.Conns2, connID)
		sc.mu.Unlock()
		tc.Write(FollowResponse(sc.Follow))
		tc.Close()
		return
	}
	sc.mu.Lock()
	sc.Conns1 = append(sc.Conns1, connID)
	first := len(sc.Conns1) == 1
	sc.mu.Unlock()
	if !first { // a retry of the scripted request: answer nothing
		return
	}
	cc.mu.Lock()
	cc.sc = sc
	cc.mu.Unlock()
	for _, r := range sc.Records {
		if _, err := tc.Write(r); err != nil {
			return
		}
		cc.mu.Lock()
		ended := cc.ended
		cc.mu.Unlock()
		if ended {
			return
		}
	}
	cc.mu.Lock()
	cc.sc = nil
	cc.mu.Unlock()
	if sc.CloseNotify {
		tc.Close()
	}
	// otherwise the deferred raw.Close() ends the TCP stream on a record boundary
}
