package wire

import (
	"bytes"
	"compress/flate"

	"github.com/andybalholm/brotli"
	"github.com/klauspost/compress/zstd"
)

// Encode applies a content-coding ("gzip", "deflate" = raw DEFLATE as the client's
// flate reader expects, "br", "zstd") to p.
func Encode(coding string, p []byte) []byte {
	var b bytes.Buffer
	switch coding {
	case "gzip":
		return GzipBytes(p)
	case "deflate":
		w, _ := flate.NewWriter(&b, flate.BestSpeed)
		w.Write(p)
		w.Close()
	case "br":
		w := brotli.NewWriterLevel(&b, 1)
		w.Write(p)
		w.Close()
	case "zstd":
		w, _ := zstd.NewWriter(&b, zstd.WithEncoderLevel(zstd.SpeedFastest), zstd.WithEncoderConcurrency(1))
		w.Write(p)
		w.Close()
	default:
		return p
	}
	return b.Bytes()
}
