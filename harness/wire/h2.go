package wire

import (
	"bytes"
	"fmt"
	"io"
	"net"
	"strings"
	"sync"
	"sync/atomic"
	"time"

	"golang.org/x/net/http2"
	"golang.org/x/net/http2/hpack"
)

// ---------- frame-level scripted HTTP/2 peer (prior-knowledge cleartext) ----------

// H2Action is one thing the peer does on the response stream after HEADERS.
type H2Action struct {
	Kind    string // data | trailers | rst | goaway-close | close | cutframe
	Payload []byte // data (also the frame that is cut for cutframe)
	End     bool   // END_STREAM on this DATA frame
	Pad     int    // padding length for data
	Code    uint32 // RST_STREAM / GOAWAY error code
	Cut     int    // cutframe: bytes of the encoded DATA frame that are sent before the connection ends
}

type H2Script struct {
	Status   int
	Interim  [][]Field // interim (1xx) header blocks written before the final one, each with its :status
	Fields   []Field   // regular response fields (content-length included when declared)
	HdrEnd   bool      // END_STREAM already on HEADERS
	Actions  []H2Action
	Trailers []Field
	Follow   []byte

	mu     sync.Mutex
	Conns1 []int64
	Conns2 []int64
	// recorded by the peer: the stream id of the scripted request and every byte written on
	// the connection behind the response HEADERS frame
	StreamID uint32
	Wire     []byte
	// ConnGone, when non-nil, is closed when the connection that played the script is over on
	// the peer's side (the client closed it, or the peer gave up waiting)
	ConnGone chan struct{}
	goneOnce sync.Once
}

// Recorded returns the stream id of the scripted request and the bytes the peer wrote on the
// connection behind its response HEADERS frame.
func (sc *H2Script) Recorded() (uint32, []byte) {
	sc.mu.Lock()
	defer sc.mu.Unlock()
	return sc.StreamID, append([]byte(nil), sc.Wire...)
}

func (sc *H2Script) Seen() (c1, c2 []int64) {
	sc.mu.Lock()
	defer sc.mu.Unlock()
	return append([]int64(nil), sc.Conns1...), append([]int64(nil), sc.Conns2...)
}

type H2Server struct {
	ln      net.Listener
	scripts sync.Map
	nconn   atomic.Int64
}

func NewH2Server() (*H2Server, error) {
	ln, err := net.Listen("tcp", "127.0.0.1:0")
	if err != nil {
		return nil, err
	}
	s := &H2Server{ln: ln}
	go func() {
		for {
			c, err := ln.Accept()
			if err != nil {
				return
			}
			go s.serve(c, s.nconn.Add(1))
		}
	}()
	return s, nil
}

func (s *H2Server) Addr() string                     { return s.ln.Addr().String() }
func (s *H2Server) Close()                           { s.ln.Close() }
func (s *H2Server) Register(id string, sc *H2Script) { s.scripts.Store(id, sc) }
func (s *H2Server) Unregister(id string)             { s.scripts.Delete(id) }

type h2conn struct {
	c    net.Conn
	fr   *http2.Framer // reads from c, writes into wbuf
	wbuf bytes.Buffer
	enc  *hpack.Encoder
	hbuf bytes.Buffer
	rec  *H2Script // when set: bytes written are appended to rec.Wire
}

func (h *h2conn) record(b []byte) {
	if h.rec != nil {
		h.rec.mu.Lock()
		h.rec.Wire = append(h.rec.Wire, b...)
		h.rec.mu.Unlock()
	}
}

func (h *h2conn) flush() error {
	h.record(h.wbuf.Bytes())
	_, err := h.c.Write(h.wbuf.Bytes())
	h.wbuf.Reset()
	return err
}

func (h *h2conn) writeHeaders(stream uint32, fields []Field, end bool) {
	h.hbuf.Reset()
	for _, f := range fields {
		h.enc.WriteField(hpack.HeaderField{Name: f.Name, Value: f.Value})
	}
	h.fr.WriteHeaders(http2.HeadersFrameParam{StreamID: stream, BlockFragment: h.hbuf.Bytes(), EndHeaders: true, EndStream: end})
}

func (s *H2Server) serve(c net.Conn, connID int64) {
	var played *H2Script
	defer func() {
		if played != nil && played.ConnGone != nil {
			played.goneOnce.Do(func() { close(played.ConnGone) })
		}
	}()
	defer c.Close()
	if tc, ok := c.(*net.TCPConn); ok {
		tc.SetNoDelay(true)
	}
	c.SetDeadline(time.Now().Add(60 * time.Second))
	preface := make([]byte, len(http2.ClientPreface))
	if _, err := io.ReadFull(c, preface); err != nil || string(preface) != http2.ClientPreface {
		return
	}
	h := &h2conn{c: c}
	h.fr = http2.NewFramer(&h.wbuf, c)
	h.enc = hpack.NewEncoder(&h.hbuf)
	dec := hpack.NewDecoder(4096, nil)
	h.fr.WriteSettings()
	if h.flush() != nil {
		return
	}
	ended := false // we have shut down our side; keep draining until the client closes
	endConn := func() {
		ended = true
		if tc, ok := c.(*net.TCPConn); ok {
			tc.CloseWrite()
		}
		c.SetReadDeadline(time.Now().Add(10 * time.Second))
	}
	var hdrBlock []byte
	for {
		f, err := h.fr.ReadFrame()
		if err != nil {
			return
		}
		if ended {
			continue
		}
		switch f := f.(type) {
		case *http2.SettingsFrame:
			if !f.IsAck() {
				h.fr.WriteSettingsAck()
				h.flush()
			}
		case *http2.PingFrame:
			if !f.IsAck() {
				h.fr.WritePing(true, f.Data)
				h.flush()
			}
		case *http2.HeadersFrame:
			hdrBlock = append(hdrBlock[:0], f.HeaderBlockFragment()...)
			if !f.HeadersEnded() {
				continue // CONTINUATION not expected from this client for tiny requests
			}
			fields, err := dec.DecodeFull(hdrBlock)
			if err != nil {
				return
			}
			path := ""
			for _, hf := range fields {
				if hf.Name == ":path" {
					path = hf.Value
				}
			}
			parts := strings.Split(strings.TrimPrefix(path, "/"), "/")
			if len(parts) != 3 {
				return
			}
			v, ok := s.scripts.Load(parts[1])
			if !ok {
				return
			}
			sc := v.(*H2Script)
			sid := f.StreamID
			if parts[2] == "2" {
				sc.mu.Lock()
				sc.Conns2 = append(sc.Conns2, connID)
				sc.mu.Unlock()
				h.writeHeaders(sid, []Field{{":status", "200"}, {"content-type", "application/octet-stream"}, {"content-length", fmt.Sprint(len(sc.Follow))}}, false)
				h.fr.WriteData(sid, true, sc.Follow)
				h.flush()
				continue
			}
			sc.mu.Lock()
			sc.Conns1 = append(sc.Conns1, connID)
			sc.mu.Unlock()
			played = sc
			if s.play(h, sid, sc) {
				endConn()
			}
		}
	}
}

// play writes the scripted response; it reports whether the connection must end now.
func (s *H2Server) play(h *h2conn, sid uint32, sc *H2Script) (end bool) {
	if sc.Status < 0 { // connection ends before any response HEADERS
		return true
	}
	for _, blk := range sc.Interim {
		h.writeHeaders(sid, blk, false)
		h.flush()
	}
	fields := append([]Field{{":status", fmt.Sprint(sc.Status)}}, sc.Fields...)
	h.writeHeaders(sid, fields, sc.HdrEnd)
	h.flush()
	sc.mu.Lock()
	sc.StreamID = sid
	sc.mu.Unlock()
	h.rec = sc
	defer func() { h.rec = nil }()
	for _, a := range sc.Actions {
		switch a.Kind {
		case "data":
			if a.Pad > 0 {
				h.fr.WriteDataPadded(sid, a.End, a.Payload, make([]byte, a.Pad))
			} else {
				h.fr.WriteData(sid, a.End, a.Payload)
			}
			h.flush()
		case "trailers":
			h.writeHeaders(sid, sc.Trailers, true)
			h.flush()
		case "rst":
			h.fr.WriteRSTStream(sid, http2.ErrCode(a.Code))
			h.flush()
		case "goaway-close":
			h.fr.WriteGoAway(sid, http2.ErrCode(a.Code), []byte("scripted"))
			h.flush()
			return true
		case "close":
			return true
		case "cutframe":
			h.fr.WriteData(sid, a.End, a.Payload)
			b := h.wbuf.Bytes()
			n := a.Cut
			if n > len(b)-1 {
				n = len(b) - 1
			}
			h.record(b[:n])
			h.c.Write(b[:n])
			h.wbuf.Reset()
			return true
		}
	}
	return false
}

// ClassifyH2 maps a body-read error of the HTTP/2 stack to the model's h2err constructors.
func ClassifyH2(err error) string {
	if err == nil || err == io.EOF {
		return "H2Clean"
	}
	m := err.Error()
	switch {
	case strings.Contains(m, "more than declared Content-Length"):
		return "H2TooMuch"
	case strings.Contains(m, "server sent GOAWAY"):
		return "H2GoAwayErr"
	case strings.Contains(m, "stream error:"):
		return "H2StreamErr"
	case err == io.ErrUnexpectedEOF || strings.Contains(m, "unexpected EOF"):
		return "H2UnexpectedEOF"
	}
	return ""
}
