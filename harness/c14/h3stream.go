package main

import (
	"bytes"
	"context"
	"crypto/tls"
	"fmt"
	"io"
	"net/http"
	"time"

	"github.com/imroc/req/v3/internal/http3"
	"github.com/imroc/req/v3/internal/transport"
	"github.com/quic-go/quic-go"
)

// h3StreamExchange: one exchange through internal/http3's request-stream API on a QUIC connection of its
// own; the body is read from res.Body ("h3-stream-body") or from the stream ("h3-stream-read").
func (w *world) h3StreamExchange(x exchange, xid string) (o obs) {
	ctx, cancel := context.WithTimeout(context.Background(), 20*time.Second)
	defer cancel()
	conn, err := quic.DialAddr(ctx, w.o.h3addr, &tls.Config{InsecureSkipVerify: true, NextProtos: []string{http3.NextProtoH3}}, &quic.Config{})
	if err != nil {
		o.Fatal = "quic dial: " + err.Error()
		return
	}
	defer conn.CloseWithError(0, "")
	rt := &http3.SingleDestinationRoundTripper{Options: &transport.Options{DisableCompression: x.Cfg.Disable, AutoDecompression: x.Cfg.Auto}, Connection: conn}
	str, err := rt.OpenRequestStream(ctx)
	if err != nil {
		o.Fatal = "OpenRequestStream: " + err.Error()
		return
	}
	hr, err := http.NewRequestWithContext(ctx, x.Req.Method, w.o.url("h3", x.S.ID, xid), nil)
	if err != nil {
		o.Fatal = "newrequest: " + err.Error()
		return
	}
	if x.Req.AE != "" {
		hr.Header.Set("Accept-Encoding", x.Req.AE)
	}
	if x.Req.Range != "" {
		hr.Header.Set("Range", x.Req.Range)
	}
	if err := str.SendRequestHeader(hr); err != nil {
		o.Fatal = "SendRequestHeader: " + err.Error()
		return
	}
	str.Close() // no request body
	resp, err := str.ReadResponse()
	if err != nil {
		o.Fatal = "ReadResponse: " + err.Error()
		return
	}
	o.CE = resp.Header.Values("Content-Encoding")
	o.CLH = resp.Header.Values("Content-Length")
	o.CL = resp.ContentLength
	o.Unc = resp.Uncompressed
	var body io.Reader = str
	if x.Via == "h3-stream-body" {
		if resp.Body == nil {
			o.Fatal = "nil Body"
			return
		}
		body = resp.Body
	}
	var buf bytes.Buffer
	scratch := make([]byte, 1<<16)
	var rerr error
	for i := 0; ; i++ {
		sz := 4096
		if len(x.Pat) > 0 {
			sz = x.Pat[i%len(x.Pat)]
		}
		n, err := body.Read(scratch[:sz])
		buf.Write(scratch[:n])
		if err != nil {
			rerr = err
			break
		}
		if buf.Len() > 64<<20 {
			o.Fatal = "runaway body"
			return
		}
	}
	o.Body = buf.Bytes()
	o.BodyLen = len(o.Body)
	if rerr != io.EOF {
		o.Err = rerr.Error()
	}
	o.Sticky = true
	for k := 0; k < 2; k++ {
		n, err := body.Read(scratch[:1])
		if n != 0 || err == nil || (err == io.EOF) != (rerr == io.EOF) {
			o.Sticky = false
			o.StickyWhat = fmt.Sprintf("after %v a further read returned %d bytes, %v", rerr, n, err)
		}
	}
	return
}
