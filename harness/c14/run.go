package main

import (
	"bytes"
	"fmt"
	"io"
	"net/http"
	"os"
	"strings"
	"time"

	req "github.com/imroc/req/v3"
	"github.com/imroc/req/v3/verifharness/hk"
)

var stacks = []string{"h1", "h2", "h3"}
var coqStack = map[string]string{"h1": "H1", "h2": "H2", "h3": "H3"}

type cfg struct {
	Disable bool `json:"disable_compression"`
	Auto    bool `json:"auto_decompress"`
	Text    bool `json:"auto_decode_on"` // charset auto-decode left enabled (default client behaviour)
}

func (c cfg) name() string {
	s := ""
	if c.Disable {
		s += "nocomp"
	} else {
		s += "comp"
	}
	if c.Auto {
		s += "+auto"
	}
	if c.Text {
		s += "+text"
	}
	return s
}

type reqKind struct {
	Method string `json:"method"`
	AE     string `json:"accept_encoding"` // caller-set Accept-Encoding ("" = not set)
	Range  string `json:"range"`
}

func (k reqKind) name() string {
	s := k.Method
	if k.AE != "" {
		s += "+ae"
	}
	if k.Range != "" {
		s += "+range"
	}
	return s
}

type exchange struct {
	Stack   string  `json:"stack"`
	Cfg     cfg     `json:"cfg"`
	Req     reqKind `json:"req"`
	S       *script `json:"script"`
	Pat     []int   `json:"read_sizes"`
	Opened  cfg     `json:"opened_under,omitempty"` // live client: settings at its first exchange
	Nth     int     `json:"exchanges_before,omitempty"`
	After   string  `json:"previous_exchange,omitempty"` // what the previous exchange on the connection was answered with
	LiveKey string  `json:"live_client_key,omitempty"`
	Live    bool    `json:"live_client,omitempty"`               // one client per stack whose settings are toggled between exchanges
	Via     string  `json:"via,omitempty"`                       // "h3-stream-body" / "h3-stream-read": the http3 request-stream API (res.Body / RequestStream.Read)
	Twice   bool    `json:"same_request_object_twice,omitempty"` // the same *http.Request goes through RoundTrip twice; the second response is observed
}

type obs struct {
	SeenAE     string   `json:"seen_accept_encoding"`
	CE         []string `json:"content_encoding"`
	CLH        []string `json:"content_length_hdr"`
	CL         int64    `json:"content_length"`
	Unc        bool     `json:"uncompressed"`
	Body       []byte   `json:"-"`
	BodyLen    int      `json:"body_len"`
	Err        string   `json:"read_error"` // "" = clean EOF
	Sticky     bool     `json:"sticky"`
	StickyWhat string   `json:"sticky_what,omitempty"`
	Fatal      string   `json:"fatal"`                              // round trip error / panic / nil body / hang
	Trailer    []string `json:"trailer_x_sum,omitempty"`            // resp.Trailer["X-Sum"] after the body was read to its end
	Attempts   int      `json:"attempts,omitempty"`                 // requests the origin received for this exchange
	AEs        []string `json:"attempt_accept_encodings,omitempty"` // Accept-Encoding of each of them
}

type liveState struct {
	cl     *req.Client
	opened cfg // settings at the first exchange (when the connection was opened)
	n      int // exchanges made
}

type world struct {
	o       *origins
	live    map[string]*liveState
	clients map[string]*req.Client
	xn      int
	hangs   int
}

// generous at first; once several exchanges have hung (a defect, reported) do not let every further
// one cost the full limit
func (w *world) watchdog() time.Duration {
	if w.hangs >= 3 {
		return 5 * time.Second
	}
	return 40 * time.Second
}

func (w *world) client(stack string, c cfg) *req.Client {
	k := stack + "|" + c.name()
	if cl, ok := w.clients[k]; ok {
		return cl
	}
	cl := req.C().EnableInsecureSkipVerify().SetTimeout(30 * time.Second)
	switch stack {
	case "h1":
		cl.EnableForceHTTP1()
	case "h2":
		cl.EnableForceHTTP2()
	case "h3":
		cl.EnableForceHTTP3()
	}
	if c.Disable {
		cl.DisableCompression()
	}
	if c.Auto {
		cl.EnableAutoDecompress()
	}
	if !c.Text {
		cl.DisableAutoDecode()
	}
	w.clients[k] = cl
	return cl
}

// liveClient: ONE client per stack; its settings are re-applied before every exchange, the connection
// (h2 / QUIC connection, idle h1 connections) stays.
func (w *world) liveClient(key string, c cfg) *req.Client {
	stack := strings.SplitN(key, "/", 2)[0]
	if w.live == nil {
		w.live = map[string]*liveState{}
	}
	ls := w.live[key]
	if ls == nil {
		cl := req.C().EnableInsecureSkipVerify().SetTimeout(30 * time.Second)
		switch stack {
		case "h1":
			cl.EnableForceHTTP1()
		case "h2":
			cl.EnableForceHTTP2()
		case "h3":
			cl.EnableForceHTTP3()
		}
		ls = &liveState{cl: cl, opened: c}
		w.live[key] = ls
	}
	cl := ls.cl
	if c.Disable {
		cl.DisableCompression()
	} else {
		cl.EnableCompression()
	}
	if c.Auto {
		cl.EnableAutoDecompress()
	} else {
		cl.DisableAutoDecompress()
	}
	if c.Text {
		cl.EnableAutoDecode()
	} else {
		cl.DisableAutoDecode()
	}
	return cl
}

// cloneLive: a new live client made by Clone() of an existing one (after that one has made exchanges).
func (w *world) cloneLive(parentKey, key string, c cfg) {
	p := w.live[parentKey]
	w.live[key] = &liveState{cl: p.cl.Clone(), opened: c}
}

// prime: an exchange on a live client that only prepares the connection for the next one (its response is
// read to the end and closed, not judged): e.g. a plain GET answered without a body.
func (w *world) prime(key string, c cfg, method string, s *script) {
	w.xn++
	xid := fmt.Sprintf("%d", w.xn)
	done := make(chan struct{})
	go func() {
		defer close(done)
		defer func() { recover() }()
		cl := w.liveClient(key, c)
		stack := strings.SplitN(key, "/", 2)[0]
		hr, err := http.NewRequest(method, w.o.url(stack, s.ID, xid), nil)
		if err != nil {
			return
		}
		resp, err := cl.GetTransport().RoundTrip(hr)
		if err != nil {
			return
		}
		if resp.Body != nil {
			io.Copy(io.Discard, resp.Body)
			resp.Body.Close()
		}
	}()
	select {
	case <-done:
	case <-time.After(w.watchdog()):
		w.hangs++
	}
	w.o.mu.Lock()
	delete(w.o.seen, xid)
	w.o.mu.Unlock()
	if ls := w.live[key]; ls != nil {
		ls.n++
	}
}

// do performs one exchange on the real code, contained (panic / hang -> Fatal).
func (w *world) do(x exchange) obs {
	w.xn++
	xid := fmt.Sprintf("%d", w.xn)
	ch := make(chan obs, 1)
	t0 := time.Now()
	defer func() {
		if d := time.Since(t0); d > 2*time.Second && os.Getenv("VERIF_DEBUG") != "" {
			fmt.Fprintf(os.Stderr, "SLOW %v x%s %s %s %s ce=%q corrupt=%s served=%d\n", d, xid, x.Stack, x.Cfg.name(), x.Req.name(), x.S.CE, x.S.Corrupt, len(x.S.Served))
		}
	}()
	go func() {
		var o obs
		defer func() {
			if e := recover(); e != nil {
				o.Fatal = fmt.Sprintf("panic: %v", e)
				ch <- o
			}
		}()
		o = w.exchange(x, xid)
		ch <- o
	}()
	select {
	case o := <-ch:
		if os.Getenv("VERIF_DEBUG") != "" && (o.Fatal != "") {
			fmt.Fprintf(os.Stderr, "x%s %s %s %s ce=%q: %s\n", xid, x.Stack, x.Cfg.name(), x.Req.name(), x.S.CE, o.Fatal)
		}
		w.o.mu.Lock()
		o.SeenAE = w.o.seen[xid].AE
		o.Attempts, o.AEs = w.o.seen[xid].Attempts, w.o.seen[xid].AEs
		delete(w.o.seen, xid)
		w.o.mu.Unlock()
		return o
	case <-time.After(w.watchdog()):
		w.hangs++
		return obs{Fatal: "hang: no result within the watchdog limit"}
	}
}

func timeAfter(d time.Duration) <-chan time.Time { return time.After(d) }

func (w *world) exchange(x exchange, xid string) (o obs) {
	if x.Via != "" {
		return w.h3StreamExchange(x, xid)
	}
	return w.exchangeOn(x, xid)
}

func (w *world) exchangeOn(x exchange, xid string) (o obs) {
	var cl *req.Client
	if x.Live {
		cl = w.liveClient(x.LiveKey, x.Cfg)
	} else {
		cl = w.client(x.Stack, x.Cfg)
	}
	hr, err := http.NewRequest(x.Req.Method, w.o.url(x.Stack, x.S.ID, xid), nil)
	if err != nil {
		o.Fatal = "newrequest: " + err.Error()
		return
	}
	if x.Req.AE != "" {
		hr.Header.Set("Accept-Encoding", x.Req.AE)
	}
	if x.Req.Range != "" {
		hr.Header.Set("Range", x.Req.Range)
	}
	if x.Twice {
		// the request object is the caller's: RoundTrip must leave it as it was
		first, err := cl.GetTransport().RoundTrip(hr)
		if err != nil {
			o.Fatal = "roundtrip (first use of the request): " + err.Error()
			return
		}
		if first.Body != nil {
			io.Copy(io.Discard, first.Body)
			first.Body.Close()
		}
	}
	resp, err := cl.GetTransport().RoundTrip(hr)
	if err != nil {
		o.Fatal = "roundtrip: " + err.Error()
		return
	}
	o.CE = resp.Header.Values("Content-Encoding")
	o.CLH = resp.Header.Values("Content-Length")
	o.CL = resp.ContentLength
	o.Unc = resp.Uncompressed
	if resp.Body == nil {
		o.Fatal = "nil Body"
		return
	}
	defer resp.Body.Close()
	defer resp.Body.Close() // closing twice is harmless and common (a deferred Close plus an explicit one)
	var buf bytes.Buffer
	i := 0
	scratch := make([]byte, 1<<16)
	var rerr error
	for {
		sz := 4096
		if len(x.Pat) > 0 {
			sz = x.Pat[i%len(x.Pat)]
			i++
		}
		n, err := resp.Body.Read(scratch[:sz])
		buf.Write(scratch[:n])
		if err != nil {
			rerr = err
			break
		}
		if buf.Len() > 64<<20 {
			o.Fatal = "runaway body"
			return
		}
	}
	o.Body = buf.Bytes()
	o.BodyLen = len(o.Body)
	if rerr != io.EOF {
		o.Err = rerr.Error()
	}
	o.Trailer = resp.Trailer.Values("X-Sum")
	// sticky: after the terminal status every further read returns no data and a status of the same
	// kind (io.EOF stays io.EOF, an error stays an error - not a clean io.EOF after a decode error)
	o.Sticky = true
	for k := 0; k < 2; k++ {
		n, err := resp.Body.Read(scratch[:1])
		if n != 0 || err == nil || (err == io.EOF) != (rerr == io.EOF) {
			o.Sticky = false
			o.StickyWhat = fmt.Sprintf("after %v a further read returned %d bytes, %v", rerr, n, err)
		}
	}
	return
}

// ---------- oracle (from the property text; reference codecs only) ----------

func supportedExact(ce string) bool {
	return ce == "gzip" || ce == "deflate" || ce == "br" || ce == "zstd"
}
func supportedFold(ce string) bool { return supportedExact(strings.ToLower(ce)) }

func sameStrs(a, b []string) bool {
	if len(a) != len(b) {
		return false
	}
	for i := range a {
		if a[i] != b[i] {
			return false
		}
	}
	return true
}

// verdict returns "" when the observation satisfies the property, else (kind, what).
func verdict(x exchange, o obs) (kind, what string) {
	s := x.S
	head := x.Req.Method == "HEAD"
	transportAsked := !x.Cfg.Disable && x.Req.AE == "" && x.Req.Range == "" && !head
	wantAE := x.Req.AE
	if transportAsked {
		wantAE = "gzip"
	}
	if o.Fatal != "" {
		return "fatal", o.Fatal
	}
	if o.SeenAE != wantAE {
		return "accept-encoding", fmt.Sprintf("origin saw Accept-Encoding %q, want %q", o.SeenAE, wantAE)
	}
	for i, ae := range o.AEs {
		if ae != wantAE {
			return "accept-encoding", fmt.Sprintf("attempt %d of %d carried Accept-Encoding %q, want %q", i+1, len(o.AEs), ae, wantAE)
		}
	}
	if s.DeclCL > len(s.Served) && !head {
		return shortVerdict(x, o, transportAsked)
	}
	if s.Trailer != "" && !head && o.Err == "" && x.Via == "" && !sameStrs(o.Trailer, []string{s.Trailer}) {
		// trailer fields are header fields of the response: decoded or not, a body read to its clean end
		// has them
		return "trailer", fmt.Sprintf("body read to a clean EOF, trailer X-Sum %q, sent %q", o.Trailer, s.Trailer)
	}
	// several Content-Encoding lines are one list (RFC 9110 5.3): the field value is the lines joined
	ce := strings.Join(s.CE, ", ")
	must := !head && ((transportAsked && strings.EqualFold(ce, "gzip")) || (x.Cfg.Auto && supportedExact(ce) && x.Req.Range == ""))
	// recorded interpretations: under AutoDecompression a mixed-case token or a Range request may
	// either be decoded (correctly) or left untouched
	may := !head && x.Cfg.Auto && supportedFold(ce)
	if must && len(s.Served) == 0 {
		// a zero-length body cannot be a compressed stream: h1/h2 skip it by framing (Content-Length: 0 /
		// END_STREAM), a decoder that does look at it sees a clean EOF - either is accepted (recorded)
		must, may = false, true
	}
	servedBody := s.Served
	wireCL := int64(-1)
	var wireCLH []string
	if s.SetCL || head {
		wireCL = int64(len(s.Served))
		wireCLH = []string{fmt.Sprint(len(s.Served))}
	}
	if head {
		servedBody = nil
	}
	if !o.Sticky {
		return "sticky", "a read after the terminal status returned data, a nil error, or a status of another kind: " + o.StickyWhat
	}
	untouched := func() string {
		switch {
		case !sameStrs(o.CE, s.CE):
			return fmt.Sprintf("Content-Encoding %q, served %q", o.CE, s.CE)
		case !sameStrs(o.CLH, wireCLH):
			return fmt.Sprintf("Content-Length header %q, served %q", o.CLH, wireCLH)
		case o.CL != wireCL:
			return fmt.Sprintf("ContentLength %d, wire %d", o.CL, wireCL)
		case o.Unc:
			return "Uncompressed = true"
		case o.Err != "":
			return "read error " + o.Err
		case !bytes.Equal(o.Body, servedBody):
			return fmt.Sprintf("body differs from served bytes (%d vs %d bytes)", len(o.Body), len(servedBody))
		}
		return ""
	}
	rewritten := func() string {
		switch {
		case len(o.CE) != 0:
			return fmt.Sprintf("Content-Encoding still %q", o.CE)
		case len(o.CLH) != 0:
			return fmt.Sprintf("stale Content-Length header %q", o.CLH)
		case o.CL != -1:
			return fmt.Sprintf("ContentLength %d, want -1", o.CL)
		case !o.Unc:
			return "Uncompressed = false"
		}
		return ""
	}
	decoded := func() string {
		if w := rewritten(); w != "" {
			return w
		}
		if s.Corrupt == "" {
			switch {
			case o.Err != "":
				return "read error on a valid stream: " + o.Err
			case !bytes.Equal(o.Body, s.Payload):
				return fmt.Sprintf("decoded body differs from the original payload (%d vs %d bytes)", len(o.Body), len(s.Payload))
			}
			return ""
		}
		// corrupt stream: a read error, or - if the reference decoder cannot tell either - exactly
		// what the reference decoder delivers
		ref := s.table()[strings.ToLower(ce)]
		if o.Err != "" {
			if !ref.failed {
				return "read error where the reference decoder succeeds: " + o.Err
			}
			return ""
		}
		if bytes.Equal(o.Body, s.Payload) {
			return ""
		}
		if !ref.failed && bytes.Equal(o.Body, ref.out) {
			return "" // undetectable by the codec itself (counted separately)
		}
		return fmt.Sprintf("corrupt stream (%s) delivered %d bytes without a read error (original %d bytes)", s.Corrupt, len(o.Body), len(s.Payload))
	}
	switch {
	case must:
		if w := decoded(); w != "" {
			if s.Lenient && o.Err != "" && rewritten() == "" {
				return "", "" // refused with a read error: a policy the content coding's RFC allows
			}
			return "decode", w
		}
	case may:
		wd, wu := decoded(), untouched()
		if wd != "" && wu != "" {
			return "decode-or-untouched", "neither decoded (" + wd + ") nor untouched (" + wu + ")"
		}
	default:
		if w := untouched(); w != "" {
			return "untouched", w
		}
	}
	return "", ""
}

// ---------- Coq case ----------

func coqNatList(xs []int) string {
	o := make([]string, len(xs))
	for i, x := range xs {
		o[i] = hk.CoqNat(x)
	}
	return hk.CoqList(o)
}

func coqCase(x exchange, o obs) string {
	s := x.S
	head := x.Req.Method == "HEAD"
	wire := s.Served
	if head {
		wire = nil
	}
	cl := int64(-1)
	var clh []string
	if s.SetCL || head {
		cl = int64(len(s.Served))
		clh = []string{fmt.Sprint(len(s.Served))}
	}
	ended := head || (len(s.Served) == 0 && s.SetCL)
	short := s.DeclCL > len(s.Served) && !head
	if short {
		cl, clh, ended = int64(s.DeclCL), []string{fmt.Sprint(s.DeclCL)}, false
	}
	var tab []string
	if !head {
		t := s.table()
		for _, e := range encNames {
			tab = append(tab, hk.CoqPair(coqEnc[e], hk.CoqPair(pk(blob(t[e].out)), hk.CoqBool(t[e].failed))))
		}
	} else {
		for _, e := range encNames {
			out, failed := refDecode(e, nil)
			tab = append(tab, hk.CoqPair(coqEnc[e], hk.CoqPair(pk(out), hk.CoqBool(failed))))
		}
	}
	opened, nth := x.Cfg, 0
	if x.Live {
		opened, nth = x.Opened, x.Nth
	}
	parts := []string{"C14Case", coqStack[x.Stack], hk.CoqBool(x.Cfg.Disable), hk.CoqBool(x.Cfg.Auto),
		pks(x.Req.AE), pks(x.Req.Range), hk.CoqBool(head),
		hk.CoqBool(opened.Disable), hk.CoqBool(opened.Auto), hk.CoqNat(nth), hk.CoqBool(ended),
		pkList(s.CE), pkList(clh), hk.CoqZ(cl), hk.CoqBool(short), pk(blob(wire)), hk.CoqList(tab), coqNatList(x.Pat),
		pks(o.SeenAE), pkList(o.AEs), pkList(o.CE), pkList(o.CLH), hk.CoqZ(o.CL), hk.CoqBool(o.Unc),
		pk(blob(o.Body)), hk.CoqBool(o.Err != "" || o.Fatal != ""), hk.CoqBool(o.Sticky)}
	return strings.Join(parts, " ")
}

// shortVerdict: the origin declared s.DeclCL bytes, delivered s.Served and ended the stream cleanly.
// "Corrupt [shortened] compressed data yields a read error rather than silently shortened output", on
// every HTTP version: a decoded body must end with a read error wherever the cut falls (also behind the
// last coded byte: every reader waits for the end of the message) and may only have delivered a prefix
// of the original.
func shortVerdict(x exchange, o obs, transportAsked bool) (kind, what string) {
	s := x.S
	ce := strings.Join(s.CE, ", ")
	decode := (transportAsked && strings.EqualFold(ce, "gzip")) || (x.Cfg.Auto && supportedExact(ce) && x.Req.Range == "")
	if !o.Sticky {
		return "sticky", "a read after the terminal status returned data, a nil error, or a status of another kind: " + o.StickyWhat
	}
	decl := []string{fmt.Sprint(s.DeclCL)}
	if !decode {
		switch {
		case !sameStrs(o.CE, s.CE) || !sameStrs(o.CLH, decl) || o.CL != int64(s.DeclCL) || o.Unc:
			return "short-untouched", fmt.Sprintf("headers changed: Content-Encoding %q Content-Length %q ContentLength %d Uncompressed %v", o.CE, o.CLH, o.CL, o.Unc)
		case !bytes.Equal(o.Body, s.Served):
			return "short-untouched", fmt.Sprintf("delivered %d bytes, %d arrived", len(o.Body), len(s.Served))
		}
		return "", "" // whether an untouched short body must fail is the framing property's business (counted)
	}
	switch {
	case len(o.CE) != 0 || len(o.CLH) != 0 || o.CL != -1 || !o.Unc:
		return "short-decode", fmt.Sprintf("headers not rewritten: Content-Encoding %q Content-Length %q ContentLength %d Uncompressed %v", o.CE, o.CLH, o.CL, o.Unc)
	case !bytes.HasPrefix(s.Payload, o.Body):
		return "short-decode", fmt.Sprintf("delivered %d bytes that are not a prefix of the original payload", len(o.Body))
	case o.Err == "":
		return "short-decode", fmt.Sprintf("the body ended short of its declared length (%d of %d bytes, %s) and was delivered as %d bytes with a clean EOF (original %d bytes)",
			len(s.Served), s.DeclCL, s.Corrupt, len(o.Body), len(s.Payload))
	}
	return "", ""
}
