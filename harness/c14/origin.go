package main

import (
	"crypto/tls"
	"fmt"
	"net"
	"net/http"
	"net/http/httptest"
	"strconv"
	"sync"

	"github.com/imroc/req/v3/internal/testcert"
	qh3 "github.com/quic-go/quic-go/http3"
)

// script: one scripted response.  Everything the oracle needs to know about what was put on the wire.
type script struct {
	ID        int      `json:"id"`
	Payload   []byte   `json:"-"` // the original, uncompressed bytes
	PayName   string   `json:"payload"`
	CE        []string `json:"content_encoding"` // Content-Encoding header lines (nil = none)
	CEClass   string   `json:"ce_class"`
	Served    []byte   `json:"-"`       // body bytes put on the wire (framing-level body)
	Corrupt   string   `json:"corrupt"` // "" = Served is the valid encoding chain of Payload
	SetCL     bool     `json:"set_cl"`  // declare Content-Length; otherwise flush first (chunked / no length)
	CT        string   `json:"content_type"`
	GenSeed   uint64   `json:"gen_seed,omitempty"`        // sequences: Payload = genPayload(GenSeed, len)
	Status    int      `json:"status,omitempty"`          // 0 = 200
	DeclCL    int      `json:"declared_length,omitempty"` // > len(Served): Content-Length declared, Served written, stream ended cleanly short of it
	Trailer   string   `json:"trailer,omitempty"`         // value of the X-Sum trailer field sent after the body (no Content-Length then)
	Lenient   bool     `json:"error_tolerated,omitempty"` // a stream outside what the content coding allows (zstd window above 8 MB, RFC 9659): payload or read error
	Interim   int      `json:"interim_status,omitempty"`  // an informational response (103 Early Hints) is sent before the final one
	DropFirst bool     `json:"drop_first,omitempty"`      // h1: the first attempt of an exchange is read and the connection closed unanswered
	CRange    string   `json:"content_range,omitempty"`   // Content-Range header (206)
	refTable  map[string]refOut
	once      sync.Once
}

type refOut struct {
	out    []byte
	failed bool
}

func (s *script) table() map[string]refOut {
	s.once.Do(func() {
		s.refTable = map[string]refOut{}
		for _, e := range encNames {
			o, f := refDecode(e, s.Served)
			if s.DeclCL > len(s.Served) {
				o, f = refDecodeCut(e, s.Served)
			}
			s.refTable[e] = refOut{o, f}
		}
	})
	return s.refTable
}

type seen struct {
	AE, Range, Method string
	AEPresent         bool
	Attempts          int      // how many requests carried this exchange id
	AEs               []string // Accept-Encoding of every attempt
}

type origins struct {
	mu      sync.Mutex
	scripts map[int]*script
	seen    map[string]seen // key = x query parameter (one per exchange)
	h1      *httptest.Server
	h2      *httptest.Server
	h3      *qh3.Server
	h3addr  string
}

func (o *origins) handler(w http.ResponseWriter, r *http.Request) {
	id, _ := strconv.Atoi(r.URL.Query().Get("id"))
	x := r.URL.Query().Get("x")
	o.mu.Lock()
	s := o.scripts[id]
	_, aeP := r.Header["Accept-Encoding"]
	prev := o.seen[x]
	cur := seen{AE: r.Header.Get("Accept-Encoding"), Range: r.Header.Get("Range"), Method: r.Method, AEPresent: aeP,
		Attempts: prev.Attempts + 1, AEs: append(prev.AEs, r.Header.Get("Accept-Encoding"))}
	o.seen[x] = cur
	o.mu.Unlock()
	if s == nil {
		w.WriteHeader(404)
		return
	}
	if s.DropFirst && cur.Attempts == 1 {
		// read the request, close the connection without a byte of answer
		if hj, ok := w.(http.Hijacker); ok {
			if c, _, err := hj.Hijack(); err == nil {
				c.Close()
				return
			}
		}
	}
	h := w.Header()
	h.Set("Content-Type", s.CT)
	for _, v := range s.CE {
		h.Add("Content-Encoding", v)
	}
	if s.DeclCL > 0 {
		h.Set("Content-Length", strconv.Itoa(s.DeclCL))
	} else if s.SetCL || r.Method == "HEAD" {
		h.Set("Content-Length", strconv.Itoa(len(s.Served)))
	}
	if s.Interim != 0 {
		h.Set("Link", "</style.css>; rel=preload; as=style")
		w.WriteHeader(s.Interim)
		h.Del("Link")
	}
	if s.Trailer != "" {
		h.Set("Trailer", "X-Sum")
	}
	if s.CRange != "" {
		h.Set("Content-Range", s.CRange)
	}
	if s.Status != 0 {
		w.WriteHeader(s.Status)
	} else {
		w.WriteHeader(200)
	}
	if r.Method == "HEAD" {
		return
	}
	if !s.SetCL || s.DeclCL > 0 {
		if f, ok := w.(http.Flusher); ok {
			f.Flush()
		}
	}
	w.Write(s.Served)
	if s.Trailer != "" {
		h.Set("X-Sum", s.Trailer)
	}
	if s.DeclCL > 0 {
		// the handler returns short of the declared length: HTTP/1 closes the connection, HTTP/2 sends
		// END_STREAM, HTTP/3 FIN - a clean end of the stream, no reset
		if f, ok := w.(http.Flusher); ok {
			f.Flush()
		}
	}
}

func startOrigins() (*origins, error) {
	o := &origins{scripts: map[int]*script{}, seen: map[string]seen{}}
	hf := http.HandlerFunc(o.handler)
	o.h1 = httptest.NewServer(hf)
	o.h2 = httptest.NewUnstartedServer(hf)
	o.h2.EnableHTTP2 = true
	o.h2.StartTLS()
	cert, err := tls.X509KeyPair(testcert.LocalhostCert, testcert.LocalhostKey)
	if err != nil {
		return nil, err
	}
	pc, err := net.ListenPacket("udp", "127.0.0.1:0")
	if err != nil {
		return nil, err
	}
	o.h3 = &qh3.Server{
		TLSConfig: qh3.ConfigureTLSConfig(&tls.Config{Certificates: []tls.Certificate{cert}}),
		Handler:   hf,
	}
	go o.h3.Serve(pc)
	o.h3addr = pc.LocalAddr().String()
	return o, nil
}

func (o *origins) url(stack string, id int, x string) string {
	switch stack {
	case "h1":
		return fmt.Sprintf("%s/r?id=%d&x=%s", o.h1.URL, id, x)
	case "h2":
		return fmt.Sprintf("%s/r?id=%d&x=%s", o.h2.URL, id, x)
	default:
		return fmt.Sprintf("https://%s/r?id=%d&x=%s", o.h3addr, id, x)
	}
}

func (o *origins) close() {
	o.h1.Close()
	o.h2.Close()
	o.h3.Close()
}
