package main

// Sequences of exchanges on ONE client with several response bodies alive at the same time.
//
// A single goroutine performs a scripted list of operations - open response i (RoundTrip), ReadFull of a
// scripted size on response i, Close response i (possibly twice or three times) - so the interleaving of
// the reads of two/three concurrently open bodies is deterministic.  Oracle (from the property text): every
// response delivers its OWN original payload (or, untouched, its own served bytes), whatever happened to
// other responses before or in between; a body closed early must have delivered a prefix of that.  The
// Coq side re-runs the same operations on the session model (Model/DecodeSession.v) and compares every
// operation's byte count and status and every response's delivered bytes.

import (
	"bytes"
	"fmt"
	"io"
	"net/http"
	"runtime/debug"
	"strings"
	"time"

	"github.com/imroc/req/v3/verifharness/hk"
)

type seqOp struct {
	Kind string `json:"op"` // open | read | close
	I    int    `json:"resp"`
	N    int    `json:"n,omitempty"`
}

type opRes struct {
	Got   int    `json:"got"`
	Class int    `json:"class"` // 0 nil, 1 io.EOF, 2 other error
	Err   string `json:"err,omitempty"`
}

type seqObs struct {
	Resps []obs   // per response: headers + all delivered bytes (Body), first non-EOF error (Err)
	Ops   []opRes // per read/close op (open ops excluded), in order
	Early []bool  // closed before a read reported the end
	Fatal string
}

// runSeq drives the real code.  resps[i].Pat is unused.
func (w *world) runSeq(resps []exchange, ops []seqOp) (so seqObs) {
	ch := make(chan seqObs, 1)
	go func() {
		var o seqObs
		defer func() {
			if e := recover(); e != nil {
				o.Fatal = fmt.Sprintf("panic: %v", e)
			}
			ch <- o
		}()
		w.seq(resps, ops, &o)
	}()
	select {
	case o := <-ch:
		return o
	case <-time.After(w.watchdog()):
		w.hangs++
		return seqObs{Fatal: "hang: no result within the watchdog limit"}
	}
}

func (w *world) seq(resps []exchange, ops []seqOp, so *seqObs) {
	// a recycling bug (sync.Pool and friends) is hidden by a garbage collection that empties the pool:
	// no collection while a sequence runs (payloads are small)
	defer debug.SetGCPercent(debug.SetGCPercent(-1))
	n := len(resps)
	so.Resps = make([]obs, n)
	so.Early = make([]bool, n)
	live := make([]*http.Response, n)
	bufs := make([]bytes.Buffer, n)
	ended := make([]bool, n)
	xids := make([]string, n)
	scratch := make([]byte, 1<<17)
	defer func() {
		for _, r := range live {
			if r != nil && r.Body != nil {
				r.Body.Close()
			}
		}
		w.o.mu.Lock()
		for i, x := range xids {
			if x != "" {
				so.Resps[i].SeenAE = w.o.seen[x].AE
				delete(w.o.seen, x)
			}
		}
		w.o.mu.Unlock()
		for i := range so.Resps {
			so.Resps[i].Body = append([]byte{}, bufs[i].Bytes()...)
			so.Resps[i].BodyLen = bufs[i].Len()
			so.Resps[i].Sticky = true
		}
	}()
	for _, op := range ops {
		i := op.I
		x := resps[i]
		switch op.Kind {
		case "open":
			w.xn++
			xids[i] = fmt.Sprintf("%d", w.xn)
			hr, err := http.NewRequest(x.Req.Method, w.o.url(x.Stack, x.S.ID, xids[i]), nil)
			if err != nil {
				so.Fatal = "newrequest: " + err.Error()
				return
			}
			if x.Req.AE != "" {
				hr.Header.Set("Accept-Encoding", x.Req.AE)
			}
			if x.Req.Range != "" {
				hr.Header.Set("Range", x.Req.Range)
			}
			resp, err := w.client(x.Stack, x.Cfg).GetTransport().RoundTrip(hr)
			if err != nil {
				so.Fatal = fmt.Sprintf("roundtrip (response %d): %v", i, err)
				return
			}
			o := &so.Resps[i]
			o.CE = resp.Header.Values("Content-Encoding")
			o.CLH = resp.Header.Values("Content-Length")
			o.CL = resp.ContentLength
			o.Unc = resp.Uncompressed
			if resp.Body == nil {
				so.Fatal = fmt.Sprintf("nil Body (response %d)", i)
				return
			}
			live[i] = resp
		case "read":
			got, spins := 0, 0
			var rerr error
			for got < op.N {
				k, err := live[i].Body.Read(scratch[:op.N-got])
				bufs[i].Write(scratch[:k])
				got += k
				if err != nil {
					rerr = err
					break
				}
				if k == 0 {
					if spins++; spins > 1000 {
						so.Fatal = fmt.Sprintf("response %d: Read keeps returning 0, nil", i)
						return
					}
				}
			}
			r := opRes{Got: got}
			switch {
			case rerr == nil:
			case got == op.N:
				// the last bytes and the terminal status in one Read (allowed by io.Reader; the stacks
				// and codecs differ): the operation got what it asked for, the status shows again at
				// the next read (sticky, checked there)
				if rerr != io.EOF && so.Resps[i].Err == "" {
					so.Resps[i].Err = rerr.Error()
				}
				ended[i] = true
			case rerr == io.EOF:
				r.Class = 1
				ended[i] = true
			default:
				r.Class, r.Err = 2, rerr.Error()
				ended[i] = true
				if so.Resps[i].Err == "" {
					so.Resps[i].Err = rerr.Error()
				}
			}
			so.Ops = append(so.Ops, r)
		case "close":
			if !ended[i] {
				so.Early[i] = true
			}
			ended[i] = true // no reads are scheduled after a Close
			live[i].Body.Close()
			so.Ops = append(so.Ops, opRes{})
		}
	}
}

// seqVerdict: the single-exchange oracle applied to every response of the sequence.  For a body closed
// early the delivered bytes must be a prefix of what the response has to deliver in full.
func seqVerdict(resps []exchange, so seqObs) (idx int, kind, what string) {
	if so.Fatal != "" {
		return -1, "fatal", so.Fatal
	}
	for i, x := range resps {
		o := so.Resps[i]
		if so.Early[i] && o.Err == "" {
			full := x.S.Served
			if len(o.CE) == 0 && len(x.S.CE) > 0 {
				full = x.S.Payload
				if x.S.Corrupt != "" {
					if ref := x.S.table()[strings.ToLower(x.S.CE[0])]; len(ref.out) >= len(o.Body) {
						full = ref.out // what is decodable of a corrupt stream before the error
					}
				}
			}
			if x.Req.Method == "HEAD" {
				full = nil
			}
			if !bytes.HasPrefix(full, o.Body) {
				return i, "prefix", fmt.Sprintf("response %d closed early after %d bytes that are not a prefix of its own content (%d bytes)", i, len(o.Body), len(full))
			}
			if x.S.Corrupt == "" {
				o.Body = full
			} else {
				continue // closed before the corruption had to show
			}
		}
		if k, wh := verdict(x, o); k != "" {
			return i, k, fmt.Sprintf("response %d of the sequence: %s", i, wh)
		}
	}
	return -1, "", ""
}

func coqSeqCase(resps []exchange, ops []seqOp, so seqObs) string {
	var rs []string
	var pool []string
	idx := map[string]int{}
	// a byte string is written as a slice of one of the sequence's generated payload streams when it is
	// exactly that (compared here byte for byte), literally otherwise
	describe := func(b []byte) string {
		if len(b) > 24 {
			for _, x := range resps {
				if x.S.GenSeed != 0 && bytes.HasPrefix(x.S.Payload, b) {
					return fmt.Sprintf("[Gen %s %s]", hk.CoqN(x.S.GenSeed), hk.CoqN(uint64(len(b))))
				}
			}
		}
		// literal, in pieces (a very long string literal overflows coqc's stack)
		var ps []string
		for len(b) > 2000 {
			ps = append(ps, "Lit "+pk(b[:2000]))
			b = b[2000:]
		}
		ps = append(ps, "Lit "+pk(b))
		return hk.CoqList(ps)
	}
	ref := func(b []byte) string {
		k, ok := idx[string(b)]
		if !ok {
			k = len(pool)
			idx[string(b)] = k
			pool = append(pool, describe(b))
		}
		return hk.CoqNat(k)
	}
	for i, x := range resps {
		s := x.S
		o := so.Resps[i]
		head := x.Req.Method == "HEAD"
		wire := s.Served
		if head {
			wire = nil
		}
		cl := int64(-1)
		var clh []string
		if s.SetCL || head {
			cl = int64(len(s.Served))
			clh = []string{fmt.Sprint(len(s.Served))}
		}
		ended := head || (len(s.Served) == 0 && s.SetCL)
		wireRef := wire
		if len(o.CE) == 0 && len(s.CE) > 0 {
			wireRef = blob(wire) // decoded: the model only hands the served bytes to the codec table (a key)
		}
		// the reference decoder's answer for the coding the header names (all the model can ask for)
		var tab []string
		if len(s.CE) > 0 {
			if e := strings.ToLower(s.CE[0]); coqEnc[e] != "" {
				out, failed := refDecode(e, wire)
				if s.Corrupt != "" {
					// how many bytes a codec hands out before it reports a damaged stream depends on the
					// read sizes (brotli keeps what is in its ring buffer): the reference decoder is
					// driven with this response's own read schedule
					var sizes []int
					for _, op := range ops {
						if op.Kind == "read" && op.I == i {
							sizes = append(sizes, op.N)
						}
					}
					out, failed = refDecodeSched(e, wire, sizes)
				}
				tab = append(tab, hk.CoqPair(coqEnc[e], hk.CoqPair(ref(out), hk.CoqBool(failed))))
			}
		}
		parts := []string{"(C14Resp", coqStack[x.Stack], hk.CoqBool(x.Cfg.Disable), hk.CoqBool(x.Cfg.Auto),
			pks(x.Req.AE), pks(x.Req.Range), hk.CoqBool(head), hk.CoqBool(ended),
			pkList(s.CE), pkList(clh), hk.CoqZ(cl), ref(wireRef), hk.CoqList(tab),
			pks(o.SeenAE), pkList(o.CE), pkList(o.CLH), hk.CoqZ(o.CL), hk.CoqBool(o.Unc),
			ref(o.Body) + ")"}
		rs = append(rs, strings.Join(parts, " "))
	}
	var os, rr []string
	k := 0
	for _, op := range ops {
		switch op.Kind {
		case "read":
			os = append(os, hk.CoqPair(hk.CoqNat(op.I), "Some "+hk.CoqN(uint64(op.N))))
		case "close":
			os = append(os, hk.CoqPair(hk.CoqNat(op.I), "None"))
		default:
			continue
		}
		if k < len(so.Ops) {
			rr = append(rr, hk.CoqPair(hk.CoqN(uint64(so.Ops[k].Got)), hk.CoqN(uint64(so.Ops[k].Class))))
		}
		k++
	}
	return "C14Seq " + hk.CoqList(pool) + " " + hk.CoqList(rs) + " " + hk.CoqList(os) + " " + hk.CoqList(rr)
}

// ---------- generator ----------

// genPayload: the payload generator shared with the Coq side (Model/C14Run.v gen_stream): "words" of seven
// lower-case letters and a space, different for every seed and drifting with the offset; seed%3 = 1 adds a
// 4-bit xorshift16 value to every letter, seed%3 = 2 to every other letter (compression between 2:1 and 50:1)
func genPayload(seed uint64, n int) []byte {
	b := make([]byte, n)
	x := seed%65535 + 1
	mode := seed % 3
	for k := range b {
		x ^= (x << 7) & 0xffff
		x ^= x >> 9
		x ^= (x << 8) & 0xffff
		w, c := uint64(k)/8, uint64(k)%8
		if c == 7 {
			b[k] = 32
			continue
		}
		l := (seed*(w%61+1) + c*(seed%5+1) + (w/61)*(seed%25+1)) % 26
		if mode == 1 || (mode == 2 && c%2 == 1) {
			l = (l + x&15) % 26
		}
		b[k] = byte(97 + l)
	}
	return b
}

var seqSizes = []int{0, 1, 60, 300, 700, 1500, 2500, 4095, 4096, 4097, 9000, 20000, 40000}

type seqClient struct {
	stack string
	cfg   cfg
}

// one client per sequence; which decoder type serves "gzip" differs: h1 transport-asked = transport.go
// gzipReader, everything else = internal/compress
var seqClients = []seqClient{
	{"h2", cfg{}}, {"h2", cfg{}}, {"h2", cfg{Auto: true}}, {"h2", cfg{Disable: true, Auto: true}},
	{"h1", cfg{Auto: true}}, {"h1", cfg{Auto: true}}, {"h1", cfg{}}, {"h1", cfg{Disable: true, Auto: true}},
	{"h3", cfg{}}, {"h3", cfg{Auto: true}},
}

type seqGen struct {
	g     *gen
	rng   *hk.Rand
	cl    seqClient
	resps []exchange
	ops   []seqOp
	open  []int // responses currently open and not closed
	shape string
	theme int // index into codings[:4]: most decoded responses of a sequence use the same coding
}

// newResp picks a response that this client decodes (mostly) or leaves alone.
func (q *seqGen) newResp(wantDecoded bool, size int) int {
	rng := q.rng
	i := len(q.resps)
	var c coding
	k := reqKinds[0]
	switch {
	case wantDecoded && q.cl.cfg.Auto:
		// state carried from one response to another would be carried between readers of one type:
		// mostly the sequence's theme coding, sometimes another one
		c = codings[q.theme]
		if rng.Chance(25) {
			c = codings[rng.Intn(4)]
		}
		if q.cl.stack == "h1" && c.class == "gzip" && rng.Chance(70) {
			k = reqKinds[1] // caller Accept-Encoding: the transport did not ask, AutoDecompression decodes (compress.GzipReader)
		}
	case wantDecoded:
		c = codings[0]
		if rng.Chance(15) {
			c = codings[10+rng.Intn(2)] // GZIP / Gzip
		}
	default:
		c = hk.Pick(rng, codings)
		k = hk.Pick(rng, reqKinds[:6])
		if size > 4097 {
			size = 4097 // an untouched compressed body is written literally into the Coq case
		}
	}
	seed := uint64(q.g.nextID+1)*7919 + uint64(rng.Intn(1000)) + 1
	p := payload{fmt.Sprintf("gen%d", size), genPayload(seed, size)}
	s := q.g.newScript(p, c, rng.Bool(), "application/octet-stream")
	s.GenSeed = seed
	if wantDecoded && size > 40 && rng.Chance(6) {
		// a damaged stream among healthy ones: its error must stay its own
		t := rng.Range(1, len(s.Served)-1)
		s2 := q.g.corruptScript(s, fmt.Sprintf("trunc@%d/%d", t, len(s.Served)), append([]byte{}, s.Served[:t]...))
		q.g.drop(s)
		s2.GenSeed = seed
		s = s2
	}
	q.resps = append(q.resps, exchange{Stack: q.cl.stack, Cfg: q.cl.cfg, Req: k, S: s})
	q.ops = append(q.ops, seqOp{Kind: "open", I: i})
	q.open = append(q.open, i)
	return i
}

func (q *seqGen) read(i, n int) { q.ops = append(q.ops, seqOp{Kind: "read", I: i, N: n}) }

func (q *seqGen) close(i, times int) {
	for k := 0; k < times; k++ {
		q.ops = append(q.ops, seqOp{Kind: "close", I: i})
	}
	for k, j := range q.open {
		if j == i {
			q.open = append(q.open[:k], q.open[k+1:]...)
			break
		}
	}
}

func (q *seqGen) sizeOf(i int) int { return len(q.resps[i].S.Payload) }

var firstReads = []int{1, 2, 10, 100, 512}
var chunkSizes = []int{1, 7, 64, 100, 512, 1000, 4096, 32768}

// a victim: read (not at all / partially / to the end) and closed `times` times
func (q *seqGen) victim(times int) {
	rng := q.rng
	i := q.newResp(true, hk.Pick(rng, seqSizes[2:]))
	switch rng.Intn(4) {
	case 0: // closed unread: no decompressor was ever created
	case 1:
		q.read(i, hk.Pick(rng, firstReads))
	default:
		q.read(i, hk.Pick(rng, firstReads))
		q.read(i, q.sizeOf(i)+10)
		if rng.Bool() {
			q.read(i, 1)
		}
	}
	q.close(i, times)
}

// a group of k bodies open at the same time: small first reads one after the other, then scripted
// chunks in an interleaved order, then every body is read to its end or closed early
func (q *seqGen) group(k int, allDecoded bool) {
	rng := q.rng
	var ids []int
	for j := 0; j < k; j++ {
		sz := hk.Pick(rng, seqSizes[3:])
		ids = append(ids, q.newResp(allDecoded || rng.Chance(70), sz))
	}
	order := append([]int{}, ids...)
	if rng.Bool() {
		for a := len(order) - 1; a > 0; a-- {
			b := rng.Intn(a + 1)
			order[a], order[b] = order[b], order[a]
		}
	}
	for _, i := range order {
		q.read(i, hk.Pick(rng, firstReads))
	}
	remaining := map[int]int{}
	for _, i := range ids {
		remaining[i] = q.sizeOf(i) + 50 // read past the end: the last ReadFull reports it
	}
	act := append([]int{}, ids...)
	for steps := 0; len(act) > 0 && steps < 60; steps++ {
		a := rng.Intn(len(act))
		i := act[a]
		n := hk.Pick(rng, chunkSizes)
		if steps > 12 || rng.Chance(25) {
			n = remaining[i]
		}
		if n < 16 && remaining[i] > 400 {
			n = 64
		}
		early := rng.Chance(8)
		if !early {
			q.read(i, n)
			remaining[i] -= n
		}
		if early || remaining[i] <= 0 {
			times := 1
			if rng.Chance(40) {
				times = 2 + rng.Intn(2)
			}
			q.close(i, times)
			act = append(act[:a], act[a+1:]...)
		}
	}
	for _, i := range act {
		q.read(i, remaining[i])
		q.close(i, 1)
	}
}

// free-form: random opens / reads / closes with at most three bodies open
func (q *seqGen) random(total int) {
	rng := q.rng
	remaining := map[int]int{}
	opened := 0
	for steps := 0; steps < 200 && (opened < total || len(q.open) > 0); steps++ {
		if opened < total && (len(q.open) == 0 || (len(q.open) < 3 && rng.Chance(35))) {
			i := q.newResp(rng.Chance(75), hk.Pick(rng, seqSizes))
			remaining[i] = q.sizeOf(i) + 50
			opened++
			continue
		}
		i := hk.Pick(rng, q.open)
		switch {
		case remaining[i] <= 0 || rng.Chance(7):
			q.close(i, 1+rng.Intn(3))
		default:
			n := hk.Pick(rng, chunkSizes)
			if rng.Chance(30) {
				n = remaining[i]
			}
			if n < 16 && remaining[i] > 400 {
				n = 100
			}
			q.read(i, n)
			remaining[i] -= n
		}
	}
	for _, i := range append([]int{}, q.open...) {
		q.close(i, 1)
	}
}

func (g *gen) runSeqs() {
	r, rng := g.r, g.rng.Fork()
	nseq := r.Scale(220, 2000)
	for n := 0; n < nseq; n++ {
		q := &seqGen{g: g, rng: rng, cl: seqClients[n%len(seqClients)], theme: (n / len(seqClients)) % 4}
		if n%3 == 0 {
			q.theme = 0 // gzip has two reader types (transport.go gzipReader, compress.GzipReader): more of it
		}
		switch n % 5 {
		case 0, 1: // close twice (or three times), then two or three bodies at once
			q.shape = "reclose-then-group"
			q.victim(2 + rng.Intn(2))
			if rng.Chance(30) {
				q.victim(2)
			}
			q.group(2+rng.Intn(2), true)
		case 2: // chains: every group's bodies are closed once or twice, the next group follows
			q.shape = "chain"
			q.victim(2)
			for k := 0; k < 3; k++ {
				q.group(2, rng.Chance(70))
			}
		case 3:
			q.shape = "group"
			q.group(3, false)
			q.group(2, true)
		default:
			q.shape = "random"
			q.random(rng.Range(3, 7))
		}
		g.oneSeq(q)
	}
}

func (g *gen) oneSeq(q *seqGen) {
	r := g.r
	so := g.w.runSeq(q.resps, q.ops)
	r.Count("seq.shape=" + q.shape)
	r.Count("seq.client=" + q.cl.stack + "/" + q.cl.cfg.name())
	if q.cl.cfg.Auto {
		r.Count("seq.theme=" + codings[q.theme].class)
	}
	r.Count(fmt.Sprintf("seq.responses=%d", len(q.resps)))
	maxOpen, cur, reclose := 0, 0, 0
	closed := map[int]int{}
	for _, op := range q.ops {
		switch op.Kind {
		case "open":
			cur++
			if cur > maxOpen {
				maxOpen = cur
			}
		case "close":
			if closed[op.I] == 0 {
				cur--
			} else {
				reclose++
			}
			closed[op.I]++
		}
	}
	r.Count(fmt.Sprintf("seq.max-open=%d", maxOpen))
	if reclose > 0 {
		r.Count("seq.with-repeated-close")
	}
	for i, x := range q.resps {
		r.Count("seq.ce=" + x.S.CEClass)
		if len(so.Resps) > i && len(so.Resps[i].CE) == 0 && len(x.S.CE) > 0 && so.Fatal == "" {
			r.Count("seq.outcome=decoded")
		}
	}
	var rd []interface{}
	for i, x := range q.resps {
		m := map[string]interface{}{"req": x.Req, "script": x.S, "served_len": len(x.S.Served), "payload_len": len(x.S.Payload)}
		if len(so.Resps) > i {
			m["observed"] = so.Resps[i]
			m["closed_early"] = so.Early[i]
		}
		rd = append(rd, m)
	}
	desc := map[string]interface{}{"kind": "sequence", "shape": q.shape, "stack": q.cl.stack, "cfg": q.cl.cfg,
		"responses": rd, "ops": q.ops, "op_results": so.Ops}
	if idx, kind, what := seqVerdict(q.resps, so); kind != "" {
		ce := "-"
		if idx >= 0 {
			ce = q.resps[idx].S.CEClass
		}
		r.Fail(hk.Failure{Sig: fmt.Sprintf("seq:%s:%s:%s:ce=%s:%s", kind, q.cl.stack, q.cl.cfg.name(), ce, q.shape),
			What: what, Input: desc})
	}
	key := fmt.Sprintf("seq|%s|%s|%v", q.cl.stack, q.cl.cfg.name(), q.ops)
	for _, x := range q.resps {
		key += fmt.Sprintf("|%d", x.S.ID)
	}
	coq := ""
	if so.Fatal == "" {
		coq = coqSeqCase(q.resps, q.ops, so)
	}
	g.seqCases = append(g.seqCases, pendingCase{hk.Case{Coq: coq, Desc: desc}, key, maxOpen >= 2})
	for _, x := range q.resps {
		g.drop(x.S)
	}
}

// sequence cases carry real bytes and are the expensive ones to parse on the Coq side: they are handed
// to the run interleaved with the single exchanges so that every shard gets its share
type pendingCase struct {
	c   hk.Case
	key string
	nt  bool
}

func (g *gen) flushSeq(n int) {
	for ; n > 0 && len(g.seqCases) > 0; n-- {
		p := g.seqCases[0]
		g.seqCases = g.seqCases[1:]
		g.r.Add(p.c, p.key, p.nt)
	}
}
