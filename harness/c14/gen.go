package main

import (
	"fmt"
	"strings"

	req "github.com/imroc/req/v3"
	"github.com/imroc/req/v3/verifharness/hk"
)

type payload struct {
	name string
	b    []byte
}

func textish(r *hk.Rand, n int) []byte {
	words := []string{"alpha ", "beta ", "gamma\n", "delta,", "0123456789", "<p>", "</p>", "  ", "the quick brown fox "}
	var sb strings.Builder
	for sb.Len() < n {
		sb.WriteString(hk.Pick(r, words))
	}
	return []byte(sb.String()[:n])
}

// coding spec: header lines + how the served body is derived from the payload
type coding struct {
	class string   // gzip|deflate|br|zstd|identity|unknown|alias|mixed|list|absent|emptyvalue|multi-member|lying
	ce    []string // header lines
	chain []string // reference codecs applied to the payload, in order
}

var codings = []coding{
	{"gzip", []string{"gzip"}, []string{"gzip"}},
	{"deflate", []string{"deflate"}, []string{"deflate"}},
	{"br", []string{"br"}, []string{"br"}},
	{"zstd", []string{"zstd"}, []string{"zstd"}},
	{"absent", nil, nil},
	{"emptyvalue", []string{""}, nil},
	{"identity", []string{"identity"}, nil},
	{"unknown", []string{"x-custom"}, nil},
	{"unknown", []string{"compress"}, nil},
	{"alias", []string{"x-gzip"}, []string{"gzip"}},
	{"mixed", []string{"GZIP"}, []string{"gzip"}},
	{"mixed", []string{"Gzip"}, []string{"gzip"}},
	{"mixed", []string{"Br"}, []string{"br"}},
	{"mixed", []string{"ZSTD"}, []string{"zstd"}},
	{"mixed", []string{"Deflate"}, []string{"deflate"}},
	{"list", []string{"gzip, br"}, []string{"gzip", "br"}},
	{"list", []string{"gzip,gzip"}, []string{"gzip", "gzip"}},
	{"list", []string{"identity, gzip"}, []string{"gzip"}},
	{"list", []string{"gzip, identity"}, []string{"gzip"}},
	{"list", []string{"deflate, zstd"}, []string{"deflate", "zstd"}},
	// several header lines = one list
	{"multiline", []string{"gzip", "gzip"}, []string{"gzip", "gzip"}},
	{"multiline", []string{"gzip", "br"}, []string{"gzip", "br"}},
	{"multiline", []string{"gzip", "identity"}, []string{"gzip"}},
	{"multiline", []string{"identity", "gzip"}, []string{"gzip"}},
	{"multiline", []string{"br", "gzip"}, []string{"br", "gzip"}},
	{"multiline", []string{"zstd", "zstd"}, []string{"zstd", "zstd"}},
}

func ceClassOf(c coding) string { return c.class }

var reqKinds = []reqKind{
	{"GET", "", ""},
	{"GET", "gzip", ""},
	{"GET", "br, zstd;q=0.5", ""},
	{"GET", "identity", ""},
	{"GET", "", "bytes=0-"},
	{"GET", "gzip", "bytes=0-99"},
	{"HEAD", "", ""},
	{"HEAD", "gzip", ""},
}

var cfgs = []cfg{{false, false, false}, {false, true, false}, {true, false, false}, {true, true, false}}

var readPats = [][]int{{4096}, {1}, {7}, {512, 1, 3}, {65536}, {2, 4095}, {32768, 1}}

type gen struct {
	r      *hk.Run
	rng    *hk.Rand
	w      *world
	nextID int
	undet  int

	seqCases []pendingCase
	singles  int
}

func (g *gen) newScript(p payload, c coding, setCL bool, ct string) *script {
	g.nextID++
	served := p.b
	for _, e := range c.chain {
		served = refCompress(e, served)
	}
	s := &script{ID: g.nextID, Payload: p.b, PayName: p.name, CE: c.ce, CEClass: c.class, Served: served, SetCL: setCL, CT: ct}
	g.w.o.mu.Lock()
	g.w.o.scripts[s.ID] = s
	g.w.o.mu.Unlock()
	return s
}

func (g *gen) corruptScript(base *script, kind string, served []byte) *script {
	g.nextID++
	s := &script{ID: g.nextID, Payload: base.Payload, PayName: base.PayName, CE: base.CE, CEClass: base.CEClass,
		Served: served, Corrupt: kind, SetCL: base.SetCL, CT: base.CT}
	g.w.o.mu.Lock()
	g.w.o.scripts[s.ID] = s
	g.w.o.mu.Unlock()
	return s
}

func (g *gen) drop(s *script) {
	g.w.o.mu.Lock()
	delete(g.w.o.scripts, s.ID)
	g.w.o.mu.Unlock()
}

// run one exchange: real code, oracle, Coq case
func (g *gen) one(x exchange) {
	o := g.w.do(x)
	r := g.r
	s := x.S
	if s.DropFirst {
		if o.Fatal != "" && o.Attempts < 2 {
			// the connection was not a reused one, the transport may not retry: precondition of the
			// cell not met (counted), nothing to judge
			r.Count("retry.precondition-not-met")
			return
		}
		r.Count(fmt.Sprintf("retry.attempts=%d", o.Attempts))
	}
	r.Count("stack=" + x.Stack)
	r.Count("cfg=" + x.Cfg.name())
	r.Count("req=" + x.Req.name())
	r.Count("ce=" + s.CEClass)
	if s.Corrupt != "" {
		r.Count("corrupt=" + strings.SplitN(s.Corrupt, "@", 2)[0])
	}
	r.Count(fmt.Sprintf("readpat=%v", x.Pat))
	if len(o.CE) == 0 && len(s.CE) > 0 && o.Fatal == "" {
		r.Count("outcome=decoded")
	} else {
		r.Count("outcome=untouched-or-error")
	}
	if o.Err != "" {
		r.Count("outcome=read-error")
	}
	kind, what := verdict(x, o)
	desc := map[string]interface{}{"kind": "exchange", "stack": x.Stack, "cfg": x.Cfg, "req": x.Req,
		"script": s, "served_len": len(s.Served), "payload_len": len(s.Payload), "read_sizes": x.Pat, "observed": o}
	if x.Live {
		desc["live_client"], desc["opened_under"], desc["exchanges_before"] = x.LiveKey, x.Opened, x.Nth
	}
	if x.Via != "" {
		desc["via"] = x.Via
	}
	if x.After != "" {
		desc["previous_exchange_on_the_connection"] = x.After
	}
	if s.Interim != 0 {
		desc["interim_status"] = s.Interim
	}
	if x.Twice {
		desc["same_request_object_twice"] = true
	}
	if kind != "" {
		cor := "valid"
		if s.Corrupt != "" {
			cor = strings.SplitN(s.Corrupt, "@", 2)[0]
		}
		ct := "bin"
		if x.Cfg.Text {
			ct = "text"
		}
		tag := ""
		if x.Live {
			tag = ":live-opened-" + x.Opened.name()
			if strings.Contains(x.LiveKey, "clone") {
				tag = ":clone-of-a-used-client"
			}
			if x.After != "" {
				tag = ":after-" + x.After
			}
			if s.Interim != 0 {
				tag = fmt.Sprintf(":interim-%d-first", s.Interim)
			}
		}
		if x.Via != "" {
			tag = ":" + x.Via
		}
		r.Fail(hk.Failure{Sig: fmt.Sprintf("%s:%s:%s:%s:ce=%s:%s:%s%s", kind, x.Stack, x.Cfg.name(), x.Req.name(), s.CEClass, cor, ct, tag),
			What: what, Input: desc})
	}
	if s.Corrupt != "" && o.Err == "" && o.Fatal == "" && len(o.CE) == 0 && len(s.CE) > 0 && string(o.Body) != string(s.Payload) {
		g.undet++
	}
	key := fmt.Sprintf("%s|%s|%s|%d|%v", x.Stack, x.Cfg.name(), x.Req.name()+x.Req.AE+x.Req.Range, s.ID, x.Pat)
	nt := len(s.CE) > 0 || x.Cfg.Auto || x.Req.AE != "" || x.Req.Method == "HEAD"
	r.Add(hk.Case{Coq: coqCase(x, o), Desc: desc}, key, nt)
	if g.singles++; g.singles%g.r.Scale(15, 4) == 0 {
		g.flushSeq(1)
	}
}

func runC14(r *hk.Run) {
	r.Header = "From Coq Require Import Uint63.\nFrom ReqV Require Import Model.C14Run."
	r.CaseType = "c14_case"
	r.CheckFn = "c14_check"
	r.ShardSize = 300
	r.Rule = "exchanges of the real client (Transport.RoundTrip) with local h1/h2/h3 origins: payloads {empty, 1 B, tiny, 511..513, 4095..4097, 70 KB, 1 MiB, multi-member gzip} x Content-Encoding {gzip, deflate, br, zstd, absent, empty value, identity, unknown tokens, x-gzip, mixed case, lists, padded} x {DisableCompression} x {AutoDecompression} x {GET, GET+caller Accept-Encoding, GET+Range, HEAD} x {Content-Length, chunked/no length} x read-size patterns; plus compressed streams truncated at every offset / bit-flipped in every byte (small) or per offset class (large), and bodies labelled with a coding they are not in; plus sequences of exchanges on one client (h2, h3, h1 with and without AutoDecompression): bodies closed once/twice/three times, then two or three bodies open at the same time and read with interleaved ReadFull operations of scripted sizes from one goroutine (deterministic interleaving), read to the end or closed early, all four codings and untouched responses mixed, an occasional truncated stream among them. Non-trivial (sequences): at least two bodies open at the same time. Non-trivial (single exchanges): the response carries a Content-Encoding header, or AutoDecompression is on, or the caller set Accept-Encoding, or the method is HEAD. Distinct by (stack, config, request kind, script, read pattern)."
	rng := hk.NewRand(r.Seed)
	o, err := startOrigins()
	if err != nil {
		r.Notes = append(r.Notes, "origins: "+err.Error())
		r.Fail(hk.Failure{Sig: "harness:origins", What: err.Error()})
		return
	}
	defer o.close()
	g := &gen{r: r, rng: rng, w: &world{o: o, clients: map[string]*req.Client{}}}
	g.run()
	r.Notes = append(r.Notes, fmt.Sprintf("corrupt streams delivered without error because the codec itself cannot tell (no checksum / still a valid stream): %d", g.undet))
}

func (g *gen) run() {
	r, rng := g.r, g.rng
	tiny := payload{"tiny", []byte("hello, world\n")}
	const bin = "application/octet-stream"

	// E. (run first, emitted interleaved) sequences on one client: repeated Close, several bodies alive
	// at once, interleaved reads
	g.runSeqs()

	// A. core cross product on a tiny payload
	for ci, c := range codings {
		s := g.newScript(tiny, c, ci%2 == 0, bin)
		s2 := g.newScript(tiny, c, ci%2 != 0, bin)
		for _, st := range stacks {
			for _, cf := range cfgs {
				for ki, k := range reqKinds {
					if c.class == "multiline" && ki != 0 && ki != 1 && ki != 6 {
						continue // several header lines: GET, GET+caller Accept-Encoding, HEAD
					}
					sc := s
					if (ki+ci)%3 == 0 {
						sc = s2
					}
					g.one(exchange{Stack: st, Cfg: cf, Req: k, S: sc, Pat: hk.Pick(rng, readPats)})
				}
			}
		}
	}

	// B. payload sweep
	pays := []payload{{"empty", nil}, {"1B", []byte("x")}}
	for _, n := range []int{511, 512, 513, 4095, 4096, 4097} {
		pays = append(pays, payload{fmt.Sprintf("text%d", n), textish(rng, n)})
	}
	pays = append(pays, payload{"rand3000", rng.Bytes(3000)}, payload{"text70k", textish(rng, 70000)})
	big := []payload{{"rand1M", rng.Bytes(1 << 20)}}
	if !r.Quick() {
		big = append(big, payload{"text4M", textish(rng, 4<<20)}, payload{"rand3M", rng.Bytes(3 << 20)})
	}
	per := r.Scale(3, 12)
	for _, p := range pays {
		for _, c := range codings {
			s := g.newScript(p, c, rng.Bool(), bin)
			for i := 0; i < per; i++ {
				g.one(exchange{Stack: stacks[(i+len(p.b))%3], Cfg: hk.Pick(rng, cfgs), Req: hk.Pick(rng, reqKinds), S: s, Pat: hk.Pick(rng, readPats)})
			}
			g.drop(s)
		}
	}
	for _, p := range big {
		for ci, c := range codings[:5] {
			s := g.newScript(p, c, rng.Bool(), bin)
			for si, st := range stacks {
				cf := cfg{Auto: true}
				if c.class == "gzip" && si%2 == 0 {
					cf = cfg{}
				}
				pat := readPats[(ci+si)%len(readPats)]
				if len(pat) == 1 && pat[0] == 1 && r.Quick() {
					pat = []int{7}
				}
				g.one(exchange{Stack: st, Cfg: cf, Req: reqKinds[0], S: s, Pat: pat})
			}
			g.drop(s)
		}
	}
	// multi-member gzip: gzip(p1) ++ gzip(p2) is the coding of p1 ++ p2
	for i := 0; i < r.Scale(4, 20); i++ {
		p1, p2 := textish(rng, rng.Range(0, 3000)), rng.Bytes(rng.Range(1, 600))
		g.nextID++
		s := &script{ID: g.nextID, Payload: append(append([]byte{}, p1...), p2...), PayName: "multi-member", CE: []string{"gzip"}, CEClass: "multi-member",
			Served: append(refCompress("gzip", p1), refCompress("gzip", p2)...), SetCL: rng.Bool(), CT: bin}
		o := g.w.o
		o.mu.Lock()
		o.scripts[s.ID] = s
		o.mu.Unlock()
		for _, st := range stacks {
			g.one(exchange{Stack: st, Cfg: cfgs[i%2], Req: reqKinds[0], S: s, Pat: hk.Pick(rng, readPats)})
		}
		// cut exactly at the member boundary: a valid, shorter stream (nobody can tell)
		cut := g.corruptScript(s, "trunc-member-boundary", refCompress("gzip", p1))
		g.one(exchange{Stack: stacks[i%3], Cfg: cfgs[i%2], Req: reqKinds[0], S: cut, Pat: hk.Pick(rng, readPats)})
		g.drop(s)
		g.drop(cut)
	}

	// C. text content types with charset auto-decode left on (default client): ASCII payload
	ascii := payload{"ascii", []byte("plain ascii text, nothing to transcode\n")}
	for _, c := range codings {
		for _, ct := range []string{"text/plain", "application/json"} {
			s := g.newScript(ascii, c, true, ct)
			for _, st := range stacks {
				for _, cf := range []cfg{{false, false, true}, {false, true, true}, {true, true, true}} {
					g.one(exchange{Stack: st, Cfg: cf, Req: reqKinds[rng.Intn(2)], S: s, Pat: hk.Pick(rng, readPats)})
				}
			}
			g.drop(s)
		}
	}

	// D. corrupt streams
	small := payload{"text60", textish(rng, 60)}
	n := 0
	for _, c := range codings[:4] {
		base := g.newScript(small, c, true, bin)
		L := len(base.Served)
		runCorrupt := func(kind string, served []byte) {
			s := g.corruptScript(base, kind, served)
			cf := cfg{Auto: true}
			if c.class == "gzip" && n%2 == 0 {
				cf = cfg{}
			}
			if n%5 == 0 {
				s.SetCL = false
			}
			g.one(exchange{Stack: stacks[n%3], Cfg: cf, Req: reqKinds[0], S: s, Pat: readPats[n%len(readPats)]})
			g.drop(s)
			n++
		}
		for t := 0; t < L; t++ {
			runCorrupt(fmt.Sprintf("trunc@%d/%d", t, L), append([]byte{}, base.Served[:t]...))
		}
		for i := 0; i < L; i++ {
			bits := []int{rng.Intn(8)}
			if !r.Quick() {
				bits = []int{0, 1, 2, 3, 4, 5, 6, 7}
			}
			for _, b := range bits {
				m := append([]byte{}, base.Served...)
				m[i] ^= 1 << uint(b)
				runCorrupt(fmt.Sprintf("flip@%d.%d/%d", i, b, L), m)
			}
		}
		runCorrupt("not-encoded", small.b)
		runCorrupt("trailing-garbage", append(append([]byte{}, base.Served...), 0xde, 0xad, 0xbe, 0xef))
		g.drop(base)
	}
	large := payload{"text70k", textish(rng, 70000)}
	for _, c := range codings[:4] {
		base := g.newScript(large, c, true, bin)
		L := len(base.Served)
		offs := []int{1, 2, 3, 9, 10, 11, 18, L / 4, L / 2, L/2 + 1, 3 * L / 4, L - 20, L - 9, L - 8, L - 5, L - 4, L - 2, L - 1}
		if !r.Quick() {
			for i := 0; i < 60; i++ {
				offs = append(offs, rng.Intn(L))
			}
		}
		for _, t := range offs {
			for _, kind := range []string{"trunc", "flip"} {
				var m []byte
				if kind == "trunc" {
					m = append([]byte{}, base.Served[:t]...)
				} else {
					m = append([]byte{}, base.Served...)
					m[t] ^= 1 << uint(rng.Intn(8))
				}
				s := g.corruptScript(base, fmt.Sprintf("%s@%d/%d", kind, t, L), m)
				cf := cfg{Auto: true}
				if c.class == "gzip" && n%2 == 0 {
					cf = cfg{}
				}
				g.one(exchange{Stack: stacks[n%3], Cfg: cf, Req: reqKinds[0], S: s, Pat: readPats[n%len(readPats)]})
				g.drop(s)
				n++
			}
		}
		g.drop(base)
	}

	// F-H. high-level API, zlib-wrapped deflate, 206
	g.runExtra()
	// I. concurrent readers
	g.runConcurrent()
	// J. bodies ending short of their declared length
	g.runShort()
	// K. one request, several attempts
	g.runAttempts()
	// L. settings toggled on live connections;  M. the http3 request-stream API
	g.runLive()
	g.runH3Stream()
	// N. trailers
	g.runTrailers()
	// O. clones
	g.runClones()
	// P. zstd windows
	g.runZstdWindows()
	// Q. after a bodiless answer;  R. interim responses;  S. gzip header fields
	g.runAfterBodiless()
	g.runInterim()
	g.runGzipHeaders()
	// T. untouched is byte-identical under the charset auto-decoder
	g.runCharsetUntouched()
	// U. Range header spellings
	g.runRangeSpellings()
	g.flushSeq(len(g.seqCases))
}
