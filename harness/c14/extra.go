package main

// Further phases: the high-level request API (Response.Bytes / SetOutput / ToBytes after
// DisableAutoReadResponse), 206 partial content, zlib-wrapped "deflate".

import (
	"bytes"
	"compress/gzip"
	"compress/zlib"
	"fmt"
	"strings"
	"time"

	req "github.com/imroc/req/v3"
	"github.com/imroc/req/v3/verifharness/hk"
	"github.com/klauspost/compress/zstd"
)

var apiModes = []string{"bytes", "output", "tobytes", "download-callback"}

// apiExchange: the same exchange through Client.R() instead of Transport.RoundTrip.
func (w *world) apiExchange(x exchange, mode, xid string) (o obs) {
	cl := w.client(x.Stack, x.Cfg)
	r := cl.R()
	if x.Req.AE != "" {
		r.SetHeader("Accept-Encoding", x.Req.AE)
	}
	if x.Req.Range != "" {
		r.SetHeader("Range", x.Req.Range)
	}
	var out bytes.Buffer
	switch mode {
	case "output":
		r.SetOutput(&out)
	case "tobytes":
		r.DisableAutoReadResponse()
	case "download-callback":
		// a download with a progress callback: the transport wraps the message body (below the decoder)
		r.SetOutput(&out).SetDownloadCallbackWithInterval(func(info req.DownloadInfo) {}, time.Millisecond)
	}
	var resp *req.Response
	var err error
	url := w.o.url(x.Stack, x.S.ID, xid)
	if x.Req.Method == "HEAD" {
		resp, err = r.Head(url)
	} else {
		resp, err = r.Get(url)
	}
	if resp == nil || resp.Response == nil {
		o.Fatal = fmt.Sprintf("api: no response: %v", err)
		return
	}
	o.CE = resp.Header.Values("Content-Encoding")
	o.CLH = resp.Header.Values("Content-Length")
	o.CL = resp.ContentLength
	o.Unc = resp.Uncompressed
	o.Sticky = true
	switch mode {
	case "bytes":
		o.Body = resp.Bytes()
	case "output", "download-callback":
		o.Body = out.Bytes()
	case "tobytes":
		if err == nil {
			o.Body, err = resp.ToBytes()
		}
	}
	o.BodyLen = len(o.Body)
	if err != nil {
		o.Err = err.Error()
	}
	return
}

func (g *gen) oneAPI(x exchange, mode string) {
	w := g.w
	w.xn++
	xid := fmt.Sprintf("%d", w.xn)
	ch := make(chan obs, 1)
	go func() {
		var o obs
		defer func() {
			if e := recover(); e != nil {
				o = obs{Fatal: fmt.Sprintf("panic: %v", e)}
			}
			ch <- o
		}()
		o = w.apiExchange(x, mode, xid)
	}()
	var o obs
	select {
	case o = <-ch:
	case <-timeAfter(w.watchdog()):
		w.hangs++
		o = obs{Fatal: "hang: no result within the watchdog limit"}
	}
	w.o.mu.Lock()
	o.SeenAE = w.o.seen[xid].AE
	delete(w.o.seen, xid)
	w.o.mu.Unlock()
	r, s := g.r, x.S
	r.Count("api.mode=" + mode)
	r.Count("api.stack=" + x.Stack)
	r.Count("api.ce=" + s.CEClass)
	kind, what := verdict(x, o)
	desc := map[string]interface{}{"kind": "api-exchange", "mode": mode, "stack": x.Stack, "cfg": x.Cfg, "req": x.Req,
		"script": s, "served_len": len(s.Served), "payload_len": len(s.Payload), "observed": o}
	if kind != "" {
		cor := "valid"
		if s.Corrupt != "" {
			cor = strings.SplitN(s.Corrupt, "@", 2)[0]
		}
		r.Fail(hk.Failure{Sig: fmt.Sprintf("api-%s:%s:%s:%s:%s:ce=%s:%s", mode, kind, x.Stack, x.Cfg.name(), x.Req.name(), s.CEClass, cor),
			What: what, Input: desc})
	}
	key := fmt.Sprintf("api|%s|%s|%s|%s|%d", mode, x.Stack, x.Cfg.name(), x.Req.name()+x.Req.AE+x.Req.Range, s.ID)
	r.Add(hk.Case{Coq: coqCase(x, o), Desc: desc}, key, len(s.CE) > 0 || x.Cfg.Auto || x.Req.AE != "" || x.Req.Method == "HEAD")
}

func refZlib(p []byte) []byte {
	var b bytes.Buffer
	w := zlib.NewWriter(&b)
	w.Write(p)
	w.Close()
	return b.Bytes()
}

func (g *gen) runExtra() {
	r, rng := g.r, g.rng.Fork()
	const bin = "application/octet-stream"
	text := payload{"text700", textish(rng, 700)}

	// F. high-level API: every coding x stack x config, the three ways of getting at the body
	n := 0
	for _, c := range codings {
		s := g.newScript(text, c, rng.Bool(), bin)
		for _, st := range stacks {
			for _, cf := range cfgs {
				k := reqKinds[0]
				if n%4 == 3 {
					k = hk.Pick(rng, reqKinds)
				}
				g.oneAPI(exchange{Stack: st, Cfg: cf, Req: k, S: s}, apiModes[(n+n/len(apiModes))%len(apiModes)])
				n++
			}
		}
		g.drop(s)
	}
	// a download with a progress callback as the read mode of every decode cell (the body wrapper and the
	// decode decision are two sites)
	for _, c := range []coding{codings[0], codings[1], codings[2], codings[3], codings[4], codings[10]} {
		s := g.newScript(text, c, rng.Bool(), bin)
		for _, st := range stacks {
			for _, cf := range cfgs {
				g.oneAPI(exchange{Stack: st, Cfg: cf, Req: reqKinds[0], S: s}, "download-callback")
			}
		}
		g.drop(s)
	}
	// a truncated stream through the API: the error must come back from Get / ToBytes
	for _, c := range codings[:4] {
		base := g.newScript(text, c, true, bin)
		for _, t := range []int{len(base.Served) / 2, len(base.Served) - 1} {
			s := g.corruptScript(base, fmt.Sprintf("trunc@%d/%d", t, len(base.Served)), append([]byte{}, base.Served[:t]...))
			for i, st := range stacks {
				g.oneAPI(exchange{Stack: st, Cfg: cfg{Auto: true}, Req: reqKinds[0], S: s}, apiModes[(i+t)%len(apiModes)])
			}
			g.drop(s)
		}
		g.drop(base)
	}

	// G. "deflate" as RFC 9110 defines it (zlib-wrapped, RFC 1950).  The code reads raw RFC 1951 (recorded
	// interpretation): accepted outcomes are the original payload or a read error - never other bytes.
	for _, p := range []payload{text, {"text70k", textish(rng, 70000)}, {"empty", nil}} {
		base := g.newScript(p, codings[1], true, bin)
		s := g.corruptScript(base, "zlib-wrapped", refZlib(p.b))
		s.CEClass = "deflate-zlib"
		for _, st := range stacks {
			for _, cf := range cfgs {
				g.one(exchange{Stack: st, Cfg: cf, Req: reqKinds[0], S: s, Pat: hk.Pick(rng, readPats)})
			}
		}
		r.Count("zlib-wrapped-deflate")
		g.drop(s)
		g.drop(base)
	}

	// H. 206 Partial Content: the status code is not an input of the decision.  Range requests are not
	// asked-for-gzip; under AutoDecompression the code decodes what it gets - the whole stream
	// (bytes=0-) or a slice of it (a truncated stream: read error)
	for _, c := range codings[:6] {
		base := g.newScript(text, c, true, bin)
		L := len(base.Served)
		full := g.corruptScript(base, "", base.Served)
		full.Status, full.CRange = 206, fmt.Sprintf("bytes 0-%d/%d", L-1, L)
		cut := L / 2
		part := g.corruptScript(base, fmt.Sprintf("trunc@%d/%d", cut, L), append([]byte{}, base.Served[:cut]...))
		part.Status, part.CRange = 206, fmt.Sprintf("bytes 0-%d/%d", cut-1, L)
		if len(c.chain) == 0 {
			part.Corrupt = "" // not encoded: a slice of the payload is what is to be delivered
			part.Payload = part.Served
		}
		for _, st := range stacks {
			for _, cf := range cfgs {
				g.one(exchange{Stack: st, Cfg: cf, Req: reqKind{"GET", "", "bytes=0-"}, S: full, Pat: hk.Pick(rng, readPats)})
				g.one(exchange{Stack: st, Cfg: cf, Req: reqKind{"GET", "", fmt.Sprintf("bytes=0-%d", cut-1)}, S: part, Pat: hk.Pick(rng, readPats)})
				if cf.Auto {
					// a 206 answer to a request without Range (misbehaving origin): still decoded like a 200
					g.one(exchange{Stack: st, Cfg: cf, Req: reqKinds[0], S: full, Pat: hk.Pick(rng, readPats)})
				}
				r.Count("status=206")
			}
		}
		g.drop(full)
		g.drop(part)
		g.drop(base)
	}
}

// I. truly concurrent readers: K goroutines fetch and read K different responses on one client at the
// same time (every one with its own read-size pattern), closing each body twice.  The interleaving is
// up to the scheduler, the expected outcome is not: every body is its own payload.  Complements the
// deterministic sequences (a recycled object that is still being read when it is handed out again).
func (g *gen) runConcurrent() {
	r, rng := g.r, g.rng.Fork()
	rounds := r.Scale(32, 300)
	for n := 0; n < rounds; n++ {
		cl := seqClients[n%len(seqClients)]
		g.w.client(cl.stack, cl.cfg) // created before the goroutines start
		theme := (n + n/len(seqClients)) % 4
		const K = 5
		xs := make([]exchange, K)
		xids := make([]string, K)
		for k := 0; k < K; k++ {
			c := codings[0]
			if cl.cfg.Auto {
				c = codings[theme]
				if rng.Chance(25) {
					c = codings[rng.Intn(4)]
				}
			}
			kind := reqKinds[0]
			if cl.stack == "h1" && cl.cfg.Auto && c.class == "gzip" && rng.Chance(60) {
				kind = reqKinds[1]
			}
			size := hk.Pick(rng, []int{300, 2500, 4097, 9000, 20000, 40000})
			seed := uint64(g.nextID+1)*7919 + uint64(rng.Intn(1000)) + 1
			s := g.newScript(payload{fmt.Sprintf("gen%d", size), genPayload(seed, size)}, c, rng.Bool(), "application/octet-stream")
			s.GenSeed = seed
			xs[k] = exchange{Stack: cl.stack, Cfg: cl.cfg, Req: kind, S: s, Pat: hk.Pick(rng, readPats[:])}
			if len(xs[k].Pat) == 1 && xs[k].Pat[0] == 1 {
				xs[k].Pat = []int{7, 1, 64}
			}
			g.w.xn++
			xids[k] = fmt.Sprintf("%d", g.w.xn)
		}
		res := make([]obs, K)
		done := make(chan int, K)
		for k := 0; k < K; k++ {
			go func(k int) {
				defer func() {
					if e := recover(); e != nil {
						res[k] = obs{Fatal: fmt.Sprintf("panic: %v", e)}
					}
					done <- k
				}()
				res[k] = g.w.exchange(xs[k], xids[k])
			}(k)
		}
		finished := map[int]bool{}
		timeout := timeAfter(g.w.watchdog())
	wait:
		for len(finished) < K {
			select {
			case k := <-done:
				finished[k] = true
			case <-timeout:
				g.w.hangs++
				break wait
			}
		}
		for k := 0; k < K; k++ {
			o := obs{Fatal: "hang: no result within the watchdog limit"}
			if finished[k] {
				o = res[k]
			}
			g.w.o.mu.Lock()
			o.SeenAE = g.w.o.seen[xids[k]].AE
			delete(g.w.o.seen, xids[k])
			g.w.o.mu.Unlock()
			x, s := xs[k], xs[k].S
			r.Count("concurrent.client=" + cl.stack + "/" + cl.cfg.name())
			r.Count("concurrent.ce=" + s.CEClass)
			desc := map[string]interface{}{"kind": "concurrent-exchange", "round": n, "of": K, "stack": x.Stack, "cfg": x.Cfg, "req": x.Req,
				"script": s, "served_len": len(s.Served), "payload_len": len(s.Payload), "read_sizes": x.Pat, "observed": o}
			if kind, what := verdict(x, o); kind != "" {
				r.Fail(hk.Failure{Sig: fmt.Sprintf("concurrent:%s:%s:%s:%s:ce=%s", kind, x.Stack, x.Cfg.name(), x.Req.name(), s.CEClass),
					What: fmt.Sprintf("one of %d responses read at the same time: %s", K, what), Input: desc})
			}
			key := fmt.Sprintf("conc|%d|%s|%s|%d|%v", n, x.Stack, x.Cfg.name(), s.ID, x.Pat)
			r.Add(hk.Case{Coq: coqCase(x, o), Desc: desc}, key, true)
		}
		for k := 0; k < K; k++ {
			g.drop(xs[k].S)
		}
	}
}

// J. bodies that end cleanly short of their declared Content-Length, the cut point as a dimension:
// before the first byte, on every member boundary of a multi-member gzip body / frame boundary of a
// multi-frame zstd body, one byte either side of a boundary, inside a member, one byte before the end;
// single-stream codings (br, deflate): inside, one byte before the end, complete stream but more declared.
func (g *gen) runShort() {
	r, rng := g.r, g.rng.Fork()
	const bin = "application/octet-stream"
	type cutSpec struct {
		kind string
		at   int
	}
	sets := [][]int{{700, 300, 1500}, {40, 20000, 9}}
	if !r.Quick() {
		sets = append(sets, []int{4096, 4096, 1}, []int{1, 1, 1}, []int{70000, 5, 3000})
	}
	n := 0
	for _, sizes := range sets {
		var parts [][]byte
		var whole []byte
		for _, sz := range sizes {
			p := textish(rng, sz)
			parts = append(parts, p)
			whole = append(whole, p...)
		}
		for ci, c := range []coding{codings[0], codings[3], codings[2], codings[1], codings[4], codings[7]} {
			var full []byte
			var bounds []int
			multi := c.class == "gzip" || c.class == "zstd"
			switch {
			case multi:
				for _, p := range parts {
					full = append(full, refCompress(c.class, p)...)
					bounds = append(bounds, len(full))
				}
			case len(c.chain) == 1:
				full = refCompress(c.chain[0], whole)
			default:
				full = whole
			}
			L := len(full)
			cuts := []cutSpec{{"zero", 0}, {"inside", L / 3}, {"last-byte", L - 1}}
			decl := L
			if multi {
				for bi, b := range bounds[:len(bounds)-1] {
					cuts = append(cuts, cutSpec{fmt.Sprintf("boundary%d", bi+1), b}, cutSpec{fmt.Sprintf("boundary%d+1", bi+1), b + 1}, cutSpec{fmt.Sprintf("boundary%d-1", bi+1), b - 1})
				}
			} else if len(c.chain) == 1 {
				cuts = append(cuts, cutSpec{"complete-stream-more-declared", L})
				decl = L + 10
			}
			for _, cut := range cuts {
				if cut.at < 0 || cut.at > L || cut.at >= decl {
					continue
				}
				g.nextID++
				s := &script{ID: g.nextID, Payload: whole, PayName: fmt.Sprintf("parts%v", sizes), CE: c.ce, CEClass: c.class,
					Served: append([]byte{}, full[:cut.at]...), Corrupt: fmt.Sprintf("short-%s@%d/%d", cut.kind, cut.at, decl), SetCL: true, CT: bin, DeclCL: decl}
				if len(c.chain) == 0 {
					s.Payload = full
				}
				g.w.o.mu.Lock()
				g.w.o.scripts[s.ID] = s
				g.w.o.mu.Unlock()
				for _, st := range stacks {
					for _, cf := range []cfg{{}, {Auto: true}, {Disable: true, Auto: true}} {
						k := reqKinds[0]
						if cf.Auto && (n+ci)%4 == 0 {
							k = reqKinds[1] // caller Accept-Encoding: AutoDecompression alone decodes (compress.GzipReader on h1)
						}
						g.one(exchange{Stack: st, Cfg: cf, Req: k, S: s, Pat: readPats[n%len(readPats)]})
						r.Count("short.cut=" + cut.kind)
						n++
					}
				}
				g.drop(s)
			}
		}
	}
}

// K. state carried from one attempt to the next.  (1) HTTP/1: exchange k reuses a kept-alive connection,
// the origin reads the request and closes the connection without answering; the transport re-sends the
// same request on a new connection and gets the (gzip, ...) answer: every attempt must carry the same
// Accept-Encoding and the answer must be treated as the answer to a first attempt.  (2) all stacks: the
// caller sends the same *http.Request object through RoundTrip twice.
func (g *gen) runAttempts() {
	r, rng := g.r, g.rng.Fork()
	const bin = "application/octet-stream"
	warm := g.newScript(payload{"warm", []byte("warm-up\n")}, codings[4], true, bin)
	p := payload{"text900", textish(rng, 900)}
	n := 0
	acods := []coding{codings[0], codings[10], codings[3], codings[4]}
	if !r.Quick() {
		acods = append(acods, codings[0], codings[2], codings[6])
	}
	for _, c := range acods {
		for _, cf := range []cfg{{}, {Auto: true}, {Disable: true}, {Disable: true, Auto: true}} {
			for _, k := range []reqKind{reqKinds[0], reqKinds[0], reqKinds[1], reqKinds[4]} {
				// (1) dropped attempt on a reused HTTP/1 connection
				g.one(exchange{Stack: "h1", Cfg: cf, Req: reqKinds[0], S: warm, Pat: []int{4096}}) // leaves an idle connection
				s := g.newScript(p, c, n%2 == 0, bin)
				s.DropFirst = true
				g.one(exchange{Stack: "h1", Cfg: cf, Req: k, S: s, Pat: readPats[n%len(readPats)]})
				g.drop(s)
				// (2) the same request object twice
				s2 := g.newScript(p, c, n%2 == 1, bin)
				g.one(exchange{Stack: stacks[n%3], Cfg: cf, Req: k, S: s2, Pat: readPats[n%len(readPats)], Twice: true})
				r.Count("attempts.same-request-twice")
				g.drop(s2)
				n++
			}
		}
	}
	g.drop(warm)
}

// L. settings toggled between exchanges on LIVE connections: one client per stack; before every
// exchange DisableCompression / AutoDecompression / auto-decode are set to that exchange's values, the
// h2 connection, the QUIC connection and the idle h1 connections stay.  Every ordered pair of
// (DisableCompression, AutoDecompression) settings x codings: an exchange under A, then one under B.
func (g *gen) runLive() {
	r, rng := g.r, g.rng.Fork()
	const bin = "application/octet-stream"
	p := payload{"text900", textish(rng, 900)}
	var sets []cfg
	for _, d := range []bool{false, true} {
		for _, a := range []bool{false, true} {
			sets = append(sets, cfg{Disable: d, Auto: a})
		}
	}
	cods := []coding{codings[0], codings[1], codings[4]}
	if !r.Quick() {
		cods = append(cods, codings[3], codings[10], codings[2], codings[6], codings[15], codings[20])
	}
	warm := g.newScript(payload{"warm", []byte("warm-up\n")}, codings[4], true, bin)
	n := 0
	step := func(key string, cf cfg, k reqKind, s *script) {
		st := strings.SplitN(key, "/", 2)[0]
		if rng.Chance(30) {
			cf.Text = true // auto-decode toggled as well (octet-stream / ASCII: nothing to transcode)
		}
		x := exchange{Stack: st, Cfg: cf, Req: k, S: s, Pat: readPats[n%len(readPats)], Live: true, LiveKey: key}
		g.w.liveClient(key, cf) // creates the client on first use and records what it was opened under
		x.Opened, x.Nth = g.w.live[key].opened, g.w.live[key].n
		x.Opened.Text = false
		g.w.live[key].n++
		g.one(x)
		r.Count("live.client=" + key)
		n++
	}
	// two clients per stack: one whose connection is opened with everything off, one with everything on
	for _, st := range stacks {
		for variant, order := range [][]int{{0, 1, 2, 3}, {3, 2, 1, 0}} {
			key := fmt.Sprintf("%s/opened-%s", st, sets[order[0]].name())
			for _, ai := range order {
				for _, bi := range order {
					a, b := sets[ai], sets[bi]
					for ci, c := range cods {
						if r.Quick() && variant == 1 && ci%2 == 1 {
							continue
						}
						s := g.newScript(p, c, (n+ci)%2 == 0, bin)
						step(key, a, reqKinds[0], warm)
						k := reqKinds[0]
						if (n+ci)%5 == 0 {
							k = reqKinds[1]
						}
						step(key, b, k, s)
						r.Count(fmt.Sprintf("live.transition=%s->%s", a.name(), b.name()))
						g.drop(s)
					}
				}
			}
		}
	}
	g.drop(warm)
}

// M. the HTTP/3 request-stream API (internal/http3: OpenRequestStream / SendRequestHeader / ReadResponse,
// then the body from res.Body or from RequestStream.Read).  Nothing outside internal/http3 uses it and a
// user of the library cannot reach it (internal package); the harness can, so both ways of reading are
// held to the same verdict as a round trip.
func (g *gen) runH3Stream() {
	r, rng := g.r, g.rng.Fork()
	const bin = "application/octet-stream"
	p := payload{"text900", textish(rng, 900)}
	n := 0
	for _, c := range []coding{codings[0], codings[1], codings[2], codings[3], codings[4], codings[6], codings[10], codings[15], codings[20]} {
		s := g.newScript(p, c, n%2 == 0, bin)
		for _, cf := range cfgs {
			for _, via := range []string{"h3-stream-read", "h3-stream-body"} {
				k := reqKinds[0]
				if n%4 == 3 {
					k = reqKinds[1]
				}
				g.one(exchange{Stack: "h3", Cfg: cf, Req: k, S: s, Pat: readPats[n%len(readPats)], Via: via})
				r.Count("h3stream.via=" + via)
				n++
			}
		}
		g.drop(s)
	}
}

// N. trailers: a trailer field sent after the body (chunked / HEADERS after DATA) is there once the body
// was read to its clean end - whether a decoder sits on the body or not, for every read pattern.
func (g *gen) runTrailers() {
	r, rng := g.r, g.rng.Fork()
	const bin = "application/octet-stream"
	n := 0
	for _, p := range []payload{{"text900", textish(rng, 900)}, {"text70k", textish(rng, 70000)}, {"empty", nil}} {
		for _, c := range []coding{codings[0], codings[1], codings[2], codings[3], codings[4], codings[6], codings[10]} {
			s := g.newScript(p, c, false, bin)
			s.Trailer = fmt.Sprintf("sum-%d", s.ID)
			for _, st := range stacks {
				for _, cf := range cfgs {
					k := reqKinds[0]
					if n%5 == 4 {
						k = reqKinds[1]
					}
					g.one(exchange{Stack: st, Cfg: cf, Req: k, S: s, Pat: readPats[n%len(readPats)]})
					r.Count("trailer.stack=" + st)
					n++
				}
			}
			g.drop(s)
		}
	}
}

// O. CLONES: an original client makes an exchange (its connections are open), Client.Clone() is called,
// the clone gets its own decompression settings and makes exchanges to the same origin, then the original
// again, then a clone of the clone - every client is judged by its OWN settings of the moment.  All ordered
// pairs (original's settings A, clone's settings B) x codings, on the three stacks.
func (g *gen) runClones() {
	r, rng := g.r, g.rng.Fork()
	const bin = "application/octet-stream"
	p := payload{"text900", textish(rng, 900)}
	var sets []cfg
	for _, d := range []bool{false, true} {
		for _, a := range []bool{false, true} {
			sets = append(sets, cfg{Disable: d, Auto: a})
		}
	}
	cods := []coding{codings[1], codings[0], codings[3]}
	if !r.Quick() {
		cods = append(cods, codings[2], codings[4], codings[10])
	}
	warm := g.newScript(payload{"warm", []byte("warm-up\n")}, codings[4], true, bin)
	n := 0
	step := func(key string, cf cfg, s *script) {
		st := strings.SplitN(key, "/", 2)[0]
		x := exchange{Stack: st, Cfg: cf, Req: reqKinds[0], S: s, Pat: readPats[n%len(readPats)], Live: true, LiveKey: key}
		g.w.liveClient(key, cf)
		x.Opened, x.Nth = g.w.live[key].opened, g.w.live[key].n
		g.w.live[key].n++
		g.one(x)
		n++
	}
	for _, st := range stacks {
		for ai, a := range sets {
			orig := fmt.Sprintf("%s/orig%d", st, ai)
			step(orig, a, warm) // the original's connection is open now
			for bi, b := range sets {
				ck := fmt.Sprintf("%s/clone%d.%d", st, ai, bi)
				g.w.cloneLive(orig, ck, b)
				for _, c := range cods {
					s := g.newScript(p, c, n%2 == 0, bin)
					step(ck, b, s)   // the clone, under its own settings
					step(orig, a, s) // the original is what it was
					g.drop(s)
				}
				if bi == (ai+1)%len(sets) { // a clone of the clone, back under the original's settings
					cck := ck + ".c"
					g.w.cloneLive(ck, cck, a)
					s := g.newScript(p, cods[0], true, bin)
					step(cck, a, s)
					g.drop(s)
				}
				r.Count(fmt.Sprintf("clone.settings=%s->%s", a.name(), b.name()))
			}
		}
	}
	g.drop(warm)
}

// P. zstd frames by window size: a stream written piecemeal (the frame header carries a Window_Descriptor)
// with a 1 MB, 8 MB and 16 MB window.  RFC 9659 caps the window of the "zstd" content coding at 8 MB: up to
// there the payload must come out; above, the payload or a read error (never other bytes) - the code has
// no cap, the model follows the code.
func (g *gen) runZstdWindows() {
	r, rng := g.r, g.rng.Fork()
	p := textish(rng, 300000)
	n := 0
	for _, win := range []int{1 << 20, 8 << 20, 16 << 20} {
		var out bytes.Buffer
		zw, err := zstd.NewWriter(&out, zstd.WithWindowSize(win), zstd.WithEncoderConcurrency(1), zstd.WithEncoderCRC(true))
		if err != nil {
			r.Notes = append(r.Notes, "zstd writer: "+err.Error())
			return
		}
		for off := 0; off < len(p); off += 64 << 10 {
			end := off + 64<<10
			if end > len(p) {
				end = len(p)
			}
			zw.Write(p[off:end])
		}
		zw.Close()
		g.nextID++
		s := &script{ID: g.nextID, Payload: p, PayName: "text300k", CE: []string{"zstd"}, CEClass: fmt.Sprintf("zstd-window%dM", win>>20),
			Served: out.Bytes(), SetCL: n%2 == 0, CT: "application/octet-stream", Lenient: win > 8<<20}
		g.w.o.mu.Lock()
		g.w.o.scripts[s.ID] = s
		g.w.o.mu.Unlock()
		for _, st := range stacks {
			for _, cf := range []cfg{{Auto: true}, {Disable: true, Auto: true}} {
				g.one(exchange{Stack: st, Cfg: cf, Req: reqKinds[0], S: s, Pat: readPats[n%len(readPats)]})
				r.Count(fmt.Sprintf("zstd.window=%dM", win>>20))
				n++
			}
		}
		g.drop(s)
	}
}

// refGzipNamed: a gzip member whose header carries the optional fields (FEXTRA, FNAME, FCOMMENT), as
// gzip(1) and pre-compressed files have.
func refGzipNamed(p []byte) []byte {
	var b bytes.Buffer
	w := gzip.NewWriter(&b)
	w.Header.Name = "payload-file.txt"
	w.Header.Comment = "a comment, then the data"
	w.Header.Extra = []byte{1, 2, 3, 4, 5, 6}
	w.Write(p)
	w.Close()
	return b.Bytes()
}

// Q. what went before on the CONNECTION: a first exchange (plain GET, the transport asks for gzip) answered
// WITHOUT a body (204, 304, 200 with Content-Length: 0, HEAD) or with one, then - same client, same
// kept-alive / h2 / QUIC connection - every request kind under the same or changed settings, answered with a
// coded body.  Only the second exchange is judged: it must be treated as if nothing went before.
func (g *gen) runAfterBodiless() {
	r, rng := g.r, g.rng.Fork()
	const bin = "application/octet-stream"
	p := payload{"text900", textish(rng, 900)}
	type first struct {
		name, method string
		status       int
		body         bool
	}
	firsts := []first{{"204", "GET", 204, false}, {"304", "GET", 304, false}, {"200-cl0", "GET", 0, false}, {"head", "HEAD", 0, true}, {"200-body", "GET", 0, true}}
	pairs := [][2]cfg{{{}, {}}, {{}, {Disable: true}}, {{Auto: true}, {Auto: true}}, {{}, {Auto: true}}}
	kinds := []reqKind{reqKinds[1], reqKinds[4], reqKinds[5], reqKinds[0]}
	if !r.Quick() {
		kinds = reqKinds[:6]
	}
	n := 0
	for _, st := range stacks {
		key := st + "/after-bodiless"
		for _, f := range firsts {
			var fs *script
			if f.body {
				fs = g.newScript(p, codings[0], true, bin)
			} else {
				fs = g.newScript(payload{"none", nil}, codings[4], true, bin)
				fs.Status = f.status
			}
			for _, pr := range pairs {
				for ki, k := range kinds {
					cods := []coding{codings[0]}
					if pr[1].Auto && ki%2 == 0 {
						cods = append(cods, codings[1])
					}
					for _, c := range cods {
						g.w.prime(key, pr[0], f.method, fs)
						s := g.newScript(p, c, n%2 == 0, bin)
						x := exchange{Stack: st, Cfg: pr[1], Req: k, S: s, Pat: readPats[n%len(readPats)], Live: true, LiveKey: key}
						g.w.liveClient(key, pr[1])
						x.Opened, x.Nth = g.w.live[key].opened, g.w.live[key].n
						g.w.live[key].n++
						x.After = f.name
						g.one(x)
						r.Count("after.first=" + f.name)
						g.drop(s)
						n++
					}
				}
			}
			g.drop(fs)
		}
	}
}

// R. an interim (informational) response before the final one: 103 Early Hints, then the coded answer - the
// decision is made from the FINAL response's headers, on every stack.
func (g *gen) runInterim() {
	r, rng := g.r, g.rng.Fork()
	const bin = "application/octet-stream"
	p := payload{"text900", textish(rng, 900)}
	n := 0
	for _, c := range []coding{codings[0], codings[1], codings[2], codings[3], codings[4], codings[10]} {
		s := g.newScript(p, c, n%2 == 0, bin)
		s.Interim = 103
		for _, st := range stacks {
			for _, cf := range cfgs {
				for _, k := range []reqKind{reqKinds[0], reqKinds[1]} {
					g.one(exchange{Stack: st, Cfg: cf, Req: k, S: s, Pat: readPats[n%len(readPats)]})
					r.Count("interim.stack=" + st)
					n++
				}
			}
		}
		g.drop(s)
	}
}

// S. gzip members with optional header fields (FEXTRA / FNAME / FCOMMENT), cut at every offset of the
// header and a few beyond, in the only member and in the second member of a two-member body; the message
// ends cleanly at the cut (no contradicting Content-Length): a read error is due, on every stack and from
// both gzip readers (transport.go gzipReader, compress.GzipReader).
func (g *gen) runGzipHeaders() {
	r, rng := g.r, g.rng.Fork()
	const bin = "application/octet-stream"
	p1, p2 := textish(rng, 400), textish(rng, 700)
	named := refGzipNamed(p2)
	hdr := 10 + 2 + 6 + len("payload-file.txt") + 1 + len("a comment, then the data") + 1
	n := 0
	for _, two := range []bool{false, true} {
		prefix, pay := []byte(nil), p2
		if two {
			prefix, pay = refCompress("gzip", p1), append(append([]byte{}, p1...), p2...)
		}
		full := append(append([]byte{}, prefix...), named...)
		base := &script{Payload: pay, PayName: "named-gzip", CE: []string{"gzip"}, CEClass: "gzip-named", Served: full, CT: bin}
		// the intact stream first
		whole := g.corruptScript(base, "", full)
		for _, st := range stacks {
			g.one(exchange{Stack: st, Cfg: cfg{}, Req: reqKinds[0], S: whole, Pat: readPats[n%len(readPats)]})
			g.one(exchange{Stack: st, Cfg: cfg{Auto: true}, Req: reqKinds[1], S: whole, Pat: readPats[n%len(readPats)]})
			n++
		}
		g.drop(whole)
		step := 1
		if r.Quick() {
			step = 3
		}
		for t := 1; t < hdr+8; t += step {
			cut := len(prefix) + t
			s := g.corruptScript(base, fmt.Sprintf("trunc-gzip-header@%d/%d", t, hdr), append([]byte{}, full[:cut]...))
			s.SetCL = n%2 == 0
			st := stacks[n%3]
			cf, k := cfg{}, reqKinds[0]
			if (n/3)%2 == 1 {
				cf, k = cfg{Auto: true}, reqKinds[1] // AutoDecompression alone decodes: compress.GzipReader also on h1
			}
			g.one(exchange{Stack: st, Cfg: cf, Req: k, S: s, Pat: readPats[n%len(readPats)]})
			r.Count("gzip-header.cut")
			g.drop(s)
			n++
		}
	}
}

// T. "untouched" is byte-identical also under the charset auto-decoder: auto-decode left ON (the
// client's default), textual Content-Types in legacy charsets / sniffable ones, bodies with bytes >= 0x80
// (GBK, Latin-1, Shift_JIS text, and random bytes), and every way a response keeps its Content-Encoding:
// tokens the transport cannot decode (lz4, bzip2, xz, snappy, dcb, aws-chunked, x-custom, compress,
// identity, lists, several lines), mixed-case tokens, and decodable codings left coded (caller's own
// Accept-Encoding, Range, compression disabled; AutoDecompression off).  Decoded responses are not in this
// phase: transcoding the decoded text is the charset property's business.
func (g *gen) runCharsetUntouched() {
	r, rng := g.r, g.rng.Fork()
	bodies := []payload{
		{"gbk", []byte("\xc4\xe3\xba\xc3\xa3\xac\xca\xc0\xbd\xe7 - GBK text \xd6\xd0\xce\xc4\n")},
		{"latin1", []byte("caf\xe9 cr\xe8me br\xfbl\xe9e \xa9 na\xefve\n")},
		{"sjis", []byte("\x82\xb1\x82\xf1\x82\xc9\x82\xbf\x82\xcd Shift_JIS\n")},
		{"rand", rng.Bytes(700)},
	}
	cts := []string{"text/plain; charset=gbk", "text/html; charset=iso-8859-1", "text/plain; charset=shift_jis", "text/html", "application/json; charset=gb18030", "text/xml"}
	unknown := []coding{
		{"unknown", []string{"lz4"}, nil}, {"unknown", []string{"bzip2"}, nil}, {"unknown", []string{"xz"}, nil},
		{"unknown", []string{"snappy"}, nil}, {"unknown", []string{"dcb"}, nil}, {"unknown", []string{"aws-chunked"}, nil},
		codings[7], codings[8], codings[6], codings[9], codings[15], codings[20], codings[23],
	}
	n := 0
	for bi, p := range bodies {
		for ci, c := range unknown {
			ct := cts[(bi+ci)%len(cts)]
			s := g.newScript(p, c, n%2 == 0, ct)
			for _, st := range stacks {
				cf := cfg{Text: true, Auto: n%2 == 0, Disable: n%3 == 0}
				g.one(exchange{Stack: st, Cfg: cf, Req: reqKinds[(n%2)*1], S: s, Pat: readPats[n%len(readPats)]})
				r.Count("charset-untouched.kind=unsupported")
				n++
			}
			g.drop(s)
		}
		// decodable codings the transport leaves coded, and mixed-case tokens
		for ci, c := range []coding{codings[0], codings[1], codings[2], codings[3], codings[12], codings[13]} {
			ct := cts[(bi+ci+1)%len(cts)]
			s := g.newScript(p, c, n%2 == 1, ct)
			for _, st := range stacks {
				for _, k := range []reqKind{reqKinds[1], reqKinds[4]} { // caller Accept-Encoding; Range
					cf := cfg{Text: true}
					if c.class == "mixed" {
						cf.Auto = true
					}
					if c.class == "mixed" && k.AE == "" {
						continue
					}
					g.one(exchange{Stack: st, Cfg: cf, Req: k, S: s, Pat: readPats[n%len(readPats)]})
					r.Count("charset-untouched.kind=left-coded")
					n++
				}
			}
			g.drop(s)
		}
	}
}

// U. Range header spellings: any Range field makes the request a Range request - unit in another letter
// case, another unit, spaces, several ranges, nonsense - the transport does not add Accept-Encoding: gzip
// and (AutoDecompression off) leaves a coded answer alone, on every stack; with a 206 slice of the coded
// representation as the answer as well as a 200.
func (g *gen) runRangeSpellings() {
	r, rng := g.r, g.rng.Fork()
	const bin = "application/octet-stream"
	p := payload{"text900", textish(rng, 900)}
	ranges := []string{"Bytes=4-59", "BYTES=0-", "bytes =0-9", " bytes=0-99", "bytes=0-9,20-29", "items=0-5", "none", "bytes=-5", "x", "bYtEs=1-2"}
	n := 0
	for _, c := range []coding{codings[0], codings[10], codings[1]} {
		full := g.newScript(p, c, true, bin)
		L := len(full.Served)
		part := g.corruptScript(full, "", append([]byte{}, full.Served[4:60]...))
		part.Status, part.CRange = 206, fmt.Sprintf("bytes 4-59/%d", L)
		part.Payload = part.Served // a slice of the coded representation: untouched means these bytes
		for _, rv := range ranges {
			for _, st := range stacks {
				for _, cf := range []cfg{{}, {Disable: true}, {Auto: true}} {
					s := full
					if n%2 == 1 && !cf.Auto {
						s = part
					}
					g.one(exchange{Stack: st, Cfg: cf, Req: reqKind{"GET", "", rv}, S: s, Pat: readPats[n%len(readPats)]})
					r.Count("range.spelling=" + strings.TrimSpace(rv))
					n++
				}
			}
		}
		g.drop(full)
		g.drop(part)
	}
}
