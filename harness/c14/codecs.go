package main

import (
	"bytes"
	"compress/flate"
	"compress/gzip"
	"crypto/sha256"
	"encoding/hex"
	"fmt"
	"io"

	"github.com/andybalholm/brotli"
	"github.com/klauspost/compress/zstd"
)

// reference codecs: the libraries themselves, not /repo/internal/compress.
// "deflate" is the raw RFC 1951 stream, which is what the code under test reads (interpretation
// recorded in design.d/C14.md).

var encNames = []string{"gzip", "deflate", "br", "zstd"}
var coqEnc = map[string]string{"gzip": "Gzip", "deflate": "Deflate", "br": "Br", "zstd": "Zstd"}

func refCompress(enc string, p []byte) []byte {
	var b bytes.Buffer
	switch enc {
	case "gzip":
		w := gzip.NewWriter(&b)
		w.Write(p)
		w.Close()
	case "deflate":
		w, _ := flate.NewWriter(&b, flate.DefaultCompression)
		w.Write(p)
		w.Close()
	case "br":
		w := brotli.NewWriter(&b)
		w.Write(p)
		w.Close()
	case "zstd":
		w, _ := zstd.NewWriter(&b, zstd.WithEncoderCRC(true))
		w.Write(p)
		w.Close()
	default:
		panic("refCompress " + enc)
	}
	return b.Bytes()
}

// refDecode: everything the decoder delivers, and whether it ended with an error (not EOF).
func refDecode(enc string, c []byte) (out []byte, failed bool) {
	return refDecodeSched(enc, c, nil)
}

// refDecodeSched: the same with the reads a caller performs: ReadFull of the given sizes until the first
// error, then (if none) the rest in one go.
func refDecodeSched(enc string, c []byte, sizes []int) (out []byte, failed bool) {
	defer func() {
		if e := recover(); e != nil {
			failed = true
		}
	}()
	var r io.Reader
	switch enc {
	case "gzip":
		zr, err := gzip.NewReader(bytes.NewReader(c))
		if err != nil {
			// the code under test maps an empty stream to a clean EOF too (gzip.NewReader -> io.EOF)
			return nil, err != io.EOF
		}
		r = zr
	case "deflate":
		r = flate.NewReader(bytes.NewReader(c))
	case "br":
		r = brotli.NewReader(bytes.NewReader(c))
	case "zstd":
		zr, err := zstd.NewReader(bytes.NewReader(c))
		if err != nil {
			return nil, true
		}
		defer zr.Close()
		r = zr
	default:
		panic("refDecode " + enc)
	}
	for _, n := range sizes {
		buf := make([]byte, n)
		got, spins := 0, 0
		for got < n {
			k, err := r.Read(buf[got:])
			got += k
			if err != nil {
				return append(out, buf[:got]...), err != io.EOF
			}
			if k == 0 {
				if spins++; spins > 1000 {
					return append(out, buf[:got]...), true
				}
			}
		}
		out = append(out, buf...)
	}
	rest, err := io.ReadAll(r)
	return append(out, rest...), err != nil
}

// blob: how a body is shown to the Coq model - the bytes when short, else a tag.
func blob(b []byte) []byte {
	if len(b) <= 300 {
		return b
	}
	h := sha256.Sum256(b)
	return []byte(fmt.Sprintf("#%d:%s", len(b), hex.EncodeToString(h[:8])))
}
