package main

import (
	"bytes"
	"compress/flate"
	"compress/gzip"
	"crypto/sha256"
	"encoding/hex"
	"fmt"
	"io"

	"github.com/andybalholm/brotli"
	"github.com/klauspost/compress/zstd"
)

// reference codecs: the libraries themselves, not /repo/internal/compress.
// "deflate" is the raw RFC 1951 stream, which is what the code under test reads (interpretation
// recorded in design.d/C14.md).

var encNames = []string{"gzip", "deflate", "br", "zstd"}
var coqEnc = map[string]string{"gzip": "Gzip", "deflate": "Deflate", "br": "Br", "zstd": "Zstd"}

func refCompress(enc string, p []byte) []byte {
	var b bytes.Buffer
	switch enc {
	case "gzip":
		w := gzip.NewWriter(&b)
		w.Write(p)
		w.Close()
	case "deflate":
		w, _ := flate.NewWriter(&b, flate.DefaultCompression)
		w.Write(p)
		w.Close()
	case "br":
		w := brotli.NewWriter(&b)
		w.Write(p)
		w.Close()
	case "zstd":
		w, _ := zstd.NewWriter(&b, zstd.WithEncoderCRC(true))
		w.Write(p)
		w.Close()
	default:
		panic("refCompress " + enc)
	}
	return b.Bytes()
}

// refDecode: everything the decoder delivers, and whether it ended with an error (not EOF).
func refDecode(enc string, c []byte) (out []byte, failed bool) {
	return refDecodeSched(enc, c, nil)
}

// cutReader delivers its bytes and then io.ErrUnexpectedEOF instead of io.EOF: a framing layer that ends
// short of the declared length.
type cutReader struct{ r *bytes.Reader }

func (c cutReader) Read(p []byte) (int, error) {
	n, err := c.r.Read(p)
	if err == io.EOF {
		err = io.ErrUnexpectedEOF
	}
	return n, err
}

// refDecodeCut: the reference decoder over a source that ends with io.ErrUnexpectedEOF.  Whether raw
// flate touches the source once more after its final block depends on the bit position where the
// stream ends; the model takes it from here.
func refDecodeCut(enc string, c []byte) (out []byte, failed bool) {
	cutSource = true
	defer func() { cutSource = false }()
	return refDecodeSched(enc, c, nil)
}

var cutSource bool // harness is single-threaded where the reference decoders run

func refSource(c []byte) io.Reader {
	if cutSource {
		return cutReader{bytes.NewReader(c)}
	}
	return bytes.NewReader(c)
}

// refDecodeSched: the same with the reads a caller performs: ReadFull of the given sizes until the first
// error, then (if none) the rest in one go.
func refDecodeSched(enc string, c []byte, sizes []int) (out []byte, failed bool) {
	defer func() {
		if e := recover(); e != nil {
			failed = true
		}
	}()
	var r io.Reader
	switch enc {
	case "gzip":
		zr, err := gzip.NewReader(refSource(c))
		if err != nil {
			// the code under test maps an empty stream to a clean EOF too (gzip.NewReader -> io.EOF)
			return nil, err != io.EOF
		}
		r = zr
	case "deflate":
		r = flate.NewReader(refSource(c))
	case "br":
		r = brotli.NewReader(refSource(c))
	case "zstd":
		zr, err := zstd.NewReader(refSource(c))
		if err != nil {
			return nil, true
		}
		defer zr.Close()
		r = zr
	default:
		panic("refDecode " + enc)
	}
	for _, n := range sizes {
		buf := make([]byte, n)
		got, spins := 0, 0
		for got < n {
			k, err := r.Read(buf[got:])
			got += k
			if err != nil {
				return append(out, buf[:got]...), err != io.EOF
			}
			if k == 0 {
				if spins++; spins > 1000 {
					return append(out, buf[:got]...), true
				}
			}
		}
		out = append(out, buf...)
	}
	rest, err := io.ReadAll(r)
	return append(out, rest...), err != nil
}

// blob: how a body is shown to the Coq model - the bytes when short, else a tag.
func blob(b []byte) []byte {
	if len(b) <= 300 {
		return b
	}
	h := sha256.Sum256(b)
	return []byte(fmt.Sprintf("#%d:%s", len(b), hex.EncodeToString(h[:8])))
}
