package main

import (
	"encoding/hex"
	"fmt"
	"strings"
)

// pk renders a byte string as a Lib/PackedBytes.v literal: (px len [w; …]) with seven bytes per
// primitive integer (read ~30x faster by coqc than hx "…").
func pk(b []byte) string {
	if len(b) == 0 {
		return "[]"
	}
	var sb strings.Builder
	fmt.Fprintf(&sb, "(px %d%%N [", len(b))
	for i := 0; i < len(b); i += 7 {
		j := i + 7
		if j > len(b) {
			j = len(b)
		}
		if i > 0 {
			sb.WriteString(";")
		}
		sb.WriteString("0x" + hex.EncodeToString(b[i:j]) + "%uint63")
	}
	sb.WriteString("])")
	return sb.String()
}
func pks(s string) string { return pk([]byte(s)) }
func pkList(xs []string) string {
	o := make([]string, len(xs))
	for i, x := range xs {
		o[i] = pks(x)
	}
	return "[" + strings.Join(o, "; ") + "]"
}
