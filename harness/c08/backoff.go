package main

// HTTP/2: the transport's own re-send loop (Transport.RoundTripOpt).  A stream the peer refuses
// (RST_STREAM REFUSED_STREAM) is sent again, the first time at once, then after a back-off of
// 1 s, 2 s, 4 s ...  The context ends while the transport sleeps in that back-off.

import (
	"context"
	"fmt"
	"net"
	"time"

	req "github.com/imroc/req/v3"
	"golang.org/x/net/http2"
)

type backoffSpec struct {
	Name     string `json:"name"`
	Refusals int    `json:"refusals"` // refusals before the injection: the transport then sleeps 2^(Refusals-2) s (none after the first)
	Kind     string `json:"kind"`
}

type backoffObs struct {
	Stack    string      `json:"stack"`
	Spec     backoffSpec `json:"spec"`
	Events   []string    `json:"events"`
	Sleep    float64     `json:"backoff_seconds"` // nominal length of the back-off the injection falls into
	BoundMs  int64       `json:"bound_ms"`
	Call     string      `json:"call"`
	CallErr  string      `json:"call_err,omitempty"`
	Returned bool        `json:"returned"`
	ReturnMs int64       `json:"return_ms"`
	SeenAt   int         `json:"attempts_seen_at_injection"`
	SeenEnd  int         `json:"attempts_seen_at_end"`
	Leaked   []string    `json:"leaked,omitempty"`
	FollowOK bool        `json:"follow_ok"`
	FollowEr string      `json:"follow_err,omitempty"`
	Harness  string      `json:"harness_problem,omitempty"`
}

func inBackoff() bool {
	for _, g := range libGoroutines() {
		if countFrames([]string{g}, "http2.(*Transport).RoundTripOpt") > 0 &&
			countFrames([]string{g}, "ClientConn).roundTrip") == 0 && countFrames([]string{g}, "GetClientConn") == 0 {
			return true
		}
	}
	return false
}

func runBackoff(sp backoffSpec) (o backoffObs) {
	o = backoffObs{Stack: "backoff", Spec: sp, Call: "pending"}
	defer func() {
		if p := recover(); p != nil {
			o.Harness = fmt.Sprint("panic: ", p)
		}
	}()
	ln, err := net.Listen("tcp", "127.0.0.1:0")
	if err != nil {
		o.Harness = err.Error()
		return
	}
	defer ln.Close()
	dl := newDialer(ln.Addr().String())
	dl.setOpen(true)
	c := req.C().DisableAutoDecode().EnableH2C().EnableForceHTTP2().SetTimeout(0)
	c.SetDial(dl.dial)
	c.SetDialTLS(dl.dial)
	url := "http://c08.test/x"
	var pc *h2peerConn
	var conn net.Conn
	accepted := make(chan struct{})
	go func() {
		cn, err := ln.Accept()
		if err != nil {
			return
		}
		conn = cn
		pc, _ = newH2PeerConn(cn)
		close(accepted)
	}()
	defer func() {
		if conn != nil {
			conn.Close()
		}
	}()
	var ctx context.Context
	var inject func()
	if sp.Kind == "deadline" {
		m := newManualCtx()
		ctx, inject = m, m.fire
	} else {
		cctx, cancel := context.WithCancel(context.Background())
		ctx, inject = cctx, cancel
	}
	done := make(chan struct{})
	var cerr error
	go func() {
		defer close(done)
		_, cerr = c.R().SetContext(ctx).Get(url)
	}()
	select {
	case <-accepted:
	case <-time.After(stepWait):
		o.Harness = "no connection arrived"
		return
	}
	if pc == nil {
		o.Harness = "preface failed"
		return
	}
	last := uint32(0)
	seen := 0
	for k := 1; k <= sp.Refusals; k++ {
		prev := last
		if !pc.waitFor(stepWait, func() bool { return pc.last > prev && pc.st[pc.last].hdrDone }) {
			o.Harness = fmt.Sprintf("attempt %d did not arrive", k)
			return
		}
		pc.mu.Lock()
		last = pc.last
		pc.mu.Unlock()
		seen++
		if k > 2 { // the first re-send follows at once, the later ones after the back-off timer
			o.Events = append(o.Events, "TTimer")
		}
		pc.wmu.Lock()
		pc.fr.WriteRSTStream(last, http2.ErrCodeRefusedStream)
		pc.wmu.Unlock()
		o.Events = append(o.Events, "TRefused")
		if k == 1 {
			// re-sent at once: wait for it below
			continue
		}
		if !settle(inBackoff) {
			o.Harness = fmt.Sprintf("after refusal %d the transport is not in its back-off", k)
			return
		}
	}
	if sp.Refusals == 1 { // the immediate re-send is in flight
		prev := last
		if !pc.waitFor(stepWait, func() bool { return pc.last > prev && pc.st[pc.last].hdrDone }) {
			o.Harness = "the immediate re-send did not arrive"
			return
		}
		seen++
	}
	o.SeenAt = seen
	bound := returnBound
	if sp.Refusals >= 2 {
		o.Sleep = float64(int(1) << (sp.Refusals - 2))
		// the call must come back well before the back-off would have ended anyway
		if half := time.Duration(o.Sleep * float64(time.Second) / 2); half < bound && half >= 2*time.Second {
			bound = half
		}
	}
	o.BoundMs = bound.Milliseconds()
	t0 := time.Now()
	inject()
	select {
	case <-done:
		o.Returned = true
	case <-time.After(bound):
	}
	o.ReturnMs = time.Since(t0).Milliseconds()
	// serve whatever still arrives (a re-send after the context ended would show up here)
	go autoH2(pc, pc.snapshot())
	if !o.Returned {
		select {
		case <-done:
		case <-time.After(20 * time.Second):
		}
	}
	select {
	case <-done:
		o.Call = classify(cerr)
		if cerr != nil {
			o.CallErr = trunc(cerr.Error(), 200)
		}
	default:
		o.Call = "never-returned"
	}
	time.Sleep(50 * time.Millisecond)
	pc.mu.Lock()
	n := 0
	for id := range pc.st {
		if id%2 == 1 {
			n++
		}
	}
	pc.mu.Unlock()
	o.SeenEnd = n
	fctx, fcancel := context.WithTimeout(context.Background(), 20*time.Second)
	resp, ferr := c.R().SetContext(fctx).Get(url)
	fcancel()
	switch {
	case ferr != nil:
		o.FollowEr = trunc(ferr.Error(), 200)
	case resp.String() != "follow-up":
		o.FollowEr = "unexpected follow-up response " + trunc(resp.String(), 40)
	default:
		o.FollowOK = true
		o.SeenEnd = n // the follow-up's own stream is not counted
	}
	c.GetTransport().CloseIdleConnections()
	conn.Close()
	var left []string
	settle(func() bool { left = libGoroutines(); return len(left) == 0 })
	for _, g := range left {
		o.Leaked = append(o.Leaked, topFrames(g))
	}
	return
}
