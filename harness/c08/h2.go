package main

// HTTP/2 (prior knowledge over TCP): a frame-level stepping peer.  The peer never opens the
// flow-control window by itself, so an upload larger than the initial window stalls after
// exactly 65535 bytes until a step sends WINDOW_UPDATE.

import (
	"bytes"
	"context"
	"errors"
	"fmt"
	"io"
	"net"
	"sync"
	"time"

	req "github.com/imroc/req/v3"
	"golang.org/x/net/http2"
	"golang.org/x/net/http2/hpack"
)

type h2stream struct {
	hdrDone bool
	nbody   int64
	end     bool
	rst     int64 // -1: none, else the error code of a RST_STREAM we received
}

type h2peerConn struct {
	c        net.Conn
	fr       *http2.Framer
	wmu      sync.Mutex
	mu       sync.Mutex
	cond     *sync.Cond
	st       map[uint32]*h2stream
	last     uint32
	gone     bool
	acked    bool           // our SETTINGS were acknowledged
	hdec     *hpack.Decoder // one decoder for the connection, like a real peer: every block must decode
	hblock   []byte
	hfields  map[uint32]map[string]string // decoded request header fields per stream
	hpackErr string
	blocks   []uint32 // streams whose header block was decoded, in order
	wu0      int64    // sum of the WINDOW_UPDATE increments received for the connection (stream 0)
	sent     int64    // DATA bytes written through dataFC
	henc     *hpack.Encoder
	hbuf     bytes.Buffer
}

func newH2PeerConn(c net.Conn, settings ...http2.Setting) (*h2peerConn, error) {
	p := &h2peerConn{c: c, st: map[uint32]*h2stream{}}
	p.cond = sync.NewCond(&p.mu)
	p.henc = hpack.NewEncoder(&p.hbuf)
	p.hdec = hpack.NewDecoder(4096, nil)
	p.hfields = map[uint32]map[string]string{}
	c.SetDeadline(time.Now().Add(stepWait))
	preface := make([]byte, len(http2.ClientPreface))
	if _, err := io.ReadFull(c, preface); err != nil {
		return nil, err
	}
	c.SetDeadline(time.Time{})
	p.fr = http2.NewFramer(c, c)
	if err := p.fr.WriteSettings(settings...); err != nil {
		return nil, err
	}
	go p.readLoop()
	return p, nil
}

func (p *h2peerConn) stream(id uint32) *h2stream {
	s := p.st[id]
	if s == nil {
		s = &h2stream{rst: -1}
		p.st[id] = s
		if id > p.last {
			p.last = id
		}
	}
	return s
}

func (p *h2peerConn) readLoop() {
	for {
		f, err := p.fr.ReadFrame()
		p.mu.Lock()
		if err != nil {
			p.gone = true
			p.cond.Broadcast()
			p.mu.Unlock()
			return
		}
		switch f := f.(type) {
		case *http2.SettingsFrame:
			if !f.IsAck() {
				p.wmu.Lock()
				p.fr.WriteSettingsAck()
				p.wmu.Unlock()
			} else {
				p.acked = true
			}
		case *http2.PingFrame:
			if !f.IsAck() {
				p.wmu.Lock()
				p.fr.WritePing(true, f.Data)
				p.wmu.Unlock()
			}
		case *http2.HeadersFrame:
			s := p.stream(f.StreamID)
			p.hblock = append(p.hblock[:0], f.HeaderBlockFragment()...)
			if f.HeadersEnded() {
				p.decodeBlock(f.StreamID)
				s.hdrDone = true
			}
			if f.StreamEnded() {
				s.end = true
			}
		case *http2.ContinuationFrame:
			p.hblock = append(p.hblock, f.HeaderBlockFragment()...)
			if f.HeadersEnded() {
				p.decodeBlock(f.StreamID)
				p.stream(f.StreamID).hdrDone = true
			}
		case *http2.DataFrame:
			s := p.stream(f.StreamID)
			s.nbody += int64(len(f.Data()))
			if f.StreamEnded() {
				s.end = true
			}
		case *http2.RSTStreamFrame:
			p.stream(f.StreamID).rst = int64(f.ErrCode)
		case *http2.WindowUpdateFrame:
			if f.StreamID == 0 {
				p.wu0 += int64(f.Increment)
			}
		}
		p.cond.Broadcast()
		p.mu.Unlock()
	}
}

// decodeBlock: p.mu held.  A block that does not decode, or refers to a table entry the encoder
// and this decoder do not share, is a connection error COMPRESSION_ERROR at a real peer.
func (p *h2peerConn) decodeBlock(id uint32) {
	fs, err := p.hdec.DecodeFull(p.hblock)
	if err != nil {
		if p.hpackErr == "" {
			p.hpackErr = fmt.Sprintf("stream %d: %v", id, err)
		}
		return
	}
	m := map[string]string{}
	for _, f := range fs {
		m[f.Name] = f.Value
	}
	p.hfields[id] = m
	p.blocks = append(p.blocks, id)
}

// wait until cond holds for the newest stream (bounded)
func (p *h2peerConn) waitFor(d time.Duration, cond func() bool) bool {
	deadline := time.Now().Add(d)
	t := time.AfterFunc(d, func() { p.mu.Lock(); p.cond.Broadcast(); p.mu.Unlock() })
	defer t.Stop()
	p.mu.Lock()
	defer p.mu.Unlock()
	for !cond() {
		if time.Now().After(deadline) || p.gone {
			return cond()
		}
		p.cond.Wait()
	}
	return true
}

func (p *h2peerConn) headers(id uint32, end bool, kv ...string) error {
	p.wmu.Lock()
	defer p.wmu.Unlock()
	p.hbuf.Reset()
	for i := 0; i+1 < len(kv); i += 2 {
		p.henc.WriteField(hpack.HeaderField{Name: kv[i], Value: kv[i+1]})
	}
	return p.fr.WriteHeaders(http2.HeadersFrameParam{StreamID: id, BlockFragment: p.hbuf.Bytes(), EndHeaders: true, EndStream: end})
}

func (p *h2peerConn) data(id uint32, end bool, b []byte) error {
	p.wmu.Lock()
	defer p.wmu.Unlock()
	return p.fr.WriteData(id, end, b)
}

func (p *h2peerConn) windowUpdate(id uint32, n uint32) error {
	p.wmu.Lock()
	defer p.wmu.Unlock()
	if err := p.fr.WriteWindowUpdate(0, n); err != nil {
		return err
	}
	return p.fr.WriteWindowUpdate(id, n)
}

// ---------- scenarios ----------

type h2spec struct {
	Name     string `json:"name"`
	Reuse    bool   `json:"reuse,omitempty"`
	Upload   bool   `json:"upload,omitempty"`
	Bodiless bool   `json:"bodiless,omitempty"`
	SlotWait bool   `json:"slot_wait,omitempty"`       // MAX_CONCURRENT_STREAMS = 1 and a held request: the scenario's request waits for a stream slot
	Expect   bool   `json:"expect,omitempty"`          // Expect: 100-continue (upload)
	EarlyRsp bool   `json:"early_resp,omitempty"`      // the response head arrives while the upload is stalled on flow control
	Stall    bool   `json:"producer_stalls,omitempty"` // upload whose producer stalls after 32 KiB: Read blocks until the body is closed
	Stalled  bool   `json:"stalled_body,omitempty"`    // the request body is a plain io.Reader whose Read blocks and which Close does not wake; then the peer resets the stream
}

type h2obs struct {
	Stack      string   `json:"stack"`
	Spec       h2spec   `json:"spec"`
	Kind       string   `json:"kind"`
	Pos        int      `json:"pos"`
	Steps      int      `json:"steps"`
	StepName   string   `json:"after_step"`
	Racy       bool     `json:"racy,omitempty"`
	Pre        []string `json:"pre"`
	RacyLab    []string `json:"racy_labels,omitempty"`
	Post       []string `json:"post,omitempty"`
	PeerFailed bool     `json:"peer_reset_before_injection,omitempty"`

	Call          string   `json:"call"`
	CallErr       string   `json:"call_err,omitempty"`
	Body          string   `json:"body"`
	BodyErr       string   `json:"body_err,omitempty"`
	Returned      bool     `json:"returned"`
	ReturnMs      int64    `json:"return_ms"`
	Rst           int64    `json:"rst_code"` // RST_STREAM received for the request's stream (-1 none)
	StreamSeen    bool     `json:"stream_seen"`
	ConnClosed    bool     `json:"conn_closed"`
	ReqBody       bool     `json:"req_body"`
	ReqBodyClosed bool     `json:"req_body_closed"`
	ReadsAfter    int64    `json:"reads_after"`
	ReaderStuck   bool     `json:"goroutine_still_inside_body_read"`
	Quiesced      bool     `json:"quiesced"`
	Stuck         []string `json:"stuck,omitempty"`
	Leaked        []string `json:"leaked,omitempty"`
	FollowOK      bool     `json:"follow_ok"`
	FollowErr     string   `json:"follow_err,omitempty"`
	FollowSame    bool     `json:"follow_same_conn"`
	Complete      bool     `json:"complete_before_injection"`
	Harness       string   `json:"harness_problem,omitempty"`
}

type h2run struct {
	spec            h2spec
	ln              net.Listener
	dl              *dialer
	pc              *h2peerConn
	nacc            int
	gate            *dialGate
	call            *call
	sid             uint32
	body            *trackedBody
	resp            []byte
	accept          chan net.Conn
	blockerDone     chan struct{}
	blockerFinished bool
	stall           *stallReader
	stalled         bool
	peerFailed      bool
}

// stallReader: a request body source that delivers n bytes and then blocks; it has no Close, so req
// wraps it in io.NopCloser and closing the request body does not wake the Read
type stallReader struct {
	n       int
	sent    int
	release chan struct{}
	once    sync.Once
}

func (s *stallReader) Read(p []byte) (int, error) {
	if s.sent < s.n {
		k := s.n - s.sent
		if k > len(p) {
			k = len(p)
		}
		for i := 0; i < k; i++ {
			p[i] = 'u'
		}
		s.sent += k
		return k, nil
	}
	<-s.release
	return 0, io.EOF
}

func (s *stallReader) resume() { s.once.Do(func() { close(s.release) }) }

func (r *h2run) finishBlocker() error {
	if r.blockerDone == nil || r.blockerFinished {
		return nil
	}
	r.blockerFinished = true
	if err := r.pc.headers(1, false, ":status", "200"); err != nil {
		return err
	}
	if err := r.pc.data(1, true, []byte("warm")); err != nil {
		return err
	}
	return waitCh(r.blockerDone, "the held request did not finish")
}

type h2step struct {
	name   string
	labels []string
	do     func(r *h2run) error
}

const h2UploadLen = 200 << 10

func (r *h2run) acceptConn() error {
	select {
	case c := <-r.accept:
		var set []http2.Setting
		if r.spec.SlotWait {
			set = append(set, http2.Setting{ID: http2.SettingMaxConcurrentStreams, Val: 1})
		}
		pc, err := newH2PeerConn(c, set...)
		if err != nil {
			return err
		}
		r.pc = pc
		r.nacc++
		return nil
	case <-time.After(stepWait):
		return errors.New("no connection arrived")
	}
}

func (r *h2run) waitRequestHeaders(after uint32) error {
	ok := r.pc.waitFor(stepWait, func() bool {
		return r.pc.last > after && r.pc.st[r.pc.last].hdrDone
	})
	if !ok {
		return errors.New("request HEADERS did not arrive")
	}
	r.pc.mu.Lock()
	r.sid = r.pc.last
	r.pc.mu.Unlock()
	return nil
}

func h2steps(sp h2spec) []h2step {
	var st []h2step
	hdrLabels := []string{"YAcquired", "YHdrWritten"}
	if sp.Expect {
		hdrLabels = []string{"YAcquired", "YHdrExpect"}
	}
	if sp.SlotWait {
		st = append(st, h2step{"waiting for a stream slot (MAX_CONCURRENT_STREAMS reached)", nil, func(r *h2run) error {
			if !settle(func() bool { return countFrames(libGoroutines(), "awaitOpenSlotForStream") > 0 }) {
				return errors.New("the request is not waiting for a stream slot")
			}
			return nil
		}})
		st = append(st, h2step{"slot freed, request HEADERS received", hdrLabels, func(r *h2run) error {
			if err := r.finishBlocker(); err != nil {
				return err
			}
			return r.waitRequestHeaders(1)
		}})
	} else if sp.Reuse {
		st = append(st, h2step{"request HEADERS received on the re-used connection", hdrLabels, func(r *h2run) error {
			return r.waitRequestHeaders(1)
		}})
	} else {
		st = append(st, h2step{"dial entered", nil, func(r *h2run) error {
			select {
			case g := <-r.dl.queue:
				r.gate = g
				return nil
			case <-time.After(stepWait):
				return errors.New("no dial was started")
			}
		}})
		st = append(st, h2step{"connected, request HEADERS received", hdrLabels, func(r *h2run) error {
			r.gate.open()
			if err := r.acceptConn(); err != nil {
				return err
			}
			return r.waitRequestHeaders(0)
		}})
	}
	if sp.Stalled {
		st = append(st, h2step{"1000 request body bytes received, the body source has stalled", []string{"YReadStall"}, func(r *h2run) error {
			if !r.pc.waitFor(stepWait, func() bool { return r.pc.st[r.sid].nbody >= 1000 }) {
				return errors.New("request body did not arrive")
			}
			time.Sleep(20 * time.Millisecond)
			r.stalled = true
			return nil
		}})
		st = append(st, h2step{"the peer reset the stream (no response head)", []string{"YPeerRst"}, func(r *h2run) error {
			r.pc.wmu.Lock()
			err := r.pc.fr.WriteRSTStream(r.sid, http2.ErrCodeInternal)
			r.pc.wmu.Unlock()
			r.peerFailed = true
			time.Sleep(30 * time.Millisecond)
			return err
		}})
		return st
	}
	if sp.Stall {
		st = append(st, h2step{"32 KiB of the request body received, the producer has stalled", nil, func(r *h2run) error {
			if !r.pc.waitFor(stepWait, func() bool { return r.pc.st[r.sid].nbody >= 32<<10 }) {
				return errors.New("request body did not arrive")
			}
			if !settle(func() bool { return r.body.inRead.Load() > 0 }) {
				return errors.New("the upload is not parked in the body's Read")
			}
			return nil
		}})
		return st
	}
	if sp.Upload {
		firstLabels := []string(nil)
		if sp.Expect {
			firstLabels = []string{"Y100"}
		}
		st = append(st, h2step{"65535 body bytes received, window exhausted", firstLabels, func(r *h2run) error {
			if r.spec.Expect {
				time.Sleep(30 * time.Millisecond)
				r.pc.mu.Lock()
				early := r.pc.st[r.sid].nbody
				r.pc.mu.Unlock()
				if early != 0 {
					return fmt.Errorf("%d body bytes arrived before 100-continue", early)
				}
				if err := r.pc.headers(r.sid, false, ":status", "100"); err != nil {
					return err
				}
			}
			if !r.pc.waitFor(stepWait, func() bool { return r.pc.st[r.sid].nbody >= 65535 }) {
				return errors.New("request body did not arrive")
			}
			return nil
		}})
		if sp.EarlyRsp {
			st = append(st, h2step{"response HEADERS sent while the upload is stalled", []string{"YResp true"}, func(r *h2run) error {
				if err := r.pc.headers(r.sid, false, ":status", "200", "content-length", fmt.Sprint(respBodyLen)); err != nil {
					return err
				}
				return waitCh(r.call.hdrDone, "call did not return after the response head")
			}})
			st = append(st, h2step{"1000 body bytes sent and read", []string{"YData"}, func(r *h2run) error {
				if err := r.pc.data(r.sid, false, r.resp[:1000]); err != nil {
					return err
				}
				if !settle(func() bool { return r.call.nread.Load() >= 1000 }) {
					return errors.New("caller did not receive the body bytes")
				}
				return nil
			}})
		}
		st = append(st, h2step{"window opened, whole request body received", []string{"YBodyWritten"}, func(r *h2run) error {
			if err := r.pc.windowUpdate(r.sid, 1<<20); err != nil {
				return err
			}
			if !r.pc.waitFor(stepWait, func() bool { return r.pc.st[r.sid].end }) {
				return errors.New("end of the request body did not arrive")
			}
			return nil
		}})
	}
	if sp.Bodiless {
		st = append(st, h2step{"response HEADERS with END_STREAM sent", []string{"YResp false", "YEnd"}, func(r *h2run) error {
			if err := r.pc.headers(r.sid, true, ":status", "200", "content-length", "0"); err != nil {
				return err
			}
			return waitCh(r.call.bodyDone, "call did not return after the complete response")
		}})
		return st
	}
	if sp.EarlyRsp {
		st = append(st, h2step{"rest of the body and END_STREAM sent, end of body read", []string{"YEnd", "YReadEOF"}, func(r *h2run) error {
			if err := r.pc.data(r.sid, true, r.resp[1000:]); err != nil {
				return err
			}
			return waitCh(r.call.bodyDone, "body read did not end")
		}})
		return st
	}
	st = append(st, h2step{"response HEADERS sent", []string{"YResp true"}, func(r *h2run) error {
		if err := r.pc.headers(r.sid, false, ":status", "200", "content-length", fmt.Sprint(respBodyLen)); err != nil {
			return err
		}
		return waitCh(r.call.hdrDone, "call did not return after the response head")
	}})
	st = append(st, h2step{"1000 body bytes sent and read", []string{"YData"}, func(r *h2run) error {
		if err := r.pc.data(r.sid, false, r.resp[:1000]); err != nil {
			return err
		}
		if !settle(func() bool { return r.call.nread.Load() >= 1000 }) {
			return errors.New("caller did not receive the body bytes")
		}
		return nil
	}})
	// the declared body is complete before the stream ends: the pending Read waits for END_STREAM
	st = append(st, h2step{"rest of the declared body sent and read, stream still open", []string{"YData"}, func(r *h2run) error {
		if err := r.pc.data(r.sid, false, r.resp[1000:]); err != nil {
			return err
		}
		if !settle(func() bool { return r.call.nread.Load() >= respBodyLen }) {
			return errors.New("caller did not receive the body bytes")
		}
		return nil
	}})
	st = append(st, h2step{"END_STREAM sent, end of body read", []string{"YEnd", "YReadEOF"}, func(r *h2run) error {
		if err := r.pc.data(r.sid, true, nil); err != nil {
			return err
		}
		return waitCh(r.call.bodyDone, "body read did not end")
	}})
	return st
}

func cause2(kind string) string {
	switch kind {
	case "cancel":
		return "YCancel CCanceled"
	case "deadline", "deadline-timer":
		return "YCancel CDeadline"
	case "client-timeout":
		return "YCancel CTimeout"
	}
	return ""
}

func runH2(sp h2spec, kind string, pos int, racy bool) (o h2obs) {
	steps := h2steps(sp)
	o = h2obs{Stack: "h2", Spec: sp, Kind: kind, Pos: pos, Steps: len(steps), Racy: racy, Call: "pending", Body: "none", Rst: -1}
	if pos > 0 {
		o.StepName = steps[pos-1].name
	} else {
		o.StepName = "(call started)"
	}
	defer func() {
		if p := recover(); p != nil {
			o.Harness = fmt.Sprint("panic: ", p)
		}
	}()
	ln, err := net.Listen("tcp", "127.0.0.1:0")
	if err != nil {
		o.Harness = err.Error()
		return
	}
	defer ln.Close()
	r := &h2run{spec: sp, ln: ln, accept: make(chan net.Conn, 16)}
	var conns []net.Conn
	var cmu sync.Mutex
	go func() {
		for {
			c, err := ln.Accept()
			if err != nil {
				return
			}
			cmu.Lock()
			conns = append(conns, c)
			cmu.Unlock()
			r.accept <- c
		}
	}()
	closeConns := func() {
		cmu.Lock()
		for _, c := range conns {
			c.Close()
		}
		cmu.Unlock()
	}
	defer closeConns()
	r.dl = newDialer(ln.Addr().String())
	defer r.dl.openAll()
	r.resp = bytes.Repeat([]byte("0123456789"), respBodyLen/10)
	c := req.C().DisableAutoDecode().EnableH2C().EnableForceHTTP2().SetTimeout(0)
	c.SetDial(r.dl.dial) // h2c (http://) connections are dialled through the plain dial hook (since ecf6c40)
	c.SetDialTLS(r.dl.dial)
	if kind == "client-timeout" {
		c.SetTimeout(timerDelay)
	}
	url := "http://c08.test/x"

	if sp.SlotWait { // a held request occupies the only stream slot; the limit is honoured on this connection
		c.GetTransport().SetHTTP2StrictMaxConcurrentStreams(true)
		r.dl.setOpen(true)
		r.blockerDone = make(chan struct{})
		go func() {
			defer close(r.blockerDone)
			c.R().SetContext(context.Background()).Get(url)
		}()
		if err := r.acceptConn(); err != nil {
			o.Harness = "blocker: " + err.Error()
			return
		}
		if err := r.waitRequestHeaders(0); err != nil {
			o.Harness = "blocker: " + err.Error()
			return
		}
		if !r.pc.waitFor(stepWait, func() bool { return r.pc.acked }) {
			o.Harness = "blocker: SETTINGS not acknowledged"
			return
		}
		r.sid = 0
		r.dl.setOpen(false)
	} else if sp.Reuse { // warm-up exchange on stream 1
		r.dl.setOpen(true)
		wdone := make(chan error, 1)
		go func() {
			resp, err := c.R().SetContext(context.Background()).Get(url)
			if err == nil && resp.String() != "warm" {
				err = errors.New("unexpected warm-up response")
			}
			wdone <- err
		}()
		if err := r.acceptConn(); err != nil {
			o.Harness = "warm-up: " + err.Error()
			return
		}
		if err := r.waitRequestHeaders(0); err != nil {
			o.Harness = "warm-up: " + err.Error()
			return
		}
		r.pc.headers(r.sid, false, ":status", "200")
		r.pc.data(r.sid, true, []byte("warm"))
		select {
		case err := <-wdone:
			if err != nil {
				o.Harness = "warm-up: " + err.Error()
				return
			}
		case <-time.After(stepWait):
			o.Harness = "warm-up did not finish"
			return
		}
		r.sid = 0
		r.dl.setOpen(false)
	}

	var ctx context.Context
	var inject func()
	switch kind {
	case "cancel":
		cctx, cancel := context.WithCancel(context.Background())
		ctx, inject = cctx, cancel
	case "deadline":
		m := newManualCtx()
		ctx, inject = m, m.fire
	case "deadline-timer":
		cctx, cancel := context.WithTimeout(context.Background(), timerDelay)
		defer cancel()
		ctx, inject = cctx, func() {}
	default:
		ctx, inject = context.Background(), func() {}
	}
	rq := c.R().SetContext(ctx).DisableAutoReadResponse()
	if sp.Expect {
		c.GetTransport().SetExpectContinueTimeout(time.Hour)
		rq.SetHeader("Expect", "100-continue")
	}
	method := "GET"
	if sp.Upload {
		method = "POST"
		r.body = newTrackedBody(h2UploadLen)
		if sp.Stall {
			r.body.stallAt = 32 << 10
		}
		rq.SetBody(io.ReadCloser(r.body))
		o.ReqBody = true
	}
	if sp.Stalled {
		method = "POST"
		r.stall = &stallReader{n: 1000, release: make(chan struct{})}
		defer r.stall.resume()
		rq.SetBody(io.Reader(r.stall)) // no Close to observe: req wraps it in io.NopCloser
	}
	cl := &call{hdrDone: make(chan struct{}), bodyDone: make(chan struct{})}
	r.call = cl
	go func() {
		defer close(cl.bodyDone)
		resp, err := rq.Send(method, url)
		cl.resp, cl.err = resp, err
		close(cl.hdrDone)
		if err != nil || resp.Response == nil || resp.Body == nil {
			return
		}
		cl.gotBody = true
		buf := make([]byte, 4096)
		for {
			n, e := resp.Body.Read(buf)
			cl.nread.Add(int64(n))
			if e != nil {
				if e != io.EOF {
					cl.bodyErr = e
				}
				break
			}
		}
		resp.Body.Close()
	}()

	nseq := pos
	if racy {
		nseq = pos - 1
	}
	for i := 0; i < nseq && o.Harness == ""; i++ {
		if err := steps[i].do(r); err != nil {
			o.Harness = fmt.Sprintf("step %d (%s): %v", i, steps[i].name, err)
			break
		}
		o.Pre = append(o.Pre, steps[i].labels...)
	}
	if o.Harness != "" {
		if !realTimer(kind) {
			return
		}
		o.Harness = ""
	}
	o.Complete = pos == len(steps) && !racy && !sp.Stalled && !sp.Stall
	o.PeerFailed = r.peerFailed
	t0 := time.Now()
	if racy {
		o.RacyLab = append([]string{}, steps[pos-1].labels...)
		done := make(chan struct{})
		go func() { defer close(done); steps[pos-1].do(r) }()
		inject()
		<-done
	} else {
		inject()
	}
	select {
	case <-cl.bodyDone:
		o.Returned = true
	case <-time.After(returnBound + timerDelay):
	}
	o.ReturnMs = time.Since(t0).Milliseconds()
	if !o.Returned {
		for _, g := range libGoroutines() {
			o.Stuck = append(o.Stuck, topFrames(g))
		}
		r.dl.openAll()
		closeConns()
		select {
		case <-cl.bodyDone:
		case <-time.After(stepWait):
		}
		return
	}
	if cl.err != nil {
		o.Call, o.CallErr = classify(cl.err), trunc(cl.err.Error(), 200)
	} else {
		o.Call = "resp"
		switch {
		case !cl.gotBody:
			o.Body = "none"
		case cl.bodyErr != nil:
			o.Body, o.BodyErr = classify(cl.bodyErr), trunc(cl.bodyErr.Error(), 200)
		case sp.Bodiless && cl.nread.Load() == 0:
			o.Body = "none"
		case cl.nread.Load() == respBodyLen:
			o.Body = "eof"
		default:
			o.Body, o.BodyErr = "short", fmt.Sprintf("%d bytes without an error", cl.nread.Load())
		}
	}

	// ----- epilogue -----
	if r.stall != nil { // the body source yields: the goroutine that was reading it can finish
		r.stall.resume()
		if r.stalled {
			o.Post = append(o.Post, "YReadResume")
		}
	}
	if err := r.finishBlocker(); err != nil {
		o.Harness = "epilogue: " + err.Error()
	}
	r.dl.openAll()
	// late connections (a dial that was still gated) are served like the first one
	go func() {
		for c := range r.accept {
			go func(c net.Conn) {
				pc, err := newH2PeerConn(c)
				if err != nil {
					return
				}
				autoH2(pc, map[uint32]bool{})
			}(c)
		}
	}()
	var gs []string
	o.Quiesced = settle(func() bool {
		gs = libGoroutines()
		return countFrames(gs, "clientStream") == 0 && countFrames(gs, "ClientConn).roundTrip") == 0 &&
			countFrames(gs, "dialConnFor") == 0 && countFrames(gs, "net/http.") == 0
	})
	if !o.Quiesced {
		for _, g := range gs {
			o.Stuck = append(o.Stuck, topFrames(g))
		}
	}
	if r.pc != nil && r.sid != 0 {
		// a RST_STREAM is written by the doRequest goroutine, which quiescence has seen end
		r.pc.waitFor(200*time.Millisecond, func() bool { return r.pc.st[r.sid].rst >= 0 })
		r.pc.mu.Lock()
		o.Rst = r.pc.st[r.sid].rst
		o.StreamSeen = true
		o.ConnClosed = r.pc.gone
		r.pc.mu.Unlock()
	}
	if r.body != nil {
		o.ReaderStuck = r.body.inRead.Load() > 0
		r.body.release()  // (a harness resource: let a goroutine that is still parked in Read go)
		r.body.markStop() // everything that worked for the request has ended: no Read may follow
		settle(func() bool { return r.body.closes.Load() > 0 })
		o.ReqBodyClosed = r.body.closes.Load() > 0
		time.Sleep(20 * time.Millisecond)
		o.ReadsAfter = r.body.afterStop.Load()
	}
	// follow-up on the same client: served by the peer on whichever connection it arrives
	if r.pc != nil {
		go autoH2(r.pc, r.pc.snapshot())
	}
	cmu.Lock()
	nbefore := len(conns)
	cmu.Unlock()
	fctx, fcancel := context.WithTimeout(context.Background(), 20*time.Second)
	resp, ferr := c.R().SetContext(fctx).Get(url)
	fcancel()
	switch {
	case ferr != nil:
		o.FollowErr = trunc(ferr.Error(), 200)
	case resp.String() != "follow-up":
		o.FollowErr = "unexpected follow-up response " + trunc(resp.String(), 40)
	default:
		o.FollowOK = true
		cmu.Lock()
		o.FollowSame = len(conns) == nbefore
		cmu.Unlock()
	}
	c.GetTransport().CloseIdleConnections()
	closeConns()
	var left []string
	settle(func() bool { left = libGoroutines(); return len(left) == 0 })
	for _, g := range left {
		o.Leaked = append(o.Leaked, topFrames(g))
	}
	return
}

// autoH2 answers every new complete request on the connection with "follow-up"
func (p *h2peerConn) snapshot() map[uint32]bool {
	served := map[uint32]bool{}
	p.mu.Lock()
	for id := range p.st {
		served[id] = true
	}
	p.mu.Unlock()
	return served
}

func autoH2(p *h2peerConn, served map[uint32]bool) {
	for {
		var id uint32
		ok := p.waitFor(30*time.Second, func() bool {
			for i, s := range p.st {
				if !served[i] && s.hdrDone && s.end {
					id = i
					return true
				}
			}
			return false
		})
		if !ok {
			return
		}
		served[id] = true
		p.headers(id, false, ":status", "200")
		p.data(id, true, []byte("follow-up"))
	}
}
