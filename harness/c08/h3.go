package main

// HTTP/3: a quic-go http3.Server on loopback whose handler is stepped through gates, behind a
// UDP gate that can hold back the client's packets (a dial that does not complete).

import (
	"bytes"
	"context"
	"crypto/tls"
	"errors"
	"fmt"
	"io"
	"net"
	"net/http"
	"sync"
	"sync/atomic"
	"time"

	req "github.com/imroc/req/v3"
	"github.com/imroc/req/v3/internal/testcert"
	"github.com/quic-go/quic-go"
	qh3 "github.com/quic-go/quic-go/http3"
)

// ---------- UDP gate ----------

type heldPkt struct {
	from *net.UDPAddr
	b    []byte
}

type udpGate struct {
	front  *net.UDPConn
	server *net.UDPAddr
	mu     sync.Mutex
	hold   bool
	held   []heldPkt
	back   map[string]*net.UDPConn
	first  chan struct{}
	once   sync.Once
	nrecv  atomic.Int64 // datagrams received from the client
}

func newUDPGate(server *net.UDPAddr) (*udpGate, error) {
	front, err := net.ListenUDP("udp", &net.UDPAddr{IP: net.IPv4(127, 0, 0, 1)})
	if err != nil {
		return nil, err
	}
	g := &udpGate{front: front, server: server, back: map[string]*net.UDPConn{}, first: make(chan struct{})}
	go g.loop()
	return g, nil
}

func (g *udpGate) addr() string { return g.front.LocalAddr().String() }

func (g *udpGate) forward(p heldPkt) {
	k := p.from.String()
	bc := g.back[k]
	if bc == nil {
		var err error
		bc, err = net.DialUDP("udp", nil, g.server)
		if err != nil {
			return
		}
		g.back[k] = bc
		go func(from *net.UDPAddr) {
			buf := make([]byte, 65536)
			for {
				n, err := bc.Read(buf)
				if err != nil {
					return
				}
				g.front.WriteToUDP(buf[:n], from)
			}
		}(p.from)
	}
	bc.Write(p.b)
}

func (g *udpGate) loop() {
	buf := make([]byte, 65536)
	for {
		n, from, err := g.front.ReadFromUDP(buf)
		if err != nil {
			return
		}
		p := heldPkt{from, append([]byte(nil), buf[:n]...)}
		g.nrecv.Add(1)
		g.mu.Lock()
		if g.hold {
			g.held = append(g.held, p)
			g.once.Do(func() { close(g.first) })
		} else {
			g.forward(p)
		}
		g.mu.Unlock()
	}
}

func (g *udpGate) setHold(v bool) {
	g.mu.Lock()
	g.hold = v
	if !v {
		for _, p := range g.held {
			g.forward(p)
		}
		g.held = nil
	}
	g.mu.Unlock()
}

func (g *udpGate) close() {
	g.front.Close()
	g.mu.Lock()
	for _, c := range g.back {
		c.Close()
	}
	g.mu.Unlock()
}

// ---------- stepped handler ----------

type h3script struct {
	arrived   chan struct{}
	gates     [6]chan struct{} // 0: read 64 KiB, 1: read all, 2: head, 3: first body part, 4: rest
	acks      [6]chan struct{}
	upload    bool
	early     bool
	bodiless  bool
	sawCancel atomic.Bool
	ended     chan struct{}
	respBody  []byte
}

func newH3Script(upload, bodiless bool, body []byte) *h3script {
	s := &h3script{arrived: make(chan struct{}), upload: upload, bodiless: bodiless, ended: make(chan struct{}), respBody: body}
	for i := range s.gates {
		s.gates[i] = make(chan struct{})
		s.acks[i] = make(chan struct{})
	}
	return s
}

func (s *h3script) openAll() {
	for i := range s.gates {
		select {
		case <-s.gates[i]:
		default:
			close(s.gates[i])
		}
	}
}

type h3origin struct {
	srv    *qh3.Server
	pc     net.PacketConn
	mu     sync.Mutex
	script *h3script
	held   chan struct{} // a "/hold" request has reached the handler
	free   chan struct{} // closed: the held request may finish
}

func (o *h3origin) serve(w http.ResponseWriter, r *http.Request) {
	if r.URL.Path == "/hold" {
		close(o.held)
		select {
		case <-o.free:
		case <-time.After(60 * time.Second):
		}
		w.Write([]byte("held"))
		return
	}
	if r.URL.Path != "/x" {
		io.Copy(io.Discard, r.Body)
		body := "follow-up"
		if r.URL.Path == "/warm" {
			body = "warm"
		}
		w.Header().Set("Content-Length", fmt.Sprint(len(body)))
		w.Write([]byte(body))
		return
	}
	o.mu.Lock()
	s := o.script
	o.mu.Unlock()
	if s == nil {
		w.WriteHeader(500)
		return
	}
	defer close(s.ended)
	close(s.arrived)
	wait := func(i int) bool {
		select {
		case <-s.gates[i]:
			return true
		case <-r.Context().Done():
			s.sawCancel.Store(true)
			if s.early { // a handler that does not watch its context: only the gate lets it go on
				<-s.gates[i]
				return true
			}
			return false
		case <-time.After(60 * time.Second):
			return false
		}
	}
	ack := func(i int) { close(s.acks[i]) }
	if s.upload && !s.early {
		if !wait(0) {
			return
		}
		if _, err := io.CopyN(io.Discard, r.Body, 64<<10); err != nil {
			s.sawCancel.Store(true)
			return
		}
		ack(0)
		if !wait(1) {
			return
		}
		if _, err := io.Copy(io.Discard, r.Body); err != nil {
			s.sawCancel.Store(true)
			return
		}
		ack(1)
	}
	if !wait(2) {
		return
	}
	if s.bodiless {
		w.Header().Set("Content-Length", "0")
		w.WriteHeader(200)
		ack(2)
		return
	}
	w.Header().Set("Content-Length", fmt.Sprint(len(s.respBody)))
	w.WriteHeader(200)
	w.(http.Flusher).Flush()
	ack(2)
	if !wait(3) {
		return
	}
	w.Write(s.respBody[:1000])
	w.(http.Flusher).Flush()
	ack(3)
	if !wait(4) {
		return
	}
	w.Write(s.respBody[1000:])
	w.(http.Flusher).Flush()
	ack(4)
	wait(5) // the stream ends only when the handler returns
}

func startH3Origin(maxStreams ...int64) (*h3origin, error) {
	cert, err := tls.X509KeyPair(testcert.LocalhostCert, testcert.LocalhostKey)
	if err != nil {
		return nil, err
	}
	pc, err := net.ListenPacket("udp", "127.0.0.1:0")
	if err != nil {
		return nil, err
	}
	o := &h3origin{pc: pc, held: make(chan struct{}), free: make(chan struct{})}
	o.srv = &qh3.Server{
		TLSConfig: qh3.ConfigureTLSConfig(&tls.Config{Certificates: []tls.Certificate{cert}}),
		Handler:   http.HandlerFunc(o.serve),
	}
	if len(maxStreams) > 0 {
		o.srv.QUICConfig = &quic.Config{MaxIncomingStreams: maxStreams[0]}
	}
	go o.srv.Serve(pc)
	return o, nil
}

// ---------- scenarios ----------

type h3spec struct {
	Name     string `json:"name"`
	Reuse    bool   `json:"reuse,omitempty"`
	Upload   bool   `json:"upload,omitempty"`
	Bodiless bool   `json:"bodiless,omitempty"`
	BadHost  bool   `json:"bad_host,omitempty"`     // SendRequestHeader fails (no injection): is the body closed?
	EarlyRsp bool   `json:"early_resp,omitempty"`   // the handler answers without consuming the 4 MiB upload: the sender is parked in stream.Write
	Limit    bool   `json:"stream_limit,omitempty"` // the peer allows one request stream and a held request uses it: OpenStreamSync waits
}

type h3obs struct {
	Stack    string   `json:"stack"`
	Spec     h3spec   `json:"spec"`
	Kind     string   `json:"kind"`
	Pos      int      `json:"pos"`
	Steps    int      `json:"steps"`
	StepName string   `json:"after_step"`
	Racy     bool     `json:"racy,omitempty"`
	Pre      []string `json:"pre"`
	RacyLab  []string `json:"racy_labels,omitempty"`

	Call          string   `json:"call"`
	CallErr       string   `json:"call_err,omitempty"`
	Body          string   `json:"body"`
	BodyErr       string   `json:"body_err,omitempty"`
	Returned      bool     `json:"returned"`
	ReturnMs      int64    `json:"return_ms"`
	Arrived       bool     `json:"request_arrived"`
	PeerSawCancel bool     `json:"peer_saw_cancel"`
	LatePackets   int64    `json:"datagrams_0.3s_to_1.5s_after_return"` // dial phase only: handshake packets still sent after the call returned
	ReqBody       bool     `json:"req_body"`
	ReqBodyClosed bool     `json:"req_body_closed"`
	ReadsAfter    int64    `json:"reads_after"`
	Quiesced      bool     `json:"quiesced"`
	Stuck         []string `json:"stuck,omitempty"`
	Leaked        []string `json:"leaked,omitempty"`
	FollowOK      bool     `json:"follow_ok"`
	FollowErr     string   `json:"follow_err,omitempty"`
	Complete      bool     `json:"complete_before_injection"`
	Harness       string   `json:"harness_problem,omitempty"`
}

type h3run struct {
	origin      *h3origin
	blockerDone chan struct{}
	spec        h3spec
	gate        *udpGate
	sc          *h3script
	call        *call
}

type h3step struct {
	name   string
	labels []string
	do     func(r *h3run) error
}

func waitAck(ch chan struct{}, msg string) error {
	select {
	case <-ch:
		return nil
	case <-time.After(stepWait):
		return errors.New(msg)
	}
}

func h3steps(sp h3spec) []h3step {
	var st []h3step
	if !sp.Reuse {
		st = append(st, h3step{"dial started, handshake packets held back", nil, func(r *h3run) error {
			return waitAck(r.gate.first, "no packet of a new QUIC connection arrived")
		}})
	}
	arrive := []string{"ZConnReady", "ZHdrSent"}
	if sp.Reuse {
		arrive = []string{"ZHdrSent"}
	}
	if sp.Limit {
		st = append(st, h3step{"waiting for a request stream (the peer's stream limit is used up)", nil, func(r *h3run) error {
			if !settle(func() bool { return countFrames(libGoroutines(), "openRequestStream") > 0 }) {
				return errors.New("the request is not waiting for a stream")
			}
			select {
			case <-r.sc.arrived:
				return errors.New("the request reached the handler although the stream limit was used up")
			default:
			}
			return nil
		}})
		arrive = []string{"ZStreamGranted", "ZHdrSent"}
	}
	st = append(st, h3step{"connection ready, request headers arrived", arrive, func(r *h3run) error {
		r.gate.setHold(false)
		if err := r.finishBlocker(); err != nil {
			return err
		}
		return waitAck(r.sc.arrived, "the request did not reach the handler")
	}})
	if sp.EarlyRsp {
		st = append(st, h3step{"response head sent while the upload is stalled (the peer does not read it)", []string{"ZResp true"}, func(r *h3run) error {
			close(r.sc.gates[2])
			if err := waitAck(r.sc.acks[2], "handler did not write the head"); err != nil {
				return err
			}
			return waitCh(r.call.hdrDone, "call did not return after the response head")
		}})
		st = append(st, h3step{"1000 body bytes sent and read", []string{"ZData"}, func(r *h3run) error {
			close(r.sc.gates[3])
			if err := waitAck(r.sc.acks[3], "handler did not write"); err != nil {
				return err
			}
			if !settle(func() bool { return r.call.nread.Load() >= 1000 }) {
				return errors.New("caller did not receive the body bytes")
			}
			return nil
		}})
		return st
	}
	if sp.Upload {
		st = append(st, h3step{"64 KiB of the request body read by the peer", nil, func(r *h3run) error {
			close(r.sc.gates[0])
			return waitAck(r.sc.acks[0], "request body did not arrive")
		}})
		st = append(st, h3step{"whole request body read by the peer", []string{"ZBodySent"}, func(r *h3run) error {
			close(r.sc.gates[1])
			return waitAck(r.sc.acks[1], "end of the request body did not arrive")
		}})
	}
	if sp.Bodiless {
		st = append(st, h3step{"response head (no body) sent", []string{"ZResp false"}, func(r *h3run) error {
			close(r.sc.gates[2])
			if err := waitAck(r.sc.acks[2], "handler did not write the head"); err != nil {
				return err
			}
			return waitCh(r.call.bodyDone, "call did not return after the complete response")
		}})
		return st
	}
	st = append(st, h3step{"response head sent", []string{"ZResp true"}, func(r *h3run) error {
		close(r.sc.gates[2])
		if err := waitAck(r.sc.acks[2], "handler did not write the head"); err != nil {
			return err
		}
		return waitCh(r.call.hdrDone, "call did not return after the response head")
	}})
	st = append(st, h3step{"1000 body bytes sent and read", []string{"ZData"}, func(r *h3run) error {
		close(r.sc.gates[3])
		if err := waitAck(r.sc.acks[3], "handler did not write"); err != nil {
			return err
		}
		if !settle(func() bool { return r.call.nread.Load() >= 1000 }) {
			return errors.New("caller did not receive the body bytes")
		}
		return nil
	}})
	// the declared body is complete before the stream ends: the pending Read waits for the FIN
	st = append(st, h3step{"rest of the declared body sent and read, handler still running", []string{"ZData"}, func(r *h3run) error {
		close(r.sc.gates[4])
		if err := waitAck(r.sc.acks[4], "handler did not write"); err != nil {
			return err
		}
		if !settle(func() bool { return r.call.nread.Load() >= respBodyLen }) {
			return errors.New("caller did not receive the body bytes")
		}
		return nil
	}})
	st = append(st, h3step{"handler returned (end of stream), end of body read", []string{"ZEnd"}, func(r *h3run) error {
		close(r.sc.gates[5])
		return waitCh(r.call.bodyDone, "body read did not end")
	}})
	return st
}

func (r *h3run) finishBlocker() error {
	if r.blockerDone == nil {
		return nil
	}
	select {
	case <-r.origin.free:
	default:
		close(r.origin.free)
	}
	return waitCh(r.blockerDone, "the held request did not finish")
}

func cause3(kind string) string {
	switch kind {
	case "cancel":
		return "ZCancel CCanceled"
	case "deadline", "deadline-timer":
		return "ZCancel CDeadline"
	case "client-timeout":
		return "ZCancel CTimeout"
	}
	return ""
}

const h3UploadLen = 4 << 20

func runH3(sp h3spec, kind string, pos int, racy bool) (o h3obs) {
	steps := h3steps(sp)
	o = h3obs{Stack: "h3", Spec: sp, Kind: kind, Pos: pos, Steps: len(steps), Racy: racy, Call: "pending", Body: "none"}
	if pos > 0 {
		o.StepName = steps[pos-1].name
	} else {
		o.StepName = "(call started)"
	}
	defer func() {
		if p := recover(); p != nil {
			o.Harness = fmt.Sprint("panic: ", p)
		}
	}()
	var lim []int64
	if sp.Limit {
		lim = []int64{1}
	}
	origin, err := startH3Origin(lim...)
	if err != nil {
		o.Harness = err.Error()
		return
	}
	defer origin.srv.Close()
	gate, err := newUDPGate(origin.pc.LocalAddr().(*net.UDPAddr))
	if err != nil {
		o.Harness = err.Error()
		return
	}
	defer gate.close()
	respBody := bytes.Repeat([]byte("0123456789"), respBodyLen/10)
	r := &h3run{origin: origin, spec: sp, gate: gate, sc: newH3Script(sp.Upload, sp.Bodiless, respBody)}
	r.sc.early = sp.EarlyRsp
	origin.script = r.sc
	defer r.sc.openAll()
	c := req.C().DisableAutoDecode().EnableInsecureSkipVerify().EnableForceHTTP3().SetTimeout(0)
	defer c.GetTransport().VerifCloseHTTP3()
	if kind == "client-timeout" {
		c.SetTimeout(timerDelay)
	}
	base := "https://" + gate.addr()

	if sp.Limit { // a held request uses the only request stream the peer allows
		r.blockerDone = make(chan struct{})
		go func() {
			defer close(r.blockerDone)
			c.R().SetContext(context.Background()).Get(base + "/hold")
		}()
		select {
		case <-origin.held:
		case <-time.After(stepWait):
			o.Harness = "the held request did not reach the handler"
			return
		}
	} else if sp.Reuse {
		resp, err := c.R().SetContext(context.Background()).Get(base + "/warm")
		if err != nil || resp.String() != "warm" {
			o.Harness = fmt.Sprint("warm-up failed: ", err)
			return
		}
	} else {
		gate.setHold(true)
	}

	var ctx context.Context
	var inject func()
	switch kind {
	case "cancel":
		cctx, cancel := context.WithCancel(context.Background())
		ctx, inject = cctx, cancel
	case "deadline":
		m := newManualCtx()
		ctx, inject = m, m.fire
	case "deadline-timer":
		cctx, cancel := context.WithTimeout(context.Background(), timerDelay)
		defer cancel()
		ctx, inject = cctx, func() {}
	default:
		ctx, inject = context.Background(), func() {}
	}
	rq := c.R().SetContext(ctx).DisableAutoReadResponse()
	if sp.BadHost {
		rq.SetHeader("Host", "bad host")
	}
	method := "GET"
	var body *trackedBody
	if sp.Upload {
		method = "POST"
		body = newTrackedBody(h3UploadLen)
		rq.SetBody(io.ReadCloser(body))
		o.ReqBody = true
	}
	cl := &call{hdrDone: make(chan struct{}), bodyDone: make(chan struct{})}
	r.call = cl
	go func() {
		defer close(cl.bodyDone)
		resp, err := rq.Send(method, base+"/x")
		cl.resp, cl.err = resp, err
		close(cl.hdrDone)
		if err != nil || resp.Response == nil || resp.Body == nil {
			return
		}
		cl.gotBody = true
		buf := make([]byte, 4096)
		for {
			n, e := resp.Body.Read(buf)
			cl.nread.Add(int64(n))
			if e != nil {
				if e != io.EOF {
					cl.bodyErr = e
				}
				break
			}
		}
		resp.Body.Close()
	}()

	if sp.BadHost {
		gate.setHold(false)
	}
	nseq := pos
	if racy {
		nseq = pos - 1
	}
	for i := 0; i < nseq && o.Harness == "" && !sp.BadHost; i++ {
		if err := steps[i].do(r); err != nil {
			o.Harness = fmt.Sprintf("step %d (%s): %v", i, steps[i].name, err)
			break
		}
		o.Pre = append(o.Pre, steps[i].labels...)
	}
	if o.Harness != "" {
		if !realTimer(kind) {
			return
		}
		o.Harness = ""
	}
	o.Complete = pos == len(steps) && !racy && !sp.EarlyRsp
	t0 := time.Now()
	if racy {
		o.RacyLab = append([]string{}, steps[pos-1].labels...)
		done := make(chan struct{})
		go func() { defer close(done); steps[pos-1].do(r) }()
		inject()
		<-done
	} else {
		inject()
	}
	select {
	case <-cl.bodyDone:
		o.Returned = true
	case <-time.After(returnBound + timerDelay):
	}
	o.ReturnMs = time.Since(t0).Milliseconds()
	if !o.Returned {
		for _, g := range libGoroutines() {
			o.Stuck = append(o.Stuck, topFrames(g))
		}
		gate.setHold(false)
		r.sc.openAll()
		select {
		case <-cl.bodyDone:
		case <-time.After(stepWait):
		}
		return
	}
	if cl.err != nil {
		o.Call, o.CallErr = classify(cl.err), trunc(cl.err.Error(), 200)
	} else {
		o.Call = "resp"
		switch {
		case !cl.gotBody:
			o.Body = "none"
		case cl.bodyErr != nil:
			o.Body, o.BodyErr = classify(cl.bodyErr), trunc(cl.bodyErr.Error(), 200)
		case sp.Bodiless && cl.nread.Load() == 0:
			o.Body = "none"
		case cl.nread.Load() == respBodyLen:
			o.Body = "eof"
		default:
			o.Body, o.BodyErr = "short", fmt.Sprintf("%d bytes without an error", cl.nread.Load())
		}
	}

	if !sp.Reuse && !sp.BadHost && pos <= 1 && !racy && (kind == "cancel" || kind == "deadline") {
		// the context ended while the QUIC handshake got no answer: the dial belongs to this request,
		// nothing may go on retransmitting handshake packets for it
		time.Sleep(300 * time.Millisecond)
		n0 := gate.nrecv.Load()
		time.Sleep(1200 * time.Millisecond)
		o.LatePackets = gate.nrecv.Load() - n0
	}
	// ----- epilogue -----
	gate.setHold(false)
	if err := r.finishBlocker(); err != nil {
		o.Harness = "epilogue: " + err.Error()
	}
	select {
	case <-r.sc.arrived:
		o.Arrived = true
		if !o.Complete {
			// the peer must learn that the request was abandoned (STOP_SENDING / RESET_STREAM)
			settle(func() bool {
				select {
				case <-r.sc.ended:
					return true
				default:
					return r.sc.sawCancel.Load()
				}
			})
		}
		o.PeerSawCancel = r.sc.sawCancel.Load()
	default:
	}
	if !sp.EarlyRsp { // (there the handler stays parked: nothing the peer does may be what ends the upload)
		r.sc.openAll()
	}
	var gs []string
	o.Quiesced = settle(func() bool {
		gs = libGoroutines()
		return countFrames(gs, ").roundTrip") == 0 && countFrames(gs, ").doRequest") == 0 &&
			countFrames(gs, "getClient") == 0 && countFrames(gs, "RoundTripOpt") == 0 &&
			countFrames(gs, "sendRequestBody") == 0 && countFrames(gs, "net/http.") == 0
	})
	if !o.Quiesced {
		for _, g := range gs {
			o.Stuck = append(o.Stuck, topFrames(g))
		}
	}
	if sp.EarlyRsp && body != nil {
		settle(func() bool { return body.closes.Load() > 0 })
		o.ReqBodyClosed = body.closes.Load() > 0
		r.sc.openAll()
	}
	if body != nil {
		closedBefore := o.ReqBodyClosed
		defer func() {
			if sp.EarlyRsp {
				o.ReqBodyClosed = closedBefore
			}
		}()
		body.markStop()
		settle(func() bool { return body.closes.Load() > 0 })
		o.ReqBodyClosed = body.closes.Load() > 0
		time.Sleep(20 * time.Millisecond)
		o.ReadsAfter = body.afterStop.Load()
	}
	fctx, fcancel := context.WithTimeout(context.Background(), 20*time.Second)
	resp, ferr := c.R().SetContext(fctx).Get(base + "/follow")
	fcancel()
	switch {
	case ferr != nil:
		o.FollowErr = trunc(ferr.Error(), 200)
	case resp.String() != "follow-up":
		o.FollowErr = "unexpected follow-up response " + trunc(resp.String(), 40)
	default:
		o.FollowOK = true
	}
	c.GetTransport().VerifCloseHTTP3()
	origin.srv.Close()
	var left []string
	settle(func() bool {
		left = nil
		for _, g := range libGoroutines() {
			left = append(left, g)
		}
		return len(left) == 0
	})
	for _, g := range left {
		o.Leaked = append(o.Leaked, topFrames(g))
	}
	return
}
