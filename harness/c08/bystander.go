package main

// Bystanders: requests that share something with the request whose context ends - the
// per-host wait queue (HTTP/1.1, MaxConnsPerHost), the connection and its flow-control window
// (HTTP/2), the dial (HTTP/2, HTTP/3).  "The client remains fully usable": they must be served
// as if the ended request had never existed.

import (
	"context"
	"errors"
	"fmt"
	"net"
	"strings"
	"sync"
	"sync/atomic"
	"time"

	req "github.com/imroc/req/v3"
	"golang.org/x/net/http2"
)

// ---------- HTTP/1.1: several waiters queued behind the only connection ----------

type queueSpec struct {
	Name    string `json:"name"`
	Waiters int    `json:"waiters"`
	Cancel  []int  `json:"cancel"`         // waiters whose context ends while queued, in this order
	Kind    string `json:"kind"`           // cancel | deadline
	Late    []int  `json:"late,omitempty"` // waiters that join the queue after the cancellations
}

type queueObs struct {
	Stack    string    `json:"stack"`
	Spec     queueSpec `json:"spec"`
	Events   []string  `json:"events"` // model labels in the order they were made to happen
	Served   []int     `json:"served"` // waiters in the order their request reached the peer
	Results  []string  `json:"results"`
	Stranded []int     `json:"stranded,omitempty"` // live waiters that were not served within the bound
	Idle     int       `json:"idle"`
	Leaked   []string  `json:"leaked,omitempty"`
	FollowOK bool      `json:"follow_ok"`
	FollowEr string    `json:"follow_err,omitempty"`
	Harness  string    `json:"harness_problem,omitempty"`
}

func idleWaiters(c *req.Client) int {
	s := req.VerifPoolSnapshot(c.GetTransport())
	n := 0
	for _, v := range s.IdleWaitLive {
		n += v
	}
	return n
}

func runQueue(sp queueSpec) (o queueObs) {
	o = queueObs{Stack: "queue", Spec: sp, Results: make([]string, sp.Waiters)}
	defer func() {
		if p := recover(); p != nil {
			o.Harness = fmt.Sprint("panic: ", p)
		}
	}()
	peer, err := newH1Peer(false)
	if err != nil {
		o.Harness = err.Error()
		return
	}
	defer peer.closeAll()
	dl := newDialer(peer.ln.Addr().String())
	dl.setOpen(true)
	c := req.C().DisableAutoDecode().EnableForceHTTP1().SetDial(dl.dial).SetTimeout(0)
	c.GetTransport().SetMaxConnsPerHost(1)
	base := "http://c08.test"
	aDone := make(chan error, 1)
	go func() {
		_, err := c.R().SetContext(context.Background()).Get(base + "/A")
		aDone <- err
	}()
	var pc *pconn
	select {
	case pc = <-peer.accepted:
	case <-time.After(stepWait):
		o.Harness = "no connection arrived"
		return
	}
	if err := pc.start(peer); err != nil {
		o.Harness = err.Error()
		return
	}
	if _, err := pc.readHead(); err != nil {
		o.Harness = "request A: " + err.Error()
		return
	}
	type waiter struct {
		inject func()
		done   chan struct{}
		err    error
	}
	ws := make([]*waiter, sp.Waiters)
	live := 0
	isLate := map[int]bool{}
	for _, i := range sp.Late {
		isLate[i] = true
	}
	start := func(i int) bool {
		w := &waiter{done: make(chan struct{})}
		var ctx context.Context
		if sp.Kind == "deadline" {
			m := newManualCtx()
			ctx, w.inject = m, m.fire
		} else {
			cctx, cancel := context.WithCancel(context.Background())
			ctx, w.inject = cctx, cancel
		}
		ws[i] = w
		go func() {
			defer close(w.done)
			resp, err := c.R().SetContext(ctx).Get(fmt.Sprintf("%s/w%d", base, i))
			if err == nil && resp.String() != "ok" {
				err = errors.New("unexpected response " + trunc(resp.String(), 30))
			}
			w.err = err
		}()
		live++
		want := live
		if !settle(func() bool { return idleWaiters(c) >= want }) {
			o.Harness = fmt.Sprintf("waiter %d did not enter the wait queue", i)
			return false
		}
		o.Events = append(o.Events, fmt.Sprintf("QEnq %d", i))
		return true
	}
	for i := 0; i < sp.Waiters; i++ {
		if !isLate[i] && !start(i) {
			return
		}
	}
	cancelled := map[int]bool{}
	for _, i := range sp.Cancel {
		ws[i].inject()
		select {
		case <-ws[i].done:
		case <-time.After(returnBound):
			o.Results[i] = "hang"
		}
		if o.Results[i] == "" {
			o.Results[i] = classify(ws[i].err)
		}
		cancelled[i] = true
		live--
		o.Events = append(o.Events, fmt.Sprintf("QCancel %d", i))
	}
	for _, i := range sp.Late {
		if !start(i) {
			return
		}
	}
	// A completes: its connection becomes idle and must go to the first live waiter, and so on
	if err := pc.write([]byte("HTTP/1.1 200 OK\r\nContent-Length: 2\r\n\r\nok")); err != nil {
		o.Harness = err.Error()
		return
	}
	select {
	case <-aDone:
	case <-time.After(stepWait):
		o.Harness = "request A did not finish"
		return
	}
	o.Events = append(o.Events, "QFree")
	for n := 0; n < sp.Waiters-len(sp.Cancel); n++ {
		pc.c.SetReadDeadline(time.Now().Add(returnBound))
		head, err := pc.readHead()
		if err != nil {
			break // nobody was handed the idle connection
		}
		var id int
		if _, err := fmt.Sscanf(head, "GET /w%d ", &id); err != nil {
			o.Harness = "unexpected request " + trunc(head, 40)
			break
		}
		o.Served = append(o.Served, id)
		pc.write([]byte("HTTP/1.1 200 OK\r\nContent-Length: 2\r\n\r\nok"))
		select {
		case <-ws[id].done:
			o.Results[id] = classify(ws[id].err)
		case <-time.After(returnBound):
			o.Results[id] = "hang"
		}
		o.Events = append(o.Events, "QFree")
	}
	for i, w := range ws {
		if cancelled[i] || o.Results[i] != "" {
			continue
		}
		o.Stranded = append(o.Stranded, i)
		w.inject() // let the run end
		<-w.done
		o.Results[i] = "stranded"
	}
	settle(func() bool { return idleCount(c) == 1 || len(o.Stranded) > 0 })
	o.Idle = idleCount(c)
	pc.c.SetReadDeadline(time.Time{})
	peer.takeoverAll()
	fctx, fcancel := context.WithTimeout(context.Background(), 20*time.Second)
	resp, ferr := c.R().SetContext(fctx).Get(base + "/x")
	fcancel()
	switch {
	case ferr != nil:
		o.FollowEr = trunc(ferr.Error(), 200)
	case resp.String() != "follow-up":
		o.FollowEr = "unexpected follow-up response " + trunc(resp.String(), 40)
	default:
		o.FollowOK = true
	}
	c.GetTransport().CloseIdleConnections()
	peer.closeAll()
	var left []string
	settle(func() bool { left = libGoroutines(); return len(left) == 0 })
	for _, g := range left {
		o.Leaked = append(o.Leaked, topFrames(g))
	}
	return
}

// ---------- HTTP/2: DATA in flight for streams the client has given up ----------

type windowSpec struct {
	Name   string  `json:"name"`
	Stray  [][]int `json:"stray"` // per cancelled download: sizes of the DATA frames that arrive after the reset
	Kind   string  `json:"kind"`
	Follow int     `json:"follow_bytes"` // body size of the download that follows
}

type windowObs struct {
	Stack     string     `json:"stack"`
	Spec      windowSpec `json:"spec"`
	Window    int64      `json:"conn_window"`   // the connection receive window the client announced
	Credited  int64      `json:"credited"`      // WINDOW_UPDATE(0) increments received after the announcement, before the follow-up
	StrayPut  []int      `json:"stray_written"` // the frames the peer could write within its send window
	Results   []string   `json:"results"`       // body read outcome of every cancelled download
	Rst       []int64    `json:"rst"`
	PeerStuck bool       `json:"peer_blocked"` // the peer's connection send window did not allow the next frame within the bound
	FollowOK  bool       `json:"follow_ok"`
	FollowEr  string     `json:"follow_err,omitempty"`
	ConnGone  bool       `json:"conn_closed"`
	Leaked    []string   `json:"leaked,omitempty"`
	Harness   string     `json:"harness_problem,omitempty"`
}

func (p *h2peerConn) connSendWindow() int64 {
	p.mu.Lock()
	defer p.mu.Unlock()
	return 65535 + p.wu0 - p.sent
}

// dataFC writes one DATA frame once the connection-level send window allows it
func (p *h2peerConn) dataFC(id uint32, end bool, b []byte, d time.Duration) bool {
	ok := p.waitFor(d, func() bool { return 65535+p.wu0-p.sent >= int64(len(b)) })
	if !ok {
		return false
	}
	p.mu.Lock()
	p.sent += int64(len(b))
	p.mu.Unlock()
	return p.data(id, end, b) == nil
}

func runWindow(sp windowSpec) (o windowObs) {
	o = windowObs{Stack: "window", Spec: sp}
	defer func() {
		if p := recover(); p != nil {
			o.Harness = fmt.Sprint("panic: ", p)
		}
	}()
	ln, err := net.Listen("tcp", "127.0.0.1:0")
	if err != nil {
		o.Harness = err.Error()
		return
	}
	defer ln.Close()
	dl := newDialer(ln.Addr().String())
	dl.setOpen(true)
	c := req.C().DisableAutoDecode().EnableH2C().EnableForceHTTP2().SetTimeout(0)
	c.SetDial(dl.dial)
	c.SetDialTLS(dl.dial)
	c.GetTransport().SetHTTP2ConnectionFlow(1)
	url := "http://c08.test/x"
	var pc *h2peerConn
	var conn net.Conn
	accepted := make(chan struct{})
	go func() {
		cn, err := ln.Accept()
		if err != nil {
			return
		}
		conn = cn
		pc, _ = newH2PeerConn(cn)
		close(accepted)
	}()
	defer func() {
		if conn != nil {
			conn.Close()
		}
	}()
	last := uint32(0)
	buf := make([]byte, 1<<16)
	for i := range buf {
		buf[i] = 'x'
	}
	for k, frames := range sp.Stray {
		var ctx context.Context
		var inject func()
		if sp.Kind == "deadline" {
			m := newManualCtx()
			ctx, inject = m, m.fire
		} else {
			cctx, cancel := context.WithCancel(context.Background())
			ctx, inject = cctx, cancel
		}
		done := make(chan struct{})
		var rerr error
		hdr := make(chan struct{})
		go func() {
			defer close(done)
			resp, err := c.R().SetContext(ctx).DisableAutoReadResponse().Get(url)
			close(hdr)
			if err != nil {
				rerr = err
				return
			}
			b := make([]byte, 4096)
			for {
				if _, e := resp.Body.Read(b); e != nil {
					rerr = e
					break
				}
			}
			resp.Body.Close()
		}()
		if k == 0 {
			select {
			case <-accepted:
			case <-time.After(stepWait):
				o.Harness = "no connection arrived"
				return
			}
			if pc == nil {
				o.Harness = "preface failed"
				return
			}
		}
		prev := last
		if !pc.waitFor(stepWait, func() bool { return pc.last > prev && pc.st[pc.last].hdrDone }) {
			o.Harness = "request HEADERS did not arrive"
			return
		}
		pc.mu.Lock()
		last = pc.last
		if k == 0 {
			o.Window = 65535 + pc.wu0
		}
		pc.mu.Unlock()
		sid := last
		pc.headers(sid, false, ":status", "200")
		select {
		case <-hdr:
		case <-time.After(stepWait):
			o.Harness = "call did not return after the response head"
			return
		}
		inject()
		select {
		case <-done:
			o.Results = append(o.Results, classify(rerr))
		case <-time.After(returnBound):
			o.Results = append(o.Results, "hang")
			return
		}
		pc.waitFor(stepWait, func() bool { return pc.st[sid].rst >= 0 })
		// the stream is forgotten once the doRequest goroutine has ended
		settle(func() bool { return countFrames(libGoroutines(), "clientStream") == 0 })
		pc.mu.Lock()
		o.Rst = append(o.Rst, pc.st[sid].rst)
		pc.mu.Unlock()
		// DATA that was in flight when the reset was sent
		for _, n := range frames {
			if !pc.dataFC(sid, false, buf[:n], returnBound) {
				o.PeerStuck = true
				break
			}
			o.StrayPut = append(o.StrayPut, n)
		}
	}
	// credit handed back for the stray frames (the read loop answers each frame before the next)
	time.Sleep(30 * time.Millisecond)
	var before int64 = -1
	settle(func() bool {
		pc.mu.Lock()
		cur := pc.wu0
		pc.mu.Unlock()
		stable := cur == before
		before = cur
		if !stable {
			time.Sleep(20 * time.Millisecond)
		}
		return stable
	})
	pc.mu.Lock()
	o.Credited = pc.wu0 - (o.Window - 65535)
	o.ConnGone = pc.gone
	pc.mu.Unlock()
	// an ordinary download on the same connection
	fdone := make(chan struct{})
	var ferr error
	var got int
	go func() {
		defer close(fdone)
		fctx, cancel := context.WithTimeout(context.Background(), 20*time.Second)
		defer cancel()
		resp, err := c.R().SetContext(fctx).Get(url)
		if err != nil {
			ferr = err
			return
		}
		got = len(resp.Bytes())
	}()
	prev := last
	if !pc.waitFor(stepWait, func() bool { return pc.gone || (pc.last > prev && pc.st[pc.last].hdrDone) }) || pc.gone {
		o.FollowEr = "the follow-up request did not arrive on the connection"
	} else {
		pc.mu.Lock()
		sid := pc.last
		pc.mu.Unlock()
		pc.headers(sid, false, ":status", "200")
		remain := sp.Follow
		for remain > 0 {
			n := remain
			if n > 16000 {
				n = 16000
			}
			remain -= n
			if !pc.dataFC(sid, remain == 0, buf[:n], returnBound) {
				o.PeerStuck = true
				o.FollowEr = fmt.Sprintf("the peer may not send: connection send window %d, %d bytes of the follow-up body left", pc.connSendWindow(), remain+n)
				break
			}
		}
	}
	if o.FollowEr != "" {
		if conn != nil {
			conn.Close()
		}
	}
	select {
	case <-fdone:
	case <-time.After(25 * time.Second):
	}
	if o.FollowEr == "" {
		switch {
		case ferr != nil:
			o.FollowEr = trunc(ferr.Error(), 200)
		case got != sp.Follow:
			o.FollowEr = fmt.Sprintf("%d of %d bytes", got, sp.Follow)
		default:
			o.FollowOK = true
		}
	}
	c.GetTransport().CloseIdleConnections()
	if conn != nil {
		conn.Close()
	}
	var left []string
	settle(func() bool { left = libGoroutines(); return len(left) == 0 })
	for _, g := range left {
		o.Leaked = append(o.Leaked, topFrames(g))
	}
	return
}

// ---------- HTTP/2 and HTTP/3: a second request joins a dial whose owner's context ends ----------

type shareSpec struct {
	Name  string `json:"name"`
	Stack string `json:"stack"`                // h2 | h3
	Kind  string `json:"kind"`                 // cancel | deadline | deadline-timer
	EndB  bool   `json:"end_joiner,omitempty"` // the context of the request that JOINED the dial ends (the dial goes on)
}

type shareObs struct {
	Stack   string    `json:"stack"`
	Spec    shareSpec `json:"spec"`
	Joined  bool      `json:"b_joined_the_dial"`
	A       string    `json:"a"`
	AErr    string    `json:"a_err,omitempty"`
	B       string    `json:"b"`
	BErr    string    `json:"b_err,omitempty"`
	BMs     int64     `json:"b_ms"`
	Leaked  []string  `json:"leaked,omitempty"`
	Harness string    `json:"harness_problem,omitempty"`
}

func shareCtx(kind string) (context.Context, func(), func()) {
	switch kind {
	case "deadline":
		m := newManualCtx()
		return m, m.fire, func() {}
	case "deadline-timer":
		cctx, cancel := context.WithTimeout(context.Background(), timerDelay)
		return cctx, func() {}, cancel
	}
	cctx, cancel := context.WithCancel(context.Background())
	return cctx, cancel, func() {}
}

func runShare(sp shareSpec) (o shareObs) {
	o = shareObs{Stack: "share", Spec: sp, A: "pending", B: "pending"}
	defer func() {
		if p := recover(); p != nil {
			o.Harness = fmt.Sprint("panic: ", p)
		}
	}()
	var c *req.Client
	var url string
	var started func() bool // A's dial is in progress
	var joined func() bool  // B waits for the same dial
	var release func()
	var cleanup func()
	switch sp.Stack {
	case "h3":
		origin, err := startH3Origin()
		if err != nil {
			o.Harness = err.Error()
			return
		}
		gate, err := newUDPGate(origin.pc.LocalAddr().(*net.UDPAddr))
		if err != nil {
			o.Harness = err.Error()
			return
		}
		gate.setHold(true)
		c = req.C().DisableAutoDecode().EnableInsecureSkipVerify().EnableForceHTTP3().SetTimeout(0)
		url = "https://" + gate.addr() + "/follow"
		started = func() bool {
			select {
			case <-gate.first:
				return true
			default:
				return false
			}
		}
		joined = func() bool {
			for _, e := range req.VerifH3Snapshot(c.GetTransport()) {
				if e.UseCount >= 2 {
					return true
				}
			}
			return false
		}
		release = func() { gate.setHold(false) }
		cleanup = func() { c.GetTransport().VerifCloseHTTP3(); origin.srv.Close(); gate.close() }
	default:
		ln, err := net.Listen("tcp", "127.0.0.1:0")
		if err != nil {
			o.Harness = err.Error()
			return
		}
		var mu sync.Mutex
		var conns []net.Conn
		go func() {
			for {
				cn, err := ln.Accept()
				if err != nil {
					return
				}
				mu.Lock()
				conns = append(conns, cn)
				mu.Unlock()
				go func() {
					pc, err := newH2PeerConn(cn)
					if err == nil {
						autoH2(pc, map[uint32]bool{})
					}
				}()
			}
		}()
		dl := newDialer(ln.Addr().String())
		c = req.C().DisableAutoDecode().EnableH2C().EnableForceHTTP2().SetTimeout(0)
		c.SetDial(dl.dial)
		c.SetDialTLS(dl.dial)
		url = "http://c08.test/x"
		started = func() bool { return dl.entered.Load() >= 1 }
		joined = func() bool { return countFrames(libGoroutines(), "clientConnPool).GetClientConn") >= 2 }
		release = func() { dl.openAll() }
		cleanup = func() {
			c.GetTransport().CloseIdleConnections()
			ln.Close()
			mu.Lock()
			for _, cn := range conns {
				cn.Close()
			}
			mu.Unlock()
		}
	}
	defer cleanup()
	actx, inject, stop := shareCtx(sp.Kind)
	defer stop()
	if sp.EndB {
		actx = context.Background()
	}
	aDone := make(chan error, 1)
	go func() {
		_, err := c.R().SetContext(actx).Get(url)
		aDone <- err
	}()
	if !settle(started) {
		o.Harness = "the first request did not start a dial"
		return
	}
	if sp.EndB {
		// B joins A's dial and B's context ends: B must return at once; A, whose dial then completes, succeeds
		bctx, binject, bstop := shareCtx(sp.Kind)
		defer bstop()
		bDone := make(chan error, 1)
		go func() {
			_, err := c.R().SetContext(bctx).Get(url)
			bDone <- err
		}()
		o.Joined = settle(joined)
		if !o.Joined {
			o.Harness = "the second request did not join the pending dial"
			release()
			return
		}
		t0 := time.Now()
		binject()
		select {
		case err := <-bDone:
			o.B = classify(err)
			if err != nil {
				o.BErr = trunc(err.Error(), 160)
			}
		case <-time.After(returnBound):
			o.B = "hang"
		}
		o.BMs = time.Since(t0).Milliseconds()
		release()
		select {
		case err := <-aDone:
			o.A = classify(err)
			if err != nil {
				o.AErr = trunc(err.Error(), 160)
			}
		case <-time.After(25 * time.Second):
			o.A = "hang"
		}
		if o.B == "hang" {
			<-bDone
		}
		cleanup()
		var left []string
		settle(func() bool { left = libGoroutines(); return len(left) == 0 })
		for _, g := range left {
			o.Leaked = append(o.Leaked, topFrames(g))
		}
		return
	}
	bDone := make(chan error, 1)
	var bms atomic.Int64
	go func() {
		bctx, cancel := context.WithTimeout(context.Background(), 20*time.Second)
		defer cancel()
		t0 := time.Now()
		resp, err := c.R().SetContext(bctx).Get(url)
		if err == nil && resp.String() != "follow-up" {
			err = errors.New("unexpected response " + trunc(resp.String(), 30))
		}
		bms.Store(time.Since(t0).Milliseconds())
		bDone <- err
	}()
	o.Joined = settle(joined)
	if !o.Joined && sp.Kind != "deadline-timer" {
		o.Harness = "the second request did not join the pending dial"
		release()
		return
	}
	inject()
	select {
	case err := <-aDone:
		o.A = classify(err)
		if err != nil {
			o.AErr = trunc(err.Error(), 160)
		}
	case <-time.After(returnBound + timerDelay):
		o.A = "hang"
	}
	release()
	select {
	case err := <-bDone:
		o.B = classify(err)
		if err != nil {
			o.BErr = trunc(err.Error(), 160)
		}
	case <-time.After(25 * time.Second):
		o.B = "hang"
	}
	o.BMs = bms.Load()
	cleanup()
	var left []string
	settle(func() bool { left = libGoroutines(); return len(left) == 0 })
	for _, g := range left {
		o.Leaked = append(o.Leaked, topFrames(g))
	}
	_ = strings.TrimSpace
	_ = http2.ClientPreface
	return
}
