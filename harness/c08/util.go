package main

import (
	"context"
	"errors"
	"io"
	"net"
	"regexp"
	"runtime"
	"strings"
	"sync"
	"sync/atomic"
	"time"
)

// ---------- generous bounds (never tight: the machine is shared) ----------

const (
	stepWait    = 10 * time.Second       // a scripted step must become observable within this
	returnBound = 5 * time.Second        // "promptly": the call / pending read must return within this after the injection
	settleMax   = 6 * time.Second        // settle loops (census, Close(), pool) retry up to this long
	timerDelay  = 150 * time.Millisecond // real-timer injections (context.WithTimeout, Client.Timeout, ResponseHeaderTimeout)
)

func settle(cond func() bool) bool {
	dl := time.Now().Add(settleMax)
	for i := 0; ; i++ {
		if cond() {
			return true
		}
		if time.Now().After(dl) {
			return false
		}
		if i < 20 {
			time.Sleep(time.Millisecond)
		} else {
			time.Sleep(10 * time.Millisecond)
		}
	}
}

// ---------- goroutine census ----------

// goroutines that have a frame inside the library (or inside net/http's per-request timer
// helper).  The harness's own goroutines never have such a frame unless a call is in flight.
var libFrame = regexp.MustCompile(`github\.com/imroc/req/v3(\.|/internal/|/pkg/)|net/http\.setRequestCancel|net/http\.\(\*Client\)`)

func libGoroutines() []string {
	buf := make([]byte, 1<<20)
	for {
		n := runtime.Stack(buf, true)
		if n < len(buf) {
			buf = buf[:n]
			break
		}
		buf = make([]byte, 2*len(buf))
	}
	var out []string
	for _, g := range strings.Split(string(buf), "\n\n") {
		if libFrame.MatchString(g) && !strings.Contains(g, "main.libGoroutines") {
			out = append(out, g)
		}
	}
	return out
}

// topFrames: a short, address-free description of a leaked goroutine
func topFrames(g string) string {
	var fs []string
	for _, l := range strings.Split(g, "\n") {
		if strings.HasPrefix(l, "\t") || strings.HasPrefix(l, "goroutine ") || l == "" {
			continue
		}
		if i := strings.LastIndex(l, "("); i > 0 {
			l = l[:i]
		}
		fs = append(fs, l)
		if len(fs) == 4 {
			break
		}
	}
	return strings.Join(fs, " < ")
}

// ---------- contexts ----------

// manualCtx is a context whose deadline "expires" when the harness says so: Done() closes and
// Err() = context.DeadlineExceeded exactly at the chosen event index, without a wall clock.
type manualCtx struct {
	context.Context
	done chan struct{}
	mu   sync.Mutex
	err  error
	dl   time.Time
}

func newManualCtx() *manualCtx {
	return &manualCtx{Context: context.Background(), done: make(chan struct{}), dl: time.Now().Add(time.Hour)}
}
func (m *manualCtx) Deadline() (time.Time, bool) { return m.dl, true }
func (m *manualCtx) Done() <-chan struct{}       { return m.done }
func (m *manualCtx) Err() error {
	m.mu.Lock()
	defer m.mu.Unlock()
	return m.err
}
func (m *manualCtx) fire() {
	m.mu.Lock()
	if m.err == nil {
		m.err = context.DeadlineExceeded
		close(m.done)
	}
	m.mu.Unlock()
}

// ---------- request body that records what happens to it ----------

type trackedBody struct {
	size      int64
	off       atomic.Int64
	reads     atomic.Int64
	closes    atomic.Int64
	lastRead  atomic.Int64 // unix nano of the last Read
	afterStop atomic.Int64 // Reads after markStop()
	stopped   atomic.Bool

	// a producer that stalls: once stallAt bytes have been delivered Read blocks until the body is
	// closed (like an io.Pipe whose writer has gone quiet) - Close is the only thing that wakes it
	stallAt  int64
	wake     chan struct{}
	wakeOnce sync.Once
	inRead   atomic.Int64 // goroutines currently inside Read
}

func newTrackedBody(size int64) *trackedBody {
	return &trackedBody{size: size, wake: make(chan struct{})}
}

func (b *trackedBody) release() { b.wakeOnce.Do(func() { close(b.wake) }) }

func (b *trackedBody) Read(p []byte) (int, error) {
	b.inRead.Add(1)
	defer b.inRead.Add(-1)
	b.reads.Add(1)
	b.lastRead.Store(time.Now().UnixNano())
	if b.stopped.Load() {
		b.afterStop.Add(1)
	}
	if b.closes.Load() > 0 {
		return 0, errors.New("read on closed request body")
	}
	o := b.off.Load()
	if b.stallAt > 0 && o >= b.stallAt {
		<-b.wake
		return 0, errors.New("request body producer gave up (body closed)")
	}
	if o >= b.size {
		return 0, io.EOF
	}
	n := int64(len(p))
	if b.stallAt > 0 && n > b.stallAt-o {
		n = b.stallAt - o
	}
	if n > 16384 {
		n = 16384
	}
	if n > b.size-o {
		n = b.size - o
	}
	for i := int64(0); i < n; i++ {
		p[i] = byte('a' + (o+i)%23)
	}
	b.off.Add(n)
	return int(n), nil
}
func (b *trackedBody) Close() error { b.closes.Add(1); b.release(); return nil }
func (b *trackedBody) markStop()    { b.stopped.Store(true) }

// ---------- error classes (projection compared with the model; NOT the oracle) ----------

func classify(err error) string {
	if err == nil {
		return "nil"
	}
	s := err.Error()
	switch {
	case strings.Contains(s, "Client.Timeout"):
		return "cause:timeout"
	case strings.Contains(s, "timeout awaiting response headers"):
		return "hdrtimeout"
	case errors.Is(err, context.Canceled):
		return "cause:canceled"
	case errors.Is(err, context.DeadlineExceeded):
		return "cause:deadline"
	}
	return "other"
}

func isTimeout(err error) bool {
	var ne net.Error
	return errors.As(err, &ne) && ne.Timeout()
}

// oracle: does err identify the injected cancellation / timeout (from the property text)
func identifies(kind string, err error) bool {
	if err == nil {
		return false
	}
	switch kind {
	case "cancel":
		return errors.Is(err, context.Canceled)
	case "deadline", "deadline-timer":
		return errors.Is(err, context.DeadlineExceeded)
	case "client-timeout", "hdr-timeout":
		return isTimeout(err) || errors.Is(err, context.DeadlineExceeded)
	}
	return false
}

func trunc(s string, n int) string {
	if len(s) > n {
		return s[:n] + "..."
	}
	return s
}
