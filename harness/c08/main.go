package main

// C08 - cancellation and timeouts take effect at every point of a request's life.
//
// Scripted stepping peers (h1 raw TCP, h2 frame level, h3 quic-go server with blocking
// handlers).  For every scenario the observable network events are enumerated and a
// cancellation / context deadline / Client.Timeout / ResponseHeaderTimeout is injected after
// each event index while the peer stalls.  Oracle (from the property text, independent of the
// Coq model): the call or the pending body read returns within a generous bound with an error
// identifying the cancellation/timeout (unless the exchange had completed), nothing of the
// library keeps running afterwards (goroutine census with settle loops), the request body is
// closed and no longer read, a follow-up request on the same client succeeds.
// Correspondence: the observed outcome must be in the set Model/Lifecycle.v allows for the
// event prefix (Model/C08Run.v).

import (
	"fmt"
	"strings"

	"github.com/imroc/req/v3/verifharness/hk"
)

func recordH2(r *hk.Run, o h2obs) {
	// the oracle is the same as for HTTP/1.1
	judge(r, obs{Stack: "h2", Spec: h1spec{Name: o.Spec.Name}, Kind: o.Kind, StepName: o.StepName, Racy: o.Racy,
		Call: o.Call, CallErr: o.CallErr, Body: o.Body, BodyErr: o.BodyErr, Returned: o.Returned, Quiesced: o.Quiesced,
		Stuck: o.Stuck, Leaked: o.Leaked, ReqBody: o.ReqBody, ReqBodyClosed: o.ReqBodyClosed, ReadsAfter: o.ReadsAfter,
		FollowOK: o.FollowOK, FollowErr: o.FollowErr, Complete: o.Complete, Harness: o.Harness, PeerFailed: o.PeerFailed, ReaderStuck: o.ReaderStuck})
	// the peer must be told: a stream whose HEADERS went out and which was not closed on both sides
	// when the context ended has to be reset (RFC 9113 8.1.1 / 5.4.2), or the peer keeps working on it
	if o.Harness == "" && o.Returned && o.StreamSeen && !o.Complete && !o.Racy && o.Kind != "none" && !realTimer(o.Kind) && o.Rst != 8 && !o.PeerFailed {
		r.Fail(hk.Failure{Sig: fmt.Sprintf("no-rst:h2:%s:%s:after=%s", o.Spec.Name, o.Kind, o.StepName),
			What: fmt.Sprintf("the request's stream was open at the peer when the context ended but no RST_STREAM(CANCEL) arrived (rst code %d)", o.Rst), Input: o})
	}
	if o.Harness == "" && o.Returned && !o.StreamSeen && o.Rst >= 0 {
		r.Fail(hk.Failure{Sig: fmt.Sprintf("stray-rst:h2:%s:%s:after=%s", o.Spec.Name, o.Kind, o.StepName), What: "RST_STREAM for a stream the peer never saw", Input: o})
	}
	if o.Harness == "" && o.Returned && o.ConnClosed {
		r.Fail(hk.Failure{Sig: fmt.Sprintf("conn-closed:h2:%s:%s:after=%s", o.Spec.Name, o.Kind, o.StepName),
			What: "the HTTP/2 connection, which other requests share, was closed because one request was cancelled", Input: o})
	}
	r.Count("h2:" + o.Kind)
	r.Count("h2:scenario:" + o.Spec.Name)
	r.Count(fmt.Sprintf("h2:call=%s,body=%s,rst=%d", o.Call, o.Body, o.Rst))
	key := fmt.Sprintf("h2|%s|%s|%d|%v", o.Spec.Name, o.Kind, o.Pos, o.Racy)
	coq := ""
	if o.Harness == "" && o.Returned {
		coq = emitH2(o)
	}
	r.Add(hk.Case{Coq: coq, Desc: map[string]interface{}{"kind": "h2", "obs": o}}, key, o.Pos > 0 && !o.Complete && o.Kind != "none")
}

func emitH2(o h2obs) string {
	if o.Kind == "client-timeout" && o.PeerFailed && strings.Contains(o.CallErr, "received from peer") {
		// net/http appends "(Client.Timeout exceeded ...)" to WHATEVER error the transport returns once its
		// timer has fired: underneath it is the peer's reset
		o.Call = "other"
	}
	if o.Kind == "client-timeout" {
		if o.Call == "cause:deadline" {
			o.Call = "cause:timeout"
		}
		if o.Body == "cause:deadline" {
			o.Body = "cause:timeout"
		}
	}
	var call, body string
	if o.Call == "resp" {
		call = "OResp"
	} else if e, ok := coqErr(o.Call); ok {
		call = "(OErr " + e + ")"
	} else {
		return ""
	}
	switch o.Body {
	case "none":
		body = "ONone"
	case "eof":
		body = "OEof"
	default:
		if e, ok := coqErr(o.Body); ok {
			body = "(OBErr " + e + ")"
		} else {
			return ""
		}
	}
	rst := "None"
	switch o.Rst {
	case -1:
	case 8:
		rst = "(Some RstCancel)"
	case 0:
		rst = "(Some RstNoError)"
	default:
		return ""
	}
	inj := []string{}
	if cause2(o.Kind) != "" {
		inj = []string{cause2(o.Kind)}
	}
	inj = append(inj, o.Post...) // what the epilogue makes happen
	ob := fmt.Sprintf("(mkObs2 %s %s %s %s %s)", call, body, rst, hk.CoqBool(o.ReqBody), hk.CoqBool(o.ReqBodyClosed))
	return fmt.Sprintf("H2Case %s %s %s %s %s %s", hk.CoqBool(o.Spec.Upload || o.Spec.Stalled), hk.CoqBool(realTimer(o.Kind)),
		coqLabels(o.Pre), coqLabels(o.RacyLab), coqLabels(inj), ob)
}

func recordRetry(r *hk.Run, o retryObs) {
	judgeRetry(r, o)
	r.Count("retry:" + o.Kind)
	r.Count("retry:call=" + o.Call)
	coq := ""
	if o.Harness == "" && o.Returned {
		coq = emitRetry(o)
	}
	r.Add(hk.Case{Coq: coq, Desc: map[string]interface{}{"kind": "retry", "obs": o}},
		fmt.Sprintf("retry|%s|%s", o.Spec.Name, o.Kind), true)
}

func emitRetry(o retryObs) string {
	e, ok := coqErr(o.Call)
	call := "(OErr " + e + ")"
	if !ok {
		if strings.HasPrefix(o.Call, "status:") {
			call = "OResp"
		} else {
			return ""
		}
	}
	max := "None"
	if o.Spec.Max >= 0 {
		max = "(Some " + hk.CoqNat(o.Spec.Max) + ")"
	}
	var ls []string
	for i := 0; i < o.Spec.Attempts; i++ {
		if i > 0 {
			ls = append(ls, "RSleepDone")
		}
		ls = append(ls, "RAttemptDone ARetryable")
	}
	if !o.Spec.InSleep && o.Spec.Attempts > 0 {
		ls = append(ls, "RSleepDone")
	}
	c := map[string]string{"cancel": "CCanceled", "deadline": "CDeadline"}[o.Kind]
	ls = append(ls, "RCancel "+c)
	return fmt.Sprintf("RetryCase %s %s %s %s %s", hk.CoqBool(o.Spec.Zero), max, coqLabels(ls), call, hk.CoqNat(int(o.SeenEnd)))
}

func judgeRetry(r *hk.Run, o retryObs) {
	where := fmt.Sprintf("retry:%s:%s", o.Spec.Name, o.Kind)
	fail := func(sig, what string) {
		r.Fail(hk.Failure{Sig: sig + ":" + where, What: what, Input: o})
	}
	if o.Harness != "" {
		fail("harness", "the scripted scenario could not be played: "+o.Harness)
		return
	}
	if !o.Returned {
		fail("hang", fmt.Sprintf("the call did not return within %v of the injection (it ended as %q after %d attempts)", returnBound, o.Call, o.SeenEnd))
	} else {
		want := map[string]string{"cancel": "cause:canceled", "deadline": "cause:deadline"}[o.Kind]
		if o.Call != want {
			fail("wrong-error", "the call did not fail with an error identifying the cancellation: "+o.Call+" "+o.CallErr)
		}
	}
	if o.SeenEnd > o.SeenAt {
		fail("retry-after-cancel", fmt.Sprintf("%d further attempt(s) reached the peer after the context had ended", o.SeenEnd-o.SeenAt))
	}
	if len(o.Leaked) > 0 {
		fail("leak", "library goroutines alive afterwards: "+strings.Join(o.Leaked, " | "))
	}
	if !o.FollowOK {
		fail("follow-up", "a follow-up request on the same client failed: "+o.FollowEr)
	}
}

func coqLabels(ls []string) string {
	o := make([]string, len(ls))
	for i, l := range ls {
		if strings.Contains(l, " ") {
			o[i] = "(" + l + ")"
		} else {
			o[i] = l
		}
	}
	return hk.CoqList(o)
}

func coqErr(class string) (string, bool) {
	switch class {
	case "cause:canceled":
		return "(ECause CCanceled)", true
	case "cause:deadline":
		return "(ECause CDeadline)", true
	case "cause:timeout":
		return "(ECause CTimeout)", true
	case "hdrtimeout":
		return "EHdrTimeout", true
	case "other":
		return "EOther", true
	}
	return "", false
}

// emitH1 turns an observation into a Coq case ("" when it cannot be expressed: reported by the oracle instead)
func emitH1(o obs) string {
	var call, body string
	if o.Kind == "client-timeout" {
		// net/http decides "Client.Timeout exceeded" by a flag set by its own timer goroutine, which
		// races the context deadline armed for the same instant: both texts mean the client timeout
		if o.Call == "cause:deadline" {
			o.Call = "cause:timeout"
		}
		if o.Body == "cause:deadline" {
			o.Body = "cause:timeout"
		}
	}
	if o.Call == "resp" {
		call = "OResp"
	} else if e, ok := coqErr(o.Call); ok {
		call = "(OErr " + e + ")"
	} else {
		return ""
	}
	switch o.Body {
	case "none":
		body = "ONone"
	case "eof":
		body = "OEof"
	default:
		if e, ok := coqErr(o.Body); ok {
			body = "(OBErr " + e + ")"
		} else {
			return ""
		}
	}
	sp := o.Spec
	cfg := fmt.Sprintf("(mkCfg1 %s %s %s)", hk.CoqBool(sp.Reuse), hk.CoqBool(sp.HdrTimeout || o.Kind == "hdr-timeout"), hk.CoqBool(!sp.Upload))
	var pre []string
	for _, g := range o.Pre {
		pre = append(pre, g...)
	}
	inj := []string{}
	if causeLabel(o.Kind) != "" {
		inj = []string{causeLabel(o.Kind)}
	}
	// the connection of a dial that never became a persistConn is not the exchange's connection (its
	// closing is judged by the oracle)
	connClosed := o.ConnClosed && !(sp.HSTimeout && len(o.Post) > 0 && o.Post[0] == "XDialDone false")
	ob := fmt.Sprintf("(mkObs1 %s %s %s %s %s %s)", call, body, hk.CoqBool(connClosed), hk.CoqNat(o.Idle),
		hk.CoqBool(o.ReqBody), hk.CoqBool(o.ReqBodyClosed))
	return fmt.Sprintf("H1Case %s %s %s %s %s %s %s %s", cfg, hk.CoqBool(sp.Auto), hk.CoqBool(realTimer(o.Kind)),
		coqLabels(pre), coqLabels(o.RacyLabels), coqLabels(inj), coqLabels(o.Post), ob)
}

// judge applies the property's oracle to one observation.
func judge(r *hk.Run, o obs) {
	where := fmt.Sprintf("%s:%s:%s:after=%s", o.Stack, o.Spec.Name, o.Kind, o.StepName)
	if o.Racy {
		where += ":racy"
	}
	fail := func(sig, what string) {
		r.Fail(hk.Failure{Sig: sig + ":" + where, What: what, Input: o})
	}
	if o.Harness != "" {
		fail("harness", "the scripted scenario could not be played: "+o.Harness)
		return
	}
	if !o.Returned {
		fail("hang", fmt.Sprintf("the call / pending body read did not return within %v of the injection", returnBound))
		return
	}
	if o.Spec.HSTimeout && o.Kind == "none" {
		// nobody ended the request: the handshake timeout must, with a timeout error
		if o.Call == "resp" || !o.CallTimeout {
			fail("no-handshake-timeout", "a TLS handshake that is never answered did not end the call with a timeout error: "+o.Call+" "+o.CallErr)
		}
	}
	inflight := !o.Complete && o.Kind != "none"
	// a real timer may fire before a slow run has played all steps: at the last position either the
	// exchange completed first or the timer hit it in flight - same judgement as a racy injection
	timerAtEnd := o.Complete && realTimer(o.Kind)
	if timerAtEnd {
		inflight = true
	}
	switch {
	case timerAtEnd:
		if o.Call != "resp" && !callIdentifies(o) {
			fail("wrong-error", "call failed with an error that does not identify the cancellation/timeout: "+o.CallErr)
		}
		if o.Call == "resp" && o.Body != "none" && o.Body != "eof" && !bodyIdentifies(o) {
			fail("wrong-error", "body read failed with an error that does not identify the cancellation/timeout: "+o.BodyErr)
		}
	case inflight && !o.Racy:
		// the pending operation must fail with an error identifying the cancellation/timeout
		if o.Call == "resp" {
			if o.Body == "none" || o.Body == "eof" {
				fail("no-error", "the injection hit a request in flight but the call and the body read succeeded")
			} else if !bodyIdentifies(o) {
				fail("wrong-error", "pending body read failed with an error that does not identify the cancellation/timeout: "+o.BodyErr)
			}
		} else if !callIdentifies(o) && !o.PeerFailed {
			// (after a reset by the peer the call may report that failure: what counts then is that it returns)
			fail("wrong-error", "call failed with an error that does not identify the cancellation/timeout: "+o.CallErr)
		}
	case inflight && o.Racy:
		// either the event or the injection may win; an error must still identify the injection
		if o.Call != "resp" && !callIdentifies(o) {
			fail("wrong-error", "call failed with an error that does not identify the cancellation/timeout: "+o.CallErr)
		}
		if o.Call == "resp" && o.Body != "none" && o.Body != "eof" && !bodyIdentifies(o) {
			fail("wrong-error", "body read failed with an error that does not identify the cancellation/timeout: "+o.BodyErr)
		}
	case o.Spec.HSTimeout:
	default:
		if o.Call != "resp" || (o.Body != "eof" && o.Body != "none") {
			fail("spurious-error", "the exchange had completed (or nothing was injected) but an error was reported: "+o.CallErr+o.BodyErr)
		}
	}
	if o.Spec.HSTimeout && o.Pos >= 2 && !o.ConnClosed {
		fail("dial-never-ends", "the connection whose TLS handshake was never answered was still open long after TLSHandshakeTimeout: the detached dial did not end")
	}
	if o.Body == "short" {
		fail("short-body", "the body ended early without an error: "+o.BodyErr)
	}
	if !o.Quiesced {
		fail("still-running", "library goroutines outside idle pooled connections were still alive after the settle period: "+strings.Join(o.Stuck, " | "))
	}
	if len(o.Leaked) > 0 {
		fail("leak", "library goroutines alive after CloseIdleConnections and closing every peer connection: "+strings.Join(o.Leaked, " | "))
	}
	if o.ReqBody && !o.ReqBodyClosed {
		fail("body-not-closed", "the request body was never closed")
	}
	if o.ReaderStuck {
		fail("upload-goroutine-stuck", "after everything had settled a goroutine of the library was still parked inside the request body's Read (the body was not closed, or nobody was left to notice)")
	}
	if o.ReadsAfter > 0 {
		fail("upload-continues", fmt.Sprintf("%d Read calls on the request body after the call had returned", o.ReadsAfter))
	}
	if !o.FollowOK {
		fail("follow-up", "a follow-up request on the same client failed: "+o.FollowErr)
	}
}

func callIdentifies(o obs) bool {
	switch o.Kind {
	case "cancel":
		return o.Call == "cause:canceled"
	case "deadline", "deadline-timer":
		return o.Call == "cause:deadline"
	default:
		return o.Call == "cause:timeout" || o.Call == "hdrtimeout" || o.Call == "cause:deadline"
	}
}

func bodyIdentifies(o obs) bool {
	switch o.Kind {
	case "cancel":
		return o.Body == "cause:canceled"
	case "deadline", "deadline-timer":
		return o.Body == "cause:deadline"
	default:
		return o.Body == "cause:timeout" || o.Body == "hdrtimeout" || o.Body == "cause:deadline"
	}
}

func record(r *hk.Run, o obs) {
	judge(r, o)
	r.Count(o.Stack + ":" + o.Kind)
	r.Count(o.Stack + ":scenario:" + o.Spec.Name)
	r.Count(o.Stack + ":call=" + o.Call + ",body=" + o.Body)
	key := fmt.Sprintf("%s|%s|%s|%d|%v", o.Stack, o.Spec.Name, o.Kind, o.Pos, o.Racy)
	nontrivial := o.Pos > 0 && !o.Complete && o.Kind != "none"
	coq := ""
	if o.Harness == "" && o.Returned {
		coq = emitH1(o)
	}
	r.Add(hk.Case{Coq: coq, Desc: map[string]interface{}{"kind": o.Stack, "obs": o}}, key, nontrivial)
}

func recordH3(r *hk.Run, o h3obs) {
	if o.Spec.BadHost {
		// SendRequestHeader fails (the step a cancellation hits in the window between opening the
		// stream and writing the header): the call must fail and the request body must be closed
		where := "h3:" + o.Spec.Name
		if o.Harness != "" {
			r.Fail(hk.Failure{Sig: "harness:" + where, What: o.Harness, Input: o})
		} else {
			if o.Call == "resp" {
				r.Fail(hk.Failure{Sig: "no-error:" + where, What: "a request whose header cannot be written succeeded", Input: o})
			}
			if !o.ReqBodyClosed {
				r.Fail(hk.Failure{Sig: "body-not-closed:" + where, What: "the request body was never closed after SendRequestHeader failed", Input: o})
			}
			if len(o.Leaked) > 0 || !o.Quiesced {
				r.Fail(hk.Failure{Sig: "leak:" + where, What: "library goroutines left: " + strings.Join(append(o.Stuck, o.Leaked...), " | "), Input: o})
			}
		}
		r.Count("h3:send-header-fails")
		r.Add(hk.Case{Desc: map[string]interface{}{"kind": "h3", "obs": o}}, "h3|badhost", true)
		return
	}
	judge(r, obs{Stack: "h3", Spec: h1spec{Name: o.Spec.Name}, Kind: o.Kind, StepName: o.StepName, Racy: o.Racy,
		Call: o.Call, CallErr: o.CallErr, Body: o.Body, BodyErr: o.BodyErr, Returned: o.Returned, Quiesced: o.Quiesced,
		Stuck: o.Stuck, Leaked: o.Leaked, ReqBody: o.ReqBody, ReqBodyClosed: o.ReqBodyClosed, ReadsAfter: o.ReadsAfter,
		FollowOK: o.FollowOK, FollowErr: o.FollowErr, Complete: o.Complete, Harness: o.Harness})
	if o.Harness == "" && o.Returned && o.Arrived && !o.Complete && !o.Racy && o.Kind != "none" && !realTimer(o.Kind) && !o.PeerSawCancel && !o.Spec.EarlyRsp {
		r.Fail(hk.Failure{Sig: fmt.Sprintf("peer-not-told:h3:%s:%s:after=%s", o.Spec.Name, o.Kind, o.StepName),
			What: "the request stream was not cancelled towards the peer (no STOP_SENDING / RESET_STREAM): the handler kept running", Input: o})
	}
	if o.Harness == "" && o.Returned && o.Spec.Limit && o.Pos <= 1 && !o.Racy && o.Kind != "none" && !realTimer(o.Kind) && o.Arrived {
		r.Fail(hk.Failure{Sig: fmt.Sprintf("sent-after-cancel:h3:%s:%s:after=%s", o.Spec.Name, o.Kind, o.StepName),
			What: "the request, whose context had ended while it waited for a request stream, was sent once a stream became free", Input: o})
	}
	if o.Harness == "" && o.Returned && o.LatePackets > 1 {
		r.Fail(hk.Failure{Sig: fmt.Sprintf("dial-goes-on:h3:%s:%s:after=%s", o.Spec.Name, o.Kind, o.StepName),
			What: fmt.Sprintf("the call had returned, yet %d more handshake datagrams were sent between 0.3 s and 1.5 s later: the dial started for the request goes on without it", o.LatePackets), Input: o})
	}
	r.Count("h3:" + o.Kind)
	r.Count("h3:scenario:" + o.Spec.Name)
	r.Count(fmt.Sprintf("h3:call=%s,body=%s", o.Call, o.Body))
	key := fmt.Sprintf("h3|%s|%s|%d|%v", o.Spec.Name, o.Kind, o.Pos, o.Racy)
	coq := ""
	if o.Harness == "" && o.Returned {
		coq = emitH3(o)
	}
	r.Add(hk.Case{Coq: coq, Desc: map[string]interface{}{"kind": "h3", "obs": o}}, key, o.Pos > 0 && !o.Complete && o.Kind != "none")
}

func emitH3(o h3obs) string {
	if o.Kind == "client-timeout" {
		if o.Call == "cause:deadline" {
			o.Call = "cause:timeout"
		}
		if o.Body == "cause:deadline" {
			o.Body = "cause:timeout"
		}
	}
	var call, body string
	if o.Call == "resp" {
		call = "OResp"
	} else if e, ok := coqErr(o.Call); ok {
		call = "(OErr " + e + ")"
	} else {
		return ""
	}
	switch o.Body {
	case "none":
		body = "ONone"
	case "eof":
		body = "OEof"
	default:
		if e, ok := coqErr(o.Body); ok {
			body = "(OBErr " + e + ")"
		} else {
			return ""
		}
	}
	told := "None"
	// whether the handler saw the cancellation is only meaningful while it was still running
	if o.Arrived && !o.Complete && !o.Racy && !realTimer(o.Kind) && o.Kind != "none" && !o.Spec.EarlyRsp {
		told = "(Some " + hk.CoqBool(o.PeerSawCancel) + ")"
	}
	inj := []string{}
	if cause3(o.Kind) != "" {
		inj = []string{cause3(o.Kind)}
	}
	ob := fmt.Sprintf("(mkObs3 %s %s %s %s %s %s)", call, body, told, hk.CoqBool(o.ReqBody), hk.CoqBool(o.ReqBodyClosed), hk.CoqBool(o.FollowOK))
	return fmt.Sprintf("H3Case (mkCfg3 %s %s %s) %s %s %s %s %s", hk.CoqBool(o.Spec.Reuse), hk.CoqBool(o.Spec.Upload), hk.CoqBool(o.Spec.Limit), hk.CoqBool(realTimer(o.Kind)),
		coqLabels(o.Pre), coqLabels(o.RacyLab), coqLabels(inj), ob)
}

// ---------- bystanders ----------

func recordQueue(r *hk.Run, o queueObs) {
	where := "queue:" + o.Spec.Name + ":" + o.Spec.Kind
	fail := func(sig, what string) { r.Fail(hk.Failure{Sig: sig + ":" + where, What: what, Input: o}) }
	if o.Harness != "" {
		fail("harness", "the scripted scenario could not be played: "+o.Harness)
	} else {
		want := map[string]string{"cancel": "cause:canceled", "deadline": "cause:deadline"}[o.Spec.Kind]
		cancelled := map[int]bool{}
		for _, i := range o.Spec.Cancel {
			cancelled[i] = true
			if o.Results[i] != want {
				fail("wrong-error", fmt.Sprintf("waiter %d, whose context ended while it was queued, ended as %q", i, o.Results[i]))
			}
		}
		if len(o.Stranded) > 0 {
			fail("stranded", fmt.Sprintf("live waiters %v were not served although the only connection had become idle (a waiter whose context ended sat in front of them)", o.Stranded))
		}
		// first come first served among the live ones
		var live []int
		for i := 0; i < o.Spec.Waiters; i++ {
			late := false
			for _, l := range o.Spec.Late {
				late = late || l == i
			}
			if !cancelled[i] && !late {
				live = append(live, i)
			}
		}
		for _, l := range o.Spec.Late {
			live = append(live, l)
		}
		if len(o.Stranded) == 0 && fmt.Sprint(live) != fmt.Sprint(o.Served) {
			fail("order", fmt.Sprintf("live waiters were served in the order %v, queued in the order %v", o.Served, live))
		}
		for _, i := range o.Served {
			if o.Results[i] != "nil" {
				fail("bystander-failed", fmt.Sprintf("waiter %d was served but ended as %q", i, o.Results[i]))
			}
		}
		if len(o.Leaked) > 0 {
			fail("leak", "library goroutines alive afterwards: "+strings.Join(o.Leaked, " | "))
		}
		if !o.FollowOK {
			fail("follow-up", "a follow-up request on the same client failed: "+o.FollowEr)
		}
	}
	r.Count("queue:" + o.Spec.Kind)
	coq := ""
	if o.Harness == "" {
		served := make([]string, len(o.Served))
		for i, v := range o.Served {
			served[i] = hk.CoqNat(v)
		}
		coq = fmt.Sprintf("QueueCase %s %s %s", coqLabels(o.Events), hk.CoqList(served), hk.CoqNat(o.Idle))
	}
	r.Add(hk.Case{Coq: coq, Desc: map[string]interface{}{"kind": "queue", "obs": o}}, "queue|"+o.Spec.Name+"|"+o.Spec.Kind, len(o.Spec.Cancel) > 0)
}

func recordWindow(r *hk.Run, o windowObs) {
	where := "window:" + o.Spec.Name + ":" + o.Spec.Kind
	fail := func(sig, what string) { r.Fail(hk.Failure{Sig: sig + ":" + where, What: what, Input: o}) }
	if o.Harness != "" {
		fail("harness", "the scripted scenario could not be played: "+o.Harness)
	} else {
		want := map[string]string{"cancel": "cause:canceled", "deadline": "cause:deadline"}[o.Spec.Kind]
		for i, res := range o.Results {
			if res != want {
				fail("wrong-error", fmt.Sprintf("cancelled download %d: the pending body read ended as %q", i, res))
			}
		}
		for i, c := range o.Rst {
			if c != 8 {
				fail("no-rst", fmt.Sprintf("cancelled download %d: no RST_STREAM(CANCEL) (code %d)", i, c))
			}
		}
		if o.ConnGone {
			fail("conn-closed", "the shared connection was closed")
		}
		if o.PeerStuck || !o.FollowOK {
			total := 0
			for _, n := range o.StrayPut {
				total += n
			}
			fail("window-lost", fmt.Sprintf("after the cancelled downloads (%d bytes of DATA arrived for streams already reset, %d bytes of connection credit handed back, window %d) a download of %d bytes on the same connection did not complete: %s",
				total, o.Credited, o.Window, o.Spec.Follow, o.FollowEr))
		}
		if len(o.Leaked) > 0 {
			fail("leak", "library goroutines alive afterwards: "+strings.Join(o.Leaked, " | "))
		}
	}
	r.Count("window:" + o.Spec.Kind)
	coq := ""
	if o.Harness == "" && !o.PeerStuck {
		var fr []string
		for _, n := range o.StrayPut {
			fr = append(fr, hk.CoqZ(int64(n)))
		}
		coq = fmt.Sprintf("WindowCase %s %s %s", hk.CoqZ(o.Window), hk.CoqList(fr), hk.CoqZ(o.Credited))
	}
	r.Add(hk.Case{Coq: coq, Desc: map[string]interface{}{"kind": "window", "obs": o}}, "window|"+o.Spec.Name, len(o.StrayPut) > 0)
}

func recordShare(r *hk.Run, o shareObs) {
	where := "share:" + o.Spec.Name
	fail := func(sig, what string) { r.Fail(hk.Failure{Sig: sig + ":" + where, What: what, Input: o}) }
	if o.Harness != "" {
		fail("harness", "the scripted scenario could not be played: "+o.Harness)
	} else {
		want := map[string]string{"cancel": "cause:canceled", "deadline": "cause:deadline", "deadline-timer": "cause:deadline"}[o.Spec.Kind]
		if o.Spec.EndB {
			if o.B == "hang" {
				fail("hang", fmt.Sprintf("a request waiting for a connection that another request is dialling did not return within %v of the end of its own context", returnBound))
			} else if o.B != want {
				fail("wrong-error", "the request whose context ended while it waited for another request's dial ended as "+o.B+" "+o.BErr)
			}
			if o.A != "nil" {
				fail("bystander-failed", "the request that owned the dial ended as "+o.A+" "+o.AErr)
			}
		} else if o.A != want {
			fail("wrong-error", "the request whose context ended during the dial ended as "+o.A+" "+o.AErr)
		}
		if !o.Spec.EndB && o.B != "nil" {
			fail("bystander-failed", fmt.Sprintf("a second request that had joined the pending dial, with a context of its own that was alive, ended as %s: %s", o.B, o.BErr))
		}
		if len(o.Leaked) > 0 {
			fail("leak", "library goroutines alive afterwards: "+strings.Join(o.Leaked, " | "))
		}
	}
	r.Count("share:" + o.Spec.Stack + ":" + o.Spec.Kind)
	coq := ""
	if o.Harness == "" && o.Joined && !o.Spec.EndB {
		c := map[string]string{"cancel": "CCanceled", "deadline": "CDeadline", "deadline-timer": "CDeadline"}[o.Spec.Kind]
		coq = fmt.Sprintf("ShareCase %s %s", c, hk.CoqBool(o.B == "nil"))
	}
	r.Add(hk.Case{Coq: coq, Desc: map[string]interface{}{"kind": "share", "obs": o}}, "share|"+o.Spec.Name, true)
}

func recordBackoff(r *hk.Run, o backoffObs) {
	where := "backoff:" + o.Spec.Name + ":" + o.Spec.Kind
	fail := func(sig, what string) { r.Fail(hk.Failure{Sig: sig + ":" + where, What: what, Input: o}) }
	if o.Harness != "" {
		fail("harness", "the scripted scenario could not be played: "+o.Harness)
	} else {
		if !o.Returned {
			fail("hang", fmt.Sprintf("the context ended while the HTTP/2 transport slept %.0f s before re-sending a refused request: the call did not return within %d ms (it ended as %q after %d ms or later)", o.Sleep, o.BoundMs, o.Call, o.ReturnMs))
		}
		want := map[string]string{"cancel": "cause:canceled", "deadline": "cause:deadline"}[o.Spec.Kind]
		if o.Returned && o.Call != want {
			fail("wrong-error", "the call did not fail with an error identifying the cancellation: "+o.Call+" "+o.CallErr)
		}
		if o.SeenEnd > o.SeenAt {
			fail("retry-after-cancel", fmt.Sprintf("%d further attempt(s) reached the peer after the context had ended", o.SeenEnd-o.SeenAt))
		}
		if len(o.Leaked) > 0 {
			fail("leak", "library goroutines alive afterwards: "+strings.Join(o.Leaked, " | "))
		}
		if !o.FollowOK {
			fail("follow-up", "a follow-up request on the same client failed: "+o.FollowEr)
		}
	}
	r.Count("backoff:" + o.Spec.Kind)
	coq := ""
	if o.Harness == "" && o.Returned {
		if e, ok := coqErr(o.Call); ok {
			c := map[string]string{"cancel": "CCanceled", "deadline": "CDeadline"}[o.Spec.Kind]
			coq = fmt.Sprintf("BackoffCase %s (OErr %s) %s", coqLabels(append(append([]string{}, o.Events...), "TCancel "+c)), e, hk.CoqNat(o.SeenEnd))
		}
	}
	r.Add(hk.Case{Coq: coq, Desc: map[string]interface{}{"kind": "backoff", "obs": o}}, "backoff|"+o.Spec.Name+"|"+o.Spec.Kind, true)
}

func recordTLSStall(r *hk.Run, o tlsStallObs) {
	where := "tlsstall:" + o.Spec.Name + ":" + o.Spec.Kind
	fail := func(sig, what string) { r.Fail(hk.Failure{Sig: sig + ":" + where, What: what, Input: o}) }
	if o.Harness != "" {
		fail("harness", "the scripted scenario could not be played: "+o.Harness)
	} else {
		want := map[string]string{"cancel": "cause:canceled", "deadline": "cause:deadline"}[o.Spec.Kind]
		if !o.Returned {
			fail("hang", fmt.Sprintf("the context ended during a TLS handshake the peer never answers: the call did not return within %v (it ended as %q after %d ms or later)", 2*timerDelay, o.Call, o.ReturnMs))
		}
		if o.Call != want {
			fail("wrong-error", "the call did not fail with an error identifying the cancellation: "+o.Call+" "+o.CallErr)
		}
		if !o.ConnClosed {
			fail("dial-never-ends", "the connection whose handshake was never answered was still open long after the context ended and TLSHandshakeTimeout passed")
		}
		if !o.Quiesced {
			fail("still-running", "library goroutines still alive: "+strings.Join(o.Stuck, " | "))
		}
		if len(o.Leaked) > 0 {
			fail("leak", "library goroutines alive afterwards: "+strings.Join(o.Leaked, " | "))
		}
		if !o.FollowOK {
			fail("follow-up", "a follow-up request on the same client (MaxConnsPerHost 1) failed: "+o.FollowEr)
		}
	}
	r.Count("tlsstall:" + o.Spec.Name)
	coq := ""
	if o.Harness == "" && o.Returned {
		if e, ok := coqErr(o.Call); ok {
			c := map[string]string{"cancel": "CCanceled", "deadline": "CDeadline"}[o.Spec.Kind]
			if o.Spec.ForceH2 {
				// the request waits for the pool's dial: no stream exists yet
				coq = fmt.Sprintf("H2Case false false [] [] [(YCancel %s)] (mkObs2 (OErr %s) ONone None false false)", c, e)
			} else {
				// the HTTP/1.1 dial is detached; its handshake timeout ends it afterwards
				coq = fmt.Sprintf("H1Case (mkCfg1 false false true) false false [] [] [(XCancel %s)] [(XDialDone false)] (mkObs1 (OErr %s) ONone false 0%%nat false false)", c, e)
			}
		}
	}
	r.Add(hk.Case{Coq: coq, Desc: map[string]interface{}{"kind": "tlsstall", "obs": o}}, "tlsstall|"+o.Spec.Name+"|"+o.Spec.Kind, true)
}

func recordHpack(r *hk.Run, o hpackObs) {
	where := "hpack:" + o.Spec.Name + ":" + o.Spec.Kind
	fail := func(sig, what string) { r.Fail(hk.Failure{Sig: sig + ":" + where, What: what, Input: o}) }
	if o.Harness != "" {
		fail("harness", "the scripted scenario could not be played: "+o.Harness)
	} else {
		want := map[string]string{"cancel": "cause:canceled", "deadline": "cause:deadline"}[o.Spec.Kind]
		if o.B != want {
			fail("wrong-error", "the request whose context ended while its headers were being written ended as "+o.B)
		}
		if o.HpackErr != "" {
			fail("hpack-desync", "a later request's header block did not decode at the peer (COMPRESSION_ERROR at a real server): the cancelled request was fed to the connection's HPACK encoder but its HEADERS were never sent: "+o.HpackErr)
		}
		if !o.FollowOK {
			fail("follow-up", "a request on the same connection after the cancelled one failed: "+o.FollowEr)
		} else if o.FollowHd != "alpha-alpha-alpha" {
			fail("hpack-desync", fmt.Sprintf("a later request's indexed header field decoded as %q at the peer", o.FollowHd))
		}
		// (the peer answers the cancelled request at once when its HEADERS do arrive: the stream may be
		// closed on both sides before the cancellation is processed, so no RST_STREAM is owed here)
		if len(o.Leaked) > 0 {
			fail("leak", "library goroutines alive afterwards: "+strings.Join(o.Leaked, " | "))
		}
	}
	r.Count("hpack:" + o.Spec.Kind)
	coq := ""
	if o.Harness == "" {
		dec := make([]string, len(o.Decoded))
		for i, v := range o.Decoded {
			dec[i] = hk.CoqNat(v)
		}
		coq = fmt.Sprintf("HpackCase %s %s %s", coqLabels(o.Events), hk.CoqList(dec), hk.CoqBool(o.HpackErr == ""))
	}
	r.Add(hk.Case{Coq: coq, Desc: map[string]interface{}{"kind": "hpack", "obs": o}}, "hpack|"+o.Spec.Name+"|"+o.Spec.Kind, true)
}

func recordRewind(r *hk.Run, o rewindObs) {
	where := "rewind:" + o.Spec.Name + ":" + o.Spec.Kind
	fail := func(sig, what string) { r.Fail(hk.Failure{Sig: sig + ":" + where, What: what, Input: o}) }
	if o.Harness != "" {
		fail("harness", "the scripted scenario could not be played: "+o.Harness)
	} else {
		want := map[string]string{"cancel": "cause:canceled", "deadline": "cause:deadline"}[o.Spec.Kind]
		if !o.Returned {
			fail("hang", "the call did not return after the context had ended inside GetBody")
		}
		if o.Call != want {
			fail("wrong-error", "the call did not fail with an error identifying the cancellation: "+o.Call+" "+o.CallErr)
		}
		if o.Closed < o.Bodies {
			fail("body-not-closed", fmt.Sprintf("%d of the %d request bodies GetBody handed out were never closed (the one obtained for the transport's retry after the peer dropped the re-used connection)", o.Bodies-o.Closed, o.Bodies))
		}
		if o.Attempts > 1 {
			fail("retry-after-cancel", fmt.Sprintf("the request reached the peer %d times although its context had ended before the retry", o.Attempts))
		}
		if len(o.Leaked) > 0 {
			fail("leak", "library goroutines alive afterwards: "+strings.Join(o.Leaked, " | "))
		}
		if !o.FollowOK {
			fail("follow-up", "a follow-up request on the same client failed: "+o.FollowEr)
		}
	}
	r.Count("rewind:" + o.Spec.Kind)
	coq := ""
	if o.Harness == "" && o.Returned {
		if e, ok := coqErr(o.Call); ok {
			c := map[string]string{"cancel": "CCanceled", "deadline": "CDeadline"}[o.Spec.Kind]
			closed := hk.CoqBool(o.Closed == o.Bodies)
			if o.Spec.AtCall >= 2 {
				// the context ends between the failure of the attempt and the retry
				// (a context that is not one of the standard library's propagates its end to the transport's
				// derived context asynchronously: the retry may have started its detached dial before the
				// end was seen - that connection then sits in the idle pool)
				post := "[]"
				if o.Idle == 1 {
					post = "[(XDialDone true)]"
				}
				coq = fmt.Sprintf("H1Case (mkCfg1 true false true) false false [XWrote] [XPeerClose] [(XCancel %s)] %s (mkObs1 (OErr %s) ONone false %s true %s)", c, post, e, hk.CoqNat(o.Idle), closed)
			} else {
				coq = fmt.Sprintf("H1Case (mkCfg1 true false true) false false [] [] [(XCancel %s)] [] (mkObs1 (OErr %s) ONone false %s true %s)", c, e, hk.CoqNat(o.Idle), closed)
			}
		}
	}
	r.Add(hk.Case{Coq: coq, Desc: map[string]interface{}{"kind": "rewind", "obs": o}}, "rewind|"+o.Spec.Name+"|"+o.Spec.Kind, true)
}
