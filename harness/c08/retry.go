package main

// Retry layer (Request.do): the peer answers 500 to every attempt, the client is configured to
// retry on 500 with a fixed interval.  Injection points: during the sleep between attempts
// (long interval: an uninterruptible sleep cannot return within the bound) and while attempt
// k is waiting for its response (short interval).

import (
	"context"
	"errors"
	"fmt"
	"sync/atomic"
	"time"

	req "github.com/imroc/req/v3"
)

type retrySpec struct {
	Name     string `json:"name"`
	Max      int    `json:"max_retries"` // -1: unlimited
	LongWait bool   `json:"long_interval"`
	Zero     bool   `json:"zero_interval,omitempty"`   // no wait between attempts: only the stop test after the round trip ends the loop
	Attempts int    `json:"attempts_before_injection"` // complete 500 exchanges before the injection
	InSleep  bool   `json:"in_sleep"`                  // inject during the sleep after the last of them, else while the next attempt waits for its response
}

type retryObs struct {
	Stack    string    `json:"stack"`
	Spec     retrySpec `json:"spec"`
	Kind     string    `json:"kind"`
	Call     string    `json:"call"`
	CallErr  string    `json:"call_err,omitempty"`
	Returned bool      `json:"returned"`
	ReturnMs int64     `json:"return_ms"`
	SeenAt   int64     `json:"attempts_seen_at_injection"`
	SeenEnd  int64     `json:"attempts_seen_at_end"`
	Hooks    int64     `json:"retry_hooks"`
	Leaked   []string  `json:"leaked,omitempty"`
	FollowOK bool      `json:"follow_ok"`
	FollowEr string    `json:"follow_err,omitempty"`
	Harness  string    `json:"harness_problem,omitempty"`
}

const longInterval = 9 * time.Second // > returnBound: an uninterruptible sleep is caught
const shortInterval = 5 * time.Millisecond

func runRetry(sp retrySpec, kind string) (o retryObs) {
	o = retryObs{Stack: "retry", Spec: sp, Kind: kind, Call: "pending"}
	defer func() {
		if p := recover(); p != nil {
			o.Harness = fmt.Sprint("panic: ", p)
		}
	}()
	peer, err := newH1Peer(false)
	if err != nil {
		o.Harness = err.Error()
		return
	}
	defer peer.closeAll()
	dl := newDialer(peer.ln.Addr().String())
	dl.setOpen(true)
	var hooks atomic.Int64
	hooked := make(chan struct{}, 64)
	iv := shortInterval
	if sp.LongWait {
		iv = longInterval
	}
	if sp.Zero {
		iv = 0
	}
	c := req.C().DisableAutoDecode().EnableForceHTTP1().SetDial(dl.dial).SetTimeout(0)
	var ctx context.Context
	var inject func()
	switch kind {
	case "cancel":
		cctx, cancel := context.WithCancel(context.Background())
		ctx, inject = cctx, cancel
	default:
		m := newManualCtx()
		ctx, inject = m, m.fire
	}
	rq := c.R().SetContext(ctx).SetRetryCount(sp.Max).SetRetryFixedInterval(iv).
		SetRetryCondition(func(resp *req.Response, err error) bool {
			return err != nil || resp.StatusCode == 500
		}).
		SetRetryHook(func(resp *req.Response, err error) {
			hooks.Add(1)
			hooked <- struct{}{}
		})
	done := make(chan struct{})
	var cerr error
	var cresp *req.Response
	go func() {
		defer close(done)
		cresp, cerr = rq.Get("http://c08.test/retry")
	}()

	// the peer: one connection (keep-alive), scripted 500s
	var pc *pconn
	select {
	case pc = <-peer.accepted:
	case <-time.After(stepWait):
		o.Harness = "no connection arrived"
		return
	}
	if err := pc.start(peer); err != nil {
		o.Harness = err.Error()
		return
	}
	var seen atomic.Int64
	serve500 := func() error {
		if _, err := pc.readHead(); err != nil {
			return err
		}
		seen.Add(1)
		return pc.write([]byte("HTTP/1.1 500 Internal Server Error\r\nContent-Length: 4\r\n\r\nnope"))
	}
	for i := 0; i < sp.Attempts; i++ {
		if err := serve500(); err != nil {
			o.Harness = fmt.Sprintf("attempt %d: %v", i+1, err)
			return
		}
		select {
		case <-hooked:
		case <-time.After(stepWait):
			o.Harness = fmt.Sprintf("no retry hook after attempt %d", i+1)
			return
		}
	}
	if !sp.InSleep {
		if _, err := pc.readHead(); err != nil {
			o.Harness = "next attempt did not arrive: " + err.Error()
			return
		}
		seen.Add(1)
	} else {
		time.Sleep(20 * time.Millisecond) // the hook runs just before the sleep starts
	}
	o.SeenAt = seen.Load()
	t0 := time.Now()
	inject()
	select {
	case <-done:
		o.Returned = true
	case <-time.After(returnBound):
	}
	o.ReturnMs = time.Since(t0).Milliseconds()
	// whatever arrives from now on is a further attempt
	extra := make(chan struct{})
	go func() {
		defer close(extra)
		for {
			if _, err := pc.readHead(); err != nil {
				return
			}
			seen.Add(1)
			if pc.write([]byte("HTTP/1.1 500 Internal Server Error\r\nContent-Length: 4\r\n\r\nnope")) != nil {
				return
			}
		}
	}()
	go func() {
		for p2 := range peer.accepted {
			go func(p2 *pconn) {
				if p2.start(peer) != nil {
					return
				}
				for {
					if _, err := p2.readHead(); err != nil {
						return
					}
					seen.Add(1)
					if p2.write([]byte("HTTP/1.1 500 Internal Server Error\r\nContent-Length: 4\r\n\r\nnope")) != nil {
						return
					}
				}
			}(p2)
		}
	}()
	if !o.Returned {
		// give an uninterruptible sleep / a bounded retry loop the time to end, so that the census below is meaningful
		select {
		case <-done:
		case <-time.After(3 * longInterval):
		}
	}
	select {
	case <-done:
		if cerr != nil {
			o.Call, o.CallErr = classify(cerr), trunc(cerr.Error(), 200)
		} else if cresp != nil {
			o.Call = fmt.Sprintf("status:%d", cresp.StatusCode)
		}
	default:
		o.Call = "never-returned"
	}
	time.Sleep(50 * time.Millisecond)
	o.SeenEnd = seen.Load()
	o.Hooks = hooks.Load()
	// follow-up: same client, no retry, served by a fresh auto peer connection
	peer.autoAll.Store(true)
	pc.c.Close()
	<-extra
	fctx, fcancel := context.WithTimeout(context.Background(), 20*time.Second)
	resp, ferr := c.R().SetContext(fctx).Get("http://c08.test/x")
	fcancel()
	switch {
	case ferr != nil:
		o.FollowEr = trunc(ferr.Error(), 200)
	case resp.String() != "follow-up":
		o.FollowEr = "unexpected follow-up response " + trunc(resp.String(), 40)
	default:
		o.FollowOK = true
	}
	c.GetTransport().CloseIdleConnections()
	peer.closeAll()
	var left []string
	settle(func() bool { left = libGoroutines(); return len(left) == 0 })
	for _, g := range left {
		o.Leaked = append(o.Leaked, topFrames(g))
	}
	_ = errors.New
	return
}
