package main

// HTTP/1.1: a raw TCP stepping peer.  Every scenario is a list of steps; a step makes the peer
// (or the caller of the body) do one thing and waits until its effect is observable.  The
// injection happens after step i, while the peer does nothing, for every i.

import (
	"bufio"
	"bytes"
	"context"
	"crypto/tls"
	"errors"
	"fmt"
	"io"
	"net"
	"strings"
	"sync"
	"sync/atomic"
	"time"

	req "github.com/imroc/req/v3"
	"github.com/imroc/req/v3/internal/testcert"
)

// ---------- peer ----------

type pconn struct {
	id     int
	c      net.Conn
	br     *bufio.Reader
	nbody  atomic.Int64  // raw bytes received after the current request head
	gone   chan struct{} // closed when a read failed: the client closed / reset the connection
	reqs   atomic.Int64  // request heads seen
	hsGate chan struct{}
	taken  atomic.Bool
	self   atomic.Bool // the peer itself closed this connection
	stall  atomic.Bool // never answer the TLS handshake
}

type h1peer struct {
	ln       net.Listener
	tlsCfg   *tls.Config
	accepted chan *pconn
	mu       sync.Mutex
	conns    []*pconn
	autoAll  atomic.Bool // epilogue / warm-up: serve every connection automatically
	stallHS  atomic.Bool // TLS: hold the handshake until hsGate closes
}

func newH1Peer(useTLS bool) (*h1peer, error) {
	ln, err := net.Listen("tcp", "127.0.0.1:0")
	if err != nil {
		return nil, err
	}
	p := &h1peer{ln: ln, accepted: make(chan *pconn, 64)}
	if useTLS {
		cert, err := tls.X509KeyPair(testcert.LocalhostCert, testcert.LocalhostKey)
		if err != nil {
			return nil, err
		}
		p.tlsCfg = &tls.Config{Certificates: []tls.Certificate{cert}, NextProtos: []string{"http/1.1"}}
	}
	go p.acceptLoop()
	return p, nil
}

func (p *h1peer) acceptLoop() {
	for {
		c, err := p.ln.Accept()
		if err != nil {
			return
		}
		p.mu.Lock()
		pc := &pconn{id: len(p.conns) + 1, c: c, gone: make(chan struct{}), hsGate: make(chan struct{})}
		p.conns = append(p.conns, pc)
		auto := p.autoAll.Load()
		if auto || !p.stallHS.Load() {
			close(pc.hsGate)
		}
		p.mu.Unlock()
		if auto {
			go pc.takeover(p)
		} else {
			p.accepted <- pc
		}
	}
}

func (p *h1peer) nconns() int {
	p.mu.Lock()
	defer p.mu.Unlock()
	return len(p.conns)
}

func (pc *pconn) openHS() {
	select {
	case <-pc.hsGate:
	default:
		close(pc.hsGate)
	}
}

// handshake (TLS only) and reader set-up
func (pc *pconn) start(p *h1peer) error {
	if p.tlsCfg != nil {
		<-pc.hsGate
		tc := tls.Server(pc.c, p.tlsCfg)
		pc.c.SetDeadline(time.Now().Add(stepWait))
		if err := tc.Handshake(); err != nil {
			return err
		}
		pc.c.SetDeadline(time.Time{})
		pc.c = tc
	}
	pc.br = bufio.NewReaderSize(pc.c, 64<<10)
	return nil
}

func (pc *pconn) readHead() (string, error) {
	var sb strings.Builder
	pc.c.SetReadDeadline(time.Now().Add(stepWait))
	defer pc.c.SetReadDeadline(time.Time{})
	for {
		l, err := pc.br.ReadString('\n')
		sb.WriteString(l)
		if err != nil {
			return sb.String(), err
		}
		if l == "\r\n" {
			pc.reqs.Add(1)
			pc.nbody.Store(0)
			return sb.String(), nil
		}
	}
}

// readBody consumes raw body bytes until total >= n (n < 0: until the chunked terminator)
func (pc *pconn) readBody(n int64) error {
	pc.c.SetReadDeadline(time.Now().Add(stepWait))
	defer pc.c.SetReadDeadline(time.Time{})
	buf := make([]byte, 64<<10)
	var tail []byte
	for n < 0 || pc.nbody.Load() < n {
		want := len(buf)
		if n >= 0 && int64(want) > n-pc.nbody.Load() {
			want = int(n - pc.nbody.Load())
		}
		k, err := pc.br.Read(buf[:want])
		pc.nbody.Add(int64(k))
		if n < 0 {
			tail = append(tail, buf[:k]...)
			if len(tail) > 8 {
				tail = tail[len(tail)-8:]
			}
			if bytes.HasSuffix(tail, []byte("\r\n0\r\n\r\n")) {
				return nil
			}
		}
		if err != nil {
			return err
		}
	}
	return nil
}

func (pc *pconn) write(b []byte) error {
	pc.c.SetWriteDeadline(time.Now().Add(stepWait))
	_, err := pc.c.Write(b)
	return err
}

// takeover: the scripted part is over.  One goroutine reads whatever still arrives; a complete
// GET head is answered (follow-up request); the end of the stream closes pc.gone.
func (pc *pconn) takeover(p *h1peer) {
	if !pc.taken.CompareAndSwap(false, true) {
		return
	}
	defer close(pc.gone)
	if pc.br == nil && pc.stall.Load() {
		// the handshake is never answered: just watch the connection end
		pc.c.SetReadDeadline(time.Time{})
		buf := make([]byte, 4096)
		for {
			if _, err := pc.c.Read(buf); err != nil {
				return
			}
		}
	}
	if pc.br == nil {
		pc.openHS()
		if err := pc.start(p); err != nil {
			pc.c.Close()
			return
		}
	}
	pc.c.SetReadDeadline(time.Time{})
	sawGet := false
	for {
		l, err := pc.br.ReadString('\n')
		pc.nbody.Add(int64(len(l)))
		if err != nil {
			return
		}
		if strings.HasPrefix(l, "GET ") {
			sawGet = true
		}
		if l == "\r\n" && sawGet {
			sawGet = false
			pc.reqs.Add(1)
			pc.c.SetWriteDeadline(time.Now().Add(stepWait))
			pc.c.Write([]byte("HTTP/1.1 200 OK\r\nContent-Length: 9\r\n\r\nfollow-up"))
		}
	}
}

func (p *h1peer) takeoverAll() {
	p.autoAll.Store(true)
	p.mu.Lock()
	cs := append([]*pconn{}, p.conns...)
	p.mu.Unlock()
	for _, pc := range cs {
		go pc.takeover(p)
	}
}

func (p *h1peer) closeAll() {
	p.ln.Close()
	p.mu.Lock()
	defer p.mu.Unlock()
	for _, pc := range p.conns {
		pc.openHS()
		pc.c.Close()
	}
}

// ---------- dial gates ----------

type dialGate struct {
	release chan struct{}
}

type dialer struct {
	addr    string
	mu      sync.Mutex
	open    bool // no gating (warm-up, follow-up, epilogue)
	gates   []*dialGate
	queue   chan *dialGate
	entered atomic.Int64 // dials started while gating was on
}

func newDialer(addr string) *dialer {
	return &dialer{addr: addr, queue: make(chan *dialGate, 64)}
}

func (d *dialer) setOpen(v bool) {
	d.mu.Lock()
	d.open = v
	d.mu.Unlock()
}

func (d *dialer) dial(ctx context.Context, network, _ string) (net.Conn, error) {
	d.mu.Lock()
	var g *dialGate
	if !d.open {
		g = &dialGate{release: make(chan struct{})}
		d.gates = append(d.gates, g)
		d.entered.Add(1)
	}
	d.mu.Unlock()
	if g != nil {
		d.queue <- g
		select {
		case <-g.release:
		case <-ctx.Done():
			return nil, ctx.Err()
		case <-time.After(4 * stepWait):
			return nil, errors.New("harness: dial gate never released")
		}
	}
	var nd net.Dialer
	return nd.DialContext(ctx, "tcp", d.addr)
}

func (g *dialGate) open() {
	select {
	case <-g.release:
	default:
		close(g.release)
	}
}

func (d *dialer) openAll() {
	d.mu.Lock()
	defer d.mu.Unlock()
	d.open = true
	for _, g := range d.gates {
		g.open()
	}
}

// ---------- one run of a scenario ----------

type h1spec struct {
	Name       string `json:"name"`
	TLS        bool   `json:"tls,omitempty"`
	Reuse      bool   `json:"reuse,omitempty"`
	PeerClose  bool   `json:"peer_close,omitempty"` // re-used conn closed by the peer after the request head: transparent retry
	Upload     bool   `json:"upload,omitempty"`
	Bodiless   bool   `json:"bodiless,omitempty"`
	HdrTimeout bool   `json:"hdr_timeout,omitempty"`     // ResponseHeaderTimeout configured (1 h unless it is the injection)
	Auto       bool   `json:"auto,omitempty"`            // auto-read mode: the call returns after the body
	Expect     bool   `json:"expect,omitempty"`          // upload with Expect: 100-continue, ExpectContinueTimeout 1 h: the body waits for the peer's 100
	Queued     bool   `json:"queued,omitempty"`          // MaxConnsPerHost = 1 and the only connection is busy: the request waits in getConn's queue
	Stall      bool   `json:"producer_stalls,omitempty"` // upload whose producer stalls after 32 KiB: Read blocks until the body is closed
	HSTimeout  bool   `json:"hs_timeout,omitempty"`      // TLS: the peer never answers the ClientHello; TLSHandshakeTimeout (300 ms) is what ends the dial; MaxConnsPerHost = 1
}

type obs struct {
	Stack      string     `json:"stack"`
	Spec       h1spec     `json:"spec"`
	Kind       string     `json:"kind"`
	Pos        int        `json:"pos"`
	Steps      int        `json:"steps"`
	StepName   string     `json:"after_step"`
	Racy       bool       `json:"racy,omitempty"`
	Pre        [][]string `json:"pre"`
	RacyLabels []string   `json:"racy_labels,omitempty"`
	Post       []string   `json:"post"`

	Call          string   `json:"call"`
	CallErr       string   `json:"call_err,omitempty"`
	CallTimeout   bool     `json:"call_err_is_timeout,omitempty"`
	Body          string   `json:"body"`
	BodyErr       string   `json:"body_err,omitempty"`
	Returned      bool     `json:"returned"`
	ReturnMs      int64    `json:"return_ms"`
	ConnClosed    bool     `json:"conn_closed"`
	Idle          int      `json:"idle"`
	ReqBody       bool     `json:"req_body"`
	ReqBodyClosed bool     `json:"req_body_closed"`
	ReadsAfter    int64    `json:"reads_after"`
	ReaderStuck   bool     `json:"goroutine_still_inside_body_read"`
	Quiesced      bool     `json:"quiesced"`
	Stuck         []string `json:"stuck,omitempty"`
	Leaked        []string `json:"leaked,omitempty"`
	FollowOK      bool     `json:"follow_ok"`
	FollowErr     string   `json:"follow_err,omitempty"`
	FollowSame    bool     `json:"follow_same_conn"`
	Complete      bool     `json:"complete_before_injection"`
	PeerFailed    bool     `json:"peer_failed_before_injection,omitempty"`
	Harness       string   `json:"harness_problem,omitempty"`
}

type call struct {
	hdrDone  chan struct{}
	bodyDone chan struct{}
	resp     *req.Response
	err      error
	bodyErr  error
	gotBody  bool
	nread    atomic.Int64
}

type h1run struct {
	spec     h1spec
	peer     *h1peer
	dl       *dialer
	client   *req.Client
	call     *call
	pc       *pconn // the connection of the exchange
	gate     *dialGate
	body     *trackedBody
	respBody []byte
	inject   func()

	blockerDone     chan struct{}
	blockerFinished bool
}

func (r *h1run) finishBlocker() error {
	if r.blockerDone == nil || r.blockerFinished {
		return nil
	}
	r.blockerFinished = true
	if err := r.pc.write([]byte("HTTP/1.1 200 OK\r\nContent-Length: 4\r\n\r\nwarm")); err != nil {
		return err
	}
	return waitCh(r.blockerDone, "the request holding the connection did not finish")
}

func dialWaiters(c *req.Client) int {
	s := req.VerifPoolSnapshot(c.GetTransport())
	n := 0
	for _, v := range s.DialWaitLive {
		n += v
	}
	return n
}

type step struct {
	name   string
	labels []string
	do     func(r *h1run) error
}

const respBodyLen = 3000

func (r *h1run) nextGate() error {
	select {
	case g := <-r.dl.queue:
		r.gate = g
		return nil
	case <-time.After(stepWait):
		return errors.New("no dial was started")
	}
}

func (r *h1run) acceptConn() error {
	select {
	case pc := <-r.peer.accepted:
		r.pc = pc
		return nil
	case <-time.After(stepWait):
		return errors.New("no connection arrived")
	}
}

func waitCh(ch chan struct{}, msg string) error {
	select {
	case <-ch:
		return nil
	case <-time.After(stepWait):
		return errors.New(msg)
	}
}

func h1steps(sp h1spec) []step {
	var st []step
	wrote := []string{"XWrote"}
	if sp.Upload {
		wrote = []string{"XWroteSome"}
	}
	readReq := func(r *h1run) error {
		if _, err := r.pc.readHead(); err != nil {
			return fmt.Errorf("request head: %w", err)
		}
		return nil
	}
	fresh := func() {
		st = append(st, step{"dial entered", nil, func(r *h1run) error { return r.nextGate() }})
		if sp.TLS {
			st = append(st, step{"tcp connected, tls handshake stalled", nil, func(r *h1run) error {
				r.gate.open()
				if err := r.acceptConn(); err != nil {
					return err
				}
				r.pc.stall.Store(r.spec.HSTimeout)
				return nil
			}})
			if sp.HSTimeout {
				return
			}
			st = append(st, step{"handshake done, request head read", append([]string{"XDialDone true"}, wrote...), func(r *h1run) error {
				r.pc.openHS()
				if err := r.pc.start(r.peer); err != nil {
					return err
				}
				return readReq(r)
			}})
		} else {
			st = append(st, step{"connected, request head read", append([]string{"XDialDone true"}, wrote...), func(r *h1run) error {
				r.gate.open()
				if err := r.acceptConn(); err != nil {
					return err
				}
				if err := r.pc.start(r.peer); err != nil {
					return err
				}
				return readReq(r)
			}})
		}
	}
	if sp.Queued {
		st = append(st, step{"queued for a connection (MaxConnsPerHost reached)", nil, func(r *h1run) error {
			if !settle(func() bool { return dialWaiters(r.client) > 0 }) {
				return errors.New("the request is not in the per-host wait queue")
			}
			return nil
		}})
		st = append(st, step{"the busy connection became idle and was handed over, request head read", append([]string{"XDialDone true"}, wrote...), func(r *h1run) error {
			if err := r.finishBlocker(); err != nil {
				return err
			}
			return readReq(r)
		}})
	} else if sp.Reuse {
		st = append(st, step{"request head read on the re-used connection", wrote, readReq})
		if sp.PeerClose {
			st = append(st, step{"peer closed the re-used connection", []string{"XPeerClose"}, func(r *h1run) error {
				r.pc.self.Store(true)
				r.pc.c.Close()
				return nil
			}})
			fresh()
		}
	} else {
		fresh()
	}
	if sp.HSTimeout {
		return st
	}
	if sp.Stall {
		st = append(st, step{"32 KiB of the request body read by the peer, the producer has stalled", []string{"XWroteSome"}, func(r *h1run) error {
			if r.spec.Expect { // the peer asks for the body: 100 Continue
				if err := r.pc.write([]byte("HTTP/1.1 100 Continue\r\n\r\n")); err != nil {
					return err
				}
			}
			if err := r.pc.readBody(32 << 10); err != nil {
				return err
			}
			if !settle(func() bool { return r.body.inRead.Load() > 0 }) {
				return errors.New("the upload is not parked in the body's Read")
			}
			return nil
		}})
		return st
	}
	if sp.Upload {
		st = append(st, step{"peer read 64 KiB of the request body", []string{"XWroteSome"}, func(r *h1run) error {
			if r.spec.Expect {
				// nothing of the body may arrive before the interim response
				r.pc.c.SetReadDeadline(time.Now().Add(40 * time.Millisecond))
				if b, err := r.pc.br.Peek(1); err == nil {
					return fmt.Errorf("body byte %q arrived before 100 Continue", b)
				}
				r.pc.c.SetReadDeadline(time.Time{})
				if err := r.pc.write([]byte("HTTP/1.1 100 Continue\r\n\r\n")); err != nil {
					return err
				}
			}
			return r.pc.readBody(64 << 10)
		}})
		st = append(st, step{"peer read the whole request body", []string{"XWrote"}, func(r *h1run) error { return r.pc.readBody(-1) }})
	}
	st = append(st, step{"part of the response head sent", nil, func(r *h1run) error {
		return r.pc.write([]byte("HTTP/1.1 200 OK\r\nX-A: b"))
	}})
	if sp.Bodiless {
		st = append(st, step{"response head complete (no body)", []string{"XHeaders false"}, func(r *h1run) error {
			if err := r.pc.write([]byte("\r\nContent-Length: 0\r\n\r\n")); err != nil {
				return err
			}
			return waitCh(r.call.bodyDone, "call did not return after the complete response")
		}})
		return st
	}
	st = append(st, step{"response head complete", []string{"XHeaders true"}, func(r *h1run) error {
		if err := r.pc.write([]byte(fmt.Sprintf("\r\nContent-Length: %d\r\n\r\n", respBodyLen))); err != nil {
			return err
		}
		if r.spec.Auto {
			return nil
		}
		return waitCh(r.call.hdrDone, "call did not return after the response head")
	}})
	st = append(st, step{"1000 body bytes sent and read", []string{"XBodyData"}, func(r *h1run) error {
		if err := r.pc.write(r.respBody[:1000]); err != nil {
			return err
		}
		if r.spec.Auto {
			return nil
		}
		if !settle(func() bool { return r.call.nread.Load() >= 1000 }) {
			return errors.New("caller did not receive the body bytes")
		}
		return nil
	}})
	st = append(st, step{"rest of the body sent, end of body read", []string{"XBodyEOF"}, func(r *h1run) error {
		if err := r.pc.write(r.respBody[1000:]); err != nil {
			return err
		}
		return waitCh(r.call.bodyDone, "body read did not end")
	}})
	return st
}

func idleCount(c *req.Client) int {
	s := req.VerifPoolSnapshot(c.GetTransport())
	n := 0
	for _, l := range s.Idle {
		n += len(l)
	}
	return n
}

func countFrames(gs []string, sub string) int {
	n := 0
	for _, g := range gs {
		if strings.Contains(g, sub) {
			n++
		}
	}
	return n
}

func causeLabel(kind string) string {
	switch kind {
	case "cancel":
		return "XCancel CCanceled"
	case "deadline", "deadline-timer":
		return "XCancel CDeadline"
	case "client-timeout":
		return "XCancel CTimeout"
	case "hdr-timeout":
		return "XTimerFire"
	}
	return ""
}

func realTimer(kind string) bool {
	return kind == "deadline-timer" || kind == "client-timeout" || kind == "hdr-timeout"
}

// runH1 plays steps[:pos], injects, waits, runs the epilogue and reports what it saw.
func runH1(sp h1spec, kind string, pos int, racy bool, quick bool) (o obs) {
	steps := h1steps(sp)
	o = obs{Stack: "h1", Spec: sp, Kind: kind, Pos: pos, Steps: len(steps), Racy: racy, Call: "pending", Body: "none"}
	if pos > 0 {
		o.StepName = steps[pos-1].name
	} else {
		o.StepName = "(call started)"
	}
	defer func() {
		if p := recover(); p != nil {
			o.Harness = fmt.Sprint("panic: ", p)
		}
	}()
	peer, err := newH1Peer(sp.TLS)
	if err != nil {
		o.Harness = err.Error()
		return
	}
	defer peer.closeAll()
	dl := newDialer(peer.ln.Addr().String())
	defer dl.openAll()
	c := req.C().DisableAutoDecode().EnableForceHTTP1().SetDial(dl.dial)
	if sp.TLS {
		c.EnableInsecureSkipVerify()
	}
	if sp.HSTimeout {
		c.SetTLSHandshakeTimeout(2 * timerDelay)
		c.GetTransport().SetMaxConnsPerHost(1)
	}
	c.SetTimeout(0)
	if kind == "client-timeout" {
		c.SetTimeout(timerDelay)
	}
	if sp.HdrTimeout || kind == "hdr-timeout" {
		d := time.Hour
		if kind == "hdr-timeout" {
			d = timerDelay
		}
		c.GetTransport().SetResponseHeaderTimeout(d)
	}
	r := &h1run{spec: sp, peer: peer, dl: dl, client: c}
	r.respBody = bytes.Repeat([]byte("0123456789"), respBodyLen/10)
	scheme := "http"
	if sp.TLS {
		scheme = "https"
	}
	url := scheme + "://c08.test/x"

	if sp.Queued { // one request holds the only connection the host may have
		c.GetTransport().SetMaxConnsPerHost(1)
		dl.setOpen(true)
		r.blockerDone = make(chan struct{})
		go func() {
			defer close(r.blockerDone)
			c.R().SetContext(context.Background()).Get(url)
		}()
		if err := r.acceptConn(); err != nil {
			o.Harness = "blocker: " + err.Error()
			return
		}
		if err := r.pc.start(peer); err != nil {
			o.Harness = "blocker: " + err.Error()
			return
		}
		if _, err := r.pc.readHead(); err != nil {
			o.Harness = "blocker: " + err.Error()
			return
		}
		dl.setOpen(false)
	} else if sp.Reuse { // warm-up: one complete scripted exchange (no client timeout), the connection goes idle
		dl.setOpen(true)
		wdone := make(chan error, 1)
		go func() {
			resp, err := c.R().SetContext(context.Background()).Get(url)
			if err == nil && resp.String() != "warm" {
				err = errors.New("unexpected warm-up response")
			}
			wdone <- err
		}()
		if err := r.acceptConn(); err != nil {
			o.Harness = "warm-up: " + err.Error()
			return
		}
		if err := r.pc.start(peer); err == nil {
			if _, err = r.pc.readHead(); err == nil {
				err = r.pc.write([]byte("HTTP/1.1 200 OK\r\nContent-Length: 4\r\n\r\nwarm"))
			}
		}
		select {
		case err := <-wdone:
			if err != nil {
				o.Harness = "warm-up: " + err.Error()
				return
			}
		case <-time.After(stepWait):
			o.Harness = "warm-up did not finish"
			return
		}
		if !settle(func() bool { return idleCount(c) == 1 }) {
			o.Harness = "warm-up connection did not become idle"
			return
		}
		dl.setOpen(false)
	}
	if sp.TLS {
		peer.stallHS.Store(true)
	}

	// the caller's context and the injection
	var ctx context.Context
	switch kind {
	case "cancel":
		cctx, cancel := context.WithCancel(context.Background())
		ctx, r.inject = cctx, cancel
	case "deadline":
		m := newManualCtx()
		ctx, r.inject = m, m.fire
	case "deadline-timer":
		cctx, cancel := context.WithTimeout(context.Background(), timerDelay)
		defer cancel()
		ctx, r.inject = cctx, func() {}
	default: // client-timeout, hdr-timeout, none
		ctx, r.inject = context.Background(), func() {}
	}
	rq := c.R().SetContext(ctx)
	if !sp.Auto {
		rq.DisableAutoReadResponse()
	}
	if sp.Expect {
		c.GetTransport().SetExpectContinueTimeout(time.Hour)
		rq.SetHeader("Expect", "100-continue")
	}
	method := "GET"
	if sp.Upload {
		method = "POST"
		size := int64(24 << 20)
		if quick {
			size = 6 << 20 // still more than the loopback socket buffers take
		}
		r.body = newTrackedBody(size)
		if sp.Stall {
			r.body.stallAt = 32 << 10
		}
		rq.SetBody(io.ReadCloser(r.body))
		o.ReqBody = true
	}
	cl := &call{hdrDone: make(chan struct{}), bodyDone: make(chan struct{})}
	r.call = cl
	go func() {
		defer close(cl.bodyDone)
		resp, err := rq.Send(method, url)
		cl.resp, cl.err = resp, err
		close(cl.hdrDone)
		if err != nil || sp.Auto || resp.Response == nil || resp.Body == nil {
			return
		}
		cl.gotBody = true
		buf := make([]byte, 4096)
		for {
			n, e := resp.Body.Read(buf)
			cl.nread.Add(int64(n))
			if e != nil {
				if e != io.EOF {
					cl.bodyErr = e
				}
				break
			}
		}
		resp.Body.Close()
	}()

	dialSteps := 0
	play := func(i int) bool {
		if err := steps[i].do(r); err != nil {
			o.Harness = fmt.Sprintf("step %d (%s): %v", i, steps[i].name, err)
			return false
		}
		return true
	}
	nseq := pos
	if racy {
		nseq = pos - 1
	}
	for i := 0; i < nseq && o.Harness == ""; i++ {
		if play(i) {
			o.Pre = append(o.Pre, steps[i].labels)
			for _, l := range steps[i].labels {
				if strings.HasPrefix(l, "XDialDone") {
					dialSteps++
				}
			}
		}
	}
	if o.Harness != "" && !realTimer(kind) {
		return
	}
	if o.Harness != "" {
		// a real timer fired before the stall point was reached: the run still counts, the
		// model comparison uses the union over all earlier positions
		o.Harness = ""
	}
	o.Complete = pos == len(steps) && !racy && !sp.HSTimeout && !sp.Stall
	t0 := time.Now()
	if racy {
		// the injection and the last step happen at the same time
		o.RacyLabels = append([]string{}, steps[pos-1].labels...)
		for _, l := range steps[pos-1].labels {
			if strings.HasPrefix(l, "XDialDone") {
				dialSteps++
			}
		}
		done := make(chan struct{})
		go func() { defer close(done); steps[pos-1].do(r) }()
		r.inject()
		<-done
	} else {
		r.inject()
	}

	// the call and the pending body read must come back
	select {
	case <-cl.bodyDone:
		o.Returned = true
	case <-time.After(returnBound + timerDelay):
	}
	o.ReturnMs = time.Since(t0).Milliseconds()
	if !o.Returned {
		for _, g := range libGoroutines() {
			o.Stuck = append(o.Stuck, topFrames(g))
		}
		dl.openAll()
		peer.closeAll()
		select {
		case <-cl.bodyDone:
		case <-time.After(stepWait):
		}
		return
	}
	if cl.err != nil {
		o.Call, o.CallErr = classify(cl.err), trunc(cl.err.Error(), 200)
		o.CallTimeout = isTimeout(cl.err)
	} else {
		o.Call = "resp"
		switch {
		case sp.Auto:
			o.Body = "eof"
			if n := len(cl.resp.Bytes()); n != respBodyLen && !sp.Bodiless {
				o.Body, o.BodyErr = "short", fmt.Sprintf("%d bytes without an error", n)
			}
		case !cl.gotBody:
			o.Body = "none"
		case cl.bodyErr != nil:
			o.Body, o.BodyErr = classify(cl.bodyErr), trunc(cl.bodyErr.Error(), 200)
		case sp.Bodiless && cl.nread.Load() == 0:
			o.Body = "none" // http.NoBody: nothing to read
		case cl.nread.Load() == respBodyLen:
			o.Body = "eof"
		default:
			o.Body, o.BodyErr = "short", fmt.Sprintf("%d bytes without an error", cl.nread.Load())
		}
	}

	// ----- epilogue: let everything that was started finish -----
	if r.blockerDone != nil && !r.blockerFinished {
		// the connection the request was queued for becomes idle now: nobody waits for it any more
		if err := r.finishBlocker(); err != nil {
			o.Harness = "epilogue: " + err.Error()
		}
		o.Post = append(o.Post, "XDialDone true")
	}
	dl.openAll()
	peer.takeoverAll()
	// quiescence: every library goroutine left belongs to an idle pooled connection
	var gs []string
	o.Quiesced = settle(func() bool {
		gs = libGoroutines()
		idle := idleCount(c)
		return len(gs) == 2*idle && countFrames(gs, "readLoop") == idle && countFrames(gs, "writeLoop") == idle
	})
	if !o.Quiesced {
		for _, g := range gs {
			o.Stuck = append(o.Stuck, topFrames(g))
		}
	}
	o.Idle = idleCount(c)
	if int(dl.entered.Load()) > dialSteps {
		if sp.HSTimeout && r.pc != nil && r.pc.stall.Load() {
			o.Post = append(o.Post, "XDialDone false") // the handshake timeout ended the dial
		} else {
			o.Post = append(o.Post, "XDialDone true")
		}
	}
	if r.pc != nil && !r.pc.self.Load() {
		if o.Idle == 0 {
			select {
			case <-r.pc.gone:
				o.ConnClosed = true
			case <-time.After(settleMax):
			}
		} else {
			select {
			case <-r.pc.gone:
				o.ConnClosed = true
			default:
			}
		}
	}
	if r.body != nil {
		o.ReaderStuck = r.body.inRead.Load() > 0
		r.body.release()  // (a harness resource: let a goroutine that is still parked in Read go)
		r.body.markStop() // everything that worked for the request has ended: no Read may follow
		settle(func() bool { return r.body.closes.Load() > 0 })
		o.ReqBodyClosed = r.body.closes.Load() > 0
		time.Sleep(20 * time.Millisecond)
		o.ReadsAfter = r.body.afterStop.Load()
	}
	// follow-up on the same client
	nbefore := peer.nconns()
	fctx, fcancel := context.WithTimeout(context.Background(), 20*time.Second)
	resp, ferr := c.R().SetContext(fctx).Get(url)
	fcancel()
	switch {
	case ferr != nil:
		o.FollowErr = trunc(ferr.Error(), 200)
	case resp.String() != "follow-up":
		o.FollowErr = "unexpected follow-up response " + trunc(resp.String(), 40)
	default:
		o.FollowOK = true
		o.FollowSame = peer.nconns() == nbefore
	}
	// final census
	c.GetTransport().CloseIdleConnections()
	peer.closeAll()
	var left []string
	settle(func() bool { left = libGoroutines(); return len(left) == 0 })
	for _, g := range left {
		o.Leaked = append(o.Leaked, topFrames(g))
	}
	return
}
