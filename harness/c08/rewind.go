package main

// HTTP/1.1: the window between a failed attempt on a re-used connection the peer dropped and the
// transport's own retry: the request body is obtained again from GetBody.  The context ends from
// inside a GetBody call; every body GetBody handed out must have been closed.

import (
	"context"
	"errors"
	"fmt"
	"io"
	"sync"
	"time"

	req "github.com/imroc/req/v3"
)

type rewindSpec struct {
	Name   string `json:"name"`
	Kind   string `json:"kind"`
	AtCall int    `json:"cancel_in_getbody_call"` // 2 = the call that rewinds the body for the transport's retry
}

type rewindObs struct {
	Stack    string     `json:"stack"`
	Spec     rewindSpec `json:"spec"`
	Call     string     `json:"call"`
	CallErr  string     `json:"call_err,omitempty"`
	Returned bool       `json:"returned"`
	Bodies   int        `json:"bodies_handed_out"`
	Closed   int        `json:"bodies_closed"`
	Attempts int        `json:"request_heads_seen_by_the_peer"`
	Idle     int        `json:"idle"`
	Leaked   []string   `json:"leaked,omitempty"`
	FollowOK bool       `json:"follow_ok"`
	FollowEr string     `json:"follow_err,omitempty"`
	Harness  string     `json:"harness_problem,omitempty"`
}

func runRewind(sp rewindSpec) (o rewindObs) {
	o = rewindObs{Stack: "rewind", Spec: sp, Call: "pending"}
	defer func() {
		if p := recover(); p != nil {
			o.Harness = fmt.Sprint("panic: ", p)
		}
	}()
	peer, err := newH1Peer(false)
	if err != nil {
		o.Harness = err.Error()
		return
	}
	defer peer.closeAll()
	dl := newDialer(peer.ln.Addr().String())
	dl.setOpen(true)
	c := req.C().DisableAutoDecode().EnableForceHTTP1().SetDial(dl.dial).SetTimeout(0)
	url := "http://c08.test/x"
	// warm-up: one complete scripted exchange, the connection goes idle
	wdone := make(chan error, 1)
	go func() {
		_, err := c.R().Get(url)
		wdone <- err
	}()
	var pc *pconn
	select {
	case pc = <-peer.accepted:
	case <-time.After(stepWait):
		o.Harness = "no connection arrived"
		return
	}
	if err := pc.start(peer); err != nil {
		o.Harness = err.Error()
		return
	}
	if _, err := pc.readHead(); err != nil {
		o.Harness = err.Error()
		return
	}
	pc.write([]byte("HTTP/1.1 200 OK\r\nContent-Length: 4\r\n\r\nwarm"))
	if err := <-wdone; err != nil {
		o.Harness = "warm-up: " + err.Error()
		return
	}
	if !settle(func() bool { return idleCount(c) == 1 }) {
		o.Harness = "warm-up connection did not become idle"
		return
	}
	var ctx context.Context
	var inject func()
	if sp.Kind == "deadline" {
		m := newManualCtx()
		ctx, inject = m, m.fire
	} else {
		cctx, cancel := context.WithCancel(context.Background())
		ctx, inject = cctx, cancel
	}
	var mu sync.Mutex
	var bodies []*trackedBody
	calls := 0
	getBody := func() (io.ReadCloser, error) {
		mu.Lock()
		calls++
		n := calls
		b := newTrackedBody(100)
		bodies = append(bodies, b)
		mu.Unlock()
		if n == sp.AtCall {
			inject()
		}
		return b, nil
	}
	done := make(chan struct{})
	var cerr error
	go func() {
		defer close(done)
		_, cerr = c.R().SetContext(ctx).SetHeader("Idempotency-Key", "c08").SetBody(getBody).Send("PUT", url)
	}()
	// the peer reads the request on the re-used connection and drops the connection without an answer
	if sp.AtCall >= 2 {
		if _, err := pc.readHead(); err != nil {
			o.Harness = "the request did not arrive on the re-used connection: " + err.Error()
			return
		}
		// the whole request, so that what the client sees is the end of the connection while it
		// waits for the response (a failure the transport retries), not a failed write
		if err := pc.readBody(-1); err != nil {
			o.Harness = "the request body did not arrive: " + err.Error()
			return
		}
		o.Attempts++
		pc.self.Store(true)
		pc.c.Close()
	}
	peer.takeoverAll() // a retry that does get through is answered (and counted)
	select {
	case <-done:
		o.Returned = true
	case <-time.After(returnBound):
	}
	if !o.Returned {
		<-done
	}
	o.Call = classify(cerr)
	if cerr != nil {
		o.CallErr = trunc(cerr.Error(), 200)
	}
	settle(func() bool { return len(libGoroutines()) == 2*idleCount(c) })
	mu.Lock()
	o.Bodies = len(bodies)
	settle(func() bool {
		n := 0
		for _, b := range bodies {
			if b.closes.Load() > 0 {
				n++
			}
		}
		o.Closed = n
		return n == len(bodies)
	})
	mu.Unlock()
	o.Idle = idleCount(c)
	peer.mu.Lock()
	for _, p2 := range peer.conns {
		if p2 != pc {
			o.Attempts += int(p2.reqs.Load())
		}
	}
	peer.mu.Unlock()
	fctx, fcancel := context.WithTimeout(context.Background(), 20*time.Second)
	resp, ferr := c.R().SetContext(fctx).Get(url)
	fcancel()
	switch {
	case ferr != nil:
		o.FollowEr = trunc(ferr.Error(), 200)
	case resp.String() != "follow-up":
		o.FollowEr = "unexpected follow-up response " + trunc(resp.String(), 40)
	default:
		o.FollowOK = true
	}
	c.GetTransport().CloseIdleConnections()
	peer.closeAll()
	var left []string
	settle(func() bool { left = libGoroutines(); return len(left) == 0 })
	for _, g := range left {
		o.Leaked = append(o.Leaked, topFrames(g))
	}
	_ = errors.New
	return
}
