package main

// Job structure: every (family, scenario) is one job, run in its own child process so that the
// goroutine census (process-wide) of one scenario is not disturbed by another, and so that the
// jobs can run in parallel.  The parent merges the observations in job order (deterministic
// from the seed), applies the oracle and emits the Coq cases.

import (
	"bytes"
	"encoding/json"
	"fmt"
	"io"
	"log"
	"os"
	"os/exec"
	"path/filepath"
	"strconv"
	"strings"
	"sync"
	"time"

	"github.com/imroc/req/v3/verifharness/hk"
)

type result struct {
	H1       *obs         `json:"h1,omitempty"`
	H2       *h2obs       `json:"h2,omitempty"`
	Retry    *retryObs    `json:"retry,omitempty"`
	H3       *h3obs       `json:"h3,omitempty"`
	Queue    *queueObs    `json:"queue,omitempty"`
	Win      *windowObs   `json:"window,omitempty"`
	Share    *shareObs    `json:"share,omitempty"`
	Backoff  *backoffObs  `json:"backoff,omitempty"`
	TLSStall *tlsStallObs `json:"tlsstall,omitempty"`
	Hpack    *hpackObs    `json:"hpack,omitempty"`
	Rewind   *rewindObs   `json:"rewind,omitempty"`
}

type job struct {
	Fam string
	Idx int
}

var h1specs = []h1spec{
	{Name: "fresh-get"},
	{Name: "fresh-get-auto", Auto: true},
	{Name: "fresh-get-bodiless", Bodiless: true},
	{Name: "fresh-tls-get", TLS: true},
	{Name: "fresh-upload", Upload: true},
	{Name: "reuse-get", Reuse: true},
	{Name: "reuse-upload-bodiless", Reuse: true, Upload: true, Bodiless: true},
	{Name: "reuse-peerclose-retry", Reuse: true, PeerClose: true},
	{Name: "fresh-get-hdrtimeout", HdrTimeout: true},
	{Name: "queued-maxconns-get", Queued: true},
	{Name: "fresh-upload-expect-continue", Upload: true, Expect: true},
	{Name: "tls-handshake-never-answered", TLS: true, HSTimeout: true},
	{Name: "fresh-upload-producer-stalls", Upload: true, Stall: true},
	{Name: "fresh-upload-expect-continue-producer-stalls", Upload: true, Expect: true, Stall: true},
}

var h2specs = []h2spec{
	{Name: "fresh-get"},
	{Name: "fresh-get-bodiless", Bodiless: true},
	{Name: "fresh-upload", Upload: true},
	{Name: "reuse-get", Reuse: true},
	{Name: "reuse-upload-bodiless", Reuse: true, Upload: true, Bodiless: true},
	{Name: "slot-wait-get", Reuse: true, SlotWait: true},
	{Name: "expect-continue-upload", Upload: true, Expect: true},
	{Name: "early-response-upload", Upload: true, EarlyRsp: true},
	{Name: "stalled-body-then-peer-reset", Stalled: true},
	{Name: "fresh-upload-producer-stalls", Upload: true, Stall: true},
}

var h3specs = []h3spec{
	{Name: "fresh-get"},
	{Name: "fresh-upload", Upload: true},
	{Name: "reuse-get", Reuse: true},
	{Name: "reuse-upload-bodiless", Reuse: true, Upload: true, Bodiless: true},
	{Name: "send-header-fails", Reuse: true, Upload: true, BadHost: true},
	{Name: "stream-limit-wait-upload", Reuse: true, Upload: true, Bodiless: true, Limit: true},
	{Name: "early-response-upload-stalled", Reuse: true, Upload: true, EarlyRsp: true},
}

var retrySpecs = []retrySpec{
	{Name: "sleep-after-1", Max: 3, LongWait: true, Attempts: 1, InSleep: true},
	{Name: "sleep-after-2-unlimited", Max: -1, LongWait: true, Attempts: 2, InSleep: true},
	{Name: "attempt-2-in-flight", Max: 3, Attempts: 1},
	{Name: "attempt-3-in-flight-unlimited", Max: -1, Attempts: 2},
	{Name: "first-attempt-in-flight", Max: 2, Attempts: 0},
	{Name: "zero-interval-attempt-2-in-flight-unlimited", Max: -1, Zero: true, Attempts: 1},
	{Name: "zero-interval-attempt-3-in-flight", Max: 5, Zero: true, Attempts: 2},
}

func allJobs() []job {
	var js []job
	only := os.Getenv("C08_ONLY")
	add := func(fam string, n int) {
		if only != "" && only != fam {
			return
		}
		for i := 0; i < n; i++ {
			js = append(js, job{fam, i})
		}
	}
	add("h1", len(h1specs))
	add("h2", len(h2specs))
	add("retry", 1)
	add("h3", len(h3specs))
	add("queue", 2)
	add("window", 1)
	add("share", 2)
	add("backoff", 2)
	add("tlsstall", 1)
	add("hpack", 1)
	add("rewind", 1)
	return js
}

// kindsAt: which injections are made after event index pos.  Quick: cancel and the manually
// fired deadline at every index, the wall-clock kinds (150 ms each) on a rotating quarter.
func kindsAt(pos int, seed uint64, quick bool) []string {
	kinds := []string{"cancel", "deadline"}
	m := 4
	if !quick {
		m = 1
	}
	if (pos+int(seed))%m == 0 {
		kinds = append(kinds, "deadline-timer")
	}
	if (pos+int(seed)+2)%m == 0 {
		kinds = append(kinds, "client-timeout")
	}
	return kinds
}

func runJob(j job, seed uint64, quick bool) (out []result) {
	rng := hk.NewRand(seed*1000003 + uint64(len(j.Fam))*977 + uint64(j.Idx))
	racyEvery := 4
	if !quick {
		racyEvery = 1
	}
	switch j.Fam {
	case "h1":
		sp := h1specs[j.Idx]
		steps := h1steps(sp)
		n := len(steps)
		add := func(o obs) { out = append(out, result{H1: &o}) }
		if !sp.Stall { // (without an injection a stalled producer never lets the call end)
			add(runH1(sp, "none", n, false, quick)) // HSTimeout: the dial's own timeout fails the call
		}
		for pos := 0; pos <= n; pos++ {
			for _, k := range kindsAt(pos, seed, quick) {
				if sp.Queued && k == "client-timeout" {
					continue // Client.Timeout is client-wide: it would also end the request that holds the connection
				}
				add(runH1(sp, k, pos, false, quick))
			}
			// ResponseHeaderTimeout runs only between "request written" and "head complete"
			if sp.HdrTimeout && pos > 0 && pos < n {
				written, headDone := false, false
				for i := 0; i < pos; i++ {
					l := strings.Join(steps[i].labels, " ")
					if strings.Contains(l, "XWrote") && !strings.Contains(l, "XWroteSome") {
						written = true
					}
					if strings.Contains(l, "XHeaders") {
						headDone = true
					}
				}
				if written && !headDone {
					add(runH1(sp, "hdr-timeout", pos, false, quick))
				}
			}
		}
		for pos := 1; pos <= n; pos++ {
			if len(steps[pos-1].labels) == 0 || rng.Intn(racyEvery) != 0 {
				continue
			}
			add(runH1(sp, "cancel", pos, true, quick))
		}
	case "h2":
		sp := h2specs[j.Idx]
		steps := h2steps(sp)
		n := len(steps)
		add := func(o h2obs) { out = append(out, result{H2: &o}) }
		if !sp.Stalled && !sp.Stall { // (without an injection a stalled body source never lets the call end)
			add(runH2(sp, "none", n, false))
		}
		for pos := 0; pos <= n; pos++ {
			for _, k := range kindsAt(pos, seed, quick) {
				add(runH2(sp, k, pos, false))
			}
		}
		for pos := 1; pos <= n; pos++ {
			if len(steps[pos-1].labels) == 0 || rng.Intn(racyEvery) != 0 || sp.Stalled {
				continue
			}
			add(runH2(sp, "cancel", pos, true))
		}
	case "h3":
		sp := h3specs[j.Idx]
		add := func(o h3obs) { out = append(out, result{H3: &o}) }
		if sp.BadHost {
			add(runH3(sp, "none", 0, false))
			return
		}
		steps := h3steps(sp)
		n := len(steps)
		if !sp.EarlyRsp { // (the upload never completes in that scenario: no run without an injection)
			add(runH3(sp, "none", n, false))
		}
		for pos := 0; pos <= n; pos++ {
			if sp.Limit && pos > 1 {
				// the scenario is about the wait for a stream; the later phases are driven without a
				// stream limit (with a limit of ONE stream the follow-up depends on how soon the peer
				// hands the cancelled request's stream back - observed once to exceed 20 s under load)
				break
			}
			for _, k := range kindsAt(pos, seed, quick) {
				add(runH3(sp, k, pos, false))
			}
		}
		for pos := 1; pos <= n; pos++ {
			if sp.Limit || sp.EarlyRsp {
				break
			}
			if len(steps[pos-1].labels) == 0 || rng.Intn(racyEvery) != 0 {
				continue
			}
			add(runH3(sp, "cancel", pos, true))
		}
	case "queue":
		// every subset of the waiters is cancelled (the context kind alternates); idx 0: two waiters, 1: three
		n := 2 + j.Idx
		k := 0
		for mask := 0; mask < 1<<n; mask++ {
			var cs []int
			for i := 0; i < n; i++ {
				if mask&(1<<i) != 0 {
					cs = append(cs, i)
				}
			}
			if len(cs) > 1 && rng.Bool() { // the order of the cancellations varies
				cs[0], cs[len(cs)-1] = cs[len(cs)-1], cs[0]
			}
			kind := []string{"cancel", "deadline"}[k%2]
			k++
			o := runQueue(queueSpec{Name: fmt.Sprintf("%d-waiters-cancel-%v", n, cs), Waiters: n, Cancel: cs, Kind: kind})
			out = append(out, result{Queue: &o})
		}
		if n == 3 { // a waiter that joins after the cancellations
			o := runQueue(queueSpec{Name: "3-waiters-cancel-[0]-late-2", Waiters: 3, Cancel: []int{0}, Kind: "cancel", Late: []int{2}})
			out = append(out, result{Queue: &o})
		}
	case "window":
		specs := []windowSpec{
			{Name: "2x2x16000", Stray: [][]int{{16000, 16000}, {16000, 16000}}, Kind: "cancel"},
			{Name: "3-small", Stray: [][]int{{1, 4095}, {4096}, {16384, 1}}, Kind: "deadline"},
			{Name: "1x60000", Stray: [][]int{{16384, 16384, 16384, 10848}}, Kind: "cancel"},
			{Name: "nothing-in-flight", Stray: [][]int{{}, {}}, Kind: "cancel"},
		}
		if !quick {
			for i := 0; i < 8; i++ {
				var st [][]int
				total := 0
				for d := 0; d < 1+rng.Intn(4); d++ {
					var fr []int
					for f := 0; f < rng.Intn(4); f++ {
						n := hk.Pick(rng, []int{1, 100, 4095, 4096, 4097, 8192, 16000, 16384})
						if total+n > 61000 {
							break
						}
						total += n
						fr = append(fr, n)
					}
					st = append(st, fr)
				}
				specs = append(specs, windowSpec{Name: fmt.Sprintf("random-%d", i), Stray: st, Kind: []string{"cancel", "deadline"}[i%2]})
			}
		}
		for _, sp := range specs {
			sp.Follow = 60000
			o := runWindow(sp)
			out = append(out, result{Win: &o})
		}
	case "rewind":
		for _, at := range []int{1, 2} {
			for _, kind := range []string{"cancel", "deadline"} {
				o := runRewind(rewindSpec{Name: fmt.Sprintf("getbody-call-%d", at), Kind: kind, AtCall: at})
				out = append(out, result{Rewind: &o})
			}
		}
	case "hpack":
		// the context ends before the call, or while the n-th header field is being encoded
		at := []int{0, 1, 3, 6}
		if !quick {
			at = []int{0, 1, 2, 3, 4, 5, 6, 7, 8}
		}
		for i, n := range at {
			kind := []string{"cancel", "deadline"}[(i+int(seed))%2]
			o := runHpack(hpackSpec{Name: fmt.Sprintf("cancel-at-field-%d", n), Kind: kind, AtHook: n})
			out = append(out, result{Hpack: &o})
		}
	case "tlsstall":
		k := 0
		for _, h2 := range []bool{true, false} {
			for _, fp := range []bool{false, true} {
				kinds := []string{"cancel", "deadline"}
				if quick { // both kinds over the four combinations, alternating
					kinds = []string{kinds[(k+int(seed))%2]}
				}
				k++
				for _, kind := range kinds {
					name := map[bool]string{true: "h2", false: "h1"}[h2] + map[bool]string{true: "-fingerprint", false: "-stdtls"}[fp]
					o := runTLSStall(tlsStallSpec{Name: name, ForceH2: h2, Fingerprint: fp, Kind: kind})
					out = append(out, result{TLSStall: &o})
				}
			}
		}
	case "backoff":
		kind := []string{"cancel", "deadline"}[j.Idx]
		ns := []int{1, 2, 4} // in flight after the immediate re-send; in the 1 s back-off; in the 4 s back-off (bound 2 s)
		if !quick {
			ns = []int{1, 2, 3, 4, 5}
		}
		for _, n := range ns {
			o := runBackoff(backoffSpec{Name: fmt.Sprintf("%d-refusals", n), Refusals: n, Kind: kind})
			out = append(out, result{Backoff: &o})
		}
	case "share":
		stack := []string{"h2", "h3"}[j.Idx]
		for _, kind := range []string{"cancel", "deadline", "deadline-timer"} {
			o := runShare(shareSpec{Name: stack + "-" + kind, Stack: stack, Kind: kind})
			out = append(out, result{Share: &o})
		}
		for _, kind := range []string{"cancel", "deadline"} { // the joiner's own context ends while the dial goes on
			o := runShare(shareSpec{Name: stack + "-joiner-" + kind, Stack: stack, Kind: kind, EndB: true})
			out = append(out, result{Share: &o})
		}
	case "retry":
		for _, sp := range retrySpecs {
			for _, kind := range []string{"cancel", "deadline"} {
				o := runRetry(sp, kind)
				out = append(out, result{Retry: &o})
			}
		}
	}
	return
}

func fileExists(p string) bool {
	_, err := os.Stat(p)
	return err == nil
}

func jobName(j job) string {
	switch j.Fam {
	case "h1":
		return "h1:" + h1specs[j.Idx].Name
	case "h2":
		return "h2:" + h2specs[j.Idx].Name
	case "h3":
		return "h3:" + h3specs[j.Idx].Name
	}
	return j.Fam
}

// child entry: <bin> child <fam> <idx> <seed> <quick> <outfile>
func childMain(args []string) {
	log.SetOutput(io.Discard)
	if len(args) != 5 {
		fmt.Fprintln(os.Stderr, "usage: child fam idx seed quick out")
		os.Exit(2)
	}
	idx, _ := strconv.Atoi(args[1])
	seed, _ := strconv.ParseUint(args[2], 10, 64)
	res := runJob(job{args[0], idx}, seed, args[3] == "true")
	b, _ := json.Marshal(res)
	if err := os.WriteFile(args[4], b, 0o644); err != nil {
		fmt.Fprintln(os.Stderr, err)
		os.Exit(1)
	}
}

func main() {
	if len(os.Args) > 1 && os.Args[1] == "child" {
		childMain(os.Args[2:])
		return
	}
	hk.Main("C08", runC08, nil)
}

func runC08(r *hk.Run) {
	log.SetOutput(io.Discard)
	r.Header = "From Coq Require Import List ZArith.\nImport ListNotations.\nFrom ReqV Require Import Model.C08Run."
	r.CaseType = "c08_case"
	r.CheckFn = "c08_check"
	r.ShardSize = 40
	r.Rule = "scenario (stack x fresh/re-used connection x TLS x upload x bodiless/body response x auto/manual body read x transparent retry) x injection kind (cancel, manual context deadline, context.WithTimeout, Client.Timeout, ResponseHeaderTimeout) x event index after which the peer stalls; plus racy injections fired together with an event. Non-trivial: the injection hits a request that is in flight (not before the call, not after the exchange completed). Distinct by (scenario, kind, position, racy)."
	exe, err := os.Executable()
	if err != nil {
		r.Fail(hk.Failure{Sig: "harness:self", What: err.Error()})
		return
	}
	// thorough tier: the scenarios run under the race detector (a binary built here, next to the
	// outputs; the same module file the driver used when the check runs against a scratch tree)
	if !r.Quick() && os.Getenv("C08_NORACE") == "" {
		raceExe := filepath.Join(r.OutDir, "harness_race.bin")
		args := []string{"build"}
		if alt := filepath.Join(r.OutDir, "go.alt.mod"); fileExists(alt) {
			args = append(args, "-modfile="+alt)
		}
		args = append(args, "-race", "-tags", "verif", "-o", raceExe, "./c08")
		cmd := exec.Command("go", args...)
		if out, err := cmd.CombinedOutput(); err != nil {
			r.Notes = append(r.Notes, "race build failed, scenarios ran without the race detector: "+trunc(string(out), 400))
		} else {
			exe = raceExe
			r.Notes = append(r.Notes, "thorough tier: every scenario process ran under the Go race detector")
		}
	}
	jobs := allJobs()
	par := 6
	if v, err := strconv.Atoi(os.Getenv("C08_PAR")); err == nil && v > 0 {
		par = v
	}
	limit := 12 * time.Minute
	if !r.Quick() {
		limit = 60 * time.Minute
	}
	type done struct {
		res    []result
		err    string
		stderr string
	}
	outs := make([]done, len(jobs))
	sem := make(chan struct{}, par)
	var wg sync.WaitGroup
	for i, j := range jobs {
		wg.Add(1)
		go func(i int, j job) {
			defer wg.Done()
			sem <- struct{}{}
			defer func() { <-sem }()
			f := filepath.Join(r.OutDir, fmt.Sprintf("job_%s_%d.json", j.Fam, j.Idx))
			os.Remove(f)
			cmd := exec.Command(exe, "child", j.Fam, strconv.Itoa(j.Idx), strconv.FormatUint(r.Seed, 10), strconv.FormatBool(r.Quick()), f)
			var eb bytes.Buffer
			cmd.Stderr = &eb
			cmd.Env = append(os.Environ(), "GORACE=halt_on_error=0")
			if err := cmd.Start(); err != nil {
				outs[i].err = err.Error()
				return
			}
			t := time.AfterFunc(limit, func() { cmd.Process.Kill() })
			werr := cmd.Wait()
			t.Stop()
			outs[i].stderr = eb.String()
			b, rerr := os.ReadFile(f)
			if rerr != nil {
				outs[i].err = fmt.Sprintf("child ended without a result file (%v): %s", werr, trunc(eb.String(), 2000))
				return
			}
			if err := json.Unmarshal(b, &outs[i].res); err != nil {
				outs[i].err = err.Error()
			}
			os.Remove(f)
		}(i, j)
	}
	wg.Wait()
	for i, j := range jobs {
		d := outs[i]
		if d.err != "" {
			r.Fail(hk.Failure{Sig: "harness:child:" + jobName(j), What: "scenario process failed: " + d.err})
			continue
		}
		if k := strings.Index(d.stderr, "WARNING: DATA RACE"); k >= 0 {
			r.Fail(hk.Failure{Sig: "race:" + jobName(j), What: "the race detector reported a data race while the scenario ran", Input: trunc(d.stderr[k:], 6000)})
		}
		for _, x := range d.res {
			switch {
			case x.H1 != nil:
				record(r, *x.H1)
			case x.H2 != nil:
				recordH2(r, *x.H2)
			case x.Retry != nil:
				recordRetry(r, *x.Retry)
			case x.H3 != nil:
				recordH3(r, *x.H3)
			case x.Queue != nil:
				recordQueue(r, *x.Queue)
			case x.Win != nil:
				recordWindow(r, *x.Win)
			case x.Share != nil:
				recordShare(r, *x.Share)
			case x.Backoff != nil:
				recordBackoff(r, *x.Backoff)
			case x.TLSStall != nil:
				recordTLSStall(r, *x.TLSStall)
			case x.Hpack != nil:
				recordHpack(r, *x.Hpack)
			case x.Rewind != nil:
				recordRewind(r, *x.Rewind)
			}
		}
	}
}
