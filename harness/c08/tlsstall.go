package main

// A TLS handshake the peer does not answer, under every way the library performs it: the
// standard library handshake or the uTLS fingerprint handshake (SetTLSFingerprint*), dialled by
// the HTTP/1.1 transport (detached from the request) or by the HTTP/2 pool under a forced HTTP/2
// (the request waits for that dial: only the handshake honouring the context makes it return).

import (
	"context"
	"crypto/tls"
	"errors"
	"fmt"
	"net"
	"sync"
	"time"

	req "github.com/imroc/req/v3"
	"github.com/imroc/req/v3/internal/testcert"
)

type tlsStallSpec struct {
	Name        string `json:"name"`
	ForceH2     bool   `json:"force_h2"`
	Fingerprint bool   `json:"tls_fingerprint"`
	Kind        string `json:"kind"`
}

type tlsStallObs struct {
	Stack      string       `json:"stack"`
	Spec       tlsStallSpec `json:"spec"`
	Call       string       `json:"call"`
	CallErr    string       `json:"call_err,omitempty"`
	Returned   bool         `json:"returned"`
	ReturnMs   int64        `json:"return_ms"`
	ConnClosed bool         `json:"stalled_conn_closed"` // the connection whose handshake was never answered ended
	Quiesced   bool         `json:"quiesced"`
	Stuck      []string     `json:"stuck,omitempty"`
	FollowOK   bool         `json:"follow_ok"`
	FollowEr   string       `json:"follow_err,omitempty"`
	Leaked     []string     `json:"leaked,omitempty"`
	Harness    string       `json:"harness_problem,omitempty"`
}

func runTLSStall(sp tlsStallSpec) (o tlsStallObs) {
	o = tlsStallObs{Stack: "tlsstall", Spec: sp, Call: "pending"}
	defer func() {
		if p := recover(); p != nil {
			o.Harness = fmt.Sprint("panic: ", p)
		}
	}()
	cert, err := tls.X509KeyPair(testcert.LocalhostCert, testcert.LocalhostKey)
	if err != nil {
		o.Harness = err.Error()
		return
	}
	ln, err := net.Listen("tcp", "127.0.0.1:0")
	if err != nil {
		o.Harness = err.Error()
		return
	}
	defer ln.Close()
	var mu sync.Mutex
	var conns []net.Conn
	first := make(chan net.Conn, 1)
	gone := make(chan struct{})
	go func() {
		n := 0
		for {
			cn, err := ln.Accept()
			if err != nil {
				return
			}
			mu.Lock()
			conns = append(conns, cn)
			mu.Unlock()
			n++
			if n == 1 { // never answer the ClientHello; just watch the connection end
				first <- cn
				go func() {
					buf := make([]byte, 4096)
					for {
						if _, err := cn.Read(buf); err != nil {
							close(gone)
							return
						}
					}
				}()
				continue
			}
			go func() { // later connections are served
				// a fingerprint ClientHello offers h2 whatever the client is forced to speak: the server
				// picks what this client will actually speak
				protos := []string{"http/1.1"}
				if sp.ForceH2 {
					protos = []string{"h2"}
				}
				tc := tls.Server(cn, &tls.Config{Certificates: []tls.Certificate{cert}, NextProtos: protos})
				tc.SetDeadline(time.Now().Add(stepWait))
				if err := tc.Handshake(); err != nil {
					cn.Close()
					return
				}
				tc.SetDeadline(time.Time{})
				if tc.ConnectionState().NegotiatedProtocol == "h2" {
					if pc, err := newH2PeerConn(tc); err == nil {
						autoH2(pc, map[uint32]bool{})
					}
					return
				}
				pc := &pconn{c: tc, gone: make(chan struct{}), hsGate: make(chan struct{})}
				close(pc.hsGate)
				pc.br = nil
				p := &h1peer{}
				pc.takeover(p)
			}()
		}
	}()
	defer func() {
		mu.Lock()
		for _, cn := range conns {
			cn.Close()
		}
		mu.Unlock()
	}()
	c := req.C().DisableAutoDecode().EnableInsecureSkipVerify().SetTimeout(0)
	if sp.Fingerprint {
		c.SetTLSFingerprintChrome()
	}
	if sp.ForceH2 {
		c.EnableForceHTTP2()
	} else {
		c.EnableForceHTTP1()
	}
	c.SetTLSHandshakeTimeout(4 * timerDelay)
	c.GetTransport().SetMaxConnsPerHost(1)
	url := "https://" + ln.Addr().String() + "/x"
	var ctx context.Context
	var inject func()
	switch sp.Kind {
	case "deadline":
		m := newManualCtx()
		ctx, inject = m, m.fire
	default:
		cctx, cancel := context.WithCancel(context.Background())
		ctx, inject = cctx, cancel
	}
	done := make(chan struct{})
	var cerr error
	go func() {
		defer close(done)
		_, cerr = c.R().SetContext(ctx).Get(url)
	}()
	select {
	case <-first:
	case <-time.After(stepWait):
		o.Harness = "no connection arrived"
		return
	}
	time.Sleep(20 * time.Millisecond) // the ClientHello is on its way; nothing will answer it
	t0 := time.Now()
	inject()
	// well before TLSHandshakeTimeout (600 ms) would end the wait anyway
	select {
	case <-done:
		o.Returned = true
	case <-time.After(2 * timerDelay):
	}
	o.ReturnMs = time.Since(t0).Milliseconds()
	<-done
	o.Call = classify(cerr)
	if cerr != nil {
		o.CallErr = trunc(cerr.Error(), 200)
	}
	// the dial must end by itself (context, or its own handshake timeout): connection closed, nothing left
	select {
	case <-gone:
		o.ConnClosed = true
	case <-time.After(settleMax):
	}
	var gs []string
	o.Quiesced = settle(func() bool { gs = libGoroutines(); return len(gs) == 0 })
	for _, g := range gs {
		o.Stuck = append(o.Stuck, topFrames(g))
	}
	fctx, fcancel := context.WithTimeout(context.Background(), 20*time.Second)
	resp, ferr := c.R().SetContext(fctx).Get(url)
	fcancel()
	switch {
	case ferr != nil:
		o.FollowEr = trunc(ferr.Error(), 200)
	case resp.String() != "follow-up":
		o.FollowEr = "unexpected follow-up response " + trunc(resp.String(), 40)
	default:
		o.FollowOK = true
	}
	c.GetTransport().CloseIdleConnections()
	mu.Lock()
	for _, cn := range conns {
		cn.Close()
	}
	mu.Unlock()
	var left []string
	settle(func() bool { left = libGoroutines(); return len(left) == 0 })
	for _, g := range left {
		o.Leaked = append(o.Leaked, topFrames(g))
	}
	_ = errors.New
	return
}
