package main

// HTTP/2: the connection's HPACK encoder is shared by all requests.  A request whose context ends
// between taking the write lock and writing HEADERS must leave the encoder and the peer's decoder
// in step: either its header block is not encoded at all, or it is encoded AND sent.  The context
// is ended from the httptrace WroteHeaderField hook, which runs inside the header encoding.

import (
	"context"
	"fmt"
	"net"
	"net/http/httptrace"
	"time"

	req "github.com/imroc/req/v3"
)

type hpackSpec struct {
	Name   string `json:"name"`
	Kind   string `json:"kind"`
	AtHook int    `json:"cancel_at_field"` // the context ends when the n-th header field is being written (0: before the call)
}

type hpackObs struct {
	Stack    string    `json:"stack"`
	Spec     hpackSpec `json:"spec"`
	Events   []string  `json:"events"`
	Decoded  []int     `json:"decoded_blocks"` // request ids (0 warm-up, 1 the cancelled one, 2 the follow-up) whose header block the peer decoded, in order
	HpackErr string    `json:"hpack_error,omitempty"`
	B        string    `json:"cancelled_call"`
	BSeen    bool      `json:"cancelled_request_headers_seen"`
	BRst     int64     `json:"cancelled_request_rst"`
	FollowOK bool      `json:"follow_ok"`
	FollowEr string    `json:"follow_err,omitempty"`
	FollowHd string    `json:"follow_header_decoded"`
	Leaked   []string  `json:"leaked,omitempty"`
	Harness  string    `json:"harness_problem,omitempty"`
}

func runHpack(sp hpackSpec) (o hpackObs) {
	o = hpackObs{Stack: "hpack", Spec: sp, B: "pending", BRst: -1}
	defer func() {
		if p := recover(); p != nil {
			o.Harness = fmt.Sprint("panic: ", p)
		}
	}()
	ln, err := net.Listen("tcp", "127.0.0.1:0")
	if err != nil {
		o.Harness = err.Error()
		return
	}
	defer ln.Close()
	dl := newDialer(ln.Addr().String())
	dl.setOpen(true)
	c := req.C().DisableAutoDecode().EnableH2C().EnableForceHTTP2().SetTimeout(0)
	c.SetDial(dl.dial)
	c.SetDialTLS(dl.dial)
	url := "http://c08.test/x"
	var pc *h2peerConn
	var conn net.Conn
	accepted := make(chan struct{})
	go func() {
		cn, err := ln.Accept()
		if err != nil {
			return
		}
		conn = cn
		pc, _ = newH2PeerConn(cn)
		close(accepted)
		if pc != nil {
			autoH2(pc, map[uint32]bool{})
		}
	}()
	defer func() {
		if conn != nil {
			conn.Close()
		}
	}()
	// request 0: puts a header field into the dynamic table
	resp, err := c.R().SetHeader("X-C08-Id", "0").SetHeader("X-C08-Shared", "alpha-alpha-alpha").Get(url)
	if err != nil || resp.String() != "follow-up" {
		o.Harness = fmt.Sprint("warm-up failed: ", err)
		return
	}
	o.Events = append(o.Events, "HSend 0 false false")
	// request 1: a new header field; its context ends inside the header encoding
	var ctx context.Context
	var inject func()
	if sp.Kind == "deadline" {
		m := newManualCtx()
		ctx, inject = m, m.fire
	} else {
		cctx, cancel := context.WithCancel(context.Background())
		ctx, inject = cctx, cancel
	}
	n := 0
	tctx := httptrace.WithClientTrace(ctx, &httptrace.ClientTrace{
		WroteHeaderField: func(key string, value []string) {
			n++
			if n == sp.AtHook {
				inject()
			}
		},
	})
	if sp.AtHook == 0 {
		inject()
	}
	bdone := make(chan error, 1)
	go func() {
		_, err := c.R().SetContext(tctx).SetHeader("X-C08-Id", "1").SetHeader("X-C08-Only-B", "beta-beta-beta").Get(url)
		bdone <- err
	}()
	select {
	case err := <-bdone:
		o.B = classify(err)
	case <-time.After(returnBound):
		o.B = "hang"
	}
	settle(func() bool { return countFrames(libGoroutines(), "clientStream") == 0 })
	time.Sleep(20 * time.Millisecond)
	o.Events = append(o.Events, fmt.Sprintf("HSend 1 %v %v", sp.AtHook == 0, sp.AtHook > 0))
	// request 2 refers to the table entry of request 0
	fctx, fcancel := context.WithTimeout(context.Background(), 20*time.Second)
	resp, ferr := c.R().SetContext(fctx).SetHeader("X-C08-Id", "2").SetHeader("X-C08-Shared", "alpha-alpha-alpha").Get(url)
	fcancel()
	switch {
	case ferr != nil:
		o.FollowEr = trunc(ferr.Error(), 200)
	case resp.String() != "follow-up":
		o.FollowEr = "unexpected follow-up response " + trunc(resp.String(), 40)
	default:
		o.FollowOK = true
	}
	o.Events = append(o.Events, "HSend 2 false false")
	pc.mu.Lock()
	o.HpackErr = pc.hpackErr
	for _, id := range pc.blocks {
		var k int
		fmt.Sscanf(pc.hfields[id]["x-c08-id"], "%d", &k)
		o.Decoded = append(o.Decoded, k)
		if k == 1 {
			o.BSeen = true
			o.BRst = pc.st[id].rst
		}
		if k == 2 {
			o.FollowHd = pc.hfields[id]["x-c08-shared"]
		}
	}
	pc.mu.Unlock()
	c.GetTransport().CloseIdleConnections()
	conn.Close()
	var left []string
	settle(func() bool { left = libGoroutines(); return len(left) == 0 })
	for _, g := range left {
		o.Leaked = append(o.Leaked, topFrames(g))
	}
	return
}
