package main

// C12 - protocol selection and TLS configuration are honoured uniformly.
//
// Real handshakes against local origins (see servers.go); cells = operation sequences on a fresh req.C()
// (see cells.go).  Generator: (a) the structured matrix {force none/h1/h2/h3} x {HTTP/3 enabled or not} x
// server {ALPN h1 only, h2+h1, h1+h2} x {no h3, h3 via Alt-Svc, h3 direct} x {client certificate required or
// not} x TLS setting {default roots, private root, wrong root, InsecureSkipVerify, ServerName override good/bad,
// client certificate good/wrong} x lifecycle {fresh, clone, configure-after-clone, settings changed after
// first use} x setter {SetTLSClientConfig with/without NextProtos, GetTLSClientConfig mutation}; plain-http
// cells {force} x {h2c on/off, on-then-off, cloned} x {plain h1, h2c origin}; (b) seeded random walks over the
// operation alphabet.  Quick tier: a seeded sample; thorough: the whole matrix.

import (
	"encoding/json"
	"fmt"
	"os"
	"sort"
	"strings"
	"sync"
	"time"

	"github.com/imroc/req/v3/verifharness/hk"
)

func main() {
	if len(os.Args) > 1 && os.Args[1] == "repro-h3tls" {
		reproH3TLS()
		return
	}
	hk.Main("C12", run, syncers)
}

// ---------- TLS settings ----------

type tlsSetting struct {
	Name string
	T    tlsSpec
}

var tlsSettings = []tlsSetting{
	{"default", tlsSpec{}},
	{"root", tlsSpec{Roots: []int{1}}},
	{"wrongroot", tlsSpec{Roots: []int{2}}},
	{"skip", tlsSpec{Skip: true}},
	{"sname-ok", tlsSpec{Roots: []int{1}, SName: "c12.test"}},
	{"sname-bad", tlsSpec{Roots: []int{1}, SName: "other.test"}},
	{"cert", tlsSpec{Roots: []int{1}, Certs: []int{3}}},
	{"wrongcert", tlsSpec{Roots: []int{1}, Certs: []int{2}}},
	{"skip-cert", tlsSpec{Skip: true, Certs: []int{2, 3}}},
	{"skip-sname", tlsSpec{Skip: true, SName: "other.test"}},
	{"wrongroot-sname", tlsSpec{Roots: []int{2}, SName: "c12.test"}},
	{"two-roots", tlsSpec{Roots: []int{1, 2}}},
	{"two-roots-rev", tlsSpec{Roots: []int{2, 1}}},
}

// ops that bring a client from setting `from` (nil = untouched) to setting `to`
// setter: "mut" (GetTLSClientConfig mutation through the client's helpers), "set" (SetTLSClientConfig with a
// config that has no NextProtos), "set-np" (SetTLSClientConfig with NextProtos h2, http/1.1)
func tlsOps(setter string, to tlsSpec, from *tlsSpec) []op {
	switch setter {
	case "set", "set-np":
		t := to
		if setter == "set-np" {
			t.Next = []string{"h2", "http/1.1"}
		}
		return []op{{K: "settls", TLS: &t}}
	}
	var out []op
	mutable := from == nil
	if from != nil {
		// mutation can only add roots / certs: otherwise start again from a nil config
		mutable = isPrefix(from.Roots, to.Roots) && isPrefix(from.Certs, to.Certs)
		if !mutable {
			out = append(out, op{K: "settls", TLS: &tlsSpec{Nil: true}})
			from = nil
		}
	}
	var f tlsSpec
	if from != nil {
		f = *from
	}
	for i, r := range to.Roots[len(f.Roots):] {
		// a root added to a pool that already has one goes through the file setter (roots accumulate over setters)
		out = append(out, op{K: "root", N: r, B: len(f.Roots)+i > 0})
	}
	for _, k := range to.Certs[len(f.Certs):] {
		out = append(out, op{K: "cert", N: k})
	}
	if to.Skip != f.Skip {
		out = append(out, op{K: "skip", B: to.Skip})
	}
	if to.SName != f.SName {
		out = append(out, op{K: "sname", S: to.SName})
	}
	return out
}

func isPrefix(a, b []int) bool {
	if len(a) > len(b) {
		return false
	}
	for i := range a {
		if a[i] != b[i] {
			return false
		}
	}
	return true
}

func protoOps(force int, h3 bool, h3First bool) []op {
	var out []op
	if h3 && h3First {
		out = append(out, op{K: "h3"})
	}
	if force != 0 {
		out = append(out, op{K: "force", N: force})
	}
	if h3 && !h3First {
		out = append(out, op{K: "h3"})
	}
	return out
}

func reqs(n int) []op {
	var out []op
	for i := 0; i < n; i++ {
		out = append(out, op{K: "req"})
	}
	return out
}

func cat(xs ...[]op) []op {
	var out []op
	for _, x := range xs {
		out = append(out, x...)
	}
	return out
}

var lives = []string{"fresh", "clone", "clone-then-config", "changed", "switch", "clone-reconfig", "fork", "usertls", "twohosts", "closereq", "proxy", "fingerprint"}

// requests to the origin's name h (0 = localhost, 1 = 127.0.0.1), optionally carrying Connection: close
func rq(h int, cl bool) []op { return []op{{K: "req", H: h, C: cl}} }

// configurations of caller-supplied TLS functions (SetDialTLS / SetTLSHandshake)
var userSpecs = []tlsSpec{
	{Roots: []int{1}, Next: []string{"h2", "http/1.1"}},
	{Roots: []int{1}, Next: []string{"http/1.1"}},
	{Roots: []int{2}, Next: []string{"h2", "http/1.1"}},
	{Skip: true},
	{Roots: []int{1}, Next: []string{"h2"}},
	{Roots: []int{1}, SName: "other.test", Next: []string{"http/1.1", "h2"}},
	{Roots: []int{1}, SName: "c12.test", Certs: []int{3}, Next: []string{"h2", "http/1.1"}},
	{Skip: true, Certs: []int{3}, Next: []string{"http/1.1", "h2"}},
}

// the structured matrix
func matrix(specs []srvSpec) []cell {
	var cells []cell
	for _, sp := range specs {
		if !sp.HTTPS {
			continue
		}
		if sp.AltSvc && !sp.H3 {
			// h3 advertised, nobody listening: behaviour depends on time once quic-go's handshake timeout
			// (5 s) is near; keep to short sequences that stay well inside it (client timeout 1.5 s)
			for _, setter := range []string{"mut", "set", "set-np"} {
				for _, f := range []int{0, 1, 2} {
					cells = append(cells, cell{Shape: fmt.Sprintf("deadadvert-f%d-%s", f, setter), Spec: sp,
						Ops: cat(tlsOps(setter, tlsSettings[1].T, nil), protoOps(f, true, true), reqs(3))})
				}
			}
			continue
		}
		for force := 0; force <= 3; force++ {
			for _, h3 := range []bool{false, true} {
				if force == 3 && !h3 {
					continue // EnableForceHTTP3 enables HTTP/3 itself
				}
				for si, ts := range tlsSettings {
					needsCertSrv := len(ts.T.Certs) > 0
					if needsCertSrv != sp.NeedCert && !(sp.NeedCert && ts.Name == "root") {
						continue
					}
					for ti, setter := range []string{"mut", "set", "set-np"} {
						for _, life := range lives {
							po := protoOps(force, h3 && force != 3, (si+force)%2 == 0)
							other := tlsSettings[(si+1+force)%len(tlsSettings)]
							if force == 3 && life == "changed" {
								// HTTP/3 connections survive CloseIdleConnections: a NEW QUIC dial after the change needs the
								// first one to have failed - start from the wrong root (or, for it, from the issuing one)
								other = tlsSettings[2]
								if si == 2 || si == 10 {
									other = tlsSettings[1]
								}
							}
							wrap := []op{}
							if (si+ti+force)%2 == 1 {
								wrap = []op{{K: "wrap"}} // transport middleware: a clone's chain must end in the CLONE's round trip
							}
							var ops []op
							pk := 0
							companion := false
							switch life {
							case "switch":
								// use the client, THEN force another version (or lift the forcing), use it, go back
								f1 := (force + 1 + (si+ti)%3) % 4
								if f1 == 3 && !sp.H3 {
									f1 = (force + 1 + (si+ti+1)%3) % 4
									if f1 == 3 {
										f1 = (force + 1 + (si+ti+2)%3) % 4
									}
								}
								ops = cat(tlsOps(setter, ts.T, nil), po, reqs(2), []op{{K: "force", N: f1}}, reqs(2),
									[]op{{K: "force", N: force}}, reqs(1))
							case "clone-reconfig":
								// the original already carries non-default settings and connections; the clone is re-configured
								f1 := []op{}
								if len(wrap) > 0 && force != 3 {
									f1 = []op{{K: "force", N: (force + 1) % 3}} // the clone also forces another version
								}
								ops = cat(tlsOps(setter, other.T, nil), wrap, po, reqs(1), []op{{K: "clone"}},
									tlsOps(setter, ts.T, &other.T), f1, reqs(2))
							case "usertls":
								// the caller brings his own TLS for HTTP/1 and HTTP/2 (documented bypass of TLSClientConfig;
								// HTTP/3 stays under the client's settings): protocol selection must still hold, TCP
								// handshakes are governed by the caller's configuration, QUIC ones by the client's
								us := userSpecs[(si*3+ti+force)%len(userSpecs)]
								if force == 1 {
									// HTTP/1.1 forced while the caller's TLS offers h2: the hand-off to HTTP/2 must not happen
									us = userSpecs[[]int{0, 4, 6, 7}[(si+ti)%4]]
								}
								kind := []string{"dialtls", "handshake"}[(si+ti+force)%2]
								wrapped := kind == "dialtls" && (si+force)%2 == 1
								if force == 0 && kind == "dialtls" {
									// nothing forced + a wrapped pkg/tls.Conn from the caller's function: the ALPN result it reports
									// must select the version (configurations that offer h2 and are acceptable to most origins)
									wrapped = true
									us = userSpecs[[]int{0, 7, 6, 0}[(si+ti)%4]]
								}
								on := []op{{K: kind, TLS: &us, W: wrapped}}
								off := []op{{K: kind, TLS: &tlsSpec{Nil: true}}}
								switch (si + 2*ti + force) % 4 {
								case 0:
									ops = cat(tlsOps(setter, ts.T, nil), po, on, reqs(3))
								case 1: // switched on after first use, then off again
									ops = cat(tlsOps(setter, ts.T, nil), po, reqs(1), on, reqs(2), off, []op{{K: "closeidle"}}, reqs(1))
								case 2: // inherited by a clone
									ops = cat(tlsOps(setter, ts.T, nil), on, po, []op{{K: "clone"}}, reqs(2))
								case 3: // both hooks: DialTLSContext wins
									us2 := userSpecs[(si+ti+force+3)%len(userSpecs)]
									ops = cat(tlsOps(setter, ts.T, nil), po, []op{{K: "handshake", TLS: &us2}, {K: "dialtls", TLS: &us}}, reqs(2),
										[]op{{K: "dialtls", TLS: &tlsSpec{Nil: true}}, {K: "closeidle"}}, reqs(2))
								}
							case "twohosts":
								// the same origin under two authorities: connection caches are per authority, the settings
								// are the client's - nothing of a connection to one name may show in a connection to the other
								a, b := (si+ti+force)%2, 1-(si+ti+force)%2
								// in a third of the cells the second authority is ANOTHER origin on the same host name
								companion = (si+ti)%3 == 0 && sp.Name != companionSpec.Name && !sp.NeedCert
								switch (si + 2*ti + force) % 3 {
								case 0:
									ops = cat(tlsOps(setter, ts.T, nil), po, rq(a, false), rq(b, false), rq(a, false), rq(b, false))
								case 1: // settings changed between the two names, connections dropped
									ops = cat(tlsOps(setter, other.T, nil), po, rq(a, false), rq(b, false), tlsOps(setter, ts.T, &other.T),
										[]op{{K: "closeidle"}}, rq(b, false), rq(a, false))
								case 2: // forcing switched between the two names, a clone inherits
									f1 := (force + 1) % 3
									ops = cat(tlsOps(setter, ts.T, nil), po, rq(a, false), []op{{K: "force", N: f1}}, rq(b, false),
										[]op{{K: "force", N: force}, {K: "clone"}}, rq(b, false), rq(a, false))
								}
							case "closereq":
								// requests that ask for a connection of their own (Connection: close) between ordinary ones
								h2c := []op{}
								if (si+ti)%3 == 0 {
									h2c = []op{{K: "h2c", B: true}} // h2c concerns http:// only: an https:// request must still be TLS-protected
								}
								switch (si + ti + force) % 3 {
								case 0:
									ops = cat(tlsOps(setter, ts.T, nil), h2c, po, rq(0, true), rq(0, true), rq(0, false))
								case 1:
									ops = cat(tlsOps(setter, ts.T, nil), h2c, po, rq(0, false), rq(0, true), rq(0, false), rq(1, true))
								case 2:
									ops = cat(tlsOps(setter, ts.T, nil), po, rq(0, false), h2c, rq(0, true), []op{{K: "closeidle"}}, rq(0, true), rq(0, false))
								}
							case "proxy":
								// the route through a CONNECT proxy (http:// or https://): the handshake with the ORIGIN inside
								// the tunnel is governed by the settings with the origin's name, a tunnel serves its own
								// authority only, the first hop to an https:// proxy is governed with the proxy's name
								pk = 1 + (si+ti+force)%2
								on, off := []op{{K: "proxy", B: true}}, []op{{K: "proxy"}}
								a, b := (si+force)%2, 1-(si+force)%2
								switch (si + 2*ti + force) % 4 {
								case 0: // two authorities behind the proxy, then direct again
									ops = cat(tlsOps(setter, ts.T, nil), po, on, rq(a, false), rq(b, false), rq(a, false), off, rq(b, false))
								case 1: // switched on after first use; settings changed while tunnelling
									ops = cat(tlsOps(setter, other.T, nil), po, rq(a, false), on, rq(a, false), rq(b, false),
										tlsOps(setter, ts.T, &other.T), []op{{K: "closeidle"}}, rq(b, false), rq(a, false))
								case 2: // caller-supplied TLS (bare or wrapped conn) together with the proxy; a clone inherits both
									us := userSpecs[(si*3+ti+force)%len(userSpecs)]
									kind := []string{"dialtls", "handshake"}[(si+ti)%2]
									ops = cat(tlsOps(setter, ts.T, nil), po, []op{{K: kind, TLS: &us, W: kind == "dialtls" && (si+force)%2 == 0}}, on,
										rq(a, false), rq(b, false), []op{{K: "clone"}}, rq(a, false))
								case 3: // Connection: close through the tunnel, a throw-away clone without the proxy
									ops = cat(tlsOps(setter, ts.T, nil), po, on, rq(a, true), rq(a, false), rq(b, true),
										[]op{{K: "fork", F: &op{K: "proxy"}}}, rq(b, false))
								}
							case "fingerprint":
								// a utls fingerprint handshake (SetTLSFingerprintChrome) is installed: the TCP handshakes still follow
								// the client's settings of the moment - the clone's on a clone, whatever the original's are
								fp := []op{{K: "fp"}}
								switch (si + ti + force) % 4 {
								case 0:
									ops = cat(tlsOps(setter, ts.T, nil), po, fp, rq(0, false), rq(1, false), rq(0, false))
								case 1: // clone, then settings that differ between original and clone
									ops = cat(tlsOps("set", other.T, nil), fp, po, []op{{K: "clone"}}, tlsOps("set", ts.T, &other.T), rq(0, false), rq(1, false))
								case 2: // the ORIGINAL is changed after cloning; settings changed after first use
									ops = cat(fp, tlsOps(setter, ts.T, nil), po, rq(0, false),
										[]op{{K: "clone", F: &op{K: "settls", TLS: &other.T}}}, rq(0, false),
										tlsOps("set", other.T, &ts.T), []op{{K: "closeidle"}}, rq(0, false))
								case 3: // together with the proxy; the fingerprint replaced by a caller's handshake and back
									pk = 1 + (si+force)%2
									us := userSpecs[(si+ti+force)%len(userSpecs)]
									ops = cat(tlsOps(setter, ts.T, nil), po, fp, []op{{K: "proxy", B: true}}, rq(0, false), rq(1, false),
										[]op{{K: "handshake", TLS: &us}, {K: "closeidle"}}, rq(0, false), fp, []op{{K: "closeidle"}}, rq(0, false))
								}
							case "fork":
								// a differently configured clone is used and dropped; the original must not notice
								acts := []*op{nil, {K: "settls", TLS: &other.T}, {K: "skip", B: !ts.T.Skip}, {K: "root", N: 1},
									{K: "sname", S: []string{"other.test", "c12.test"}[ti%2]}, {K: "force", N: (force + 1 + ti) % 4}}
								a := acts[(si+force+ti)%len(acts)]
								if len(ts.T.Roots) > 0 && ts.T.Roots[0] == 2 {
									a = acts[3] // pool without the issuing CA: the clone adds it - a pool shared with the original would show
								}
								if a != nil && a.K == "force" && a.N == 3 && !sp.H3 {
									a = acts[1]
								}
								fk := []op{{K: "fork", F: a}}
								if (si+ti)%2 == 0 {
									ops = cat(tlsOps(setter, ts.T, nil), po, fk, reqs(2))
								} else {
									ops = cat(tlsOps(setter, ts.T, nil), po, reqs(1), fk, []op{{K: "closeidle"}}, reqs(2))
								}
							case "fresh":
								ops = cat(tlsOps(setter, ts.T, nil), po, reqs(3))
							case "clone":
								cl := op{K: "clone"}
								if (si+ti+force)%2 == 0 {
									// the original is changed after cloning: the clone must not notice
									origActs := []*op{{K: "settls", TLS: &other.T}, {K: "skip", B: !ts.T.Skip}, {K: "root", N: 1},
										{K: "sname", S: "other.test"}, {K: "force", N: (force + 1) % 3}}
									cl.F = origActs[(si+force+ti)%len(origActs)]
									if len(ts.T.Roots) > 0 && ts.T.Roots[0] == 2 {
										cl.F = origActs[2] // same, in the other direction
									}
								}
								ops = cat(wrap, tlsOps(setter, ts.T, nil), po, []op{cl}, reqs(3))
							case "clone-then-config":
								ops = cat(po, wrap, reqs(1), []op{{K: "clone"}}, tlsOps(setter, ts.T, nil), reqs(2))
							case "changed":
								// start from another setting, use the client, then move to the target setting
								ops = cat(tlsOps(setter, other.T, nil), po, reqs(2), tlsOps(setter, ts.T, &other.T),
									reqs(1), []op{{K: "closeidle"}}, reqs(2))
							}
							cells = append(cells, cell{
								Shape: fmt.Sprintf("f%d-h3%v-%s-%s-%s", force, h3, ts.Name, setter, life), Life: life, Proxy: pk, Companion: companion,
								Spec:  sp, Ops: ops})
						}
					}
				}
			}
		}
	}
	// https origins with a client on which EnableH2C() was called (h2c concerns plain http only: https
	// requests must still be TLS-protected and governed by the client's settings)
	for _, sp := range specs {
		if !sp.HTTPS || sp.NeedCert || sp.AltSvc != sp.H3 {
			continue
		}
		for force := 0; force <= 3; force++ {
			for _, ts := range []tlsSetting{tlsSettings[1], tlsSettings[2], tlsSettings[3]} {
				for _, h2c := range []string{"on", "on-off", "on-clone"} {
					pre := []op{{K: "h2c", B: true}}
					if h2c == "on-off" {
						pre = append(pre, op{K: "h2c", B: false})
					}
					ops := cat(tlsOps("mut", ts.T, nil), pre, protoOps(force, false, true))
					if h2c == "on-clone" {
						ops = cat(ops, []op{{K: "clone"}})
					}
					ops = cat(ops, reqs(1), rq(0, true), rq(1, true))
					cells = append(cells, cell{Shape: fmt.Sprintf("https-h2c-f%d-%s-%s", force, ts.Name, h2c), Spec: sp, Ops: ops})
				}
			}
		}
	}
	// a NEW QUIC connection after the TLS settings changed (HTTP/3 connections survive CloseIdleConnections, so the
	// earlier dial must have failed, or the client be a clone): the settings of THAT moment govern it
	for _, sp := range specs {
		if !sp.HTTPS || !sp.H3 || sp.NeedCert || sp.NameOnly {
			continue
		}
		for _, setter := range []string{"mut", "set", "set-np"} {
			bad, good := tlsSettings[2].T, tlsSettings[1].T
			cells = append(cells, cell{Shape: "h3redial-f3-" + setter, Spec: sp,
				Ops: cat(tlsOps(setter, bad, nil), protoOps(3, false, true), reqs(1), tlsOps(setter, good, &bad), reqs(2),
					tlsOps(setter, tlsSettings[5].T, &good), []op{{K: "clone"}}, reqs(1))})
			if sp.AltSvc {
				cells = append(cells, cell{Shape: "h3redial-alt-" + setter, Spec: sp,
					Ops: cat(tlsOps(setter, good, nil), protoOps(0, true, true), reqs(2), tlsOps(setter, bad, &good), []op{{K: "clone"}}, reqs(2))})
			}
		}
	}
	// what is learned about one origin (Alt-Svc) stays with its authority: another origin on the SAME host name,
	// different port, without HTTP/3 - after the first one's entry is pending / confirmed
	for _, sp := range specs {
		if !sp.HTTPS || !sp.H3 || !sp.AltSvc || sp.NeedCert {
			continue
		}
		for si, ts := range []tlsSetting{tlsSettings[1], tlsSettings[3], tlsSettings[2]} {
			setter := []string{"mut", "set", "set-np"}[si]
			cells = append(cells, cell{Shape: "samehost-jar-" + ts.Name, Spec: sp, Companion: true,
				Ops: cat(tlsOps(setter, ts.T, nil), protoOps(0, true, true), rq(0, false), rq(0, false), rq(1, false), rq(1, false), rq(0, false))})
			cells = append(cells, cell{Shape: "samehost-pending-" + ts.Name, Spec: sp, Companion: true,
				Ops: cat(tlsOps(setter, ts.T, nil), protoOps(0, true, false), rq(0, false), rq(1, false), rq(0, false), []op{{K: "clone"}}, rq(1, false), rq(0, false))})
		}
	}
	// plain http
	for _, sp := range specs {
		if sp.HTTPS {
			continue
		}
		for force := 0; force <= 3; force++ {
			for _, h3 := range []bool{false, true} {
				if force == 3 && !h3 {
					continue
				}
				for _, h2c := range []string{"off", "on", "on-off", "on-clone", "on-req-off", "on-req-off-on"} {
					var pre []op
					switch h2c {
					case "on":
						pre = []op{{K: "h2c", B: true}}
					case "on-off":
						pre = []op{{K: "h2c", B: true}, {K: "h2c", B: false}}
					case "on-clone":
						pre = []op{{K: "h2c", B: true}}
					}
					ops := cat(pre, protoOps(force, h3 && force != 3, true))
					switch h2c {
					case "on-req-off": // a pooled cleartext h2 connection exists when h2c is switched off
						ops = cat([]op{{K: "h2c", B: true}}, protoOps(force, h3 && force != 3, true), reqs(2), []op{{K: "h2c"}}, reqs(1))
					case "on-req-off-on":
						ops = cat([]op{{K: "h2c", B: true}}, protoOps(force, h3 && force != 3, true), reqs(1), []op{{K: "h2c"}}, reqs(1),
							[]op{{K: "clone"}, {K: "h2c", B: true}}, reqs(1), []op{{K: "h2c"}})
					}
					if h2c == "on-clone" {
						ops = cat(ops, reqs(1), []op{{K: "clone"}})
					}
					ops = cat(ops, reqs(2), rq(0, true), rq(1, false))
					cells = append(cells, cell{Shape: fmt.Sprintf("plain-f%d-h3%v-h2c-%s", force, h3, h2c), Spec: sp, Ops: ops})
				}
			}
		}
	}
	return cells
}

// seeded random walks over the operation alphabet
func randomWalk(rng *hk.Rand, specs []srvSpec) cell {
	sp := hk.Pick(rng, specs)
	n := rng.Range(5, 12)
	var ops []op
	pk := 0
	if sp.HTTPS && rng.Chance(35) {
		pk = rng.Range(1, 2)
		if rng.Chance(60) {
			ops = append(ops, op{K: "proxy", B: true})
		}
	}
	// start from a setting that is likely to be accepted so that the walk gets somewhere
	if sp.HTTPS && rng.Chance(75) {
		ts := hk.Pick(rng, []tlsSetting{tlsSettings[1], tlsSettings[3], tlsSettings[6], tlsSettings[8]})
		ops = append(ops, tlsOps(hk.Pick(rng, []string{"mut", "set", "set-np"}), ts.T, nil)...)
	}
	for i := 0; i < n; i++ {
		switch k := rng.Intn(20); {
		case k < 8:
			r := op{K: "req", C: rng.Chance(20)}
			if rng.Chance(30) {
				r.H = 1
			}
			ops = append(ops, r)
		case k < 11:
			ops = append(ops, op{K: "force", N: rng.Intn(4)})
		case k < 12:
			if rng.Chance(40) {
				ops = append(ops, op{K: "wrap"})
			} else {
				ops = append(ops, op{K: "h3"})
			}
		case k < 13:
			if rng.Chance(50) {
				cl := op{K: "clone"}
				if rng.Chance(50) {
					cl.F = hk.Pick(rng, []*op{{K: "skip", B: rng.Bool()}, {K: "root", N: 1}, {K: "sname", S: "other.test"}, {K: "force", N: rng.Intn(3)}})
				}
				ops = append(ops, cl)
			} else {
				acts := []*op{nil, {K: "skip", B: rng.Bool()}, {K: "root", N: rng.Range(1, 2)}, {K: "sname", S: hk.Pick(rng, []string{"", "c12.test", "other.test"})},
					{K: "force", N: rng.Intn(3)}, {K: "settls", TLS: &tlsSettings[rng.Intn(len(tlsSettings))].T}}
				ops = append(ops, op{K: "fork", F: hk.Pick(rng, acts)})
			}
		case k < 14:
			switch rng.Intn(4) {
			case 0:
				k := hk.Pick(rng, []string{"dialtls", "handshake"})
				ops = append(ops, op{K: k, TLS: &userSpecs[rng.Intn(len(userSpecs))], W: k == "dialtls" && rng.Bool()})
			case 1:
				ops = append(ops, op{K: hk.Pick(rng, []string{"dialtls", "handshake"}), TLS: &tlsSpec{Nil: true}})
			case 2:
				if pk > 0 {
					ops = append(ops, op{K: "proxy", B: rng.Chance(60)})
				} else {
					ops = append(ops, op{K: "closeidle"})
				}
			default:
				ops = append(ops, op{K: "closeidle"})
			}
		case k < 15:
			ops = append(ops, op{K: "skip", B: rng.Bool()})
		case k < 16:
			ops = append(ops, op{K: "root", N: rng.Range(1, 2), B: rng.Bool()})
		case k < 17:
			ops = append(ops, op{K: "cert", N: rng.Range(2, 3)})
		case k < 18:
			ops = append(ops, op{K: "sname", S: hk.Pick(rng, []string{"", "c12.test", "other.test", "localhost"})})
		case k < 19:
			ts := hk.Pick(rng, tlsSettings)
			ops = append(ops, tlsOps(hk.Pick(rng, []string{"set", "set-np"}), ts.T, nil)...)
		default:
			if !sp.HTTPS || rng.Chance(30) {
				ops = append(ops, op{K: "h2c", B: rng.Bool()})
			} else {
				ops = append(ops, op{K: "req"})
			}
		}
	}
	ops = append(ops, op{K: "req"})
	return cell{Shape: "walk", Spec: sp, Ops: ops, Proxy: pk,
		Companion: sp.HTTPS && !sp.NeedCert && sp.Name != companionSpec.Name && rng.Chance(30)}
}

func slowCell(c cell) bool {
	// QUIC dials to a port nobody listens on only end by timeout
	if c.Spec.H3 {
		return false
	}
	if c.Spec.AltSvc {
		return true
	}
	for _, o := range c.Ops {
		if o.K == "force" && o.N == 3 {
			return true
		}
	}
	return false
}

func run(r *hk.Run) {
	r.Header = "From ReqV Require Import Model.C12Run.\nImport ListNotations."
	r.CaseType = "c12_case"
	r.CheckFn = "c12_check"
	r.ShardSize = 250
	r.Rule = "cells = operation sequences (TLS setters, force/enable switches, clone, CloseIdleConnections, GETs) on a fresh req.C() against local TLS/QUIC/plain origins with an in-process PKI; structured matrix (sampled in the quick tier) + seeded random walks. Non-trivial: at least one real TLS or QUIC ClientHello reached a listener during the cell (plain-http cells: at least one request completed). Distinct by (server, operation sequence)."
	rng := hk.NewRand(r.Seed)
	p, err := newPKI()
	if err != nil {
		r.Fail(hk.Failure{Sig: "harness-pki", What: err.Error()})
		return
	}
	specs := allSpecs()
	var fastSpecs []srvSpec
	for _, s := range specs {
		if s.H3 || !s.AltSvc {
			fastSpecs = append(fastSpecs, s)
		}
	}

	var cells []cell
	if r.Replay != "" {
		b, err := os.ReadFile(r.Replay)
		if err == nil {
			var rp struct {
				FailingInputs []struct {
					Input cell `json:"input"`
				} `json:"failing_inputs"`
				ModelMismatches []struct {
					Input struct {
						Input cell `json:"input"`
					} `json:"input"`
				} `json:"model_mismatches"`
			}
			if json.Unmarshal(b, &rp) == nil {
				for _, f := range rp.FailingInputs {
					if len(f.Input.Ops) > 0 {
						cells = append(cells, f.Input)
					}
				}
				for _, f := range rp.ModelMismatches {
					if len(f.Input.Input.Ops) > 0 {
						cells = append(cells, f.Input.Input)
					}
				}
			}
		}
	}
	if len(cells) == 0 {
		all := matrix(specs)
		var fast, slow []cell
		for _, c := range all {
			if slowCell(c) {
				slow = append(slow, c)
			} else {
				fast = append(fast, c)
			}
		}
		r.Notes = append(r.Notes, fmt.Sprintf("matrix: %d cells (%d need a QUIC dial timeout)", len(all), len(slow)))
		if r.Quick() {
			// seeded sample: every (force, server) pair keeps at least a few cells
			// (stratified by lifecycle: each of them gets the same share)
			nFast, nSlow := 420, 3
			byLife := map[string][]cell{}
			for _, c := range fast {
				if c.Life != "" {
					byLife[c.Life] = append(byLife[c.Life], c)
				}
			}
			for _, l := range lives {
				for i := 0; i < nFast/len(lives); i++ {
					cells = append(cells, byLife[l][rng.Intn(len(byLife[l]))])
				}
			}
			var plain []cell
			for _, c := range fast {
				if strings.HasPrefix(c.Shape, "plain-") {
					plain = append(plain, c)
				}
			}
			for i := 0; i < 30; i++ {
				cells = append(cells, plain[rng.Intn(len(plain))])
			}
			for _, c := range fast {
				if strings.HasPrefix(c.Shape, "https-h2c-") && rng.Chance(12) {
					cells = append(cells, c)
				}
				if strings.HasPrefix(c.Shape, "plain-f2") && strings.Contains(c.Shape, "h2c-on-req-off") && rng.Chance(60) {
					cells = append(cells, c) // h2c switched off while a pooled cleartext h2 connection exists
				}
				if strings.HasPrefix(c.Shape, "samehost-") && rng.Chance(40) {
					cells = append(cells, c)
				}
				if strings.HasPrefix(c.Shape, "h3redial-") && rng.Chance(40) {
					cells = append(cells, c)
				}
			}
			for i := 0; i < nSlow; i++ {
				cells = append(cells, slow[rng.Intn(len(slow))])
			}
			for i := 0; i < 160; i++ {
				cells = append(cells, randomWalk(rng, fastSpecs))
			}
		} else {
			cells = append(cells, fast...)
			for i := 0; i < 60; i++ {
				cells = append(cells, slow[rng.Intn(len(slow))])
			}
			for i := 0; i < 3000; i++ {
				cells = append(cells, randomWalk(rng, fastSpecs))
			}
		}
	}

	// workers, each with its own origins (hello logs are per origin, cells on one origin are sequential)
	const workers = 4
	results := make([]cellResult, len(cells))
	var wg sync.WaitGroup
	var startErr error
	var mu sync.Mutex
	for w := 0; w < workers; w++ {
		wg.Add(1)
		go func(w int) {
			defer wg.Done()
			origins := map[string]*origin{}
			defer func() {
				for _, o := range origins {
					o.close()
				}
			}()
			for i := w; i < len(cells); i += workers {
				cl := cells[i]
				o := origins[cl.Spec.Name]
				if o == nil {
					var err error
					o, err = startOrigin(p, cl.Spec)
					if err != nil {
						mu.Lock()
						startErr = err
						mu.Unlock()
						return
					}
					origins[cl.Spec.Name] = o
				}
				var comp *origin
				if cl.Companion {
					comp = origins[companionSpec.Name]
					if comp == nil {
						var err error
						comp, err = startOrigin(p, companionSpec)
						if err != nil {
							mu.Lock()
							startErr = err
							mu.Unlock()
							return
						}
						origins[companionSpec.Name] = comp
					}
				}
				timeout := 30 * time.Second
				if slowCell(cl) {
					timeout = 1500 * time.Millisecond
				}
				var res cellResult
				t0 := time.Now()
				for attempt := 0; attempt < 3; attempt++ {
					res = runCell(p, o, comp, cl, timeout)
					if !res.Unstable {
						break
					}
				}
				res.Dur = time.Since(t0)
				results[i] = res
			}
		}(w)
	}
	// one directed interleaving scenario beside the cells (oracle only), unless a replay is running
	var scenFail *violation
	var scenNote string
	if r.Replay == "" {
		wg.Add(1)
		go func() {
			defer wg.Done()
			defer func() {
				if e := recover(); e != nil {
					scenNote = fmt.Sprintf("scenario inflight-h3-dial: panic: %v", e)
				}
			}()
			scenFail, scenNote = scenarioInflightDial(p)
		}()
	}
	wg.Wait()
	if scenNote != "" {
		r.Notes = append(r.Notes, scenNote)
	}
	if scenFail != nil {
		r.Fail(hk.Failure{Sig: scenFail.Sig, What: scenFail.What, Input: map[string]string{"scenario": "origin A advertises h3 on origin B's port (same host); GET A; as soon as the Alt-Svc dial to B's UDP port is in flight: GET B, nothing forced, HTTP/3 enabled, root CA set"}})
	}
	r.Count("scenario:inflight-h3-dial")
	if startErr != nil {
		r.Fail(hk.Failure{Sig: "harness-origin", What: startErr.Error()})
		return
	}

	seenSig := map[string]bool{}
	kindCount := map[string]int{}
	for i, cl := range cells {
		res := results[i]
		key, _ := json.Marshal(cl)
		nontrivial := res.Dials > 0
		if !cl.Spec.HTTPS {
			for _, o := range res.Obs {
				if o.Outcome == "V1" || o.Outcome == "V2" {
					nontrivial = true
				}
			}
		}
		desc := map[string]interface{}{"input": cl, "observed": res.Obs}
		r.Add(hk.Case{Coq: coqCase(cl, res.Obs), Desc: desc}, string(key), nontrivial)
		r.Count("server:" + cl.Spec.Name)
		if cl.Life != "" {
			r.Count("life:" + cl.Life)
		} else {
			r.Count("life:(" + strings.SplitN(cl.Shape, "-f", 2)[0] + ")")
		}
		for _, o := range res.Obs {
			if o.Kind == "req" {
				r.Count("outcome:" + o.Outcome)
			}
			if o.Kind == "fork" {
				r.Count("fork-outcome:" + o.Outcome)
			}
		}
		if res.Unstable {
			r.Count("unstable-error-after-3-attempts")
		}
		if res.Dur > 10*time.Second {
			r.Count("cell-took-over-10s")
			r.Notes = append(r.Notes, fmt.Sprintf("slow cell %.0fs: %s on %s", res.Dur.Seconds(), cl.Shape, cl.Spec.Name))
		}
		if res.Retried > 0 {
			r.Count("retry-hellos-collapsed")
		}
		sort.SliceStable(res.Viol, func(a, b int) bool { return res.Viol[a].At < res.Viol[b].At })
		for _, v := range res.Viol {
			// at most 4 reports per kind of violation; the kind is everything before the cell's shape, so that
			// the reports of a known finding cannot use up the quota of a different violation
			kind := strings.SplitN(v.Sig, "/"+cl.Shape, 2)[0]
			if seenSig[v.Sig] || kindCount[kind] >= 4 {
				continue
			}
			seenSig[v.Sig] = true
			kindCount[kind]++
			r.Fail(hk.Failure{Sig: v.Sig, What: v.What, Input: cl, Got: res.Obs})
		}
	}
}
