package main

import (
	"os"

	"github.com/imroc/req/v3/verifharness/hk"
)

func main() {
	if len(os.Args) > 1 && os.Args[1] == "repro-h3tls" {
		reproH3TLS()
		return
	}
	hk.Main("C12", run, syncers)
}

var syncers = map[string]hk.Gosyncer{}

func run(r *hk.Run) {}
