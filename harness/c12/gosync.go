package main

// gosync for C12: regenerate coq/Gen/ProtoTables.v from the Go source:
//   - the ALPN lists the client offers by default (transport.go T(), client.go GetTLSClientConfig),
//   - the ALPN tokens of HTTP/2 and HTTP/3 (internal/http2 NextProtoTLS, internal/http3 NextProtoH3),
//   - the forceHttpVersion constants, the Alt-Svc protocols the transport accepts,
//   - three structural facts the model branches on:
//       h3_shadow_tls_field   : http3.RoundTripper declares its own TLSClientConfig field
//                               (then r.TLSClientConfig in dial is NOT the client's Options field),
//       altsvc_only_unforced  : in Transport.roundTrip the checkAltSvc call is guarded by
//                               `t.forceHttpVersion == ""`,
//       clone_copies_allow_http : Transport.Clone copies t2.AllowHTTP into the clone's h2 transport,
//       closeidle_closes_h3   : Transport.CloseIdleConnections also closes t3's connections.
// Proofs Require the generated file, so a change of any of these breaks the proof or the tie.

import (
	"fmt"
	"go/ast"
	"go/parser"
	"go/token"
	"path/filepath"
	"sort"
	"strconv"
	"strings"

	"github.com/imroc/req/v3/verifharness/hk"
)

var syncers = map[string]hk.Gosyncer{"ProtoTables": syncProto}

func parseGo(repo, rel string) (*ast.File, error) {
	return parser.ParseFile(token.NewFileSet(), filepath.Join(repo, rel), nil, 0)
}

func funcDecl(f *ast.File, recv, name string) *ast.FuncDecl {
	for _, d := range f.Decls {
		fd, ok := d.(*ast.FuncDecl)
		if !ok || fd.Name.Name != name {
			continue
		}
		if recv == "" {
			if fd.Recv == nil {
				return fd
			}
			continue
		}
		if fd.Recv == nil || len(fd.Recv.List) != 1 {
			continue
		}
		t := fd.Recv.List[0].Type
		if st, ok := t.(*ast.StarExpr); ok {
			t = st.X
		}
		if id, ok := t.(*ast.Ident); ok && id.Name == recv {
			return fd
		}
	}
	return nil
}

// nextProtosLiteral finds the first `NextProtos: []string{...}` key/value below n.
func nextProtosLiteral(n ast.Node) ([]string, bool) {
	var out []string
	found := false
	ast.Inspect(n, func(x ast.Node) bool {
		if found {
			return false
		}
		kv, ok := x.(*ast.KeyValueExpr)
		if !ok {
			return true
		}
		if id, ok := kv.Key.(*ast.Ident); !ok || id.Name != "NextProtos" {
			return true
		}
		cl, ok := kv.Value.(*ast.CompositeLit)
		if !ok {
			return true
		}
		for _, e := range cl.Elts {
			bl, ok := e.(*ast.BasicLit)
			if !ok || bl.Kind != token.STRING {
				return true
			}
			s, _ := strconv.Unquote(bl.Value)
			out = append(out, s)
		}
		found = true
		return false
	})
	return out, found
}

func stringConst(f *ast.File, name string) (string, bool) {
	for _, d := range f.Decls {
		gd, ok := d.(*ast.GenDecl)
		if !ok || gd.Tok != token.CONST {
			continue
		}
		for _, sp := range gd.Specs {
			vs := sp.(*ast.ValueSpec)
			for i, n := range vs.Names {
				if n.Name == name && i < len(vs.Values) {
					if bl, ok := vs.Values[i].(*ast.BasicLit); ok && bl.Kind == token.STRING {
						s, _ := strconv.Unquote(bl.Value)
						return s, true
					}
				}
			}
		}
	}
	return "", false
}

func isSel(e ast.Expr, x, sel string) bool {
	s, ok := e.(*ast.SelectorExpr)
	if !ok || s.Sel.Name != sel {
		return false
	}
	id, ok := s.X.(*ast.Ident)
	return ok && id.Name == x
}

func containsCall(n ast.Node, recv, method string) bool {
	hit := false
	ast.Inspect(n, func(x ast.Node) bool {
		if c, ok := x.(*ast.CallExpr); ok && isSel(c.Fun, recv, method) {
			hit = true
		}
		return !hit
	})
	return hit
}

func coqBytesList(xs []string) string { return hk.CoqStrList(xs) }

func syncProto(repo string) (string, string, error) {
	tr, err := parseGo(repo, "transport.go")
	if err != nil {
		return "", "", err
	}
	cl, err := parseGo(repo, "client.go")
	if err != nil {
		return "", "", err
	}
	h2f, err := parseGo(repo, "internal/http2/http2.go")
	if err != nil {
		return "", "", err
	}
	h3srv, err := parseGo(repo, "internal/http3/server.go")
	if err != nil {
		return "", "", err
	}
	h3rt, err := parseGo(repo, "internal/http3/roundtrip.go")
	if err != nil {
		return "", "", err
	}

	// default ALPN offers
	fT := funcDecl(tr, "", "T")
	if fT == nil {
		return "", "", fmt.Errorf("transport.go: func T not found")
	}
	defNP, ok := nextProtosLiteral(fT)
	if !ok {
		return "", "", fmt.Errorf("transport.go T(): NextProtos literal not found")
	}
	fG := funcDecl(cl, "Client", "GetTLSClientConfig")
	if fG == nil {
		return "", "", fmt.Errorf("client.go: GetTLSClientConfig not found")
	}
	getNP, ok := nextProtosLiteral(fG)
	if !ok {
		return "", "", fmt.Errorf("client.go GetTLSClientConfig: NextProtos literal not found")
	}
	alpnH2, ok := stringConst(h2f, "NextProtoTLS")
	if !ok {
		return "", "", fmt.Errorf("internal/http2: NextProtoTLS not found")
	}
	alpnH3, ok := stringConst(h3srv, "NextProtoH3")
	if !ok {
		return "", "", fmt.Errorf("internal/http3: NextProtoH3 not found")
	}
	var force [3]string
	for i, n := range []string{"h1", "h2", "h3"} {
		force[i], ok = stringConst(tr, n)
		if !ok {
			return "", "", fmt.Errorf("transport.go: const %s not found", n)
		}
	}
	// allowedProtocols map keys
	var allowed []string
	for _, d := range tr.Decls {
		gd, ok := d.(*ast.GenDecl)
		if !ok || gd.Tok != token.VAR {
			continue
		}
		for _, sp := range gd.Specs {
			vs := sp.(*ast.ValueSpec)
			if len(vs.Names) == 1 && vs.Names[0].Name == "allowedProtocols" && len(vs.Values) == 1 {
				if c, ok := vs.Values[0].(*ast.CompositeLit); ok {
					for _, e := range c.Elts {
						kv := e.(*ast.KeyValueExpr)
						k, _ := strconv.Unquote(kv.Key.(*ast.BasicLit).Value)
						if id, ok := kv.Value.(*ast.Ident); ok && id.Name == "true" {
							allowed = append(allowed, k)
						}
					}
				}
			}
		}
	}
	sort.Strings(allowed)
	if len(allowed) == 0 {
		return "", "", fmt.Errorf("transport.go: allowedProtocols not found")
	}

	// structural fact 1: shadowing field in http3.RoundTripper
	shadow := false
	for _, d := range h3rt.Decls {
		gd, ok := d.(*ast.GenDecl)
		if !ok || gd.Tok != token.TYPE {
			continue
		}
		for _, sp := range gd.Specs {
			ts := sp.(*ast.TypeSpec)
			st, ok := ts.Type.(*ast.StructType)
			if !ok || ts.Name.Name != "RoundTripper" {
				continue
			}
			for _, fld := range st.Fields.List {
				for _, n := range fld.Names {
					if n.Name == "TLSClientConfig" {
						shadow = true
					}
				}
			}
		}
	}
	// the h3 dial must read r.TLSClientConfig (whatever that resolves to) - otherwise the model is stale
	fDial := funcDecl(h3rt, "RoundTripper", "dial")
	if fDial == nil {
		return "", "", fmt.Errorf("internal/http3/roundtrip.go: dial not found")
	}
	readsTLS := false
	ast.Inspect(fDial, func(x ast.Node) bool {
		if isSelExpr(x, "r", "TLSClientConfig") {
			readsTLS = true
		}
		return true
	})
	if !readsTLS {
		return "", "", fmt.Errorf("http3 dial no longer reads r.TLSClientConfig: model out of date")
	}

	// structural fact 2: checkAltSvc guarded by forceHttpVersion == ""
	fRT := funcDecl(tr, "Transport", "roundTrip")
	if fRT == nil {
		return "", "", fmt.Errorf("transport.go: roundTrip not found")
	}
	guarded, seen := false, false
	for _, st := range fRT.Body.List {
		if is, ok := st.(*ast.IfStmt); ok && containsCall(is.Body, "t", "checkAltSvc") {
			seen = true
			if be, ok := is.Cond.(*ast.BinaryExpr); ok && be.Op == token.EQL && isSel(be.X, "t", "forceHttpVersion") {
				if bl, ok := be.Y.(*ast.BasicLit); ok && bl.Value == `""` {
					guarded = true
				}
			}
			break
		}
		if containsCall(st, "t", "checkAltSvc") {
			seen = true
			break
		}
		// the forced-version switch must come after the checkAltSvc statement in both shapes
		if is, ok := st.(*ast.IfStmt); ok {
			if be, ok := is.Cond.(*ast.BinaryExpr); ok && isSel(be.X, "t", "forceHttpVersion") && be.Op == token.NEQ {
				return "", "", fmt.Errorf("roundTrip: forced-version switch now precedes checkAltSvc: model out of date")
			}
		}
	}
	if !seen {
		return "", "", fmt.Errorf("roundTrip: checkAltSvc call not found at top level")
	}

	// structural fact 3: Clone copies AllowHTTP
	fClone := funcDecl(tr, "Transport", "Clone")
	if fClone == nil {
		return "", "", fmt.Errorf("transport.go: Clone not found")
	}
	copiesAllow := false
	ast.Inspect(fClone, func(x ast.Node) bool {
		switch v := x.(type) {
		case *ast.KeyValueExpr:
			if id, ok := v.Key.(*ast.Ident); ok && id.Name == "AllowHTTP" {
				copiesAllow = true
			}
		case *ast.AssignStmt:
			for _, l := range v.Lhs {
				if s, ok := l.(*ast.SelectorExpr); ok && s.Sel.Name == "AllowHTTP" {
					copiesAllow = true
				}
			}
		}
		return true
	})

	// structural fact 4: CloseIdleConnections touches t3
	fCI := funcDecl(tr, "Transport", "CloseIdleConnections")
	if fCI == nil {
		return "", "", fmt.Errorf("transport.go: CloseIdleConnections not found")
	}
	closesH3 := false
	ast.Inspect(fCI, func(x ast.Node) bool {
		if isSelExpr(x, "t", "t3") {
			closesH3 = true
		}
		return true
	})

	// structural facts 5-8 (round 2): where each stack takes its Options / tls.Config from
	//   clone_own_options      : Transport.Clone builds the clone's Options with t.Options.Clone() and hands the
	//                            clone's http2 transport a pointer to the CLONE's Options (&tt.Options)
	//   t3_shares_options      : EnableHTTP3 hands the http3 round tripper a pointer to the transport's Options
	//   h3_dial_config_per_dial: http3 dial derives its tls.Config from r.TLSClientConfig on every call
	//                            (assignment at the top level of dial, not inside a closure such as once.Do)
	//   h2_config_per_dial     : http2 newTLSConfig clones t.TLSClientConfig on every call (same rule)
	cloneOwn, cloneOpts := false, false
	ast.Inspect(fClone, func(x ast.Node) bool {
		kv, ok := x.(*ast.KeyValueExpr)
		if !ok {
			return true
		}
		if id, ok := kv.Key.(*ast.Ident); !ok || id.Name != "Options" {
			return true
		}
		if u, ok := kv.Value.(*ast.UnaryExpr); ok && u.Op == token.AND && isSel(u.X, "tt", "Options") {
			cloneOwn = true
		}
		if c, ok := kv.Value.(*ast.CallExpr); ok {
			if se, ok := c.Fun.(*ast.SelectorExpr); ok && se.Sel.Name == "Clone" && isSel(se.X, "t", "Options") {
				cloneOpts = true
			}
		}
		return true
	})
	fE3 := funcDecl(tr, "Transport", "EnableHTTP3")
	if fE3 == nil {
		return "", "", fmt.Errorf("transport.go: EnableHTTP3 not found")
	}
	t3Shares := false
	ast.Inspect(fE3, func(x ast.Node) bool {
		if kv, ok := x.(*ast.KeyValueExpr); ok {
			if id, ok := kv.Key.(*ast.Ident); ok && id.Name == "Options" {
				if u, ok := kv.Value.(*ast.UnaryExpr); ok && u.Op == token.AND && isSel(u.X, "t", "Options") {
					t3Shares = true
				}
			}
		}
		return true
	})
	// X.TLSClientConfig read by an assignment outside any function literal
	clonesPerCall := func(fd *ast.FuncDecl, recv string) bool {
		hit := false
		ast.Inspect(fd.Body, func(x ast.Node) bool {
			if _, ok := x.(*ast.FuncLit); ok {
				return false
			}
			if as, ok := x.(*ast.AssignStmt); ok {
				for _, rhs := range as.Rhs {
					ast.Inspect(rhs, func(y ast.Node) bool {
						if _, ok := y.(*ast.FuncLit); ok {
							return false
						}
						if isSelExpr(y, recv, "TLSClientConfig") {
							hit = true
						}
						return true
					})
				}
			}
			return true
		})
		return hit
	}
	h3PerDial := clonesPerCall(fDial, "r")
	h2tr, err := parseGo(repo, "internal/http2/transport.go")
	if err != nil {
		return "", "", err
	}
	fNew := funcDecl(h2tr, "Transport", "newTLSConfig")
	if fNew == nil {
		return "", "", fmt.Errorf("internal/http2/transport.go: newTLSConfig not found")
	}
	h2PerDial := clonesPerCall(fNew, "t")

	// structural facts 9-10: h2c
	//   h2c_installs_plain_dialtls : Transport.EnableH2C assigns DialTLSContext (the pinned code installed a plain
	//                                net.Dial there, which every https connection of the client then used)
	//   h2_plain_dial_for_http     : http2 dialClientConn takes a `plain` flag and dials without the TLS hooks when
	//                                it is set (first statement mentioning it precedes the dialTLS call)
	fH2C := funcDecl(tr, "Transport", "EnableH2C")
	if fH2C == nil {
		return "", "", fmt.Errorf("transport.go: EnableH2C not found")
	}
	h2cInstalls := false
	ast.Inspect(fH2C, func(x ast.Node) bool {
		if as, ok := x.(*ast.AssignStmt); ok {
			for _, l := range as.Lhs {
				if se, ok := l.(*ast.SelectorExpr); ok && se.Sel.Name == "DialTLSContext" {
					h2cInstalls = true
				}
			}
		}
		return true
	})
	fDCC := funcDecl(h2tr, "Transport", "dialClientConn")
	if fDCC == nil {
		return "", "", fmt.Errorf("internal/http2/transport.go: dialClientConn not found")
	}
	plainParam := false
	for _, f := range fDCC.Type.Params.List {
		for _, n := range f.Names {
			if n.Name == "plain" {
				plainParam = true
			}
		}
	}
	plainFirst := false
	if plainParam {
		for _, st := range fDCC.Body.List {
			if is, ok := st.(*ast.IfStmt); ok {
				if id, ok := is.Cond.(*ast.Ident); ok && id.Name == "plain" && !containsCall(is.Body, "t", "dialTLS") {
					plainFirst = true
					break
				}
			}
			if containsCall(st, "t", "dialTLS") {
				break
			}
		}
	}

	// structural fact 11: every call of dialClientConn passes the scheme of THE REQUEST (isPlainHTTP(req), or the
	// dialCall's plain field which getStartDialLocked fills from it) as its `plain` argument
	pool, err := parseGo(repo, "internal/http2/client_conn_pool.go")
	if err != nil {
		return "", "", err
	}
	plainFromReq, nCalls := true, 0
	okArg := func(e ast.Expr) bool {
		if c, ok := e.(*ast.CallExpr); ok {
			if id, ok := c.Fun.(*ast.Ident); ok && id.Name == "isPlainHTTP" && len(c.Args) == 1 {
				if a, ok := c.Args[0].(*ast.Ident); ok && a.Name == "req" {
					return true
				}
			}
		}
		return isSel(e, "c", "plain")
	}
	for _, f := range []*ast.File{pool, h2tr} {
		ast.Inspect(f, func(x ast.Node) bool {
			c, ok := x.(*ast.CallExpr)
			if !ok {
				return true
			}
			se, ok := c.Fun.(*ast.SelectorExpr)
			if !ok {
				return true
			}
			switch se.Sel.Name {
			case "dialClientConn":
				nCalls++
				if len(c.Args) != 4 || !okArg(c.Args[3]) {
					plainFromReq = false
				}
			case "getStartDialLocked":
				nCalls++
				if len(c.Args) != 3 || !okArg(c.Args[2]) {
					plainFromReq = false
				}
			}
			return true
		})
	}
	if nCalls == 0 {
		plainFromReq = false
	}

	// structural fact 12: connectMethod.key() drops the target address only for a plain-http target behind an
	// http/https proxy: the one assignment `targetAddr = ""` sits in an if whose condition is
	// `(...) && cm.targetScheme == "http"` - an https target (CONNECT tunnel + TLS session with ONE origin) stays
	// in the key, so a tunnel is reused for its own authority only
	fKey := funcDecl(tr, "connectMethod", "key")
	if fKey == nil {
		return "", "", fmt.Errorf("transport.go: connectMethod.key not found")
	}
	keyOK, nClear := true, 0
	var walk func(n ast.Node, guarded bool)
	walk = func(n ast.Node, guarded bool) {
		ast.Inspect(n, func(x ast.Node) bool {
			switch v := x.(type) {
			case *ast.IfStmt:
				g := guarded
				if be, ok := v.Cond.(*ast.BinaryExpr); ok && be.Op == token.LAND {
					if r, ok := be.Y.(*ast.BinaryExpr); ok && r.Op == token.EQL && isSel(r.X, "cm", "targetScheme") {
						if bl, ok := r.Y.(*ast.BasicLit); ok && bl.Value == `"http"` {
							g = true
						}
					}
				}
				if v.Init != nil {
					walk(v.Init, guarded)
				}
				walk(v.Body, g)
				if v.Else != nil {
					walk(v.Else, guarded)
				}
				return false
			case *ast.AssignStmt:
				for i, l := range v.Lhs {
					if id, ok := l.(*ast.Ident); ok && id.Name == "targetAddr" && i < len(v.Rhs) {
						if bl, ok := v.Rhs[i].(*ast.BasicLit); ok && bl.Value == `""` {
							nClear++
							if !guarded {
								keyOK = false
							}
						}
					}
				}
			}
			return true
		})
	}
	walk(fKey.Body, false)
	// the key must still carry the address
	hasAddr := false
	ast.Inspect(fKey, func(x ast.Node) bool {
		if kv, ok := x.(*ast.KeyValueExpr); ok {
			if id, ok := kv.Key.(*ast.Ident); ok && id.Name == "addr" {
				if v, ok := kv.Value.(*ast.Ident); ok && v.Name == "targetAddr" {
					hasAddr = true
				}
			}
		}
		return true
	})

	// structural fact 13: netutil.AuthorityKey - the key of pendingAltSvcs and of the AltSvcJar - is built from the
	// full authority (AuthorityAddr: host AND port), so what is learned from one origin stays with its authority
	nu, err := parseGo(repo, "internal/netutil/addr.go")
	if err != nil {
		return "", "", err
	}
	fAK := funcDecl(nu, "", "AuthorityKey")
	if fAK == nil {
		return "", "", fmt.Errorf("internal/netutil/addr.go: AuthorityKey not found")
	}
	keyHasPort := false
	if len(fAK.Body.List) == 1 {
		if rs, ok := fAK.Body.List[0].(*ast.ReturnStmt); ok && len(rs.Results) == 1 {
			ast.Inspect(rs.Results[0], func(x ast.Node) bool {
				if c, ok := x.(*ast.CallExpr); ok {
					if id, ok := c.Fun.(*ast.Ident); ok && id.Name == "AuthorityAddr" {
						keyHasPort = true
					}
				}
				return true
			})
		}
	}

	// structural fact 14: in Transport.Clone every function literal that ends a middleware chain calls the CLONE's
	// roundTrip (tt.roundTrip), never the original's (t.roundTrip)
	mwClone, mwSeen := true, false
	ast.Inspect(fClone, func(x ast.Node) bool {
		fl, ok := x.(*ast.FuncLit)
		if !ok {
			return true
		}
		ast.Inspect(fl.Body, func(y ast.Node) bool {
			if c, ok := y.(*ast.CallExpr); ok {
				if isSel(c.Fun, "tt", "roundTrip") {
					mwSeen = true
				}
				if isSel(c.Fun, "t", "roundTrip") {
					mwClone = false
				}
			}
			return true
		})
		return true
	})

	// structural fact 15: RoundTrip (roundtrip.go) hands an Alt-Svc header to handleAltSvc only for https requests
	// (the if statement containing the call tests req.URL.Scheme == "https")
	rtf, err := parseGo(repo, "roundtrip.go")
	if err != nil {
		return "", "", err
	}
	altHTTPSOnly := false
	ast.Inspect(rtf, func(x ast.Node) bool {
		is, ok := x.(*ast.IfStmt)
		if !ok || !containsCall(is.Body, "t", "handleAltSvc") {
			return true
		}
		ast.Inspect(is.Cond, func(y ast.Node) bool {
			if be, ok := y.(*ast.BinaryExpr); ok && be.Op == token.EQL {
				if bl, ok := be.Y.(*ast.BasicLit); ok && bl.Value == `"https"` {
					if se, ok := be.X.(*ast.SelectorExpr); ok && se.Sel.Name == "Scheme" {
						altHTTPSOnly = true
					}
				}
			}
			return true
		})
		return true
	})

	var sb strings.Builder
	sb.WriteString("(* GENERATED by harness/c12 gosync from transport.go, client.go, internal/http2/http2.go,\n   internal/http3/server.go, internal/http3/roundtrip.go - do not edit *)\n")
	sb.WriteString("From ReqV Require Import Lib.Bytes.\nImport ListNotations.\n\n")
	fmt.Fprintf(&sb, "(* transport.go T(): TLSClientConfig.NextProtos of a new Transport: %q *)\n", defNP)
	fmt.Fprintf(&sb, "Definition default_next_protos : list bytes := %s.\n", coqBytesList(defNP))
	fmt.Fprintf(&sb, "(* client.go GetTLSClientConfig: NextProtos of the config created when none is set: %q *)\n", getNP)
	fmt.Fprintf(&sb, "Definition getcfg_next_protos : list bytes := %s.\n", coqBytesList(getNP))
	fmt.Fprintf(&sb, "(* ALPN tokens: http2.NextProtoTLS = %q, http3.NextProtoH3 = %q *)\n", alpnH2, alpnH3)
	fmt.Fprintf(&sb, "Definition alpn_h2 : bytes := %s.\nDefinition alpn_h3 : bytes := %s.\n", hk.CoqStr(alpnH2), hk.CoqStr(alpnH3))
	fmt.Fprintf(&sb, "(* forceHttpVersion constants h1, h2, h3 = %q *)\n", force)
	fmt.Fprintf(&sb, "Definition force_consts : list bytes := %s.\n", coqBytesList(force[:]))
	fmt.Fprintf(&sb, "(* allowedProtocols (Alt-Svc protocols the transport acts on): %q *)\n", allowed)
	fmt.Fprintf(&sb, "Definition allowed_alt_protocols : list bytes := %s.\n", coqBytesList(allowed))
	fmt.Fprintf(&sb, "(* http3.RoundTripper declares its own TLSClientConfig field (shadowing Options') *)\nDefinition h3_shadow_tls_field : bool := %s.\n", hk.CoqBool(shadow))
	fmt.Fprintf(&sb, "(* Transport.roundTrip: checkAltSvc only runs when forceHttpVersion == \"\" *)\nDefinition altsvc_only_unforced : bool := %s.\n", hk.CoqBool(guarded))
	fmt.Fprintf(&sb, "(* Transport.Clone copies t2.AllowHTTP *)\nDefinition clone_copies_allow_http : bool := %s.\n", hk.CoqBool(copiesAllow))
	fmt.Fprintf(&sb, "(* Transport.CloseIdleConnections also closes HTTP/3 connections *)\nDefinition closeidle_closes_h3 : bool := %s.\n", hk.CoqBool(closesH3))
	fmt.Fprintf(&sb, "(* Transport.Clone: Options: t.Options.Clone() and the clone's http2 transport gets &tt.Options *)\nDefinition clone_own_options : bool := %s.\n", hk.CoqBool(cloneOwn && cloneOpts))
	fmt.Fprintf(&sb, "(* EnableHTTP3: http3.RoundTripper{Options: &t.Options} *)\nDefinition t3_shares_options : bool := %s.\n", hk.CoqBool(t3Shares))
	fmt.Fprintf(&sb, "(* http3 dial / http2 newTLSConfig derive the tls.Config from the client's on every call *)\nDefinition h3_dial_config_per_dial : bool := %s.\nDefinition h2_config_per_dial : bool := %s.\n", hk.CoqBool(h3PerDial), hk.CoqBool(h2PerDial))
	fmt.Fprintf(&sb, "(* Transport.EnableH2C assigns DialTLSContext *)\nDefinition h2c_installs_plain_dialtls : bool := %s.\n", hk.CoqBool(h2cInstalls))
	fmt.Fprintf(&sb, "(* http2 dialClientConn dials http:// requests (h2c) without the TLS hooks *)\nDefinition h2_plain_dial_for_http : bool := %s.\n", hk.CoqBool(plainFirst))
	fmt.Fprintf(&sb, "(* every dialClientConn / getStartDialLocked call derives `plain` from the request's scheme (%d call sites) *)\nDefinition h2_plain_from_request_scheme : bool := %s.\n", nCalls, hk.CoqBool(plainFromReq && plainParam))
	fmt.Fprintf(&sb, "(* connectMethod.key(): the target address is dropped only for plain-http targets behind a proxy (%d guarded clearing(s)) *)\nDefinition pool_key_keeps_https_target : bool := %s.\n", nClear, hk.CoqBool(keyOK && hasAddr))
	fmt.Fprintf(&sb, "(* netutil.AuthorityKey = scheme + \"://\" + AuthorityAddr(scheme, host): the Alt-Svc bookkeeping is keyed by host AND port *)\nDefinition altsvc_key_has_port : bool := %s.\n", hk.CoqBool(keyHasPort))
	fmt.Fprintf(&sb, "(* Transport.Clone: the clone's middleware chain ends in the clone's own roundTrip *)\nDefinition clone_middleware_bound_to_clone : bool := %s.\n", hk.CoqBool(mwClone && mwSeen))
	fmt.Fprintf(&sb, "(* RoundTrip: an Alt-Svc header is considered only on the response to an https request *)\nDefinition altsvc_https_only : bool := %s.\n", hk.CoqBool(altHTTPSOnly))
	return "ProtoTables.v", sb.String(), nil
}

func isSelExpr(x ast.Node, recv, sel string) bool {
	e, ok := x.(ast.Expr)
	return ok && isSel(e, recv, sel)
}
