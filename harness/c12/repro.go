package main

import (
	"crypto/tls"
	"fmt"
	"net"
	"net/http"
	"os"
	"time"

	"github.com/imroc/req/v3"
	"github.com/imroc/req/v3/internal/testcert"
	qh3 "github.com/quic-go/quic-go/http3"
)

// reproH3TLS is the stand-alone reproducer of the design-time finding "HTTP/3 ignores the client's
// TLS settings" (`harness.bin repro-h3tls`): a quic-go http3.Server with a self-signed certificate on
// loopback UDP, a client with EnableInsecureSkipVerify().EnableForceHTTP3(). On the pinned tree the
// request fails with "x509: certificate signed by unknown authority" because the h3 dial starts from
// the (never set) shadowing field http3.RoundTripper.TLSClientConfig instead of the client's
// Options.TLSClientConfig. Exit status 0 = the client's setting reached HTTP/3.
func reproH3TLS() {
	cert, err := tls.X509KeyPair(testcert.LocalhostCert, testcert.LocalhostKey)
	if err != nil {
		fmt.Println("cert:", err)
		os.Exit(2)
	}
	pc, err := net.ListenPacket("udp", "127.0.0.1:0")
	if err != nil {
		fmt.Println("listen:", err)
		os.Exit(2)
	}
	srv := &qh3.Server{
		TLSConfig: qh3.ConfigureTLSConfig(&tls.Config{Certificates: []tls.Certificate{cert}}),
		Handler: http.HandlerFunc(func(w http.ResponseWriter, r *http.Request) {
			w.Header().Set("X-Proto", r.Proto)
			w.WriteHeader(204)
		}),
	}
	go srv.Serve(pc)
	defer srv.Close()
	url := fmt.Sprintf("https://%s/", pc.LocalAddr().String())

	c := req.C().EnableInsecureSkipVerify().EnableForceHTTP3().SetTimeout(10 * time.Second)
	resp, err := c.R().Get(url)
	if err != nil {
		fmt.Println("InsecureSkipVerify+ForceHTTP3: ERROR:", err)
		os.Exit(1)
	}
	fmt.Println("InsecureSkipVerify+ForceHTTP3: ok", resp.StatusCode, resp.Proto, "origin saw", resp.Header.Get("X-Proto"))

	// and the converse: without the setting the self-signed certificate must be rejected
	c2 := req.C().EnableForceHTTP3().SetTimeout(10 * time.Second)
	_, err = c2.R().Get(url)
	if err == nil {
		fmt.Println("default verification + ForceHTTP3: UNEXPECTED success")
		os.Exit(1)
	}
	fmt.Println("default verification + ForceHTTP3: rejected as expected:", err)
}
