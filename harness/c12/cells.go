package main

// C12 cell runner: applies a sequence of operations to a fresh req.C() against one local origin,
// records per operation what the real client did (protocol / failure class, ClientHellos received by the
// listeners, Alt-Svc bookkeeping), evaluates the property's oracle, and renders the cell as a Coq term.

import (
	"context"
	"crypto/tls"
	"fmt"
	"net"
	"net/http"
	"net/url"
	"strings"
	"time"

	req "github.com/imroc/req/v3"
	"github.com/imroc/req/v3/verifharness/hk"
)

type tlsSpec struct {
	Nil   bool     `json:"nil,omitempty"`
	Roots []int    `json:"roots,omitempty"`
	SName string   `json:"sname,omitempty"`
	Certs []int    `json:"certs,omitempty"`
	Skip  bool     `json:"skip,omitempty"`
	Next  []string `json:"next,omitempty"`
}

// op kinds: settls skip root cert sname force h3 h2c clone closeidle req fork
// ("clone" with F: F is applied to the ORIGINAL after cloning, the sequence goes on with the clone: Coq op OClone)
// ("fork" = c2 := c.Clone(); F applied to c2; one GET with c2 (+ its Alt-Svc goroutine); c2 dropped, the
//  sequence goes on with c: Coq op OFork)
// ("req" = one GET followed by waiting for the Alt-Svc background goroutine it may have started:
//  Coq ops OReq; OBg)
type op struct {
	K   string   `json:"k"`
	B   bool     `json:"b,omitempty"`
	N   int      `json:"n,omitempty"`
	S   string   `json:"s,omitempty"`
	TLS *tlsSpec `json:"tls,omitempty"`
	H   int      `json:"h,omitempty"` // req / fork: which name of the origin the URL uses (0 = localhost, 1 = 127.0.0.1)
	C   bool     `json:"c,omitempty"` // req: the request carries Connection: close
	W   bool     `json:"w,omitempty"` // dialtls: the function returns its *tls.Conn wrapped in a type of its own (a pkg/tls.Conn that is not a bare *tls.Conn)
	F   *op      `json:"f,omitempty"` // fork: what is done to the throw-away clone before its request (nil = nothing)
}

type cell struct {
	Shape string `json:"shape"` // generator label (part of failure signatures)
	Companion bool `json:"companion,omitempty"` // h = 1 means ANOTHER origin on the same host name (localhost:<other port>;
	// TLS, h2+http/1.1, no HTTP/3, no Alt-Svc) instead of the second name of this one
	Proxy int    `json:"proxy,omitempty"` // the proxy the "proxy" op switches on: 1 = http:// CONNECT proxy, 2 = https:// one
	Life  string `json:"life,omitempty"` // lifecycle of the structured matrix (quick-tier stratification)
	Spec  srvSpec `json:"server"`
	Ops   []op   `json:"ops"`
}

type obsRec struct {
	Kind    string  `json:"kind"` // cfg | req | bg | fork
	Outcome string  `json:"outcome,omitempty"`
	Hellos  []hello `json:"hellos,omitempty"`
	BgHellos []hello `json:"bg_hellos,omitempty"` // fork only
	Alt     string  `json:"alt,omitempty"`
	Detail  string  `json:"detail,omitempty"`
}

type violation struct {
	Sig, What string
	At        int
}

type cellResult struct {
	Obs      []obsRec
	Viol     []violation
	Unstable bool
	Dials    int
	Dur      time.Duration
	Retried  int // identical ClientHellos of failed requests collapsed (the stack's own retry)
}

func (p *pki) tlsConfig(t *tlsSpec) *tls.Config {
	if t == nil || t.Nil {
		return nil
	}
	c := &tls.Config{RootCAs: p.pool(t.Roots...), ServerName: t.SName, InsecureSkipVerify: t.Skip}
	for _, k := range t.Certs {
		c.Certificates = append(c.Certificates, p.clientCert[k])
	}
	if t.Next != nil {
		c.NextProtos = append([]string(nil), t.Next...)
	}
	return c
}

func classify(err error) string {
	s := err.Error()
	has := func(xs ...string) bool {
		for _, x := range xs {
			if strings.Contains(s, x) {
				return true
			}
		}
		return false
	}
	switch {
	case has("unsupported scheme", "unsupported protocol scheme"):
		return "EScheme"
	case has("no application protocol", "unexpected ALPN protocol", "CRYPTO_ERROR 0x178"):
		return "EAlpn"
	case has("x509", "certificate", "CRYPTO_ERROR 0x12a", "CRYPTO_ERROR 0x174"):
		return "ECert"
	case has("no recent network activity", "deadline exceeded", "Client.Timeout", "connection refused", "handshake did not complete"):
		return "EDial"
	}
	return "EProto"
}

func unstableErr(err error) bool {
	s := err.Error()
	for _, x := range []string{"connection reset", "broken pipe", "use of closed network connection"} {
		if strings.Contains(s, x) {
			return true
		}
	}
	return false
}

// refAcceptable: would crypto/tls itself, given exactly the settings the OPERATIONS applied so far have given this
// client (tracked by the harness from the operation sequence - a clone inheriting its original's at the moment
// of cloning - and NOT read back from the client object; server name defaulted to the URL host as every HTTP
// stack does), accept this origin and be accepted by it?  Independent reference for "acceptable under the
// client's settings" (stdlib only, no req code, no model).
func refAcceptable(p *pki, want *tlsSpec, o *origin, host string) (ok bool, wantSNI string) {
	cfg := p.tlsConfig(want)
	if cfg == nil {
		cfg = &tls.Config{}
	}
	if cfg.ServerName == "" {
		cfg.ServerName = host
	}
	wantSNI = cfg.ServerName
	cfg.NextProtos = nil
	cfg.MaxVersion = tls.VersionTLS12 // client-certificate refusal then fails the handshake itself
	conn, err := tls.Dial("tcp", fmt.Sprintf("127.0.0.1:%d", o.port), cfg)
	if err != nil {
		return false, wantSNI
	}
	conn.Close()
	return true, wantSNI
}

// specAfter: the settings after one more setter call (the documented meaning of the setters: SetTLSClientConfig
// replaces, the others change one field of the current configuration, creating one when there is none).
// refProxyHop: crypto/tls with the configuration that governs the first hop against the https:// proxy
func refProxyHop(p *pki, want *tlsSpec, o *origin) (ok bool, wantSNI string) {
	cfg := p.tlsConfig(want)
	if cfg == nil {
		cfg = &tls.Config{}
	}
	if cfg.ServerName == "" {
		cfg.ServerName = "127.0.0.1"
	}
	wantSNI = cfg.ServerName
	cfg.NextProtos = nil
	conn, err := tls.Dial("tcp", fmt.Sprintf("127.0.0.1:%d", o.pport[2]), cfg)
	if err != nil {
		return false, wantSNI
	}
	conn.Close()
	return true, wantSNI
}

func specAfter(cur *tlsSpec, x op) *tlsSpec {
	if x.K == "settls" {
		if x.TLS == nil || x.TLS.Nil {
			return nil
		}
		t := *x.TLS
		t.Roots = append([]int(nil), t.Roots...)
		t.Certs = append([]int(nil), t.Certs...)
		return &t
	}
	var t tlsSpec
	if cur != nil {
		t = *cur
		t.Roots = append([]int(nil), cur.Roots...)
		t.Certs = append([]int(nil), cur.Certs...)
	}
	switch x.K {
	case "skip":
		t.Skip = x.B
	case "root":
		t.Roots = append(t.Roots, x.N)
	case "cert":
		t.Certs = append(t.Certs, x.N)
	case "sname":
		t.SName = x.S
	default:
		return cur
	}
	return &t
}

// expectations tracked by the harness from the operation sequence (never read back from the client)
type want struct {
	force string   // forced version: "", "1.1", "2", "3"
	tls   *tlsSpec // the client's TLS settings
	dial  *tlsSpec // configuration of the caller-supplied SetDialTLS function (nil = none)
	hs    *tlsSpec // configuration of the caller-supplied SetTLSHandshake function (nil = none)
	h2c   bool     // EnableH2C in force
	proxy bool     // SetProxyURL(the cell's proxy) in force
	fp    bool     // a fingerprint handshake (SetTLSFingerprintChrome) is installed: TCP handshakes are utls ones
	// working with the client's own settings of the moment
}

var forceName = []string{"", "1.1", "2", "3"}

func (w want) after(x op) want {
	switch x.K {
	case "force":
		w.force = forceName[x.N]
	case "h2c": // h2c concerns http:// requests only: neither the client's settings nor a caller-supplied dialler change
		w.h2c = x.B
	case "proxy":
		w.proxy = x.B
	case "dialtls":
		w.dial = nil
		if x.TLS != nil && !x.TLS.Nil {
			w.dial = x.TLS
		}
	case "handshake":
		w.hs, w.fp = nil, false
		if x.TLS != nil && !x.TLS.Nil {
			w.hs = x.TLS
		}
	case "fp":
		w.hs, w.fp = nil, true
	default:
		w.tls = specAfter(w.tls, x)
	}
	return w
}

// the configuration that governs TCP connections: the caller's own function when there is one (documented:
// SetDialTLS / SetTLSHandshake are valid for HTTP/1 and HTTP/2 only), the client's settings otherwise
// the configuration that governs the handshake with the ORIGIN on a TCP connection: through a proxy the tunnelled
// handshake is the library's own (client's settings) or the SetTLSHandshake hook's - DialTLSContext dials the proxy
func (w want) origin(viaProxy bool) *tlsSpec {
	if !viaProxy {
		return w.tcp()
	}
	if w.hs != nil {
		return w.hs
	}
	return w.tls
}

// the configuration that governs the handshake with an https:// proxy
func (w want) proxyHop() *tlsSpec {
	if w.dial != nil {
		return w.dial
	}
	return w.tls
}

func (w want) tcp() *tlsSpec {
	if w.dial != nil {
		return w.dial
	}
	if w.hs != nil {
		return w.hs
	}
	return w.tls
}

// caller-supplied TLS functions: plain crypto/tls with the given configuration, server name defaulted to the
// dialled host
func (p *pki) userConfig(t *tlsSpec, host string) *tls.Config {
	cfg := p.tlsConfig(t)
	if cfg.ServerName == "" {
		cfg.ServerName = host
	}
	return cfg
}

// wrappedTLSConn implements pkg/tls.Conn (ConnectionState, Handshake, HandshakeContext promoted) without being a
// bare *tls.Conn - what a utls connection or any caller's wrapper looks like to the transport
type wrappedTLSConn struct {
	*tls.Conn
	note *string
}

func (p *pki) userDialTLS(t *tlsSpec, wrap bool, negotiated *[]string) func(ctx context.Context, network, addr string) (net.Conn, error) {
	return func(ctx context.Context, network, addr string) (net.Conn, error) {
		host, _, err := net.SplitHostPort(addr)
		if err != nil {
			host = addr
		}
		d := &tls.Dialer{Config: p.userConfig(t, host)}
		c, err := d.DialContext(ctx, network, addr)
		if err != nil {
			return nil, err
		}
		tc := c.(*tls.Conn)
		*negotiated = append(*negotiated, tc.ConnectionState().NegotiatedProtocol) // cells run sequentially
		if wrap {
			return &wrappedTLSConn{Conn: tc}, nil
		}
		return tc, nil
	}
}

func (p *pki) userHandshake(t *tlsSpec) func(ctx context.Context, addr string, plain net.Conn) (net.Conn, *tls.ConnectionState, error) {
	return func(ctx context.Context, addr string, plain net.Conn) (net.Conn, *tls.ConnectionState, error) {
		host, _, err := net.SplitHostPort(addr)
		if err != nil {
			host = addr
		}
		conn := tls.Client(plain, p.userConfig(t, host))
		if err := conn.HandshakeContext(ctx); err != nil {
			return nil, nil, err
		}
		st := conn.ConnectionState()
		return conn, &st, nil
	}
}

func sameHello(a, b hello) bool {
	return a.Proxy == b.Proxy && a.Quic == b.Quic && a.SNI == b.SNI && strings.Join(a.ALPN, ",") == strings.Join(b.ALPN, ",")
}

func waitFor(d time.Duration, f func() bool) bool {
	deadline := time.Now().Add(d)
	for {
		if f() {
			return true
		}
		if time.Now().After(deadline) {
			return false
		}
		time.Sleep(2 * time.Millisecond)
	}
}

var companionSpec = srvSpec{Name: "tls-h2h1-h3no", HTTPS: true, ALPN: []string{"h2", "http/1.1"}}

func runCell(p *pki, o *origin, comp *origin, cl cell, timeout time.Duration) (res cellResult) {
	defer func() {
		if e := recover(); e != nil {
			res.Obs = append(res.Obs, obsRec{Kind: "req", Outcome: "EProto", Detail: fmt.Sprintf("panic: %v", e)})
			res.Viol = append(res.Viol, violation{Sig: "panic/" + cl.Shape, What: fmt.Sprintf("panic: %v", e), At: len(res.Obs) - 1})
		}
	}()
	c := req.C().SetTimeout(timeout)
	// every client of the cell (original, clones, throw-away clones) is closed at the end: idle TCP connections
	// and the HTTP/3 round tripper's UDP socket (a thorough run creates > 40 000 clients)
	all := []*req.Client{c}
	defer func() {
		for _, x := range all {
			x.GetTransport().CloseIdleConnections()
			x.GetTransport().VerifCloseHTTP3()
		}
	}()
	hadV3 := false
	violT := func(tag, sig, what string) {
		res.Viol = append(res.Viol, violation{Sig: sig + "/" + cl.Shape + "/" + o.spec.Name + tag, What: what, At: len(res.Obs)})
	}
	var negotiated []string // ALPN results of the connections the caller-supplied dial function made (in order)
	okQuic := [2]bool{}     // ... over HTTP/3 (CloseIdleConnections and the proxy switch leave those connections alone)
	okSince := [2]bool{}    // a request to that name of the origin has succeeded since the connections were last dropped
	// configuration operations (everything but clone / req / fork); false = not a configuration op
	applyCfg := func(c *req.Client, x op) bool {
		switch x.K {
		case "settls":
			c.SetTLSClientConfig(p.tlsConfig(x.TLS))
		case "skip":
			if x.B {
				c.EnableInsecureSkipVerify()
			} else {
				c.DisableInsecureSkipVerify()
			}
		case "root":
			if x.B { // the other root setter: it ADDS the file's certificates to the roots configured so far
				c.SetRootCertsFromFile(p.caFile[x.N])
			} else {
				c.SetRootCertFromString(p.cas[x.N].pem)
			}
		case "cert":
			c.SetCerts(p.clientCert[x.N])
		case "sname":
			c.GetTLSClientConfig().ServerName = x.S
		case "force":
			switch x.N {
			case 0:
				c.DisableForceHttpVersion()
			case 1:
				c.EnableForceHTTP1()
			case 2:
				c.EnableForceHTTP2()
			case 3:
				c.EnableForceHTTP3()
			}
		case "h3":
			c.EnableHTTP3()
		case "h2c":
			if x.B {
				c.EnableH2C()
			} else {
				c.DisableH2C()
			}
		case "closeidle":
			c.GetTransport().CloseIdleConnections()
		case "dialtls":
			if x.TLS == nil || x.TLS.Nil {
				c.SetDialTLS(nil)
			} else {
				c.SetDialTLS(p.userDialTLS(x.TLS, x.W, &negotiated))
			}
		case "proxy":
			if x.B && cl.Proxy > 0 && o.spec.HTTPS { // (plain-http targets through a proxy are not modelled)
				c.SetProxyURL(o.proxyURL(cl.Proxy))
			} else {
				c.SetProxy(nil)
			}
			c.GetTransport().CloseIdleConnections()
		case "wrap":
			// a pass-through transport middleware: transparent, and bound to the transport it is installed on
			c.GetTransport().WrapRoundTripFunc(func(rt http.RoundTripper) req.HttpRoundTripFunc {
				return func(r *http.Request) (*http.Response, error) { return rt.RoundTrip(r) }
			})
		case "fp":
			c.SetTLSFingerprintChrome()
		case "handshake":
			if x.TLS == nil || x.TLS.Nil {
				c.SetTLSHandshake(nil)
			} else {
				c.SetTLSHandshake(p.userHandshake(x.TLS))
			}
		default:
			return false
		}
		return true
	}
	// one GET with client c (+ waiting for the Alt-Svc goroutine it may have started) and the oracle
	// force = the version the operations applied so far have forced on this client (tracked here from the
	// operation sequence, a clone inheriting its original's: NOT read back from the client)
	doReq := func(c *req.Client, hadV3 *bool, w want, tag string, hi int, closeReq bool) (rec, bg obsRec) {
		po := o // the origin whose proxies the cell uses
		o, host, uh := o, hostNames[hi], hi
		if cl.Companion && hi == 1 {
			o, host, uh = comp, hostNames[0], 0
		}
		u, _ := url.Parse(o.urlH(uh))
		// crypto/tls sends no server_name for an IP literal: the listeners (and the origin's handler) then see "",
		// recorded as the literal - the name the certificate was verified against
		normSNI := func(s string) string {
			if s == "" && uh == 1 {
				return host
			}
			return s
		}
		force := w.force
		viol := func(sig, what string) { violT(tag, sig, what) }
		if got := c.GetTransport().VerifForceHTTPVersion(); got != force {
			viol("force-lost-want-"+force+"-has-"+got, fmt.Sprintf("the operations forced version %q on this client (or its original) but the transport holds %q", force, got))
		}
		refOK, wantSNI := true, ""     // under the client's settings (QUIC; TCP unless the caller supplied his own TLS)
		refTCP, sniTCP := true, ""     // under the configuration that governs TCP connections
		if o.spec.HTTPS {
			refOK, wantSNI = refAcceptable(p, w.tls, o, host)
			refTCP, sniTCP = refOK, wantSNI
			if w.tcp() != w.tls {
				refTCP, sniTCP = refAcceptable(p, w.tcp(), o, host)
			}
		}
		// through a proxy: the tunnelled handshake with the origin, and the first hop to an https:// proxy
		refTun, sniTun, refHop, sniHop := refOK, wantSNI, true, ""
		if o.spec.HTTPS && w.proxy && cl.Proxy > 0 {
			if w.origin(true) != w.tls {
				refTun, sniTun = refAcceptable(p, w.origin(true), o, host)
			}
			if cl.Proxy == 2 {
				refHop, sniHop = refProxyHop(p, w.proxyHop(), po)
			}
		}
		nConnect := po.connectCount()
		pm := po.mark()
		nNeg := len(negotiated)
		altBefore := c.GetTransport().VerifAltSvcState(u)
		m := o.mark()
		cm := o.clearMark()
		rq := c.R()
		if closeReq {
			rq.SetHeader("Connection", "close")
		}
		resp, err := rq.Get(o.urlH(uh))
		rec = obsRec{Kind: "req"}
		var originProto, sni, cn string
		switch {
		case err != nil:
			rec.Outcome = classify(err)
			rec.Detail = err.Error()
			if unstableErr(err) || (rec.Outcome == "EDial" && !slowCell(cl)) {
				// (a timeout in a cell where every listener the client may dial exists is load-induced)
				res.Unstable = true
			}
		case resp.StatusCode == 400 && resp.Header.Get("X-Proto") == "":
			rec.Outcome = "Cleartext"
			rec.Detail = resp.Proto + " 400 from the TLS listener"
		default:
			originProto, sni, cn = resp.Header.Get("X-Proto"), normSNI(resp.Header.Get("X-Sni")), resp.Header.Get("X-Cn")
			switch resp.Proto {
			case "HTTP/1.1":
				rec.Outcome = "V1"
			case "HTTP/2.0":
				rec.Outcome = "V2"
			case "HTTP/3.0":
				rec.Outcome = "V3"
				*hadV3 = true
			default:
				rec.Outcome = "EProto"
				rec.Detail = "unexpected Response.Proto " + resp.Proto
			}
		}
		// background Alt-Svc goroutine (only after a successful non-h3 response)
		bg = obsRec{Kind: "bg"}
		bgStarted := false
		if rec.Outcome == "V1" || rec.Outcome == "V2" {
			st := c.GetTransport().VerifAltSvcState(u)
			if altBefore == "none" && (st == "pending" || st == "ready") {
				bgStarted = true
				// no wall-clock guess where the outcome is certain: with a QUIC listener the entry always becomes
				// "ready" (AddConn returns once the dial has been started or joined), then the dial itself ends
				// (hook: the entry's dialing channel is closed); the server logs the ClientHello before that.
				// Without a listener (dead advertisement) "ready" may never come: short bounded wait, as modelled.
				limit := 3 * time.Second
				if o.spec.H3 {
					limit = 60 * time.Second
				}
				waitFor(limit, func() bool { return c.GetTransport().VerifAltSvcState(u) == "ready" })
				if o.spec.H3 {
					waitFor(60*time.Second, func() bool { return c.GetTransport().VerifH3DialState(u) != "dialing" })
				}
			}
		}
		retried := 0
		hs := o.since(m)
		if po != o { // the proxy's hellos are in the log of the origin that owns the proxy
			var ph []hello
			for _, h := range po.since(pm) {
				if h.Proxy {
					ph = append(ph, h)
				}
			}
			hs = append(ph, hs...)
		}
		for _, h := range hs {
			if h.Proxy {
				if h.SNI == "" {
					h.SNI = "127.0.0.1" // the proxy is addressed by that literal
				}
			} else {
				h.SNI = normSNI(h.SNI)
			}
			if bgStarted && h.Quic {
				bg.Hellos = append(bg.Hellos, h)
			} else if n := len(rec.Hellos); n > 0 && err != nil && sameHello(rec.Hellos[n-1], h) {
				// a failed request may have been retried on a second, identical connection by the stack's own
				// retry logic (http2 RoundTripOpt after an unusable new connection; timing dependent): projected away
				retried++
			} else {
				rec.Hellos = append(rec.Hellos, h)
			}
		}
		bg.Alt = c.GetTransport().VerifAltSvcState(u)
		res.Dials += len(rec.Hellos) + len(bg.Hellos)
		res.Retried += retried

		// ---- oracle, from the property text ----
		ok := rec.Outcome == "V1" || rec.Outcome == "V2" || rec.Outcome == "V3"
		used := map[string]string{"V1": "1.1", "V2": "2", "V3": "3"}[rec.Outcome]
		if ok && originProto != resp.Proto {
			viol("proto-mismatch", fmt.Sprintf("Response.Proto %s but the origin served %s", resp.Proto, originProto))
		}
		if force != "" && ok && used != force {
			viol("forced-"+force+"-used-"+used, fmt.Sprintf("version %s forced but the request was served over HTTP/%s (silent fallback)", force, used))
		}
		if force == "" && ok && o.spec.HTTPS {
			if rec.Outcome == "V2" && !contains(o.spec.ALPN, "h2") {
				viol("unoffered-h2", "HTTP/2 used although the server does not offer h2")
			}
			if rec.Outcome == "V3" && !o.spec.H3 {
				viol("unoffered-h3", "HTTP/3 used although the server has no QUIC listener")
			}
		}
		if force == "" && o.spec.HTTPS && !o.spec.H3 && !o.spec.AltSvc && rec.Outcome == "EDial" {
			// nothing forced, no QUIC listener, none advertised: the request belongs on TCP; a timeout can only be the
			// leftover of an earlier (forced) HTTP/3 dial
			viol("unforced-timeout-without-quic", "nothing is forced and the origin neither has nor advertises HTTP/3, yet the request failed with a dial timeout: "+rec.Detail)
		}
		if !o.spec.HTTPS && force == "" && rec.Outcome == "EScheme" {
			viol("plain-http-refused", "nothing is forced, yet the plain http request was refused for its scheme instead of being sent over HTTP/1.1: "+rec.Detail)
		}
		if ok && !o.spec.HTTPS {
			if rec.Outcome == "V3" || (rec.Outcome == "V2" && !w.h2c) {
				viol("plain-http-used-"+used, "plain HTTP request served over HTTP/"+used+" without h2c being enabled")
			}
		}
		if o.spec.HTTPS {
			// listener-level: the TLS port received something that is not a TLS record during this request
			if cs := o.clearSince(cm); len(cs) > 0 && rec.Outcome != "Cleartext" {
				what := "request"
				if closeReq {
					what = "Connection: close request"
				}
				viol("https-in-cleartext/wire", fmt.Sprintf("the %s was written in clear to the TLS port (first bytes %s): no handshake, no certificate checked; the client reported %s", what, cs[0], rec.Outcome))
			}
		}
		if o.spec.HTTPS && ok {
			// the first hop to an https:// proxy is governed by the settings too (the proxy's name)
			for _, h := range rec.Hellos {
				if h.Proxy {
					if !refHop {
						viol("accepted-unacceptable/proxy-hop", "the https:// proxy's certificate is unacceptable under the settings that govern the first hop, yet the request went through it")
					}
					if h.SNI != sniHop {
						viol("sni/proxy-hop", fmt.Sprintf("the proxy saw server name %q, the settings say %q", h.SNI, sniHop))
					}
				}
			}
			// no handshake at all during this request, none can have been made for this authority since the
			// connections were last dropped, and nothing would accept the origin: whose connection was that?
			if len(rec.Hellos) == 0 && !okSince[hi] && !(rec.Outcome == "V3" && okQuic[hi]) && !refOK && !refTCP && !refTun && tag == "" {
				viol("accepted-unacceptable/no-handshake", "the request succeeded without any handshake although no earlier request to this authority has succeeded since the connections were dropped and the origin is unacceptable under the settings: it travelled on a connection made (and verified) for another authority")
			}
			// a connection the caller's dial function made during this request negotiated h2: the request uses it
			if force == "" {
				for _, np := range negotiated[nNeg:] {
					if np == "h2" && rec.Outcome != "V2" && !(w.proxy && cl.Proxy == 2) {
						viol("negotiated-h2-not-used", "the connection returned by the SetDialTLS function negotiated h2 but the request was served over HTTP/"+used)
					}
				}
			}
		}
		if o.spec.HTTPS && !ok && force == "" && !(w.proxy && cl.Proxy == 2) {
			for _, np := range negotiated[nNeg:] {
				if np == "h2" && rec.Outcome == "EProto" {
					viol("negotiated-h2-not-used", "the connection returned by the SetDialTLS function negotiated h2, nothing is forced, and the request failed with a protocol error: "+rec.Detail)
				}
			}
		}
		if tag == "" && len(bg.Hellos) > 0 {
			okQuic[hi] = true // the Alt-Svc goroutine has handshaken with this authority: a connection of its own may serve later requests
		}
		if ok && tag == "" {
			okSince[hi] = true
			if rec.Outcome == "V3" {
				okQuic[hi] = true
			}
		}
		if o.spec.HTTPS && force != "" && rec.Outcome == "ECert" && len(rec.Hellos) == 0 && refOK && refTCP && refTun && refHop {
			// a version is forced, so the request dials or uses a live connection; it failed with a certificate error
			// although no handshake took place and everything would accept the origin under the settings of the
			// moment: the failure of an EARLIER attempt (made before the settings were corrected) was handed out
			viol("rejected-acceptable/no-handshake", "the request failed with a certificate error without any handshake although the origin is acceptable under the client's current settings (an earlier attempt's failure, from before the settings were corrected?): "+rec.Detail)
		}
		if rec.Outcome == "Cleartext" {
			how := "no-custom-dialer"
			if c.DialTLSContext != nil {
				how = "DialTLSContext-set" // (before ecf6c40 EnableH2C installed a plain dialler there)
			}
			viol("https-in-cleartext/"+how, "https request written in clear to the TLS port: no certificate was checked")
		}
		if o.spec.HTTPS && len(rec.Hellos) > 0 {
			stack := "tcp"
			// the last TCP hello came through a tunnel iff there are not more origin TCP hellos in this request than
			// CONNECTs (after an ALPN hand-off a Connection: close request makes the http2 transport dial a second,
			// DIRECT connection of its own)
			nTCP := 0
			for _, h := range rec.Hellos {
				if !h.Quic && !h.Proxy {
					nTCP++
				}
			}
			viaProxy := po.connectCount() > nConnect && nTCP <= po.connectCount()-nConnect
			if rec.Hellos[len(rec.Hellos)-1].Quic {
				stack = "quic"
			} else if viaProxy {
				refOK, wantSNI = refTun, sniTun
				stack = "tcp-tunnel"
			} else if rec.Hellos[len(rec.Hellos)-1].Proxy {
				refOK, wantSNI = refHop, sniHop // the request ended at the first hop
				stack = "proxy-hop"
			} else {
				refOK, wantSNI = refTCP, sniTCP
				if w.tcp() != w.tls {
					stack = "tcp-user-tls"
				}
			}
			if !refOK && ok {
				viol("accepted-unacceptable/"+stack, "server certificate / client authentication unacceptable under the client's TLS settings (crypto/tls with the same settings refuses) but the request succeeded over "+stack)
			}
			if refOK && rec.Outcome == "ECert" {
				viol("rejected-acceptable/"+stack, "crypto/tls with the client's settings accepts this origin but the request failed with a certificate error over "+stack+": "+rec.Detail)
			}
			if ok && sni != wantSNI {
				viol("sni/"+stack, fmt.Sprintf("origin saw server name %q, the client's settings say %q", sni, wantSNI))
			}
			if ok && o.spec.NeedCert && cn == "" {
				viol("clientcert/"+stack, "origin requires a client certificate but saw none on a successful request")
			}
		}
		return rec, bg
	}
	var w want // req.C(): nothing forced, no roots, no name, no certificates, verification on
	for _, x := range cl.Ops {
		switch x.K {
		case "clone":
			orig := c
			c = c.Clone()
			all = append(all, c)
			hadV3 = false
			if x.F != nil && !applyCfg(orig, *x.F) { // the ORIGINAL is changed after cloning: the clone must not notice
				panic("clone: not a configuration op: " + x.F.K)
			}
		case "req":
			rec, bg := doReq(c, &hadV3, w, "", x.H, x.C)
			res.Obs = append(res.Obs, rec, bg)
			continue
		case "fork":
			c2 := c.Clone()
			all = append(all, c2)
			if x.F != nil && !applyCfg(c2, *x.F) {
				panic("fork: not a configuration op: " + x.F.K)
			}
			h := false
			w2 := w
			if x.F != nil {
				w2 = w.after(*x.F)
			}
			rec, bg := doReq(c2, &h, w2, "@fork", x.H, false)
			res.Obs = append(res.Obs, obsRec{Kind: "fork", Outcome: rec.Outcome, Hellos: rec.Hellos, BgHellos: bg.Hellos, Alt: bg.Alt, Detail: rec.Detail})
			c2.GetTransport().CloseIdleConnections()
			continue
		default:
			if !applyCfg(c, x) {
				panic("unknown op " + x.K)
			}
			w = w.after(x)
		}
		if x.K == "closeidle" || x.K == "clone" || x.K == "proxy" { // the connections made so far are gone / out of reach
			okSince = [2]bool{}
			if x.K == "clone" {
				okQuic = [2]bool{}
			}
		}
		res.Obs = append(res.Obs, obsRec{Kind: "cfg"})
	}
	res.Viol = append([]violation(nil), res.Viol...)
	return res
}

func contains(xs []string, s string) bool {
	for _, x := range xs {
		if x == s {
			return true
		}
	}
	return false
}

// ---------- Coq rendering ----------

func coqNs(xs []int) string {
	o := make([]string, len(xs))
	for i, x := range xs {
		o[i] = hk.CoqN(uint64(x))
	}
	return hk.CoqList(o)
}

func coqTLS(t *tlsSpec) string {
	if t == nil || t.Nil {
		return "None"
	}
	return fmt.Sprintf("(Some (mkTls %s %s %s %s %s))", coqNs(t.Roots), hk.CoqStr(t.SName), coqNs(t.Certs), hk.CoqBool(t.Skip), hk.CoqStrList(t.Next))
}

func coqOps(ops []op) string {
	var out []string
	add := func(h int, xs ...string) {
		for _, x := range xs {
			out = append(out, fmt.Sprintf("(%s, %s)", hk.CoqBool(h == 1), x))
		}
	}
	for _, x := range ops {
		switch x.K {
		case "settls":
			add(0, "OSetTLS "+coqTLS(x.TLS))
		case "skip":
			add(0, "OSkip "+hk.CoqBool(x.B))
		case "root":
			add(0, "OAddRoot "+hk.CoqN(uint64(x.N)))
		case "cert":
			add(0, "OAddCert "+hk.CoqN(uint64(x.N)))
		case "sname":
			add(0, "OSName "+hk.CoqStr(x.S))
		case "force":
			add(0, "OForce "+[]string{"FNone", "FH1", "FH2", "FH3"}[x.N])
		case "h3":
			add(0, "OEnableH3")
		case "h2c":
			add(0, "OH2C "+hk.CoqBool(x.B))
		case "dialtls":
			add(0, "ODialTLS "+coqTLS(x.TLS))
		case "wrap":
			add(0, "OWrap")
		case "fp":
			add(0, "OFingerprint")
		case "handshake":
			add(0, "OHandshake "+coqTLS(x.TLS))
		case "proxy":
			add(0, "OProxy "+hk.CoqBool(x.B && true))
		case "clone":
			add(0, "OClone")
		case "closeidle":
			add(0, "OCloseIdle")
		case "req":
			if x.C {
				add(x.H, "OReqClose", "OBg")
			} else {
				add(x.H, "OReq", "OBg")
			}
		case "fork":
			add(x.H, "OFork "+coqFork(x.F))
		}
	}
	return hk.CoqList(out)
}

func coqFork(f *op) string {
	if f == nil {
		return "FkNone"
	}
	switch f.K {
	case "settls":
		return "(FkSetTLS " + coqTLS(f.TLS) + ")"
	case "skip":
		return "(FkSkip " + hk.CoqBool(f.B) + ")"
	case "root":
		return "(FkAddRoot " + hk.CoqN(uint64(f.N)) + ")"
	case "sname":
		return "(FkSName " + hk.CoqStr(f.S) + ")"
	case "force":
		return "(FkForce " + []string{"FNone", "FH1", "FH2", "FH3"}[f.N] + ")"
	case "h2c":
		return "(FkH2C " + hk.CoqBool(f.B) + ")"
	case "dialtls":
		return "(FkDialTLS " + coqTLS(f.TLS) + ")"
	case "handshake":
		return "(FkHandshake " + coqTLS(f.TLS) + ")"
	case "proxy":
		return "(FkProxy " + hk.CoqBool(f.B) + ")"
	}
	panic("fork action not expressible in the model: " + f.K)
}

func coqHellos(hs []hello) string {
	var out []string
	for _, h := range hs {
		if h.Proxy {
			out = append(out, fmt.Sprintf("phello %s %s", hk.CoqStr(h.SNI), hk.CoqStrList(h.ALPN)))
			continue
		}
		out = append(out, fmt.Sprintf("hello %s %s %s", hk.CoqBool(h.Quic), hk.CoqStr(h.SNI), hk.CoqStrList(h.ALPN)))
	}
	return hk.CoqList(out)
}

var altCoq = map[string]string{"off": "AOff", "none": "AObsNone", "pending": "AObsPending", "ready": "AObsReady", "jar": "AObsJar"}

func coqObs(os []obsRec) string {
	var out []string
	for _, x := range os {
		switch x.Kind {
		case "cfg":
			out = append(out, "ObsCfg")
		case "req":
			oc := x.Outcome
			switch oc {
			case "V1", "V2", "V3":
				oc = "(Use " + oc + ")"
			case "Cleartext":
			default:
				oc = "(Fail " + oc + ")"
			}
			out = append(out, fmt.Sprintf("ObsReq %s %s", oc, coqHellos(x.Hellos)))
		case "fork":
			oc := x.Outcome
			switch oc {
			case "V1", "V2", "V3":
				oc = "(Use " + oc + ")"
			case "Cleartext":
			default:
				oc = "(Fail " + oc + ")"
			}
			out = append(out, fmt.Sprintf("ObsFork %s %s %s %s", oc, coqHellos(x.Hellos), coqHellos(x.BgHellos), altCoq[x.Alt]))
		case "bg":
			a := map[string]string{"off": "AOff", "none": "AObsNone", "pending": "AObsPending", "ready": "AObsReady", "jar": "AObsJar"}[x.Alt]
			out = append(out, fmt.Sprintf("ObsBg %s %s", coqHellos(x.Hellos), a))
		}
	}
	return hk.CoqList(out)
}

func coqEnv(s srvSpec, proxy int) string { return coqEnvH(s, proxy, hostNames[0]) }

func coqEnvH(s srvSpec, proxy int, host string) string {
	need := "None"
	if s.NeedCert {
		need = "(Some 3%N)"
	}
	px := "None"
	if proxy > 0 && s.HTTPS {
		px = fmt.Sprintf("(Some (mkProxy %s %s 1%%N %s))", hk.CoqBool(proxy == 2), hk.CoqStr("127.0.0.1"), hk.CoqStrList(proxySANs))
	}
	return fmt.Sprintf("(mkEnv %s %s (mkSrv %s %s %s %s 1%%N %s %s) %s)", hk.CoqBool(s.HTTPS), hk.CoqStr(host),
		hk.CoqStrList(s.ALPN), hk.CoqBool(s.H3), hk.CoqBool(s.AltSvc), hk.CoqBool(s.H2C), hk.CoqStrList(s.sans()), need, px)
}

func coqCase(cl cell, os []obsRec) string {
	env2 := coqEnvH(cl.Spec, cl.Proxy, hostNames[1])
	if cl.Companion {
		env2 = coqEnvH(companionSpec, cl.Proxy, hostNames[0])
	}
	return fmt.Sprintf("(mkCase %s %s %s %s)", coqEnv(cl.Spec, cl.Proxy), env2, coqOps(cl.Ops), coqObs(os))
}

// scenarioInflightDial: a request that arrives while a QUIC dial to its authority is IN FLIGHT and then fails.
// Origin A advertises HTTP/3 on the port of another origin B on the same host; the Alt-Svc goroutine dials B's
// UDP port, where a socket nobody reads sits (the dial ends with quic-go's handshake timeout).  As soon as the
// hook reports that dial in flight, an unforced request to B is made: HTTP/3 was never negotiated by B, so the
// request belongs on TCP and must succeed there (the cached-connection probe of the HTTP/3 round tripper joins
// the dial, and a dial that fails is no cached connection).  Oracle only (Alt-Svc to another port is outside the
// per-authority model).
func scenarioInflightDial(p *pki) (fail *violation, note string) {
	b, err := startOrigin(p, companionSpec)
	if err != nil {
		return nil, "scenario inflight-h3-dial: " + err.Error()
	}
	defer b.close()
	a, err := startOrigin(p, srvSpec{Name: "tls-h2h1-advertises-other-port", HTTPS: true, ALPN: []string{"h2", "http/1.1"}, AltSvc: true})
	if err != nil {
		return nil, "scenario inflight-h3-dial: " + err.Error()
	}
	defer a.close()
	a.altPort = b.port
	c := req.C().SetTimeout(40 * time.Second).SetRootCertFromString(p.cas[1].pem)
	c.EnableHTTP3()
	defer func() {
		c.GetTransport().CloseIdleConnections()
		c.GetTransport().VerifCloseHTTP3()
	}()
	if _, err := c.R().Get(a.url()); err != nil {
		return nil, "scenario inflight-h3-dial: first request failed: " + err.Error()
	}
	ub, _ := url.Parse(b.url())
	if !waitFor(5*time.Second, func() bool { return c.GetTransport().VerifH3DialState(ub) == "dialing" }) {
		return nil, "scenario inflight-h3-dial: the Alt-Svc dial to the other port was not seen in flight (state " + c.GetTransport().VerifH3DialState(ub) + ")"
	}
	resp, err := c.R().Get(b.url())
	if err != nil {
		return &violation{Sig: "unforced-request-failed-on-inflight-h3-dial/" + classify(err),
			What: "nothing forced; an Alt-Svc QUIC dial to the request's host:port (advertised by another origin on the same host) was in flight and then failed; the origin never negotiated HTTP/3 and serves TCP, yet the request failed: " + err.Error()}, ""
	}
	if resp.Proto == "HTTP/3.0" {
		return &violation{Sig: "unoffered-h3/inflight-dial", What: "HTTP/3 used although the origin has no QUIC listener"}, ""
	}
	return nil, "scenario inflight-h3-dial: request served over " + resp.Proto + " after the in-flight QUIC dial failed"
}
