package main

// In-process PKI and local origins for C12: a TLS (TCP) listener with configurable ALPN list served by
// net/http (+ x/net/http2), an optional quic-go http3.Server on the same port number (UDP) sharing the
// certificate, plain listeners (HTTP/1.1 only, or h2c via x/net/http2/h2c).  Every TLS/QUIC listener
// logs each ClientHello it receives (listener kind, SNI, ALPN offer) through GetConfigForClient.

import (
	"crypto/ecdsa"
	"crypto/elliptic"
	"crypto/rand"
	"crypto/tls"
	"crypto/x509"
	"crypto/x509/pkix"
	"encoding/pem"
	"fmt"
	"io"
	"math/big"
	"net"
	"net/http"
	"os"
	"path/filepath"
	"strings"
	"sync"
	"time"

	qh3 "github.com/quic-go/quic-go/http3"
	"golang.org/x/net/http2"
	"golang.org/x/net/http2/h2c"
)

// CA ids used in the model: 1 = CA that issued the server certificate, 2 = an unrelated CA,
// 3 = the CA the servers accept client certificates from.
type ca struct {
	id   int
	cert *x509.Certificate
	key  *ecdsa.PrivateKey
	pem  string
}

type pki struct {
	caFile     map[int]string // PEM file of each CA (SetRootCertsFromFile)
	cas        map[int]*ca
	serverCert tls.Certificate         // issued by CA 1, names: localhost, c12.test, 127.0.0.1
	nameCert   tls.Certificate         // issued by CA 1, names: localhost, c12.test only (no IP SAN)
	proxyCert  tls.Certificate         // issued by CA 1, IP SAN 127.0.0.1 only: the https:// proxy's certificate
	clientCert map[int]tls.Certificate // client certificate issued by CA k (k = 2, 3)
}

var serverSANs = []string{"localhost", "c12.test", "127.0.0.1"}

// the two names under which every origin is reached (authority = name:port): connection caches, Alt-Svc
// bookkeeping and http3 entries are per authority, the TLS settings are the client's
var hostNames = []string{"localhost", "127.0.0.1"}

func (s srvSpec) sans() []string {
	if s.NameOnly {
		return serverSANs[:2]
	}
	return serverSANs
}

func newCA(id int) (*ca, error) {
	key, err := ecdsa.GenerateKey(elliptic.P256(), rand.Reader)
	if err != nil {
		return nil, err
	}
	tmpl := &x509.Certificate{
		SerialNumber: big.NewInt(int64(1000 + id)), Subject: pkix.Name{CommonName: fmt.Sprintf("C12 CA %d", id)},
		NotBefore: time.Now().Add(-time.Hour), NotAfter: time.Now().Add(240 * time.Hour),
		IsCA: true, BasicConstraintsValid: true, KeyUsage: x509.KeyUsageCertSign | x509.KeyUsageDigitalSignature,
	}
	der, err := x509.CreateCertificate(rand.Reader, tmpl, tmpl, &key.PublicKey, key)
	if err != nil {
		return nil, err
	}
	cert, err := x509.ParseCertificate(der)
	if err != nil {
		return nil, err
	}
	return &ca{id: id, cert: cert, key: key, pem: string(pem.EncodeToMemory(&pem.Block{Type: "CERTIFICATE", Bytes: der}))}, nil
}

func (c *ca) issue(cn string, server bool, noIP ...bool) (tls.Certificate, error) {
	key, err := ecdsa.GenerateKey(elliptic.P256(), rand.Reader)
	if err != nil {
		return tls.Certificate{}, err
	}
	tmpl := &x509.Certificate{
		SerialNumber: big.NewInt(time.Now().UnixNano()), Subject: pkix.Name{CommonName: cn},
		NotBefore: time.Now().Add(-time.Hour), NotAfter: time.Now().Add(240 * time.Hour),
		KeyUsage: x509.KeyUsageDigitalSignature,
	}
	if server {
		tmpl.ExtKeyUsage = []x509.ExtKeyUsage{x509.ExtKeyUsageServerAuth}
		if len(noIP) < 2 || !noIP[1] { // second flag: no DNS names (the proxy's certificate)
			tmpl.DNSNames = []string{"localhost", "c12.test"}
		}
		if len(noIP) == 0 || !noIP[0] {
			tmpl.IPAddresses = []net.IP{net.ParseIP("127.0.0.1")}
		}
	} else {
		tmpl.ExtKeyUsage = []x509.ExtKeyUsage{x509.ExtKeyUsageClientAuth}
	}
	der, err := x509.CreateCertificate(rand.Reader, tmpl, c.cert, &key.PublicKey, c.key)
	if err != nil {
		return tls.Certificate{}, err
	}
	leaf, _ := x509.ParseCertificate(der)
	return tls.Certificate{Certificate: [][]byte{der}, PrivateKey: key, Leaf: leaf}, nil
}

func newPKI() (*pki, error) {
	p := &pki{cas: map[int]*ca{}, clientCert: map[int]tls.Certificate{}, caFile: map[int]string{}}
	dir, err := os.MkdirTemp("", "c12-pki-")
	if err != nil {
		return nil, err
	}
	for id := 1; id <= 3; id++ {
		c, err := newCA(id)
		if err != nil {
			return nil, err
		}
		p.caFile[id] = filepath.Join(dir, fmt.Sprintf("ca%d.pem", id))
		if err := os.WriteFile(p.caFile[id], []byte(c.pem), 0o600); err != nil {
			return nil, err
		}
		p.cas[id] = c
	}
	if p.serverCert, err = p.cas[1].issue("c12 origin", true); err != nil {
		return nil, err
	}
	if p.nameCert, err = p.cas[1].issue("c12 origin (names only)", true, true); err != nil {
		return nil, err
	}
	if p.proxyCert, err = p.cas[1].issue("c12 proxy", true, false, true); err != nil {
		return nil, err
	}
	for _, k := range []int{2, 3} {
		if p.clientCert[k], err = p.cas[k].issue(fmt.Sprintf("client-of-ca-%d", k), false); err != nil {
			return nil, err
		}
	}
	return p, nil
}

func (p *pki) pool(ids ...int) *x509.CertPool {
	if len(ids) == 0 {
		return nil
	}
	cp := x509.NewCertPool()
	for _, id := range ids {
		cp.AddCert(p.cas[id].cert)
	}
	return cp
}

// ---------- origins ----------

type hello struct {
	Proxy bool    `json:"proxy,omitempty"` // received by the TLS listener of the https:// proxy
	Quic bool     `json:"quic"`
	SNI  string   `json:"sni"`
	ALPN []string `json:"alpn"`
}

type srvSpec struct {
	Name     string   `json:"name"`
	HTTPS    bool     `json:"https"`
	ALPN     []string `json:"alpn"`     // TLS listener NextProtos, server preference order
	H3       bool     `json:"h3"`       // QUIC listener on the same port number
	AltSvc   bool     `json:"altsvc"`   // TCP responses advertise h3 on that port
	H2C      bool     `json:"h2c"`      // plain listener understands prior-knowledge h2c
	NeedCert bool     `json:"needcert"` // client certificate from CA 3 required
	NameOnly bool     `json:"nameonly,omitempty"` // the certificate has no IP SAN: acceptable as localhost, not as 127.0.0.1
}

type origin struct {
	spec   srvSpec
	port   int
	altPort int   // != 0: the port the Alt-Svc header names instead of the origin's own
	pport  [3]int // [1]: plain CONNECT proxy, [2]: CONNECT proxy behind TLS (https:// proxy); 127.0.0.1:<pport>
	mu     sync.Mutex
	hellos []hello
	connects int    // CONNECT requests the proxies have tunnelled
	clear  []string // first bytes of every connection to the TLS port that did not start with a TLS record
	closes []func()
}

// peekListener watches the first bytes the TLS port receives on each connection: anything but a TLS handshake
// record (0x16) is a client writing in clear to an https origin - whatever the client makes of the answer.
type peekListener struct {
	net.Listener
	o *origin
}

type peekConn struct {
	net.Conn
	o    *origin
	seen bool
}

func (l peekListener) Accept() (net.Conn, error) {
	c, err := l.Listener.Accept()
	if err != nil {
		return nil, err
	}
	return &peekConn{Conn: c, o: l.o}, nil
}

func (c *peekConn) Read(p []byte) (int, error) {
	n, err := c.Conn.Read(p)
	if !c.seen && n > 0 {
		c.seen = true
		if p[0] != 0x16 {
			m := n
			if m > 24 {
				m = 24
			}
			c.o.mu.Lock()
			c.o.clear = append(c.o.clear, fmt.Sprintf("%q", p[:m]))
			c.o.mu.Unlock()
		}
	}
	return n, err
}

func (o *origin) connectCount() int {
	o.mu.Lock()
	defer o.mu.Unlock()
	return o.connects
}

func (o *origin) clearMark() int {
	o.mu.Lock()
	defer o.mu.Unlock()
	return len(o.clear)
}

func (o *origin) clearSince(m int) []string {
	o.mu.Lock()
	defer o.mu.Unlock()
	return append([]string(nil), o.clear[m:]...)
}

func (o *origin) url() string { return o.urlH(0) }

func (o *origin) urlH(h int) string {
	s := "http"
	if o.spec.HTTPS {
		s = "https"
	}
	return fmt.Sprintf("%s://%s:%d/", s, hostNames[h], o.port)
}

func (o *origin) logHello(quic bool, ch *tls.ClientHelloInfo) {
	o.mu.Lock()
	o.hellos = append(o.hellos, hello{Quic: quic, SNI: ch.ServerName, ALPN: append([]string(nil), ch.SupportedProtos...)})
	o.mu.Unlock()
}

var proxySANs = []string{"127.0.0.1"}

func (o *origin) proxyURL(kind int) string {
	return fmt.Sprintf("%s://127.0.0.1:%d", []string{"", "http", "https"}[kind], o.pport[kind])
}

// CONNECT proxy in front of this origin: tunnels to 127.0.0.1:<port asked for>, whatever the name
func (o *origin) startProxy(p *pki, kind int) error {
	ln, err := net.Listen("tcp", "127.0.0.1:0")
	if err != nil {
		return err
	}
	o.pport[kind] = ln.Addr().(*net.TCPAddr).Port
	h := http.HandlerFunc(func(w http.ResponseWriter, r *http.Request) {
		if r.Method != http.MethodConnect {
			http.Error(w, "CONNECT only", http.StatusMethodNotAllowed)
			return
		}
		_, port, err := net.SplitHostPort(r.Host)
		if err != nil {
			http.Error(w, "bad target", http.StatusBadRequest)
			return
		}
		up, err := net.Dial("tcp", "127.0.0.1:"+port)
		if err != nil {
			http.Error(w, err.Error(), http.StatusBadGateway)
			return
		}
		hj, ok := w.(http.Hijacker)
		if !ok {
			up.Close()
			return
		}
		down, _, err := hj.Hijack()
		if err != nil {
			up.Close()
			return
		}
		o.mu.Lock()
		o.connects++
		o.mu.Unlock()
		down.Write([]byte("HTTP/1.1 200 Connection established\r\n\r\n"))
		go func() { io.Copy(up, down); up.Close() }()
		go func() { io.Copy(down, up); down.Close() }()
	})
	srv := &http.Server{Handler: h, ReadHeaderTimeout: 10 * time.Second}
	var l net.Listener = ln
	if kind == 2 {
		cfg := &tls.Config{Certificates: []tls.Certificate{p.proxyCert}, NextProtos: []string{"http/1.1"}}
		cfg.GetConfigForClient = func(ch *tls.ClientHelloInfo) (*tls.Config, error) {
			o.mu.Lock()
			o.hellos = append(o.hellos, hello{Proxy: true, SNI: ch.ServerName, ALPN: append([]string(nil), ch.SupportedProtos...)})
			o.mu.Unlock()
			return nil, nil
		}
		srv.TLSNextProto = map[string]func(*http.Server, *tls.Conn, http.Handler){}
		l = tls.NewListener(ln, cfg)
	}
	go srv.Serve(l)
	o.closes = append(o.closes, func() { srv.Close() })
	return nil
}

func (o *origin) mark() int {
	o.mu.Lock()
	defer o.mu.Unlock()
	return len(o.hellos)
}

func (o *origin) since(m int) []hello {
	o.mu.Lock()
	defer o.mu.Unlock()
	return append([]hello(nil), o.hellos[m:]...)
}

func (o *origin) quicSince(m int) int {
	n := 0
	for _, h := range o.since(m) {
		if h.Quic {
			n++
		}
	}
	return n
}

func (o *origin) close() {
	for _, f := range o.closes {
		f()
	}
}

func (o *origin) handler(listener string) http.Handler {
	return http.HandlerFunc(func(w http.ResponseWriter, r *http.Request) {
		w.Header().Set("X-Proto", r.Proto)
		w.Header().Set("X-Listener", listener)
		if r.TLS != nil {
			w.Header().Set("X-Sni", r.TLS.ServerName)
			if len(r.TLS.PeerCertificates) > 0 {
				w.Header().Set("X-Cn", r.TLS.PeerCertificates[0].Subject.CommonName)
			}
		}
		if o.spec.AltSvc && listener != "quic" {
			ap := o.port
			if o.altPort != 0 {
				ap = o.altPort // (scenario origin: advertises HTTP/3 on ANOTHER origin's port)
			}
			w.Header().Set("Alt-Svc", fmt.Sprintf(`h3=":%d"; ma=3600`, ap))
		}
		w.WriteHeader(204)
	})
}

func startOrigin(p *pki, spec srvSpec) (*origin, error) {
	var lastErr error
	for attempt := 0; attempt < 20; attempt++ {
		o := &origin{spec: spec}
		ln, err := net.Listen("tcp", "127.0.0.1:0")
		if err != nil {
			return nil, err
		}
		o.port = ln.Addr().(*net.TCPAddr).Port
		// the UDP port of the same number is always taken by the origin: by its QUIC listener, or - no HTTP/3 -
		// by a socket nobody reads, so that no other process on the machine (other harnesses run QUIC servers on
		// random ports) can answer a QUIC dial meant for this origin (seen once in 31 000 thorough cells: a
		// forced-HTTP/3 request to an origin without QUIC listener was served by a foreign server)
		var pc net.PacketConn
		pc, err = net.ListenPacket("udp", fmt.Sprintf("127.0.0.1:%d", o.port))
		if err != nil { // UDP port taken: try another TCP port
			ln.Close()
			lastErr = err
			continue
		}
		if !spec.H3 {
			silent := pc
			o.closes = append(o.closes, func() { silent.Close() })
		}
		base := func(quic bool) *tls.Config {
			c := &tls.Config{Certificates: []tls.Certificate{p.serverCert}}
			if spec.NameOnly {
				c.Certificates = []tls.Certificate{p.nameCert}
			}
			if spec.NeedCert {
				c.ClientAuth = tls.RequireAndVerifyClientCert
				c.ClientCAs = p.pool(3)
				if !quic {
					// TLS 1.2 on TCP so that a refused client certificate fails the client's handshake
					// deterministically (in 1.3 it surfaces later and can be masked by a connection reset)
					c.MaxVersion = tls.VersionTLS12
				}
			}
			c.GetConfigForClient = func(ch *tls.ClientHelloInfo) (*tls.Config, error) {
				o.logHello(quic, ch)
				return nil, nil
			}
			return c
		}
		if spec.HTTPS {
			cfg := base(false)
			cfg.NextProtos = append([]string(nil), spec.ALPN...)
			srv := &http.Server{Handler: o.handler("tls"), TLSConfig: cfg, ReadHeaderTimeout: 10 * time.Second}
			hasH2 := false
			for _, a := range spec.ALPN {
				if a == "h2" {
					hasH2 = true
				}
			}
			if hasH2 {
				if err := http2.ConfigureServer(srv, &http2.Server{}); err != nil {
					return nil, err
				}
				// ConfigureServer may only append; keep the order we asked for
				if strings.Join(srv.TLSConfig.NextProtos, ",") != strings.Join(spec.ALPN, ",") {
					return nil, fmt.Errorf("ConfigureServer changed NextProtos to %v", srv.TLSConfig.NextProtos)
				}
			} else {
				srv.TLSNextProto = map[string]func(*http.Server, *tls.Conn, http.Handler){}
			}
			go srv.Serve(tls.NewListener(peekListener{ln, o}, srv.TLSConfig))
			o.closes = append(o.closes, func() { srv.Close() })
			for kind := 1; kind <= 2; kind++ {
				if err := o.startProxy(p, kind); err != nil {
					return nil, err
				}
			}
		} else {
			var h http.Handler = o.handler("plain")
			if spec.H2C {
				h = h2c.NewHandler(h, &http2.Server{})
			}
			srv := &http.Server{Handler: h, ReadHeaderTimeout: 10 * time.Second}
			go srv.Serve(ln)
			o.closes = append(o.closes, func() { srv.Close() })
		}
		if spec.H3 {
			h3 := &qh3.Server{TLSConfig: qh3.ConfigureTLSConfig(base(true)), Handler: o.handler("quic")}
			go h3.Serve(pc)
			o.closes = append(o.closes, func() { h3.Close(); pc.Close() })
		}
		return o, nil
	}
	return nil, fmt.Errorf("could not find a free TCP+UDP port pair: %v", lastErr)
}

// the server configurations of the matrix
func allSpecs() []srvSpec {
	var out []srvSpec
	alpns := []struct {
		n string
		l []string
	}{{"h1", []string{"http/1.1"}}, {"h2h1", []string{"h2", "http/1.1"}}, {"h1h2", []string{"http/1.1", "h2"}}}
	for _, a := range alpns {
		for _, h3 := range []string{"no", "alt", "direct"} {
			for _, nc := range []bool{false, true} {
				s := srvSpec{HTTPS: true, ALPN: a.l, H3: h3 != "no", AltSvc: h3 == "alt", NeedCert: nc}
				s.Name = fmt.Sprintf("tls-%s-h3%s", a.n, h3)
				if nc {
					s.Name += "-needcert"
				}
				out = append(out, s)
			}
		}
	}
	// origins whose certificate is valid for the DNS names only: what is acceptable as localhost is not as 127.0.0.1
	for _, a := range alpns[1:] {
		for _, h3 := range []string{"no", "direct"} {
			out = append(out, srvSpec{Name: fmt.Sprintf("tls-%s-h3%s-nameonly", a.n, h3), HTTPS: true, ALPN: a.l, H3: h3 != "no", NameOnly: true})
		}
	}
	// an origin that advertises h3 but has no QUIC listener (thorough tier only: QUIC dial timeouts)
	out = append(out, srvSpec{Name: "tls-h2h1-h3dead", HTTPS: true, ALPN: []string{"h2", "http/1.1"}, AltSvc: true})
	for _, h2cOn := range []bool{false, true} {
		for _, alt := range []bool{false, true} {
			s := srvSpec{H2C: h2cOn, H3: alt, AltSvc: alt}
			s.Name = "plain-h1"
			if h2cOn {
				s.Name = "plain-h2c"
			}
			if alt {
				s.Name += "-h3alt"
			}
			out = append(out, s)
		}
	}
	return out
}
