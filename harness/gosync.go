package main

// gosync: regenerate coq/Gen/*.v from /repo's current Go source (constants, tables,
// switch labels, small integer kernels).  Each generator lives next to the property that
// uses it and registers itself in gosyncers.

import (
	"fmt"
	"os"
	"path/filepath"
	"sort"
)

type gosyncer func(repo string) (file string, content string, err error)

var gosyncers = map[string]gosyncer{}

func gosync(repo, out string) error {
	if out == "" {
		return fmt.Errorf("-out required")
	}
	if err := os.MkdirAll(out, 0o755); err != nil {
		return err
	}
	var names []string
	for n := range gosyncers {
		names = append(names, n)
	}
	sort.Strings(names)
	for _, n := range names {
		file, content, err := gosyncers[n](repo)
		if err != nil {
			return fmt.Errorf("%s: %w", n, err)
		}
		p := filepath.Join(out, file)
		old, _ := os.ReadFile(p)
		if string(old) != content { // keep mtime when unchanged so make stays incremental
			if err := os.WriteFile(p, []byte(content), 0o644); err != nil {
				return err
			}
		}
	}
	return nil
}
