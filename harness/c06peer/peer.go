package c06peer

import (
	"bytes"
	"encoding/binary"
	"fmt"
	"io"
	"strconv"
	"strings"
	"sync"
	"sync/atomic"
	"time"

	xh2 "golang.org/x/net/http2"
	"golang.org/x/net/http2/hpack"
)

const clientPreface = "PRI * HTTP/2.0\r\n\r\nSM\r\n\r\n"

// reqRuntime is the state shared between the app side of one request and the peer.
type reqRuntime struct {
	consumed   atomic.Int64 // response body bytes the app has read so far
	appDone    atomic.Bool  // app finished with the response (read to the end / closed / failed)
	release    chan struct{}
	relOnce    sync.Once
	gate       chan struct{} // closed by the peer script (action start-req) for gated requests
	gateOnce   sync.Once
	closeAsked chan struct{} // closed when the request body's Close is called
	closeOnce  sync.Once
	done       chan struct{} // closed when the app side of the request has returned
	doneOnce   sync.Once
	errStr     atomic.Value // string
	gotHeader  atomic.Bool
}

func (rt *reqRuntime) releaseRead() { rt.relOnce.Do(func() { close(rt.release) }) }
func (rt *reqRuntime) openGate() {
	rt.gateOnce.Do(func() {
		if rt.gate != nil {
			close(rt.gate)
		}
	})
}

// holdWriter lets the peer put several frames into ONE write on the connection.
type holdWriter struct {
	w    io.Writer
	hold bool
	buf  []byte
}

func (h *holdWriter) Write(p []byte) (int, error) {
	if h.hold {
		h.buf = append(h.buf, p...)
		return len(p), nil
	}
	return h.w.Write(p)
}

func (h *holdWriter) release() error {
	h.hold = false
	b := h.buf
	h.buf = nil
	if len(b) == 0 {
		return nil
	}
	_, err := h.w.Write(b)
	return err
}

type pstream struct {
	id       uint32
	reqIdx   int // -1: unknown
	spec     *ReqSpec
	rt       *reqRuntime
	hdrDone  bool
	cliEnded bool
	cliReset bool
	ignored  bool // opened after our GOAWAY
	recv     int  // upload DATA payload bytes received

	padOnlySent int
	respStarted bool
	respSent    int
	respDone    bool
	peerReset   bool

	blockedTicks int
	stallPing    uint64 // outstanding barrier ping id (0 = none)
	stallSent    int
	stallAcked   bool
}

type stallInfo struct {
	Sid     uint32 `json:"sid"`
	Req     int    `json:"req"`
	Sent    int    `json:"sent"`
	RecvWin int64  `json:"recv_win"`
	At      int    `json:"event_index"`
}

type peer struct {
	sc       *Scenario
	conn     *pipeConn
	hw       *holdWriter
	resumeAt int         // tick at which a reader stopped by PingMidBlock resumes (0: not stopped)
	paused   atomic.Bool // the script stopped the reader (client writes back up)
	fr       *xh2.Framer
	rts      []*reqRuntime

	mu        sync.Mutex // guards everything below, the log and all writes
	log       []Event
	book      *Oracle
	firstViol int // index of the first per-event violation seen online (-1: none)
	violCls   int

	cliMaxFrame uint32
	streams     map[uint32]*pstream
	order       []uint32
	hdec        *hpack.Decoder
	hfields     []hpack.HeaderField
	henc        *hpack.Encoder
	hbuf        bytes.Buffer

	needSettingsAck int
	pingAcks        [][8]byte
	pingSeq         uint64
	pingWait        map[uint64]chan struct{}
	pingDone        map[uint64]bool

	upBytes, downBytes int
	ticks              int
	actIdx             int
	actTicks           int
	incIdx             int
	settingsSentInit   bool
	goAwaySent         bool
	goAwayLast         uint32
	cliGoAway          bool
	cliGoAwayCode      uint32
	finishing          bool
	writeErr           error
	readErr            error
	stalls             []stallInfo
	connBlockedSince   time.Time
	connStall          bool
	notes              []string
	maxLog             int

	kick       chan struct{}
	stop       chan struct{}
	stopOnce   sync.Once
	readerDone chan struct{}
	writerDone chan struct{}
	start      time.Time
}

func newPeer(sc *Scenario, conn *pipeConn, rts []*reqRuntime) *peer {
	p := &peer{sc: sc, conn: conn, rts: rts, book: NewOracle(), firstViol: -1, cliMaxFrame: 16384,
		streams: map[uint32]*pstream{}, pingWait: map[uint64]chan struct{}{}, pingDone: map[uint64]bool{},
		kick: make(chan struct{}, 1), stop: make(chan struct{}), readerDone: make(chan struct{}),
		writerDone: make(chan struct{}), maxLog: 20000, start: time.Now()}
	p.hw = &holdWriter{w: conn}
	p.fr = xh2.NewFramer(p.hw, conn)
	p.fr.AllowIllegalReads = true
	p.fr.SetMaxReadFrameSize(1<<24 - 1)
	p.hdec = hpack.NewDecoder(4096, func(f hpack.HeaderField) { p.hfields = append(p.hfields, f) })
	p.henc = hpack.NewEncoder(&p.hbuf)
	return p
}

func (p *peer) wake() {
	select {
	case p.kick <- struct{}{}:
	default:
	}
}

func (p *peer) shutdown() {
	p.stopOnce.Do(func() { close(p.stop) })
}

func (p *peer) note(format string, a ...interface{}) {
	if len(p.notes) < 20 {
		p.notes = append(p.notes, fmt.Sprintf(format, a...))
	}
}

// logEvent appends to the trace and keeps the books (p.mu held).
func (p *peer) logEvent(e Event) {
	if len(p.log) >= p.maxLog {
		return
	}
	p.log = append(p.log, e)
	if c := p.book.Step(&p.log[len(p.log)-1]); c != 0 && p.firstViol < 0 {
		p.firstViol, p.violCls = len(p.log)-1, c
	}
}

// ---------- reader ----------

func (p *peer) releaseAll() {
	for _, rt := range p.rts {
		rt.releaseRead()
		rt.openGate()
	}
}

func (p *peer) readLoop() {
	defer close(p.readerDone)
	defer p.wake()
	defer p.releaseAll()
	pre := make([]byte, len(clientPreface))
	if _, err := io.ReadFull(p.conn, pre); err != nil || string(pre) != clientPreface {
		p.mu.Lock()
		p.readErr = fmt.Errorf("bad client preface: %v", err)
		p.mu.Unlock()
		return
	}
	delay := time.Duration(p.sc.ReadDelayUs) * time.Microsecond
	budget := 1500 * time.Millisecond
	for {
		if delay > 0 && budget > 0 {
			time.Sleep(delay)
			budget -= delay
		}
		for p.paused.Load() {
			select {
			case <-p.stop:
				return
			case <-time.After(200 * time.Microsecond):
			}
		}
		f, err := p.fr.ReadFrame()
		if err != nil {
			p.mu.Lock()
			p.readErr = err
			p.mu.Unlock()
			return
		}
		p.mu.Lock()
		p.handle(f)
		p.mu.Unlock()
		p.wake()
	}
}

func (p *peer) handle(f xh2.Frame) {
	h := f.Header()
	e := Event{C: true, Type: uint8(h.Type), Flags: uint8(h.Flags), Sid: h.StreamID, Len: h.Length}
	switch f := f.(type) {
	case *xh2.SettingsFrame:
		if !f.IsAck() {
			for i := 0; i < f.NumSettings(); i++ {
				s := f.Setting(i)
				e.Settings = append(e.Settings, [2]uint32{uint32(s.ID), s.Val})
				if s.ID == xh2.SettingMaxFrameSize {
					p.cliMaxFrame = s.Val
				}
			}
			if e.Settings == nil {
				e.Settings = [][2]uint32{}
			}
			p.needSettingsAck++
		}
	case *xh2.WindowUpdateFrame:
		e.Inc = f.Increment
	case *xh2.RSTStreamFrame:
		e.Code = uint32(f.ErrCode)
		if st := p.streams[h.StreamID]; st != nil {
			st.cliReset = true
		}
	case *xh2.GoAwayFrame:
		e.Last, e.Code = f.LastStreamID, uint32(f.ErrCode)
		p.cliGoAway, p.cliGoAwayCode = true, uint32(f.ErrCode)
	case *xh2.PingFrame:
		if f.IsAck() {
			id := binary.BigEndian.Uint64(f.Data[:])
			p.pingDone[id] = true
			if ch := p.pingWait[id]; ch != nil {
				close(ch)
				delete(p.pingWait, id)
			}
		} else {
			p.pingAcks = append(p.pingAcks, f.Data)
		}
	case *xh2.HeadersFrame:
		st := p.streams[h.StreamID]
		if st == nil {
			st = &pstream{id: h.StreamID, reqIdx: -1}
			if p.goAwaySent && h.StreamID > p.goAwayLast {
				st.ignored = true
			}
			p.streams[h.StreamID] = st
			p.order = append(p.order, h.StreamID)
		}
		if f.StreamEnded() {
			st.cliEnded = true
		}
		p.feedHeaders(st, f.HeaderBlockFragment(), f.HeadersEnded())
		if p.sc.PingMidBlock && !f.HeadersEnded() && p.resumeAt == 0 && p.ok() {
			// the rest of the block is still on its way (or stuck in the client's writer):
			// stop reading for a while and send a PING now
			p.logEvent(e)
			p.paused.Store(true)
			p.resumeAt = p.ticks + 30
			p.sendPing()
			return
		}
	case *xh2.ContinuationFrame:
		if st := p.streams[h.StreamID]; st != nil {
			p.feedHeaders(st, f.HeaderBlockFragment(), f.HeadersEnded())
		}
	case *xh2.DataFrame:
		if st := p.streams[h.StreamID]; st != nil {
			st.recv += len(f.Data())
			if f.StreamEnded() {
				st.cliEnded = true
			}
		}
		p.upBytes += len(f.Data())
	}
	p.logEvent(e)
}

func (p *peer) feedHeaders(st *pstream, frag []byte, end bool) {
	if _, err := p.hdec.Write(frag); err != nil {
		p.note("hpack write: %v", err)
	}
	if !end {
		return
	}
	if err := p.hdec.Close(); err != nil {
		p.note("hpack close: %v", err)
	}
	fields := p.hfields
	p.hfields = nil
	if st.hdrDone { // trailers
		return
	}
	st.hdrDone = true
	for _, hf := range fields {
		if hf.Name == ":path" && strings.HasPrefix(hf.Value, "/r/") {
			if k, err := strconv.Atoi(hf.Value[3:]); err == nil && k >= 0 && k < len(p.sc.Reqs) {
				st.reqIdx, st.spec, st.rt = k, &p.sc.Reqs[k], p.rts[k]
			}
		}
	}
	if st.spec == nil {
		p.note("stream %d: request not recognised", st.id)
		st.spec = &ReqSpec{Upload: -1, RespChunk: 16384, App: appReadAll}
		st.rt = &reqRuntime{release: make(chan struct{})}
	}
}

// ---------- writer ----------

func (p *peer) ok() bool { return p.writeErr == nil }

func (p *peer) wrote(err error, e Event) {
	if err != nil {
		if p.writeErr == nil {
			p.writeErr = err
			p.releaseAll()
		}
		return
	}
	p.logEvent(e)
}

func (p *peer) sendSettings(set [][2]uint32) {
	ss := make([]xh2.Setting, len(set))
	for i, kv := range set {
		ss[i] = xh2.Setting{ID: xh2.SettingID(kv[0]), Val: kv[1]}
	}
	if set == nil {
		set = [][2]uint32{}
	}
	p.wrote(p.fr.WriteSettings(ss...), Event{Type: ftSettings, Len: uint32(6 * len(set)), Settings: set})
}

func (p *peer) sendWU(sid, inc uint32) {
	p.wrote(p.fr.WriteWindowUpdate(sid, inc), Event{Type: ftWindowUpdate, Sid: sid, Len: 4, Inc: inc})
}

func (p *peer) sendRst(st *pstream) {
	st.peerReset = true
	p.wrote(p.fr.WriteRSTStream(st.id, xh2.ErrCodeCancel), Event{Type: ftRst, Sid: st.id, Len: 4, Code: uint32(xh2.ErrCodeCancel)})
	if st.rt != nil {
		st.rt.releaseRead()
	}
}

func (p *peer) sendPing() uint64 {
	p.pingSeq++
	var d [8]byte
	binary.BigEndian.PutUint64(d[:], p.pingSeq)
	p.wrote(p.fr.WritePing(false, d), Event{Type: ftPing, Len: 8})
	return p.pingSeq
}

func (p *peer) nextInc() uint32 {
	v := p.sc.Incs[p.incIdx%len(p.sc.Incs)]
	p.incIdx++
	return v
}

// step runs one round of the peer's script (p.mu held).
func (p *peer) step(tick bool) {
	if !p.ok() {
		return
	}
	if tick {
		p.ticks++
		p.actTicks++
	}
	// initial SETTINGS
	if !p.settingsSentInit {
		if time.Since(p.start) < time.Duration(p.sc.SettingsLate)*time.Millisecond {
			return
		}
		p.settingsSentInit = true
		p.sendSettings(p.sc.PeerSettings)
		if p.sc.InitConnWU > 0 {
			p.sendWU(0, p.sc.InitConnWU)
		}
	}
	// acks
	for p.needSettingsAck > 0 {
		p.needSettingsAck--
		p.wrote(p.fr.WriteSettingsAck(), Event{Type: ftSettings, Flags: flagAck})
	}
	for _, d := range p.pingAcks {
		p.wrote(p.fr.WritePing(true, d), Event{Type: ftPing, Flags: flagAck, Len: 8})
	}
	p.pingAcks = nil
	if p.finishing {
		return
	}
	// scripted actions (sequential)
	for p.actIdx < len(p.sc.Actions) && len(p.order) > 0 {
		a := &p.sc.Actions[p.actIdx]
		if !((a.TrigUp > 0 && p.upBytes >= a.TrigUp) || (a.TrigDown > 0 && p.downBytes >= a.TrigDown) || p.actTicks >= a.TrigTicks) {
			break
		}
		p.actIdx++
		p.actTicks = 0
		switch a.Kind {
		case "settings":
			p.sendSettings(a.Settings)
		case "wu":
			// alternate between the connection and the oldest open stream
			sid := uint32(0)
			if p.actIdx%2 == 0 {
				for _, id := range p.order {
					if st := p.streams[id]; !st.cliEnded && !st.cliReset && !st.peerReset {
						sid = id
						break
					}
				}
			}
			p.sendWU(sid, a.Inc)
		case "ping":
			p.sendPing()
		case "pause-read":
			p.paused.Store(true)
		case "resume-read":
			p.paused.Store(false)
		case "start-req":
			if int(a.Inc) < len(p.rts) {
				p.rts[a.Inc].openGate()
			}
		case "goaway":
			if !p.goAwaySent {
				p.goAwaySent = true
				p.goAwayLast = p.book.lastSid
				p.wrote(p.fr.WriteGoAway(p.goAwayLast, xh2.ErrCodeNo, nil), Event{Type: ftGoAway, Len: 8, Last: p.goAwayLast})
			}
		}
	}
	// credit for uploads
	if tick || !p.sc.GrantOnTick {
		uploading := false
		for _, id := range p.order {
			st := p.streams[id]
			if !st.hdrDone || st.cliEnded || st.cliReset || st.peerReset || st.ignored {
				continue
			}
			uploading = true
			if bs := p.book.streams[id]; bs != nil && bs.win < p.sc.LowStream {
				p.sendWU(id, p.nextInc())
			}
		}
		if uploading && p.book.connWin < p.sc.LowConn {
			p.sendWU(0, p.nextInc())
		}
	}
	if p.resumeAt > 0 && p.ticks >= p.resumeAt && p.paused.Load() {
		p.paused.Store(false)
		p.resumeAt = 0 // the next multi-frame header block is probed again
	}
	// responses, upload resets
	more := false
	for _, id := range p.order {
		st := p.streams[id]
		if !st.hdrDone || st.ignored || st.peerReset || st.respDone && (st.cliEnded || st.cliReset) {
			continue
		}
		if st.cliReset {
			st.rt.releaseRead()
			continue
		}
		if st.spec.RstUpload > 0 && st.recv >= st.spec.RstUpload && !st.respDone {
			p.sendRst(st)
			continue
		}
		if st.respDone {
			continue
		}
		if p.respond(st, tick) {
			more = true
		}
	}
	if more {
		p.wake()
	}
}

// respond advances the response on st; it reports whether more could be sent right away.
func (p *peer) respond(st *pstream, tick bool) bool {
	sp := st.spec
	if !st.respStarted {
		if !(sp.RespEarly || st.cliEnded) {
			return false
		}
		st.respStarted = true
		p.hbuf.Reset()
		wf := func(n, v string) { p.henc.WriteField(hpack.HeaderField{Name: n, Value: v, Sensitive: true}) }
		status := "200"
		if sp.Status != 0 {
			status = strconv.Itoa(sp.Status)
		}
		wf(":status", status)
		wf("content-type", "application/octet-stream")
		if !sp.NoCL {
			wf("content-length", strconv.Itoa(sp.RespSize-sp.CLShort))
		}
		end := sp.RespSize == 0 && sp.EndOnHeaders
		blk := append([]byte(nil), p.hbuf.Bytes()...)
		fl := uint8(flagEndHeaders)
		if end {
			fl |= flagEndStream
		}
		batch := sp.AckBatch != nil && end
		if batch { // SETTINGS + the complete response in one write
			p.hw.hold = true
			p.sendSettings(sp.AckBatch)
		}
		p.wrote(p.fr.WriteHeaders(xh2.HeadersFrameParam{StreamID: st.id, BlockFragment: blk, EndStream: end, EndHeaders: true}),
			Event{Type: ftHeaders, Flags: fl, Sid: st.id, Len: uint32(len(blk))})
		if batch {
			if err := p.hw.release(); err != nil && p.writeErr == nil {
				p.writeErr = err
			}
		}
		if end {
			st.respDone = true
			st.rt.releaseRead()
			return false
		}
	}
	bs := p.book.streams[st.id]
	if bs == nil {
		return false
	}
	for st.padOnlySent < sp.PadOnly {
		// padding only: PADDED flag, Pad Length octet + padding, no data byte
		pad := sp.RespPad
		if pad <= 0 {
			pad = 255
		}
		need := int64(1 + pad)
		if need > int64(p.cliMaxFrame) || need > bs.recvWin || need > p.book.cConnWin {
			p.blocked(st, bs, tick)
			return false
		}
		p.wrote(p.fr.WriteDataPadded(st.id, false, nil, make([]byte, pad)),
			Event{Type: ftData, Flags: flagPadded, Sid: st.id, Len: uint32(need)})
		st.padOnlySent++
	}
	for frames := 0; frames < 4; frames++ {
		if sp.RstDownload > 0 && st.respSent >= sp.RstDownload {
			p.sendRst(st)
			return false
		}
		if sp.RespWaitClose > 0 && st.respSent >= sp.RespWaitClose && st.rt.closeAsked != nil {
			select {
			case <-st.rt.closeAsked: // the client side has given the exchange up; its cleanup may still hang
			default:
				return false
			}
		}
		remain := sp.RespSize - st.respSent
		if remain == 0 { // END_STREAM on an empty DATA frame
			p.wrote(p.fr.WriteData(st.id, true, nil), Event{Type: ftData, Flags: flagEndStream, Sid: st.id})
			st.respDone = true
			st.rt.releaseRead()
			return false
		}
		over := 0
		if sp.RespPad > 0 {
			over = 1 + sp.RespPad
		}
		n := int64(remain)
		if c := int64(sp.RespChunk); n > c {
			n = c
		}
		if sp.RstDownload > 0 && int64(sp.RstDownload-st.respSent) < n {
			n = int64(sp.RstDownload - st.respSent)
		}
		want := n
		for _, lim := range []int64{int64(p.cliMaxFrame), bs.recvWin, p.book.cConnWin} {
			if n > lim-int64(over) {
				n = lim - int64(over)
			}
		}
		if n <= 0 && over > 0 { // no room for padding: send unpadded
			over, n = 0, want
			for _, lim := range []int64{int64(p.cliMaxFrame), bs.recvWin, p.book.cConnWin} {
				if n > lim {
					n = lim
				}
			}
		}
		if n <= 0 {
			p.blocked(st, bs, tick)
			return false
		}
		st.blockedTicks = 0
		p.connBlockedSince = time.Time{}
		end := int(n) == remain && !sp.SepEnd
		data := make([]byte, n)
		fl := uint8(0)
		if end {
			fl |= flagEndStream
		}
		if over > 0 {
			fl |= flagPadded
			p.wrote(p.fr.WriteDataPadded(st.id, end, data, make([]byte, sp.RespPad)),
				Event{Type: ftData, Flags: fl, Sid: st.id, Len: uint32(int(n) + over)})
		} else {
			p.wrote(p.fr.WriteData(st.id, end, data), Event{Type: ftData, Flags: fl, Sid: st.id, Len: uint32(n)})
		}
		st.respSent += int(n)
		p.downBytes += int(n)
		if end {
			st.respDone = true
			st.rt.releaseRead()
			return false
		}
	}
	return true
}

// blocked handles a response that cannot proceed for lack of window: it lets a
// holding app start reading and runs the stall barrier (PING round trip after the
// app has consumed everything that was sent).
func (p *peer) blocked(st *pstream, bs *ostream, tick bool) {
	st.rt.releaseRead()
	if tick {
		st.blockedTicks++
	}
	streamBlocked := bs.recvWin <= 0
	if !streamBlocked { // connection-level window exhausted
		if p.connBlockedSince.IsZero() {
			p.connBlockedSince = time.Now()
		} else if time.Since(p.connBlockedSince) > 15*time.Second && !p.connStall {
			p.connStall = true
			p.note("connection receive window exhausted for 15 s (cConnWin=%d)", p.book.cConnWin)
		}
		return
	}
	consumedAll := st.rt.consumed.Load() == int64(st.respSent) && !st.rt.appDone.Load()
	if st.stallPing != 0 {
		if p.pingDone[st.stallPing] {
			delete(p.pingDone, st.stallPing)
			st.stallPing = 0
			if consumedAll && st.stallSent == st.respSent {
				// the client saw everything we sent, the app consumed it, all credit the
				// client wrote before the PING ack has been read: permanent stall.
				p.stalls = append(p.stalls, stallInfo{Sid: st.id, Req: st.reqIdx, Sent: st.respSent, RecvWin: bs.recvWin, At: len(p.log)})
				p.sendRst(st)
			}
		}
		return
	}
	if consumedAll && st.blockedTicks >= 3 {
		st.stallPing = p.sendPing()
		st.stallSent = st.respSent
	}
}

func (p *peer) writeLoop() {
	defer close(p.writerDone)
	tick := time.NewTicker(time.Duration(p.sc.TickUs) * time.Microsecond)
	defer tick.Stop()
	for {
		isTick := false
		select {
		case <-p.stop:
			return
		case <-p.kick:
		case <-tick.C:
			isTick = true
		}
		p.mu.Lock()
		p.step(isTick)
		p.mu.Unlock()
	}
}

// pingBarrier sends a PING and waits for its ack.
func (p *peer) pingBarrier(timeout time.Duration) bool {
	p.mu.Lock()
	if !p.ok() {
		p.mu.Unlock()
		return false
	}
	id := p.sendPing()
	ch := make(chan struct{})
	p.pingWait[id] = ch
	p.mu.Unlock()
	select {
	case <-ch:
		return true
	case <-p.readerDone:
		return false
	case <-time.After(timeout):
		return false
	}
}

func (p *peer) readerExited() bool {
	select {
	case <-p.readerDone:
		return true
	default:
		return false
	}
}
