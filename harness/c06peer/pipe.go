// Package c06peer drives the real req HTTP/2 client against a strict, scripted,
// monitoring HTTP/2 peer over an in-memory connection and judges the recorded
// frame trace with an independent oracle (property C06).
package c06peer

import (
	"io"
	"net"
	"sync"
	"time"
)

// halfPipe is one direction of the in-memory duplex connection: a byte FIFO
// with an optional capacity bound (limit == 0: unbounded, writes never block).
type halfPipe struct {
	mu      sync.Mutex
	cond    *sync.Cond
	buf     []byte
	off     int
	limit   int
	closed  bool
	blocked int        // number of Write calls that had to wait for space
	wmu     sync.Mutex // one Write call at a time, as on a net.Conn: concurrent writers do not interleave inside a call
}

func newHalfPipe(limit int) *halfPipe {
	h := &halfPipe{limit: limit}
	h.cond = sync.NewCond(&h.mu)
	return h
}

func (h *halfPipe) size() int { return len(h.buf) - h.off }

func (h *halfPipe) write(p []byte) (int, error) {
	h.wmu.Lock()
	defer h.wmu.Unlock()
	h.mu.Lock()
	defer h.mu.Unlock()
	n := 0
	waited := false
	for len(p) > 0 {
		if h.closed {
			return n, io.ErrClosedPipe
		}
		room := len(p)
		if h.limit > 0 {
			room = h.limit - h.size()
			if room <= 0 {
				if !waited {
					waited = true
					h.blocked++
				}
				h.cond.Wait()
				continue
			}
			if room > len(p) {
				room = len(p)
			}
		}
		if h.off > 0 && h.off >= len(h.buf)/2 {
			h.buf = append(h.buf[:0], h.buf[h.off:]...)
			h.off = 0
		}
		h.buf = append(h.buf, p[:room]...)
		p = p[room:]
		n += room
		h.cond.Broadcast()
	}
	return n, nil
}

func (h *halfPipe) read(p []byte) (int, error) {
	h.mu.Lock()
	defer h.mu.Unlock()
	for h.size() == 0 {
		if h.closed {
			return 0, io.EOF
		}
		h.cond.Wait()
	}
	n := copy(p, h.buf[h.off:])
	h.off += n
	if h.off == len(h.buf) {
		h.buf = h.buf[:0]
		h.off = 0
	}
	h.cond.Broadcast()
	return n, nil
}

func (h *halfPipe) close() {
	h.mu.Lock()
	h.closed = true
	h.cond.Broadcast()
	h.mu.Unlock()
}

func (h *halfPipe) blockedWrites() int {
	h.mu.Lock()
	defer h.mu.Unlock()
	return h.blocked
}

type pipeAddr string

func (a pipeAddr) Network() string { return "mem" }
func (a pipeAddr) String() string  { return string(a) }

// pipeConn is one end of the duplex connection.
type pipeConn struct {
	r, w   *halfPipe
	name   string
	once   sync.Once
	closed chan struct{}
}

// newPipe returns (client end, peer end). c2p bounds the client->peer
// direction, p2c the peer->client direction (0 = unbounded).
func newPipe(c2p, p2c int) (*pipeConn, *pipeConn) {
	a, b := newHalfPipe(c2p), newHalfPipe(p2c)
	return &pipeConn{r: b, w: a, name: "client", closed: make(chan struct{})},
		&pipeConn{r: a, w: b, name: "peer", closed: make(chan struct{})}
}

func (c *pipeConn) Read(p []byte) (int, error) {
	select {
	case <-c.closed:
		return 0, io.ErrClosedPipe
	default:
	}
	return c.r.read(p)
}
func (c *pipeConn) Write(p []byte) (int, error) { return c.w.write(p) }
func (c *pipeConn) Close() error {
	c.once.Do(func() {
		close(c.closed)
		c.r.close()
		c.w.close()
	})
	return nil
}
func (c *pipeConn) LocalAddr() net.Addr                { return pipeAddr(c.name) }
func (c *pipeConn) RemoteAddr() net.Addr               { return pipeAddr("c06.test:443") }
func (c *pipeConn) SetDeadline(t time.Time) error      { return nil }
func (c *pipeConn) SetReadDeadline(t time.Time) error  { return nil }
func (c *pipeConn) SetWriteDeadline(t time.Time) error { return nil }
