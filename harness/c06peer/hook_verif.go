//go:build verif

package c06peer

import (
	req "github.com/imroc/req/v3"
	h2i "github.com/imroc/req/v3/internal/http2"
)

func connStates(c *req.Client) []h2i.VerifConnState {
	return c.GetTransport().VerifH2ConnStates()
}
