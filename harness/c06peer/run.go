package c06peer

import (
	"context"
	"errors"
	"fmt"
	"io"
	"net"
	"os"
	"runtime/debug"
	"sort"
	"strings"
	"sync"
	"sync/atomic"
	"time"

	req "github.com/imroc/req/v3"
	rh2 "github.com/imroc/req/v3/http2"
	"github.com/imroc/req/v3/verifharness/hk"
)

// Tunables (generous: the machine is shared).
var (
	watchdog      = 60 * time.Second
	finalPingWait = 20 * time.Second
	lingerWait    = 10 * time.Second
	holdWait      = 30 * time.Second
	ackIdleWait   = 10 * time.Second // a SETTINGS ACK on an idle connection takes microseconds
	maxCoqEvents  = 3000
)

// QObs is the client's own view at quiescence (hook snapshot).
type QObs struct {
	CConnInit, Flow, InAvail, InUnsent, MaxFrame, MaxStreams, InitWin, NextID int64
}

type result struct {
	sc         *Scenario
	log        []Event
	idx, cls   int // first per-event violation (idx -1: none)
	final      *Oracle
	endClasses []endViolation
	quiescent  bool
	qobs       *QObs
	timeout    bool
	panicMsg   string
	reqErrs    []string
	notes      []string
	blockedWr  int
	connAlive  bool
	dials      int
	peerOver   bool
	dur        time.Duration
	readErr    string
	ackIdle    int // SETTINGS frames still unacknowledged after ackIdleWait on the idle connection
}

type endViolation struct {
	cls  int
	what string
	at   int
}

func firefoxPrioFrames() []rh2.PriorityFrame {
	mk := func(id, dep uint32, w uint8) rh2.PriorityFrame {
		return rh2.PriorityFrame{StreamID: id, PriorityParam: rh2.PriorityParam{StreamDep: dep, Weight: w}}
	}
	return []rh2.PriorityFrame{mk(3, 0, 200), mk(5, 0, 100), mk(7, 0, 0), mk(9, 7, 0), mk(11, 3, 0), mk(13, 0, 240)}
}

func buildClient(sc *Scenario, dial func(ctx context.Context, network, addr string) (net.Conn, error)) *req.Client {
	c := req.C()
	c.SetLogger(nil)
	switch sc.FP.Kind {
	case "chrome":
		c.ImpersonateChrome()
	case "firefox":
		c.ImpersonateFirefox()
	case "safari":
		c.ImpersonateSafari()
	case "custom":
		ss := make([]rh2.Setting, len(sc.FP.Settings))
		for i, kv := range sc.FP.Settings {
			ss[i] = rh2.Setting{ID: rh2.SettingID(kv[0]), Val: kv[1]}
		}
		c.SetHTTP2SettingsFrame(ss...)
	}
	if sc.FP.ConnFlow != 0 {
		c.SetHTTP2ConnectionFlow(sc.FP.ConnFlow)
	}
	if sc.FP.PrioFrames {
		c.SetHTTP2PriorityFrames(firefoxPrioFrames()...)
	}
	if sc.FP.HeaderPrio {
		c.SetHTTP2HeaderPriority(rh2.PriorityParam{StreamDep: 0, Exclusive: true, Weight: 255})
	}
	if sc.Strict {
		c.SetHTTP2StrictMaxConcurrentStreams(true)
	}
	c.EnableForceHTTP2()
	c.DisableAutoReadResponse()
	c.SetDialTLS(dial)
	c.SetTimeout(0)
	return c
}

// chunkReader is a request body of unknown length.
type chunkReader struct {
	left  int
	chunk int
}

func (r *chunkReader) Read(p []byte) (int, error) {
	if r.left == 0 {
		return 0, io.EOF
	}
	n := len(p)
	if n > r.chunk {
		n = r.chunk
	}
	if n > r.left {
		n = r.left
	}
	for i := 0; i < n; i++ {
		p[i] = 'u'
	}
	r.left -= n
	return n, nil
}

var errHarnessOneConn = errors.New("c06peer: scenario allows one connection only")

func bigCookie(n int) string {
	// characters with long Huffman codes so that HPACK cannot shrink the value much
	const alpha = "{}<>\\^`|~#$&*!?"
	var b strings.Builder
	b.WriteString("k=")
	for b.Len() < n {
		b.WriteByte(alpha[(b.Len()*7)%len(alpha)])
	}
	return b.String()
}

// slowCloseBody is a request body of unknown length whose Close reports that it was called and
// then waits for another request to finish (Request.Body.Close may take arbitrarily long).
type slowCloseBody struct {
	chunkReader
	rt      *reqRuntime
	waitFor *reqRuntime
}

func (b *slowCloseBody) Close() error {
	b.rt.closeOnce.Do(func() { close(b.rt.closeAsked) })
	if b.waitFor != nil {
		select {
		case <-b.waitFor.done:
		case <-time.After(holdWait):
		}
	}
	return nil
}

func waitCh(ctx context.Context, ch chan struct{}) {
	select {
	case <-ch:
	case <-ctx.Done():
	case <-time.After(holdWait):
	}
}

func runApp(ctx context.Context, cancel context.CancelFunc, c *req.Client, sp *ReqSpec, k int, rt *reqRuntime, rts []*reqRuntime) {
	defer rt.doneOnce.Do(func() { close(rt.done) })
	defer rt.appDone.Store(true)
	fail := func(err error) { rt.errStr.Store(err.Error()) }
	if sp.StartDelayUs > 0 {
		time.Sleep(time.Duration(sp.StartDelayUs) * time.Microsecond)
	}
	if rt.gate != nil {
		select {
		case <-rt.gate:
		case <-ctx.Done():
		case <-time.After(holdWait):
		}
	}
	if sp.AfterClose > 0 && sp.AfterClose <= len(rts) {
		waitCh(ctx, rts[sp.AfterClose-1].closeAsked)
	}
	if sp.AfterDone > 0 && sp.AfterDone <= len(rts) {
		waitCh(ctx, rts[sp.AfterDone-1].done)
	}
	r := c.R().SetContext(ctx)
	if sp.BigHeader > 0 {
		r.SetHeader("Cookie", bigCookie(sp.BigHeader))
	}
	method := "GET"
	if sp.Upload >= 0 {
		method = "POST"
		if sp.SlowClose > 0 && sp.SlowClose <= len(rts) {
			r.SetBody(&slowCloseBody{chunkReader: chunkReader{left: sp.Upload, chunk: 70001}, rt: rt, waitFor: rts[sp.SlowClose-1]})
		} else if sp.UnknownLen {
			r.SetBody(&chunkReader{left: sp.Upload, chunk: 70001})
		} else {
			r.SetBodyBytes(make([]byte, sp.Upload))
		}
	}
	resp, err := r.Send(method, fmt.Sprintf("https://c06.test/r/%d", k))
	if err != nil {
		fail(err)
		if resp != nil && resp.Response != nil && resp.Body != nil {
			resp.Body.Close()
		}
		return
	}
	rt.gotHeader.Store(true)
	body := resp.Body
	defer body.Close()
	if sp.HoldRead {
		select {
		case <-rt.release:
		case <-ctx.Done():
		case <-time.After(holdWait):
		}
	}
	readSome := func(buf []byte) (int, error) {
		n, err := body.Read(buf)
		if n > 0 {
			rt.consumed.Add(int64(n))
		}
		return n, err
	}
	drain := func(buf []byte, limit int) error { // limit < 0: to the end
		got := 0
		for limit < 0 || got < limit {
			b := buf
			if limit >= 0 && limit-got < len(b) {
				b = b[:limit-got]
			}
			n, err := readSome(b)
			got += n
			if err != nil {
				return err
			}
		}
		return nil
	}
	switch sp.App {
	case appReadAll:
		if err := drain(make([]byte, 32768), -1); err != nil && err != io.EOF {
			fail(err)
		}
	case appReadSlow:
		buf := make([]byte, sp.AppArg)
		sleeps := 0
		for {
			_, err := readSome(buf)
			if err != nil {
				if err != io.EOF {
					fail(err)
				}
				break
			}
			if sleeps < 300 {
				sleeps++
				time.Sleep(200 * time.Microsecond)
			}
		}
	case appPrefixClose:
		if err := drain(make([]byte, 8192), sp.AppArg); err != nil && err != io.EOF {
			fail(err)
		}
	case appCloseNow:
	case appCancel:
		err := drain(make([]byte, 8192), sp.AppArg)
		cancel()
		if err == nil {
			err = drain(make([]byte, 8192), -1)
		}
		if err != nil && err != io.EOF {
			fail(err)
		}
	}
}

func runScenario(sc *Scenario) (res *result) {
	res = &result{sc: sc, idx: -1}
	t0 := time.Now()
	defer func() {
		res.dur = time.Since(t0)
		if e := recover(); e != nil {
			res.panicMsg = fmt.Sprintf("%v\n%s", e, debug.Stack())
		}
	}()
	cliEnd, peerEnd := newPipe(sc.C2PBuf, 0)
	rts := make([]*reqRuntime, len(sc.Reqs))
	for i := range rts {
		rts[i] = &reqRuntime{release: make(chan struct{}), closeAsked: make(chan struct{}), done: make(chan struct{})}
		if sc.Reqs[i].Gated {
			rts[i].gate = make(chan struct{})
		}
	}
	p := newPeer(sc, peerEnd, rts)
	var dials atomic.Int32
	client := buildClient(sc, func(ctx context.Context, network, addr string) (net.Conn, error) {
		if dials.Add(1) > 1 {
			return nil, errHarnessOneConn
		}
		return cliEnd, nil
	})
	go p.readLoop()
	go p.writeLoop()
	p.wake()

	ctx, cancelAll := context.WithCancel(context.Background())
	var wg sync.WaitGroup
	for k := range sc.Reqs {
		wg.Add(1)
		rctx, rcancel := context.WithCancel(ctx)
		go func(k int) {
			defer wg.Done()
			defer rcancel()
			defer func() {
				if e := recover(); e != nil {
					rts[k].errStr.Store(fmt.Sprintf("panic: %v\n%s", e, debug.Stack()))
					rts[k].appDone.Store(true)
				}
			}()
			runApp(rctx, rcancel, client, &sc.Reqs[k], k, rts[k], rts)
		}(k)
	}
	done := make(chan struct{})
	go func() { wg.Wait(); close(done) }()
	teardown := func() {
		cancelAll()
		for _, rt := range rts {
			rt.releaseRead()
			rt.openGate()
		}
		p.paused.Store(false)
		p.shutdown()
		cliEnd.Close()
		peerEnd.Close()
		client.GetTransport().CloseIdleConnections()
	}
	select {
	case <-done:
	case <-time.After(watchdog):
		res.timeout = true
		teardown()
		select {
		case <-done:
		case <-time.After(15 * time.Second):
			res.notes = append(res.notes, "app goroutines did not finish after force-close")
		}
	}

	// ---- end of scenario ----
	if !res.timeout {
		alive := !p.readerExited()
		if alive {
			// wait until the client has forgotten every stream (RST_STREAMs of cancelled
			// requests are written by the request goroutine, not before Close returns)
			deadline := time.Now().Add(lingerWait)
			for {
				sts := connStates(client)
				if len(sts) != 1 || len(sts[0].Streams) == 0 || time.Now().After(deadline) || p.readerExited() {
					break
				}
				time.Sleep(2 * time.Millisecond)
			}
			// every SETTINGS frame is acknowledged without further stimulus: wait for the
			// outstanding ACKs on the (now idle) connection before anything else is sent
			p.paused.Store(false)
			ackDeadline := time.Now().Add(ackIdleWait)
			for {
				p.mu.Lock()
				pend := len(p.book.pending)
				p.mu.Unlock()
				if pend == 0 || p.readerExited() {
					break
				}
				if time.Now().After(ackDeadline) {
					res.ackIdle = pend
					break
				}
				time.Sleep(time.Millisecond)
			}
			p.mu.Lock()
			p.finishing = true
			p.mu.Unlock()
			alive = p.pingBarrier(finalPingWait)
			if alive { // a second round trip so that acks of frames sent just before "finishing" are in
				alive = p.pingBarrier(finalPingWait)
			}
		}
		res.connAlive = alive
		if alive {
			sts := connStates(client)
			if len(sts) == 1 && len(sts[0].Streams) == 0 && !sts[0].Closed && !sts[0].GoAway {
				s := sts[0]
				res.quiescent = true
				res.qobs = &QObs{Flow: int64(s.Flow), InAvail: int64(s.InflowAvail), InUnsent: int64(s.InflowUnsent),
					MaxFrame: int64(s.MaxFrameSize), MaxStreams: int64(s.MaxConcurrentStreams),
					InitWin: int64(s.InitialWindowSize), NextID: int64(s.NextStreamID)}
			}
		}
	}
	p.mu.Lock()
	p.finishing = true
	res.log = append([]Event(nil), p.log...)
	res.notes = append(res.notes, p.notes...)
	stalls := append([]stallInfo(nil), p.stalls...)
	connStall := p.connStall
	if p.readErr != nil {
		res.readErr = p.readErr.Error()
	}
	p.mu.Unlock()
	if !res.timeout {
		teardown()
	}
	res.blockedWr = cliEnd.w.blockedWrites()
	res.dials = int(dials.Load())
	for k, rt := range rts {
		if s, ok := rt.errStr.Load().(string); ok {
			if len(s) > 300 {
				s = s[:300]
			}
			res.reqErrs = append(res.reqErrs, fmt.Sprintf("r%d: %s", k, s))
			if strings.HasPrefix(s, "panic:") && res.panicMsg == "" {
				res.panicMsg = s
			}
		}
	}

	// ---- judge ----
	res.idx, res.cls, res.final = Judge(res.log)
	res.peerOver = res.final.peerOverrun
	o := res.final
	if res.idx >= 0 {
		// end-of-scenario checks still apply when every per-event violation is one of
		// the apply/ack-vs-write races (the connection stays consistent after those)
		res.quiescent, res.qobs = false, nil
		o = NewOracle()
		for i := range res.log {
			if c := o.Step(&res.log[i]); c != 0 && !strings.HasPrefix(shapeOf(res, c, i), "race-") {
				return res
			}
		}
	}
	for _, s := range stalls {
		res.endClasses = append(res.endClasses, endViolation{clsStreamStalled, fmt.Sprintf(
			"stream %d (request %d): peer sent %d bytes, the app consumed all of them, the stream receive window at the peer is %d and no WINDOW_UPDATE arrived before the PING ack",
			s.Sid, s.Req, s.Sent, s.RecvWin), s.At})
	}
	if res.ackIdle > 0 {
		res.endClasses = append(res.endClasses, endViolation{clsSettingsNotAcked, fmt.Sprintf(
			"%d SETTINGS frame(s) not acknowledged within %v on an idle connection (all requests finished, nothing sent to the client in between): the ACK is missing or held back until the client's next write",
			res.ackIdle, ackIdleWait), len(res.log)})
	}
	if connStall {
		res.endClasses = append(res.endClasses, endViolation{clsConnCredit, "connection receive window stayed exhausted for 15 s", len(res.log)})
	}
	if res.timeout {
		return res
	}
	if !res.connAlive && !sc.ExpectClose {
		res.endClasses = append(res.endClasses, endViolation{clsConnDropped, fmt.Sprintf(
			"client closed the connection or stopped answering PINGs (peer read error: %s)", res.readErr), len(res.log)})
	}
	if res.connAlive {
		if out := o.cConnInit - o.cConnWin; out > 4095 || o.cConnWin <= 0 {
			res.endClasses = append(res.endClasses, endViolation{clsConnCredit, fmt.Sprintf(
				"at quiescence %d bytes of connection credit are outstanding (granted with the preface %d, now %d)", out, o.cConnInit, o.cConnWin), len(res.log)})
		}
		if res.qobs != nil && res.idx < 0 && o.cConnWin+res.qobs.InUnsent != o.cConnInit {
			// exact form at quiescence: what the peer may send plus what the client still
			// holds back (cc.inflow.unsent, hook snapshot) is what was advertised
			res.endClasses = append(res.endClasses, endViolation{clsConnCredit, fmt.Sprintf(
				"at quiescence %d bytes of connection credit are lost: advertised %d, peer's window %d, held back by the client %d",
				o.cConnInit-o.cConnWin-res.qobs.InUnsent, o.cConnInit, o.cConnWin, res.qobs.InUnsent), len(res.log)})
		}
		if res.qobs != nil && res.idx < 0 && len(o.pending) == 0 {
			// settings persist until changed: what the client holds as the peer's limits
			// (hook snapshot) is what the peer's acknowledged SETTINGS frames add up to
			wantStreams := o.maxStreams
			if wantStreams == unlimited {
				wantStreams = 1000 // the transport's own cap while the peer never sent the field
				if o.ackEvents == 0 {
					wantStreams = 100
				}
			}
			q := res.qobs
			if q.MaxFrame != o.maxFrame || q.InitWin != o.initWin || q.MaxStreams != wantStreams {
				res.endClasses = append(res.endClasses, endViolation{clsLimitsDiverge, fmt.Sprintf(
					"at quiescence the client holds MAX_FRAME_SIZE=%d INITIAL_WINDOW_SIZE=%d MAX_CONCURRENT_STREAMS=%d, the acknowledged SETTINGS frames say %d / %d / %d",
					q.MaxFrame, q.InitWin, q.MaxStreams, o.maxFrame, o.initWin, wantStreams), len(res.log)})
			}
		}
		if res.qobs != nil && res.idx < 0 {
			// the client holds no stream any more: the peer must not count one as open either
			// (END_STREAM both ways, or RST_STREAM from either side)
			var leaked []uint32
			for sid, st := range o.streams {
				if !st.closed() {
					leaked = append(leaked, sid)
				}
			}
			if len(leaked) > 0 {
				sort.Slice(leaked, func(i, j int) bool { return leaked[i] < leaked[j] })
				st := o.streams[leaked[0]]
				res.endClasses = append(res.endClasses, endViolation{clsStreamLeaked, fmt.Sprintf(
					"at quiescence the client has forgotten every stream but the peer still counts %v as open (stream %d: client END_STREAM=%v, peer END_STREAM=%v, no RST_STREAM either way)",
					leaked, leaked[0], st.cliClosed, st.peerEnded), len(res.log)})
			}
		}
		if len(o.pending) > 0 {
			res.endClasses = append(res.endClasses, endViolation{clsSettingsNotAcked, fmt.Sprintf(
				"%d SETTINGS frames unacknowledged after the final PING ack", len(o.pending)), len(res.log)})
		}
	}
	if len(res.endClasses) > 0 || res.idx >= 0 {
		res.quiescent, res.qobs = false, nil
	}
	if res.qobs != nil {
		res.qobs.CConnInit = o.cConnInit
	}
	return res
}

// ---------- reporting ----------

// raceContext replays the trace up to (excluding) event at and reports whether the
// violating frame would have been admissible under the peer settings in force just
// before some SETTINGS ACK that the client sent after its previous frame of the same
// kind. That is the signature of the client taking credit (awaitFlowControl) or a
// stream slot (addStreamLocked) under cc.mu, then applying and acknowledging a
// lowering SETTINGS frame, and only then writing the frame it had prepared.
func raceContext(log []Event, at int) (o *Oracle, sentMF bool, race bool) {
	o = NewOracle()
	if at < 0 || at >= len(log) {
		return o, false, false
	}
	const none = int64(-1 << 62)
	winBeforeAck := map[uint32]int64{}   // per stream: max window right before an ack since its last DATA/HEADERS
	frameBeforeAck := map[uint32]int64{} // per stream: max frame limit right before an ack since its last DATA/HEADERS
	slotsBeforeAck := none               // max free stream slots right before an ack since the last new stream
	for i := 0; i < at; i++ {
		e := &log[i]
		if !e.C && e.Type == ftSettings && !e.has(flagAck) {
			for _, kv := range e.Settings {
				if kv[0] == 5 {
					sentMF = true
				}
			}
		}
		if e.C && e.Type == ftSettings && e.has(flagAck) {
			for sid, st := range o.streams {
				if v, ok := winBeforeAck[sid]; !ok || st.win > v {
					winBeforeAck[sid] = st.win
				}
				if v, ok := frameBeforeAck[sid]; !ok || o.frameLimit() > v {
					frameBeforeAck[sid] = o.frameLimit()
				}
			}
			free := int64(1 << 40)
			if lim := o.streamLimit(); lim != unlimited {
				free = lim - o.openStreams()
			}
			if free > slotsBeforeAck {
				slotsBeforeAck = free
			}
		}
		if e.C && (e.Type == ftData || e.Type == ftHeaders) {
			if e.Type == ftHeaders && o.streams[e.Sid] == nil {
				slotsBeforeAck = none
			}
			delete(winBeforeAck, e.Sid)
			delete(frameBeforeAck, e.Sid)
		}
		o.Step(e)
	}
	e := &log[at]
	switch {
	case e.Type == ftData:
		if v, ok := winBeforeAck[e.Sid]; ok && v >= int64(e.Len) {
			if f := frameBeforeAck[e.Sid]; f >= int64(e.Len) {
				race = true
			}
		}
	case e.Type == ftHeaders && o.streams[e.Sid] == nil:
		race = slotsBeforeAck >= 1
	}
	return o, sentMF, race
}

func shapeOf(res *result, cls int, at int) string {
	sc := res.sc
	cmf := optU(sc.FP.setting(5))
	ciw := optU(sc.FP.setting(4))
	var ev *Event
	if at >= 0 && at < len(res.log) {
		ev = &res.log[at]
	}
	o, sentMF, race := raceContext(res.log, at)
	if ev == nil {
		for i := range res.log {
			o.Step(&res.log[i])
		}
	}
	peerMF := "absent"
	if sentMF {
		peerMF = fmt.Sprint(o.maxFrame)
	}
	switch cls {
	case clsFrameTooLarge:
		ft := "other"
		if ev != nil {
			switch ev.Type {
			case ftData:
				ft = "DATA"
				if race && o.loweredFrame {
					return "race-write-vs-ack,frame=DATA,lowered=true"
				}
			case ftHeaders:
				ft = "HEADERS"
				if ev.has(flagPriority) && int64(ev.Len)-5 <= o.frameLimit() {
					ft = "HEADERS+priority5"
				}
			case ftContinuation:
				ft = "CONTINUATION"
			}
		}
		return fmt.Sprintf("frame=%s,caller-maxframe=%s,peer-maxframe=%s,lowered=%v", ft, cmf, peerMF, o.loweredFrame)
	case clsStreamWindow:
		if race && o.loweredInitWin {
			return "race-write-vs-ack,peer-lowered-initwin=true"
		}
		return fmt.Sprintf("no-race,peer-lowered-initwin=%v,negative-window-before=%v", o.loweredInitWin, o.negWindowSeen)
	case clsConnWindow:
		return fmt.Sprintf("fp=%s,peer-lowered-initwin=%v", sc.FP.Kind, o.loweredInitWin)
	case clsTooManyStreams:
		if race && o.loweredStreams {
			return fmt.Sprintf("race-open-vs-ack,strict=%v", sc.Strict)
		}
		return fmt.Sprintf("no-race,strict=%v,peer-lowered-maxstreams=%v", sc.Strict, o.loweredStreams)
	case clsStreamLeaked:
		return "fp=" + sc.FP.Kind
	case clsLimitsDiverge:
		return fmt.Sprintf("settings-frames-acked=%d", o.ackEvents)
	case clsStreamStalled:
		return fmt.Sprintf("caller-initwin=%s", ciw)
	case clsClientKilledConn, clsConnDropped, clsConnCredit:
		big := false
		for _, r := range sc.Reqs {
			if r.RespSize > 4<<20 {
				big = true
			}
		}
		return fmt.Sprintf("fp=%s,caller-initwin=%s,resp>4MiB=%v", sc.FP.Kind, ciw, big)
	}
	return "fp=" + sc.FP.Kind
}

func traceWindow(log []Event, at int) (from int, lines []string) {
	from = at - 150
	if from < 0 {
		from = 0
	}
	to := at + 50
	if to > len(log) {
		to = len(log)
	}
	for i := from; i < to; i++ {
		lines = append(lines, fmt.Sprintf("%d %s", i, log[i].String()))
	}
	return
}

func coqCase(res *result) (string, bool) {
	log := res.log
	truncated := false
	if len(log) > maxCoqEvents {
		log = log[:maxCoqEvents]
		truncated = true
	}
	evs := make([]string, len(log))
	for i := range log {
		evs[i] = log[i].Coq()
	}
	verdict := "None"
	if res.idx >= 0 && res.idx < len(log) {
		verdict = fmt.Sprintf("(Some (%d%%nat, %d))", res.idx, res.cls)
	}
	q := "None"
	if res.qobs != nil && !truncated && res.idx < 0 {
		z := func(v int64) string {
			if v < 0 {
				return fmt.Sprintf("(%d)", v)
			}
			return fmt.Sprint(v)
		}
		o := res.qobs
		q = fmt.Sprintf("(Some (QObs %s %s %s %s %s %s %s %s))", z(o.CConnInit), z(o.Flow), z(o.InAvail), z(o.InUnsent),
			z(o.MaxFrame), z(o.MaxStreams), z(o.InitWin), z(o.NextID))
	}
	return "TraceCase " + hk.CoqBool(res.sc.FP.hasHeaderPrio()) + " [" + strings.Join(evs, "; ") + "] " + verdict + " " + q, truncated
}

func nontrivial(log []Event) bool {
	seen := false
	for i := range log {
		e := &log[i]
		if !e.C {
			if (e.Type == ftSettings && !e.has(flagAck)) || e.Type == ftWindowUpdate || e.Type == ftRst {
				seen = true
			}
		} else if seen && (e.Type == ftData || e.Type == ftHeaders) {
			return true
		}
	}
	return false
}

var frameNames = map[uint8]string{0: "DATA", 1: "HEADERS", 2: "PRIORITY", 3: "RST_STREAM", 4: "SETTINGS", 5: "PUSH_PROMISE",
	6: "PING", 7: "GOAWAY", 8: "WINDOW_UPDATE", 9: "CONTINUATION"}

func report(r *hk.Run, res *result) {
	sc := res.sc
	desc := sc.Desc()
	kind := sc.Kind
	if i := strings.Index(kind, "-"); i > 0 && strings.HasPrefix(kind, "S") {
		kind = kind[:i]
	}
	r.Count("scenario." + kind)
	r.Count("fp." + sc.FP.Kind)
	input := func(at int) map[string]interface{} {
		from, lines := traceWindow(res.log, at)
		return map[string]interface{}{"scenario": sc, "desc": desc, "seed": sc.Seed, "event_index": at,
			"trace_from": from, "trace": lines, "request_errors": res.reqErrs, "notes": res.notes, "events_total": len(res.log)}
	}
	if res.panicMsg != "" {
		r.Count("scenario.panic")
		r.Fail(hk.Failure{Sig: "trace:panic:" + sc.Kind, What: "panic while running the scenario: " + res.panicMsg, Input: input(len(res.log))})
	}
	if res.timeout {
		r.Count("scenario.timeout")
		r.Notes = append(r.Notes, fmt.Sprintf("scenario %d (%s) hit the %v watchdog", sc.Idx, sc.Kind, watchdog))
	}
	if res.peerOver {
		r.Fail(hk.Failure{Sig: "trace:harness-peer-overrun:" + sc.Kind, What: "HARNESS BUG: the scripted peer exceeded a window the client granted", Input: input(len(res.log))})
	}
	if res.idx >= 0 {
		// The first violation is the verdict (also replayed by the Coq monitor). If it is
		// one of the apply/ack-vs-write races the replay continues, so that a different
		// defect behind it is not masked: further violations are reported up to and
		// including the first one that is not such a race.
		seen := map[string]bool{}
		o := NewOracle()
		for i := range res.log {
			c := o.Step(&res.log[i])
			if c == 0 {
				continue
			}
			shape := shapeOf(res, c, i)
			sig := fmt.Sprintf("trace:%s:%s", className[c], shape)
			if !seen[sig] {
				seen[sig] = true
				r.Count("violation." + className[c])
				what := fmt.Sprintf("event %d (%s) violates %s [scenario %s]", i, res.log[i].String(), className[c], sc.Kind)
				if i != res.idx {
					what += fmt.Sprintf(" (after the race-classified first violation at event %d)", res.idx)
				}
				r.Fail(hk.Failure{Sig: sig, What: what, Input: input(i)})
			}
			if !strings.HasPrefix(shape, "race-") {
				break
			}
		}
	}
	for _, v := range res.endClasses {
		r.Count("violation." + className[v.cls])
		r.Fail(hk.Failure{Sig: fmt.Sprintf("trace:%s:%s", className[v.cls], shapeOf(res, v.cls, v.at)),
			What: fmt.Sprintf("%s [scenario %s]", v.what, sc.Kind), Input: input(v.at)})
	}
	// distribution
	var hasCont, hasBlocked bool
	for i := range res.log {
		e := &res.log[i]
		d := "P."
		if e.C {
			d = "C."
		}
		n := frameNames[e.Type]
		if n == "" {
			n = "OTHER"
		}
		r.Dist["frames."+d+n]++
		if e.C && e.Type == ftContinuation {
			hasCont = true
		}
	}
	hasBlocked = res.blockedWr > 0
	if hasCont {
		r.Count("trace.with-continuation")
	}
	if hasBlocked {
		r.Count("trace.with-blocked-client-writes")
	}
	if res.final != nil {
		if res.final.negWindowSeen {
			r.Count("trace.with-negative-window")
		}
		if res.final.loweredFrame {
			r.Count("trace.with-lowered-maxframe")
		}
		if res.final.loweredStreams {
			r.Count("trace.with-lowered-maxstreams")
		}
	}
	if res.quiescent {
		r.Count("trace.quiescent")
	}
	if !res.connAlive {
		r.Count("trace.conn-closed-at-end")
	}
	if len(res.reqErrs) > 0 {
		r.Count("trace.with-request-errors")
	}
	if res.dials > 1 {
		r.Count("trace.extra-dial-refused")
	}
	r.Dist["events.total"] += len(res.log)
	coq, trunc := coqCase(res)
	if trunc {
		r.Count("trace.truncated")
	}
	nt := nontrivial(res.log)
	if nt {
		r.Count("trace.nontrivial")
	}
	r.Add(hk.Case{Coq: coq, Desc: map[string]interface{}{"kind": "trace", "scenario": desc, "seed": sc.Seed, "idx": sc.Idx}},
		fmt.Sprintf("%d:%s", sc.Idx, desc), nt)
}

// RunSelected runs reps jittered copies of the special scenario whose kind equals
// kind (measurement aid for the stand-alone driver; not used by the check).
func RunSelected(r *hk.Run, rng *hk.Rand, kind string, reps int) {
	var scs []*Scenario
	for _, base := range specialScenarios(0, r.Seed, true) {
		if base.Kind != kind || len(scs) >= reps {
			continue
		}
		for len(scs) < reps {
			sc := *base
			sc.Idx = len(scs)
			sc.Reqs = append([]ReqSpec(nil), base.Reqs...)
			sc.C2PBuf = hk.Pick(rng, []int{2048, 4096, 4096, 8192, 16384})
			sc.ReadDelayUs = hk.Pick(rng, []int{50, 100, 300, 300, 1000})
			sc.TickUs = hk.Pick(rng, []int{500, 1000, 3000})
			for i := range sc.Reqs {
				if sc.Reqs[i].StartDelayUs > 0 {
					sc.Reqs[i].StartDelayUs += rng.Intn(3000)
				}
			}
			scs = append(scs, &sc)
		}
	}
	runAll(r, scs)
}

// Run executes the scripted connections of one tier and records cases,
// failures and the distribution in r.
func Run(r *hk.Run, rng *hk.Rand) {
	nRandom := r.Scale(48, 1480)
	runAll(r, BuildScenarios(r.Seed, rng, nRandom, !r.Quick()))
}

func runAll(r *hk.Run, scs []*Scenario) {
	results := make([]*result, len(scs))
	sem := make(chan struct{}, 4)
	var wg sync.WaitGroup
	for i, sc := range scs {
		wg.Add(1)
		sem <- struct{}{}
		go func(i int, sc *Scenario) {
			defer wg.Done()
			defer func() { <-sem }()
			defer func() {
				if e := recover(); e != nil {
					results[i] = &result{sc: sc, idx: -1, panicMsg: fmt.Sprintf("%v\n%s", e, debug.Stack())}
				}
			}()
			results[i] = runScenario(sc)
		}(i, sc)
	}
	wg.Wait()
	for _, res := range results {
		if os.Getenv("C06PEER_DEBUG") != "" {
			fmt.Fprintf(os.Stderr, "scenario %d %-40s %8.1f ms events=%d viol=%d/%d end=%d quiescent=%v alive=%v errs=%d\n", res.sc.Idx, res.sc.Kind,
				float64(res.dur.Microseconds())/1000, len(res.log), res.idx, res.cls, len(res.endClasses), res.quiescent, res.connAlive, len(res.reqErrs))
		}
		report(r, res)
	}
}
