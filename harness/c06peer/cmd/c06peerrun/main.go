// Command c06peerrun runs the C06 peer harness stand-alone.
package main

import (
	"os"
	"strconv"

	"github.com/imroc/req/v3/verifharness/c06peer"
	"github.com/imroc/req/v3/verifharness/hk"
)

func main() {
	hk.Main("C06", func(r *hk.Run) {
		r.Header = "From ReqV Require Import Model.C06Run."
		r.CaseType = "c06_case"
		r.CheckFn = "c06_check"
		r.Rule = "trace has a client DATA/HEADERS frame after a peer SETTINGS/WINDOW_UPDATE/RST_STREAM"
		// C06PEER_ONLY=<special scenario kind> C06PEER_REPS=<n>: measure one scenario
		if kind := os.Getenv("C06PEER_ONLY"); kind != "" {
			reps, _ := strconv.Atoi(os.Getenv("C06PEER_REPS"))
			if reps <= 0 {
				reps = 100
			}
			c06peer.RunSelected(r, hk.NewRand(r.Seed*7919+13), kind, reps)
			return
		}
		c06peer.Run(r, hk.NewRand(r.Seed))
	}, nil)
}
