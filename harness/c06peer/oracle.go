package c06peer

import (
	"fmt"
	"strings"

	"github.com/imroc/req/v3/verifharness/hk"
)

// HTTP/2 frame types (RFC 9113 section 6).
const (
	ftData         = 0
	ftHeaders      = 1
	ftPriority     = 2
	ftRst          = 3
	ftSettings     = 4
	ftPushPromise  = 5
	ftPing         = 6
	ftGoAway       = 7
	ftWindowUpdate = 8
	ftContinuation = 9
)

const (
	flagEndStream  = 0x1
	flagAck        = 0x1
	flagEndHeaders = 0x4
	flagPadded     = 0x8
	flagPriority   = 0x20
)

// Violation classes.
const (
	clsStreamWindow      = 1
	clsConnWindow        = 2
	clsFrameTooLarge     = 3
	clsTooManyStreams    = 4
	clsStreamID          = 5
	clsHeaderInterleaved = 6
	clsClosedStream      = 7
	clsSpuriousAck       = 8
	clsSettingsNotAcked  = 9
	clsIdleStream        = 10
	clsConnCredit        = 11
	clsStreamStalled     = 12
	clsClientKilledConn  = 13
	clsConnDropped       = 14
	clsLimitsDiverge     = 15
	clsStreamLeaked      = 16
)

var className = map[int]string{
	1: "stream-window", 2: "conn-window", 3: "frame-too-large", 4: "too-many-streams",
	5: "stream-id", 6: "header-block-interleaved", 7: "frame-on-closed-stream",
	8: "spurious-settings-ack", 9: "settings-not-acked", 10: "frame-on-idle-stream",
	11: "conn-credit-not-returned", 12: "stream-stalled", 13: "client-killed-conn",
	14: "conn-dropped", 15: "client-limits-differ-from-acknowledged", 16: "stream-left-open-at-quiescence",
}

// Event is one frame in the peer's log. C: client->peer, otherwise peer->client.
type Event struct {
	C        bool
	Type     uint8
	Flags    uint8
	Sid      uint32
	Len      uint32 // payload length from the frame header
	Settings [][2]uint32
	Inc      uint32
	Code     uint32
	Last     uint32
}

func (e *Event) has(f uint8) bool { return e.Flags&f != 0 }

func (e *Event) String() string {
	d := "P"
	if e.C {
		d = "C"
	}
	var s string
	switch e.Type {
	case ftData:
		s = fmt.Sprintf("DATA sid=%d len=%d", e.Sid, e.Len)
		if e.has(flagEndStream) {
			s += " ES"
		}
		if e.has(flagPadded) {
			s += " PAD"
		}
	case ftHeaders:
		s = fmt.Sprintf("HEADERS sid=%d len=%d", e.Sid, e.Len)
		if e.has(flagEndHeaders) {
			s += " EH"
		}
		if e.has(flagEndStream) {
			s += " ES"
		}
		if e.has(flagPriority) {
			s += " PRIO"
		}
	case ftContinuation:
		s = fmt.Sprintf("CONTINUATION sid=%d len=%d", e.Sid, e.Len)
		if e.has(flagEndHeaders) {
			s += " EH"
		}
	case ftPriority:
		s = fmt.Sprintf("PRIORITY sid=%d", e.Sid)
	case ftRst:
		s = fmt.Sprintf("RST_STREAM sid=%d code=%d", e.Sid, e.Code)
	case ftSettings:
		if e.has(flagAck) {
			s = "SETTINGS ACK"
		} else {
			s = fmt.Sprintf("SETTINGS %v", e.Settings)
		}
	case ftPing:
		s = "PING"
		if e.has(flagAck) {
			s += " ACK"
		}
	case ftGoAway:
		s = fmt.Sprintf("GOAWAY last=%d code=%d", e.Last, e.Code)
	case ftWindowUpdate:
		s = fmt.Sprintf("WINDOW_UPDATE sid=%d inc=%d", e.Sid, e.Inc)
	default:
		s = fmt.Sprintf("FRAME type=%d sid=%d len=%d", e.Type, e.Sid, e.Len)
	}
	return d + " " + s
}

// Coq renders the event in the syntax of Model/C06Run.v.
func (e *Event) Coq() string {
	z := func(v uint32) string { return fmt.Sprintf("%d", v) }
	var s string
	switch e.Type {
	case ftData:
		s = fmt.Sprintf("FData %s %s %s", z(e.Sid), z(e.Len), hk.CoqBool(e.has(flagEndStream)))
	case ftHeaders:
		s = fmt.Sprintf("FHeaders %s %s %s %s", z(e.Sid), z(e.Len), hk.CoqBool(e.has(flagEndHeaders)), hk.CoqBool(e.has(flagEndStream)))
	case ftContinuation:
		s = fmt.Sprintf("FContinuation %s %s %s", z(e.Sid), z(e.Len), hk.CoqBool(e.has(flagEndHeaders)))
	case ftPriority:
		s = "FPriority " + z(e.Sid)
	case ftRst:
		s = "FRst " + z(e.Sid)
	case ftSettings:
		if e.has(flagAck) {
			s = "FSettingsAck"
		} else {
			ps := make([]string, len(e.Settings))
			for i, kv := range e.Settings {
				ps[i] = fmt.Sprintf("(%d,%d)", kv[0], kv[1])
			}
			s = "FSettings [" + strings.Join(ps, ";") + "]"
		}
	case ftPing:
		s = "FPing " + hk.CoqBool(e.has(flagAck))
	case ftGoAway:
		s = fmt.Sprintf("FGoAway %s %s", z(e.Last), z(e.Code))
	case ftWindowUpdate:
		s = fmt.Sprintf("FWindowUpdate %s %s", z(e.Sid), z(e.Inc))
	default:
		s = fmt.Sprintf("FOther %d %s %s", e.Type, z(e.Sid), z(e.Len))
	}
	d := "P"
	if e.C {
		d = "C"
	}
	if strings.Contains(s, " ") {
		return d + " (" + s + ")"
	}
	return d + " " + s
}

const unlimited = int64(-1)

type ostream struct {
	win       int64 // send window the peer granted the client
	recvWin   int64 // receive window the client granted the peer
	cliClosed bool
	cliReset  bool
	peerEnded bool
	peerReset bool
}

func (s *ostream) closed() bool {
	return s.cliReset || s.peerReset || (s.cliClosed && s.peerEnded)
}

// Oracle is the bookkeeping of a strict HTTP/2 server, replayed over the trace.
type Oracle struct {
	maxFrame   int64
	initWin    int64
	maxStreams int64 // unlimited == -1
	pending    [][][2]uint32
	connWin    int64
	streams    map[uint32]*ostream
	lastSid    uint32
	hdrOpen    uint32

	settingsSent  int
	settingsAcked int
	pingMarks     []int

	cConnWin int64
	cInitWin int64

	// bookkeeping for reports (not part of the verdict)
	cConnInit       int64
	sawClientStream bool
	peerOverrun     bool // the scripted peer exceeded a window the client granted (harness bug)
	negWindowSeen   bool // some stream window went negative through a SETTINGS change
	loweredFrame    bool // an acked MAX_FRAME_SIZE was lower than the previous one
	loweredInitWin  bool
	loweredStreams  bool
	ackEvents       int
}

func NewOracle() *Oracle {
	return &Oracle{maxFrame: 16384, initWin: 65535, maxStreams: unlimited, connWin: 65535,
		streams: map[uint32]*ostream{}, cConnWin: 65535, cInitWin: 65535, cConnInit: 65535}
}

func (o *Oracle) frameLimit() int64 {
	m := o.maxFrame
	for _, fr := range o.pending {
		for _, kv := range fr {
			if kv[0] == 5 && int64(kv[1]) > m {
				m = int64(kv[1])
			}
		}
	}
	return m
}

func (o *Oracle) streamLimit() int64 {
	if o.maxStreams == unlimited {
		return unlimited
	}
	m := o.maxStreams
	for _, fr := range o.pending {
		for _, kv := range fr {
			if kv[0] == 3 && int64(kv[1]) > m {
				m = int64(kv[1])
			}
		}
	}
	return m
}

func (o *Oracle) openStreams() int64 {
	var n int64
	for _, s := range o.streams {
		if !s.closed() {
			n++
		}
	}
	return n
}

// Step processes one event and returns the violation class (0 = none). State
// is always updated so that the peer can keep its books after a violation;
// the judge stops at the first non-zero result.
func (o *Oracle) Step(e *Event) int {
	if !e.C {
		o.stepPeer(e)
		return 0
	}
	viol := 0
	flag := func(c int) {
		if viol == 0 {
			viol = c
		}
	}
	ln := int64(e.Len)
	// (a) header block contiguity
	if o.hdrOpen != 0 && !(e.Type == ftContinuation && e.Sid == o.hdrOpen) {
		flag(clsHeaderInterleaved)
		o.hdrOpen = 0
	}
	// (b) frame size
	switch e.Type {
	case ftHeaders, ftContinuation, ftData:
		if ln > o.frameLimit() {
			flag(clsFrameTooLarge)
		}
	default:
		if e.Type == ftPushPromise || e.Type > ftContinuation {
			if ln > o.frameLimit() {
				flag(clsFrameTooLarge)
			}
		}
	}
	// (c) by type
	switch e.Type {
	case ftSettings:
		if !e.has(flagAck) {
			for _, kv := range e.Settings {
				if kv[0] == 4 {
					delta := int64(kv[1]) - o.cInitWin
					for _, s := range o.streams {
						s.recvWin += delta
					}
					o.cInitWin = int64(kv[1])
				}
			}
			break
		}
		o.ackEvents++
		if len(o.pending) == 0 {
			flag(clsSpuriousAck)
			break
		}
		fr := o.pending[0]
		o.pending = o.pending[1:]
		for _, kv := range fr {
			v := int64(kv[1])
			switch kv[0] {
			case 5:
				if v < o.maxFrame {
					o.loweredFrame = true
				}
				o.maxFrame = v
			case 3:
				if o.maxStreams == unlimited || v < o.maxStreams {
					o.loweredStreams = true
				}
				o.maxStreams = v
			case 4:
				delta := v - o.initWin
				if delta < 0 {
					o.loweredInitWin = true
				}
				for _, s := range o.streams {
					if !s.closed() {
						s.win += delta
						if s.win < 0 {
							o.negWindowSeen = true
						}
					}
				}
				o.initWin = v
			}
		}
		o.settingsAcked++
	case ftWindowUpdate:
		if e.Sid == 0 {
			o.cConnWin += int64(e.Inc)
			if !o.sawClientStream {
				o.cConnInit = o.cConnWin
			}
		} else if s := o.streams[e.Sid]; s != nil {
			s.recvWin += int64(e.Inc)
		}
	case ftPriority:
	case ftPing:
		if e.has(flagAck) && len(o.pingMarks) > 0 {
			m := o.pingMarks[0]
			o.pingMarks = o.pingMarks[1:]
			if o.settingsAcked < m {
				flag(clsSettingsNotAcked)
			}
		}
	case ftRst:
		s := o.streams[e.Sid]
		if s == nil {
			flag(clsIdleStream)
			break
		}
		s.cliReset, s.cliClosed = true, true
	case ftHeaders:
		o.sawClientStream = true
		s := o.streams[e.Sid]
		if s != nil {
			if s.cliClosed {
				flag(clsClosedStream)
			} else if e.has(flagEndStream) {
				s.cliClosed = true
			}
		} else {
			if e.Sid%2 == 0 || e.Sid <= o.lastSid {
				flag(clsStreamID)
			}
			if lim := o.streamLimit(); lim != unlimited && o.openStreams() >= lim {
				flag(clsTooManyStreams)
			}
			o.streams[e.Sid] = &ostream{win: o.initWin, recvWin: o.cInitWin, cliClosed: e.has(flagEndStream)}
			if e.Sid > o.lastSid {
				o.lastSid = e.Sid
			}
		}
		if !e.has(flagEndHeaders) {
			o.hdrOpen = e.Sid
		}
	case ftContinuation:
		if o.hdrOpen == 0 {
			flag(clsHeaderInterleaved)
		} else if e.has(flagEndHeaders) {
			o.hdrOpen = 0
		}
	case ftData:
		s := o.streams[e.Sid]
		if s == nil {
			flag(clsIdleStream)
			break
		}
		if s.cliClosed {
			flag(clsClosedStream)
		}
		// an empty DATA frame never violates a window (RFC 9113 6.9.1)
		o.connWin -= ln
		if !s.closed() {
			s.win -= ln
			if ln > 0 && s.win < 0 {
				flag(clsStreamWindow)
			}
		}
		if ln > 0 && o.connWin < 0 {
			flag(clsConnWindow)
		}
		if e.has(flagEndStream) {
			s.cliClosed = true
		}
	case ftGoAway:
		if e.Code != 0 {
			flag(clsClientKilledConn)
		}
	}
	return viol
}

func (o *Oracle) stepPeer(e *Event) {
	switch e.Type {
	case ftSettings:
		if !e.has(flagAck) {
			o.pending = append(o.pending, e.Settings)
			o.settingsSent++
		}
	case ftWindowUpdate:
		if e.Sid == 0 {
			o.connWin += int64(e.Inc)
		} else if s := o.streams[e.Sid]; s != nil {
			s.win += int64(e.Inc)
		}
	case ftData:
		o.cConnWin -= int64(e.Len)
		if o.cConnWin < 0 {
			o.peerOverrun = true
		}
		if s := o.streams[e.Sid]; s != nil {
			s.recvWin -= int64(e.Len)
			if s.recvWin < 0 {
				o.peerOverrun = true
			}
			if e.has(flagEndStream) {
				s.peerEnded = true
			}
		}
	case ftHeaders:
		if s := o.streams[e.Sid]; s != nil && e.has(flagEndStream) {
			s.peerEnded = true
		}
	case ftRst:
		if s := o.streams[e.Sid]; s != nil {
			s.peerReset = true
		}
	case ftPing:
		if !e.has(flagAck) {
			o.pingMarks = append(o.pingMarks, o.settingsSent)
		}
	}
}

// Judge replays the trace through a fresh oracle and returns the index and
// class of the first violating event (idx == -1: none) and the final state.
func Judge(log []Event) (idx, cls int, o *Oracle) {
	o = NewOracle()
	for i := range log {
		if c := o.Step(&log[i]); c != 0 {
			return i, c, o
		}
	}
	return -1, 0, o
}
