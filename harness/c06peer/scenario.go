package c06peer

import (
	"fmt"
	"strings"

	"github.com/imroc/req/v3/verifharness/hk"
)

// Fingerprint is the caller-supplied HTTP/2 fingerprint of one scenario.
type Fingerprint struct {
	Kind       string      `json:"kind"` // default | custom | chrome | firefox | safari
	Settings   [][2]uint32 `json:"settings,omitempty"`
	ConnFlow   uint32      `json:"conn_flow,omitempty"`
	PrioFrames bool        `json:"prio_frames,omitempty"` // Firefox-like PRIORITY frames 3..13
	HeaderPrio bool        `json:"header_prio,omitempty"`
}

func (f *Fingerprint) setting(id uint32) (uint32, bool) {
	var set [][2]uint32
	switch f.Kind {
	case "chrome":
		set = [][2]uint32{{1, 65536}, {2, 0}, {3, 1000}, {4, 6291456}, {6, 262144}}
	case "firefox":
		set = [][2]uint32{{1, 65536}, {4, 131072}, {5, 16384}}
	case "safari":
		set = [][2]uint32{{4, 4194304}, {3, 100}}
	case "default":
		set = [][2]uint32{{2, 0}, {4, 4194304}, {6, 10485760}}
	default:
		set = f.Settings
	}
	for _, kv := range set {
		if kv[0] == id {
			return kv[1], true
		}
	}
	return 0, false
}

func (f *Fingerprint) hasHeaderPrio() bool {
	return f.HeaderPrio || f.Kind == "chrome" || f.Kind == "firefox" || f.Kind == "safari"
}

func optU(v uint32, ok bool) string {
	if !ok {
		return "absent"
	}
	return fmt.Sprint(v)
}

// App behaviours on the response body.
const (
	appReadAll     = "read-all"
	appReadSlow    = "read-slow"
	appPrefixClose = "prefix-close"
	appCloseNow    = "close-now"
	appCancel      = "cancel-ctx"
)

// ReqSpec is one request of a scenario.
type ReqSpec struct {
	Upload        int         `json:"upload"` // -1: GET without body
	UnknownLen    bool        `json:"unknown_len,omitempty"`
	BigHeader     int         `json:"big_header,omitempty"`
	RespSize      int         `json:"resp"`
	RespChunk     int         `json:"resp_chunk"`
	RespPad       int         `json:"resp_pad,omitempty"` // pad length per DATA frame (0 = unpadded)
	EndOnHeaders  bool        `json:"end_on_headers,omitempty"`
	SepEnd        bool        `json:"sep_end,omitempty"`    // END_STREAM on a separate empty DATA frame
	RespEarly     bool        `json:"resp_early,omitempty"` // respond before the upload finished
	NoCL          bool        `json:"no_cl,omitempty"`
	PadOnly       int         `json:"pad_only,omitempty"`        // that many padding-only DATA frames (no data bytes) before the body
	RespWaitClose int         `json:"resp_wait_close,omitempty"` // after that many response bytes the peer continues only once the request body's Close was called
	SlowClose     int         `json:"slow_close,omitempty"`      // k+1: the request body's Close returns only when request k is finished
	AfterClose    int         `json:"after_close,omitempty"`     // k+1: start when the body of request k has been asked to close
	AfterDone     int         `json:"after_done,omitempty"`      // k+1: start when request k is finished
	Gated         bool        `json:"gated,omitempty"`           // the request starts when the peer script says so (action start-req)
	AckBatch      [][2]uint32 `json:"ack_batch,omitempty"`       // a SETTINGS frame written in ONE write with the header-only response
	Status        int         `json:"status,omitempty"`          // response status (0 = 200); >= 300 with RespEarly makes the client give the upload up
	CLShort       int         `json:"cl_short,omitempty"`        // declared Content-Length is that much smaller than the body sent
	App           string      `json:"app"`
	AppArg        int         `json:"app_arg,omitempty"`    // prefix / cancel point / chunk size
	RstUpload     int         `json:"rst_upload,omitempty"` // peer RST_STREAM after that many upload bytes (>0)
	RstDownload   int         `json:"rst_download,omitempty"`
	StartDelayUs  int         `json:"start_delay_us,omitempty"`
	HoldRead      bool        `json:"hold_read,omitempty"` // app waits until the peer is window-blocked / done (S3)
}

// Action is one scripted peer action; it fires once the previous one has fired
// and one of its triggers is met.
type Action struct {
	TrigUp    int         `json:"trig_up,omitempty"`   // total upload DATA bytes received
	TrigDown  int         `json:"trig_down,omitempty"` // total response DATA bytes sent
	TrigTicks int         `json:"trig_ticks"`          // peer ticks since the previous action (fallback)
	Kind      string      `json:"kind"`                // settings | wu | goaway | pause-read | resume-read | start-req (Inc = request index)
	Settings  [][2]uint32 `json:"settings,omitempty"`
	Inc       uint32      `json:"inc,omitempty"`
}

// Scenario is one scripted connection.
type Scenario struct {
	Idx          int         `json:"idx"`
	Seed         uint64      `json:"seed"`
	Kind         string      `json:"kind"`
	FP           Fingerprint `json:"fp"`
	Strict       bool        `json:"strict_max_streams,omitempty"`
	C2PBuf       int         `json:"c2p_buf"`
	ReadDelayUs  int         `json:"read_delay_us,omitempty"`
	PeerSettings [][2]uint32 `json:"peer_settings"`
	SettingsLate int         `json:"settings_delay_ms,omitempty"`
	InitConnWU   uint32      `json:"init_conn_wu,omitempty"`
	Incs         []uint32    `json:"incs"`
	LowStream    int64       `json:"low_stream"`
	LowConn      int64       `json:"low_conn"`
	TickUs       int         `json:"tick_us"`
	GrantOnTick  bool        `json:"grant_on_tick,omitempty"`
	Reqs         []ReqSpec   `json:"reqs"`
	Actions      []Action    `json:"actions,omitempty"`
	ExpectClose  bool        `json:"expect_close,omitempty"`
	PingMidBlock bool        `json:"ping_mid_block,omitempty"` // PING sent (and the reader stopped for a while) when a HEADERS frame without END_HEADERS has been read
}

func (sc *Scenario) peerSetting(id uint32) (uint32, bool) {
	for _, kv := range sc.PeerSettings {
		if kv[0] == id {
			return kv[1], true
		}
	}
	return 0, false
}

// Desc is the canonical description (also the distinctness key).
func (sc *Scenario) Desc() string {
	var b strings.Builder
	fmt.Fprintf(&b, "%s fp=%s", sc.Kind, sc.FP.Kind)
	if sc.FP.Kind == "custom" {
		fmt.Fprintf(&b, "%v", sc.FP.Settings)
	}
	if sc.FP.ConnFlow != 0 {
		fmt.Fprintf(&b, " connflow=%d", sc.FP.ConnFlow)
	}
	if sc.FP.PrioFrames {
		b.WriteString(" priof")
	}
	if sc.FP.HeaderPrio {
		b.WriteString(" hprio")
	}
	if sc.Strict {
		b.WriteString(" strict")
	}
	fmt.Fprintf(&b, " buf=%d rd=%dus peer=%v late=%d cwu=%d incs=%v low=%d/%d tick=%d", sc.C2PBuf, sc.ReadDelayUs,
		sc.PeerSettings, sc.SettingsLate, sc.InitConnWU, sc.Incs, sc.LowStream, sc.LowConn, sc.TickUs)
	for i, r := range sc.Reqs {
		fmt.Fprintf(&b, " | r%d up=%d", i, r.Upload)
		if r.UnknownLen {
			b.WriteString("?")
		}
		if r.BigHeader > 0 {
			fmt.Fprintf(&b, " hdr=%d", r.BigHeader)
		}
		fmt.Fprintf(&b, " resp=%d/%d", r.RespSize, r.RespChunk)
		if r.RespPad > 0 {
			fmt.Fprintf(&b, " pad=%d", r.RespPad)
		}
		if r.EndOnHeaders {
			b.WriteString(" eoh")
		}
		if r.SepEnd {
			b.WriteString(" sepend")
		}
		if r.RespEarly {
			b.WriteString(" early")
		}
		if r.CLShort > 0 {
			fmt.Fprintf(&b, " clshort=%d", r.CLShort)
		}
		if r.Status != 0 {
			fmt.Fprintf(&b, " status=%d", r.Status)
		}
		if r.PadOnly > 0 {
			fmt.Fprintf(&b, " padonly=%d", r.PadOnly)
		}
		if r.Gated {
			b.WriteString(" gated")
		}
		if r.SlowClose > 0 || r.AfterClose > 0 || r.AfterDone > 0 {
			fmt.Fprintf(&b, " slowclose=%d afterclose=%d afterdone=%d", r.SlowClose, r.AfterClose, r.AfterDone)
		}
		if r.AckBatch != nil {
			fmt.Fprintf(&b, " ackbatch=%v", r.AckBatch)
		}
		fmt.Fprintf(&b, " app=%s/%d", r.App, r.AppArg)
		if r.RstUpload > 0 {
			fmt.Fprintf(&b, " rstup=%d", r.RstUpload)
		}
		if r.RstDownload > 0 {
			fmt.Fprintf(&b, " rstdn=%d", r.RstDownload)
		}
		if r.HoldRead {
			b.WriteString(" hold")
		}
	}
	for _, a := range sc.Actions {
		fmt.Fprintf(&b, " ; %s@%d/%d/%d", a.Kind, a.TrigUp, a.TrigDown, a.TrigTicks)
		if a.Kind == "settings" {
			fmt.Fprintf(&b, "%v", a.Settings)
		}
		if a.Kind == "wu" || a.Kind == "start-req" {
			fmt.Fprintf(&b, "+%d", a.Inc)
		}
	}
	return b.String()
}

var (
	bodySizes     = []int{0, 1, 16383, 16384, 16385, 65535, 65536, 100000, 300000}
	callerInitWin = []uint32{1000, 4095, 4096, 65535, 131072, 4194304, 6291456}
	callerFrame   = []uint32{16384, 32768, 65536}
	peerStreams   = []int{1, 2, 3, 100, -1}
	peerInitWin   = []int{0, 1, 16383, 16384, 65535, 65536, 1 << 20}
	peerFrame     = []int{-1, 16384, 16385, 32768, 1 << 20}
	oddIncs       = []uint32{1, 7, 1000, 16383, 16385, 65535, 4097, 33333}
	bigIncs       = []uint32{16383, 16385, 65535, 33333}
)

func defaultScenario(idx int, seed uint64, kind string) *Scenario {
	return &Scenario{Idx: idx, Seed: seed, Kind: kind, FP: Fingerprint{Kind: "default"},
		C2PBuf: 65536, PeerSettings: [][2]uint32{}, Incs: []uint32{16385, 65535}, LowStream: 16384, LowConn: 65536,
		TickUs: 1000}
}

func chunkFor(rng *hk.Rand, size int) int {
	c := hk.Pick(rng, []int{1 << 20, 16384, 16383, 8192, 4097, 1000})
	if size/c > 80 {
		c = size/80 + 1
	}
	return c
}

// randomScenario derives one mixed scenario from rng.
func randomScenario(idx int, seed uint64, rng *hk.Rand) *Scenario {
	sc := defaultScenario(idx, seed, "rand")
	// caller fingerprint
	switch rng.Intn(10) {
	case 0, 1, 2:
	case 3:
		sc.FP.Kind = "chrome"
	case 4:
		sc.FP.Kind = "firefox"
	case 5:
		sc.FP.Kind = "safari"
	default:
		sc.FP.Kind = "custom"
		if rng.Chance(40) {
			sc.FP.Settings = append(sc.FP.Settings, [2]uint32{1, hk.Pick(rng, []uint32{0, 4096, 65536})})
		}
		if rng.Chance(50) {
			sc.FP.Settings = append(sc.FP.Settings, [2]uint32{2, 0})
		}
		if rng.Chance(75) {
			sc.FP.Settings = append(sc.FP.Settings, [2]uint32{4, hk.Pick(rng, callerInitWin)})
		}
		if rng.Chance(50) {
			sc.FP.Settings = append(sc.FP.Settings, [2]uint32{5, hk.Pick(rng, callerFrame)})
		}
		if len(sc.FP.Settings) == 0 {
			sc.FP.Settings = [][2]uint32{{2, 0}}
		}
		if rng.Chance(40) {
			sc.FP.ConnFlow = hk.Pick(rng, []uint32{1000, 65535, 1 << 20, 15663105})
		}
		sc.FP.PrioFrames = rng.Chance(25)
		sc.FP.HeaderPrio = rng.Chance(35)
	}
	sc.Strict = rng.Chance(50)
	sc.C2PBuf = hk.Pick(rng, []int{4096, 16384, 65536, 262144})
	sc.ReadDelayUs = hk.Pick(rng, []int{0, 0, 100, 500, 2000})
	// peer's initial SETTINGS
	if v := hk.Pick(rng, peerStreams); v >= 0 {
		sc.PeerSettings = append(sc.PeerSettings, [2]uint32{3, uint32(v)})
	}
	if rng.Chance(70) {
		sc.PeerSettings = append(sc.PeerSettings, [2]uint32{4, uint32(hk.Pick(rng, peerInitWin))})
	}
	if v := hk.Pick(rng, peerFrame); v >= 0 {
		sc.PeerSettings = append(sc.PeerSettings, [2]uint32{5, uint32(v)})
	}
	if rng.Chance(20) {
		sc.SettingsLate = rng.Range(1, 8)
	}
	if rng.Chance(30) {
		sc.InitConnWU = hk.Pick(rng, []uint32{1, 65535, 1 << 20})
	}
	// credit hand-out policy
	n := rng.Range(2, 5)
	sc.Incs = nil
	for i := 0; i < n; i++ {
		sc.Incs = append(sc.Incs, hk.Pick(rng, oddIncs))
	}
	sc.Incs = append(sc.Incs, hk.Pick(rng, bigIncs))
	sc.LowStream = hk.Pick(rng, []int64{1, 1, 1000, 16384, 70000})
	sc.LowConn = hk.Pick(rng, []int64{1, 1, 20000, 100000})
	sc.TickUs = hk.Pick(rng, []int{500, 1000, 3000})
	sc.GrantOnTick = rng.Chance(40)
	// requests
	nreq := rng.Range(1, 8)
	if rng.Chance(40) {
		nreq = rng.Range(1, 3)
	}
	totalUp := 0
	for i := 0; i < nreq; i++ {
		var r ReqSpec
		r.Upload = -1
		if rng.Chance(60) {
			r.Upload = hk.Pick(rng, bodySizes)
			r.UnknownLen = rng.Chance(30)
			totalUp += r.Upload
		}
		if rng.Chance(15) {
			r.BigHeader = hk.Pick(rng, []int{20000, 40000})
		}
		if rng.Chance(65) {
			r.RespSize = hk.Pick(rng, bodySizes)
			if rng.Chance(15) {
				if w, ok := sc.FP.setting(4); ok && w <= 300000 {
					r.RespSize = int(w) + rng.Range(-1, 1)*rng.Intn(3)
					if r.RespSize < 0 {
						r.RespSize = 0
					}
				}
			}
		}
		r.RespChunk = chunkFor(rng, r.RespSize)
		if rng.Chance(20) {
			r.RespPad = hk.Pick(rng, []int{1, 7, 255})
			if r.RespSize > 0 && rng.Chance(50) {
				r.PadOnly = rng.Range(1, 6) // padding counts against the windows even without a data byte
			}
		}
		if r.RespSize == 0 {
			r.EndOnHeaders = rng.Bool()
		} else {
			r.SepEnd = rng.Chance(25)
		}
		r.RespEarly = r.Upload > 0 && rng.Chance(25)
		if r.RespEarly && rng.Chance(50) {
			r.Status = hk.Pick(rng, []int{403, 413, 301}) // final response mid-upload: the client gives the body up
		}
		r.NoCL = rng.Chance(30)
		r.App = hk.Pick(rng, []string{appReadAll, appReadAll, appReadAll, appReadSlow, appPrefixClose, appCloseNow, appCancel})
		switch r.App {
		case appReadSlow:
			r.AppArg = hk.Pick(rng, []int{1, 7, 1000, 4095, 4097, 16385})
			if r.RespSize/r.AppArg > 400 {
				r.AppArg = r.RespSize/400 + 1
			}
		case appPrefixClose, appCancel:
			if r.RespSize > 0 {
				r.AppArg = rng.Intn(r.RespSize)
			}
		}
		if r.Upload > 1 && rng.Chance(12) {
			r.RstUpload = 1 + rng.Intn(r.Upload-1)
		} else if r.RespSize > 1 && rng.Chance(12) {
			r.RstDownload = 1 + rng.Intn(r.RespSize-1)
		}
		if rng.Chance(40) {
			r.StartDelayUs = rng.Intn(4000)
		}
		sc.Reqs = append(sc.Reqs, r)
	}
	// warm-up: in a third of the scenarios the first request is a small one and the others start
	// once the peer's first SETTINGS frame is in force, so that uploads begin under the peer's
	// limits (scratch buffer, frame size, stream limit) and the script changes them mid-body
	if len(sc.Reqs) > 1 && rng.Chance(35) {
		sc.Reqs[0] = ReqSpec{Upload: -1, RespSize: 1, RespChunk: 16384, App: appReadAll}
		for i := 1; i < len(sc.Reqs); i++ {
			sc.Reqs[i].StartDelayUs += 30000
		}
		sc.Kind = "rand-warm"
	}
	// mid-stream script
	nact := rng.Intn(6)
	cur := map[uint32]uint32{}
	for _, kv := range sc.PeerSettings {
		cur[kv[0]] = kv[1]
	}
	up := 0
	for i := 0; i < nact; i++ {
		a := Action{TrigTicks: rng.Range(2, 25)}
		if totalUp > 0 && rng.Chance(70) {
			up += rng.Intn(totalUp/nact + 1)
			a.TrigUp = up + 1
		}
		switch rng.Intn(10) {
		case 0, 1, 2: // INITIAL_WINDOW_SIZE change
			v := uint32(hk.Pick(rng, peerInitWin))
			if old, ok := cur[4]; ok && old == 0 {
				v = uint32(hk.Pick(rng, []int{16384, 65535, 1 << 20})) // back up from 0
			}
			cur[4] = v
			a.Kind, a.Settings = "settings", [][2]uint32{{4, v}}
		case 3, 4: // MAX_FRAME_SIZE up/down
			v := uint32(hk.Pick(rng, []int{16384, 16385, 32768, 1 << 20}))
			cur[5] = v
			a.Kind, a.Settings = "settings", [][2]uint32{{5, v}}
		case 5: // MAX_CONCURRENT_STREAMS down to 1 and up
			v := uint32(hk.Pick(rng, []int{1, 1, 2, 100}))
			cur[3] = v
			a.Kind, a.Settings = "settings", [][2]uint32{{3, v}}
		case 6: // several at once
			w, f := uint32(hk.Pick(rng, peerInitWin)), uint32(hk.Pick(rng, []int{16384, 32768}))
			cur[4], cur[5] = w, f
			a.Kind, a.Settings = "settings", [][2]uint32{{5, f}, {4, w}}
			if rng.Bool() {
				a.Settings = append(a.Settings, [2]uint32{4, w/2 + 1}, [2]uint32{4, w}) // repeated id in one frame
			}
		case 7, 8:
			a.Kind, a.Inc = "wu", hk.Pick(rng, oddIncs)
		case 9:
			if rng.Chance(50) {
				a.Kind = "goaway"
				sc.ExpectClose = true
			} else {
				a.Kind, a.Inc = "wu", hk.Pick(rng, oddIncs)
			}
		}
		if a.Kind == "wu" && rng.Chance(30) {
			a.Kind = "ping" // a PING of the peer at an arbitrary point of the exchange
		}
		// every SETTINGS frame must be acknowledged, also one without parameters or with
		// nothing but identifiers the client does not know
		if a.Kind == "settings" && rng.Chance(12) {
			if rng.Bool() {
				a.Settings = [][2]uint32{}
			} else {
				a.Settings = [][2]uint32{{0xf00d, uint32(rng.Intn(1 << 16))}, {8, 1}}
			}
		}
		sc.Actions = append(sc.Actions, a)
	}
	return sc
}

// specialScenarios are the deterministic scenarios that target suspected defects.
func specialScenarios(start int, seed uint64, thorough bool) []*Scenario {
	var out []*Scenario
	add := func(sc *Scenario) {
		sc.Idx = start + len(out)
		out = append(out, sc)
	}
	// S1: caller's own MAX_FRAME_SIZE must not become the peer's limit.
	for _, mf := range []uint32{32768, 65536} {
		sc := defaultScenario(0, seed, fmt.Sprintf("S1-caller-maxframe-%d", mf))
		sc.FP = Fingerprint{Kind: "custom", Settings: [][2]uint32{{2, 0}, {4, 4194304}, {5, mf}}}
		sc.PeerSettings = [][2]uint32{{3, 100}, {4, 1 << 20}}
		sc.InitConnWU = 1 << 20
		sc.C2PBuf = 262144
		sc.Reqs = []ReqSpec{{Upload: 100000, RespSize: 1, RespChunk: 16384, App: appReadAll}}
		add(sc)
	}
	{ // control: peer states 16384 explicitly
		sc := defaultScenario(0, seed, "S1-control-peer-maxframe-16384")
		sc.FP = Fingerprint{Kind: "custom", Settings: [][2]uint32{{2, 0}, {4, 4194304}, {5, 32768}}}
		sc.PeerSettings = [][2]uint32{{3, 100}, {4, 1 << 20}, {5, 16384}}
		sc.InitConnWU = 1 << 20
		// the upload starts long after the peer's SETTINGS have been acknowledged
		sc.Reqs = []ReqSpec{{Upload: -1, RespSize: 1, RespChunk: 16384, App: appReadAll},
			{Upload: 100000, RespSize: 1, RespChunk: 16384, App: appReadAll, StartDelayUs: 150000}}
		add(sc)
	}
	// S1h: HEADERS with priority bytes and a header block >= MAX_FRAME_SIZE.
	for _, fp := range []string{"chrome", "custom"} {
		sc := defaultScenario(0, seed, "S1h-header-priority-big-header-"+fp)
		sc.FP = Fingerprint{Kind: fp}
		if fp == "custom" {
			sc.FP.Settings = [][2]uint32{{2, 0}, {4, 4194304}}
			sc.FP.HeaderPrio = true
		}
		sc.PeerSettings = [][2]uint32{{3, 100}}
		sc.Reqs = []ReqSpec{{Upload: -1, BigHeader: 40000, RespSize: 10, RespChunk: 16384, App: appReadAll}}
		add(sc)
	}
	// S2: caller advertises a small INITIAL_WINDOW_SIZE.
	for _, w := range []uint32{1000, 4095, 4096} {
		sc := defaultScenario(0, seed, fmt.Sprintf("S2-caller-initwin-%d", w))
		sc.FP = Fingerprint{Kind: "custom", Settings: [][2]uint32{{2, 0}, {4, w}}}
		sc.PeerSettings = [][2]uint32{{3, 100}}
		sc.Reqs = []ReqSpec{{Upload: -1, RespSize: 3 * int(w), RespChunk: 16384, App: appReadAll}}
		add(sc)
	}
	// S3: caller advertises a stream window larger than 4 MiB; the app reads late.
	s3 := []Fingerprint{{Kind: "chrome"}, {Kind: "custom", Settings: [][2]uint32{{2, 0}, {4, 6291456}, {5, 65536}}, ConnFlow: 15663105}}
	if thorough {
		s3 = append(s3, Fingerprint{Kind: "safari"})
	}
	for _, fp := range s3 {
		sc := defaultScenario(0, seed, "S3-big-window-late-reader-"+fp.Kind)
		sc.FP = fp
		sc.PeerSettings = [][2]uint32{{3, 100}}
		size := 6291456
		if fp.Kind == "safari" {
			size = 4194304
		}
		chunk := 16384
		if mf, ok := fp.setting(5); ok {
			chunk = int(mf)
		}
		sc.Reqs = []ReqSpec{{Upload: -1, RespSize: size, RespChunk: chunk, App: appReadAll, HoldRead: true}}
		add(sc)
	}
	// S5: SETTINGS frames without parameters (as the peer's first frame and mid-stream) and with
	// unknown identifiers only are acknowledged like any other.
	for _, first := range []string{"empty", "unknown"} {
		sc := defaultScenario(0, seed, "S5-settings-"+first+"-first")
		sc.PeerSettings = [][2]uint32{}
		if first == "unknown" {
			sc.PeerSettings = [][2]uint32{{0xf00d, 7}}
		}
		sc.InitConnWU = 1 << 20
		sc.Reqs = []ReqSpec{
			{Upload: 100000, RespSize: 1000, RespChunk: 16384, App: appReadAll},
			{Upload: -1, RespSize: 70000, RespChunk: 16384, App: appReadAll, StartDelayUs: 2000},
		}
		sc.Actions = []Action{
			{TrigUp: 20000, TrigTicks: 50, Kind: "settings", Settings: [][2]uint32{}},
			{TrigUp: 40000, TrigTicks: 50, Kind: "settings", Settings: [][2]uint32{{0xf00d, 1}, {0xbeef, 2}}},
			{TrigUp: 60000, TrigTicks: 50, Kind: "settings", Settings: [][2]uint32{{4, 70000}}},
			{TrigUp: 80000, TrigTicks: 50, Kind: "settings", Settings: [][2]uint32{}},
		}
		add(sc)
	}
	// S6: response DATA that arrives after the application closed / abandoned the body is
	// discarded; every byte of it must come back as connection credit. Small frames, a slow
	// peer reader and a concurrent upload keep the client's RST_STREAM (and with it
	// forgetStreamID) late, so that frames hit both discard paths of processData.
	for _, chunk := range []int{1000, 3000} {
		sc := defaultScenario(0, seed, fmt.Sprintf("S6-discard-after-close-%d", chunk))
		sc.C2PBuf = 2048
		sc.ReadDelayUs = 1000
		sc.PeerSettings = [][2]uint32{{3, 100}, {4, 1 << 20}}
		sc.InitConnWU = 1 << 22
		sc.Reqs = []ReqSpec{
			{Upload: 300000, RespSize: 1, RespChunk: 16384, App: appReadAll},
			{Upload: -1, RespSize: 400000, RespChunk: chunk, App: appPrefixClose, AppArg: 3000, StartDelayUs: 3000},
			{Upload: -1, RespSize: 400000, RespChunk: chunk, App: appCloseNow, StartDelayUs: 3000},
			{Upload: -1, RespSize: 200000, RespChunk: chunk, NoCL: true, App: appCancel, AppArg: 2000, StartDelayUs: 5000},
			{Upload: -1, RespSize: 100000, RespChunk: chunk, RespPad: 7, App: appPrefixClose, AppArg: 1, StartDelayUs: 5000},
		}
		add(sc)
	}
	// S7: the peer sends more body than the Content-Length it declared (within its windows);
	// the bytes the client takes out of its buffer and drops are consumed data: their
	// connection credit must come back.
	for _, short := range []int{1, 30000} {
		sc := defaultScenario(0, seed, fmt.Sprintf("S7-body-longer-than-content-length-%d", short))
		sc.PeerSettings = [][2]uint32{{3, 100}}
		sc.Reqs = []ReqSpec{
			{Upload: -1, RespSize: 50000, RespChunk: 16384, CLShort: short, App: appReadAll, HoldRead: true},
			{Upload: -1, RespSize: 40000, RespChunk: 16384, CLShort: short, App: appReadSlow, AppArg: 4097},
			{Upload: -1, RespSize: 20000, RespChunk: 16384, App: appReadAll},
		}
		add(sc)
	}
	// S8: settings persist until changed. The peer's first SETTINGS frame limits the connection
	// to 1 (2) concurrent streams; a later frame that only changes INITIAL_WINDOW_SIZE (or is
	// empty) must not lift that limit: requests that start while a slow upload is still open
	// have to wait (strict) or fail over to a dial the harness refuses (non-strict).
	for _, strict := range []bool{true, false} {
		for _, lim := range []uint32{1, 2} {
			sc := defaultScenario(0, seed, fmt.Sprintf("S8-max-streams-persists-%d-strict=%v", lim, strict))
			sc.Strict = strict
			sc.PeerSettings = [][2]uint32{{3, lim}, {4, 20000}}
			sc.InitConnWU = 1 << 20
			sc.GrantOnTick = true
			sc.TickUs = 2000
			sc.Incs = []uint32{4097, 7000}
			sc.LowStream, sc.LowConn = 1, 1
			sc.Reqs = []ReqSpec{
				{Upload: 150000, RespSize: 1, RespChunk: 16384, App: appReadAll},
				{Upload: -1, RespSize: 1000, RespChunk: 16384, App: appReadAll, StartDelayUs: 40000},
				{Upload: 1000, RespSize: 1000, RespChunk: 16384, App: appReadAll, StartDelayUs: 60000},
				{Upload: -1, RespSize: 10, RespChunk: 16384, App: appReadAll, StartDelayUs: 80000},
			}
			if lim == 2 {
				sc.Reqs = append(sc.Reqs, ReqSpec{Upload: 120000, RespSize: 1, RespChunk: 16384, App: appReadAll})
			}
			sc.Actions = []Action{
				{TrigUp: 10000, TrigTicks: 10, Kind: "settings", Settings: [][2]uint32{{4, 30000}}},
				{TrigUp: 30000, TrigTicks: 10, Kind: "settings", Settings: [][2]uint32{}},
				{TrigUp: 50000, TrigTicks: 10, Kind: "settings", Settings: [][2]uint32{{5, 32768}}},
			}
			add(sc)
		}
	}
	// S9: the peer LOWERS MAX_FRAME_SIZE in the middle of an upload that started under the
	// larger limit (warm-up request first), and does not raise it again: every DATA frame after
	// the ACK obeys the new limit. Variant "blocked": the upload sits on an exhausted stream
	// window with a large chunk in hand when the SETTINGS frame arrives; the window opens
	// only after it.
	for _, variant := range []string{"blocked", "flowing"} {
		for _, hi := range []uint32{65536, 32768} {
			sc := defaultScenario(0, seed, fmt.Sprintf("S9-maxframe-lowered-mid-upload-%s-%d", variant, hi))
			sc.InitConnWU = 1 << 22
			sc.Incs = []uint32{65535, 65535}
			sc.LowStream, sc.LowConn = 1, 1
			iw := uint32(1 << 20)
			trig := 70000
			if variant == "blocked" {
				iw, trig = 1000, 1000
			}
			sc.PeerSettings = [][2]uint32{{3, 100}, {4, iw}, {5, hi}}
			sc.Reqs = []ReqSpec{
				{Upload: -1, RespSize: 1, RespChunk: 16384, App: appReadAll},
				{Upload: 200000, RespSize: 1, RespChunk: 16384, App: appReadAll, StartDelayUs: 40000},
				{Upload: 150000, UnknownLen: true, RespSize: 1, RespChunk: 16384, App: appReadAll, StartDelayUs: 40000},
			}
			sc.Actions = []Action{{TrigUp: trig, TrigTicks: 400, Kind: "settings", Settings: [][2]uint32{{5, 16384}}}}
			add(sc)
		}
	}
	// S10: a final response (status >= 300, END_STREAM) arrives in the middle of an upload and the
	// peer does not reset the stream: the client gives the body up and has to close its half
	// (RST_STREAM or END_STREAM) before the slot is used for the next stream - limit 1 / 2, strict.
	for _, lim := range []uint32{1, 2} {
		for _, unknown := range []bool{false, true} {
			sc := defaultScenario(0, seed, fmt.Sprintf("S10-early-final-response-limit-%d-unknownlen=%v", lim, unknown))
			sc.Strict = true
			sc.PeerSettings = [][2]uint32{{3, lim}, {4, 20000}}
			sc.InitConnWU = 1 << 20
			sc.GrantOnTick = true
			sc.TickUs = 2000
			sc.Incs = []uint32{4097, 7000}
			sc.LowStream, sc.LowConn = 1, 1
			sc.Reqs = []ReqSpec{
				{Upload: 300000, UnknownLen: unknown, RespSize: 10, RespChunk: 16384, RespEarly: true, Status: 403, App: appReadAll},
				{Upload: -1, RespSize: 1000, RespChunk: 16384, App: appReadAll, StartDelayUs: 30000},
				{Upload: 50000, RespSize: 0, RespChunk: 16384, EndOnHeaders: true, RespEarly: true, Status: 413, App: appReadAll, StartDelayUs: 45000},
				{Upload: -1, RespSize: 10, RespChunk: 16384, App: appReadAll, StartDelayUs: 60000},
			}
			add(sc)
		}
	}
	// S11: DATA frames that carry nothing but padding (PADDED flag, zero data bytes) count against
	// both windows; the client has to debit them and to return the credit. The peer spends most
	// of a small stream window on them before the body.
	for _, w := range []uint32{8192, 65535} {
		sc := defaultScenario(0, seed, fmt.Sprintf("S11-padding-only-data-%d", w))
		sc.FP = Fingerprint{Kind: "custom", Settings: [][2]uint32{{2, 0}, {4, w}}}
		sc.PeerSettings = [][2]uint32{{3, 100}}
		sc.Reqs = []ReqSpec{
			{Upload: -1, RespSize: int(w), RespChunk: 4097, RespPad: 255, PadOnly: int(w) / 256, App: appReadAll},
			{Upload: -1, RespSize: 3000, RespChunk: 1000, RespPad: 7, PadOnly: 5, App: appPrefixClose, AppArg: 1000, StartDelayUs: 2000},
			{Upload: -1, RespSize: 0, RespChunk: 1000, RespPad: 1, PadOnly: 3, App: appReadAll, StartDelayUs: 2000},
		}
		add(sc)
	}
	// S12: the interleaving behind the stream-slot re-check, built deterministically. Strict limit 2,
	// stream 1 uploads; the peer stops reading, so the upload blocks in Write holding the write
	// lock; the peer lowers MAX_CONCURRENT_STREAMS to 1 (the read loop queues on the write lock);
	// then request B starts (sees a free slot, queues behind the read loop); the peer resumes
	// reading: the SETTINGS frame is applied and acknowledged first, so B has to wait for the slot.
	for _, gap := range []int{10, 25} {
		sc := defaultScenario(0, seed, fmt.Sprintf("S12-slot-recheck-under-write-lock-%d", gap))
		sc.Strict = true
		sc.C2PBuf = 2048
		sc.TickUs = 1000
		sc.PeerSettings = [][2]uint32{{3, 2}, {4, 1 << 20}}
		sc.InitConnWU = 1 << 22
		sc.Reqs = []ReqSpec{
			{Upload: 250000, RespSize: 1, RespChunk: 16384, App: appReadAll},
			{Upload: -1, RespSize: 10, RespChunk: 16384, App: appReadAll, Gated: true},
			{Upload: 1000, RespSize: 10, RespChunk: 16384, App: appReadAll, Gated: true},
		}
		sc.Actions = []Action{
			{TrigUp: 30000, TrigTicks: 400, Kind: "pause-read"},
			{TrigTicks: gap, Kind: "settings", Settings: [][2]uint32{{3, 1}}},
			{TrigTicks: gap, Kind: "start-req", Inc: 1},
			{TrigTicks: gap, Kind: "start-req", Inc: 2},
			{TrigTicks: gap, Kind: "resume-read"},
		}
		add(sc)
	}
	// S13: a SETTINGS frame that reaches the client in the same read as a complete header-only
	// response, after which the client has nothing to write: the acknowledgement must still
	// arrive (the harness waits for it on the idle connection before it sends anything else).
	for _, set := range [][][2]uint32{{{4, 70000}}, {}} {
		sc := defaultScenario(0, seed, fmt.Sprintf("S13-settings-ack-on-idle-connection-%d", len(set)))
		sc.PeerSettings = [][2]uint32{{3, 100}}
		sc.Reqs = []ReqSpec{{Upload: -1, RespSize: 0, RespChunk: 16384, EndOnHeaders: true, AckBatch: set, App: appReadAll, StartDelayUs: 20000}}
		if set == nil {
			sc.Reqs[0].AckBatch = [][2]uint32{}
		}
		add(sc)
	}
	// S14: a request with a body queues for a stream slot (strict limit 1) while the peer lowers
	// INITIAL_WINDOW_SIZE (acknowledged); when the slot frees, the new stream starts with the
	// window in force then, not the one in force when the request was queued.
	for _, nw := range []uint32{1000, 0} {
		sc := defaultScenario(0, seed, fmt.Sprintf("S14-initial-window-lowered-while-queued-%d", nw))
		sc.Strict = true
		sc.PeerSettings = [][2]uint32{{3, 1}, {4, 100000}}
		sc.InitConnWU = 1 << 22
		sc.GrantOnTick = true
		sc.TickUs = 2000
		sc.Incs = []uint32{4097, 7000}
		sc.LowStream, sc.LowConn = 1, 1
		sc.Reqs = []ReqSpec{
			// the first upload outlasts the script by far: 100000 bytes at once, the rest at
			// about 5500 bytes per 2 ms tick (and it has to work off the lowered window first)
			{Upload: 400000, RespSize: 1, RespChunk: 16384, App: appReadAll},
			{Upload: 90000, RespSize: 1, RespChunk: 16384, App: appReadAll, Gated: true},
			{Upload: 70000, UnknownLen: true, RespSize: 1, RespChunk: 16384, App: appReadAll, Gated: true},
		}
		sc.Actions = []Action{
			{TrigUp: 20000, TrigTicks: 400, Kind: "start-req", Inc: 1},
			{TrigTicks: 3, Kind: "start-req", Inc: 2},
			{TrigTicks: 5, Kind: "settings", Settings: [][2]uint32{{4, nw}}},
		}
		add(sc)
	}
	// S14b: the same for every other value a queued request could have snapshotted: the request
	// that waits for the slot carries a 40 000-byte header block (and a body); while it waits
	// the peer lowers MAX_FRAME_SIZE 65536 -> 16384 (alone, or together with INITIAL_WINDOW_SIZE
	// and MAX_HEADER_LIST_SIZE in one frame); the header block written after the slot frees
	// is cut by the limit acknowledged by then.
	for vi, set := range [][][2]uint32{{{5, 16384}}, {{5, 16384}, {4, 1000}, {6, 1 << 20}}, {{6, 1 << 20}, {5, 32768}, {5, 16384}}} {
		sc := defaultScenario(0, seed, fmt.Sprintf("S14b-settings-lowered-while-queued-%d", vi))
		sc.Strict = true
		sc.PeerSettings = [][2]uint32{{3, 1}, {4, 100000}, {5, 65536}}
		sc.InitConnWU = 1 << 22
		sc.GrantOnTick = true
		sc.TickUs = 2000
		sc.Incs = []uint32{4097, 7000}
		sc.LowStream, sc.LowConn = 1, 1
		sc.Reqs = []ReqSpec{
			{Upload: 400000, RespSize: 1, RespChunk: 16384, App: appReadAll},
			{Upload: 90000, BigHeader: 40000, RespSize: 1, RespChunk: 16384, App: appReadAll, Gated: true},
			{Upload: -1, BigHeader: 40000, RespSize: 1, RespChunk: 16384, App: appReadAll, Gated: true},
		}
		sc.Actions = []Action{
			{TrigUp: 20000, TrigTicks: 400, Kind: "start-req", Inc: 1},
			{TrigTicks: 3, Kind: "start-req", Inc: 2},
			{TrigTicks: 5, Kind: "settings", Settings: set},
		}
		if vi == 1 {
			sc.FP = Fingerprint{Kind: "custom", Settings: [][2]uint32{{2, 0}, {4, 4194304}}, HeaderPrio: true}
		}
		add(sc)
	}
	// S15: a PING of the peer processed while the client is in the middle of a header block
	// (HEADERS read by the peer, CONTINUATION frames held back by a full pipe): the PING ACK
	// must not land inside the block. Warm-up first so that the peer's SETTINGS are in force.
	for _, hdr := range []int{40000, 70000} {
		sc := defaultScenario(0, seed, fmt.Sprintf("S15-ping-inside-header-block-%d", hdr))
		sc.C2PBuf = 2048
		sc.PingMidBlock = true
		sc.PeerSettings = [][2]uint32{{3, 100}}
		sc.Reqs = []ReqSpec{
			{Upload: -1, RespSize: 1, RespChunk: 16384, App: appReadAll},
			{Upload: -1, BigHeader: hdr, RespSize: 10, RespChunk: 16384, App: appReadAll, StartDelayUs: 30000},
			{Upload: 20000, BigHeader: hdr, RespSize: 10, RespChunk: 16384, App: appReadAll, StartDelayUs: 60000},
		}
		add(sc)
	}
	// S16: requests that get a stream id but never reach the wire (header list larger than the
	// peer's MAX_HEADER_LIST_SIZE: refused locally after addStreamLocked), interleaved with other
	// requests while their cleanup is held up by a slow Request.Body.Close: ids on the wire stay
	// strictly increasing (the refused request's id is burned, never handed out again).
	for _, n := range []int{1, 2} {
		sc := defaultScenario(0, seed, fmt.Sprintf("S16-refused-request-slow-close-%d", n))
		sc.PeerSettings = [][2]uint32{{3, 100}, {6, 2048}}
		sc.Reqs = []ReqSpec{
			{Upload: -1, RespSize: 1, RespChunk: 16384, App: appReadAll},
			// A: refused locally, its body closes only when B is finished
			{Upload: 1000, UnknownLen: true, BigHeader: 4096, RespSize: 1, RespChunk: 16384, App: appReadAll, StartDelayUs: 30000, SlowClose: 3},
			// B: sent while A's cleanup hangs in Close
			{Upload: -1, RespSize: 100, RespChunk: 16384, App: appReadAll, AfterClose: 2},
			// C, D: after A has finished
			{Upload: -1, RespSize: 100, RespChunk: 16384, App: appReadAll, AfterDone: 2},
			{Upload: 500, RespSize: 100, RespChunk: 16384, App: appReadAll, AfterDone: 4},
		}
		if n == 2 { // a second refused request between C and D
			sc.Reqs = append(sc.Reqs,
				ReqSpec{Upload: 1000, UnknownLen: true, BigHeader: 4096, RespSize: 1, RespChunk: 16384, App: appReadAll, AfterDone: 4, SlowClose: 7},
				ReqSpec{Upload: -1, RespSize: 100, RespChunk: 16384, App: appReadAll, AfterClose: 6},
				ReqSpec{Upload: -1, RespSize: 100, RespChunk: 16384, App: appReadAll, AfterDone: 6})
		}
		add(sc)
	}
	// S17: the application closes a response body while the request's cleanup is held up in a slow
	// Request.Body.Close: the stream stays registered, no RST_STREAM is out yet, the peer keeps
	// sending DATA - all of it is discarded and must come back as connection credit.
	for _, chunk := range []int{3000, 16384} {
		sc := defaultScenario(0, seed, fmt.Sprintf("S17-discard-while-body-close-hangs-%d", chunk))
		sc.PeerSettings = [][2]uint32{{3, 100}}
		sc.Reqs = []ReqSpec{
			{Upload: 1000, UnknownLen: true, SlowClose: 2, RespSize: 300000, RespChunk: chunk, RespPad: 7, RespWaitClose: 6000, App: appPrefixClose, AppArg: 3000},
			{Upload: -1, RespSize: 200000, RespChunk: 16384, App: appReadSlow, AppArg: 1000, AfterClose: 1},
			{Upload: -1, RespSize: 10, RespChunk: 16384, App: appReadAll, AfterDone: 1},
		}
		add(sc)
	}
	// S4: SETTINGS applied+acked between awaitFlowControl and the DATA write.
	reps := 2
	if thorough {
		reps = 6
	}
	for rep := 0; rep < 2*reps; rep++ {
		variant := []string{"maxframe", "initwin0"}[rep%2]
		sc := defaultScenario(0, seed, "S4-race-"+variant)
		sc.C2PBuf = 4096
		sc.ReadDelayUs = 300
		sc.InitConnWU = 1 << 24
		sc.LowStream, sc.LowConn = 1, 1
		sc.Incs = []uint32{65535, 16385}
		sc.PeerSettings = [][2]uint32{{3, 100}, {4, 1 << 20}, {5, 32768}}
		// a small request first: the uploads start once the peer's SETTINGS (MAX_FRAME_SIZE
		// 32768) are in force, so that their scratch buffers are 32 KiB
		sc.Reqs = []ReqSpec{
			{Upload: -1, RespSize: 1, RespChunk: 16384, App: appReadAll},
			{Upload: 300000, RespSize: 1, RespChunk: 16384, App: appReadAll, StartDelayUs: 40000},
			{Upload: 300000, RespSize: 1, RespChunk: 16384, App: appReadAll, StartDelayUs: 40000},
		}
		for i := 0; i < 7; i++ {
			a := Action{TrigUp: 40000 + i*70000, TrigTicks: 400, Kind: "settings"}
			b := Action{TrigUp: 40000 + i*70000 + 35000, TrigTicks: 400, Kind: "settings"}
			if variant == "maxframe" {
				a.Settings, b.Settings = [][2]uint32{{5, 16384}}, [][2]uint32{{5, 32768}}
			} else {
				a.Settings, b.Settings = [][2]uint32{{4, 0}}, [][2]uint32{{4, 1 << 20}}
			}
			sc.Actions = append(sc.Actions, a, b)
		}
		add(sc)
	}
	return out
}

// BuildScenarios derives all scenario scripts for a run (before anything runs).
func BuildScenarios(seed uint64, rng *hk.Rand, nRandom int, thorough bool) []*Scenario {
	out := specialScenarios(0, seed, thorough)
	// hk.NewRand(seed) is a splitmix64 whose state is linear in the seed: the stream of
	// seed n+1 is the stream of seed n shifted by one draw. Re-seed from a mixed output
	// so that different seeds give unrelated scenario sets.
	rng = hk.NewRand(rng.U64() ^ 0xC06C06C06)
	for i := 0; i < nRandom; i++ {
		out = append(out, randomScenario(len(out), seed, rng.Fork()))
	}
	return out
}
