//go:build !verif

package c06peer

import (
	req "github.com/imroc/req/v3"
)

type noHookStream struct{}

type noHookState struct {
	Flow, InflowAvail, InflowUnsent                                     int32
	MaxFrameSize, MaxConcurrentStreams, InitialWindowSize, NextStreamID uint32
	Closed, GoAway                                                      bool
	Streams                                                             []noHookStream
}

// Without the verif build tag the client-side snapshot is unavailable.
func connStates(c *req.Client) []noHookState { return nil }
