package main

// Transport-level driver: a scripted io.Reader body goes through the REAL
// Transport.autoDecodeResponseBody (verif hook) and is read with scripted caller buffers.

import (
	"bytes"
	"fmt"
	"io"
	"mime"
	"net/http"
	"strings"
	"time"

	req "github.com/imroc/req/v3"
	"github.com/imroc/req/v3/internal/charsets"
	htmlcharset "golang.org/x/net/html/charset"
	"golang.org/x/text/encoding"
	"golang.org/x/text/encoding/ianaindex"
	"golang.org/x/text/transform"
)

// ---------- scripted network body ----------

// scripted delivers one chunk per Read when the buffer is large enough, else a prefix of it (the rest
// stays for the next Read).  eofWithLast: the last chunk comes together with io.EOF.  failAfter >= 0:
// after that many chunks a (non-EOF) error is returned instead.
type scripted struct {
	chunks      [][]byte
	eofWithLast bool
	failAfter   int
	served      int
	closed      bool
}

var errReset = fmt.Errorf("verif: connection reset by peer")

func newScripted(chunks [][]byte, eofWithLast bool) *scripted {
	c := make([][]byte, len(chunks))
	copy(c, chunks)
	return &scripted{chunks: c, eofWithLast: eofWithLast, failAfter: -1}
}

func (s *scripted) Read(p []byte) (int, error) {
	if s.failAfter >= 0 && s.served >= s.failAfter {
		return 0, errReset
	}
	if len(s.chunks) == 0 {
		return 0, io.EOF
	}
	c := s.chunks[0]
	if len(c) <= len(p) {
		n := copy(p, c)
		s.chunks = s.chunks[1:]
		s.served++
		if len(s.chunks) == 0 && s.eofWithLast {
			return n, io.EOF
		}
		return n, nil
	}
	n := copy(p, c[:len(p)])
	s.chunks[0] = c[n:]
	return n, nil
}

func (s *scripted) Close() error { s.closed = true; return nil }

// ---------- settings ----------

type settings struct {
	Disable bool     `json:"disable"`
	Sel     string   `json:"selector"` // default | list | all | fn
	List    []string `json:"list,omitempty"`
	FnAns   bool     `json:"fn_answer,omitempty"`
	RespAE  string   `json:"resp_accept_encoding,omitempty"` // Accept-Encoding header on the RESPONSE (RFC 9110 12.5.3, e.g. on 415)
	RespCE  string   `json:"resp_content_encoding,omitempty"` // Content-Encoding still on the response when it reaches the charset stage (body left encoded)
}

func (s settings) name() string {
	n := s.Sel
	if s.Sel == "list" {
		n += "[" + strings.Join(s.List, ",") + "]"
	}
	if s.Sel == "fn" {
		n += fmt.Sprintf("[%v]", s.FnAns)
	}
	if s.Disable {
		n += "+disabled"
	}
	if s.RespAE != "" {
		n += "+respAE"
	}
	if s.RespCE != "" {
		n += "+respCE"
	}
	return n
}

func (s settings) transport() *req.Transport {
	t := req.T()
	if s.Disable {
		t.DisableAutoDecode()
	}
	switch s.Sel {
	case "list":
		t.SetAutoDecodeContentType(s.List...)
	case "all":
		t.SetAutoDecodeAllContentType()
	case "fn":
		ans := s.FnAns
		t.SetAutoDecodeContentTypeFunc(func(string) bool { return ans })
	}
	return t
}

// the documented default selection (doc comment of SetAutoDecodeContentType: "text", "json", "xml",
// "html", "java"); the Coq model takes its table from the source via gosync
var documentedDefault = []string{"text", "json", "xml", "html", "java"}

// selectedByConfig: is this content type selected for decoding under these settings (property text:
// "content types not selected for decoding are never modified").
func (s settings) selectedByConfig(ct string) bool {
	anyOf := func(l []string) bool {
		for _, f := range l {
			if strings.Contains(ct, f) {
				return true
			}
		}
		return false
	}
	switch s.Sel {
	case "list":
		return anyOf(s.List)
	case "all":
		return true
	case "fn":
		return s.FnAns
	}
	return anyOf(documentedDefault)
}

// ---------- one drive ----------

type unitCase struct {
	Kind     string   `json:"kind"` // unit | e2e
	Doc      *doc     `json:"doc"`
	Set      settings `json:"settings"`
	Chunks   [][]byte `json:"-"`
	ChunkLen []int    `json:"chunk_lens"`
	EOFLast  bool     `json:"eof_with_last"`
	Pattern  []int    `json:"caller_sizes"`
	BufMode  string   `json:"buf_mode"` // zero | stale-meta | aa | reuse | fill
	FailAt   int      `json:"fail_after_chunks"` // -1 = none
	CfgProg   string  `json:"config_program,omitempty"` // the transport was configured by this program (settings = what the calls addressed to it mean)
	tr        *req.Transport
	Group     int     `json:"interleaved_group,omitempty"` // > 0: read interleaved with the other readers of this group on one transport
	Stack     string  `json:"stack,omitempty"`   // e2e: h1-cl | h1-chunked | h1-close | h2 | h3
	GapMS     int     `json:"gap_ms,omitempty"`  // e2e: pause between segments
	HighLevel bool    `json:"high_level,omitempty"` // e2e: Client.R().Get + Response.Bytes()
	Middleware  string `json:"transport_middleware,omitempty"` // e2e: pass | wrap (re-wraps resp.Body)
	CloneClient bool   `json:"clone_client,omitempty"`         // e2e: the client is a Clone() of the configured one
	SetCL       bool   `json:"set_content_length,omitempty"`   // e2e: h2/h3 origins declare Content-Length
	Coding    string  `json:"coding,omitempty"` // e2e: served compressed with this coding AND decompressed by the transport before the charset stage
	AutoDecompress bool `json:"auto_decompress,omitempty"` // e2e: client.EnableAutoDecompress()
	CallerAE  string  `json:"caller_accept_encoding,omitempty"` // e2e: the request carries its own Accept-Encoding
	Status    int     `json:"status,omitempty"`   // response status (0 = 200)
	Location  string  `json:"location,omitempty"` // Location response header
	NoRedirect bool   `json:"no_redirect_policy,omitempty"` // e2e high level: client.SetRedirectPolicy(NoRedirectPolicy())
	HLMode    string  `json:"high_level_mode,omitempty"` // bytes | buffer (SetOutput(*bytes.Buffer)) | writer (SetOutput(plain io.Writer))
}

type callObs struct {
	K, N     int
	Err      string // "" | EOF | other
	Detected bool
	HasDec   bool
	PeekNil  bool
	PeekLen  int
}

type obs struct {
	Kind    string    `json:"reader_kind"`
	Calls   []callObs `json:"-"`
	NCalls  int       `json:"ncalls"`
	Out     []byte    `json:"-"`
	OutLen  int       `json:"out_len"`
	EndErr  string    `json:"end_err"`
	Fatal   string    `json:"fatal,omitempty"`
	Sanity  string    `json:"sanity,omitempty"` // e2e: something about the exchange is off although nothing crashed (judged after the delivered bytes)
	Closed  bool      `json:"closed"`
	NetSeen [][]byte  `json:"-"` // e2e: the network reads as seen underneath the decoder
	NetEOFLast bool   `json:"net_eof_with_last"`
}

var staleMeta = []byte(`<html><head><meta charset="gbk"><title>previous response</title></head><body>stale stale stale `)

func fillBuf(mode string, k int) []byte {
	b := make([]byte, k)
	switch mode {
	case "stale-meta":
		for i := range b {
			b[i] = staleMeta[i%len(staleMeta)]
		}
	case "aa":
		for i := range b {
			b[i] = 0xAA
		}
	}
	return b
}

func errClass(err error) string {
	switch {
	case err == nil:
		return ""
	case err == io.EOF:
		return "EOF"
	}
	return "other"
}

// readLoop reads body with the cycled size pattern until an error; maxCalls bounds it.
func readLoop(body io.ReadCloser, pattern []int, mode string, maxCalls int, o *obs) {
	var reuse []byte
	fillOff := 0
	for i := 0; ; i++ {
		if i >= maxCalls {
			o.Fatal = fmt.Sprintf("no end of body after %d reads", i)
			return
		}
		k := pattern[i%len(pattern)]
		var buf []byte
		if mode == "reuse" {
			if len(reuse) < k {
				reuse = fillBuf("stale-meta", 32768)
			}
			buf = reuse[:k]
		} else if mode == "fill" {
			// io.ReadFull style: consecutive regions of ONE backing array (the next read lands right
			// behind what the previous one returned)
			if len(reuse)-fillOff < k {
				reuse, fillOff = fillBuf("stale-meta", 65536), 0
			}
			buf = reuse[fillOff : fillOff+k]
		} else {
			buf = fillBuf(mode, k)
		}
		n, err := body.Read(buf)
		if n < 0 || n > k {
			o.Fatal = fmt.Sprintf("Read returned n=%d for a %d-byte buffer", n, k)
			return
		}
		if mode == "fill" {
			fillOff += n
		}
		c := callObs{K: k, N: n, Err: errClass(err)}
		_, c.Detected, c.HasDec, c.PeekLen, c.PeekNil = req.VerifAutoDecodeState(body)
		o.Calls = append(o.Calls, c)
		o.Out = append(o.Out, buf[:n]...)
		if err != nil {
			o.EndErr = c.Err
			return
		}
	}
}

// delivered: the chunks that reach the reader (all of them, or those before the scripted failure)
func (u *unitCase) delivered() [][]byte {
	if u.FailAt >= 0 && u.FailAt <= len(u.Chunks) {
		return u.Chunks[:u.FailAt]
	}
	return u.Chunks
}

func maxCallsFor(u *unitCase) int {
	return 3*len(u.Doc.Body) + 2*len(u.Chunks) + 64
}

func driveUnit(u *unitCase) (o obs) {
	done := make(chan obs, 1)
	go func() {
		var o obs
		defer func() {
			if e := recover(); e != nil {
				o.Fatal = fmt.Sprintf("panic: %v", e)
			}
			done <- o
		}()
		sb := newScripted(u.Chunks, u.EOFLast)
		sb.failAfter = u.FailAt
		res := &http.Response{Header: http.Header{}, Body: sb, StatusCode: 200}
		if u.Status != 0 {
			res.StatusCode = u.Status
		}
		if u.Location != "" {
			res.Header.Set("Location", u.Location)
		}
		if u.Doc.CT != "" {
			res.Header.Set("Content-Type", u.Doc.CT)
		}
		if u.Set.RespAE != "" {
			res.Header.Set("Accept-Encoding", u.Set.RespAE)
		}
		if u.Set.RespCE != "" {
			res.Header.Set("Content-Encoding", u.Set.RespCE)
		}
		t := u.tr
		if t == nil {
			t = u.Set.transport()
		}
		t.VerifAutoDecodeResponseBody(res)
		o.Kind, _, _, _, _ = req.VerifAutoDecodeState(res.Body)
		readLoop(res.Body, u.Pattern, u.BufMode, maxCallsFor(u), &o)
		res.Body.Close()
		o.Closed = sb.closed
	}()
	select {
	case o = <-done:
	case <-time.After(60 * time.Second):
		o.Fatal = "hang (60 s watchdog)"
	}
	o.NCalls, o.OutLen = len(o.Calls), len(o.Out)
	return o
}

// ---------- oracle tables: the real libraries' answers for the calls the model makes ----------

type tables struct {
	ParseKind string // err | none | charset
	ParseVal  string
	LookupIn  string
	LookupOut string // "" = not found
	FindIn    []byte
	FindHas   bool // a first non-empty read exists
	FindOut   string
	BomLookups [][2]string // htmlcharset.Lookup on the labels of the byte-order marks that prefix the first read: label, canonical name ("" = nil)
	Prescan   string       // charsets.prescan(first read): canonical name ("" = nil encoding)
	Stream    map[string][]byte // name -> transform.Reader over the chunks, drained
	All       map[string][]byte // name -> Decoder.Bytes(whole body)
	Partial   map[string][]byte // name -> transform.Reader over the delivered chunks followed by a source error, drained
	Takes     [][2]int          // (n, eofWithIt) of the reference transform.Reader per call
	encs      map[string]encoding.Encoding
}

// lookupLikeTransport: htmlcharset.Lookup, then ianaindex.MIME.Encoding (the two libraries the
// transport consults, in that order) - an oracle-table entry, the decision logic is the model's.
func lookupLikeTransport(label string) (encoding.Encoding, string) {
	if e, name := htmlcharset.Lookup(label); e != nil {
		return e, name
	}
	if e, err := ianaindex.MIME.Encoding(label); err == nil && e != nil {
		return e, "iana:" + label
	}
	return nil, ""
}

func firstNonEmptyRead(chunks [][]byte, eofLast bool, pattern []int) ([]byte, int, bool) {
	s := newScripted(chunks, eofLast)
	for i := 0; i < 2*len(chunks)+8; i++ {
		buf := make([]byte, pattern[i%len(pattern)])
		n, err := s.Read(buf)
		if n > 0 {
			return buf[:n], i, true
		}
		if err != nil {
			return nil, i, false
		}
	}
	return nil, 0, false
}

func drainStream(e encoding.Encoding, chunks [][]byte, eofLast bool) []byte {
	r := transform.NewReader(newScripted(chunks, eofLast), e.NewDecoder())
	b, _ := io.ReadAll(r)
	return b
}

// refTakes replays the caller's size pattern (from call index `from`) on a fresh transform.Reader fed
// with the same network chunks: the hand-out schedule of x/text's reader.
func refTakes(e encoding.Encoding, src io.Reader, pattern []int, from, maxCalls int) [][2]int {
	r := transform.NewReader(src, e.NewDecoder())
	var out [][2]int
	for i := from; i < from+maxCalls; i++ {
		buf := make([]byte, pattern[i%len(pattern)])
		n, err := r.Read(buf)
		fl := 0
		if err == io.EOF {
			fl = 1
		}
		out = append(out, [2]int{n, fl})
		if err != nil {
			break
		}
	}
	return out
}

func buildTables(u *unitCase) *tables {
	t := &tables{Stream: map[string][]byte{}, All: map[string][]byte{}, Partial: map[string][]byte{}, encs: map[string]encoding.Encoding{}}
	chunks := u.delivered()
	src := func(cs [][]byte) *scripted { // the network as the model sees it: these chunks, then EOF or the failure
		s := newScripted(cs, u.EOFLast)
		if u.FailAt >= 0 {
			s.failAfter = len(cs)
		}
		return s
	}
	_, params, err := mime.ParseMediaType(u.Doc.CT)
	switch {
	case err != nil:
		t.ParseKind = "err"
	default:
		if v, ok := params["charset"]; ok {
			t.ParseKind, t.ParseVal = "charset", v
		} else {
			t.ParseKind = "none"
		}
	}
	whole := bytes.Join(chunks, nil)
	add := func(name string, e encoding.Encoding) {
		if _, ok := t.encs[name]; ok {
			return
		}
		t.encs[name] = e
		if u.FailAt >= 0 {
			b, _ := io.ReadAll(transform.NewReader(src(chunks), e.NewDecoder()))
			t.Partial[name] = b
			full, _ := e.NewDecoder().Bytes(u.Doc.Body)
			t.All[name] = full // of the COMPLETE body: the partial output must be a prefix of it
			return
		}
		t.Stream[name] = drainStream(e, chunks, u.EOFLast)
		d, _ := e.NewDecoder().Bytes(whole)
		t.All[name] = d
	}
	if t.ParseKind == "charset" {
		t.LookupIn = strings.ToLower(t.ParseVal)
		if e, name := lookupLikeTransport(t.LookupIn); e != nil {
			t.LookupOut = name
			add(name, e)
			t.Takes = refTakes(e, src(chunks), u.Pattern, 0, maxCallsFor(u))
		}
	}
	if b, idx, ok := firstNonEmptyRead(chunks, u.EOFLast, u.Pattern); ok {
		t.FindHas, t.FindIn = true, b
		if !bytes.HasPrefix(whole, b) {
			panic("harness: first non-empty read is not a prefix of the body")
		}
		marks, labels := charsets.VerifBOMs()
		for i, mk := range marks {
			if bytes.HasPrefix(b, mk) {
				e, name := htmlcharset.Lookup(labels[i])
				if e == nil {
					name = ""
				} else {
					add(name, e)
				}
				t.BomLookups = append(t.BomLookups, [2]string{labels[i], name})
			}
		}
		if e, name := charsets.VerifPrescan(b); e != nil {
			t.Prescan = name
			add(name, e)
		}
		if e, name := charsets.FindEncoding(b); e != nil {
			t.FindOut = name
			add(name, e)
			if t.ParseKind != "charset" {
				// the sniffing reader creates its stream decoder at call idx, over the whole body
				// (everything before that call was an empty read)
				rest := chunks
				for len(rest) > 0 && len(rest[0]) == 0 {
					rest = rest[1:]
				}
				// the first read (possibly a prefix of the first chunk) is fed on its own, then the
				// network continues where it stopped
				var after [][]byte
				if len(rest) > 0 {
					if len(b) < len(rest[0]) {
						after = append(after, rest[0][len(b):])
					}
					after = append(after, rest[1:]...)
				}
				t.Takes = refTakes(e, io.MultiReader(bytes.NewReader(b), src(after)), u.Pattern, idx, maxCallsFor(u))
			}
		}
	}
	return t
}
