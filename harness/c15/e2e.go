package main

// End to end: the real client (HTTP/1.1 over a raw TCP origin with scripted segmentation and three
// framings; HTTP/2 and HTTP/3 over net/http / quic-go origins flushing segment by segment) reads the
// body through Transport.RoundTrip.  A recording wrapper installed UNDERNEATH the charset decoder
// (verif hook VerifWithBodyWrap, the transport's own wrapResponseBody mechanism) captures the network
// reads as they really happened; those are what the Coq model is fed with.

import (
	"bufio"
	"bytes"
	"compress/flate"
	"compress/gzip"
	"os"
	"path/filepath"
	"context"
	"crypto/tls"
	"fmt"
	"io"
	"net"
	"net/http"
	"net/http/httptest"
	"strconv"
	"strings"
	"sync"
	"time"

	req "github.com/imroc/req/v3"
	"github.com/andybalholm/brotli"
	"github.com/imroc/req/v3/internal/testcert"
	"github.com/klauspost/compress/zstd"
	qh3 "github.com/quic-go/quic-go/http3"

	"github.com/imroc/req/v3/verifharness/hk"
)

type e2eScript struct {
	ct      string
	respAE  string
	respCE  string
	coding  string // the segments are the document compressed with this coding; Content-Encoding: <coding>
	status  int    // 0 = 200
	location string
	setCL   bool // net/http origins (h2, h3): declare Content-Length
	segs    [][]byte
	framing string // cl | chunked | close   (raw h1 origin)
	gap     time.Duration
}

type e2eOrigins struct {
	mu      sync.Mutex
	scripts map[int]*e2eScript
	next    int
	raw     net.Listener
	h2      *httptest.Server
	h3      *qh3.Server
	h3addr  string
}

var theOrigins *e2eOrigins
var dlDir string
var e2eClients = map[string]*req.Client{}

func startE2E() (*e2eOrigins, error) {
	o := &e2eOrigins{scripts: map[int]*e2eScript{}}
	l, err := net.Listen("tcp", "127.0.0.1:0")
	if err != nil {
		return nil, err
	}
	o.raw = l
	go func() {
		for {
			c, err := l.Accept()
			if err != nil {
				return
			}
			go o.serveRaw(c)
		}
	}()
	hf := http.HandlerFunc(o.handler)
	o.h2 = httptest.NewUnstartedServer(hf)
	o.h2.EnableHTTP2 = true
	o.h2.StartTLS()
	cert, err := tls.X509KeyPair(testcert.LocalhostCert, testcert.LocalhostKey)
	if err != nil {
		return nil, err
	}
	pc, err := net.ListenPacket("udp", "127.0.0.1:0")
	if err != nil {
		return nil, err
	}
	o.h3 = &qh3.Server{TLSConfig: qh3.ConfigureTLSConfig(&tls.Config{Certificates: []tls.Certificate{cert}}), Handler: hf}
	go o.h3.Serve(pc)
	o.h3addr = pc.LocalAddr().String()
	return o, nil
}

func (o *e2eOrigins) close() {
	o.raw.Close()
	o.h2.Close()
	o.h3.Close()
}

func (o *e2eOrigins) add(s *e2eScript) int {
	o.mu.Lock()
	defer o.mu.Unlock()
	o.next++
	o.scripts[o.next] = s
	return o.next
}

func (o *e2eOrigins) get(path string) *e2eScript {
	i := strings.LastIndex(path, "/")
	id, _ := strconv.Atoi(path[i+1:])
	o.mu.Lock()
	defer o.mu.Unlock()
	return o.scripts[id]
}

// net/http handler (h2, h3): one Write + Flush per segment
func (o *e2eOrigins) handler(w http.ResponseWriter, r *http.Request) {
	s := o.get(r.URL.Path)
	if s == nil {
		w.WriteHeader(404)
		return
	}
	if s.ct != "" {
		w.Header().Set("Content-Type", s.ct)
	} else {
		w.Header()["Content-Type"] = nil
	}
	if s.respAE != "" {
		w.Header().Set("Accept-Encoding", s.respAE)
	}
	if s.respCE != "" {
		w.Header().Set("Content-Encoding", s.respCE)
	}
	if s.coding != "" {
		w.Header().Set("Content-Encoding", s.coding)
	}
	if s.location != "" {
		w.Header().Set("Location", s.location)
	}
	if s.setCL {
		total := 0
		for _, seg := range s.segs {
			total += len(seg)
		}
		w.Header().Set("Content-Length", strconv.Itoa(total))
	}
	if s.status != 0 {
		w.WriteHeader(s.status)
	} else {
		w.WriteHeader(200)
	}
	f, _ := w.(http.Flusher)
	for _, seg := range s.segs {
		w.Write(seg)
		if f != nil {
			f.Flush()
		}
		time.Sleep(s.gap)
	}
}

// raw HTTP/1.1 origin: scripted TCP segmentation
func (o *e2eOrigins) serveRaw(c net.Conn) {
	defer c.Close()
	c.SetDeadline(time.Now().Add(30 * time.Second))
	br := bufio.NewReader(c)
	line, err := br.ReadString('\n')
	if err != nil {
		return
	}
	for {
		l, err := br.ReadString('\n')
		if err != nil {
			return
		}
		if l == "\r\n" || l == "\n" {
			break
		}
	}
	parts := strings.Fields(line)
	if len(parts) < 2 {
		return
	}
	s := o.get(parts[1])
	if s == nil {
		io.WriteString(c, "HTTP/1.1 404 Not Found\r\nContent-Length: 0\r\nConnection: close\r\n\r\n")
		return
	}
	total := 0
	for _, seg := range s.segs {
		total += len(seg)
	}
	head := "HTTP/1.1 200 OK\r\n"
	if s.status != 0 {
		head = fmt.Sprintf("HTTP/1.1 %d %s\r\n", s.status, http.StatusText(s.status))
	}
	if s.ct != "" {
		head += "Content-Type: " + s.ct + "\r\n"
	}
	if s.respAE != "" {
		head += "Accept-Encoding: " + s.respAE + "\r\n"
	}
	if s.respCE != "" {
		head += "Content-Encoding: " + s.respCE + "\r\n"
	}
	if s.coding != "" {
		head += "Content-Encoding: " + s.coding + "\r\n"
	}
	if s.location != "" {
		head += "Location: " + s.location + "\r\n"
	}
	switch s.framing {
	case "cl":
		head += fmt.Sprintf("Content-Length: %d\r\n", total)
	case "chunked":
		head += "Transfer-Encoding: chunked\r\n"
	}
	head += "Connection: close\r\n\r\n"
	if _, err := io.WriteString(c, head); err != nil {
		return
	}
	time.Sleep(s.gap)
	for _, seg := range s.segs {
		var w []byte
		if s.framing == "chunked" {
			if len(seg) == 0 {
				continue // a zero-length chunk would end the body
			}
			w = append([]byte(fmt.Sprintf("%x\r\n", len(seg))), seg...)
			w = append(w, '\r', '\n')
		} else {
			w = seg
		}
		if len(w) > 0 {
			if _, err := c.Write(w); err != nil {
				return
			}
		}
		time.Sleep(s.gap)
	}
	if s.framing == "chunked" {
		io.WriteString(c, "0\r\n\r\n")
	}
}

// ---------- client side ----------

// plainWriter hides bytes.Buffer's ReadFrom so that io.Copy uses its own 32 KiB buffer
type plainWriter struct{ b *bytes.Buffer }

func (p plainWriter) Write(x []byte) (int, error) { return p.b.Write(x) }

type netRead struct {
	b   []byte
	err string
}

type recorder struct {
	io.ReadCloser
	mu    sync.Mutex
	reads []netRead
}

func (r *recorder) Read(p []byte) (int, error) {
	n, err := r.ReadCloser.Read(p)
	r.mu.Lock()
	r.reads = append(r.reads, netRead{append([]byte(nil), p[:n]...), errClass(err)})
	r.mu.Unlock()
	return n, err
}

// a transport middleware of a very common shape: it puts its own reader around the response body
type countingBody struct {
	io.ReadCloser
	n int64
}

func (b *countingBody) Read(p []byte) (int, error) {
	n, err := b.ReadCloser.Read(p)
	b.n += int64(n)
	return n, err
}

// mw: "" (no transport middleware) | pass (middleware that leaves the response alone) | wrap (middleware
// that re-wraps resp.Body); clone: the client used is a Clone() of the configured one
func e2eClient(stack string, set settings, mw string, clone, autoDecompress, noRedirect bool) *req.Client {
	k := fmt.Sprintf("%s|%s|%s|%v|%v|%v", stack[:2], set.name(), mw, clone, autoDecompress, noRedirect)
	if c, ok := e2eClients[k]; ok {
		return c
	}
	c := req.C().EnableInsecureSkipVerify().SetTimeout(30 * time.Second)
	switch stack[:2] {
	case "h1":
		c.EnableForceHTTP1()
	case "h2":
		c.EnableForceHTTP2()
	case "h3":
		c.EnableForceHTTP3()
	}
	if set.Disable {
		c.DisableAutoDecode()
	}
	switch set.Sel {
	case "list":
		c.SetAutoDecodeContentType(set.List...)
	case "all":
		c.SetAutoDecodeAllContentType()
	case "fn":
		ans := set.FnAns
		c.SetAutoDecodeContentTypeFunc(func(string) bool { return ans })
	}
	if autoDecompress {
		c.EnableAutoDecompress()
	}
	if noRedirect {
		c.SetRedirectPolicy(req.NoRedirectPolicy())
	}
	if mw != "" {
		wrap := mw == "wrap"
		c.GetTransport().WrapRoundTripFunc(func(rt http.RoundTripper) req.HttpRoundTripFunc {
			return func(r *http.Request) (*http.Response, error) {
				resp, err := rt.RoundTrip(r)
				if err == nil && wrap && resp.Body != nil {
					resp.Body = &countingBody{ReadCloser: resp.Body}
				}
				return resp, err
			}
		})
	}
	if clone {
		c = c.Clone()
	}
	e2eClients[k] = c
	return c
}

func (o *e2eOrigins) url(stack string, id int) string {
	switch stack[:2] {
	case "h1":
		return fmt.Sprintf("http://%s/d/%d", o.raw.Addr().String(), id)
	case "h2":
		return fmt.Sprintf("%s/d/%d", o.h2.URL, id)
	}
	return fmt.Sprintf("https://%s/d/%d", o.h3addr, id)
}

// driveE2E: u.Chunks are the segments the origin writes; on return o.NetSeen are the reads the decoder saw.
func driveE2E(u *unitCase) (o obs) {
	if theOrigins == nil {
		return obs{Fatal: "origins not started"}
	}
	framing := "cl"
	if i := strings.Index(u.Stack, "-"); i > 0 {
		framing = u.Stack[i+1:]
	}
	id := theOrigins.add(&e2eScript{ct: u.Doc.CT, respAE: u.Set.RespAE, respCE: u.Set.RespCE, coding: u.Coding, status: u.Status, location: u.Location, setCL: u.SetCL, segs: u.Chunks, framing: framing, gap: time.Duration(u.GapMS) * time.Millisecond})
	done := make(chan obs, 1)
	go func() {
		var o obs
		defer func() {
			if e := recover(); e != nil {
				o.Fatal = fmt.Sprintf("panic: %v", e)
			}
			done <- o
		}()
		var rec *recorder
		ctx := req.VerifWithBodyWrap(context.Background(), func(rc io.ReadCloser) io.ReadCloser {
			rec = &recorder{ReadCloser: rc}
			return rec
		})
		cl := e2eClient(u.Stack, u.Set, u.Middleware, u.CloneClient, u.AutoDecompress, u.NoRedirect)
		url := theOrigins.url(u.Stack, id)
		if u.HighLevel {
			// the public API: Client.R().Get + Response.Bytes() (io.ReadAll on the decoded body)
			// ... or the download path (middleware handleDownload: io.Copy into the caller's writer -
			// bytes.Buffer.ReadFrom fills consecutive regions of its array, a plain writer gets io.Copy's
			// 32 KiB buffer)
			rq := cl.R().SetContext(ctx)
			if u.CallerAE != "" {
				rq.SetHeader("Accept-Encoding", u.CallerAE)
			}
			var buf bytes.Buffer
			file := ""
			switch u.HLMode {
			case "buffer":
				rq.SetOutput(&buf)
			case "buffer-callback": // the download callback's wrapper is installed by handleResponseBody below the decoder
				rq.SetOutput(&buf).SetDownloadCallbackWithInterval(func(req.DownloadInfo) {}, time.Millisecond)
			case "writer":
				rq.SetOutput(plainWriter{&buf})
			case "file": // SetOutputFile: os.Create + io.Copy (*os.File.ReadFrom -> generic copy, 32 KiB buffer)
				file = filepath.Join(dlDir, fmt.Sprintf("dl-%d.bin", id))
				rq.SetOutputFile(file)
			}
			resp, err := rq.Get(url)
			if err != nil {
				o.Fatal = "request failed: " + err.Error()
				return
			}
			o.Kind = "highlevel"
			switch u.HLMode {
			case "buffer", "writer", "buffer-callback":
				o.Out = buf.Bytes()
			case "file":
				b, err := os.ReadFile(file)
				os.Remove(file)
				if err != nil {
					o.Fatal = "output file: " + err.Error()
					return
				}
				o.Out = b
			case "string": // Response.String()
				o.Out = []byte(resp.String())
			case "into": // Response.Into(&v): the body is one JSON string literal
				var s string
				if err := resp.Into(&s); err != nil {
					o.Fatal = "Response.Into failed on the delivered body: " + err.Error()
					o.Out = resp.Bytes()
					return
				}
				o.Out = []byte(`"` + s + `"`)
			default:
				o.Out = resp.Bytes()
			}
			o.EndErr = "EOF"
		} else {
			hr, _ := http.NewRequestWithContext(ctx, "GET", url, nil)
			if u.CallerAE != "" {
				hr.Header.Set("Accept-Encoding", u.CallerAE)
			}
			res, err := cl.GetTransport().RoundTrip(hr)
			if err != nil {
				o.Fatal = "round trip failed: " + err.Error()
				return
			}
			if res.Body == nil {
				o.Fatal = "nil Body"
				return
			}
			o.Kind, _, _, _, _ = req.VerifAutoDecodeState(res.Body)
			readLoop(res.Body, u.Pattern, u.BufMode, 3*len(u.Doc.Body)+2*len(u.Chunks)+200, &o)
			res.Body.Close()
		}
		if rec == nil && u.HLMode == "buffer-callback" {
			return // the download callback took the body-wrapper slot; nothing is recorded (Go oracle only)
		}
		if rec == nil {
			o.Fatal = "body wrapper was not installed"
			return
		}
		rec.mu.Lock()
		defer rec.mu.Unlock()
		sawEOF := false
		for _, r := range rec.reads {
			if r.err == "other" {
				o.Fatal = "network read error underneath the decoder"
				return
			}
			o.NetSeen = append(o.NetSeen, r.b)
			if r.err == "EOF" {
				sawEOF = true
				o.NetEOFLast = len(r.b) > 0
				if len(r.b) == 0 {
					o.NetSeen = o.NetSeen[:len(o.NetSeen)-1]
				}
				break
			}
		}
		if !sawEOF && o.Fatal == "" {
			o.Sanity = "the reading finished without reading the network to EOF"
		}
	}()
	select {
	case o = <-done:
	case <-time.After(60 * time.Second):
		o.Fatal = "hang (60 s watchdog)"
	}
	o.NCalls, o.OutLen = len(o.Calls), len(o.Out)
	return o
}

// bigBodies: bodies around and beyond 64 KiB with a declared Content-Length, read through the public API
// (auto-read / ToBytes / String) and through Body.Read: transcoding changes the length, whatever reads the
// body must read it to io.EOF, not to the declared length
func (w *world) bigBodies() {
	rnd := w.rnd
	n := w.r.Scale(14, 120)
	names := []string{"gbk", "big5", "shift_jis", "utf-16le", "windows-1251", "iso-8859-1", "euc-kr", "gb18030"}
	for i := 0; i < n; i++ {
		cs := specByName(names[i%len(names)])
		s := hk.Pick(rnd, []site{siteHeader, siteHeader, siteMeta})
		if cs.UTF16 {
			s = hk.Pick(rnd, []site{siteHeader, siteBOM})
		}
		d, ok := makeDoc(rnd, s, cs, hk.Pick(rnd, []int{65535, 65536, 65537, 66000, 98304, 131072}))
		if !ok {
			continue
		}
		segs := splitAt(d.Body, []int{rnd.Intn(len(d.Body) + 1)})
		stack := []string{"h1-cl", "h2", "h3", "h1-cl", "h1-chunked"}[i%5]
		hl := []string{"bytes", "string", "", "bytes", "buffer"}[(i/2)%5]
		u := &unitCase{Kind: "e2e", Doc: d, Set: defaultSet, Chunks: segs, Pattern: []int{hk.Pick(rnd, []int{4096, 32768})},
			BufMode: "zero", FailAt: -1, Stack: stack, GapMS: 2, HighLevel: hl != "", HLMode: hl, SetCL: true,
			Middleware: []string{"", "wrap"}[i%2]}
		w.r.Count("e2e:big-body")
		w.eval(u, false)
	}
}

func compressWith(coding string, p []byte) []byte {
	var b bytes.Buffer
	switch coding {
	case "gzip":
		w := gzip.NewWriter(&b)
		w.Write(p)
		w.Close()
	case "deflate": // the raw RFC 1951 stream, which is what the transport reads
		w, _ := flate.NewWriter(&b, flate.DefaultCompression)
		w.Write(p)
		w.Close()
	case "br":
		w := brotli.NewWriter(&b)
		w.Write(p)
		w.Close()
	case "zstd":
		w, _ := zstd.NewWriter(&b)
		w.Write(p)
		w.Close()
	}
	return b.Bytes()
}

// statusAndCodingCells: (a) the response status and a Location header say nothing about the text: a
// redirect that is NOT followed (Transport.RoundTrip used directly, NoRedirectPolicy) hands its page to
// the caller like any other response; (b) protocol x content coding x AutoDecompression: whenever the
// transport decompresses, the charset stage runs on the decompressed text - on every stack; whenever it
// does not, the still-encoded bytes are left alone.
func (w *world) statusAndCodingCells() {
	rnd := w.rnd
	names := []string{"gbk", "big5", "shift_jis", "windows-1251", "euc-kr", "iso-8859-2"}
	stacks := []string{"h1-cl", "h1-chunked", "h2", "h3"}
	statuses := []int{301, 302, 303, 307, 308, 300, 201, 404, 500, 200}
	n := w.r.Scale(40, 400)
	for i := 0; i < n; i++ {
		cs := specByName(names[i%len(names)])
		d, ok := makeDoc(rnd, hk.Pick(rnd, []site{siteHeader, siteHeader, siteMeta, siteConflict}), cs, hk.Pick(rnd, []int{60, 300, 1500}))
		if !ok {
			continue
		}
		st := statuses[i%len(statuses)]
		loc := ""
		if st/100 == 3 || st == 201 || rnd.Intn(5) == 0 {
			loc = "/elsewhere"
		}
		hlm := hk.Pick(rnd, []string{"", "", "bytes", "string"})
		u := &unitCase{Kind: "e2e", Doc: d, Set: defaultSet, Chunks: splitAt(d.Body, []int{rnd.Intn(len(d.Body) + 1)}), Pattern: []int{hk.Pick(rnd, []int{7, 512, 4096})},
			BufMode: "zero", FailAt: -1, Stack: hk.Pick(rnd, stacks), GapMS: 3, HighLevel: hlm != "", HLMode: hlm, Status: st, Location: loc, NoRedirect: hlm != ""}
		w.r.Count(fmt.Sprintf("e2e:status-%dxx", st/100))
		w.eval(u, len(d.Body) <= 600)
	}
	m := w.r.Scale(96, 800)
	codings := []string{"gzip", "deflate", "br", "zstd"}
	for i := 0; i < m; i++ {
		cs := specByName(names[i%len(names)])
		d, ok := makeDoc(rnd, hk.Pick(rnd, []site{siteHeader, siteHeader, siteMeta}), cs, hk.Pick(rnd, []int{120, 600, 5000}))
		if !ok {
			continue
		}
		coding := codings[i%len(codings)]
		auto := rnd.Intn(3) != 0 // two in three with EnableAutoDecompress
		callerAE := ""
		if rnd.Intn(3) == 0 {
			callerAE = coding // the caller asks for the coding itself: no transparent gzip
		}
		decompressed := (coding == "gzip" && callerAE == "") || auto
		z := compressWith(coding, d.Body)
		u := &unitCase{Kind: "e2e", Set: defaultSet, Pattern: []int{hk.Pick(rnd, []int{512, 4096, 32768})}, BufMode: "zero", FailAt: -1,
			Stack: hk.Pick(rnd, stacks), GapMS: 3, AutoDecompress: auto, CallerAE: callerAE}
		if hlm := hk.Pick(rnd, []string{"", "bytes", "string"}); hlm != "" {
			u.HighLevel, u.HLMode = true, hlm
		}
		if decompressed {
			u.Doc, u.Coding = d, coding
			w.r.Count("e2e:coding-decompressed-" + coding + "-" + u.Stack[:2])
		} else {
			// nobody decompresses: Content-Encoding stays on the response, the bytes are not text yet
			zd := *d
			zd.Body, zd.BodyLen, zd.Declared = z, len(z), nil
			u.Doc = &zd
			u.Set = settings{Sel: "default", RespCE: coding}
			w.r.Count("e2e:coding-left-" + coding + "-" + u.Stack[:2])
		}
		u.Chunks = splitAt(z, []int{rnd.Intn(len(z) + 1)})
		w.eval(u, false)
	}
}

var e2eStacks = []string{"h1-cl", "h1-chunked", "h1-close", "h2", "h3"}

func (w *world) endToEnd() {
	o, err := startE2E()
	if err != nil {
		w.r.Notes = append(w.r.Notes, "e2e origins could not be started: "+err.Error())
		w.r.Fail(hk.Failure{Sig: "harness:e2e-origins", What: "could not start the local origins: " + err.Error()})
		return
	}
	theOrigins = o
	defer o.close()
	dlDir = filepath.Join(w.r.OutDir, "downloads")
	os.MkdirAll(dlDir, 0o755)
	defer os.RemoveAll(dlDir)
	w.bigBodies()
	w.statusAndCodingCells()
	rnd := w.rnd
	n := w.r.Scale(170, 1500)
	sets := []settings{defaultSet, defaultSet, defaultSet, {Sel: "all"}, {Sel: "default", Disable: true}, {Sel: "list", List: []string{"html"}}, {Sel: "default", RespAE: "gzip"}, {Sel: "default", RespCE: "x-custom"}}
	for i := 0; i < n; i++ {
		cs := &charsetTable[i%len(charsetTable)]
		s := hk.Pick(rnd, []site{siteHeader, siteMeta, siteHTTPEquiv, siteNone, siteConflict, siteLateMeta, siteHdrUTF8, siteTextFirst, siteNoDecl, sitePragmaThenMeta})
		if cs.UTF16 {
			s = hk.Pick(rnd, []site{siteHeader, siteBOM})
		}
		if cs.UTF8 {
			s = hk.Pick(rnd, []site{siteBOM, siteNone, siteMeta})
		}
		d, ok := makeDoc(rnd, s, cs, hk.Pick(rnd, []int{25, 60, 120, 300, 511, 512, 513, 1024, 1500, 4097}))
		if !ok {
			continue
		}
		if i%9 == 0 {
			d.CT = hk.Pick(rnd, []string{"image/png", "application/octet-stream"})
			if d.HdrCS != "" {
				d.CT += "; charset=" + d.HdrCS
			}
		}
		io := interestingOffsets(d)
		var segs [][]byte
		switch rnd.Intn(4) {
		case 0:
			segs = [][]byte{d.Body}
		case 1, 2:
			segs = splitAt(d.Body, []int{hk.Pick(rnd, io)})
		default:
			segs = splitAt(d.Body, []int{hk.Pick(rnd, io), hk.Pick(rnd, io) + rnd.Intn(9)})
		}
		gz := i%7 == 3 && sets[i%len(sets)].RespCE == ""
		if gz {
			// the origin serves the document gzip-compressed; the transport decompresses (and removes
			// Content-Encoding), THEN the charset stage runs on the decompressed text
			var zb bytes.Buffer
			zw := gzip.NewWriter(&zb)
			zw.Write(d.Body)
			zw.Close()
			z := zb.Bytes()
			segs = splitAt(z, []int{rnd.Intn(len(z) + 1), rnd.Intn(len(z) + 1)})
			if len(segs[1]) == 0 || len(segs[0]) > len(z) {
				segs = [][]byte{z}
			}
		}
		hl := hk.Pick(rnd, []string{"bytes", "buffer", "writer", "string", "into", "file", "buffer-callback", "buffer-callback"})
		if st := sets[i%len(sets)]; hl == "into" && (gz || st.Disable || st.RespCE != "" || st.Sel != "default") {
			hl = "string" // Into on an undecoded body would go through encoding/json's own U+FFFD substitution
		}
		if i%3 == 2 && hl == "into" {
			// a JSON document consisting of one string literal, charset in Content-Type
			text := hk.Pick(rnd, cs.Texts)
			if b, ok := cs.encodeText(`"` + text + text + `"`); ok && !cs.UTF16 && !cs.UTF8 && cs.Name != "iso-2022-jp" {
				d = &doc{Site: siteHeader, Charset: cs.Name, CT: "application/json; charset=" + cs.Name, HdrCS: cs.Name, Body: b, BodyLen: len(b)}
				segs = splitAt(d.Body, []int{rnd.Intn(len(b) + 1)})
			} else {
				hl = "string"
			}
		}
		u := &unitCase{Kind: "e2e", Doc: d, Set: sets[i%len(sets)], Chunks: segs, Pattern: hk.Pick(rnd, sizePatterns[3:]),
			BufMode: hk.Pick(rnd, []string{"zero", "stale-meta", "reuse"}), FailAt: -1, Stack: e2eStacks[i%len(e2eStacks)], GapMS: 6, HighLevel: i%3 == 2, HLMode: hl, Coding: map[bool]string{true: "gzip", false: ""}[gz],
			Middleware: hk.Pick(rnd, []string{"", "", "wrap", "pass", "wrap"}), CloneClient: rnd.Intn(3) == 0}
		w.eval(u, len(d.Body) <= 1600)
	}
}
