package main

func driveE2E(u *unitCase) obs { return obs{Fatal: "e2e not implemented"} }

func (w *world) endToEnd() {}
