package main

import (
	"os"
	"sort"
	"strings"

	"github.com/imroc/req/v3/verifharness/hk"
)

var defaultSet = settings{Sel: "default"}

func (w *world) unit(d *doc, set settings, chunks [][]byte, eofLast bool, pat []int, mode string, toCoq bool) string {
	u := &unitCase{Kind: "unit", Doc: d, Set: set, Chunks: chunks, EOFLast: eofLast, Pattern: pat, BufMode: mode, FailAt: -1}
	c, _ := w.eval(u, toCoq)
	return c
}

// interesting split offsets of a document: around the end of the declaration / start of the text,
// the first multi-byte character, 512 / 1024 / 4096, the last bytes
func interestingOffsets(d *doc) []int {
	L := len(d.Body)
	set := map[int]bool{}
	add := func(x int) {
		if x >= 0 && x <= L {
			set[x] = true
		}
	}
	for _, c := range []int{0, 1, 2, 3, 4, d.TextStart, 511, 512, 513, 1023, 1024, 1025, 4095, 4096, 4097, L} {
		for dlt := -2; dlt <= 3; dlt++ {
			add(c + dlt)
		}
	}
	for i, b := range d.Body { // first non-ASCII byte
		if b >= 0x80 {
			for dlt := -1; dlt <= 4; dlt++ {
				add(i + dlt)
			}
			break
		}
	}
	var out []int
	for k := range set {
		out = append(out, k)
	}
	sort.Ints(out)
	return out
}

// exhaust runs, for one document, every 2-split (or a sample of them for long bodies) with every
// caller buffer size; the Go oracle judges all of them, a sample goes to the Coq model.
func (w *world) exhaust(d *doc, set settings, coqSamples int) {
	r := w.rnd
	L := len(d.Body)
	var offs []int
	maxAll := w.r.Scale(700, 3000)
	if L <= maxAll {
		for i := 0; i <= L; i++ {
			offs = append(offs, i)
		}
	} else {
		offs = interestingOffsets(d)
		for i := 0; i < w.r.Scale(40, 400); i++ {
			offs = append(offs, r.Intn(L+1))
		}
	}
	bufs := callerBufs
	if L > 4096 {
		bufs = append(append([]int(nil), callerBufs...), bigBufs...)
	}
	for _, o := range offs {
		for _, k := range bufs {
			if k <= 3 && L > w.r.Scale(300, 1500) && r.Intn(8) != 0 {
				continue
			}
			mode := "zero"
			if k >= 512 {
				mode = hk.Pick(r, []string{"zero", "stale-meta", "aa", "reuse", "fill"})
			}
			w.unit(d, set, splitAt(d.Body, []int{o}), r.Bool(), []int{k}, mode, false)
		}
	}
	// Coq-emitted sample: 2-splits at interesting offsets, k-splits, size patterns (long bodies are
	// expensive to parse in Coq: only a fixed number of them per run)
	if L > 700 {
		if w.bigLeft <= 0 {
			return
		}
		coqSamples = 2
		w.bigLeft -= coqSamples
	}
	io := interestingOffsets(d)
	for i := 0; i < coqSamples; i++ {
		var chunks [][]byte
		switch r.Intn(5) {
		case 0:
			chunks = [][]byte{d.Body}
		case 1, 2:
			chunks = splitAt(d.Body, []int{hk.Pick(r, io)})
		case 3:
			chunks = randomSplit(r, d.Body, r.Range(2, 5))
		default:
			chunks = splitAt(d.Body, []int{hk.Pick(r, io), hk.Pick(r, io) + r.Intn(8)})
		}
		pat := hk.Pick(r, sizePatterns)
		if L > 200 && pat[0] <= 3 && len(pat) == 1 && r.Intn(6) != 0 {
			pat = []int{hk.Pick(r, []int{7, 512, 4096})}
		}
		if L > 1600 && pat[0] <= 7 && len(pat) == 1 {
			pat = []int{512}
		}
		w.unit(d, set, chunks, r.Bool(), pat, hk.Pick(r, []string{"zero", "stale-meta", "aa", "reuse", "fill"}), true)
	}
}

var sitesFor = []site{siteHeader, siteMeta, siteHTTPEquiv, siteNone, siteConflict, siteTwoMeta, siteLateMeta, siteHdrUnk, siteHdrUTF8, siteTextFirst, siteNoDecl, sitePragmaThenMeta}

func runC15(r *hk.Run) {
	r.Header = "From ReqV Require Import Model.C15Run.\nImport ListNotations."
	r.CaseType = "c15_case"
	r.CheckFn = "c15_check"
	r.ShardSize = 60
	r.Rule = "non-trivial = the body contains a non-ASCII byte AND (a charset other than 'nothing' is in play: declared in Content-Type, by BOM or by meta, or the response is not selected for decoding although it declares one)"
	w := &world{r: r, rnd: hk.NewRand(r.Seed), coqCap: r.Scale(6<<20, 24<<20), bigLeft: r.Scale(24, 200)}
	rnd := w.rnd

	// A. the three shapes found at design time, always present
	if gbk := specByName("gbk"); gbk != nil {
		d, _ := makeDoc(hk.NewRand(7), siteMeta, gbk, 25)
		w.unit(d, defaultSet, [][]byte{d.Body}, false, []int{512}, "zero", true)
		w.unit(d, defaultSet, [][]byte{d.Body}, true, []int{4096}, "aa", true)
		d2, _ := makeDoc(hk.NewRand(8), siteMeta, gbk, 120)
		for i := d2.TextStart; i < d2.TextStart+12 && i < len(d2.Body); i++ {
			w.unit(d2, defaultSet, splitAt(d2.Body, []int{i}), false, []int{512}, "zero", true)
		}
		u8 := specByName("utf-8")
		d3, _ := makeDoc(hk.NewRand(9), siteNone, u8, 90)
		w.unit(d3, defaultSet, [][]byte{d3.Body}, false, []int{512}, "stale-meta", true)
		w.unit(d3, defaultSet, splitAt(d3.Body, []int{40}), false, []int{512, 512}, "reuse", true)
	}

	// A1b. first network read larger than x/text's 4096-byte internal buffers, caller buffers beyond that
	if gbk := specByName("gbk"); gbk != nil {
		d, _ := makeDoc(hk.NewRand(11), siteMeta, gbk, 9000)
		for _, mode := range []string{"zero", "reuse", "fill"} {
			for _, pat := range [][]int{{8192}, {16384, 512}, {16384}} {
				w.unit(d, defaultSet, [][]byte{d.Body}, false, pat, mode, mode == "fill" && len(pat) == 1 && pat[0] == 16384)
				w.unit(d, defaultSet, splitAt(d.Body, []int{6001}), true, pat, mode, false)
			}
		}
	}

	// A1c. response headers next to Content-Type: Accept-Encoding on the response (RFC 9110 12.5.3, e.g.
	// a 415) does not concern the body - the declared charset must still be applied; Content-Encoding
	// still present = the body reaches the charset stage encoded - must be left alone
	if gbk := specByName("gbk"); gbk != nil {
		for i, s := range []site{siteHeader, siteMeta} {
			d, _ := makeDoc(hk.NewRand(uint64(30+i)), s, gbk, 120)
			for _, set := range []settings{{Sel: "default", RespAE: "gzip"}, {Sel: "default", RespAE: "gzip, br"}, {Sel: "default", RespCE: "x-custom"}, {Sel: "default", RespCE: "gzip", RespAE: "gzip"}} {
				w.unit(d, set, [][]byte{d.Body}, false, []int{512}, "zero", true)
				w.unit(d, set, splitAt(d.Body, []int{d.TextStart + 3}), true, []int{7, 4096}, "stale-meta", true)
			}
		}
	}

	// A1d. the response status and a Location header say nothing about the text (transport level)
	if gbk := specByName("gbk"); gbk != nil {
		for i, st := range []int{301, 302, 303, 307, 308, 300, 201, 404, 500} {
			d, _ := makeDoc(hk.NewRand(uint64(40+i)), []site{siteHeader, siteMeta}[i%2], gbk, 120)
			loc := ""
			if st/100 == 3 || i%3 == 0 {
				loc = "https://example.com/elsewhere"
			}
			for _, ch := range [][][]byte{{d.Body}, splitAt(d.Body, []int{d.TextStart + 3})} {
				u := &unitCase{Kind: "unit", Doc: d, Set: defaultSet, Chunks: ch, EOFLast: i%2 == 0, Pattern: []int{512}, BufMode: "zero", FailAt: -1, Status: st, Location: loc}
				w.eval(u, true)
			}
		}
	}

	// A2. selection is by case-sensitive substring on the whole Content-Type value: spellings outside
	// the configured selection must be left alone, whatever they declare
	for i, ct := range []string{"TEXT/HTML", "Text/Html; charset=gbk", "APPLICATION/JSON; charset=gbk", "TEXT/PLAIN; charset=big5", "application/octet-stream; charset=gbk", "image/svg; charset=gbk"} {
		gbk := specByName("gbk")
		s := siteMeta
		if i%2 == 1 {
			s = siteHeader
		}
		d, ok := makeDoc(hk.NewRand(uint64(20+i)), s, gbk, 120)
		if !ok {
			continue
		}
		d.CT = ct
		d.HdrCS = ""
		if j := strings.Index(ct, "charset="); j >= 0 {
			d.HdrCS = ct[j+len("charset="):]
		}
		for _, set := range []settings{defaultSet, {Sel: "list", List: []string{"html", "json"}}, {Sel: "list", List: []string{"octet"}}} {
			w.unit(d, set, [][]byte{d.Body}, false, []int{512}, "zero", true)
			w.unit(d, set, splitAt(d.Body, []int{d.TextStart + 3}), true, []int{7, 4096}, "stale-meta", true)
		}
	}

	// B. charsets x sites x lengths, every 2-split x caller buffers (oracle) + sampled Coq cases
	nDocs := r.Scale(150, 900)
	for i := 0; i < nDocs; i++ {
		cs := &charsetTable[i%len(charsetTable)]
		s := sitesFor[(i/len(charsetTable)+i)%len(sitesFor)]
		if cs.UTF8 && rnd.Chance(50) {
			s = hk.Pick(rnd, []site{siteBOM, siteNone, siteMeta, siteHeader})
		}
		if cs.UTF16 && (s == siteHdrUnk || s == siteHdrUTF8 || s == siteTwoMeta || s == siteLateMeta || s == siteTextFirst || s == siteNoDecl || s == sitePragmaThenMeta) {
			s = hk.Pick(rnd, []site{siteBOM, siteHeader})
		}
		target := hk.Pick(rnd, bodyTargets)
		if rnd.Chance(55) {
			target = hk.Pick(rnd, []int{25, 60, 120, 300})
		}
		d, ok := makeDoc(rnd, s, cs, target)
		if !ok {
			continue
		}
		w.exhaust(d, defaultSet, r.Scale(5, 12))
	}

	// C. settings and content types
	w.settingsCells()

	// C1b. every WHATWG label of every encoding as the Content-Type charset
	w.labelCells()

	// C2. charsets.FindEncoding against x/net's own WHATWG sniffing on many-meta documents
	w.findCells()

	// C3. several live responses on one transport, read interleaved
	w.interleaved()

	// C4. configuration programs over transports / clients related by Clone
	w.cloneCells()

	// D. network errors in mid-body (oracle only)
	w.netErrors()

	// E. end to end over TCP
	if os.Getenv("VERIF_C15_NO_E2E") == "" {
		w.endToEnd()
	}
	// small shards: a coqc process per ~40 cases stays well below 0.5 GB (the machine is shared)
	r.ShardSize = 40
}

var unselectedTypes = []string{"image/png", "application/octet-stream", "application/pdf", "TEXT/HTML", "", "video/mp4; charset=gbk", "application/x-www-form-urlencoded"}

func (w *world) settingsCells() {
	rnd := w.rnd
	sets := []settings{
		{Sel: "default", Disable: true},
		{Sel: "list", List: []string{"html"}},
		{Sel: "list", List: []string{"octet", "png"}},
		{Sel: "list", List: []string{"text/plain"}, Disable: true},
		{Sel: "all"},
		{Sel: "fn", FnAns: true},
		{Sel: "fn", FnAns: false},
		{Sel: "default", RespAE: "gzip"},
		{Sel: "all", RespAE: "identity"},
		{Sel: "default", RespCE: "x-custom"},
		{Sel: "all", RespCE: "gzip", RespAE: "br"},
	}
	n := w.r.Scale(60, 500)
	for i := 0; i < n; i++ {
		cs := hk.Pick(rnd, charsetTable[:len(charsetTable)-1])
		s := hk.Pick(rnd, []site{siteHeader, siteMeta, siteHTTPEquiv, siteConflict, siteNone})
		if cs.UTF16 {
			s = hk.Pick(rnd, []site{siteHeader, siteBOM})
		}
		d, ok := makeDoc(rnd, s, &cs, hk.Pick(rnd, []int{25, 60, 120, 300, 513, 1024}))
		if !ok {
			continue
		}
		set := sets[i%len(sets)]
		if i%3 == 0 { // content types outside / inside the selection
			ct := hk.Pick(rnd, unselectedTypes)
			switch {
			case ct == "video/mp4; charset=gbk":
				d.HdrCS = "gbk"
			case d.HdrCS != "" && ct != "" && rnd.Bool():
				ct += "; charset=" + d.HdrCS
			default:
				d.HdrCS = "" // declared in the body only, or not at all
			}
			d.CT = ct
			if i%2 == 0 {
				set = defaultSet
			}
		}
		io := interestingOffsets(d)
		for j := 0; j < 6; j++ {
			chunks := splitAt(d.Body, []int{hk.Pick(rnd, io)})
			if j == 0 {
				chunks = [][]byte{d.Body}
			}
			w.unit(d, set, chunks, rnd.Bool(), hk.Pick(rnd, sizePatterns[3:]), hk.Pick(rnd, []string{"zero", "stale-meta", "reuse"}), j < 3)
		}
	}
}

func (w *world) netErrors() {
	rnd := w.rnd
	n := w.r.Scale(120, 1200)
	for i := 0; i < n; i++ {
		cs := hk.Pick(rnd, charsetTable)
		s := hk.Pick(rnd, []site{siteHeader, siteMeta, siteNone})
		if cs.UTF16 {
			s = hk.Pick(rnd, []site{siteHeader, siteBOM})
		}
		d, ok := makeDoc(rnd, s, &cs, hk.Pick(rnd, []int{60, 300, 600, 1500}))
		if !ok {
			continue
		}
		chunks := randomSplit(rnd, d.Body, rnd.Range(1, 4))
		u := &unitCase{Kind: "unit", Doc: d, Set: defaultSet, Chunks: chunks, Pattern: hk.Pick(rnd, sizePatterns[3:]), BufMode: "stale-meta", FailAt: rnd.Intn(len(chunks))}
		w.eval(u, len(d.Body) <= 700)
	}
}
