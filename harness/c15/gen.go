package main

// Generators for C15: texts x charsets x declaration sites x body lengths x splits x caller buffers.
// The reference encodings used by the ORACLE come straight from golang.org/x/text (this table), never
// through the repository's lookup path (internal/charsets, x/net/html/charset.Lookup).

import (
	"bytes"
	"fmt"
	"strings"

	"golang.org/x/text/encoding"
	"golang.org/x/text/encoding/charmap"
	"golang.org/x/text/encoding/japanese"
	"golang.org/x/text/encoding/korean"
	"golang.org/x/text/encoding/simplifiedchinese"
	"golang.org/x/text/encoding/traditionalchinese"
	"golang.org/x/text/encoding/unicode"

	"github.com/imroc/req/v3/verifharness/hk"
)

type charsetSpec struct {
	Name  string // label used in declarations
	Ref   []encoding.Encoding
	Texts []string // suitable sample texts (must be encodable)
	Multi bool     // multi-byte (a character can be split across reads)
	UTF16 bool
	UTF8  bool
}

const (
	txtHan   = "我是roc，中文内容测试。编码转换不应丢失任何字节；汉字与ASCII混排abc123。"
	txtHanT  = "這是繁體中文內容測試，編碼轉換不應遺失任何位元組；漢字與ASCII混排abc123。"
	txtJa    = "これは日本語のテキストです。カタカナとひらがなと漢字、ASCII abc123 を含みます。"
	txtKo    = "이것은 한국어 텍스트입니다. 인코딩 변환은 바이트를 잃지 않아야 합니다 abc123."
	txtCyr   = "Это русский текст для проверки перекодировки: ни один байт не должен потеряться abc123."
	txtGreek = "Αυτό είναι ελληνικό κείμενο για τον έλεγχο της μετατροπής abc123."
	txtLatin = "Voilà un texte accentué: été, naïve, façade, Ångström, ñandú, Straße, über abc123."
	txtCE    = "Příliš žluťoučký kůň úpěl ďábelské ódy; zażółć gęślą jaźń abc123."
	txtASCII = "plain ascii text without any declaration, 0123456789 abcdefghijklmnopqrstuvwxyz."
)

var charsetTable = []charsetSpec{
	{Name: "gbk", Ref: []encoding.Encoding{simplifiedchinese.GBK}, Texts: []string{txtHan}, Multi: true},
	{Name: "gb2312", Ref: []encoding.Encoding{simplifiedchinese.GBK}, Texts: []string{txtHan}, Multi: true},
	{Name: "gb18030", Ref: []encoding.Encoding{simplifiedchinese.GB18030}, Texts: []string{txtHan + "𠀀㐀"}, Multi: true},
	{Name: "big5", Ref: []encoding.Encoding{traditionalchinese.Big5}, Texts: []string{txtHanT}, Multi: true},
	{Name: "shift_jis", Ref: []encoding.Encoding{japanese.ShiftJIS}, Texts: []string{txtJa}, Multi: true},
	{Name: "euc-jp", Ref: []encoding.Encoding{japanese.EUCJP}, Texts: []string{txtJa}, Multi: true},
	// stateful: shift sequences ESC $ B / ESC ( B switch between ASCII and two-byte JIS X 0208
	{Name: "iso-2022-jp", Ref: []encoding.Encoding{japanese.ISO2022JP}, Texts: []string{txtJa, "abc 日本語 def テキスト ghi 漢字 jkl"}, Multi: true},
	{Name: "euc-kr", Ref: []encoding.Encoding{korean.EUCKR}, Texts: []string{txtKo}, Multi: true},
	// WHATWG treats the iso-8859-1 label as windows-1252; both transcodings are accepted as "correct"
	{Name: "iso-8859-1", Ref: []encoding.Encoding{charmap.Windows1252, charmap.ISO8859_1}, Texts: []string{txtLatin}},
	{Name: "iso-8859-2", Ref: []encoding.Encoding{charmap.ISO8859_2}, Texts: []string{txtCE}},
	{Name: "iso-8859-5", Ref: []encoding.Encoding{charmap.ISO8859_5}, Texts: []string{txtCyr}},
	{Name: "iso-8859-7", Ref: []encoding.Encoding{charmap.ISO8859_7}, Texts: []string{txtGreek}},
	{Name: "iso-8859-15", Ref: []encoding.Encoding{charmap.ISO8859_15}, Texts: []string{txtLatin}},
	{Name: "windows-1250", Ref: []encoding.Encoding{charmap.Windows1250}, Texts: []string{txtCE}},
	{Name: "windows-1251", Ref: []encoding.Encoding{charmap.Windows1251}, Texts: []string{txtCyr}},
	{Name: "windows-1252", Ref: []encoding.Encoding{charmap.Windows1252}, Texts: []string{txtLatin}},
	{Name: "windows-1253", Ref: []encoding.Encoding{charmap.Windows1253}, Texts: []string{txtGreek}},
	{Name: "koi8-r", Ref: []encoding.Encoding{charmap.KOI8R}, Texts: []string{txtCyr}},
	{Name: "utf-16le", Ref: []encoding.Encoding{unicode.UTF16(unicode.LittleEndian, unicode.IgnoreBOM)}, Texts: []string{txtHan, txtLatin}, Multi: true, UTF16: true},
	{Name: "utf-16be", Ref: []encoding.Encoding{unicode.UTF16(unicode.BigEndian, unicode.IgnoreBOM)}, Texts: []string{txtJa, txtCyr}, Multi: true, UTF16: true},
	{Name: "utf-8", Ref: nil, Texts: []string{txtHan, txtLatin, txtKo}, Multi: true, UTF8: true},
}

func specByName(n string) *charsetSpec {
	for i := range charsetTable {
		if charsetTable[i].Name == n {
			return &charsetTable[i]
		}
	}
	return nil
}

// encodeText encodes UTF-8 text into the charset (reference encoder); ok=false if not encodable.
func (c *charsetSpec) encodeText(s string) ([]byte, bool) {
	if c.UTF8 {
		return []byte(s), true
	}
	b, err := c.Ref[0].NewEncoder().Bytes([]byte(s))
	if err != nil {
		return nil, false
	}
	return b, true
}

// refDecodeAll = the reference "complete and correct UTF-8 transcoding of the whole body" (one per
// accepted reading of the label). For UTF-16 the BOM may be kept as U+FEFF or dropped.
func (c *charsetSpec) refDecodeAll(body []byte) [][]byte {
	var out [][]byte
	if c.UTF8 {
		return nil
	}
	for _, e := range c.Ref {
		d, err := e.NewDecoder().Bytes(body)
		if err != nil {
			continue
		}
		out = append(out, d)
		if c.UTF16 && bytes.HasPrefix(d, []byte("\xef\xbb\xbf")) {
			out = append(out, d[3:])
		}
	}
	return out
}

// ---------- documents ----------

type site string

const (
	siteHeader    site = "header"
	siteMeta      site = "meta-charset"
	siteHTTPEquiv site = "meta-http-equiv"
	siteBOM       site = "bom"
	siteNone      site = "none"
	siteConflict  site = "conflict"     // header says A, meta says B
	siteTwoMeta   site = "two-metas"    // meta A then meta B in the body
	siteLateMeta  site = "late-meta"    // declaration after some hundred bytes of markup
	siteHdrUnk    site = "header-unknown" // unsupported charset label in the header (+ meta in the body)
	siteHdrUTF8   site = "header-utf8"  // header says utf-8 (body may declare something else)
	siteTextFirst site = "text-then-meta" // non-ASCII text (a title) BEFORE the meta declaration
	siteNoDecl    site = "metas-no-declaration" // several meta tags, none of which declares a charset (WHATWG prescan)
	sitePragmaThenMeta site = "pragma-then-real-meta" // a charset-less pragma, junk metas, then a real declaration
)

type doc struct {
	Site      site     `json:"site"`
	Charset   string   `json:"charset"`  // the encoding the body bytes are actually in
	CT        string   `json:"content_type"`
	Declared  []string `json:"declared_in_body"` // charsets declared by BOM / meta in the body, in order
	HdrCS     string   `json:"header_charset"`   // charset parameter of Content-Type ("" = none)
	Body      []byte   `json:"-"`
	BodyLen   int      `json:"body_len"`
	TextStart int      `json:"text_start"` // offset of the first text byte (after the declaration)
	Want      [][]byte `json:"-"`          // label cells: the permitted bodies when auto-decode is active (computed by the generator from x/text htmlindex)
	WantLabel string   `json:"want_label,omitempty"`
}

func metaTag(s site, cs string, r *hk.Rand) string {
	switch s {
	case siteHTTPEquiv:
		v := []string{
			`<meta http-equiv="Content-Type" content="text/html; charset=%s">`,
			`<META HTTP-EQUIV="content-type" CONTENT="text/html;charset=%s">`,
			`<meta content='text/html; charset = "%s"' http-equiv=Content-Type />`,
		}
		return fmt.Sprintf(hk.Pick(r, v), cs)
	default:
		v := []string{`<meta charset="%s">`, `<meta charset=%s>`, `<meta charset='%s'/>`, `<META CHARSET="%s">`}
		return fmt.Sprintf(hk.Pick(r, v), cs)
	}
}

var baseTypes = []string{"text/html", "text/plain", "application/json", "application/xml", "application/xhtml+xml", "application/javascript"}

// fill repeats the encoded text until the body reaches target bytes (cut on a character boundary when
// cutMid is false, possibly inside a character - a truncated document - when true).
func fillText(cs *charsetSpec, text string, head []byte, target int, cutMid bool) ([]byte, bool) {
	out := append([]byte(nil), head...)
	runes := []rune(text)
	if len(runes) == 0 {
		return out, true
	}
	if cs.Name == "iso-2022-jp" {
		// stateful: encode the running text in one go (long two-byte runs between the shift sequences),
		// then cut at the target - possibly inside a run, as a truncated document would be
		s := ""
		for len(s) < 2*target+len(text) {
			s += text
		}
		enc, ok := cs.encodeText(s)
		if !ok {
			return nil, false
		}
		if n := target - len(out); n > 0 {
			if n > len(enc) {
				n = len(enc)
			}
			if !cutMid { // end on a complete shift-back if one is near
				if i := bytes.LastIndex(enc[:n], []byte("\x1b(B")); i > 0 {
					n = i + 3
				}
			}
			out = append(out, enc[:n]...)
		}
		return out, true
	}
	i := 0
	for len(out) < target {
		enc, ok := cs.encodeText(string(runes[i%len(runes)]))
		if !ok {
			return nil, false
		}
		if len(out)+len(enc) > target {
			if cutMid {
				out = append(out, enc[:target-len(out)]...)
			}
			break
		}
		out = append(out, enc...)
		i++
	}
	return out, true
}

// makeDoc builds a document of about `target` bytes.
func makeDoc(r *hk.Rand, s site, cs *charsetSpec, target int) (*doc, bool) {
	d := &doc{Site: s, Charset: cs.Name}
	text := hk.Pick(r, cs.Texts)
	base := hk.Pick(r, baseTypes)
	var head string // ASCII head (markup + declaration), encoded in the body charset below
	other := hk.Pick(r, []string{"gbk", "big5", "shift_jis", "euc-kr", "windows-1251", "iso-8859-2"})
	if other == cs.Name {
		other = "windows-1253"
	}
	switch s {
	case siteHeader:
		d.HdrCS = cs.Name
		d.CT = base + hk.Pick(r, []string{"; charset=", ";charset=", "; Charset=", `; charset="`}) + cs.Name
		if strings.HasSuffix(d.CT, `="`+cs.Name) {
			d.CT += `"`
		}
		switch r.Intn(10) {
		case 0, 1:
			d.CT = base + "; charset=" + strings.ToUpper(cs.Name)
		case 2:
			d.CT = base + "; charset=" + cs.Name + "; q=0.9"
		case 3:
			d.CT = base + ";charset=" + cs.Name + ";"
		case 4:
			d.CT = base + "; CHARSET=" + cs.Name
		case 5:
			d.CT = base + "; boundary=x; charset=" + cs.Name
		}
		head = "<html><head><title>t</title></head><body>"
	case siteMeta, siteHTTPEquiv:
		d.CT = base
		head = "<html><head>" + metaTag(s, cs.Name, r) + "</head><body>"
		d.Declared = []string{cs.Name}
		if r.Chance(25) {
			head = metaTag(s, cs.Name, r)
		}
	case siteLateMeta:
		d.CT = "text/html"
		head = "<html><head><!-- " + strings.Repeat("padding ", 20+r.Intn(60)) + "--><title>late</title>" + metaTag(siteMeta, cs.Name, r) + "</head><body>"
		d.Declared = []string{cs.Name}
	case siteTextFirst:
		d.CT = "text/html"
		head = "<html><head><title>\x00TITLE\x00</title>" + metaTag(siteMeta, cs.Name, r) + "</head><body>"
		d.Declared = []string{cs.Name}
	case siteNoDecl:
		// WHATWG prescan: a content= attribute only counts together with http-equiv=content-type ON THE SAME
		// TAG; a charset= attribute needs no pragma; everything else is not a declaration
		d.CT = "text/html"
		pool := []string{
			`<meta http-equiv="Content-Type" content="text/html">`,
			`<meta name="description" content="all about charset=` + other + ` and friends">`,
			`<meta name="keywords" content="text/html; charset=` + other + `">`,
			`<meta http-equiv="refresh" content="5; url=/x?charset=` + other + `">`,
			`<meta property="og:title" content="charset = ` + other + `">`,
			`<meta http-equiv="X-UA-Compatible" content="IE=edge">`,
			`<meta name="viewport" content="width=device-width">`,
			`<meta http-equiv="Content-Type">`,
			`<meta content="charset=">`,
			`<metadata charset="` + other + `">`,
			`<!-- <meta charset="` + other + `"> -->`,
		}
		head = "<html><head>" + pool[0]
		for i, n := 0, 2+r.Intn(5); i < n; i++ {
			head += hk.Pick(r, pool)
		}
		head += "</head><body>"
	case sitePragmaThenMeta:
		d.CT = "text/html"
		head = `<html><head><meta http-equiv="Content-Type" content="text/html"><meta name="description" content="x">` +
			metaTag(hk.Pick(r, []site{siteMeta, siteHTTPEquiv}), cs.Name, r) + "</head><body>"
		d.Declared = []string{cs.Name}
	case siteBOM:
		d.CT = base
		head = "<html><body>"
	case siteNone:
		d.CT = base
		head = hk.Pick(r, []string{"", "<html><body>", "<p>"})
	case siteConflict:
		d.HdrCS = cs.Name
		d.CT = base + "; charset=" + cs.Name
		head = "<html><head>" + metaTag(siteMeta, other, r) + "</head><body>"
		d.Declared = []string{other}
	case siteTwoMeta:
		d.CT = "text/html"
		head = "<html><head>" + metaTag(siteMeta, cs.Name, r) + metaTag(siteHTTPEquiv, other, r) + "</head><body>"
		d.Declared = []string{cs.Name, other}
	case siteHdrUnk:
		d.HdrCS = "x-verif-unknown"
		d.CT = base + "; charset=x-verif-unknown"
		head = "<html><head>" + metaTag(siteMeta, cs.Name, r) + "</head><body>"
		d.Declared = []string{cs.Name}
	case siteHdrUTF8:
		d.HdrCS = "utf-8"
		d.CT = base + hk.Pick(r, []string{"; charset=utf-8", "; charset=UTF-8", "; charset=utf8"})
		head = "<html><head>" + metaTag(siteMeta, cs.Name, r) + "</head><body>"
		d.Declared = []string{cs.Name}
	}
	var hb []byte
	if cs.UTF16 {
		// UTF-16 documents: BOM (always, the only way they are recognised) + head + text in UTF-16
		bom := []byte{0xff, 0xfe}
		if cs.Name == "utf-16be" {
			bom = []byte{0xfe, 0xff}
		}
		eh, _ := cs.encodeText(head)
		hb = append(bom, eh...)
		if s != siteHeader && s != siteConflict {
			d.Declared = append([]string{cs.Name}, d.Declared...)
		}
	} else {
		hb = []byte(head)
		if s == siteTextFirst {
			rs := []rune(text)
			if len(rs) > 10 {
				rs = rs[:10]
			}
			title, ok := cs.encodeText(string(rs))
			if !ok {
				return nil, false
			}
			hb = bytes.Replace(hb, []byte("\x00TITLE\x00"), title, 1)
		}
		if s == siteBOM || (cs.UTF8 && r.Chance(40)) {
			if cs.UTF8 {
				hb = append([]byte{0xef, 0xbb, 0xbf}, hb...)
				d.Declared = append([]string{"utf-8"}, d.Declared...)
			} else if s == siteBOM {
				return nil, false // a BOM only exists for the Unicode encodings
			}
		}
	}
	d.TextStart = len(hb)
	if target < len(hb) {
		target = len(hb)
	}
	body, ok := fillText(cs, text, hb, target, r.Chance(15))
	if !ok {
		return nil, false
	}
	d.Body = body
	d.BodyLen = len(body)
	return d, true
}

// ---------- splits and caller buffers ----------

// splitAt cuts body at the given ascending offsets.
func splitAt(body []byte, offs []int) [][]byte {
	var out [][]byte
	prev := 0
	for _, o := range offs {
		if o < prev {
			o = prev
		}
		if o > len(body) {
			o = len(body)
		}
		out = append(out, body[prev:o])
		prev = o
	}
	out = append(out, body[prev:])
	return out
}

func randomSplit(r *hk.Rand, body []byte, k int) [][]byte {
	offs := make([]int, 0, k)
	for i := 0; i < k; i++ {
		offs = append(offs, r.Intn(len(body)+1))
	}
	for i := range offs { // insertion sort
		for j := i; j > 0 && offs[j-1] > offs[j]; j-- {
			offs[j-1], offs[j] = offs[j], offs[j-1]
		}
	}
	return splitAt(body, offs)
}

var callerBufs = []int{1, 2, 3, 7, 512, 4096}

// beyond x/text's 4096-byte internal buffers (only used where the body is long enough to matter)
var bigBufs = []int{8192, 16384, 32768}

var sizePatterns = [][]int{{1}, {2}, {3}, {7}, {512}, {4096}, {512, 1, 3}, {7, 4096}, {2, 511}, {513}, {1024}, {3, 512, 4096}, {8192}, {16384, 512}, {32768}}

var bodyTargets = []int{0, 1, 2, 3, 25, 60, 120, 300, 509, 510, 511, 512, 513, 514, 600, 1023, 1024, 1025, 1500, 4095, 4096, 4097, 6000, 9000}
