package main

import (
	"bytes"
	"crypto/sha256"
	"encoding/hex"
	"fmt"
	"strings"

	"github.com/imroc/req/v3/verifharness/hk"
)

// ---------- oracle (from the property text; reference = x/text on the WHOLE original body) ----------

func hasNonASCII(b []byte) bool {
	for _, c := range b {
		if c >= 0x80 {
			return true
		}
	}
	return false
}

type allowed struct {
	label string
	b     []byte
}

// allowedResults lists every body the property permits for this document under these settings.
// mustDecode: a supported non-UTF-8 charset in Content-Type with auto-decode active -> the original
// is NOT acceptable.
func allowedResults(u *unitCase) (res []allowed, active, mustDecode bool) {
	d := u.Doc
	// "auto-decode active for a content type": switched on, content type selected, and the body is the
	// text itself - a body that is STILL content-encoded when it reaches the charset stage (Content-Encoding
	// left on the response: unsupported coding, decompression off) is not text in any charset and must be
	// left alone.  An Accept-Encoding header on the RESPONSE (RFC 9110 12.5.3) says nothing about the body.
	active = !u.Set.Disable && u.Set.selectedByConfig(d.CT) && u.Set.RespCE == ""
	orig := allowed{"orig", d.Body}
	if !active {
		return []allowed{orig}, false, false
	}
	addDecl := func(names []string) {
		for _, n := range names {
			if cs := specByName(n); cs != nil && !cs.UTF8 {
				for _, w := range cs.refDecodeAll(d.Body) {
					res = append(res, allowed{"decoded:" + n, w})
				}
			}
		}
	}
	if d.Want != nil {
		for _, x := range d.Want {
			res = append(res, allowed{"decoded:" + d.WantLabel, x})
		}
		return res, true, !bytes.Equal(d.Want[0], d.Body)
	}
	if d.HdrCS != "" {
		cs := specByName(d.HdrCS)
		switch {
		case cs != nil && cs.UTF8:
			return []allowed{orig}, true, false
		case cs != nil:
			addDecl([]string{d.HdrCS})
			return res, true, true
		default: // unsupported label: "no charset determined" -> unchanged (sniffing the body would also be fine)
			res = append(res, orig)
			addDecl(d.Declared)
			return res, true, false
		}
	}
	res = append(res, orig)
	addDecl(d.Declared)
	return res, true, false
}

func diagnose(out []byte, al []allowed) string {
	fffd := []byte("\xef\xbf\xbd")
	best := "other"
	for _, a := range al {
		switch {
		case bytes.HasPrefix(out, a.b) && len(out) > len(a.b):
			tail := out[len(a.b):]
			if len(bytes.Trim(tail, "\x00")) == 0 {
				return "nul-padded(" + a.label + ")"
			}
			best = "bytes-added-after(" + a.label + ")"
		case bytes.HasPrefix(a.b, out):
			if best == "other" {
				best = "truncated(" + a.label + ")"
			}
		case strings.HasPrefix(a.label, "decoded") && bytes.Count(out, fffd) > bytes.Count(a.b, fffd):
			if best == "other" {
				best = "replacement-char(" + a.label + ")"
			}
		}
	}
	return best
}

func sizeClass(p []int) string {
	s := make([]string, len(p))
	for i, k := range p {
		s[i] = fmt.Sprint(k)
	}
	return "k=" + strings.Join(s, ",")
}

// judge returns the class of the delivered body ("orig", "decoded:<cs>", "third") and a failure if
// the property is violated.
func judge(u *unitCase, o *obs) (string, *hk.Failure) {
	d := u.Doc
	in := map[string]interface{}{"case": u, "body_hex": hexCap(d.Body, 600), "chunk_lens": u.ChunkLen}
	if o.Fatal != "" {
		w := o.Fatal
		if i := strings.Index(w, ":"); i > 0 && strings.HasPrefix(w, "panic") && len(w) > 60 {
			w = w[:60]
		}
		return "fatal", &hk.Failure{Sig: fmt.Sprintf("fatal:%s:%s:%s", u.Kind, d.Site, w), What: "reading the body did not complete: " + o.Fatal, Input: in}
	}
	al, active, must := allowedResults(u)
	if u.FailAt >= 0 {
		if o.EndErr != "other" {
			return "third", &hk.Failure{Sig: fmt.Sprintf("net-error-swallowed:%s:%s", d.Site, d.Charset),
				What: "the network read error did not reach the caller", Input: in, Got: o.EndErr, Want: "other"}
		}
		for _, a := range al {
			if bytes.HasPrefix(a.b, o.Out) {
				return "prefix-of-" + a.label, nil
			}
		}
		return "third", &hk.Failure{Sig: fmt.Sprintf("third-result-before-net-error:%s:%s:%s", d.Site, d.Charset, diagnose(o.Out, al)),
			What: "bytes delivered before a network error are not a prefix of a permitted body", Input: in, Got: hexCap(o.Out, 300)}
	}
	if o.EndErr != "EOF" {
		return "third", &hk.Failure{Sig: fmt.Sprintf("read-error:%s:%s:%s", u.Kind, d.Site, d.Charset), What: "body read ended with an error on a complete body", Input: in, Got: o.EndErr}
	}
	for _, a := range al {
		if bytes.Equal(a.b, o.Out) {
			if u.Kind == "unit" && !o.Closed {
				return a.label, &hk.Failure{Sig: "close-not-propagated:" + o.Kind, What: "Close on the decoded body did not close the underlying body", Input: in}
			}
			return a.label, nil
		}
	}
	what := "delivered body is neither the original bytes nor the x/text transcoding of the whole original body"
	sig := fmt.Sprintf("third-result:%s:%s:%s:%s:%s", u.Kind, d.Site, d.Charset, diagnose(o.Out, al), sizeClass(u.Pattern))
	if !active {
		what = "body of a response not selected for auto-decoding was modified"
		sig = fmt.Sprintf("unselected-modified:%s:%s:%s", u.Kind, u.Set.name(), d.CT)
	} else if must && bytes.Equal(o.Out, d.Body) {
		what = "charset declared in Content-Type was not applied"
		sig = fmt.Sprintf("header-charset-not-applied:%s:%s:%s", u.Kind, d.HdrCS, u.Set.name())
	}
	want := []string{}
	for _, a := range al {
		want = append(want, a.label+"="+hexCap(a.b, 120))
	}
	return "third", &hk.Failure{Sig: sig, What: what, Input: in, Got: fmt.Sprintf("len=%d %s", len(o.Out), hexCap(o.Out, 300)), Want: want}
}

func hexCap(b []byte, n int) string {
	if len(b) > n {
		return hex.EncodeToString(b[:n]) + fmt.Sprintf("...(+%d)", len(b)-n)
	}
	return hex.EncodeToString(b)
}

// ---------- Coq emission ----------

func coqSel(s settings) string {
	switch s.Sel {
	case "list":
		return "(SelList " + hk.CoqStrList(s.List) + ")"
	case "all":
		return "SelAll"
	case "fn":
		return "(SelFn " + hk.CoqBool(s.FnAns) + ")"
	}
	return "SelDefault"
}

// coqBytes emits long byte strings as a concatenation of hex literals (one literal of several ten
// thousand characters overflows coqc's stack).
func coqBytes(b []byte) string {
	const piece = 3000
	if len(b) <= piece {
		return hk.CoqBytes(b)
	}
	var parts []string
	for i := 0; i < len(b); i += piece {
		j := i + piece
		if j > len(b) {
			j = len(b)
		}
		parts = append(parts, `hx "`+hex.EncodeToString(b[i:j])+`"`)
	}
	return "(" + strings.Join(parts, " ++ ") + ")"
}

func coqOptName(n string) string { return hk.CoqOpt(n != "", hk.CoqStr(n)) }

func coqErr(e string) string {
	switch e {
	case "EOF":
		return "EEOF"
	case "other":
		return "EFail"
	}
	return "ENone"
}

func emitCase(u *unitCase, o *obs, t *tables) string {
	var sb strings.Builder
	sb.WriteString("(C15Case " + hk.CoqBool(u.Set.Disable) + " " + coqSel(u.Set) + " " + hk.CoqStr(u.Set.RespAE) + " " + hk.CoqStr(u.Set.RespCE) + " " + hk.CoqStr(u.Doc.CT) + " " + hk.CoqN(uint64(statusOr200(u.Status))) + " " + hk.CoqStr(u.Location) + "\n    ")
	switch t.ParseKind {
	case "err":
		sb.WriteString("PErr ")
	case "none":
		sb.WriteString("PNoCharset ")
	default:
		sb.WriteString("(PCharset " + hk.CoqStr(t.ParseVal) + ") ")
	}
	sb.WriteString(hk.CoqPair(hk.CoqStr(t.LookupIn), coqOptName(t.LookupOut)) + " ")
	var bl []string
	for _, x := range t.BomLookups {
		bl = append(bl, hk.CoqPair(hk.CoqStr(x[0]), coqOptName(x[1])))
	}
	sb.WriteString(hk.CoqOpt(t.FindHas, hk.CoqN(uint64(len(t.FindIn)))) + " " + hk.CoqList(bl) + " " + coqOptName(t.Prescan) + "\n    ")
	var st []string
	for _, n := range sortedKeys(t.Stream) {
		st = append(st, hk.CoqPair(hk.CoqStr(n), coqBytes(t.Stream[n])))
	}
	var pt0 []string
	for _, n := range sortedKeys(t.Partial) {
		pt0 = append(pt0, hk.CoqPair(hk.CoqStr(n), coqBytes(t.Partial[n])))
	}
	sb.WriteString(hk.CoqList(st) + " " + hk.CoqList(pt0) + "\n    ")
	var tk []string
	for _, x := range t.Takes {
		tk = append(tk, hk.CoqPair(hk.CoqN(uint64(x[0])), hk.CoqBool(x[1] == 1)))
	}
	sb.WriteString(hk.CoqList(tk) + "\n    ")
	var ch []string
	for _, c := range u.delivered() {
		ch = append(ch, coqBytes(c))
	}
	sb.WriteString(hk.CoqList(ch) + " " + hk.CoqBool(u.EOFLast) + " " + hk.CoqBool(u.FailAt >= 0) + " ")
	var pt []string
	for _, k := range u.Pattern {
		pt = append(pt, hk.CoqN(uint64(k)))
	}
	sb.WriteString(hk.CoqList(pt) + " " + hk.CoqN(uint64(len(o.Calls))) + "\n    ")
	kind := map[string]string{"raw": "KRaw", "header": "KHeader", "sniff": "KSniff"}[o.Kind]
	sb.WriteString(kind + " ")
	var cs []string
	for _, c := range o.Calls {
		pk := "None"
		if !c.PeekNil {
			pk = "(Some " + hk.CoqN(uint64(c.PeekLen)) + ")"
		}
		cs = append(cs, "("+hk.CoqN(uint64(c.N))+", "+coqErr(c.Err)+", ("+hk.CoqBool(c.Detected)+", "+hk.CoqBool(c.HasDec)+", "+pk+"))")
	}
	sb.WriteString(hk.CoqList(cs) + "\n    ")
	whole := bytes.Join(u.delivered(), nil)
	outRef := ""
	if bytes.Equal(o.Out, whole) {
		outRef = "OutBody"
	} else {
		tb := t.Stream
		if u.FailAt >= 0 {
			tb = t.Partial
		}
		for _, n := range sortedKeys(tb) {
			if bytes.Equal(o.Out, tb[n]) {
				outRef = "(OutStream " + hk.CoqStr(n) + ")"
				break
			}
		}
	}
	if outRef == "" {
		outRef = "(OutBytes " + coqBytes(o.Out) + ")"
	}
	sb.WriteString(outRef + ")")
	return sb.String()
}

func sortedKeys(m map[string][]byte) []string {
	var ks []string
	for k := range m {
		ks = append(ks, k)
	}
	for i := range ks {
		for j := i; j > 0 && ks[j-1] > ks[j]; j-- {
			ks[j-1], ks[j] = ks[j], ks[j-1]
		}
	}
	return ks
}

// ---------- evaluation of one case ----------

type world struct {
	r       *hk.Run
	rnd     *hk.Rand
	coqText int // bytes of Coq text emitted so far
	coqCap  int
	bigLeft int // long-body cases still allowed into the Coq shards
}

func caseKey(u *unitCase) string {
	h := sha256.Sum256(u.Doc.Body)
	return fmt.Sprintf("%s|%x|%s|%s|%v|%v|%v|%s|%d|%s|%v|%d", u.Kind, h[:8], u.Doc.CT, u.Set.name(), u.ChunkLen, u.EOFLast, u.Pattern, u.BufMode, u.FailAt, u.Stack, u.HighLevel, u.Group) + u.CfgProg + u.Middleware + u.HLMode + fmt.Sprintf("|%d|%s|%s|%v|%s", u.Status, u.Location, u.Coding, u.AutoDecompress, u.CallerAE)
}

// eval drives the real code on u, judges it and (toCoq) emits the observation for the model.
func (w *world) eval(u *unitCase, toCoq bool) (string, obs) {
	u.ChunkLen = u.ChunkLen[:0]
	for _, c := range u.Chunks {
		u.ChunkLen = append(u.ChunkLen, len(c))
	}
	key := caseKey(u) // from the scripted input (for e2e: the segments written, not the reads observed)
	var o obs
	if u.Kind == "e2e" {
		segs := u.Chunks
		for attempt := 0; ; attempt++ {
			u.Chunks = segs
			o = driveE2E(u)
			env := strings.HasPrefix(o.Fatal, "round trip failed") || strings.HasPrefix(o.Fatal, "request failed") || strings.HasPrefix(o.Fatal, "hang")
			if !env {
				break
			}
			if attempt == 2 {
				// the local origin / loopback network did not cooperate (loaded machine): not a statement
				// about the decoder - the same documents are driven at transport level anyway
				w.r.Notes = append(w.r.Notes, "e2e exchange skipped after 3 attempts ("+u.Stack+"): "+o.Fatal)
				w.r.Count("e2e:skipped-environment")
				return "skipped", o
			}
		}
		if o.Fatal == "" && o.Sanity == "" && u.Coding == "" && u.HLMode != "buffer-callback" && !bytes.Equal(bytes.Join(o.NetSeen, nil), u.Doc.Body) {
			o.Sanity = "the bytes read underneath the charset decoder are not the bytes the origin served"
		}
		if o.Fatal == "" && o.Sanity == "" {
			// the model is fed with the network reads as they really happened underneath the decoder
			u.Chunks = o.NetSeen
			u.EOFLast = o.NetEOFLast
			u.ChunkLen = u.ChunkLen[:0]
			for _, c := range u.Chunks {
				u.ChunkLen = append(u.ChunkLen, len(c))
			}
		}
	} else {
		o = driveUnit(u)
	}
	return w.finishKeyed(u, o, toCoq, key)
}

// finish judges an observation obtained elsewhere (interleaved readers) and records it like eval does.
func (w *world) finish(u *unitCase, o obs, toCoq bool) (string, obs) {
	u.ChunkLen = u.ChunkLen[:0]
	for _, c := range u.Chunks {
		u.ChunkLen = append(u.ChunkLen, len(c))
	}
	return w.finishKeyed(u, o, toCoq, caseKey(u))
}

func (w *world) finishKeyed(u *unitCase, o obs, toCoq bool, key string) (string, obs) {
	class, fail := judge(u, &o)
	r := w.r
	if fail == nil && o.Sanity != "" {
		fail = &hk.Failure{Sig: fmt.Sprintf("e2e-sanity:%s:%s", u.Stack, o.Sanity), What: "the delivered bytes are a permitted body, but " + o.Sanity,
			Input: map[string]interface{}{"case": u, "body_hex": hexCap(u.Doc.Body, 300)}}
	}
	if fail != nil {
		r.Fail(*fail)
	}
	al, active, _ := allowedResults(u)
	nontrivial := hasNonASCII(u.Doc.Body) && (len(al) > 1 || !active || u.Doc.HdrCS != "")
	r.Count("kind:" + u.Kind)
	if u.Kind == "e2e" {
		r.Count("e2e:" + u.Stack)
		if u.HighLevel {
			r.Count("e2e:highlevel-" + u.HLMode)
		}
		if u.Coding != "" {
			r.Count("e2e:decompressed-by-transport")
		}
		if u.Middleware != "" {
			r.Count("e2e:middleware-" + u.Middleware)
		}
		if u.CloneClient {
			r.Count("e2e:cloned-client")
		}
	}
	r.Count("site:" + string(u.Doc.Site))
	r.Count("charset:" + u.Doc.Charset)
	r.Count("result:" + strings.SplitN(class, ":", 2)[0])
	r.Count("reader:" + o.Kind)
	r.Count("settings:" + u.Set.name())
	r.Count(fmt.Sprintf("chunks:%d", min(len(u.Chunks), 5)))
	r.Count("buf:" + u.BufMode)
	c := hk.Case{Desc: map[string]interface{}{"kind": u.Kind, "case": u, "obs": o, "class": class, "body_hex": hexCap(u.Doc.Body, 200)}}
	if toCoq && !u.HighLevel && u.Coding == "" && o.Fatal == "" && o.Sanity == "" && ((u.FailAt < 0 && o.EndErr == "EOF") || (u.FailAt >= 0 && o.EndErr == "other")) && w.coqText < w.coqCap {
		t := buildTables(u)
		// hypothesis instance check: streaming over this split == one-shot on the whole body (x/text)
		for n, s := range t.Partial {
			if !bytes.HasPrefix(t.All[n], s) {
				r.Fail(hk.Failure{Sig: "hypothesis:dec_partial-not-a-prefix:" + n, What: "what x/text's streaming reader delivers before a source error is not a prefix of Decoder.Bytes on the complete body (hypothesis of C15_net_error_prefix)",
					Input: map[string]interface{}{"case": u, "body_hex": hexCap(u.Doc.Body, 600)}})
			}
		}
		for n, s := range t.Stream {
			if !bytes.Equal(s, t.All[n]) {
				r.Fail(hk.Failure{Sig: "hypothesis:dec_stream!=dec_all:" + n, What: "x/text streaming decoder over this split differs from Decoder.Bytes on the whole body (model hypothesis dec_stream_any_split)",
					Input: map[string]interface{}{"case": u, "body_hex": hexCap(u.Doc.Body, 600)}})
			}
		}
		c.Coq = emitCase(u, &o, t)
		w.coqText += len(c.Coq)
		r.Count("coq:emitted")
	}
	r.Add(c, key, nontrivial)
	return class, o
}

func min(a, b int) int {
	if a < b {
		return a
	}
	return b
}

func statusOr200(s int) int {
	if s == 0 {
		return 200
	}
	return s
}
