package main

// Configuration programs: sequences of SetAutoDecodeContentType / SetAutoDecodeContentTypeFunc /
// SetAutoDecodeAllContentType / DisableAutoDecode / EnableAutoDecode on several transports (or clients)
// related by Clone, in every order, with the caller re-using the slice it passed.  After every
// operation every transport is probed with documents of several content types; what each transport must
// do follows from the operations addressed to IT (a clone starts with its source's configuration) - an
// interpreter of the API's documented meaning, kept here, independent of the Coq model.

import (
	"fmt"
	"net/http"
	"strings"

	req "github.com/imroc/req/v3"

	"github.com/imroc/req/v3/verifharness/hk"
)

type cfgOp struct {
	Op   string   `json:"op"` // setlist | setfn | setall | disable | enable | clone | scribble
	I    int      `json:"i"`
	List []string `json:"list,omitempty"`
	Ans  bool     `json:"ans,omitempty"`
}

func (o cfgOp) coq() string {
	i := hk.CoqNat(o.I)
	switch o.Op {
	case "setlist":
		return "(OpSetList " + i + " " + hk.CoqStrList(o.List) + ")"
	case "setfn":
		return "(OpSetFn " + i + " " + hk.CoqBool(o.Ans) + ")"
	case "setall":
		return "(OpSetAll " + i + ")"
	case "disable":
		return "(OpDisable " + i + ")"
	case "enable":
		return "(OpEnable " + i + ")"
	case "clone":
		return "(OpClone " + i + ")"
	}
	return "(OpScribble " + i + ")"
}

// one configurable thing: a bare Transport or a Client (whose setters delegate to its Transport)
type cfgNode struct {
	t    *req.Transport
	c    *req.Client
	last []string // the slice last passed to SetAutoDecodeContentType (still owned by "the caller")
	want settings // what the API calls addressed to this node mean
}

func (n *cfgNode) transport() *req.Transport {
	if n.c != nil {
		return n.c.GetTransport()
	}
	return n.t
}

func (n *cfgNode) clone() *cfgNode {
	m := &cfgNode{want: n.want}
	m.want.List = append([]string(nil), n.want.List...)
	if n.c != nil {
		m.c = n.c.Clone()
	} else {
		m.t = n.t.Clone()
	}
	return m
}

func (n *cfgNode) apply(o cfgOp, rnd *hk.Rand) {
	switch o.Op {
	case "setlist":
		l := append([]string(nil), o.List...) // the caller's slice
		n.last = l
		if n.c != nil {
			n.c.SetAutoDecodeContentType(l...)
		} else {
			n.t.SetAutoDecodeContentType(l...)
		}
		n.want.Sel, n.want.List = "list", append([]string(nil), o.List...)
	case "setfn":
		ans := o.Ans
		f := func(string) bool { return ans }
		if n.c != nil {
			n.c.SetAutoDecodeContentTypeFunc(f)
		} else {
			n.t.SetAutoDecodeContentTypeFunc(f)
		}
		n.want.Sel, n.want.FnAns, n.want.List = "fn", ans, nil
	case "setall":
		if n.c != nil {
			n.c.SetAutoDecodeAllContentType()
		} else {
			n.t.SetAutoDecodeAllContentType()
		}
		n.want.Sel, n.want.List = "all", nil
	case "disable":
		if n.c != nil {
			n.c.DisableAutoDecode()
		} else {
			n.t.DisableAutoDecode()
		}
		n.want.Disable = true
	case "enable":
		if n.c != nil {
			n.c.EnableAutoDecode()
		} else {
			n.t.EnableAutoDecode()
		}
		n.want.Disable = false
	case "scribble": // the caller goes on using its slice
		for k := range n.last {
			n.last[k] = hk.Pick(rnd, cfgFragments)
		}
	}
}

var cfgFragments = []string{"html", "json", "xml", "text", "plain", "octet", "png", "java", "application"}

var cfgProbeTypes = []string{"text/html; charset=gbk", "application/json; charset=gbk", "application/xml", "image/png; charset=gbk",
	"text/plain", "application/octet-stream; charset=gbk", "application/javascript"}

// probeKind: which reader the transport installs for this content type (no body needed)
func probeKind(t *req.Transport, ct string) string {
	res := &http.Response{Header: http.Header{}, Body: http.NoBody}
	res.Header.Set("Content-Type", ct)
	t.VerifAutoDecodeResponseBody(res)
	k, _, _, _, _ := req.VerifAutoDecodeState(res.Body)
	return k
}

func (w *world) cloneCells() {
	rnd := w.rnd
	gbk := specByName("gbk")
	n := w.r.Scale(170, 4000)
	for p := 0; p < n; p++ {
		clientFlavor := p%3 == 0
		root := &cfgNode{want: defaultSet}
		if clientFlavor {
			root.c = req.C()
		} else {
			root.t = req.T()
		}
		nodes := []*cfgNode{root}
		var ops []cfgOp
		steps := rnd.Range(3, 9)
		for s := 0; s < steps; s++ {
			var o cfgOp
			o.I = rnd.Intn(len(nodes))
			switch x := rnd.Intn(20); {
			case x < 8:
				o.Op = "setlist"
				for k, m := 0, rnd.Range(1, 3); k < m; k++ {
					o.List = append(o.List, hk.Pick(rnd, cfgFragments))
				}
			case x < 12 && len(nodes) < 4:
				o.Op = "clone"
			case x < 14:
				o.Op, o.Ans = "setfn", rnd.Bool()
			case x < 15:
				o.Op = "setall"
			case x < 16:
				o.Op = "disable"
			case x < 17:
				o.Op = "enable"
			case x < 20 && nodes[o.I].last != nil:
				o.Op = "scribble"
			default:
				o.Op = "setlist"
				o.List = []string{hk.Pick(rnd, cfgFragments)}
			}
			if o.Op == "clone" {
				nodes = append(nodes, nodes[o.I].clone())
			} else {
				nodes[o.I].apply(o, rnd)
			}
			ops = append(ops, o)
			w.r.Count("cfg:op-" + o.Op)
			// every transport answers for itself after every operation
			for j, nd := range nodes {
				ct := hk.Pick(rnd, cfgProbeTypes)
				s := siteMeta
				if strings.Contains(ct, "charset=") {
					s = siteHeader
				}
				d, ok := makeDoc(rnd, s, gbk, 60)
				if !ok {
					continue
				}
				d.CT, d.HdrCS = ct, ""
				if s == siteHeader {
					d.HdrCS = "gbk"
				}
				u := &unitCase{Kind: "unit", Doc: d, Set: nd.want, Chunks: [][]byte{d.Body}, EOFLast: rnd.Bool(), Pattern: []int{512},
					BufMode: "zero", FailAt: -1, tr: nd.transport(), CfgProg: fmt.Sprintf("program %d: %v; probing node %d", p, ops, j)}
				w.eval(u, rnd.Intn(25) == 0)
			}
		}
		// the whole program for the Coq model of configurations: reader kinds of every transport x content type
		var coqOps, probes []string
		for _, o := range ops {
			coqOps = append(coqOps, o.coq())
		}
		for j, nd := range nodes {
			for _, ct := range cfgProbeTypes {
				k := probeKind(nd.transport(), ct)
				u := &unitCase{Doc: &doc{CT: ct}, Pattern: []int{512}, EOFLast: false, FailAt: -1}
				t := buildTables(u)
				pk := "PNoCharset"
				switch t.ParseKind {
				case "err":
					pk = "PErr"
				case "charset":
					pk = "(PCharset " + hk.CoqStr(t.ParseVal) + ")"
				}
				probes = append(probes, "("+hk.CoqNat(j)+", "+hk.CoqStr(ct)+", "+pk+", "+hk.CoqPair(hk.CoqStr(t.LookupIn), coqOptName(t.LookupOut))+", "+
					map[string]string{"raw": "KRaw", "header": "KHeader", "sniff": "KSniff"}[k]+")")
			}
		}
		c := hk.Case{Coq: "(C15CfgCase " + hk.CoqList(coqOps) + "\n    " + hk.CoqList(probes) + ")",
			Desc: map[string]interface{}{"kind": "config-program", "client_flavor": clientFlavor, "ops": ops, "nodes": len(nodes)}}
		w.coqText += len(c.Coq)
		w.r.Count("coq:emitted")
		w.r.Count(fmt.Sprintf("cfg:nodes=%d", len(nodes)))
		w.r.Add(c, fmt.Sprintf("cfg|%v|%v", clientFlavor, ops), len(nodes) > 1)
	}
}
