package main

// Independent check of charsets.FindEncoding itself (the prescan is an oracle-table entry in the Coq
// model): the same bytes are given to golang.org/x/net/html/charset.DetermineEncoding - x/net's own
// implementation of the WHATWG encoding-sniffing algorithm (BOM, prescan, fallback) - and the two must
// agree on whether the document declares an encoding and which.

import (
	"bytes"
	"fmt"
	"strings"

	"github.com/imroc/req/v3/internal/charsets"
	htmlcharset "golang.org/x/net/html/charset"

	"github.com/imroc/req/v3/verifharness/hk"
)

func metaPool(cs, other string) []string {
	return []string{
		`<meta charset="` + cs + `">`,
		`<meta charset=` + cs + `>`,
		`<META CHARSET='` + cs + `'/>`,
		`<meta http-equiv="Content-Type" content="text/html; charset=` + cs + `">`,
		`<meta content='text/html;charset=` + cs + `' http-equiv=content-type>`,
		`<meta http-equiv="Content-Type" content="text/html">`,
		`<meta http-equiv="Content-Type">`,
		`<meta http-equiv="content-type" content="text/html; charset=">`,
		`<meta http-equiv="refresh" content="0; charset=` + other + `">`,
		`<meta name="description" content="charset=` + other + `">`,
		`<meta name="keywords" content="text/html; charset=` + other + `">`,
		`<meta content="charset=` + other + `">`,
		`<meta charset="x-verif-unknown">`,
		`<meta http-equiv="Content-Type" content="text/html; charset=x-verif-unknown">`,
		`<meta charset="` + cs + `" charset="` + other + `">`,
		`<meta content="text/html; charset=` + other + `" content="text/html; charset=` + cs + `" http-equiv="Content-Type">`,
		`<meta charset="utf-16">`,
		`<meta charset="utf-8">`,
		`<meta name="viewport" content="width=device-width">`,
		`<metadata charset="` + other + `">`,
		`<!-- <meta charset="` + other + `"> -->`,
		`<title>charset=` + other + `</title>`,
		`<script>var s = '<meta charset="` + other + `">';</script>`,
		`<p>text`,
		``,
	}
}

// whatwgFallback: names DetermineEncoding returns when NOTHING is declared (UTF-8 detection, else the
// windows-1252 default)
func isFallback(name string) bool { return name == "utf-8" || name == "windows-1252" }

func (w *world) findCells() {
	rnd := w.rnd
	labels := []string{"gbk", "big5", "shift_jis", "euc-kr", "windows-1251", "iso-8859-2", "koi8-r", "gb18030", "euc-jp", "iso-2022-jp"}
	n := w.r.Scale(2500, 40000)
	for i := 0; i < n; i++ {
		cs := hk.Pick(rnd, labels)
		other := hk.Pick(rnd, labels)
		if other == cs {
			other = "windows-1253"
		}
		pool := metaPool(cs, other)
		var sb strings.Builder
		sb.WriteString(hk.Pick(rnd, []string{"", "<!DOCTYPE html>", "<html><head>", "\n  "}))
		for j, k := 0, 1+rnd.Intn(5); j < k; j++ {
			sb.WriteString(hk.Pick(rnd, pool))
		}
		sb.WriteString(hk.Pick(rnd, []string{"", "</head><body>caf\xe9 \xd6\xd0\xce\xc4", "</head><body>plain"}))
		content := []byte(sb.String())
		if rnd.Chance(10) {
			content = content[:rnd.Intn(len(content)+1)] // truncated in the middle of a tag, as a first read may be
		}
		if len(content) == 0 || len(content) > 1024 {
			continue
		}
		w.r.Count("find:cells")
		var repoName string
		var repoNil bool
		func() {
			defer func() {
				if e := recover(); e != nil {
					repoName = fmt.Sprintf("panic: %v", e)
				}
			}()
			e, name := charsets.FindEncoding(content)
			repoNil, repoName = e == nil, name
		}()
		_, refName, _ := htmlcharset.DetermineEncoding(content, "")
		ok := true
		switch {
		case strings.HasPrefix(repoName, "panic"):
			ok = false
		case !repoNil:
			ok = refName == repoName
		default: // repo: nothing to decode (nothing declared, or utf-8 declared)
			ok = isFallback(refName)
		}
		if !ok {
			shape := "undeclared-but-found"
			if repoNil {
				shape = "declared-but-missed"
			} else if !isFallback(refName) {
				shape = "other-charset"
			}
			w.r.Fail(hk.Failure{Sig: "find-encoding-differs:" + shape,
				What:  "charsets.FindEncoding disagrees with x/net/html/charset.DetermineEncoding (WHATWG sniffing) on the same bytes",
				Input: map[string]interface{}{"content": string(bytes.ToValidUTF8(content, []byte("?"))), "content_hex": hexCap(content, 600)},
				Got:   fmt.Sprintf("nil=%v name=%q", repoNil, repoName), Want: refName})
		}
		w.r.Add(hk.Case{Desc: map[string]interface{}{"kind": "find", "content": string(bytes.ToValidUTF8(content, []byte("?")))}}, "find|"+string(content), !repoNil)
	}
}
