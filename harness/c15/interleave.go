package main

// Several responses alive at the same time on ONE transport, read in an arbitrary interleaving (each
// opened - autoDecodeResponseBody - at its first scheduled read, i.e. while others are in mid-body).
// Each must come out exactly as if it had been read alone: the per-reader observation is judged by the
// same oracle and emitted as an ordinary Coq case (the model runs each reader ALONE, theorem
// C15_interleaving_independent says that is the same thing for the model).

import (
	"fmt"
	"net/http"
	"runtime"
	"sync"
	"time"

	req "github.com/imroc/req/v3"

	"github.com/imroc/req/v3/verifharness/hk"
)

type liveReader struct {
	u    *unitCase
	body *scripted
	res  *http.Response
	o    obs
	done bool
	i    int
}

func (w *world) interleaved() {
	rnd := w.rnd
	n := w.r.Scale(120, 1500)
	stateful := []string{"iso-2022-jp", "iso-2022-jp", "utf-16le", "gbk", "shift_jis", "euc-kr", "big5"}
	for g := 0; g < n; g++ {
		set := defaultSet
		t := set.transport() // one transport for the whole group
		k := rnd.Range(2, 4)
		name := hk.Pick(rnd, stateful)
		var live []*liveReader
		for j := 0; j < k; j++ {
			cs := specByName(name)
			if rnd.Chance(20) {
				cs = specByName(hk.Pick(rnd, stateful))
			}
			s := hk.Pick(rnd, []site{siteHeader, siteHeader, siteMeta})
			if cs.UTF16 {
				s = hk.Pick(rnd, []site{siteHeader, siteBOM})
			}
			d, ok := makeDoc(rnd, s, cs, hk.Pick(rnd, []int{60, 120, 300, 600}))
			if !ok {
				continue
			}
			u := &unitCase{Kind: "unit", Doc: d, Set: set, Chunks: randomSplit(rnd, d.Body, rnd.Range(1, 4)), EOFLast: rnd.Bool(),
				Pattern: []int{hk.Pick(rnd, []int{3, 7, 64, 512, 4096})}, BufMode: "interleaved", FailAt: -1, Group: g + 1}
			live = append(live, &liveReader{u: u})
		}
		if len(live) < 2 {
			continue
		}
		if g%4 == 3 {
			// truly concurrent: one goroutine per live response, all on the one transport
			w.concurrentGroup(t, live)
			continue
		}
		fin := make(chan string, 1)
		go func() {
			defer func() {
				if e := recover(); e != nil {
					fin <- fmt.Sprintf("panic: %v", e)
					return
				}
				fin <- ""
			}()
			open := len(live)
			for step := 0; open > 0 && step < 100000; step++ {
				lr := live[rnd.Intn(len(live))]
				if lr.done {
					continue
				}
				if lr.res == nil { // opened while the others are in mid-body
					lr.body = newScripted(lr.u.Chunks, lr.u.EOFLast)
					lr.res = &http.Response{Header: http.Header{}, Body: lr.body}
					lr.res.Header.Set("Content-Type", lr.u.Doc.CT)
					t.VerifAutoDecodeResponseBody(lr.res)
					lr.o.Kind, _, _, _, _ = req.VerifAutoDecodeState(lr.res.Body)
				}
				kk := lr.u.Pattern[0]
				buf := make([]byte, kk)
				nn, err := lr.res.Body.Read(buf)
				c := callObs{K: kk, N: nn, Err: errClass(err)}
				_, c.Detected, c.HasDec, c.PeekLen, c.PeekNil = req.VerifAutoDecodeState(lr.res.Body)
				lr.o.Calls = append(lr.o.Calls, c)
				lr.o.Out = append(lr.o.Out, buf[:nn]...)
				lr.i++
				if err != nil || lr.i > maxCallsFor(lr.u) {
					lr.o.EndErr = c.Err
					if err == nil {
						lr.o.Fatal = "no end of body"
					}
					lr.res.Body.Close()
					lr.o.Closed = lr.body.closed
					lr.done = true
					open--
				}
			}
		}()
		var fatal string
		select {
		case fatal = <-fin:
		case <-time.After(60 * time.Second):
			fatal = "hang (60 s watchdog)"
		}
		for _, lr := range live {
			if fatal != "" && lr.o.Fatal == "" && !lr.done {
				lr.o.Fatal = fatal
			}
			lr.o.NCalls, lr.o.OutLen = len(lr.o.Calls), len(lr.o.Out)
			w.r.Count(fmt.Sprintf("interleaved:readers=%d", len(live)))
			w.finish(lr.u, lr.o, true)
		}
	}
}

// concurrentGroup reads every response of the group in its own goroutine at the same time (yielding
// between reads); each must still come out as when read alone.
func (w *world) concurrentGroup(t *req.Transport, live []*liveReader) {
	var wg sync.WaitGroup
	for _, lr := range live {
		lr := lr
		lr.u.BufMode = "concurrent"
		wg.Add(1)
		go func() {
			defer wg.Done()
			defer func() {
				if e := recover(); e != nil {
					lr.o.Fatal = fmt.Sprintf("panic: %v", e)
				}
			}()
			lr.body = newScripted(lr.u.Chunks, lr.u.EOFLast)
			res := &http.Response{Header: http.Header{}, Body: lr.body}
			res.Header.Set("Content-Type", lr.u.Doc.CT)
			runtime.Gosched()
			t.VerifAutoDecodeResponseBody(res)
			lr.o.Kind, _, _, _, _ = req.VerifAutoDecodeState(res.Body)
			for i := 0; ; i++ {
				if i > maxCallsFor(lr.u) {
					lr.o.Fatal = "no end of body"
					break
				}
				buf := make([]byte, lr.u.Pattern[0])
				n, err := res.Body.Read(buf)
				c := callObs{K: len(buf), N: n, Err: errClass(err)}
				_, c.Detected, c.HasDec, c.PeekLen, c.PeekNil = req.VerifAutoDecodeState(res.Body)
				lr.o.Calls = append(lr.o.Calls, c)
				lr.o.Out = append(lr.o.Out, buf[:n]...)
				if err != nil {
					lr.o.EndErr = c.Err
					break
				}
				runtime.Gosched()
			}
			res.Body.Close()
			lr.o.Closed = lr.body.closed
		}()
	}
	done := make(chan struct{})
	go func() { wg.Wait(); close(done) }()
	select {
	case <-done:
	case <-time.After(60 * time.Second):
		for _, lr := range live {
			w.r.Fail(hk.Failure{Sig: "fatal:concurrent-group:hang", What: "concurrently read responses did not finish within 60 s", Input: map[string]interface{}{"case": lr.u}})
		}
		return
	}
	for _, lr := range live {
		lr.o.NCalls, lr.o.OutLen = len(lr.o.Calls), len(lr.o.Out)
		w.r.Count(fmt.Sprintf("concurrent:readers=%d", len(live)))
		w.finish(lr.u, lr.o, true)
	}
}
