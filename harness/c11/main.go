package main

// C11 - redirect policies.  (a) direct: getHostname/getDomain and the exported policy
// constructors on generated authority pairs; (b) end-to-end redirect chains through a real
// client.  Oracle (independent of the Coq model): host identity computed with net/url and
// net/netip from the *parts* the generator assembled.

import (
	"context"
	"fmt"
	"net"
	"net/http"
	"net/netip"
	"net/url"
	"strings"
	"sync"

	req "github.com/imroc/req/v3"
	"github.com/imroc/req/v3/verifharness/hk"
)

func main() { hk.Main("C11", runC11, syncers) }

type authority struct {
	Kind string  `json:"kind"` // name | v4 | v6
	Host string  `json:"host"` // host text (no brackets)
	Port *string `json:"port"` // nil | "" | digits
}

func (a authority) render() string {
	h := a.Host
	if a.Kind == "v6" {
		h = "[" + h + "]"
	}
	if a.Port != nil {
		h += ":" + *a.Port
	}
	return h
}

var c11Labels = []string{"example", "Example", "EXAMPLE", "com", "COM", "org", "www", "api", "a", "b", "x-1", "co", "uk", "internal", "evil"}
var c11V6 = []string{"::1", "2001:db8::1", "2001:DB8::1", "fe80::1%eth0", "fe80::1%ETH0", "::ffff:1.2.3.4", "2001:db8:0:0:0:0:0:1", "::"}

func genAuthority(r *hk.Rand) authority {
	var a authority
	switch k := r.Intn(10); {
	case k < 5:
		a.Kind = "name"
		n := r.Range(1, 4)
		var ls []string
		for i := 0; i < n; i++ {
			ls = append(ls, hk.Pick(r, c11Labels))
		}
		a.Host = strings.Join(ls, ".")
		if r.Chance(15) {
			a.Host += "."
		}
	case k < 7:
		a.Kind = "v4"
		oct := []int{0, 1, 2, 9, 10, 127, 192, 255}
		a.Host = fmt.Sprintf("%d.%d.%d.%d", hk.Pick(r, oct), hk.Pick(r, oct), hk.Pick(r, oct), hk.Pick(r, oct))
	default:
		a.Kind = "v6"
		a.Host = hk.Pick(r, c11V6)
	}
	switch r.Intn(4) {
	case 0:
	case 1:
		e := ""
		a.Port = &e
	default:
		p := hk.Pick(r, []string{"80", "443", "8080", "65535", "0"})
		a.Port = &p
	}
	return a
}

// mutate derives a related authority (same host, other case/port/bracketing) so that
// "equal host" pairs are frequent.
func mutateAuthority(r *hk.Rand, a authority) authority {
	b := a
	switch r.Intn(6) {
	case 0:
		b.Host = strings.ToUpper(a.Host)
	case 1:
		b.Host = strings.ToLower(a.Host)
	case 2:
		b.Port = nil
	case 3:
		p := hk.Pick(r, []string{"", "81", "8443"})
		b.Port = &p
	case 4:
		if a.Kind == "name" {
			b.Host = "sub." + a.Host
		} else if a.Kind == "v4" {
			b.Host = "9" + a.Host[strings.Index(a.Host, "."):]
		} else {
			b.Host = hk.Pick(r, c11V6)
		}
	case 5:
		return genAuthority(r)
	}
	return b
}

// oracleHostname: what the property calls host identity - URL hostname, lower-cased.
func oracleHostname(a authority) string {
	u, err := url.Parse("http://" + strings.ReplaceAll(a.render(), "%", "%25") + "/")
	if err != nil {
		return strings.ToLower(a.Host)
	}
	return strings.ToLower(u.Hostname())
}

// oracleDomain: IP literals whole; DNS names: the library's own rule (drop first label
// when there are at least 3).
func oracleDomain(a authority) string {
	h := oracleHostname(a)
	if _, err := netip.ParseAddr(h); err == nil {
		return h
	}
	ss := strings.Split(h, ".")
	if len(ss) < 3 {
		return h
	}
	return strings.Join(ss[1:], ".")
}

func mkReq(host string) *http.Request {
	return &http.Request{Method: "GET", URL: &url.URL{Scheme: "http", Host: host, Path: "/"}, Header: http.Header{}}
}

func runC11(r *hk.Run) {
	r.Header = "From ReqV Require Import Model.C11Run."
	r.CaseType = "c11_case"
	r.CheckFn = "c11_check"
	r.Rule = "authority pairs from a grammar (DNS names in mixed case +- trailing dot, IPv4, bracketed IPv6 +- zone; port absent/empty/digits), targets mostly derived from the origin by case/port/label mutation; policy evaluations on exported constructors; end-to-end chains through a real client. Non-trivial: the authority has a port, brackets, upper-case letters or >=3 labels (host cases); origin and target differ textually (policy cases); chain has >=2 hops (chains). Distinct by rendered input."
	rng := hk.NewRand(r.Seed)

	// (a1) hostname / domain
	n := r.Scale(1500, 30000)
	for i := 0; i < n; i++ {
		a := genAuthority(rng)
		if rng.Chance(40) {
			a = mutateAuthority(rng, a)
		}
		in := a.render()
		gotH, gotD := req.VerifGetHostname(in), req.VerifGetDomain(in)
		wantH, wantD := oracleHostname(a), oracleDomain(a)
		r.Count("host.kind=" + a.Kind)
		if a.Port == nil {
			r.Count("host.port=none")
		} else if *a.Port == "" {
			r.Count("host.port=empty")
		} else {
			r.Count("host.port=digits")
		}
		if gotH != wantH {
			r.Fail(hk.Failure{Sig: "hostname:" + c11Shape(a), What: "getHostname disagrees with URL hostname (lower-cased)", Input: in, Got: gotH, Want: wantH})
		}
		if gotD != wantD {
			r.Fail(hk.Failure{Sig: "domain:" + c11Shape(a), What: "getDomain: IP literals must be whole, names drop first label when >=3", Input: in, Got: gotD, Want: wantD})
		}
		nt := a.Port != nil || a.Kind == "v6" || in != strings.ToLower(in) || strings.Count(a.Host, ".") >= 2
		r.Add(hk.Case{Coq: fmt.Sprintf("HostCase %s %s %s", hk.CoqStr(in), hk.CoqStr(gotH), hk.CoqStr(gotD)),
			Desc: map[string]interface{}{"kind": "host", "input": in, "hostname": gotH, "domain": gotD}}, "h|"+in, nt)
	}

	// (a2) policies on (origin, target) pairs
	n = r.Scale(2500, 50000)
	for i := 0; i < n; i++ {
		o := genAuthority(rng)
		t := mutateAuthority(rng, o)
		viaN := rng.Range(1, 4)
		via := []authority{o}
		for len(via) < viaN {
			via = append(via, genAuthority(rng))
		}
		var viaReqs []*http.Request
		var viaStr []string
		for _, v := range via {
			viaReqs = append(viaReqs, mkReq(v.render()))
			viaStr = append(viaStr, v.render())
		}
		var pol req.RedirectPolicy
		var coqPol, name string
		var want bool
		switch k := rng.Intn(7); k {
		case 6:
			// DefaultRedirectPolicy: documented as "allows up to 10 redirects"
			for len(via) < rng.Range(8, 12) {
				via = append(via, mutateAuthority(rng, o))
			}
			viaReqs, viaStr = nil, nil
			for _, v := range via {
				viaReqs = append(viaReqs, mkReq(v.render()))
				viaStr = append(viaStr, v.render())
			}
			pol, coqPol, name = req.DefaultRedirectPolicy(), "PDefault", "default"
			want = len(via) < 10
		case 0:
			lim := rng.Range(-1, 5)
			pol, coqPol, name = req.MaxRedirectPolicy(lim), "(PMax "+hk.CoqZ(int64(lim))+")", "max"
			want = len(via) < lim
		case 1:
			pol, coqPol, name = req.NoRedirectPolicy(), "PNo", "no"
			want = false
		case 2:
			pol, coqPol, name = req.SameHostRedirectPolicy(), "PSameHost", "samehost"
			want = oracleHostname(t) == oracleHostname(o)
		case 3:
			pol, coqPol, name = req.SameDomainRedirectPolicy(), "PSameDomain", "samedomain"
			want = oracleDomain(t) == oracleDomain(o)
		case 4, 5:
			m := rng.Range(0, 3)
			var hs []string
			var as []authority
			for j := 0; j < m; j++ {
				var h authority
				if rng.Chance(50) {
					h = mutateAuthority(rng, t)
				} else {
					h = genAuthority(rng)
				}
				as = append(as, h)
				hs = append(hs, h.render())
			}
			if k == 4 {
				pol, coqPol, name = req.AllowedHostRedirectPolicy(hs...), "(PAllowedHost "+hk.CoqStrList(hs)+")", "allowedhost"
				for _, h := range as {
					if oracleHostname(h) == oracleHostname(t) {
						want = true
					}
				}
			} else {
				pol, coqPol, name = req.AllowedDomainRedirectPolicy(hs...), "(PAllowedDomain "+hk.CoqStrList(hs)+")", "alloweddomain"
				for _, h := range as {
					if oracleDomain(h) == oracleDomain(t) {
						want = true
					}
				}
			}
		}
		got := pol(mkReq(t.render()), viaReqs) == nil
		r.Count("policy=" + name)
		r.Count(fmt.Sprintf("policy.allowed=%v", got))
		if got != want {
			r.Fail(hk.Failure{Sig: "policy:" + name + ":" + c11Shape(t) + "/" + c11Shape(o), What: "policy decision differs from the property's host-identity rule",
				Input: map[string]interface{}{"policy": coqPol, "target": t.render(), "via": viaStr}, Got: got, Want: want})
		}
		r.Add(hk.Case{Coq: fmt.Sprintf("PolicyCase %s %s %s %s", coqPol, hk.CoqStr(t.render()), hk.CoqStrList(viaStr), hk.CoqBool(got)),
			Desc: map[string]interface{}{"kind": "policy", "policy": coqPol, "target": t.render(), "via": viaStr, "allowed": got}},
			"p|"+coqPol+"|"+t.render()+"|"+strings.Join(viaStr, ","), t.render() != o.render())
	}

	// (b) end-to-end chains
	c11Chains(r, rng, r.Scale(150, 3000))
}

func urlHostname(hostport string) string {
	u, err := url.Parse("http://" + hostport + "/")
	if err != nil {
		return hostport
	}
	return u.Hostname()
}

func c11Shape(a authority) string {
	p := "noport"
	if a.Port != nil {
		if *a.Port == "" {
			p = "emptyport"
		} else {
			p = "port"
		}
	}
	return a.Kind + "-" + p
}

type c11Hit struct {
	Host   string `json:"host"`
	Auth   int    `json:"auth"`   // number of Authorization values received
	Cookie int    `json:"cookie"` // number of Cookie values received
}

func c11Chains(r *hk.Run, rng *hk.Rand, n int) {
	var mu sync.Mutex
	hits := map[string][]c11Hit{}
	scripts := map[string][]string{}
	srv := &http.Server{Handler: http.HandlerFunc(func(w http.ResponseWriter, q *http.Request) {
		id := q.Header.Get("X-Chain")
		mu.Lock()
		step := len(hits[id])
		hits[id] = append(hits[id], c11Hit{Host: q.Host, Auth: len(q.Header.Values("Authorization")), Cookie: len(q.Header.Values("Cookie"))})
		sc := scripts[id]
		mu.Unlock()
		if step < len(sc) {
			w.Header().Set("Location", "http://"+sc[step]+"/next")
			w.WriteHeader(302)
			return
		}
		w.WriteHeader(200)
	})}
	ln, err := net.Listen("tcp", "127.0.0.1:0")
	if err != nil {
		r.Notes = append(r.Notes, "listen failed: "+err.Error())
		return
	}
	go srv.Serve(ln)
	defer srv.Close()
	addr := ln.Addr().String()

	for i := 0; i < n; i++ {
		// no zones end-to-end (net/http drops the zone from the Host header)
		var init authority
		for {
			init = genAuthority(rng)
			if !strings.Contains(init.Host, "%") {
				break
			}
		}
		hops := rng.Range(0, 5)
		var targets []string
		var targetAuth []authority
		var oraclePols []func(t authority, via []authority) bool
		cur := init
		for j := 0; j < hops; j++ {
			var t authority
			for {
				if rng.Chance(60) {
					t = mutateAuthority(rng, cur)
				} else {
					t = mutateAuthority(rng, init)
				}
				if !strings.Contains(t.Host, "%") {
					break
				}
			}
			targets = append(targets, t.render())
			targetAuth = append(targetAuth, t)
			cur = t
		}
		// policy set
		var pols []req.RedirectPolicy
		var coqPols []string
		np := rng.Range(1, 3)
		for j := 0; j < np; j++ {
			switch rng.Intn(7) {
			case 0:
				lim := rng.Range(0, 5)
				pols, coqPols = append(pols, req.MaxRedirectPolicy(lim)), append(coqPols, "PMax "+hk.CoqZ(int64(lim)))
				oraclePols = append(oraclePols, func(t authority, via []authority) bool { return len(via) < lim })
			case 1:
				pols, coqPols = append(pols, req.SameHostRedirectPolicy()), append(coqPols, "PSameHost")
				oraclePols = append(oraclePols, func(t authority, via []authority) bool { return oracleHostname(t) == oracleHostname(via[0]) })
			case 2:
				pols, coqPols = append(pols, req.SameDomainRedirectPolicy()), append(coqPols, "PSameDomain")
				oraclePols = append(oraclePols, func(t authority, via []authority) bool { return oracleDomain(t) == oracleDomain(via[0]) })
			case 3:
				as := append([]authority{init}, targetAuth...)
				as = as[:rng.Range(1, len(as))]
				var hs []string
				for _, a := range as {
					hs = append(hs, a.render())
				}
				pols, coqPols = append(pols, req.AllowedHostRedirectPolicy(hs...)), append(coqPols, "PAllowedHost "+hk.CoqStrList(hs))
				oraclePols = append(oraclePols, func(t authority, via []authority) bool {
					for _, a := range as {
						if oracleHostname(a) == oracleHostname(t) {
							return true
						}
					}
					return false
				})
			case 4:
				as := append([]authority{init}, targetAuth...)
				as = as[:rng.Range(1, len(as))]
				var hs []string
				for _, a := range as {
					hs = append(hs, a.render())
				}
				pols, coqPols = append(pols, req.AllowedDomainRedirectPolicy(hs...)), append(coqPols, "PAllowedDomain "+hk.CoqStrList(hs))
				oraclePols = append(oraclePols, func(t authority, via []authority) bool {
					for _, a := range as {
						if oracleDomain(a) == oracleDomain(t) {
							return true
						}
					}
					return false
				})
			case 5:
				var names []string
				a, ck := rng.Bool(), rng.Bool()
				if a {
					names = append(names, hk.Pick(rng, []string{"Authorization", "authorization"}))
				}
				if ck {
					names = append(names, "Cookie")
				}
				names = append(names, "X-Unrelated")
				pols, coqPols = append(pols, req.AlwaysCopyHeaderRedirectPolicy(names...)), append(coqPols, "PAlwaysCopy "+hk.CoqBool(a)+" "+hk.CoqBool(ck))
			case 6:
				if rng.Chance(30) {
					pols, coqPols = append(pols, req.NoRedirectPolicy()), append(coqPols, "PNo")
					oraclePols = append(oraclePols, func(t authority, via []authority) bool { return false })
				} else {
					pols, coqPols = append(pols, nil), append(coqPols, "PNil")
				}
			}
		}
		id := fmt.Sprintf("c%d", i)
		mu.Lock()
		scripts[id] = targets
		mu.Unlock()
		c := req.C().SetRedirectPolicy(pols...).SetDial(func(ctx context.Context, network, _ string) (net.Conn, error) {
			var d net.Dialer
			return d.DialContext(ctx, network, addr)
		})
		rq := c.R().SetHeader("X-Chain", id)
		credLevel := rng.Intn(3)
		switch credLevel {
		case 0: // request level
			rq.SetHeader("Authorization", "Bearer secret").SetHeader("Cookie", "sid=secret")
		case 1: // client level
			c.SetCommonHeader("Authorization", "Bearer secret").SetCommonHeader("Cookie", "sid=secret")
		case 2: // client-level helpers
			c.SetCommonBearerAuthToken("secret").SetCommonCookies(&http.Cookie{Name: "sid", Value: "secret"})
		}
		r.Count(fmt.Sprintf("chain.credlevel=%d", credLevel))
		resp, err := rq.Get("http://" + init.render() + "/start")
		c.GetTransport().CloseIdleConnections()
		mu.Lock()
		obs := hits[id]
		mu.Unlock()
		refused := err != nil || (resp != nil && resp.StatusCode == 302)
		// oracle: no host receives a request unless every policy permitted it (evaluated
		// with the independent host-identity oracle is done in the direct cases; here the
		// structural part): observed hosts are init followed by a prefix of targets, and a
		// refusal means strictly fewer than all targets were contacted.
		okPrefix := len(obs) >= 1 && len(obs) <= len(targets)+1
		if okPrefix {
			exp := append([]string{init.render()}, targets...)
			for k, h := range obs {
				if strings.TrimSuffix(exp[k], ":") != strings.TrimSuffix(h.Host, ":") {
					okPrefix = false
				}
			}
		}
		if !okPrefix {
			r.Fail(hk.Failure{Sig: "chain:not-prefix", What: "hosts contacted are not the initial host followed by a prefix of the redirect targets",
				Input: map[string]interface{}{"policies": coqPols, "init": init.render(), "targets": targets}, Got: obs})
		}
		if refused && len(obs) == len(targets)+1 && !(len(targets) == 0) {
			// refused but everything contacted: only legitimate if the final response itself was a 302 without script (cannot happen here)
			r.Fail(hk.Failure{Sig: "chain:refused-but-all-sent", What: "chain reported refused although every target received a request",
				Input: map[string]interface{}{"policies": coqPols, "init": init.render(), "targets": targets}, Got: obs})
		}
		// oracle for the hop decisions: re-evaluate every hop with the independent
		// host-identity oracle; the number of requests sent must be 1 + the number of
		// leading hops every policy permits.
		{
			via := []authority{init}
			wantSent := 1
			for _, t := range targetAuth {
				ok := true
				for _, op := range oraclePols {
					if !op(t, via) {
						ok = false
						break
					}
				}
				if !ok {
					break
				}
				wantSent++
				via = append(via, t)
			}
			if len(obs) != wantSent {
				r.Fail(hk.Failure{Sig: "chain:hops-followed", What: "number of hops followed differs from what the configured policies permit (every policy must permit each hop)",
					Input: map[string]interface{}{"policies": coqPols, "init": init.render(), "targets": targets}, Got: len(obs), Want: wantSent})
			}
		}
		// oracle for header carrying (Go's cross-origin rule, sticky): once a hop leaves the
		// initial host's domain-or-subdomain set, Authorization/Cookie must not be delivered
		// to it or to any later hop unless AlwaysCopy names that header; never duplicated.
		{
			alwaysA, alwaysC := false, false
			for _, p := range coqPols {
				if strings.HasPrefix(p, "PAlwaysCopy true") {
					alwaysA = true
				}
				if strings.HasPrefix(p, "PAlwaysCopy") && strings.HasSuffix(p, " true") {
					alwaysC = true
				}
			}
			ih := urlHostname(init.render())
			stripped := false
			for k, h := range obs {
				if k == 0 {
					continue
				}
				th := urlHostname(targets[k-1])
				if targets[k-1] != init.render() && !(th == ih || (!strings.ContainsAny(th, ":%") && strings.HasSuffix(th, "."+ih))) {
					stripped = true
				}
				wantA, wantC := 1, 1
				if stripped && !alwaysA {
					wantA = 0
				}
				if stripped && !alwaysC {
					wantC = 0
				}
				if h.Auth != wantA || h.Cookie != wantC {
					r.Fail(hk.Failure{Sig: fmt.Sprintf("chain:sensitive-headers:hop%d", k), What: "Authorization/Cookie delivered (or withheld/duplicated) contrary to the cross-origin rule and the AlwaysCopy policy",
						Input: map[string]interface{}{"policies": coqPols, "init": init.render(), "targets": targets, "hop": k},
						Got: []int{h.Auth, h.Cookie}, Want: []int{wantA, wantC}})
					break
				}
			}
		}
		var coqObs []string
		for _, h := range obs {
			coqObs = append(coqObs, hk.CoqPair(hk.CoqStr(h.Host), hk.CoqPair(hk.CoqNat(h.Auth), hk.CoqNat(h.Cookie))))
		}
		var cp []string
		for _, p := range coqPols {
			cp = append(cp, "("+p+")")
		}
		r.Count(fmt.Sprintf("chain.hops=%d", hops))
		r.Count(fmt.Sprintf("chain.refused=%v", refused))
		r.Count(fmt.Sprintf("chain.sent=%d", len(obs)))
		r.Add(hk.Case{Coq: fmt.Sprintf("ChainCase %s %s %s %s %s", hk.CoqList(cp), hk.CoqStr(init.render()), hk.CoqStrList(targets), hk.CoqList(coqObs), hk.CoqBool(refused)),
			Desc: map[string]interface{}{"kind": "chain", "policies": coqPols, "init": init.render(), "targets": targets, "observed": obs, "refused": refused}},
			"c|"+strings.Join(coqPols, ",")+"|"+init.render()+"|"+strings.Join(targets, ","), hops >= 2)
	}
}
