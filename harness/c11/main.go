package main

// C11 - redirect policies.  (a) direct: getHostname/getDomain and the exported policy
// constructors on generated authority pairs; (b) end-to-end redirect chains through a real
// client.  Oracle (independent of the Coq model): host identity computed with net/url and
// net/netip from the *parts* the generator assembled.

import (
	"fmt"
	"net"
	"net/http"
	"net/netip"
	"net/url"
	"strings"

	req "github.com/imroc/req/v3"
	"github.com/imroc/req/v3/verifharness/hk"
)

func main() { hk.Main("C11", runC11, syncers) }

type authority struct {
	Kind string  `json:"kind"` // name | v4 | v6
	Host string  `json:"host"` // host text (no brackets)
	Port *string `json:"port"` // nil | "" | digits
}

func (a authority) render() string {
	h := a.Host
	if a.Kind == "v6" {
		h = "[" + h + "]"
	}
	if a.Port != nil {
		h += ":" + *a.Port
	}
	return h
}

var c11Labels = []string{"example", "Example", "EXAMPLE", "com", "COM", "org", "www", "api", "a", "b", "x-1", "co", "uk", "internal", "evil", "xn--bcher-kva", "XN--BCHER-KVA"}

// caseless non-ASCII labels (UTF-8 in URL.Host as url.Parse leaves it): only in the direct cases -
// end-to-end net/http converts such hosts to punycode (idnaASCII), which the chain model does not follow
var c11LabelsU = []string{"\u4f8b\u3048", "\u0645\u062b\u0627\u0644"}
var c11V6 = []string{"::1", "2001:db8::1", "2001:DB8::1", "fe80::1%eth0", "fe80::1%ETH0", "::ffff:1.2.3.4", "2001:db8:0:0:0:0:0:1", "::"}

// bracketed texts around the edges of netip.ParseAddr's grammar (valid and invalid): direct cases only
var c11V6Odd = []string{"1:2:3:4:5:6:7:8", "1:2:3:4:5:6:7::", "::2:3:4:5:6:7:8", "1:2:3:4:5:6:7:8:9", "1::2::3", "12345::", "::1.2.3.4",
	"1:2:3:4:5:6:1.2.3.4", "1:2:3:4:5:6:7:1.2.3.4", "::ffff:1.2.3.256", ":::", "1:", ":1", "g::1", "1:2:3:4:5:6:7::8", "a:b.c.d", "1::",
	"1:2:3:4:5:6:7", "1:2:3:4::5:6:7:8", "::1:2:3:4:5:6:7:8", "::ffff:1.2.3", "1::1.2.3.4", "1:2:3:4:5::1.2.3.4", "1:2:3:4:5:6::1.2.3.4",
	"::1.2.3.4.5", "1:2::3:", "FFFF::ABCD", "0:0:0:0:0:0:0:0", "::01.2.3.4", "fe80::1%25eth0", "1:2:3:4:5:6:77777:8", "::%eth0", "1::%e.x.y"}
var c11OddV6 = false

func genAuthority(r *hk.Rand) authority {
	var a authority
	switch k := r.Intn(10); {
	case k < 5:
		a.Kind = "name"
		n := r.Range(1, 4)
		if r.Chance(8) {
			n = r.Range(5, 7) // deep names: "domain" = everything after the first label
		}
		var ls []string
		for i := 0; i < n; i++ {
			ls = append(ls, hk.Pick(r, c11Labels))
		}
		a.Host = strings.Join(ls, ".")
		if r.Chance(15) {
			a.Host += "."
		}
	case k < 7 && r.Chance(25):
		// dotted numbers that are NOT IPv4 literals for netip.ParseAddr (too few / too many fields, a field
		// above 255, a leading zero, hex, a trailing dot): DNS names as far as getDomain is concerned
		a.Kind = "name"
		a.Host = hk.Pick(r, []string{"1.2.3", "256.1.1.1", "1.2.3.4.5", "01.2.3.4", "1.2.3.04", "0x7f.0.0.1", "1.2.3.4.", "1.2.3.256", "1..2.3", "1.2.3.", "999.999.999.999", "1.2.3.4a", "00.0.0.0"})
	case k < 7:
		a.Kind = "v4"
		oct := []int{0, 1, 2, 9, 10, 127, 192, 255}
		a.Host = fmt.Sprintf("%d.%d.%d.%d", hk.Pick(r, oct), hk.Pick(r, oct), hk.Pick(r, oct), hk.Pick(r, oct))
	default:
		a.Kind = "v6"
		a.Host = hk.Pick(r, c11V6)
		if c11OddV6 && r.Chance(35) {
			a.Host = hk.Pick(r, c11V6Odd)
		}
	}
	switch r.Intn(4) {
	case 0:
	case 1:
		e := ""
		a.Port = &e
	default:
		p := hk.Pick(r, []string{"80", "443", "8080", "65535", "0"})
		a.Port = &p
	}
	return a
}

// mutate derives a related authority (same host, other case/port/bracketing) so that
// "equal host" pairs are frequent.
func mutateAuthority(r *hk.Rand, a authority) authority {
	b := a
	switch r.Intn(6) {
	case 0:
		b.Host = strings.ToUpper(a.Host)
	case 1:
		b.Host = strings.ToLower(a.Host)
	case 2:
		b.Port = nil
	case 3:
		p := hk.Pick(r, []string{"", "81", "8443"})
		b.Port = &p
	case 4:
		if a.Kind == "name" {
			b.Host = "sub." + a.Host
		} else if a.Kind == "v4" {
			b.Host = "9" + a.Host[strings.Index(a.Host, "."):]
		} else {
			b.Host = hk.Pick(r, c11V6)
		}
	case 5:
		return genAuthority(r)
	}
	return b
}

// oracleHostname: what the property calls host identity - URL hostname, lower-cased.
func oracleHostname(a authority) string {
	u, err := url.Parse("http://" + strings.ReplaceAll(a.render(), "%", "%25") + "/")
	if err != nil {
		return strings.ToLower(a.Host)
	}
	return strings.ToLower(u.Hostname())
}

// oracleDomain: IP literals whole; DNS names: the library's own rule (drop first label
// when there are at least 3).
func oracleDomain(a authority) string {
	h := oracleHostname(a)
	if _, err := netip.ParseAddr(h); err == nil {
		return h
	}
	// the dot that ends a fully qualified name is not a label: example.com. is the domain example.com
	h = strings.TrimSuffix(h, ".")
	ss := strings.Split(h, ".")
	if len(ss) < 3 {
		return h
	}
	return strings.Join(ss[1:], ".")
}

func mkReq(host string) *http.Request {
	return &http.Request{Method: "GET", URL: &url.URL{Scheme: "http", Host: host, Path: "/"}, Header: http.Header{}}
}

func runC11(r *hk.Run) {
	r.Header = "From ReqV Require Import Model.C11Run."
	r.CaseType = "c11_case"
	r.CheckFn = "c11_check"
	r.ShardSize = 50 // the end-to-end cases are large terms: keep every coqc small (well under 0.6 GB)
	r.Rule = "authority pairs from a grammar (DNS names in mixed case +- trailing dot, IPv4, bracketed IPv6 +- zone; port absent/empty/digits), targets mostly derived from the origin by case/port/label mutation; policy evaluations on exported constructors; end-to-end chains through a real client (status 301/302/303/307/308, absolute and relative Location, GET and POST, hop counts directed at the configured limit); sequences of client operations (C / SetRedirectPolicy / Clone / request) with one observation per request; groups of chains in flight through one client under a harness-controlled order of CheckRedirect evaluations. Non-trivial: the authority has a port, brackets, upper-case letters or >=3 labels (host cases); origin and target differ textually (policy cases); chain has >=2 hops (chains); the sequence has a Clone, a SetRedirectPolicy after it and >=2 requests (client sequences); >=2 chains with >=1 hop each (concurrent groups). Distinct by rendered input."
	rng := hk.NewRand(r.Seed)

	c11OddV6 = true
	// (a1) hostname / domain
	n := r.Scale(1500, 30000)
	for i := 0; i < n; i++ {
		a := genAuthority(rng)
		if rng.Chance(40) {
			a = mutateAuthority(rng, a)
		}
		if a.Kind == "name" && rng.Chance(4) {
			a.Host = hk.Pick(rng, c11LabelsU) + "." + a.Host
			r.Count("host.non-ascii-label")
		}
		in := a.render()
		gotH, gotD := req.VerifGetHostname(in), req.VerifGetDomain(in)
		wantH, wantD := oracleHostname(a), oracleDomain(a)
		r.Count("host.kind=" + a.Kind)
		if a.Port == nil {
			r.Count("host.port=none")
		} else if *a.Port == "" {
			r.Count("host.port=empty")
		} else {
			r.Count("host.port=digits")
		}
		if gotH != wantH {
			r.Fail(hk.Failure{Sig: "hostname:" + c11Shape(a), What: "getHostname disagrees with URL hostname (lower-cased)", Input: in, Got: gotH, Want: wantH})
		}
		if gotD != wantD {
			r.Fail(hk.Failure{Sig: "domain:" + c11Shape(a), What: "getDomain: IP literals must be whole, names drop first label when >=3", Input: in, Got: gotD, Want: wantD})
		}
		nt := a.Port != nil || a.Kind == "v6" || in != strings.ToLower(in) || strings.Count(a.Host, ".") >= 2
		r.Add(hk.Case{Coq: fmt.Sprintf("HostCase %s %s %s", hk.CoqStr(in), hk.CoqStr(gotH), hk.CoqStr(gotD)),
			Desc: map[string]interface{}{"kind": "host", "input": in, "hostname": gotH, "domain": gotD}}, "h|"+in, nt)
	}

	// (a1') the stdlib model and the malformed stream: strings assembled from authority tokens in any
	// order (unbalanced / misplaced brackets, several colons, empty pieces).  No property oracle here -
	// such strings cannot be a parsed URL's Host; they can be AllowedHost/AllowedDomain entries - only
	// the correspondence: net.SplitHostPort vs split_host_port, getHostname/getDomain vs the model.
	n = r.Scale(400, 8000)
	toks := []string{"[", "]", ":", ":", "a", "B.c", "::1", "2001:db8::1", "80", "", ".", "%eth0", "1.2.3.4", "x"}
	for i := 0; i < n; i++ {
		var in string
		if rng.Chance(30) {
			in = genAuthority(rng).render()
			switch rng.Intn(4) { // damage a well-formed authority
			case 0:
				in = strings.Replace(in, "]", "", 1)
			case 1:
				in = strings.Replace(in, "[", "", 1)
			case 2:
				in += ":" + hk.Pick(rng, []string{"", "1", "x"})
			case 3:
				in = "[" + in
			}
		} else {
			for k, m := 0, rng.Range(0, 6); k < m; k++ {
				in += hk.Pick(rng, toks)
			}
		}
		h, p, err := net.SplitHostPort(in)
		obs := "None"
		if err == nil {
			obs = "(Some " + hk.CoqPair(hk.CoqStr(h), hk.CoqStr(p)) + ")"
		}
		r.Count(fmt.Sprintf("shp.ok=%v", err == nil))
		r.Add(hk.Case{Coq: fmt.Sprintf("ShpCase %s %s", hk.CoqStr(in), obs),
			Desc: map[string]interface{}{"kind": "splithostport", "input": in, "host": h, "port": p, "ok": err == nil}}, "s|"+in, strings.ContainsAny(in, "[]:"))
		gotH, gotD := req.VerifGetHostname(in), req.VerifGetDomain(in)
		r.Add(hk.Case{Coq: fmt.Sprintf("HostCase %s %s %s", hk.CoqStr(in), hk.CoqStr(gotH), hk.CoqStr(gotD)),
			Desc: map[string]interface{}{"kind": "host-malformed", "input": in, "hostname": gotH, "domain": gotD}}, "hm|"+in, strings.ContainsAny(in, "[]:"))
	}

	// (a2) policies on (origin, target) pairs
	n = r.Scale(2500, 50000)
	for i := 0; i < n; i++ {
		o := genAuthority(rng)
		t := mutateAuthority(rng, o)
		if rng.Chance(6) {
			// fully qualified names: the origin and another host under the same top label
			top := hk.Pick(rng, []string{"com", "org", "uk", "internal"})
			o = authority{Kind: "name", Host: hk.Pick(rng, c11Labels) + "." + top + "."}
			t = authority{Kind: "name", Host: hk.Pick(rng, c11Labels) + "." + top + "."}
			if rng.Bool() {
				t.Host = "www." + o.Host
			}
			r.Count("policy.trailing-dot-pair")
		}
		viaN := rng.Range(1, 4)
		via := []authority{o}
		for len(via) < viaN {
			via = append(via, genAuthority(rng))
		}
		var viaReqs []*http.Request
		var viaStr []string
		for _, v := range via {
			viaReqs = append(viaReqs, mkReq(v.render()))
			viaStr = append(viaStr, v.render())
		}
		var pol req.RedirectPolicy
		var coqPol, name string
		var want bool
		switch k := rng.Intn(7); k {
		case 6:
			// DefaultRedirectPolicy: documented as "allows up to 10 redirects"
			for len(via) < rng.Range(8, 12) {
				via = append(via, mutateAuthority(rng, o))
			}
			viaReqs, viaStr = nil, nil
			for _, v := range via {
				viaReqs = append(viaReqs, mkReq(v.render()))
				viaStr = append(viaStr, v.render())
			}
			pol, coqPol, name = req.DefaultRedirectPolicy(), "PDefault", "default"
			want = len(via) < 10
		case 0:
			lim := rng.Range(-1, 5)
			pol, coqPol, name = req.MaxRedirectPolicy(lim), "(PMax "+hk.CoqZ(int64(lim))+")", "max"
			want = len(via) < lim
		case 1:
			pol, coqPol, name = req.NoRedirectPolicy(), "PNo", "no"
			want = false
		case 2:
			pol, coqPol, name = req.SameHostRedirectPolicy(), "PSameHost", "samehost"
			want = oracleHostname(t) == oracleHostname(o)
		case 3:
			pol, coqPol, name = req.SameDomainRedirectPolicy(), "PSameDomain", "samedomain"
			want = oracleDomain(t) == oracleDomain(o)
		case 4, 5:
			m := rng.Range(0, 3)
			var hs []string
			var as []authority
			for j := 0; j < m; j++ {
				var h authority
				if rng.Chance(50) {
					h = mutateAuthority(rng, t)
				} else {
					h = genAuthority(rng)
				}
				as = append(as, h)
				hs = append(hs, h.render())
			}
			for nb := rng.Intn(8) - 5; nb > 0; nb-- { // 25 %: one or two blank entries, which name no host
				hs = append(hs, []string{"", " "}[nb%2])
			}
			mode := rng.Intn(4)
			if k == 4 {
				coqPol, name = "(PAllowedHost "+hk.CoqStrList(hs)+")", "allowedhost"
				pol = mkAllowed(false, hs, mode)
				for _, h := range as {
					if oracleHostname(h) == oracleHostname(t) {
						want = true
					}
				}
			} else {
				coqPol, name = "(PAllowedDomain "+hk.CoqStrList(hs)+")", "alloweddomain"
				pol = mkAllowed(true, hs, mode)
				for _, h := range as {
					if oracleDomain(h) == oracleDomain(t) {
						want = true
					}
				}
			}
			r.Count(fmt.Sprintf("policy.allowed.slice-mode=%d", mode))
		}
		// a constructor that hands back nil installs NO policy (SetRedirectPolicy skips nil entries): the hop is permitted
		got, panicked := true, ""
		if pol == nil {
			r.Fail(hk.Failure{Sig: "policy:" + name + ":nil-policy", What: "the constructor returned a nil RedirectPolicy: installed through SetRedirectPolicy it restricts nothing",
				Input: map[string]interface{}{"policy": coqPol, "target": t.render(), "via": viaStr}, Got: "nil", Want: want})
		} else {
			func() {
				defer func() {
					if x := recover(); x != nil {
						panicked = fmt.Sprint(x)
					}
				}()
				got = pol(mkReq(t.render()), viaReqs) == nil
			}()
			if panicked != "" {
				r.Fail(hk.Failure{Sig: "policy:" + name + ":panic", What: "the policy panicked", Input: map[string]interface{}{"policy": coqPol, "target": t.render(), "via": viaStr}, Got: panicked})
			}
		}
		r.Count("policy=" + name)
		r.Count(fmt.Sprintf("policy.allowed=%v", got))
		if got != want {
			r.Fail(hk.Failure{Sig: "policy:" + name + ":" + c11Shape(t) + "/" + c11Shape(o), What: "policy decision differs from the property's host-identity rule",
				Input: map[string]interface{}{"policy": coqPol, "target": t.render(), "via": viaStr}, Got: got, Want: want})
		}
		r.Add(hk.Case{Coq: fmt.Sprintf("PolicyCase %s %s %s %s", coqPol, hk.CoqStr(t.render()), hk.CoqStrList(viaStr), hk.CoqBool(got)),
			Desc: map[string]interface{}{"kind": "policy", "policy": coqPol, "target": t.render(), "via": viaStr, "allowed": got}},
			"p|"+coqPol+"|"+t.render()+"|"+strings.Join(viaStr, ","), t.render() != o.render())
	}

	c11OddV6 = false
	// (b) end-to-end: single chains, client operation sequences, concurrent chains (chains.go)
	c11EndToEnd(r, rng)
}

func urlHostname(hostport string) string {
	u, err := url.Parse("http://" + hostport + "/")
	if err != nil {
		return hostport
	}
	return u.Hostname()
}

func c11Shape(a authority) string {
	p := "noport"
	if a.Port != nil {
		if *a.Port == "" {
			p = "emptyport"
		} else {
			p = "port"
		}
	}
	return a.Kind + "-" + p
}

